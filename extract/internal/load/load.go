// Package load loads packages of the AdGuard Home module with full type
// information for the fact extractors (translator tie, DESIGN §1.3 step 1).
package load

import (
	"fmt"
	"os"

	"golang.org/x/tools/go/packages"
)

// Repo returns the repository root (VERIF_REPO or /repo).
func Repo() string {
	if r := os.Getenv("VERIF_REPO"); r != "" {
		return r
	}

	return "/repo"
}

// Packages loads the given patterns (e.g. "./internal/...") from the repo with
// syntax and types.  Any load or type error aborts: an extractor never works
// from a partial view of the program.
func Packages(patterns ...string) []*packages.Package {
	cfg := &packages.Config{
		Mode: packages.NeedName | packages.NeedFiles | packages.NeedSyntax | packages.NeedTypes |
			packages.NeedTypesInfo | packages.NeedImports | packages.NeedDeps | packages.NeedModule,
		Dir: Repo(),
		Env: append(os.Environ(), "GOFLAGS=-mod=mod", "GOPROXY=off", "GOSUMDB=off", "GOTOOLCHAIN=local", "GOOS=linux"),
	}
	pkgs, err := packages.Load(cfg, patterns...)
	if err != nil {
		fmt.Fprintln(os.Stderr, "extract: load:", err)
		os.Exit(2)
	}
	if packages.PrintErrors(pkgs) > 0 {
		os.Exit(2)
	}

	return pkgs
}
