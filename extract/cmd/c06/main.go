// Command c06 is the fact extractor of property C06 (translator tie of the
// part of the model that the correspondence check can only sample: which table
// state an evaluation sees, and the order of the steps of the CNAME loop the
// termination proof rests on).  From the typed syntax of internal/filtering it
// regenerates
//
//	lean/AGH/Gen/C06Sites.lean   the facts, as the source states them
//	build/C06/facts.json         the same with file:line
//
// Facts:
//
//   - every access to the field Config.Rewrites in the non-test files of the
//     package: enclosing function, read or write, and the guard — "W" when a
//     `X.confMu.Lock()` statement followed by `defer X.confMu.Unlock()` opens an
//     enclosing function body (declaration or literal) before the access, "R"
//     for RLock/RUnlock, "none" otherwise;
//   - the head of (*DNSFilter).processRewrites: whether its first two statements
//     are `d.confMu.RLock()` and `defer d.confMu.RUnlock()` and whether any
//     other statement of the body mentions confMu (an early unlock);
//   - every call of findRewrites in the package: enclosing function and whether
//     the first argument is the field Config.Rewrites itself (not a snapshot
//     variable);
//   - the functions that call prepareRewrites (the only access outside the lock
//     is construction-time normalisation);
//   - the events of the single CNAME `for` loop of processRewrites in source
//     order: return, break, assign-host, has, add, lookup.
//
// A missing / duplicated function or loop aborts with file:line — a broken
// tie, never a default.
package main

import (
	"encoding/json"
	"fmt"
	"go/ast"
	"go/token"
	"go/types"
	"os"
	"path/filepath"
	"sort"
	"strings"

	"golang.org/x/tools/go/packages"

	"verif/extract/internal/load"
)

const fltPkg = "github.com/AdguardTeam/AdGuardHome/internal/filtering"

var (
	fset *token.FileSet
	info *types.Info
)

func die(pos token.Pos, format string, args ...any) {
	fmt.Fprintf(os.Stderr, "extract c06: %s: %s\n", fset.Position(pos), fmt.Sprintf(format, args...))
	os.Exit(2)
}

type site struct {
	Func  string `json:"func"`
	Kind  string `json:"kind"`
	Guard string `json:"guard"`
	Pos   string `json:"pos"`
}

// muCall reports whether e is a call `<anything>.confMu.<method>()`.
func muCall(e ast.Expr, method string) bool {
	ce, ok := e.(*ast.CallExpr)
	if !ok || len(ce.Args) != 0 {
		return false
	}
	sel, ok := ce.Fun.(*ast.SelectorExpr)
	if !ok || sel.Sel.Name != method {
		return false
	}
	in, ok := sel.X.(*ast.SelectorExpr)

	return ok && in.Sel.Name == "confMu"
}

// guardOf returns the guard a function body gives to an access at pos: the
// body must contain, as direct statements and before pos, the lock call
// immediately followed by the matching deferred unlock.
func guardOf(body *ast.BlockStmt, pos token.Pos) string {
	for i := 0; i+1 < len(body.List); i++ {
		es, ok := body.List[i].(*ast.ExprStmt)
		if !ok || body.List[i+1].Pos() > pos {
			continue
		}
		ds, ok := body.List[i+1].(*ast.DeferStmt)
		if !ok {
			continue
		}
		switch {
		case muCall(es.X, "Lock") && muCall(ds.Call, "Unlock"):
			return "W"
		case muCall(es.X, "RLock") && muCall(ds.Call, "RUnlock"):
			return "R"
		}
	}

	return ""
}

func funcName(fd *ast.FuncDecl) string {
	if fd.Recv != nil && len(fd.Recv.List) == 1 {
		t := fd.Recv.List[0].Type
		if st, ok := t.(*ast.StarExpr); ok {
			t = st.X
		}
		if id, ok := t.(*ast.Ident); ok {
			return id.Name + "." + fd.Name.Name
		}
	}

	return fd.Name.Name
}

// isRewritesField reports whether e selects the field Rewrites of the
// package's Config type.
func isRewritesField(e ast.Expr) bool {
	sel, ok := e.(*ast.SelectorExpr)
	if !ok || sel.Sel.Name != "Rewrites" {
		return false
	}
	v, ok := info.Uses[sel.Sel].(*types.Var)
	if !ok || !v.IsField() || v.Pkg() == nil || v.Pkg().Path() != fltPkg {
		return false
	}
	s := info.Selections[sel]
	if s == nil {
		return false
	}
	t := s.Recv()
	if p, isPtr := t.(*types.Pointer); isPtr {
		t = p.Elem()
	}
	n, ok := t.(*types.Named)

	return ok && n.Obj().Name() == "Config"
}

func leanStr(s string) string { return fmt.Sprintf("%q", s) }

func main() {
	pkgs := load.Packages("./internal/filtering")
	var pkg *packages.Package
	for _, p := range pkgs {
		if p.PkgPath == fltPkg {
			pkg = p
		}
	}
	if pkg == nil {
		fmt.Fprintln(os.Stderr, "extract c06: package filtering not loaded")
		os.Exit(2)
	}
	fset, info = pkg.Fset, pkg.TypesInfo

	var sites []site
	type lookup struct {
		Func   string `json:"func"`
		Direct bool   `json:"direct"`
		Pos    string `json:"pos"`
	}
	var lookups []lookup
	var process *ast.FuncDecl
	var prepCallers []string

	for _, f := range pkg.Syntax {
		if strings.HasSuffix(fset.Position(f.Pos()).Filename, "_test.go") {
			continue
		}
		for _, d := range f.Decls {
			fd, ok := d.(*ast.FuncDecl)
			if !ok || fd.Body == nil {
				continue
			}
			name := funcName(fd)
			if name == "DNSFilter.processRewrites" {
				if process != nil {
					die(fd.Pos(), "duplicate processRewrites")
				}
				process = fd
			}
			writes := map[ast.Expr]bool{}
			ast.Inspect(fd.Body, func(n ast.Node) bool {
				if as, isAs := n.(*ast.AssignStmt); isAs {
					for _, l := range as.Lhs {
						writes[l] = true
					}
				}

				return true
			})
			var stack []ast.Node
			ast.Inspect(fd.Body, func(n ast.Node) bool {
				if n == nil {
					stack = stack[:len(stack)-1]

					return true
				}
				stack = append(stack, n)
				switch x := n.(type) {
				case *ast.SelectorExpr:
					if !isRewritesField(x) {
						return true
					}
					g := guardOf(fd.Body, x.Pos())
					for _, s := range stack {
						if fl, isLit := s.(*ast.FuncLit); isLit && g == "" {
							g = guardOf(fl.Body, x.Pos())
						}
					}
					if g == "" {
						g = "none"
					}
					kind := "read"
					if writes[x] {
						kind = "write"
					}
					sites = append(sites, site{Func: name, Kind: kind, Guard: g, Pos: fset.Position(x.Pos()).String()})
				case *ast.CallExpr:
					if sel, isSel := x.Fun.(*ast.SelectorExpr); isSel && sel.Sel.Name == "prepareRewrites" {
						prepCallers = append(prepCallers, name)
					}
					if id, isID := x.Fun.(*ast.Ident); isID && id.Name == "findRewrites" {
						if len(x.Args) != 3 {
							die(x.Pos(), "findRewrites with %d arguments", len(x.Args))
						}
						lookups = append(lookups, lookup{Func: name, Direct: isRewritesField(x.Args[0]), Pos: fset.Position(x.Pos()).String()})
					}
				}

				return true
			})
		}
	}
	if process == nil {
		fmt.Fprintln(os.Stderr, "extract c06: (*DNSFilter).processRewrites not found")
		os.Exit(2)
	}

	// Head of processRewrites.
	head := false
	if l := process.Body.List; len(l) >= 2 {
		es, ok1 := l[0].(*ast.ExprStmt)
		ds, ok2 := l[1].(*ast.DeferStmt)
		head = ok1 && ok2 && muCall(es.X, "RLock") && muCall(ds.Call, "RUnlock")
	}
	otherMu := 0
	for i, st := range process.Body.List {
		if i < 2 && head {
			continue
		}
		ast.Inspect(st, func(n ast.Node) bool {
			if sel, ok := n.(*ast.SelectorExpr); ok && sel.Sel.Name == "confMu" {
				otherMu++
			}

			return true
		})
	}

	// The CNAME loop.
	var loops []*ast.ForStmt
	for _, st := range process.Body.List {
		if fs, ok := st.(*ast.ForStmt); ok {
			loops = append(loops, fs)
		}
	}
	if len(loops) != 1 {
		die(process.Pos(), "processRewrites: expected exactly one top-level for loop, found %d", len(loops))
	}
	var events []string
	ast.Inspect(loops[0].Body, func(n ast.Node) bool {
		switch x := n.(type) {
		case *ast.FuncLit:
			die(x.Pos(), "function literal inside the CNAME loop")
		case *ast.ReturnStmt:
			events = append(events, "return")
		case *ast.BranchStmt:
			events = append(events, x.Tok.String())
		case *ast.AssignStmt:
			for _, l := range x.Lhs {
				if id, ok := l.(*ast.Ident); ok && id.Name == "host" {
					events = append(events, "assign-host")
				}
			}
		case *ast.CallExpr:
			switch fn := x.Fun.(type) {
			case *ast.Ident:
				if fn.Name == "findRewrites" {
					// Emitted after its enclosing assignment is visited; the
					// assignment's targets are not `host`, so order is kept.
					events = append(events, "lookup")
				}
			case *ast.SelectorExpr:
				if id, ok := fn.X.(*ast.Ident); ok && id.Name == "cnames" {
					events = append(events, strings.ToLower(fn.Sel.Name))
				}
			}
		}

		return true
	})

	sort.SliceStable(sites, func(i, j int) bool {
		a, b := sites[i], sites[j]
		if a.Func != b.Func {
			return a.Func < b.Func
		}
		if a.Kind != b.Kind {
			return a.Kind < b.Kind
		}

		return a.Guard < b.Guard
	})
	// Distinct (func, kind, guard) rows for the Lean table; every site stays in facts.json.
	type row struct{ f, k, g string }
	var rows []row
	for _, s := range sites {
		r := row{s.Func, s.Kind, s.Guard}
		if len(rows) == 0 || rows[len(rows)-1] != r {
			rows = append(rows, r)
		}
	}
	sort.SliceStable(lookups, func(i, j int) bool { return lookups[i].Pos < lookups[j].Pos })

	var sb strings.Builder
	sb.WriteString("/- GENERATED by /verif/extract/cmd/c06 from internal/filtering (non-test files) — do not edit. -/\n")
	sb.WriteString("namespace AGH.Gen.C06\n\n")
	sb.WriteString("/-- Distinct (function, read/write, guard) rows of the accesses to `Config.Rewrites`;\nguard: \"W\" = under `confMu.Lock`, \"R\" = under `confMu.RLock`, \"none\". -/\n")
	sb.WriteString("def tableSites : List (String × String × String) := [\n")
	for i, r := range rows {
		sep := ","
		if i == len(rows)-1 {
			sep = ""
		}
		fmt.Fprintf(&sb, "  (%s, %s, %s)%s\n", leanStr(r.f), leanStr(r.k), leanStr(r.g), sep)
	}
	sb.WriteString("]\n\n")
	fmt.Fprintf(&sb, "/-- processRewrites opens with `d.confMu.RLock(); defer d.confMu.RUnlock()`. -/\ndef evalHeadLocked : Bool := %v\n\n", head)
	fmt.Fprintf(&sb, "/-- Other mentions of confMu in the body of processRewrites (an early unlock would be one). -/\ndef evalOtherLockOps : Nat := %d\n\n", otherMu)
	sb.WriteString("/-- Calls of findRewrites: (enclosing function, first argument is the field Config.Rewrites itself). -/\n")
	sb.WriteString("def lookupSites : List (String × Bool) := [")
	for i, l := range lookups {
		if i > 0 {
			sb.WriteString(", ")
		}
		fmt.Fprintf(&sb, "(%s, %v)", leanStr(l.Func), l.Direct)
	}
	sb.WriteString("]\n\n")
	sort.Strings(prepCallers)
	sb.WriteString("/-- Functions calling prepareRewrites (the one access outside the lock). -/\n")
	sb.WriteString("def prepareCallers : List String := [")
	for i, c := range prepCallers {
		if i > 0 {
			sb.WriteString(", ")
		}
		sb.WriteString(leanStr(c))
	}
	sb.WriteString("]\n\n")
	sb.WriteString("/-- Events of the CNAME loop body of processRewrites in source order. -/\n")
	sb.WriteString("def loopEvents : List String := [")
	for i, e := range events {
		if i > 0 {
			sb.WriteString(", ")
		}
		sb.WriteString(leanStr(e))
	}
	sb.WriteString("]\n\nend AGH.Gen.C06\n")

	root, _ := filepath.Abs(filepath.Join("..", ""))
	if wd, err := os.Getwd(); err == nil && filepath.Base(wd) != "extract" {
		root = wd
	}
	out := filepath.Join(root, "lean", "AGH", "Gen", "C06Sites.lean")
	_ = os.Remove(out)
	if err := os.WriteFile(out, []byte(sb.String()), 0o644); err != nil {
		fmt.Fprintln(os.Stderr, "extract c06:", err)
		os.Exit(2)
	}
	_ = os.MkdirAll(filepath.Join(root, "build", "C06"), 0o755)
	js, _ := json.MarshalIndent(map[string]any{
		"summary": map[string]any{"table_access_sites": len(sites), "distinct_rows": len(rows), "lookup_sites": len(lookups), "loop_events": len(events), "repo": load.Repo()},
		"sites":   sites, "lookups": lookups, "loop_events": events,
	}, "", " ")
	if err := os.WriteFile(filepath.Join(root, "build", "C06", "facts.json"), js, 0o644); err != nil {
		fmt.Fprintln(os.Stderr, "extract c06:", err)
		os.Exit(2)
	}
	fmt.Printf("c06: %d table access sites (%d distinct rows), %d lookups, %d loop events\n", len(sites), len(rows), len(lookups), len(events))
}
