// Command c14 is the fact extractor of property C14 (translator tie).
//
// It lists every call in the AdGuard Home module (non-test files of
// ./internal/... and the main package, GOOS=linux) that can create, overwrite,
// rename or remove a file, classifies the provenance of its path argument
// (configuration file, DHCP lease database, filter-list file, other), checks
// that every pending temporary file is finalised on all paths, and writes
//
//	lean/AGH/Gen/C14WriteSites.lean   (table the theorems of Props/C14 quantify over)
//	build/C14/facts.json              (the same facts with names, for people)
//
// Anything it does not understand is a fatal error with file:line — a broken
// tie, never a silent default.
package main

import (
	"encoding/json"
	"fmt"
	"go/ast"
	"go/constant"
	"go/token"
	"go/types"
	"os"
	"path/filepath"
	"sort"
	"strings"

	"golang.org/x/tools/go/packages"

	"verif/extract/internal/load"
)

// Operation codes (keep in sync with lean/AGH/Props/C14.lean).
const (
	opAtomicWrite = 0  // maybe.WriteFile / renameio.WriteFile
	opPendingFile = 1  // aghrenameio.NewPendingFile / renameio.NewPendingFile / renameio.TempFile
	opPlainWrite  = 2  // os.WriteFile, os.Create, os.OpenFile(O_TRUNC), os.Truncate
	opInplaceOpen = 3  // os.OpenFile for writing without O_TRUNC/O_APPEND
	opAppendOpen  = 4  // os.OpenFile(O_APPEND)
	opRenameOnto  = 5  // os.Rename: second argument
	opRenameFrom  = 6  // os.Rename: first argument
	opRemove      = 7  // os.Remove, os.RemoveAll
	opTempCreate  = 8  // os.CreateTemp (directory argument)
	opLink        = 9  // os.Link, os.Symlink: created name
	opLibOpen     = 10 // bbolt.Open
)

var opNames = map[int]string{
	0: "atomicWrite", 1: "pendingFile", 2: "plainWrite", 3: "inplaceOpen", 4: "appendOpen",
	5: "renameOnto", 6: "renameFrom", 7: "remove", 8: "tempCreate", 9: "link", 10: "libOpen",
}

// Provenance bits.
const (
	provOther  = 1
	provConfig = 2
	provLeases = 4
	provFilter = 8
)

// Finalisation codes of pending files.
const (
	finNA       = 0
	finDeferred = 1 // closed by a deferred finaliser right after creation, on all paths
	finHandoff  = 2 // the wrapper returns it to its caller (aghrenameio itself)
	finMissing  = 3
)

const modPath = "github.com/AdguardTeam/AdGuardHome"

type calleeSpec struct {
	op      int
	pathArg int
}

// callees are the recognised file-mutating functions.
var callees = map[string][]calleeSpec{
	"os.WriteFile":        {{opPlainWrite, 0}},
	"io/ioutil.WriteFile": {{opPlainWrite, 0}},
	"os.Create":           {{opPlainWrite, 0}},
	"os.Truncate":         {{opPlainWrite, 0}},
	"os.OpenFile":         {{-1, 0}}, // by flags
	"os.CreateTemp":       {{opTempCreate, 0}},
	"io/ioutil.TempFile":  {{opTempCreate, 0}},
	"os.Rename":           {{opRenameFrom, 0}, {opRenameOnto, 1}},
	"os.Remove":           {{opRemove, 0}},
	"os.RemoveAll":        {{opRemove, 0}},
	"os.Link":             {{opLink, 1}},
	"os.Symlink":          {{opLink, 1}},
	"github.com/google/renameio/v2/maybe.WriteFile":  {{opAtomicWrite, 0}},
	"github.com/google/renameio/v2.WriteFile":        {{opAtomicWrite, 0}},
	"github.com/google/renameio/v2.NewPendingFile":   {{opPendingFile, 0}},
	"github.com/google/renameio/v2.TempFile":         {{opPendingFile, 1}},
	"github.com/google/renameio/v2.Symlink":          {{opLink, 1}},
	modPath + "/internal/aghrenameio.NewPendingFile": {{opPendingFile, 0}},
	modPath + "/internal/aghrenameio.newPendingFile": {{opPendingFile, 0}},
	"go.etcd.io/bbolt.Open":                          {{opLibOpen, 0}},
}

type site struct {
	ID      int    `json:"id"`
	Pos     string `json:"pos"`
	Func    string `json:"func"`
	Callee  string `json:"callee"`
	Op      int    `json:"op"`
	OpName  string `json:"op_name"`
	Prov    int    `json:"prov"`
	ProvTxt string `json:"prov_text"`
	Derived bool   `json:"derived"`
	Fin     int    `json:"fin"`
	FinTxt  string `json:"fin_text,omitempty"`
	Path    string `json:"path_expr"`
	// Reviewed: for a call that makes a durable path disappear or rebinds it
	// without the atomic writer, the 1-based index of its entry in
	// reviewedRemovals (0: not reviewed).
	Reviewed  int    `json:"reviewed"`
	ReviewTxt string `json:"review_text,omitempty"`
}

// reviewedRemovals are the only calls allowed to remove or rename away one of the
// three durable files.  Each entry stands for exactly one call, identified by the
// enclosing function, the callee and the text of the path argument.
var reviewedRemovals = []struct{ fn, callee, path, why string }{
	{
		modPath + "/internal/dhcpd.server.handleReset", "os.Remove", "s.conf.dbFilePath",
		"POST /control/dhcp/reset: the user asks to forget every lease and the configuration; the " +
			"database is deleted as a whole on purpose; this is not a save",
	},
	{
		modPath + "/internal/filtering.DNSFilter.handleFilteringRemoveURL", "os.Rename", "p",
		"POST /control/filtering/remove_url: the list itself is removed from the configuration; its " +
			"file is moved to <id>.txt.old (removed after the next refresh); this is not a save",
	},
}

type extractor struct {
	pkgs  []*packages.Package
	fset  *token.FileSet
	repo  string
	sites []*site
	// funcs maps a function object to its declaration and package.
	funcs map[*types.Func]funcInfo
	// callsOf maps a function object to the calls of it in the module.
	callsOf map[*types.Func][]callInfo
	// finalisers examined: "pkg.func#param" -> verdict
	finalisers map[string]bool
	// outside: durable file names seen in path expressions of other packages
	outside map[string]bool
	// wrapperOK: aghrenameio.pendingFile.{CloseReplace,Cleanup,Write} do nothing
	// but delegate to renameio's CloseAtomicallyReplace, Cleanup and os.File.Write
	wrapperOK [3]bool
	// limiters: every size-limiting wrapper in the module
	limiters []*limiter
	// reviewUsed: entries of reviewedRemovals already matched by a site
	reviewUsed map[int]bool
}

// Limiter kinds.
const (
	limSilent   = 1 // ends the stream with a clean io.EOF / copies at most n bytes: the consumer cannot tell
	limErroring = 2 // returns an error at the limit: the save is abandoned through Cleanup
)

// limiterCallees are the recognised size-limiting wrappers.
var limiterCallees = map[string]int{
	"io.LimitReader":          limSilent,
	"io.CopyN":                limSilent,
	"io.NewSectionReader":     limSilent,
	"net/http.MaxBytesReader": limErroring,
	"github.com/AdguardTeam/golibs/ioutil.LimitReader": limErroring,
}

type limiter struct {
	ID      int    `json:"id"`
	Pos     string `json:"pos"`
	Func    string `json:"func"`
	What    string `json:"what"`
	Kind    int    `json:"kind"`
	KindTxt string `json:"kind_text"`
	// Durable: inside the static callee closure of a function that writes one of
	// the three durable files through the atomic writer.
	Durable bool `json:"on_durable_save_path"`
	// Atomic: the same for any atomic writer / pending file, whatever its path.
	Atomic bool `json:"on_any_atomic_save_path"`
}

type funcInfo struct {
	decl *ast.FuncDecl
	pkg  *packages.Package
}

type callInfo struct {
	call *ast.CallExpr
	pkg  *packages.Package
	fn   *ast.FuncDecl
}

func (x *extractor) pos(p token.Pos) string {
	ps := x.fset.Position(p)
	rel, err := filepath.Rel(x.repo, ps.Filename)
	if err != nil {
		rel = ps.Filename
	}

	return fmt.Sprintf("%s:%d", rel, ps.Line)
}

func (x *extractor) fatal(p token.Pos, format string, args ...any) {
	fmt.Fprintf(os.Stderr, "extract c14: %s: %s\n", x.pos(p), fmt.Sprintf(format, args...))
	os.Exit(3)
}

func fullName(f *types.Func) string {
	if f.Pkg() == nil {
		return f.Name()
	}
	sig, _ := f.Type().(*types.Signature)
	if sig != nil && sig.Recv() != nil {
		t := sig.Recv().Type()
		if p, ok := t.(*types.Pointer); ok {
			t = p.Elem()
		}
		if n, ok := t.(*types.Named); ok {
			return f.Pkg().Path() + "." + n.Obj().Name() + "." + f.Name()
		}
	}

	return f.Pkg().Path() + "." + f.Name()
}

// calleeOf resolves the function a call expression calls, nil for conversions,
// builtins, closures and interface methods of unknown implementation.
func calleeOf(info *types.Info, call *ast.CallExpr) *types.Func {
	var id *ast.Ident
	switch f := ast.Unparen(call.Fun).(type) {
	case *ast.Ident:
		id = f
	case *ast.SelectorExpr:
		id = f.Sel
	case *ast.IndexExpr:
		switch g := ast.Unparen(f.X).(type) {
		case *ast.Ident:
			id = g
		case *ast.SelectorExpr:
			id = g.Sel
		}
	}
	if id == nil {
		return nil
	}
	fn, _ := info.Uses[id].(*types.Func)

	return fn
}

func main() {
	x := &extractor{
		repo:       load.Repo(),
		funcs:      map[*types.Func]funcInfo{},
		callsOf:    map[*types.Func][]callInfo{},
		finalisers: map[string]bool{},
		outside:    map[string]bool{},
		reviewUsed: map[int]bool{},
	}
	x.pkgs = load.Packages("./internal/...", ".")
	if len(x.pkgs) == 0 {
		fmt.Fprintln(os.Stderr, "extract c14: no packages")
		os.Exit(2)
	}
	x.fset = x.pkgs[0].Fset

	sort.Slice(x.pkgs, func(i, j int) bool { return x.pkgs[i].PkgPath < x.pkgs[j].PkgPath })
	x.index()
	x.collect()
	x.wrapper()
	x.collectLimiters()
	x.write()
}

// index records declarations and call sites of all module functions, and
// rejects uses of a file-mutating function as a value.
func (x *extractor) index() {
	for _, pkg := range x.pkgs {
		for _, file := range pkg.Syntax {
			for _, d := range file.Decls {
				fd, ok := d.(*ast.FuncDecl)
				if !ok {
					continue
				}
				if obj, isFn := pkg.TypesInfo.Defs[fd.Name].(*types.Func); isFn {
					x.funcs[obj] = funcInfo{decl: fd, pkg: pkg}
				}
			}
		}
	}
	for _, pkg := range x.pkgs {
		for _, file := range pkg.Syntax {
			called := map[*ast.Ident]bool{}
			var cur *ast.FuncDecl
			ast.Inspect(file, func(n ast.Node) bool {
				switch v := n.(type) {
				case *ast.FuncDecl:
					cur = v
				case *ast.CallExpr:
					if fn := calleeOf(pkg.TypesInfo, v); fn != nil {
						switch f := ast.Unparen(v.Fun).(type) {
						case *ast.Ident:
							called[f] = true
						case *ast.SelectorExpr:
							called[f.Sel] = true
						}
						x.callsOf[fn] = append(x.callsOf[fn], callInfo{call: v, pkg: pkg, fn: cur})
					}
				}

				return true
			})
			for id, obj := range pkg.TypesInfo.Uses {
				fn, ok := obj.(*types.Func)
				if !ok || called[id] {
					continue
				}
				if id.Pos() < file.Pos() || id.Pos() > file.End() {
					continue
				}
				if _, tracked := callees[fullName(fn)]; tracked {
					x.fatal(id.Pos(), "file-mutating function %s used as a value (not a direct call)", fullName(fn))
				}
			}
		}
	}
}

func (x *extractor) collect() {
	for _, pkg := range x.pkgs {
		files := append([]*ast.File{}, pkg.Syntax...)
		sort.Slice(files, func(i, j int) bool {
			return x.fset.Position(files[i].Pos()).Filename < x.fset.Position(files[j].Pos()).Filename
		})
		for _, file := range files {
			for _, d := range file.Decls {
				fd, ok := d.(*ast.FuncDecl)
				if !ok || fd.Body == nil {
					// Package-level initialisers are inspected below.
					continue
				}
				x.collectIn(pkg, fd, fd.Body)
			}
			for _, d := range file.Decls {
				gd, ok := d.(*ast.GenDecl)
				if !ok {
					continue
				}
				ast.Inspect(gd, func(n ast.Node) bool {
					if call, isCall := n.(*ast.CallExpr); isCall {
						if fn := calleeOf(pkg.TypesInfo, call); fn != nil {
							if _, tracked := callees[fullName(fn)]; tracked {
								x.fatal(call.Pos(), "file-mutating call in a package-level initialiser")
							}
						}
					}

					return true
				})
			}
		}
	}
}

func (x *extractor) collectIn(pkg *packages.Package, fd *ast.FuncDecl, body *ast.BlockStmt) {
	ast.Inspect(body, func(n ast.Node) bool {
		call, ok := n.(*ast.CallExpr)
		if !ok {
			return true
		}
		fn := calleeOf(pkg.TypesInfo, call)
		if fn == nil {
			return true
		}
		name := fullName(fn)
		specs, tracked := callees[name]
		if !tracked {
			return true
		}
		for _, sp := range specs {
			op := sp.op
			if op == -1 {
				op = x.openFileOp(pkg, call)
				if op == -2 {
					continue // read-only open
				}
			}
			if sp.pathArg >= len(call.Args) {
				x.fatal(call.Pos(), "call of %s has too few arguments", name)
			}
			arg := call.Args[sp.pathArg]
			prov, derived := x.prov(pkg, fd, arg, map[types.Object]bool{}, 0)
			s := &site{
				ID: len(x.sites), Pos: x.pos(call.Pos()), Func: x.funcName(pkg, fd), Callee: name,
				Op: op, OpName: opNames[op], Prov: prov, ProvTxt: provText(prov), Derived: derived,
				Path: x.exprText(arg),
			}
			if op == opPendingFile {
				s.Fin, s.FinTxt = x.finalisation(pkg, fd, call)
			}
			if op != opAtomicWrite && op != opPendingFile && prov&^provOther != 0 && !derived {
				for i, rv := range reviewedRemovals {
					if rv.fn == s.Func && rv.callee == name && rv.path == s.Path && !x.reviewUsed[i] {
						x.reviewUsed[i] = true
						s.Reviewed, s.ReviewTxt = i+1, rv.why

						break
					}
				}
			}
			x.sites = append(x.sites, s)
		}

		return true
	})
}

func (x *extractor) funcName(pkg *packages.Package, fd *ast.FuncDecl) string {
	if obj, ok := pkg.TypesInfo.Defs[fd.Name].(*types.Func); ok {
		return fullName(obj)
	}

	return pkg.PkgPath + "." + fd.Name.Name
}

func (x *extractor) exprText(e ast.Expr) string {
	p1, p2 := x.fset.Position(e.Pos()), x.fset.Position(e.End())
	b, err := os.ReadFile(p1.Filename)
	if err != nil || p2.Offset > len(b) {
		return ""
	}

	return string(b[p1.Offset:p2.Offset])
}

func provText(p int) string {
	var parts []string
	for _, kv := range []struct {
		bit  int
		name string
	}{{provConfig, "config"}, {provLeases, "leases"}, {provFilter, "filter"}, {provOther, "other"}} {
		if p&kv.bit != 0 {
			parts = append(parts, kv.name)
		}
	}

	return strings.Join(parts, "|")
}

// openFileOp classifies os.OpenFile by its (constant) flags; -2 = read-only.
func (x *extractor) openFileOp(pkg *packages.Package, call *ast.CallExpr) int {
	if len(call.Args) < 2 {
		x.fatal(call.Pos(), "os.OpenFile with too few arguments")
	}
	tv, ok := pkg.TypesInfo.Types[call.Args[1]]
	if !ok || tv.Value == nil {
		x.fatal(call.Args[1].Pos(), "os.OpenFile flags are not a compile-time constant")
	}
	v, exact := constant.Int64Val(tv.Value)
	if !exact {
		x.fatal(call.Args[1].Pos(), "os.OpenFile flags do not fit int64")
	}
	const (
		oWRONLY = 0x1
		oRDWR   = 0x2
		oCREAT  = 0x40
		oTRUNC  = 0x200
		oAPPEND = 0x400
	)
	switch {
	case v&oTRUNC != 0:
		return opPlainWrite
	case v&oAPPEND != 0:
		return opAppendOpen
	case v&(oWRONLY|oRDWR|oCREAT) != 0:
		return opInplaceOpen
	default:
		return -2
	}
}

// durableConst classifies a string constant by the well-known file names.  The
// name counts only inside the package that owns the file: elsewhere (the
// updater's backup and check copies of the configuration) a file of the same
// base name in another directory is a different file; such matches are listed
// in facts.json as name_matches_outside_owner.
func (x *extractor) durableConst(pkg *packages.Package, pos token.Pos, s string) int {
	kind, owners := 0, []string(nil)
	switch {
	case strings.Contains(s, "AdGuardHome.yaml"):
		kind, owners = provConfig, []string{modPath + "/internal/home", modPath}
	case strings.Contains(s, "leases.json"):
		kind, owners = provLeases, []string{modPath + "/internal/dhcpd", modPath + "/internal/dhcpsvc", modPath + "/internal/home"}
	default:
		return 0
	}
	for _, o := range owners {
		if pkg.PkgPath == o {
			return kind
		}
	}
	x.outside[x.pos(pos)+" "+s] = true

	return 0
}

// prov computes where the path expression e comes from.  derived reports that
// the path is built from a durable path by appending a suffix (another file).
func (x *extractor) prov(
	pkg *packages.Package,
	fd *ast.FuncDecl,
	e ast.Expr,
	seen map[types.Object]bool,
	depth int,
) (p int, derived bool) {
	if depth > 12 {
		x.fatal(e.Pos(), "path provenance too deep")
	}
	info := pkg.TypesInfo
	if tv, ok := info.Types[e]; ok && tv.Value != nil && tv.Value.Kind() == constant.String {
		if k := x.durableConst(pkg, e.Pos(), constant.StringVal(tv.Value)); k != 0 {
			return k, false
		}

		return provOther, false
	}
	switch v := e.(type) {
	case *ast.ParenExpr:
		return x.prov(pkg, fd, v.X, seen, depth+1)
	case *ast.BasicLit:
		return provOther, false
	case *ast.BinaryExpr:
		if v.Op != token.ADD {
			x.fatal(e.Pos(), "unsupported operator %s in a path expression", v.Op)
		}
		pl, _ := x.prov(pkg, fd, v.X, seen, depth+1)
		pr, _ := x.prov(pkg, fd, v.Y, seen, depth+1)
		if (pl|pr)&^provOther != 0 {
			// A durable path with something appended names a different file.
			return provOther, true
		}

		return provOther, false
	case *ast.CallExpr:
		fn := calleeOf(info, v)
		if fn == nil {
			if tv, ok := info.Types[v.Fun]; ok && tv.IsType() && len(v.Args) == 1 {
				return x.prov(pkg, fd, v.Args[0], seen, depth+1) // conversion
			}

			return provOther, false
		}
		switch name := fullName(fn); name {
		case modPath + "/internal/home.configFilePath":
			return provConfig, false
		case modPath + "/internal/filtering.FilterYAML.Path":
			return provFilter, false
		case "path/filepath.Join", "path.Join":
			// Join(dir…, name): the kind is decided by a constant component.
			res := 0
			for _, a := range v.Args {
				if tv, ok := info.Types[a]; ok && tv.Value != nil && tv.Value.Kind() == constant.String {
					res |= x.durableConst(pkg, a.Pos(), constant.StringVal(tv.Value))
				}
				if id, ok := ast.Unparen(a).(*ast.Ident); ok {
					if c, isConst := info.Uses[id].(*types.Const); isConst && c.Pkg() != nil &&
						c.Pkg().Path() == modPath+"/internal/filtering" && c.Name() == "filterDir" {
						res |= provFilter
					}
				}
			}
			if res != 0 {
				return res, false
			}

			return provOther, false
		case "path/filepath.Clean", "path/filepath.Abs", "path/filepath.EvalSymlinks":
			return x.prov(pkg, fd, v.Args[0], seen, depth+1)
		default:
			return provOther, false
		}
	case *ast.SelectorExpr:
		if sel, ok := info.Selections[v]; ok && sel.Kind() == types.FieldVal {
			f := sel.Obj()
			owner := ""
			t := sel.Recv()
			if pt, isPtr := t.(*types.Pointer); isPtr {
				t = pt.Elem()
			}
			if n, isNamed := t.(*types.Named); isNamed && n.Obj().Pkg() != nil {
				owner = n.Obj().Pkg().Path() + "." + n.Obj().Name()
			}
			switch {
			case f.Name() == "dbFilePath" && (owner == modPath+"/internal/dhcpd.ServerConfig" ||
				owner == modPath+"/internal/dhcpsvc.DHCPServer"):
				return provLeases, false
			case f.Name() == "confFilePath" && owner == modPath+"/internal/home.homeContext":
				return provConfig, false
			}

			return provOther, false
		}
		// Qualified identifier (pkg.Var / pkg.Const).
		return provOther, false
	case *ast.Ident:
		obj := info.Uses[v]
		if obj == nil {
			obj = info.Defs[v]
		}
		vr, isVar := obj.(*types.Var)
		if !isVar {
			return provOther, false
		}
		if seen[vr] {
			return 0, false
		}
		seen[vr] = true
		defer delete(seen, vr)
		if vr.IsField() || vr.Parent() == nil || vr.Parent() == vr.Pkg().Scope() {
			return provOther, false
		}
		if idx, isParam := paramIndex(info, fd, vr); isParam {
			return x.provParam(pkg, fd, idx, seen, depth)
		}

		return x.provLocal(pkg, fd, vr, seen, depth)
	case *ast.IndexExpr, *ast.StarExpr, *ast.TypeAssertExpr, *ast.SliceExpr:
		return provOther, false
	default:
		x.fatal(e.Pos(), "unsupported path expression %T", e)

		return 0, false
	}
}

func paramIndex(info *types.Info, fd *ast.FuncDecl, vr *types.Var) (idx int, ok bool) {
	if fd == nil || fd.Type.Params == nil {
		return 0, false
	}
	i := 0
	for _, fl := range fd.Type.Params.List {
		if len(fl.Names) == 0 {
			i++

			continue
		}
		for _, nm := range fl.Names {
			if info.Defs[nm] == vr {
				return i, true
			}
			i++
		}
	}

	return 0, false
}

// provParam joins the provenance of the argument at every call site.
func (x *extractor) provParam(
	pkg *packages.Package,
	fd *ast.FuncDecl,
	idx int,
	seen map[types.Object]bool,
	depth int,
) (p int, derived bool) {
	obj, _ := pkg.TypesInfo.Defs[fd.Name].(*types.Func)
	calls := x.callsOf[obj]
	if obj == nil || len(calls) == 0 {
		// Exported API, interface implementation or dead code: the callers are
		// not in view.
		return provOther, false
	}
	for _, c := range calls {
		if idx >= len(c.call.Args) {
			x.fatal(c.call.Pos(), "variadic or short call of %s", fullName(obj))
		}
		if c.fn == nil {
			x.fatal(c.call.Pos(), "call of %s outside a function", fullName(obj))
		}
		q, d := x.prov(c.pkg, c.fn, c.call.Args[idx], seen, depth+1)
		p |= q
		derived = derived || d
	}
	if p == 0 {
		p = provOther
	}

	return p, derived
}

// provLocal joins the provenance of every assignment to a local variable.
func (x *extractor) provLocal(
	pkg *packages.Package,
	fd *ast.FuncDecl,
	vr *types.Var,
	seen map[types.Object]bool,
	depth int,
) (p int, derived bool) {
	info := pkg.TypesInfo
	found := false
	add := func(rhs ast.Expr) {
		found = true
		q, d := x.prov(pkg, fd, rhs, seen, depth+1)
		p |= q
		derived = derived || d
	}
	ast.Inspect(fd.Body, func(n ast.Node) bool {
		switch st := n.(type) {
		case *ast.AssignStmt:
			for i, lhs := range st.Lhs {
				id, ok := lhs.(*ast.Ident)
				if !ok || (info.Defs[id] != vr && info.Uses[id] != vr) {
					continue
				}
				switch {
				case len(st.Rhs) == len(st.Lhs):
					add(st.Rhs[i])
				case len(st.Rhs) == 1:
					// x, err := f(): the provenance of the call (first result).
					if i != 0 {
						found = true
						p |= provOther
					} else {
						add(st.Rhs[0])
					}
				}
			}
		case *ast.ValueSpec:
			for i, nm := range st.Names {
				if info.Defs[nm] != vr {
					continue
				}
				if i < len(st.Values) {
					add(st.Values[i])
				} else {
					found = true
					p |= provOther
				}
			}
		case *ast.RangeStmt:
			for _, lhs := range []ast.Expr{st.Key, st.Value} {
				if id, ok := lhs.(*ast.Ident); ok && (info.Defs[id] == vr || info.Uses[id] == vr) {
					found = true
					p |= provOther
				}
			}
		}

		return true
	})
	if !found {
		// Named result or closure parameter.
		return provOther, false
	}
	if p == 0 {
		p = provOther
	}

	return p, derived
}

// ---------------------------------------------------------------- pending files

// finalisation checks the pattern
//
//	f, err := NewPendingFile(…)
//	if err != nil { return … }
//	defer func() { … F(…, f, …) … }()
//
// with F a function that closes its argument on every return path.
func (x *extractor) finalisation(pkg *packages.Package, fd *ast.FuncDecl, call *ast.CallExpr) (int, string) {
	info := pkg.TypesInfo
	// Find the statement list that contains the assignment.
	var block []ast.Stmt
	idx := -1
	var assign *ast.AssignStmt
	ast.Inspect(fd.Body, func(n ast.Node) bool {
		var list []ast.Stmt
		switch b := n.(type) {
		case *ast.BlockStmt:
			list = b.List
		case *ast.CaseClause:
			list = b.Body
		case *ast.CommClause:
			list = b.Body
		default:
			return true
		}
		for i, st := range list {
			as, ok := st.(*ast.AssignStmt)
			if ok && len(as.Rhs) == 1 && ast.Unparen(as.Rhs[0]) == ast.Expr(call) {
				block, idx, assign = list, i, as
			}
		}

		return true
	})
	if assign == nil {
		// `return renameio.NewPendingFile(…)` or a composite: the wrapper.
		if strings.HasPrefix(x.funcName(pkg, fd), modPath+"/internal/aghrenameio.") {
			return finHandoff, "returned to the caller by the aghrenameio wrapper"
		}
		x.fatal(call.Pos(), "pending file is not assigned to a variable")
	}
	id, ok := assign.Lhs[0].(*ast.Ident)
	if !ok {
		x.fatal(assign.Pos(), "pending file is not assigned to a plain variable")
	}
	fileVar := info.Defs[id]
	if fileVar == nil {
		fileVar = info.Uses[id]
	}
	if strings.HasPrefix(x.funcName(pkg, fd), modPath+"/internal/aghrenameio.") {
		// newPendingFile wraps the file and returns it.
		returned := false
		ast.Inspect(fd.Body, func(n ast.Node) bool {
			if rs, isRet := n.(*ast.ReturnStmt); isRet {
				ast.Inspect(rs, func(m ast.Node) bool {
					if u, isID := m.(*ast.Ident); isID && info.Uses[u] == fileVar {
						returned = true
					}

					return true
				})
			}

			return true
		})
		if returned {
			return finHandoff, "returned to the caller by the aghrenameio wrapper"
		}
	}
	if idx+2 >= len(block) {
		return finMissing, "no deferred finaliser follows the creation"
	}
	ifs, ok := block[idx+1].(*ast.IfStmt)
	if !ok || !endsInReturn(ifs.Body) || usesObj(info, ifs, fileVar) {
		return finMissing, "creation is not followed by `if err != nil { return … }`"
	}
	ds, ok := block[idx+2].(*ast.DeferStmt)
	if !ok {
		return finMissing, "error check is not followed by a defer"
	}
	fl, ok := ds.Call.Fun.(*ast.FuncLit)
	if !ok || len(fl.Body.List) != 1 {
		return finMissing, "deferred call is not a one-statement closure"
	}
	verdict, why := finMissing, "deferred closure does not pass the file to a finaliser"
	ast.Inspect(fl.Body.List[0], func(n ast.Node) bool {
		c, isCall := n.(*ast.CallExpr)
		if !isCall {
			return true
		}
		// f.Cleanup() / f.CloseReplace() directly.
		if se, isSel := c.Fun.(*ast.SelectorExpr); isSel {
			if rid, isID := se.X.(*ast.Ident); isID && info.Uses[rid] == fileVar &&
				(se.Sel.Name == "Cleanup" || se.Sel.Name == "CloseReplace") {
				verdict, why = finDeferred, "closed directly in the deferred closure"

				return false
			}
		}
		for ai, a := range c.Args {
			aid, isID := ast.Unparen(a).(*ast.Ident)
			if !isID || info.Uses[aid] != fileVar {
				continue
			}
			fn := calleeOf(info, c)
			if fn == nil {
				x.fatal(c.Pos(), "pending file passed to an unknown function")
			}
			if x.alwaysFinalises(fn, ai) {
				verdict, why = finDeferred, "deferred "+fullName(fn)+" closes it on every path"
			} else {
				verdict, why = finMissing, fullName(fn)+" does not close it on every path"
			}
		}

		return true
	})

	return verdict, why
}

func endsInReturn(b *ast.BlockStmt) bool {
	if len(b.List) == 0 {
		return false
	}
	_, ok := b.List[len(b.List)-1].(*ast.ReturnStmt)

	return ok
}

func usesObj(info *types.Info, n ast.Node, obj types.Object) (found bool) {
	ast.Inspect(n, func(m ast.Node) bool {
		if id, ok := m.(*ast.Ident); ok && info.Uses[id] == obj {
			found = true
		}

		return true
	})

	return found
}

// alwaysFinalises reports whether fn calls Cleanup or CloseReplace on its
// parameter number idx on every path to a return.
func (x *extractor) alwaysFinalises(fn *types.Func, idx int) bool {
	key := fmt.Sprintf("%s#%d", fullName(fn), idx)
	if v, ok := x.finalisers[key]; ok {
		return v
	}
	fi, ok := x.funcs[fn]
	if !ok || fi.decl.Body == nil {
		x.fatal(token.NoPos, "no source for finaliser %s", fullName(fn))
	}
	info := fi.pkg.TypesInfo
	var param types.Object
	i := 0
	for _, fl := range fi.decl.Type.Params.List {
		for _, nm := range fl.Names {
			if i == idx {
				param = info.Defs[nm]
			}
			i++
		}
	}
	if param == nil {
		x.fatal(fi.decl.Pos(), "parameter %d of %s not found", idx, fullName(fn))
	}
	done, term := x.finStmts(info, fi.decl.Body.List, param, false)
	res := term || done
	x.finalisers[key] = res

	return res
}

// closesIn reports whether n contains param.Cleanup() or param.CloseReplace()
// evaluated unconditionally.
func (x *extractor) closesIn(info *types.Info, n ast.Node, param types.Object) (found bool) {
	if n == nil {
		return false
	}
	ast.Inspect(n, func(m ast.Node) bool {
		switch v := m.(type) {
		case *ast.FuncLit:
			return false
		case *ast.BinaryExpr:
			if (v.Op == token.LAND || v.Op == token.LOR) && usesObj(info, v.Y, param) {
				x.fatal(v.Pos(), "pending file used under a short-circuit operator")
			}
		case *ast.CallExpr:
			if se, ok := v.Fun.(*ast.SelectorExpr); ok {
				if id, isID := se.X.(*ast.Ident); isID && info.Uses[id] == param &&
					(se.Sel.Name == "Cleanup" || se.Sel.Name == "CloseReplace") {
					found = true
				}
			}
		}

		return true
	})

	return found
}

// finStmts walks a statement list.  done: the file has been closed on every
// path reaching the end of the list; term: every path returned (each with the
// file closed).  A path that returns with the file open is a fatal finding of
// the analysis, reported through ok=false by the caller's comparison — here it
// makes the whole function "not a finaliser".
func (x *extractor) finStmts(info *types.Info, list []ast.Stmt, param types.Object, done bool) (bool, bool) {
	for _, st := range list {
		switch v := st.(type) {
		case *ast.ReturnStmt:
			if x.closesIn(info, v, param) {
				done = true
			}
			if !done {
				return false, false
			}

			return true, true
		case *ast.ExprStmt, *ast.AssignStmt, *ast.DeclStmt, *ast.IncDecStmt:
			if x.closesIn(info, v, param) {
				done = true
			}
		case *ast.IfStmt:
			if x.closesIn(info, v.Init, param) || x.closesIn(info, v.Cond, param) {
				done = true
			}
			d1, t1 := x.finStmts(info, v.Body.List, param, done)
			if !d1 && !t1 {
				// Either a return with the file open inside, or fallthrough open.
				if containsReturn(v.Body) && !done {
					return false, false
				}
			}
			d2, t2 := done, false
			switch e := v.Else.(type) {
			case nil:
			case *ast.BlockStmt:
				d2, t2 = x.finStmts(info, e.List, param, done)
				if !d2 && !t2 && containsReturn(e) && !done {
					return false, false
				}
			case *ast.IfStmt:
				d2, t2 = x.finStmts(info, []ast.Stmt{e}, param, done)
				if !d2 && !t2 && containsReturn(e) && !done {
					return false, false
				}
			}
			switch {
			case t1 && t2:
				return true, true
			case t1:
				done = d2
			case t2:
				done = d1
			default:
				done = d1 && d2
			}
		case *ast.BlockStmt:
			d, t := x.finStmts(info, v.List, param, done)
			if t {
				return true, true
			}
			if !d && containsReturn(v) && !done {
				return false, false
			}
			done = d
		case *ast.DeferStmt, *ast.GoStmt, *ast.EmptyStmt:
			if usesObj(info, v, param) {
				x.fatal(v.Pos(), "pending file used in a defer/go statement of a finaliser")
			}
		default:
			if usesObj(info, v, param) || containsReturn(v) {
				x.fatal(v.Pos(), "unsupported statement %T in a finaliser", v)
			}
		}
	}

	return done, false
}

func containsReturn(n ast.Node) (found bool) {
	ast.Inspect(n, func(m ast.Node) bool {
		switch m.(type) {
		case *ast.FuncLit:
			return false
		case *ast.ReturnStmt:
			found = true
		}

		return true
	})

	return found
}

// wrapper checks that the unix implementation of aghrenameio.PendingFile is a
// pure delegation to renameio (the writer the model transcribes).
func (x *extractor) wrapper() {
	want := map[string]struct {
		idx    int
		callee string
	}{
		"CloseReplace": {0, "github.com/google/renameio/v2.PendingFile.CloseAtomicallyReplace"},
		"Cleanup":      {1, "github.com/google/renameio/v2.PendingFile.Cleanup"},
		"Write":        {2, "os.File.Write"},
	}
	found := 0
	for fn, fi := range x.funcs {
		if fn.Pkg() == nil || fn.Pkg().Path() != modPath+"/internal/aghrenameio" {
			continue
		}
		name := fullName(fn)
		const prefix = modPath + "/internal/aghrenameio.pendingFile."
		if !strings.HasPrefix(name, prefix) {
			continue
		}
		w, ok := want[strings.TrimPrefix(name, prefix)]
		if !ok {
			x.fatal(fi.decl.Pos(), "unexpected method %s of the pending-file wrapper", name)
		}
		found++
		body := fi.decl.Body
		if body == nil || len(body.List) != 1 {
			continue
		}
		rs, isRet := body.List[0].(*ast.ReturnStmt)
		if !isRet || len(rs.Results) != 1 {
			continue
		}
		call, isCall := ast.Unparen(rs.Results[0]).(*ast.CallExpr)
		if !isCall {
			continue
		}
		if c := calleeOf(fi.pkg.TypesInfo, call); c != nil && fullName(c) == w.callee {
			x.wrapperOK[w.idx] = true
		}
	}
	if found != 3 {
		fmt.Fprintf(os.Stderr, "extract c14: aghrenameio.pendingFile: found %d of the 3 wrapper methods\n", found)
		os.Exit(3)
	}
}

// ---------------------------------------------------------------- size limits

// closure returns the functions statically reachable from the roots through
// direct calls of module functions and methods (closures included; calls
// through interfaces and function values are not followed).
func (x *extractor) closure(roots map[*types.Func]bool) map[*types.Func]bool {
	seen := map[*types.Func]bool{}
	var work []*types.Func
	for r := range roots {
		seen[r] = true
		work = append(work, r)
	}
	for len(work) > 0 {
		fn := work[len(work)-1]
		work = work[:len(work)-1]
		fi, ok := x.funcs[fn]
		if !ok || fi.decl.Body == nil {
			continue
		}
		ast.Inspect(fi.decl.Body, func(n ast.Node) bool {
			call, isCall := n.(*ast.CallExpr)
			if !isCall {
				return true
			}
			c := calleeOf(fi.pkg.TypesInfo, call)
			if c == nil {
				return true
			}
			c = c.Origin()
			if _, inModule := x.funcs[c]; inModule && !seen[c] {
				seen[c] = true
				work = append(work, c)
			}

			return true
		})
	}

	return seen
}

// collectLimiters lists every size-limiting wrapper of the module and marks
// those that sit on a save path: a limit there must make the save FAIL (so that
// the pending file is cleaned up and the old version stays), not end the input
// early, which would atomically install a cut-off file.
func (x *extractor) collectLimiters() {
	byName := map[string]*types.Func{}
	for fn := range x.funcs {
		byName[fullName(fn)] = fn
	}
	durableRoots, atomicRoots := map[*types.Func]bool{}, map[*types.Func]bool{}
	for _, s := range x.sites {
		if s.Op != opAtomicWrite && s.Op != opPendingFile {
			continue
		}
		fn := byName[s.Func]
		if fn == nil {
			continue
		}
		atomicRoots[fn] = true
		if s.Prov&^provOther != 0 && !s.Derived {
			durableRoots[fn] = true
		}
	}
	durable, atomic := x.closure(durableRoots), x.closure(atomicRoots)

	for _, pkg := range x.pkgs {
		files := append([]*ast.File{}, pkg.Syntax...)
		sort.Slice(files, func(i, j int) bool {
			return x.fset.Position(files[i].Pos()).Filename < x.fset.Position(files[j].Pos()).Filename
		})
		for _, file := range files {
			var cur *ast.FuncDecl
			add := func(pos token.Pos, what string, kind int) {
				l := &limiter{ID: len(x.limiters), Pos: x.pos(pos), What: what, Kind: kind,
					KindTxt: map[int]string{limSilent: "silent", limErroring: "erroring"}[kind]}
				if cur != nil {
					l.Func = x.funcName(pkg, cur)
					if obj, ok := pkg.TypesInfo.Defs[cur.Name].(*types.Func); ok {
						l.Durable, l.Atomic = durable[obj], atomic[obj]
					}
				} else {
					// Package level: reachable from anywhere.
					l.Func, l.Durable, l.Atomic = "(package level)", true, true
				}
				x.limiters = append(x.limiters, l)
			}
			for _, decl := range file.Decls {
				cur, _ = decl.(*ast.FuncDecl)
				ast.Inspect(decl, func(n ast.Node) bool {
					switch v := n.(type) {
					case *ast.CallExpr:
						if fn := calleeOf(pkg.TypesInfo, v); fn != nil {
							if kind, ok := limiterCallees[fullName(fn)]; ok {
								add(v.Pos(), shortCallee(fullName(fn)), kind)
							}
						}
					case *ast.CompositeLit:
						if tv, ok := pkg.TypesInfo.Types[v]; ok {
							if named, isNamed := tv.Type.(*types.Named); isNamed && named.Obj().Pkg() != nil &&
								named.Obj().Pkg().Path() == "io" &&
								(named.Obj().Name() == "LimitedReader" || named.Obj().Name() == "SectionReader") {
								add(v.Pos(), "io."+named.Obj().Name()+"{}", limSilent)
							}
						}
					}

					return true
				})
			}
			// A limiter taken as a value escapes the analysis.
			for id, obj := range pkg.TypesInfo.Uses {
				fn, ok := obj.(*types.Func)
				if !ok || id.Pos() < file.Pos() || id.Pos() > file.End() {
					continue
				}
				if _, tracked := limiterCallees[fullName(fn)]; !tracked {
					continue
				}
				isCall := false
				ast.Inspect(file, func(n ast.Node) bool {
					if c, okc := n.(*ast.CallExpr); okc {
						switch f := ast.Unparen(c.Fun).(type) {
						case *ast.Ident:
							isCall = isCall || f == id
						case *ast.SelectorExpr:
							isCall = isCall || f.Sel == id
						}
					}

					return !isCall
				})
				if !isCall {
					x.fatal(id.Pos(), "size limiter %s used as a value (not a direct call)", fullName(fn))
				}
			}
		}
	}
}

// ---------------------------------------------------------------- output

func (x *extractor) write() {
	verif := os.Getenv("VERIF_ROOT")
	if verif == "" {
		verif = "/verif"
	}
	genPath := filepath.Join(verif, "lean/AGH/Gen/C14WriteSites.lean")
	_ = os.Remove(genPath)
	must(os.MkdirAll(filepath.Dir(genPath), 0o755))

	var sb strings.Builder
	sb.WriteString("/- GENERATED by /verif/extract/cmd/c14 from the Go sources; do not edit.\n")
	sb.WriteString("   op:   0 atomicWrite, 1 pendingFile, 2 plainWrite, 3 inplaceOpen, 4 appendOpen,\n")
	sb.WriteString("         5 renameOnto, 6 renameFrom, 7 remove, 8 tempCreate, 9 link, 10 libOpen\n")
	sb.WriteString("   prov: bit set — 1 other, 2 configuration file, 4 lease database, 8 filter-list file\n")
	sb.WriteString("   derived: a durable path with a suffix appended (names another file)\n")
	sb.WriteString("   fin (pending files): 0 n/a, 1 deferred finaliser on all paths, 2 handed to the caller\n")
	sb.WriteString("         by the aghrenameio wrapper, 3 NOT finalised on all paths\n")
	sb.WriteString("   reviewed: for a call that removes / renames away / rebinds a durable path without the\n")
	sb.WriteString("         atomic writer: index of its entry in the extractor's reviewed list, 0 = NOT reviewed -/\n")
	sb.WriteString("namespace AGH.C14.Gen\n\n")
	sb.WriteString("structure Site where\n  id : Nat\n  op : Nat\n  prov : Nat\n  derived : Bool\n  fin : Nat\n  reviewed : Nat\n  deriving DecidableEq, Repr\n\n")
	sb.WriteString("def sites : List Site := [\n")
	for i, s := range x.sites {
		comma := ","
		if i == len(x.sites)-1 {
			comma = ""
		}
		fmt.Fprintf(&sb, "  ⟨%d, %d, %d, %v, %d, %d⟩%s  -- %s %s(%s) in %s [%s]\n",
			s.ID, s.Op, s.Prov, s.Derived, s.Fin, s.Reviewed, comma, s.Pos, shortCallee(s.Callee), oneLine(s.Path),
			strings.TrimPrefix(s.Func, modPath+"/internal/"), s.ProvTxt)
	}
	sb.WriteString("]\n\n")
	sb.WriteString("/- reviewed removals of durable paths:\n")
	for i, rv := range reviewedRemovals {
		fmt.Fprintf(&sb, "   %d. %s(%s) in %s — %s\n", i+1, rv.callee, rv.path, strings.TrimPrefix(rv.fn, modPath+"/internal/"), rv.why)
	}
	sb.WriteString("-/\n\n")
	sb.WriteString("/-- aghrenameio.pendingFile.CloseReplace / Cleanup / Write are single delegations to\n")
	sb.WriteString("renameio's CloseAtomicallyReplace / Cleanup and os.File.Write -/\n")
	fmt.Fprintf(&sb, "def wrapperDelegates : List Bool := [%v, %v, %v]\n", x.wrapperOK[0], x.wrapperOK[1], x.wrapperOK[2])
	sb.WriteString("\n/-- Size-limiting wrappers (io.LimitReader, io.LimitedReader, io.CopyN, io.SectionReader,\n")
	sb.WriteString("http.MaxBytesReader, golibs ioutil.LimitReader).  kind: 1 silent (clean EOF at the limit),\n")
	sb.WriteString("2 erroring.  durable: in the static callee closure of a function that saves one of the\n")
	sb.WriteString("three durable files; atomic: the same for any atomic writer / pending file. -/\n")
	sb.WriteString("structure Limiter where\n  id : Nat\n  kind : Nat\n  durable : Bool\n  atomic : Bool\n  deriving DecidableEq, Repr\n\n")
	sb.WriteString("def limiters : List Limiter := [\n")
	for i, l := range x.limiters {
		comma := ","
		if i == len(x.limiters)-1 {
			comma = ""
		}
		fmt.Fprintf(&sb, "  ⟨%d, %d, %v, %v⟩%s  -- %s %s in %s [%s]\n", l.ID, l.Kind, l.Durable, l.Atomic, comma,
			l.Pos, l.What, strings.TrimPrefix(l.Func, modPath+"/internal/"), l.KindTxt)
	}
	sb.WriteString("]\n")
	sb.WriteString("\nend AGH.C14.Gen\n")
	must(os.WriteFile(genPath, []byte(sb.String()), 0o644))

	// facts.json
	type summary struct {
		Sites            int             `json:"sites"`
		ByOp             map[string]int  `json:"by_op"`
		DurableSites     int             `json:"durable_sites"`
		DurableByKindOp  map[string]int  `json:"durable_by_kind_and_op"`
		PendingFiles     int             `json:"pending_files"`
		PendingFinalised int             `json:"pending_files_finalised"`
		Packages         int             `json:"packages"`
		Finalisers       map[string]bool `json:"finalisers_checked"`
		Outside          []string        `json:"name_matches_outside_owner"`
		Limiters         int             `json:"size_limiters"`
		LimitersDurable  int             `json:"size_limiters_on_durable_save_paths"`
		LimitersSilent   int             `json:"silent_limiters_on_durable_save_paths"`
	}
	sum := summary{ByOp: map[string]int{}, DurableByKindOp: map[string]int{}, Packages: len(x.pkgs),
		Finalisers: x.finalisers}
	for k := range x.outside {
		sum.Outside = append(sum.Outside, k)
	}
	sort.Strings(sum.Outside)
	for _, l := range x.limiters {
		sum.Limiters++
		if l.Durable {
			sum.LimitersDurable++
			if l.Kind == limSilent {
				sum.LimitersSilent++
			}
		}
	}
	for _, s := range x.sites {
		sum.Sites++
		sum.ByOp[s.OpName]++
		if s.Prov&^provOther != 0 && !s.Derived {
			sum.DurableSites++
			sum.DurableByKindOp[s.ProvTxt+":"+s.OpName]++
		}
		if s.Op == opPendingFile {
			sum.PendingFiles++
			if s.Fin == finDeferred || s.Fin == finHandoff {
				sum.PendingFinalised++
			}
		}
	}
	out := map[string]any{"summary": sum, "sites": x.sites, "repo": x.repo, "wrapper_delegates": x.wrapperOK,
		"limiters": x.limiters}
	b, err := json.MarshalIndent(out, "", " ")
	must(err)
	factsDir := filepath.Join(verif, "build/C14")
	must(os.MkdirAll(factsDir, 0o755))
	must(os.WriteFile(filepath.Join(factsDir, "facts.json"), b, 0o644))
	fmt.Printf("c14: %d sites, %d on durable paths, %d pending files (%d finalised)\n",
		sum.Sites, sum.DurableSites, sum.PendingFiles, sum.PendingFinalised)
}

func shortCallee(s string) string {
	if i := strings.LastIndex(s, "/"); i >= 0 {
		return s[i+1:]
	}

	return s
}

func oneLine(s string) string {
	s = strings.Join(strings.Fields(s), " ")
	if len(s) > 60 {
		s = s[:57] + "..."
	}

	return strings.ReplaceAll(s, "-/", "- /")
}

func must(err error) {
	if err != nil {
		fmt.Fprintln(os.Stderr, "extract c14:", err)
		os.Exit(2)
	}
}
