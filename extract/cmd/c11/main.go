// Command c11 is the translator tie of property C11 (every admin endpoint is
// behind authentication).  From the typed AST of the current tree it
// regenerates
//
//	/verif/lean/AGH/Gen/C11Routes.lean   the route table and the RegisterFunc flows
//	/verif/build/C11/facts.json          the same facts with names and file:line
//
// What it looks for, in every package of the module that the main program
// imports (transitively):
//
//  1. every call of (*net/http.ServeMux).Handle / HandleFunc and of
//     net/http.Handle / HandleFunc;
//  2. every call whose callee has the signature of aghhttp.RegisterFunc
//     (func(method, url string, handler http.HandlerFunc)), whether the callee
//     is the function home.httpRegister or a value of the callback type;
//  3. every place a value flows into a location of the callback type
//     (composite literal fields, assignments, call arguments, returns,
//     conversions);
//  4. every use of the field homeContext.mux (the single admin mux).
//
// Registrar functions (functions that register on the mux a pattern taken from
// a parameter, i.e. home.httpRegister) are executed symbolically for the
// constant arguments of each call site.  Handler expressions are normalised
// into a wrapper chain.  Anything outside the understood subset aborts with a
// file:line message: a broken tie, never a silent default.
package main

import (
	"encoding/json"
	"fmt"
	"go/ast"
	"go/constant"
	"go/token"
	"go/types"
	"os"
	"path/filepath"
	"sort"
	"strings"

	"golang.org/x/tools/go/packages"

	"verif/extract/internal/load"
)

const (
	modPath  = "github.com/AdguardTeam/AdGuardHome"
	homePath = modPath + "/internal/home"
	aghhttp  = modPath + "/internal/aghhttp"
)

// wrapper is one element of a normalised chain.
type wrapper struct {
	Kind   string `json:"kind"`             // postInstall | preInstall | optionalAuth | gzip | ensure
	Method string `json:"method,omitempty"` // for ensure
}

type route struct {
	Pattern  string    `json:"pattern"`
	Declared string    `json:"declared"`
	Chain    []wrapper `json:"chain"`
	Handler  string    `json:"handler"`
	Pkg      string    `json:"pkg"`
	File     string    `json:"file"`
	Line     int       `json:"line"`
	Via      string    `json:"via"` // direct | <registrar function>
	RegFile  string    `json:"reg_file"`
	RegLine  int       `json:"reg_line"`
}

type flow struct {
	Src  string `json:"src"` // httpRegister | passthrough | nil | other
	Expr string `json:"expr"`
	Into string `json:"into"`
	File string `json:"file"`
	Line int    `json:"line"`
}

type muxUse struct {
	Kind string `json:"kind"` // register | init | serve
	File string `json:"file"`
	Line int    `json:"line"`
}

// baseWrappers maps the full name of a wrapper function to its kind.  Their
// behaviour is what the Lean model transcribes and what the correspondence
// harness probes on the real mux.
var baseWrappers = map[string]string{
	homePath + ".postInstall":                    "postInstall",
	homePath + ".postInstallHandler":             "postInstall",
	homePath + ".preInstall":                     "preInstall",
	homePath + ".preInstallHandler":              "preInstall",
	homePath + ".optionalAuth":                   "optionalAuth",
	homePath + ".optionalAuthHandler":            "optionalAuth",
	"github.com/NYTimes/gziphandler.GzipHandler": "gzip",
	homePath + ".ensure":                         "ensure",
	homePath + ".ensureHandler":                  "ensure",
	homePath + ".withMiddlewares":                "withMiddlewares",
}

type extractor struct {
	fset    *token.FileSet
	repo    string
	pkgs    map[string]*packages.Package // module packages by path
	program map[string]bool              // packages the main program imports
	decls   map[*types.Func]*funcInfo
	regSig  *types.Signature
	muxFld  *types.Var

	routes   []route
	flows    []flow
	muxUses  []muxUse
	outside  []string // registration sites in module packages outside the program
	sources  []*source
	srcSeen  map[string]bool
	tmplFns  map[*types.Func]token.Pos // functions holding a non-constant-pattern registration
	instFns  map[*types.Func]bool      // registrars instantiated at least once
	tmplLits map[*ast.FuncLit]token.Pos
	instLits map[*ast.FuncLit]bool
	valCalls []*pendingCall

	unknownRoutes int
	tableRows     int
}

type funcInfo struct {
	decl *ast.FuncDecl
	pkg  *packages.Package
}

// source is a function value that flows into a RegisterFunc location.
type source struct {
	name   string
	fn     *types.Func // nil for literals
	lit    *ast.FuncLit
	typ    *ast.FuncType
	body   *ast.BlockStmt
	pkg    *packages.Package
	isHTTP bool // home.httpRegister
}

type pendingCall struct {
	site ast.Node
	call *ast.CallExpr
	pkg  *packages.Package
	env  *env
}

// binding is the value of an identifier during symbolic execution.
type binding struct {
	elem *ast.CompositeLit // a struct literal: one row of a registration table
	str  *string           // constant string
	expr ast.Expr          // or an expression, evaluated in env
	env  *env
	pkg  *packages.Package
}

type env struct {
	vars map[types.Object]*binding
}

func (e *env) get(o types.Object) *binding {
	if e == nil || o == nil {
		return nil
	}

	return e.vars[o]
}

func (x *extractor) pos(p token.Pos) (file string, line int) {
	ps := x.fset.Position(p)
	rel, err := filepath.Rel(x.repo, ps.Filename)
	if err != nil {
		rel = ps.Filename
	}

	return rel, ps.Line
}

func (x *extractor) fail(p token.Pos, format string, args ...any) {
	f, l := x.pos(p)
	fmt.Fprintf(os.Stderr, "extract c11: %s:%d: %s\n", f, l, fmt.Sprintf(format, args...))
	os.Exit(3)
}

func unparen(e ast.Expr) ast.Expr {
	for {
		p, ok := e.(*ast.ParenExpr)
		if !ok {
			return e
		}
		e = p.X
	}
}

func (x *extractor) isRegSig(t types.Type) bool {
	if t == nil {
		return false
	}
	s, ok := t.Underlying().(*types.Signature)

	return ok && types.Identical(s, x.regSig)
}

// calleeObj resolves the object a call expression's function denotes.
func calleeObj(info *types.Info, fun ast.Expr) (obj types.Object, recv ast.Expr) {
	switch f := unparen(fun).(type) {
	case *ast.Ident:
		return info.Uses[f], nil
	case *ast.SelectorExpr:
		if s := info.Selections[f]; s != nil {
			return s.Obj(), f.X
		}

		return info.Uses[f.Sel], nil
	case *ast.IndexExpr: // generic instantiation
		return calleeObj(info, f.X)
	}

	return nil, nil
}

func exprString(fset *token.FileSet, e ast.Expr) string {
	return types.ExprString(e)
}

// elemField returns the expression a struct-literal row gives to field name, or
// found=false with the field's type when the row leaves it out (zero value).
func (x *extractor) elemField(b *binding, name string) (e ast.Expr, found bool, ft types.Type) {
	t := b.pkg.TypesInfo.TypeOf(b.elem)
	if t == nil {
		return nil, false, nil
	}
	st, ok := t.Underlying().(*types.Struct)
	if !ok {
		return nil, false, nil
	}
	idx := -1
	for i := 0; i < st.NumFields(); i++ {
		if st.Field(i).Name() == name {
			idx, ft = i, st.Field(i).Type()
		}
	}
	if idx < 0 {
		return nil, false, nil
	}
	for i, el := range b.elem.Elts {
		if kv, isKV := el.(*ast.KeyValueExpr); isKV {
			if k, isID := kv.Key.(*ast.Ident); isID && k.Name == name {
				return kv.Value, true, ft
			}
		} else if i == idx {
			return el, true, ft
		}
	}

	return nil, false, ft
}

// rowSelector resolves `r.field` where r is bound to a table row.
func (x *extractor) rowSelector(pkg *packages.Package, e ast.Expr, en *env) (b *binding, name string, ok bool) {
	sel, isSel := unparen(e).(*ast.SelectorExpr)
	if !isSel {
		return nil, "", false
	}
	id, isID := unparen(sel.X).(*ast.Ident)
	if !isID {
		return nil, "", false
	}
	b = en.get(pkg.TypesInfo.Uses[id])
	if b == nil || b.elem == nil {
		return nil, "", false
	}

	return b, sel.Sel.Name, true
}

// constString evaluates e to a constant string, through env bindings.
func (x *extractor) constString(pkg *packages.Package, e ast.Expr, en *env) (string, bool) {
	e = unparen(e)
	if tv, ok := pkg.TypesInfo.Types[e]; ok && tv.Value != nil && tv.Value.Kind() == constant.String {
		return constant.StringVal(tv.Value), true
	}
	if id, ok := e.(*ast.Ident); ok {
		if b := en.get(pkg.TypesInfo.Uses[id]); b != nil {
			if b.str != nil {
				return *b.str, true
			}
			if b.expr != nil {
				return x.constString(b.pkg, b.expr, b.env)
			}
		}
	}
	if b, name, ok := x.rowSelector(pkg, e, en); ok {
		fe, found, ft := x.elemField(b, name)
		if found {
			return x.constString(b.pkg, fe, b.env)
		}
		if bt, isBasic := ft.(*types.Basic); isBasic && bt.Info()&types.IsString != 0 {
			// A row that leaves the field out has the zero value.
			return "", true
		}
	}

	return "", false
}

// normalise turns a handler expression into (chain outermost first, terminal handler name).
func (x *extractor) normalise(pkg *packages.Package, e ast.Expr, en *env, depth int) (chain []wrapper, term string) {
	if depth > 20 {
		x.fail(e.Pos(), "handler expression nests too deep")
	}
	info := pkg.TypesInfo
	e = unparen(e)
	switch v := e.(type) {
	case *ast.Ident:
		if b := en.get(info.Uses[v]); b != nil && b.expr != nil {
			return x.normalise(b.pkg, b.expr, b.env, depth+1)
		}

		return nil, v.Name
	case *ast.SelectorExpr:
		if b, name, ok := x.rowSelector(pkg, v, en); ok {
			fe, found, _ := x.elemField(b, name)
			if !found {
				x.fail(v.Pos(), "table row without a %s: nil handler", name)
			}

			return x.normalise(b.pkg, fe, b.env, depth+1)
		}

		return nil, exprString(x.fset, v)
	case *ast.FuncLit:
		f, l := x.pos(v.Pos())

		return nil, fmt.Sprintf("func literal %s:%d", f, l)
	case *ast.CallExpr:
		if tv, ok := info.Types[v.Fun]; ok && tv.IsType() {
			// A conversion such as http.HandlerFunc(f) does not wrap.
			if len(v.Args) != 1 {
				x.fail(v.Pos(), "conversion with %d arguments", len(v.Args))
			}

			return x.normalise(pkg, v.Args[0], en, depth+1)
		}
		obj, _ := calleeObj(info, v.Fun)
		fn, ok := obj.(*types.Func)
		if !ok {
			x.fail(v.Pos(), "handler built by a call of a non-function value %s: cannot normalise", exprString(x.fset, v.Fun))
		}
		switch kind := baseWrappers[fn.FullName()]; kind {
		case "postInstall", "preInstall", "optionalAuth", "gzip":
			if len(v.Args) != 1 {
				x.fail(v.Pos(), "wrapper %s with %d arguments", fn.Name(), len(v.Args))
			}
			inner, t := x.normalise(pkg, v.Args[0], en, depth+1)

			return append([]wrapper{{Kind: kind}}, inner...), t
		case "ensure":
			if len(v.Args) != 2 {
				x.fail(v.Pos(), "ensure with %d arguments", len(v.Args))
			}
			m, ok := x.constString(pkg, v.Args[0], en)
			if !ok {
				x.fail(v.Args[0].Pos(), "method of ensure is not a constant: %s", exprString(x.fset, v.Args[0]))
			}
			inner, t := x.normalise(pkg, v.Args[1], en, depth+1)

			return append([]wrapper{{Kind: "ensure", Method: m}}, inner...), t
		case "withMiddlewares":
			// wrapped = h; for _, mw := range mws { wrapped = mw(wrapped) }: the
			// last middleware is the outermost.
			if len(v.Args) < 1 || v.Ellipsis != token.NoPos {
				x.fail(v.Pos(), "withMiddlewares: unsupported argument form")
			}
			inner, t := x.normalise(pkg, v.Args[0], en, depth+1)
			for _, mw := range v.Args[1:] {
				mobj, _ := calleeObj(info, mw)
				mfn, isFn := mobj.(*types.Func)
				if !isFn {
					x.fail(mw.Pos(), "middleware %s is not a named function", exprString(x.fset, mw))
				}
				k := baseWrappers[mfn.FullName()]
				switch k {
				case "postInstall", "preInstall", "optionalAuth", "gzip":
					inner = append([]wrapper{{Kind: k}}, inner...)
				default:
					x.fail(mw.Pos(), "unknown middleware %s", mfn.FullName())
				}
			}

			return inner, t
		}
		// A derived wrapper: a module function whose body is `return <expr>`
		// (ensureGET, ensurePOST): inline it.
		if fi := x.decls[fn]; fi != nil && fi.decl.Body != nil && len(fi.decl.Body.List) == 1 {
			if ret, isRet := fi.decl.Body.List[0].(*ast.ReturnStmt); isRet && len(ret.Results) == 1 {
				params := paramObjs(fi.pkg.TypesInfo, fi.decl.Type)
				if len(params) == len(v.Args) && fi.decl.Recv == nil {
					ne := &env{vars: map[types.Object]*binding{}}
					for i, p := range params {
						ne.vars[p] = &binding{expr: v.Args[i], env: en, pkg: pkg}
					}

					return x.normalise(fi.pkg, ret.Results[0], ne, depth+1)
				}
			}
		}
		x.fail(v.Pos(), "unknown wrapper %s around a handler: cannot normalise", fn.FullName())
	}
	x.fail(e.Pos(), "unsupported handler expression %s (%T)", exprString(x.fset, e), e)

	return nil, ""
}

func paramObjs(info *types.Info, ft *ast.FuncType) (objs []types.Object) {
	if ft.Params == nil {
		return nil
	}
	for _, f := range ft.Params.List {
		for _, n := range f.Names {
			objs = append(objs, info.Defs[n])
		}
		if len(f.Names) == 0 {
			objs = append(objs, nil)
		}
	}

	return objs
}

// isMuxReg reports whether call registers a handler on a ServeMux.
func isMuxReg(info *types.Info, call *ast.CallExpr) (recv ast.Expr, isDefault, ok bool) {
	obj, rcv := calleeObj(info, call.Fun)
	fn, isFn := obj.(*types.Func)
	if !isFn {
		return nil, false, false
	}
	switch fn.FullName() {
	case "(*net/http.ServeMux).Handle", "(*net/http.ServeMux).HandleFunc":
		return rcv, false, true
	case "net/http.Handle", "net/http.HandleFunc":
		return nil, true, true
	}

	return nil, false, false
}

func (x *extractor) isAdminMux(info *types.Info, recv ast.Expr) bool {
	sel, ok := unparen(recv).(*ast.SelectorExpr)
	if !ok {
		return false
	}
	if s := info.Selections[sel]; s != nil {
		return s.Obj() == x.muxFld
	}

	return false
}

// emitMuxReg records one registration on the admin mux.
func (x *extractor) emitMuxReg(pkg *packages.Package, call *ast.CallExpr, en *env, declared string, site ast.Node, sitePkg *packages.Package, via string) {
	if len(call.Args) != 2 {
		x.fail(call.Pos(), "mux registration with %d arguments", len(call.Args))
	}
	pat, ok := x.constString(pkg, call.Args[0], en)
	if !ok {
		x.fail(call.Args[0].Pos(), "pattern is not a constant string: %s", exprString(x.fset, call.Args[0]))
	}
	if strings.ContainsAny(pat, " {") {
		x.fail(call.Args[0].Pos(), "pattern %q uses a method, host or wildcard: outside the modelled subset", pat)
	}
	if !strings.HasPrefix(pat, "/") {
		x.fail(call.Args[0].Pos(), "pattern %q has a host part: outside the modelled subset", pat)
	}
	chain, term := x.normalise(pkg, call.Args[1], en, 0)
	if chain == nil {
		chain = []wrapper{}
	}
	if declared == "" {
		// A direct registration declares its method through ensure, if at all.
		for _, w := range chain {
			if w.Kind == "ensure" {
				declared = w.Method

				break
			}
		}
	}
	f, l := x.pos(site.Pos())
	rf, rl := x.pos(call.Pos())
	x.routes = append(x.routes, route{
		Pattern: pat, Declared: declared, Chain: chain, Handler: term,
		Pkg: strings.TrimPrefix(sitePkg.PkgPath, modPath+"/"), File: f, Line: l, Via: via, RegFile: rf, RegLine: rl,
	})
}

// instantiate executes registrar src for the constant arguments of call.
func (x *extractor) instantiate(src *source, callPkg *packages.Package, call *ast.CallExpr, en *env, site ast.Node, sitePkg *packages.Package, depth int) {
	if depth > 8 {
		x.fail(call.Pos(), "registrar calls nest too deep")
	}
	if src.body == nil {
		x.fail(call.Pos(), "registrar %s has no body", src.name)
	}
	params := paramObjs(src.pkg.TypesInfo, src.typ)
	if len(params) != 3 || len(call.Args) != 3 {
		x.fail(call.Pos(), "registrar %s: expected (method, url, handler)", src.name)
	}
	method, okM := x.constString(callPkg, call.Args[0], en)
	url, okU := x.constString(callPkg, call.Args[1], en)
	if !okM || !okU {
		// Not a constant (and not a row of a literal table): the route exists but
		// what guards it is unknown.  It is emitted with method "?" and no
		// wrapper, so that the per-route obligation fails for it by name.
		f, l := x.pos(site.Pos())
		if !okU {
			url = fmt.Sprintf("?%s:%d", f, l)
		}
		x.routes = append(x.routes, route{
			Pattern: url, Declared: "?", Chain: []wrapper{}, Handler: exprString(x.fset, call.Args[2]),
			Pkg: strings.TrimPrefix(sitePkg.PkgPath, modPath+"/"), File: f, Line: l,
			Via: src.name + " (non-constant arguments)", RegFile: f, RegLine: l,
		})
		x.unknownRoutes++
		if src.fn != nil {
			x.instFns[src.fn] = true
		}
		if src.lit != nil {
			x.instLits[src.lit] = true
		}

		return
	}
	ne := &env{vars: map[types.Object]*binding{}}
	if params[0] != nil {
		ne.vars[params[0]] = &binding{str: &method}
	}
	if params[1] != nil {
		ne.vars[params[1]] = &binding{str: &url}
	}
	if params[2] != nil {
		ne.vars[params[2]] = &binding{expr: call.Args[2], env: en, pkg: callPkg}
	}
	if src.fn != nil {
		x.instFns[src.fn] = true
	}
	if src.lit != nil {
		x.instLits[src.lit] = true
	}
	x.execBlock(src, src.body.List, ne, method, site, sitePkg, depth)
}

// execBlock runs the statements of a registrar; it reports whether a return
// statement was reached.
func (x *extractor) execBlock(src *source, stmts []ast.Stmt, en *env, declared string, site ast.Node, sitePkg *packages.Package, depth int) (returned bool) {
	info := src.pkg.TypesInfo
	for _, st := range stmts {
		switch s := st.(type) {
		case *ast.ReturnStmt:
			if len(s.Results) != 0 {
				x.fail(s.Pos(), "registrar %s returns a value", src.name)
			}

			return true
		case *ast.IfStmt:
			if s.Init != nil {
				x.fail(s.Pos(), "registrar %s: if with an init statement", src.name)
			}
			c := x.evalCond(src.pkg, s.Cond, en)
			switch {
			case c:
				if x.execBlock(src, s.Body.List, en, declared, site, sitePkg, depth) {
					return true
				}
			case s.Else != nil:
				var list []ast.Stmt
				switch e := s.Else.(type) {
				case *ast.BlockStmt:
					list = e.List
				default:
					list = []ast.Stmt{e}
				}
				if x.execBlock(src, list, en, declared, site, sitePkg, depth) {
					return true
				}
			}
		case *ast.ExprStmt:
			call, ok := s.X.(*ast.CallExpr)
			if !ok {
				x.fail(s.Pos(), "registrar %s: unsupported statement", src.name)
			}
			if recv, isDefault, isReg := isMuxReg(info, call); isReg {
				if isDefault || !x.isAdminMux(info, recv) {
					x.fail(call.Pos(), "registration on a mux other than homeContext.mux")
				}
				x.emitMuxReg(src.pkg, call, en, declared, site, sitePkg, src.name)

				continue
			}
			if x.isRegSig(info.TypeOf(call.Fun)) {
				x.regCall(src.pkg, call, en, site, sitePkg, depth+1)

				continue
			}
			x.fail(s.Pos(), "registrar %s: unsupported call %s", src.name, exprString(x.fset, call.Fun))
		default:
			x.fail(st.Pos(), "registrar %s: unsupported statement %T", src.name, st)
		}
	}

	return false
}

func (x *extractor) evalCond(pkg *packages.Package, c ast.Expr, en *env) bool {
	c = unparen(c)
	switch v := c.(type) {
	case *ast.BinaryExpr:
		switch v.Op {
		case token.EQL, token.NEQ:
			a, ok1 := x.constString(pkg, v.X, en)
			b, ok2 := x.constString(pkg, v.Y, en)
			if !ok1 || !ok2 {
				x.fail(v.Pos(), "registrar condition %s is not over constant strings", exprString(x.fset, v))
			}

			return (a == b) == (v.Op == token.EQL)
		case token.LAND:
			return x.evalCond(pkg, v.X, en) && x.evalCond(pkg, v.Y, en)
		case token.LOR:
			return x.evalCond(pkg, v.X, en) || x.evalCond(pkg, v.Y, en)
		}
	case *ast.UnaryExpr:
		if v.Op == token.NOT {
			return !x.evalCond(pkg, v.X, en)
		}
	}
	x.fail(c.Pos(), "registrar condition %s: unsupported", exprString(x.fset, c))

	return false
}

// regCall handles a call whose callee has the RegisterFunc signature.
func (x *extractor) regCall(pkg *packages.Package, call *ast.CallExpr, en *env, site ast.Node, sitePkg *packages.Package, depth int) {
	obj, _ := calleeObj(pkg.TypesInfo, call.Fun)
	if fn, ok := obj.(*types.Func); ok {
		fi := x.decls[fn]
		if fi == nil {
			x.fail(call.Pos(), "call of %s, a registrar outside the module", fn.FullName())
		}
		if fi.decl.Recv != nil {
			x.fail(call.Pos(), "registrar %s is a method: outside the understood subset", fn.FullName())
		}
		src := &source{name: fn.FullName(), fn: fn, typ: fi.decl.Type, body: fi.decl.Body, pkg: fi.pkg}
		x.instantiate(src, pkg, call, en, site, sitePkg, depth)

		return
	}
	// A value of the callback type: every function that flows into such a
	// location may be the callee.  Resolved after all flows are known.
	x.valCalls = append(x.valCalls, &pendingCall{site: site, call: call, pkg: pkg, env: en})
}

// addFlow classifies an expression flowing into a RegisterFunc location.
func (x *extractor) addFlow(pkg *packages.Package, e ast.Expr, into string) {
	info := pkg.TypesInfo
	f, l := x.pos(e.Pos())
	fl := flow{Expr: exprString(x.fset, e), Into: into, File: f, Line: l}
	u := unparen(e)
	if tv, ok := info.Types[u]; ok && tv.IsNil() {
		fl.Src = "nil"
		x.flows = append(x.flows, fl)

		return
	}
	if lit, ok := u.(*ast.FuncLit); ok {
		fl.Src = "other"
		x.flows = append(x.flows, fl)
		key := fmt.Sprintf("lit %s:%d", f, l)
		if !x.srcSeen[key] {
			x.srcSeen[key] = true
			x.sources = append(x.sources, &source{name: "func literal " + key[4:], lit: lit, typ: lit.Type, body: lit.Body, pkg: pkg})
		}

		return
	}
	if call, ok := u.(*ast.CallExpr); ok {
		if tv, isT := info.Types[call.Fun]; isT && tv.IsType() && len(call.Args) == 1 {
			x.addFlow(pkg, call.Args[0], into)

			return
		}
	}
	var obj types.Object
	switch v := u.(type) {
	case *ast.Ident:
		obj = info.Uses[v]
	case *ast.SelectorExpr:
		if s := info.Selections[v]; s != nil {
			obj = s.Obj()
			if s.Kind() == types.MethodVal {
				x.fail(e.Pos(), "a method value flows into a RegisterFunc location: outside the understood subset")
			}
		} else {
			obj = info.Uses[v.Sel]
		}
	}
	if fn, ok := obj.(*types.Func); ok {
		if fn.FullName() == homePath+".httpRegister" {
			fl.Src = "httpRegister"
		} else {
			fl.Src = "other"
		}
		x.flows = append(x.flows, fl)
		if !x.srcSeen[fn.FullName()] {
			x.srcSeen[fn.FullName()] = true
			fi := x.decls[fn]
			if fi == nil {
				x.fail(e.Pos(), "function %s from outside the module flows into a RegisterFunc location", fn.FullName())
			}
			x.sources = append(x.sources, &source{
				name: fn.FullName(), fn: fn, typ: fi.decl.Type, body: fi.decl.Body, pkg: fi.pkg,
				isHTTP: fl.Src == "httpRegister",
			})
		}

		return
	}
	if x.isRegSig(info.TypeOf(u)) {
		fl.Src = "passthrough"
		x.flows = append(x.flows, fl)

		return
	}
	x.fail(e.Pos(), "cannot classify the value %s flowing into a RegisterFunc location", fl.Expr)
}

// rootIdent returns the identifier an assignable expression is rooted at.
func rootIdent(e ast.Expr) *ast.Ident {
	for {
		switch v := unparen(e).(type) {
		case *ast.Ident:
			return v
		case *ast.SelectorExpr:
			e = v.X
		case *ast.IndexExpr:
			e = v.X
		case *ast.StarExpr:
			e = v.X
		default:
			return nil
		}
	}
}

// tableLiteral finds the composite literal a table variable is defined by, if
// it is defined once and never assigned to (nor its elements) afterwards.
func (x *extractor) tableLiteral(pkg *packages.Package, obj types.Object, scope []ast.Node) *ast.CompositeLit {
	info := pkg.TypesInfo
	var lit *ast.CompositeLit
	defs, writes := 0, 0
	for _, root := range scope {
		ast.Inspect(root, func(n ast.Node) bool {
			switch v := n.(type) {
			case *ast.AssignStmt:
				for i, lhs := range v.Lhs {
					id := rootIdent(lhs)
					if id == nil {
						continue
					}
					o := info.Defs[id]
					if o == nil {
						o = info.Uses[id]
					}
					if o != obj {
						continue
					}
					if _, plain := unparen(lhs).(*ast.Ident); plain && info.Defs[id] == obj && len(v.Lhs) == len(v.Rhs) {
						defs++
						lit, _ = unparen(v.Rhs[i]).(*ast.CompositeLit)
					} else {
						writes++
					}
				}
			case *ast.ValueSpec:
				for i, name := range v.Names {
					if info.Defs[name] == obj {
						defs++
						if i < len(v.Values) {
							lit, _ = unparen(v.Values[i]).(*ast.CompositeLit)
						}
					}
				}
			case *ast.IncDecStmt:
				if id := rootIdent(v.X); id != nil && info.Uses[id] == obj {
					writes++
				}
			case *ast.UnaryExpr:
				if v.Op == token.AND {
					if id := rootIdent(v.X); id != nil && info.Uses[id] == obj {
						writes++
					}
				}
			}

			return true
		})
	}
	if defs != 1 || writes != 0 {
		return nil
	}

	return lit
}

// tableEnvs recognises a registration call inside `for k, v := range T`, where T
// is a literal table (a composite literal, or a variable defined once by one
// and never written again) of struct rows: it returns one environment per row.
func (x *extractor) tableEnvs(pkg *packages.Package, call *ast.CallExpr, stack []ast.Node) (envs []*env, rows []ast.Node) {
	info := pkg.TypesInfo
	var rng *ast.RangeStmt
	var fnBody ast.Node
	for i := len(stack) - 1; i >= 0 && fnBody == nil; i-- {
		switch v := stack[i].(type) {
		case *ast.RangeStmt:
			if rng == nil {
				rng = v
			}
		case *ast.FuncDecl:
			fnBody = v
		case *ast.FuncLit:
			fnBody = v
		}
	}
	if rng == nil || fnBody == nil {
		return nil, nil
	}
	var lit *ast.CompositeLit
	switch t := unparen(rng.X).(type) {
	case *ast.CompositeLit:
		lit = t
	case *ast.Ident:
		obj := info.Uses[t]
		if obj == nil {
			return nil, nil
		}
		scope := []ast.Node{fnBody}
		if obj.Parent() == pkg.Types.Scope() {
			scope = nil
			for _, f := range pkg.Syntax {
				scope = append(scope, f)
			}
		}
		lit = x.tableLiteral(pkg, obj, scope)
	}
	if lit == nil {
		return nil, nil
	}
	var keyObj, valObj types.Object
	if id, ok := rng.Key.(*ast.Ident); ok && id.Name != "_" {
		keyObj = info.Defs[id]
	}
	if id, ok := rng.Value.(*ast.Ident); ok && id.Name != "_" {
		valObj = info.Defs[id]
	}
	_, isMap := info.TypeOf(lit).Underlying().(*types.Map)
	for _, el := range lit.Elts {
		var keyExpr ast.Expr
		if kv, ok := el.(*ast.KeyValueExpr); ok {
			keyExpr, el = kv.Key, kv.Value
		}
		if u, ok := unparen(el).(*ast.UnaryExpr); ok && u.Op == token.AND {
			el = u.X
		}
		row, ok := unparen(el).(*ast.CompositeLit)
		if !ok {
			return nil, nil
		}
		if _, isStruct := info.TypeOf(row).Underlying().(*types.Struct); !isStruct {
			return nil, nil
		}
		en := &env{vars: map[types.Object]*binding{}}
		if valObj != nil {
			en.vars[valObj] = &binding{elem: row, pkg: pkg}
		}
		if keyObj != nil && isMap && keyExpr != nil {
			en.vars[keyObj] = &binding{expr: keyExpr, pkg: pkg}
		}
		envs = append(envs, en)
		rows = append(rows, row)
	}

	return envs, rows
}

// walkFile visits one file of a program package.
func (x *extractor) walkFile(pkg *packages.Package, file *ast.File, inProgram bool) {
	info := pkg.TypesInfo
	var stack []ast.Node
	// funcResults returns the result types of the innermost enclosing function.
	funcResults := func() *types.Tuple {
		for i := len(stack) - 1; i >= 0; i-- {
			switch f := stack[i].(type) {
			case *ast.FuncDecl:
				if o, ok := info.Defs[f.Name].(*types.Func); ok {
					return o.Type().(*types.Signature).Results()
				}
			case *ast.FuncLit:
				if s, ok := info.TypeOf(f).(*types.Signature); ok {
					return s.Results()
				}
			}
		}

		return nil
	}
	enclosingFunc := func() (*types.Func, *ast.FuncLit) {
		for i := len(stack) - 1; i >= 0; i-- {
			switch f := stack[i].(type) {
			case *ast.FuncLit:
				return nil, f
			case *ast.FuncDecl:
				o, _ := info.Defs[f.Name].(*types.Func)

				return o, nil
			}
		}

		return nil, nil
	}
	ast.Inspect(file, func(n ast.Node) bool {
		if n == nil {
			stack = stack[:len(stack)-1]

			return true
		}
		stack = append(stack, n)
		if !inProgram {
			if call, ok := n.(*ast.CallExpr); ok {
				_, _, isReg := isMuxReg(info, call)
				if isReg || (x.isRegSig(info.TypeOf(call.Fun)) && !info.Types[call.Fun].IsType()) {
					f, l := x.pos(call.Pos())
					x.outside = append(x.outside, fmt.Sprintf("%s:%d", f, l))
				}
			}

			return true
		}
		switch v := n.(type) {
		case *ast.Ident:
			if info.Uses[v] == x.muxFld {
				x.classifyMuxUse(pkg, v, stack)
			}
		case *ast.CallExpr:
			if tv, ok := info.Types[v.Fun]; ok && tv.IsType() {
				if len(v.Args) == 1 && x.isRegSig(tv.Type) {
					x.addFlow(pkg, v.Args[0], "conversion")
				}

				return true
			}
			if recv, isDefault, isReg := isMuxReg(info, v); isReg {
				if isDefault {
					x.fail(v.Pos(), "registration on http.DefaultServeMux: outside the understood subset")
				}
				if !x.isAdminMux(info, recv) {
					x.fail(v.Pos(), "registration on a mux other than homeContext.mux (%s)", exprString(x.fset, recv))
				}
				if _, isConst := x.constString(pkg, v.Args[0], nil); isConst {
					x.emitMuxReg(pkg, v, nil, "", v, pkg, "direct")
				} else if fn, lit := enclosingFunc(); fn != nil {
					x.tmplFns[fn] = v.Pos()
				} else if lit != nil {
					x.tmplLits[lit] = v.Pos()
				} else {
					x.fail(v.Pos(), "non-constant pattern registered outside any function")
				}
			} else if x.isRegSig(info.TypeOf(v.Fun)) {
				if envs, rows := x.tableEnvs(pkg, v, stack); envs != nil {
					// for _, r := range <literal table> { register(r.method, r.path, r.handler) }
					for i, en := range envs {
						x.tableRows++
						x.regCall(pkg, v, en, rows[i], pkg, 0)
					}
				} else {
					x.regCall(pkg, v, nil, v, pkg, 0)
				}
			}
			// arguments flowing into parameters of the callback type
			if sig, ok := info.TypeOf(v.Fun).(*types.Signature); ok {
				ps := sig.Params()
				for i, a := range v.Args {
					var pt types.Type
					switch {
					case sig.Variadic() && i >= ps.Len()-1:
						if sl, isSl := ps.At(ps.Len() - 1).Type().(*types.Slice); isSl && v.Ellipsis == token.NoPos {
							pt = sl.Elem()
						}
					case i < ps.Len():
						pt = ps.At(i).Type()
					}
					if x.isRegSig(pt) {
						x.addFlow(pkg, a, "argument of "+exprString(x.fset, v.Fun))
					}
				}
			}
		case *ast.CompositeLit:
			t := info.TypeOf(v)
			if t == nil {
				return true
			}
			switch u := t.Underlying().(type) {
			case *types.Struct:
				for i, el := range v.Elts {
					if kv, ok := el.(*ast.KeyValueExpr); ok {
						if k, isID := kv.Key.(*ast.Ident); isID {
							if fld, isVar := info.Uses[k].(*types.Var); isVar && x.isRegSig(fld.Type()) {
								x.addFlow(pkg, kv.Value, "field "+fld.Name())
							}
						}
					} else if i < u.NumFields() && x.isRegSig(u.Field(i).Type()) {
						x.addFlow(pkg, el, "field "+u.Field(i).Name())
					}
				}
			case *types.Slice, *types.Array, *types.Map:
				var et types.Type
				switch c := u.(type) {
				case *types.Slice:
					et = c.Elem()
				case *types.Array:
					et = c.Elem()
				case *types.Map:
					et = c.Elem()
				}
				if x.isRegSig(et) {
					for _, el := range v.Elts {
						if kv, ok := el.(*ast.KeyValueExpr); ok {
							x.addFlow(pkg, kv.Value, "element")
						} else {
							x.addFlow(pkg, el, "element")
						}
					}
				}
			}
		case *ast.AssignStmt:
			if len(v.Lhs) == len(v.Rhs) {
				for i := range v.Lhs {
					if id, ok := v.Lhs[i].(*ast.Ident); ok && id.Name == "_" {
						continue
					}
					if x.isRegSig(info.TypeOf(v.Lhs[i])) {
						x.addFlow(pkg, v.Rhs[i], "assignment to "+exprString(x.fset, v.Lhs[i]))
					}
				}
			} else {
				for _, l := range v.Lhs {
					if x.isRegSig(info.TypeOf(l)) {
						x.fail(v.Pos(), "multi-value assignment to a RegisterFunc location")
					}
				}
			}
		case *ast.ValueSpec:
			for i, name := range v.Names {
				if i < len(v.Values) && len(v.Values) == len(v.Names) {
					if o := info.Defs[name]; o != nil && x.isRegSig(o.Type()) {
						x.addFlow(pkg, v.Values[i], "variable "+name.Name)
					}
				}
			}
		case *ast.ReturnStmt:
			if res := funcResults(); res != nil && res.Len() == len(v.Results) {
				for i, r := range v.Results {
					if x.isRegSig(res.At(i).Type()) {
						x.addFlow(pkg, r, "return value")
					}
				}
			}
		case *ast.SendStmt:
			if x.isRegSig(info.TypeOf(v.Value)) {
				x.fail(v.Pos(), "a RegisterFunc value is sent on a channel: outside the understood subset")
			}
		}

		return true
	})
}

// classifyMuxUse makes sure the admin mux is only created, registered on and served.
func (x *extractor) classifyMuxUse(pkg *packages.Package, id *ast.Ident, stack []ast.Node) {
	info := pkg.TypesInfo
	f, l := x.pos(id.Pos())
	// stack: ... grand, parent(SelectorExpr X.mux), id
	if len(stack) < 3 {
		x.fail(id.Pos(), "unsupported use of the admin mux")
	}
	sel, ok := stack[len(stack)-2].(*ast.SelectorExpr)
	if !ok || sel.Sel != id {
		x.fail(id.Pos(), "unsupported use of the admin mux")
	}
	switch g := stack[len(stack)-3].(type) {
	case *ast.SelectorExpr:
		// globalContext.mux.Handle(...)
		if len(stack) >= 4 {
			if call, isCall := stack[len(stack)-4].(*ast.CallExpr); isCall && call.Fun == g {
				if _, _, isReg := isMuxReg(info, call); isReg {
					x.muxUses = append(x.muxUses, muxUse{Kind: "register", File: f, Line: l})

					return
				}
			}
		}
		x.fail(id.Pos(), "unsupported use of the admin mux: %s", exprString(x.fset, g))
	case *ast.AssignStmt:
		for i, lhs := range g.Lhs {
			if lhs == sel && len(g.Rhs) == len(g.Lhs) {
				if call, isCall := g.Rhs[i].(*ast.CallExpr); isCall {
					if fn, isFn := func() (*types.Func, bool) {
						o, _ := calleeObj(info, call.Fun)
						fn, isFn := o.(*types.Func)

						return fn, isFn
					}(); isFn && fn.FullName() == "net/http.NewServeMux" {
						x.muxUses = append(x.muxUses, muxUse{Kind: "init", File: f, Line: l})

						return
					}
				}
			}
		}
		x.fail(id.Pos(), "unsupported assignment involving the admin mux")
	case *ast.CallExpr:
		// withMiddlewares(globalContext.mux, limitRequestBody): the servers' handler
		o, _ := calleeObj(info, g.Fun)
		if fn, isFn := o.(*types.Func); isFn && fn.FullName() == homePath+".withMiddlewares" &&
			len(g.Args) == 2 && g.Args[0] == sel {
			if mo, _ := calleeObj(info, g.Args[1]); mo != nil {
				if mfn, isM := mo.(*types.Func); isM && mfn.FullName() == homePath+".limitRequestBody" {
					x.muxUses = append(x.muxUses, muxUse{Kind: "serve", File: f, Line: l})

					return
				}
			}
		}
		x.fail(id.Pos(), "the admin mux is passed to %s: outside the understood subset", exprString(x.fset, g.Fun))
	}
	x.fail(id.Pos(), "unsupported use of the admin mux")
}

// authFact is one fact about how globalContext.auth gets its value.
type authFact struct {
	Kind string `json:"kind"` // assignCheckedFatal | nilAfterWebClose | returnNilWithError | returnCheckedValue | bad
	Why  string `json:"why,omitempty"`
	File string `json:"file"`
	Line int    `json:"line"`
}

// nonNilError reports whether e is an error value that cannot be nil: a
// conversion of a constant string to an error type, or fmt.Errorf / errors.New.
func (x *extractor) nonNilError(pkg *packages.Package, e ast.Expr) bool {
	call, ok := unparen(e).(*ast.CallExpr)
	if !ok {
		return false
	}
	info := pkg.TypesInfo
	if tv, isT := info.Types[call.Fun]; isT && tv.IsType() && len(call.Args) == 1 {
		if av, hasV := info.Types[call.Args[0]]; hasV && av.Value != nil && av.Value.Kind() == constant.String {
			_, isPtr := tv.Type.Underlying().(*types.Pointer)
			_, isIface := tv.Type.Underlying().(*types.Interface)

			return !isPtr && !isIface
		}

		return false
	}
	obj, _ := calleeObj(info, call.Fun)
	fn, isFn := obj.(*types.Func)
	if !isFn {
		return false
	}
	switch fn.FullName() {
	case "fmt.Errorf", "errors.New", "github.com/AdguardTeam/golibs/errors.New":
		return true
	}

	return false
}

// authFacts collects every place that decides whether globalContext.auth is nil
// while requests are served: the assignments to the field, and the returns of
// the function the checked assignment calls (initUsers).
func (x *extractor) authFacts() (facts []authFact) {
	home := x.pkgs[homePath]
	info := home.TypesInfo
	var authFld *types.Var
	if hc := home.Types.Scope().Lookup("homeContext"); hc != nil {
		if st, ok := hc.Type().Underlying().(*types.Struct); ok {
			for i := 0; i < st.NumFields(); i++ {
				if st.Field(i).Name() == "auth" {
					authFld = st.Field(i)
				}
			}
		}
	}
	if authFld == nil {
		fmt.Fprintln(os.Stderr, "extract c11: field homeContext.auth not found (update the extractor)")
		os.Exit(3)
	}
	add := func(kind, why string, p token.Pos) {
		f, l := x.pos(p)
		facts = append(facts, authFact{Kind: kind, Why: why, File: f, Line: l})
	}
	isAuthField := func(e ast.Expr) bool {
		sel, ok := unparen(e).(*ast.SelectorExpr)
		if !ok {
			return false
		}
		s := info.Selections[sel]

		return s != nil && s.Obj() == authFld
	}
	initFns := map[*types.Func]bool{}
	for _, file := range home.Syntax {
		for _, d := range file.Decls {
			fd, ok := d.(*ast.FuncDecl)
			if !ok || fd.Body == nil {
				continue
			}
			// every block, to see the statement after an assignment
			ast.Inspect(fd.Body, func(n ast.Node) bool {
				blk, isBlk := n.(*ast.BlockStmt)
				if !isBlk {
					return true
				}
				for i, st := range blk.List {
					as, isAs := st.(*ast.AssignStmt)
					if !isAs {
						continue
					}
					for li, lhs := range as.Lhs {
						if !isAuthField(lhs) {
							continue
						}
						// globalContext.auth = nil
						if len(as.Lhs) == len(as.Rhs) {
							if tv, has := info.Types[as.Rhs[li]]; has && tv.IsNil() {
								closed := false
								ast.Inspect(fd.Body, func(m ast.Node) bool {
									c, isCall := m.(*ast.CallExpr)
									if !isCall || c.Pos() > as.Pos() {
										return true
									}
									if o, _ := calleeObj(info, c.Fun); o != nil {
										if fn, isFn := o.(*types.Func); isFn && fn.FullName() == "(*"+homePath+".webAPI).close" {
											closed = true
										}
									}

									return true
								})
								if closed {
									add("nilAfterWebClose", "", as.Pos())
								} else {
									add("bad", "globalContext.auth = nil while the web server may be serving", as.Pos())
								}

								continue
							}
						}
						// globalContext.auth, err = f(); fatalOnError(err)
						if len(as.Lhs) == 2 && len(as.Rhs) == 1 && li == 0 {
							call, isCall := unparen(as.Rhs[0]).(*ast.CallExpr)
							errID, isID := as.Lhs[1].(*ast.Ident)
							if isCall && isID && i+1 < len(blk.List) {
								if es, isES := blk.List[i+1].(*ast.ExprStmt); isES {
									if c2, isC2 := es.X.(*ast.CallExpr); isC2 && len(c2.Args) == 1 {
										o, _ := calleeObj(info, c2.Fun)
										fn, isFn := o.(*types.Func)
										argID, isArgID := unparen(c2.Args[0]).(*ast.Ident)
										if isFn && fn.FullName() == homePath+".fatalOnError" && isArgID &&
											info.ObjectOf(argID) == info.ObjectOf(errID) {
											if co, _ := calleeObj(info, call.Fun); co != nil {
												if cf, isCF := co.(*types.Func); isCF && x.decls[cf] != nil {
													initFns[cf] = true
													add("assignCheckedFatal", "", as.Pos())

													continue
												}
											}
										}
									}
								}
							}
						}
						add("bad", "globalContext.auth is assigned without the (value, err) + fatalOnError(err) pattern", as.Pos())
					}
				}

				return true
			})
		}
	}
	// The functions whose (auth, err) result is assigned: every return.
	for fn := range initFns {
		fi := x.decls[fn]
		finfo := fi.pkg.TypesInfo
		// `if v == nil { ... return }` statements at the top level of the body
		checked := map[types.Object]token.Pos{}
		for _, st := range fi.decl.Body.List {
			ifs, ok := st.(*ast.IfStmt)
			if !ok || ifs.Init != nil || ifs.Else != nil || len(ifs.Body.List) == 0 {
				continue
			}
			be, isBE := unparen(ifs.Cond).(*ast.BinaryExpr)
			if !isBE || be.Op != token.EQL {
				continue
			}
			id, isID := unparen(be.X).(*ast.Ident)
			tv, has := finfo.Types[be.Y]
			if !isID || !has || !tv.IsNil() {
				continue
			}
			if _, endsInReturn := ifs.Body.List[len(ifs.Body.List)-1].(*ast.ReturnStmt); endsInReturn {
				checked[finfo.ObjectOf(id)] = ifs.End()
			}
		}
		ast.Inspect(fi.decl.Body, func(n ast.Node) bool {
			if _, isLit := n.(*ast.FuncLit); isLit {
				return false
			}
			ret, ok := n.(*ast.ReturnStmt)
			if !ok {
				return true
			}
			if len(ret.Results) != 2 {
				add("bad", "return of "+fn.Name()+" without explicit results", ret.Pos())

				return true
			}
			if tv, has := finfo.Types[ret.Results[0]]; has && tv.IsNil() {
				if x.nonNilError(fi.pkg, ret.Results[1]) {
					add("returnNilWithError", "", ret.Pos())
				} else {
					add("bad", "returns a nil auth module with an error that may be nil: "+exprString(x.fset, ret.Results[1]), ret.Pos())
				}

				return true
			}
			if id, isID := unparen(ret.Results[0]).(*ast.Ident); isID {
				if p, isChecked := checked[finfo.ObjectOf(id)]; isChecked && p < ret.Pos() {
					add("returnCheckedValue", "", ret.Pos())

					return true
				}
			}
			add("bad", "returns an auth module that was not checked for nil", ret.Pos())

			return true
		})
	}
	// InitAuth: the users parameter goes into the module as it is.
	if ia, ok := home.Types.Scope().Lookup("InitAuth").(*types.Func); ok && x.decls[ia] != nil {
		fi := x.decls[ia]
		finfo := fi.pkg.TypesInfo
		var usersParam types.Object
		for _, p := range paramObjs(finfo, fi.decl.Type) {
			if p != nil && p.Name() == "users" {
				usersParam = p
			}
		}
		stored, writes := token.NoPos, 0
		ast.Inspect(fi.decl.Body, func(n ast.Node) bool {
			switch v := n.(type) {
			case *ast.CompositeLit:
				if t := finfo.TypeOf(v); t != nil && strings.HasSuffix(t.String(), "/internal/home.Auth") {
					for _, el := range v.Elts {
						kv, isKV := el.(*ast.KeyValueExpr)
						if !isKV {
							continue
						}
						if k, isID := kv.Key.(*ast.Ident); isID && k.Name == "users" {
							if id, isVal := unparen(kv.Value).(*ast.Ident); isVal && usersParam != nil && finfo.Uses[id] == usersParam {
								stored = kv.Pos()
							} else {
								writes++
								add("bad", "InitAuth does not store its users parameter as it is: "+exprString(x.fset, kv.Value), kv.Pos())
							}
						}
					}
				}
			case *ast.AssignStmt:
				for _, lhs := range v.Lhs {
					if sel, isSel := unparen(lhs).(*ast.SelectorExpr); isSel && sel.Sel.Name == "users" {
						if s := finfo.Selections[sel]; s != nil && strings.HasSuffix(s.Recv().String(), "/internal/home.Auth") {
							writes++
							add("bad", "InitAuth rewrites the users of the module", v.Pos())
						}
					}
				}
			}

			return true
		})
		if stored != token.NoPos && writes == 0 {
			add("usersStoredAsGiven", "", stored)
		}
	} else {
		add("bad", "InitAuth not found", token.NoPos)
	}
	sort.SliceStable(facts, func(i, j int) bool {
		if facts[i].File != facts[j].File {
			return facts[i].File < facts[j].File
		}

		return facts[i].Line < facts[j].Line
	})

	return facts
}

// gateRoots are the functions of internal/home that stand between the mux and a
// registered handler: the wrappers and the registrar.
var gateRoots = []string{
	"optionalAuth", "optionalAuthHandler", "authHandler.ServeHTTP", "optionalAuthThird", "isPublicResource",
	"postInstall", "postInstallHandler", "postInstallHandlerStruct.ServeHTTP",
	"preInstall", "preInstallHandler", "preInstallHandlerStruct.ServeHTTP",
	"ensure", "ensureHandler", "httpHandler.ServeHTTP", "ensureContentType", "modifiesData",
	"httpRegister", "withMiddlewares", "limitRequestBody",
}

// gateCallees returns every function (of the module or not) that is named in
// the body of a function on the gate path, transitively through module
// functions: what the Lean model has to account for.  A new helper on that path
// (or a new library call in one of its functions) shows up here.
func (x *extractor) gateCallees() (names []string, sites map[string]string, gateFns []*types.Func) {
	home := x.pkgs[homePath]
	seen := map[*types.Func]bool{}
	sites = map[string]string{}
	var work []*types.Func
	byName := map[string]*types.Func{}
	for fn := range x.decls {
		if fn.Pkg() == home.Types {
			n := fn.Name()
			if sig, ok := fn.Type().(*types.Signature); ok && sig.Recv() != nil {
				t := sig.Recv().Type()
				if pt, isPtr := t.(*types.Pointer); isPtr {
					t = pt.Elem()
				}
				if nt, isNamed := t.(*types.Named); isNamed {
					n = nt.Obj().Name() + "." + n
				}
			}
			byName[n] = fn
		}
	}
	for _, r := range gateRoots {
		fn := byName[r]
		if fn == nil {
			fmt.Fprintf(os.Stderr, "extract c11: gate function %s not found in internal/home (the gate moved: update the extractor)\n", r)
			os.Exit(3)
		}
		work = append(work, fn)
	}
	set := map[string]bool{}
	for len(work) > 0 {
		fn := work[len(work)-1]
		work = work[:len(work)-1]
		if seen[fn] {
			continue
		}
		seen[fn] = true
		set[fn.FullName()] = true
		fi := x.decls[fn]
		if fi == nil || fi.decl.Body == nil {
			continue
		}
		ast.Inspect(fi.decl.Body, func(n ast.Node) bool {
			id, ok := n.(*ast.Ident)
			if !ok {
				return true
			}
			callee, isFn := fi.pkg.TypesInfo.Uses[id].(*types.Func)
			if !isFn {
				return true
			}
			full := callee.FullName()
			if !set[full] {
				f, l := x.pos(id.Pos())
				sites[full] = fmt.Sprintf("%s:%d", f, l)
			}
			set[full] = true
			if callee.Pkg() != nil && x.pkgs[callee.Pkg().Path()] != nil {
				work = append(work, callee)
			}

			return true
		})
	}
	for n := range set {
		names = append(names, n)
	}
	sort.Strings(names)
	for fn := range seen {
		gateFns = append(gateFns, fn)
	}

	return names, sites, gateFns
}

// gateUseFacts pins how the gate uses findUser: every call on the gate path must
// be `_, v = findUser(...)` (the returned user is discarded) and v must not be
// assigned anywhere else in that function.
func (x *extractor) gateUseFacts(gateFns []*types.Func) (facts []authFact) {
	const findUser = "(*" + homePath + ".Auth).findUser"
	for _, fn := range gateFns {
		fi := x.decls[fn]
		if fi == nil || fi.decl.Body == nil || fn.FullName() == findUser {
			continue
		}
		info := fi.pkg.TypesInfo
		isFindUser := func(e ast.Expr) bool {
			call, ok := unparen(e).(*ast.CallExpr)
			if !ok {
				return false
			}
			o, _ := calleeObj(info, call.Fun)
			f, isFn := o.(*types.Func)

			return isFn && f.FullName() == findUser
		}
		// Every call, with the statement it stands in.
		handled := map[*ast.CallExpr]bool{}
		ast.Inspect(fi.decl.Body, func(n ast.Node) bool {
			as, ok := n.(*ast.AssignStmt)
			if !ok || len(as.Rhs) != 1 || !isFindUser(as.Rhs[0]) {
				return true
			}
			handled[unparen(as.Rhs[0]).(*ast.CallExpr)] = true
			f, l := x.pos(as.Pos())
			bad := func(why string) {
				facts = append(facts, authFact{Kind: "bad", Why: why, File: f, Line: l})
			}
			if len(as.Lhs) != 2 {
				bad("findUser result not destructured")

				return true
			}
			if id, isID := as.Lhs[0].(*ast.Ident); !isID || id.Name != "_" {
				bad("the gate keeps the user returned by findUser: " + exprString(x.fset, as.Lhs[0]))

				return true
			}
			vid, isID := as.Lhs[1].(*ast.Ident)
			if !isID || vid.Name == "_" {
				bad("the gate discards findUser's verdict")

				return true
			}
			vobj := info.ObjectOf(vid)
			others := 0
			ast.Inspect(fi.decl.Body, func(m ast.Node) bool {
				switch v := m.(type) {
				case *ast.AssignStmt:
					if v == as {
						return true
					}
					for _, lhs := range v.Lhs {
						if id := rootIdent(lhs); id != nil && info.ObjectOf(id) == vobj {
							others++
						}
					}
				case *ast.IncDecStmt:
					if id := rootIdent(v.X); id != nil && info.ObjectOf(id) == vobj {
						others++
					}
				case *ast.UnaryExpr:
					if v.Op == token.AND {
						if id := rootIdent(v.X); id != nil && info.ObjectOf(id) == vobj {
							others++
						}
					}
				}

				return true
			})
			if others != 0 {
				bad("findUser's verdict " + vid.Name + " is overwritten in " + fn.Name())

				return true
			}
			facts = append(facts, authFact{Kind: "findUserVerdictOnly", File: f, Line: l})

			return true
		})
		ast.Inspect(fi.decl.Body, func(n ast.Node) bool {
			if call, ok := n.(*ast.CallExpr); ok && isFindUser(call) && !handled[call] {
				f, l := x.pos(call.Pos())
				facts = append(facts, authFact{Kind: "bad", Why: "findUser used outside a plain `_, ok =` assignment", File: f, Line: l})
			}

			return true
		})
	}
	sort.SliceStable(facts, func(i, j int) bool {
		if facts[i].File != facts[j].File {
			return facts[i].File < facts[j].File
		}

		return facts[i].Line < facts[j].Line
	})

	return facts
}

func bytesLit(s string) string {
	if s == "" {
		return "[]"
	}
	parts := make([]string, len(s))
	for i := 0; i < len(s); i++ {
		parts[i] = fmt.Sprint(s[i])
	}

	return "[" + strings.Join(parts, ", ") + "]"
}

func wrapperLean(w wrapper) string {
	if w.Kind == "ensure" {
		return "(.ensure " + bytesLit(w.Method) + ")"
	}

	return "." + w.Kind
}

func main() {
	verif := os.Getenv("VERIF_ROOT")
	if verif == "" {
		wd, err := os.Getwd()
		if err != nil {
			panic(err)
		}
		verif = wd
	}
	leanOut := filepath.Join(verif, "lean/AGH/Gen/C11Routes.lean")
	factsOut := filepath.Join(verif, "build/C11/facts.json")
	_ = os.Remove(leanOut)
	_ = os.Remove(factsOut)
	if err := os.MkdirAll(filepath.Dir(factsOut), 0o755); err != nil {
		panic(err)
	}
	if err := os.MkdirAll(filepath.Dir(leanOut), 0o755); err != nil {
		panic(err)
	}

	roots := load.Packages("./...")
	x := &extractor{
		repo:    load.Repo(),
		pkgs:    map[string]*packages.Package{},
		program: map[string]bool{},
		decls:   map[*types.Func]*funcInfo{},
		srcSeen: map[string]bool{},
		tmplFns: map[*types.Func]token.Pos{},
		instFns: map[*types.Func]bool{},

		tmplLits: map[*ast.FuncLit]token.Pos{},
		instLits: map[*ast.FuncLit]bool{},
	}
	if abs, err := filepath.EvalSymlinks(x.repo); err == nil {
		x.repo = abs
	}
	var visit func(p *packages.Package)
	seen := map[string]bool{}
	visit = func(p *packages.Package) {
		if seen[p.PkgPath] {
			return
		}
		seen[p.PkgPath] = true
		if p.Module != nil && p.Module.Path == modPath {
			x.pkgs[p.PkgPath] = p
			if x.fset == nil {
				x.fset = p.Fset
			}
		}
		for _, ip := range p.Imports {
			visit(ip)
		}
	}
	for _, p := range roots {
		visit(p)
	}
	mainPkg := x.pkgs[modPath]
	if mainPkg == nil || mainPkg.Name != "main" {
		fmt.Fprintln(os.Stderr, "extract c11: main package of the module not found")
		os.Exit(3)
	}
	var mark func(p *packages.Package)
	mark = func(p *packages.Package) {
		if x.program[p.PkgPath] {
			return
		}
		x.program[p.PkgPath] = true
		for _, ip := range p.Imports {
			if ip.Module != nil && ip.Module.Path == modPath {
				mark(ip)
			}
		}
	}
	mark(mainPkg)

	for _, p := range x.pkgs {
		for _, f := range p.Syntax {
			for _, d := range f.Decls {
				if fd, ok := d.(*ast.FuncDecl); ok {
					if o, isFn := p.TypesInfo.Defs[fd.Name].(*types.Func); isFn {
						x.decls[o] = &funcInfo{decl: fd, pkg: p}
					}
				}
			}
		}
	}

	hp := x.pkgs[aghhttp]
	if hp == nil {
		fmt.Fprintln(os.Stderr, "extract c11: package internal/aghhttp not found")
		os.Exit(3)
	}
	rf := hp.Types.Scope().Lookup("RegisterFunc")
	if rf == nil {
		fmt.Fprintln(os.Stderr, "extract c11: aghhttp.RegisterFunc not found")
		os.Exit(3)
	}
	sig, ok := rf.Type().Underlying().(*types.Signature)
	if !ok {
		fmt.Fprintln(os.Stderr, "extract c11: aghhttp.RegisterFunc is not a function type")
		os.Exit(3)
	}
	x.regSig = sig

	home := x.pkgs[homePath]
	if home == nil {
		fmt.Fprintln(os.Stderr, "extract c11: package internal/home not found")
		os.Exit(3)
	}
	if hc := home.Types.Scope().Lookup("homeContext"); hc != nil {
		if st, isSt := hc.Type().Underlying().(*types.Struct); isSt {
			for i := 0; i < st.NumFields(); i++ {
				if st.Field(i).Name() == "mux" {
					x.muxFld = st.Field(i)
				}
			}
		}
	}
	if x.muxFld == nil {
		fmt.Fprintln(os.Stderr, "extract c11: field homeContext.mux not found (the admin mux moved: update the extractor)")
		os.Exit(3)
	}
	for name := range baseWrappers {
		if !strings.HasPrefix(name, homePath+".") {
			continue
		}
		if home.Types.Scope().Lookup(strings.TrimPrefix(name, homePath+".")) == nil {
			fmt.Fprintf(os.Stderr, "extract c11: wrapper %s not found in internal/home\n", name)
			os.Exit(3)
		}
	}

	paths := make([]string, 0, len(x.pkgs))
	for pp := range x.pkgs {
		paths = append(paths, pp)
	}
	sort.Strings(paths)
	nProg := 0
	for _, pp := range paths {
		p := x.pkgs[pp]
		if x.program[pp] {
			nProg++
		}
		for _, f := range p.Syntax {
			x.walkFile(p, f, x.program[pp])
		}
	}

	// Calls through values of the callback type: any source may be the callee.
	for i := 0; i < len(x.valCalls); i++ {
		pc := x.valCalls[i]
		if len(x.sources) == 0 {
			x.fail(pc.call.Pos(), "call through a RegisterFunc value, but no function flows into any RegisterFunc location")
		}
		for _, src := range x.sources {
			x.instantiate(src, pc.pkg, pc.call, pc.env, pc.site, pc.pkg, 0)
		}
	}
	for fn, p := range x.tmplFns {
		if !x.instFns[fn] {
			x.fail(p, "function %s registers a non-constant pattern and is never called with constant arguments", fn.FullName())
		}
	}
	for lit, p := range x.tmplLits {
		if !x.instLits[lit] {
			x.fail(p, "a function literal registers a non-constant pattern and never flows into a RegisterFunc location")
		}
	}

	// Deduplicate and order.
	sort.SliceStable(x.routes, func(i, j int) bool {
		a, b := x.routes[i], x.routes[j]
		if a.File != b.File {
			return a.File < b.File
		}
		if a.Line != b.Line {
			return a.Line < b.Line
		}
		if a.Pattern != b.Pattern {
			return a.Pattern < b.Pattern
		}

		return a.Via < b.Via
	})
	var routes []route
	for i, r := range x.routes {
		if i > 0 {
			a, _ := json.Marshal(x.routes[i-1])
			b, _ := json.Marshal(r)
			if string(a) == string(b) {
				continue
			}
		}
		routes = append(routes, r)
	}
	sort.SliceStable(x.flows, func(i, j int) bool {
		a, b := x.flows[i], x.flows[j]
		if a.File != b.File {
			return a.File < b.File
		}

		return a.Line < b.Line
	})

	var sb strings.Builder
	sb.WriteString("/-\nGENERATED by /verif/extract/cmd/c11 from the typed AST of the tree — never edit.\n")
	sb.WriteString("Route table of the admin mux (homeContext.mux) and the values flowing into\n")
	sb.WriteString("locations of type aghhttp.RegisterFunc.  Names and file:line: build/C11/facts.json.\n-/\n")
	sb.WriteString("import AGH.Model.Http\nnamespace AGH.C11.Gen\nopen AGH.C11\n\n")
	sb.WriteString("def routes : List Route := [\n")
	for i, r := range routes {
		ws := make([]string, len(r.Chain))
		for j, w := range r.Chain {
			ws[j] = wrapperLean(w)
		}
		fmt.Fprintf(&sb, "  -- %d: %q %s  %s:%d  handler %s  (via %s)\n", i, r.Pattern, r.Declared, r.File, r.Line, r.Handler, r.Via)
		fmt.Fprintf(&sb, "  { pattern := %s, declared := %s, chain := [%s], site := %d }", bytesLit(r.Pattern), bytesLit(r.Declared), strings.Join(ws, ", "), i)
		if i != len(routes)-1 {
			sb.WriteString(",")
		}
		sb.WriteString("\n")
	}
	sb.WriteString("]\n\ndef regFlows : List Flow := [\n")
	leanSrc := map[string]string{"httpRegister": ".httpRegister", "passthrough": ".passthrough", "nil": ".nilValue", "other": ".other"}
	for i, fl := range x.flows {
		fmt.Fprintf(&sb, "  -- %d: %s:%d  %s  <-  %s\n", i, fl.File, fl.Line, fl.Into, strings.ReplaceAll(fl.Expr, "\n", " "))
		fmt.Fprintf(&sb, "  { src := %s, site := %d }", leanSrc[fl.Src], i)
		if i != len(x.flows)-1 {
			sb.WriteString(",")
		}
		sb.WriteString("\n")
	}
	gateNames, gateSites, gateFns := x.gateCallees()
	sb.WriteString("]\n\n/-- every function named on the path from the mux to a registered handler -/\n")
	sb.WriteString("def gateCallees : List Bytes := [\n")
	for i, n := range gateNames {
		fmt.Fprintf(&sb, "  -- %s  (%s)\n  %s", n, gateSites[n], bytesLit(n))
		if i != len(gateNames)-1 {
			sb.WriteString(",")
		}
		sb.WriteString("\n")
	}
	aFacts := x.authFacts()
	sb.WriteString("]\n\n/-- how globalContext.auth gets its value -/\ndef authFacts : List AuthFact := [\n")
	for i, f := range aFacts {
		fmt.Fprintf(&sb, "  -- %d: %s:%d %s\n  { kind := .%s, site := %d }", i, f.File, f.Line, f.Why, f.Kind, i)
		if i != len(aFacts)-1 {
			sb.WriteString(",")
		}
		sb.WriteString("\n")
	}
	uFacts := x.gateUseFacts(gateFns)
	sb.WriteString("]\n\n/-- how the gate uses findUser -/\ndef gateUseFacts : List AuthFact := [\n")
	for i, f := range uFacts {
		fmt.Fprintf(&sb, "  -- %d: %s:%d %s\n  { kind := .%s, site := %d }", i, f.File, f.Line, f.Why, f.Kind, i)
		if i != len(uFacts)-1 {
			sb.WriteString(",")
		}
		sb.WriteString("\n")
	}
	sb.WriteString("]\n\nend AGH.C11.Gen\n")
	if err := os.WriteFile(leanOut, []byte(sb.String()), 0o644); err != nil {
		panic(err)
	}

	direct, viaReg := 0, 0
	byPkg := map[string]int{}
	for _, r := range routes {
		if r.Via == "direct" {
			direct++
		} else {
			viaReg++
		}
		byPkg[r.Pkg]++
	}
	srcNames := []string{}
	for _, s := range x.sources {
		srcNames = append(srcNames, s.name)
	}
	flowKinds := map[string]int{}
	for _, fl := range x.flows {
		flowKinds[fl.Src]++
	}
	muxKinds := map[string]int{}
	for _, u := range x.muxUses {
		muxKinds[u.Kind]++
	}
	sort.Strings(x.outside)
	facts := map[string]any{
		"summary": map[string]any{
			"routes":                     len(routes),
			"gate_path_callees":          len(gateNames),
			"routes_from_literal_tables": x.tableRows,
			"routes_with_unknown_guard":  x.unknownRoutes,
			"routes_direct_on_mux":       direct,
			"routes_via_registrar":       viaReg,
			"routes_by_package":          byPkg,
			"registerfunc_flows":         flowKinds,
			"registrar_sources":          srcNames,
			"admin_mux_uses":             muxKinds,
			"module_packages":            len(x.pkgs),
			"program_packages_scanned":   nProg,
			"sites_outside_the_program":  len(x.outside),
		},
		"gate_callees":        gateNames,
		"auth_facts":          aFacts,
		"gate_use_facts":      uFacts,
		"routes":              routes,
		"flows":               x.flows,
		"mux_uses":            x.muxUses,
		"outside_the_program": x.outside,
	}
	data, err := json.MarshalIndent(facts, "", " ")
	if err != nil {
		panic(err)
	}
	if err = os.WriteFile(factsOut, data, 0o644); err != nil {
		panic(err)
	}
	fmt.Printf("c11: %d routes (%d direct, %d via registrar), %d RegisterFunc flows %v, %d program packages\n",
		len(routes), direct, viaReg, len(x.flows), flowKinds, nProg)
}
