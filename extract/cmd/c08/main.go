// Command c08 is the fact extractor of property C08 (translator tie).
//
// From the typed syntax of ./internal/dnsforward (non-test files) it lists
// every call that takes part in deciding about, anonymizing, and making a
// query-log or statistics record, with the function it occurs in, the guard
// it stands under and its position, plus the operands of every assignment to
// the id list `ids` in processQueryLogsAndStats.  The theorem
// C08_record_calls_dominated (Props/C08.lean) checks over these tables that
// every record-making call is dominated by its ignore decision and by the one
// anonymizer call, and that the id list is built from the real address.
// Output:
//
//	lean/AGH/Gen/C08Facts.lean   (tables, Nat-coded)
//	build/C08/facts.json         (the same with names)
//
// Anything it cannot classify inside the functions it looks at is a fatal
// error with file:line — a broken tie, never a silent default.
package main

import (
	"encoding/json"
	"fmt"
	"go/ast"
	"go/token"
	"go/types"
	"os"
	"path/filepath"
	"sort"
	"strings"

	"golang.org/x/tools/go/packages"

	"verif/extract/internal/load"
)

const (
	modPath = "github.com/AdguardTeam/AdGuardHome"
	pkgPath = modPath + "/internal/dnsforward"
)

// Callee codes.
const (
	calLogQuery = iota + 1
	calUpdateStats
	calQLogAdd
	calStatsUpdate
	calShouldLog
	calShouldCountStat
	calQLogShouldLog
	calStatsShouldCount
	calAnonymize
)

var calleeNames = map[int]string{
	calLogQuery: "logQuery", calUpdateStats: "updateStats",
	calQLogAdd: "querylog.QueryLog.Add", calStatsUpdate: "stats.Interface.Update",
	calShouldLog: "shouldLog", calShouldCountStat: "shouldCountStat",
	calQLogShouldLog: "querylog.QueryLog.ShouldLog", calStatsShouldCount: "stats.Interface.ShouldCount",
	calAnonymize: "s.anonymizer.Load()(ip)",
}

// Function codes (0 = any other function of the package).
var fnCodes = map[string]int{
	"processQueryLogsAndStats": 1, "logQuery": 2, "updateStats": 3, "shouldLog": 4, "shouldCountStat": 5,
}

// Guard codes: 0 none, 1 then-branch of `if s.shouldLog(...)`, 2 then-branch of
// `if s.shouldCountStat(...)`, 9 under a condition that mentions one of them in
// any other shape.
type call struct {
	Callee   int    `json:"callee"`
	Fn       int    `json:"fn"`
	Guard    int    `json:"guard"`
	Pos      int    `json:"pos"`
	Arg      int    `json:"arg"`
	Where    string `json:"where"`
	FuncName string `json:"func"`
}

func verifRoot() string {
	if v := os.Getenv("VERIF_ROOT"); v != "" {
		return v
	}
	wd, err := os.Getwd()
	if err != nil {
		panic(err)
	}

	return wd
}

func fatal(fset *token.FileSet, pos token.Pos, format string, args ...any) {
	fmt.Fprintf(os.Stderr, "extract c08: %s: %s\n", fset.Position(pos), fmt.Sprintf(format, args...))
	os.Exit(1)
}

type extractor struct {
	pkg   *packages.Package
	calls []call
	// idsOps are the operand codes of the composite literals assigned to ids:
	// 1 realIPStr, 2 dctx.clientID, 3 anything else.
	idsOps    []int
	idsAssign int
	realPos   int
	ipStrPos  int
}

// calleeOf classifies the function a call expression calls.
func (x *extractor) calleeOf(ce *ast.CallExpr) int {
	// s.anonymizer.Load()(ip): the callee is itself a call of (*aghnet.IPMut).Load.
	if inner, ok := ce.Fun.(*ast.CallExpr); ok {
		if f := x.funcOf(inner.Fun); f != nil && f.FullName() == "(*"+modPath+"/internal/aghnet.IPMut).Load" {
			return calAnonymize
		}

		return 0
	}
	f := x.funcOf(ce.Fun)
	if f == nil {
		return 0
	}
	// The four helpers are methods of *Server or package-level functions.
	switch f.FullName() {
	case "(*" + pkgPath + ".Server).logQuery", pkgPath + ".logQuery":
		return calLogQuery
	case "(*" + pkgPath + ".Server).updateStats", pkgPath + ".updateStats":
		return calUpdateStats
	case "(*" + pkgPath + ".Server).shouldLog", pkgPath + ".shouldLog":
		return calShouldLog
	case "(*" + pkgPath + ".Server).shouldCountStat", pkgPath + ".shouldCountStat":
		return calShouldCountStat
	case "(" + modPath + "/internal/querylog.QueryLog).Add":
		return calQLogAdd
	case "(" + modPath + "/internal/querylog.QueryLog).ShouldLog":
		return calQLogShouldLog
	case "(" + modPath + "/internal/stats.Interface).Update":
		return calStatsUpdate
	case "(" + modPath + "/internal/stats.Interface).ShouldCount":
		return calStatsShouldCount
	}

	return 0
}

func (x *extractor) funcOf(e ast.Expr) *types.Func {
	switch e := e.(type) {
	case *ast.SelectorExpr:
		f, _ := x.pkg.TypesInfo.Uses[e.Sel].(*types.Func)

		return f
	case *ast.Ident:
		f, _ := x.pkg.TypesInfo.Uses[e].(*types.Func)

		return f
	case *ast.ParenExpr:
		return x.funcOf(e.X)
	}

	return nil
}

// isServerOrFunc reports whether fd is a package-level function or a method of
// Server / *Server.
func isServerOrFunc(fd *ast.FuncDecl) bool {
	if fd.Recv == nil {
		return true
	}
	if len(fd.Recv.List) != 1 {
		return false
	}
	t := fd.Recv.List[0].Type
	if st, ok := t.(*ast.StarExpr); ok {
		t = st.X
	}

	return isIdent(t, "Server")
}

func isIdent(e ast.Expr, name string) bool {
	id, ok := e.(*ast.Ident)

	return ok && id.Name == name
}

// argCode says whether the variable the model cares about is handed over as an
// argument (at whatever position: the helpers are methods or functions): 1 yes,
// 3 no.
func argCode(callee int, ce *ast.CallExpr) int {
	want := func(name string) int {
		for _, a := range ce.Args {
			if isIdent(a, name) {
				return 1
			}
		}

		return 3
	}
	switch callee {
	case calLogQuery:
		return want("ip")
	case calUpdateStats:
		return want("ipStr")
	case calShouldLog, calShouldCountStat, calQLogShouldLog, calStatsShouldCount:
		return want("ids")
	case calAnonymize:
		return want("ip")
	}

	return 1
}

// mentions reports whether e contains a call of one of the two deciders.
func (x *extractor) mentions(e ast.Expr) (found bool) {
	ast.Inspect(e, func(n ast.Node) bool {
		if ce, ok := n.(*ast.CallExpr); ok {
			if c := x.calleeOf(ce); c == calShouldLog || c == calShouldCountStat {
				found = true
			}
		}

		return true
	})

	return found
}

func (x *extractor) walkFunc(fd *ast.FuncDecl) {
	fn := 0
	if isServerOrFunc(fd) {
		fn = fnCodes[fd.Name.Name]
	}
	fset := x.pkg.Fset

	var stack []ast.Node
	ast.Inspect(fd.Body, func(n ast.Node) bool {
		if n == nil {
			stack = stack[:len(stack)-1]

			return true
		}
		stack = append(stack, n)

		if fn == 1 {
			x.processStmt(n)
		}

		ce, ok := n.(*ast.CallExpr)
		if !ok {
			return true
		}
		callee := x.calleeOf(ce)
		if callee == 0 {
			return true
		}

		// The guard: the nearest enclosing if statement that mentions a decider.
		guard := 0
		for i := len(stack) - 2; i >= 0 && guard == 0; i-- {
			ifs, isIf := stack[i].(*ast.IfStmt)
			if !isIf || !x.mentions(ifs.Cond) {
				continue
			}
			if ifs.Cond == stack[i+1] || containsNode(ifs.Cond, n) {
				// the call is (part of) the condition itself
				continue
			}
			guard = 9
			if stack[i+1] == ast.Node(ifs.Body) && ifs.Init == nil {
				if cc, isCall := ifs.Cond.(*ast.CallExpr); isCall {
					switch x.calleeOf(cc) {
					case calShouldLog:
						guard = 1
					case calShouldCountStat:
						guard = 2
					}
				}
			}
		}

		x.calls = append(x.calls, call{
			Callee: callee, Fn: fn, Guard: guard, Pos: int(ce.Pos()), Arg: argCode(callee, ce),
			Where: fset.Position(ce.Pos()).String(), FuncName: fd.Name.Name,
		})

		return true
	})
}

func containsNode(root ast.Node, target ast.Node) (found bool) {
	ast.Inspect(root, func(n ast.Node) bool {
		if n == target {
			found = true
		}

		return !found
	})

	return found
}

// processStmt records the assignments of processQueryLogsAndStats the tie is
// about.
func (x *extractor) processStmt(n ast.Node) {
	as, ok := n.(*ast.AssignStmt)
	if !ok {
		return
	}
	for i, lhs := range as.Lhs {
		id, isID := lhs.(*ast.Ident)
		if !isID || i >= len(as.Rhs) {
			continue
		}
		switch id.Name {
		case "realIPStr":
			x.realPos = int(as.Pos())
		case "ipStr":
			x.ipStrPos = int(as.Pos())
		case "ids":
			x.idsAssign++
			cl, isLit := as.Rhs[i].(*ast.CompositeLit)
			if !isLit {
				fatal(x.pkg.Fset, as.Pos(), "ids is assigned something that is not a []string literal")
			}
			for _, el := range cl.Elts {
				switch {
				case isIdent(el, "realIPStr"):
					x.idsOps = append(x.idsOps, 1)
				case isSel(el, "dctx", "clientID"):
					x.idsOps = append(x.idsOps, 2)
				default:
					x.idsOps = append(x.idsOps, 3)
				}
			}
		}
	}
}

func isSel(e ast.Expr, recv, field string) bool {
	se, ok := e.(*ast.SelectorExpr)

	return ok && isIdent(se.X, recv) && se.Sel.Name == field
}

func main() {
	verif := verifRoot()
	genPath := filepath.Join(verif, "lean/AGH/Gen/C08Facts.lean")
	_ = os.Remove(genPath)

	pkgs := load.Packages("./internal/dnsforward", "./internal/home")
	var pkg, homePkg *packages.Package
	for _, p := range pkgs {
		switch p.PkgPath {
		case pkgPath:
			pkg = p
		case modPath + "/internal/home":
			homePkg = p
		}
	}
	if homePkg == nil {
		fmt.Fprintln(os.Stderr, "extract c08: package internal/home not loaded")
		os.Exit(1)
	}
	anonCalls, anonToQlog, anonToServer := anonymizerFacts(homePkg)
	finderFuncs, finderTryLocks := finderFacts(homePkg)
	if pkg == nil {
		fmt.Fprintln(os.Stderr, "extract c08: package internal/dnsforward not loaded")
		os.Exit(1)
	}

	x := &extractor{pkg: pkg}
	seen := map[string]bool{}
	for _, f := range pkg.Syntax {
		name := pkg.Fset.Position(f.Pos()).Filename
		if strings.HasSuffix(name, "_test.go") {
			continue
		}
		for _, d := range f.Decls {
			fd, ok := d.(*ast.FuncDecl)
			if !ok || fd.Body == nil {
				continue
			}
			if isServerOrFunc(fd) && fnCodes[fd.Name.Name] != 0 {
				if seen[fd.Name.Name] {
					fatal(pkg.Fset, fd.Pos(), "%s is declared twice (method and function)", fd.Name.Name)
				}
				seen[fd.Name.Name] = true
			}
			x.walkFunc(fd)
		}
		// A record-making call outside a function body (package-level value) is
		// outside the supported subset.
		for _, d := range f.Decls {
			gd, ok := d.(*ast.GenDecl)
			if !ok {
				continue
			}
			ast.Inspect(gd, func(n ast.Node) bool {
				if ce, isCall := n.(*ast.CallExpr); isCall && x.calleeOf(ce) != 0 {
					fatal(pkg.Fset, ce.Pos(), "record-related call in a package-level declaration")
				}

				return true
			})
		}
	}
	for name := range fnCodes {
		if !seen[name] {
			fmt.Fprintf(os.Stderr, "extract c08: %s/stats.go: neither a method (*Server).%s nor a function %s found\n", pkgPath, name, name)
			os.Exit(1)
		}
	}
	// A missing realIPStr / ipStr / ids assignment is a fact (rank 0, count 0) that
	// the obligation rejects, not a syntax the extractor does not understand.

	// Positions become ranks so that the generated file does not change with
	// unrelated edits above the function.
	var all []int
	for _, c := range x.calls {
		all = append(all, c.Pos)
	}
	all = append(all, x.realPos, x.ipStrPos)
	sort.Ints(all)
	rank := func(p int) int {
		if p == 0 {
			return 0
		}

		return sort.SearchInts(all, p) + 1
	}
	sort.Slice(x.calls, func(i, j int) bool { return x.calls[i].Pos < x.calls[j].Pos })

	var sb strings.Builder
	sb.WriteString("/-\nGENERATED by /verif/extract/cmd/c08 from internal/dnsforward — do not edit.\n")
	sb.WriteString("callee: 1 logQuery 2 updateStats 3 QueryLog.Add 4 stats.Update 5 shouldLog 6 shouldCountStat\n")
	sb.WriteString("        7 QueryLog.ShouldLog 8 stats.ShouldCount 9 s.anonymizer.Load()(ip)\n")
	sb.WriteString("fn: 1 processQueryLogsAndStats 2 logQuery 3 updateStats 4 shouldLog 5 shouldCountStat 0 other\n")
	sb.WriteString("guard: 0 none, 1 then-branch of `if s.shouldLog(…)`, 2 of `if s.shouldCountStat(…)`, 9 other shape\n")
	sb.WriteString("arg: 1 the expected variable is passed (ip / ipStr / ids), 3 something else\n-/\n")
	sb.WriteString("namespace AGH.Gen.C08\n\nstructure Call where\n  callee : Nat\n  fn : Nat\n  guard : Nat\n  pos : Nat\n  arg : Nat\n  deriving DecidableEq, Repr\n\n")
	sb.WriteString("def calls : List Call := [\n")
	for i, c := range x.calls {
		sep := ","
		if i == len(x.calls)-1 {
			sep = ""
		}
		fmt.Fprintf(&sb, "  ⟨%d, %d, %d, %d, %d⟩%s  -- %s in %s (%s)\n", c.Callee, c.Fn, c.Guard, rank(c.Pos), c.Arg, sep,
			calleeNames[c.Callee], c.FuncName, relPath(c.Where))
	}
	sb.WriteString("]\n\n")
	fmt.Fprintf(&sb, "/-- operands of the literals assigned to `ids`: 1 realIPStr, 2 dctx.clientID, 3 other -/\ndef idsOperands : List Nat := %s\n", natList(x.idsOps))
	fmt.Fprintf(&sb, "def idsAssignments : Nat := %d\n", x.idsAssign)
	fmt.Fprintf(&sb, "/-- rank of `realIPStr := …` and of `ipStr := …` among the positions above -/\ndef realIPStrPos : Nat := %d\ndef ipStrPos : Nat := %d\n", rank(x.realPos), rank(x.ipStrPos))
	fmt.Fprintf(&sb, "\n/-- internal/home: calls of (*configuration).anonymizer(); whether the variable holding the\nresult of the (single) call is the `Anonymizer` of the querylog.Config literal, and an argument of\nthe initDNSServer call (1 yes, 0 no) -/\ndef anonymizerCalls : Nat := %d\ndef anonymizerToQueryLog : Nat := %d\ndef anonymizerToServer : Nat := %d\n", anonCalls, anonToQlog, anonToServer)
	fmt.Fprintf(&sb, "\n/-- internal/home: how many of findMultiple / clientOrArtificial / shouldCountClient (the client\ncallbacks of the query log and the statistics) were found, and the TryLock / TryRLock calls in them -/\ndef finderFuncs : Nat := %d\ndef finderTryLocks : Nat := %d\n", finderFuncs, finderTryLocks)
	sb.WriteString("\nend AGH.Gen.C08\n")
	must(os.MkdirAll(filepath.Dir(genPath), 0o755))
	must(os.WriteFile(genPath, []byte(sb.String()), 0o644))

	byCallee := map[string]int{}
	for _, c := range x.calls {
		byCallee[calleeNames[c.Callee]]++
	}
	out := map[string]any{
		"summary": map[string]any{"calls": len(x.calls), "by_callee": byCallee, "ids_assignments": x.idsAssign, "ids_operands": x.idsOps},
		"calls":   x.calls, "repo": load.Repo(),
	}
	b, err := json.MarshalIndent(out, "", " ")
	must(err)
	factsDir := filepath.Join(verif, "build/C08")
	must(os.MkdirAll(factsDir, 0o755))
	must(os.WriteFile(filepath.Join(factsDir, "facts.json"), b, 0o644))
	fmt.Printf("c08: %d calls, ids operands %v -> %s\n", len(x.calls), x.idsOps, genPath)
}

// anonymizerFacts looks at package home: how many times the anonymizer is
// constructed from the configuration, and whether the one variable that holds
// it reaches both the query log's configuration and the DNS server.
func anonymizerFacts(hp *packages.Package) (calls, toQlog, toServer int) {
	var varName string
	isAnonCall := func(e ast.Expr) bool {
		ce, ok := e.(*ast.CallExpr)
		if !ok {
			return false
		}
		se, ok := ce.Fun.(*ast.SelectorExpr)
		if !ok {
			return false
		}
		f, _ := hp.TypesInfo.Uses[se.Sel].(*types.Func)

		return f != nil && f.FullName() == "(*"+modPath+"/internal/home.configuration).anonymizer"
	}
	for _, f := range hp.Syntax {
		if strings.HasSuffix(hp.Fset.Position(f.Pos()).Filename, "_test.go") {
			continue
		}
		ast.Inspect(f, func(n ast.Node) bool {
			switch n := n.(type) {
			case *ast.CallExpr:
				if isAnonCall(n) {
					calls++
				}
			case *ast.AssignStmt:
				if len(n.Lhs) == 1 && len(n.Rhs) == 1 && isAnonCall(n.Rhs[0]) {
					if id, ok := n.Lhs[0].(*ast.Ident); ok {
						varName = id.Name
					}
				}
			}

			return true
		})
	}
	if varName == "" {
		return calls, 0, 0
	}
	for _, f := range hp.Syntax {
		if strings.HasSuffix(hp.Fset.Position(f.Pos()).Filename, "_test.go") {
			continue
		}
		ast.Inspect(f, func(n ast.Node) bool {
			switch n := n.(type) {
			case *ast.KeyValueExpr:
				if isIdent(n.Key, "Anonymizer") && isIdent(n.Value, varName) {
					if tv, ok := hp.TypesInfo.Types[n.Value]; ok && strings.HasSuffix(tv.Type.String(), "aghnet.IPMut") {
						toQlog = 1
					}
				}
			case *ast.CallExpr:
				if isIdent(n.Fun, "initDNSServer") {
					for _, a := range n.Args {
						if isIdent(a, varName) {
							toServer = 1
						}
					}
				}
			}

			return true
		})
	}

	return calls, toQlog, toServer
}

// finderFacts looks at the client callbacks of package home: a lock that is only
// tried lets the lookup be skipped under contention.
func finderFacts(hp *packages.Package) (funcs, tryLocks int) {
	want := map[string]bool{"findMultiple": true, "clientOrArtificial": true, "shouldCountClient": true}
	for _, f := range hp.Syntax {
		if strings.HasSuffix(hp.Fset.Position(f.Pos()).Filename, "_test.go") {
			continue
		}
		for _, d := range f.Decls {
			fd, ok := d.(*ast.FuncDecl)
			if !ok || fd.Body == nil || fd.Recv == nil || !want[fd.Name.Name] {
				continue
			}
			funcs++
			ast.Inspect(fd.Body, func(n ast.Node) bool {
				if ce, isCall := n.(*ast.CallExpr); isCall {
					if se, isSel := ce.Fun.(*ast.SelectorExpr); isSel && (se.Sel.Name == "TryLock" || se.Sel.Name == "TryRLock") {
						tryLocks++
					}
				}

				return true
			})
		}
	}

	return funcs, tryLocks
}

func relPath(where string) string {
	if i := strings.Index(where, "internal/"); i >= 0 {
		return where[i:]
	}

	return where
}

func natList(l []int) string {
	parts := make([]string, len(l))
	for i, v := range l {
		parts[i] = fmt.Sprint(v)
	}

	return "[" + strings.Join(parts, ", ") + "]"
}

func must(err error) {
	if err != nil {
		fmt.Fprintln(os.Stderr, "extract c08:", err)
		os.Exit(1)
	}
}
