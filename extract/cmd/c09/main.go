// Command c09 is the translator tie of the concurrency clause of property C09.
// From the syntax trees of internal/stats in the tree under test (go/parser
// only) it regenerates
//
//	/verif/lean/AGH/Gen/C09Locks.lean   lock facts as data (codes, no strings)
//	/verif/build/C09/facts.json         the same facts with names
//
// A fact says: in function fn, a call of callee (or an assignment to a field
// of s) happens while these locks are held — "held" meaning `s.<mu>.Lock()` /
// `RLock()` immediately followed by the deferred `Unlock()` / `RUnlock()`
// earlier in an enclosing statement list.  A Lock that is not followed by its
// deferred Unlock is reported as `unpaired` and makes the obligation fail.
// The obligation itself (AGH.C09.LockFacts.ofRaw … |>.ok) is checked by
// `decide +kernel` in AGH/Props/C09Conc.lean on every run.
package main

import (
	"encoding/json"
	"fmt"
	"go/ast"
	"go/parser"
	"go/printer"
	"go/token"
	"os"
	"path/filepath"
	"sort"
	"strings"
)

func die(format string, a ...any) {
	fmt.Fprintf(os.Stderr, "extract c09: "+format+"\n", a...)
	os.Exit(1)
}

// codes shared with AGH/Spec/StatsLocks.lean
var calleeCode = map[string]int{
	"add": 1, "flushDB": 2, "getData": 3, "loadUnits": 4, "serialize": 5, "setLimit": 6, "clear": 7,
	"set:curr": 8, "set:limit": 9, "set:enabled": 10, "unpaired": 11, "deserialize": 12, "dataFromUnits": 13,
}

var fnCode = map[string]int{
	"Update": 1, "flush": 2, "flushDB": 3, "getData": 4, "loadUnits": 5, "handleStats": 6, "TopClientsIP": 7,
	"Close": 8, "New": 9, "setLimit": 10, "clear": 11, "handleStatsConfig": 12, "handlePutStatsConfig": 13,
	"handleStatsReset": 14,
}

var watchedFields = map[string]bool{"curr": true, "limit": true, "enabled": true}

type fact struct {
	Callee string `json:"callee"`
	Fn     string `json:"fn"`
	Conf   int    `json:"confMu"` // 0 none, 1 RLock, 2 Lock
	Curr   int    `json:"currMu"`
	Pos    string `json:"pos"`
}

var (
	fset  = token.NewFileSet()
	facts []fact
)

func muCall(e ast.Expr) string {
	call, ok := e.(*ast.CallExpr)
	if !ok || len(call.Args) != 0 {
		return ""
	}
	sel, ok := call.Fun.(*ast.SelectorExpr)
	if !ok {
		return ""
	}
	inner, ok := sel.X.(*ast.SelectorExpr)
	if !ok {
		return ""
	}
	if id, isID := inner.X.(*ast.Ident); !isID || id.Name != "s" {
		return ""
	}
	if inner.Sel.Name == "confMu" || inner.Sel.Name == "currMu" {
		return inner.Sel.Name + "." + sel.Sel.Name
	}

	return ""
}

type held struct{ conf, curr int }

func (h held) with(lk string) held {
	m := 1
	if strings.HasSuffix(lk, ".Lock") {
		m = 2
	}
	if strings.HasPrefix(lk, "confMu.") {
		h.conf = max(h.conf, m)
	} else {
		h.curr = max(h.curr, m)
	}

	return h
}

func add(callee, fn string, h held, pos token.Pos) {
	facts = append(facts, fact{Callee: callee, Fn: fn, Conf: h.conf, Curr: h.curr, Pos: fset.Position(pos).String()})
}

func walk(fn string, stmts []ast.Stmt, h held) {
	for i := 0; i < len(stmts); i++ {
		st := stmts[i]
		if es, ok := st.(*ast.ExprStmt); ok {
			if lk := muCall(es.X); strings.HasSuffix(lk, ".Lock") || strings.HasSuffix(lk, ".RLock") {
				if i+1 < len(stmts) {
					if ds, isDefer := stmts[i+1].(*ast.DeferStmt); isDefer {
						want := strings.Replace(strings.Replace(lk, ".RLock", ".RUnlock", 1), ".Lock", ".Unlock", 1)
						if muCall(ds.Call) == want {
							h = h.with(lk)
							i++

							continue
						}
					}
				}
				add("unpaired", fn, h, st.Pos())

				continue
			}
		}
		ast.Inspect(st, func(n ast.Node) bool {
			switch x := n.(type) {
			case *ast.BlockStmt:
				walk(fn, x.List, h)

				return false
			case *ast.AssignStmt:
				for _, lhs := range x.Lhs {
					if sel, ok := lhs.(*ast.SelectorExpr); ok && watchedFields[sel.Sel.Name] {
						if id, isID := sel.X.(*ast.Ident); isID && id.Name == "s" {
							add("set:"+sel.Sel.Name, fn, h, x.Pos())
						}
					}
				}
			case *ast.CallExpr:
				if sel, ok := x.Fun.(*ast.SelectorExpr); ok {
					if _, watched := calleeCode[sel.Sel.Name]; watched {
						add(sel.Sel.Name, fn, h, x.Pos())
					}
				}
			}

			return true
		})
	}
}

// pollPeriod finds, in (*StatsCtx).flush, the `return true, <d>` of the branch
// whose condition mentions `ptr.id == id` (the unit is still the current one)
// and returns <d> in milliseconds if it is a constant the extractor understands
// (time.Second, time.Millisecond, N * one of them); ok = false otherwise (e.g. a
// computed sleep).
func pollPeriod(fd *ast.FuncDecl) (ms int, expr string, ok bool) {
	found := false
	ast.Inspect(fd.Body, func(n ast.Node) bool {
		ifs, isIf := n.(*ast.IfStmt)
		if !isIf || found {
			return true
		}
		mentions := false
		ast.Inspect(ifs.Cond, func(c ast.Node) bool {
			if be, isBin := c.(*ast.BinaryExpr); isBin && be.Op == token.EQL {
				if sel, isSel := be.X.(*ast.SelectorExpr); isSel && sel.Sel.Name == "id" {
					mentions = true
				}
			}

			return true
		})
		if !mentions {
			return true
		}
		for _, st := range ifs.Body.List {
			if rs, isRet := st.(*ast.ReturnStmt); isRet && len(rs.Results) == 2 {
				found = true
				ms, expr, ok = durationMs(rs.Results[1])
			}
		}

		return true
	})
	if !found {
		return 0, "no `ptr.id == id` branch with a return in flush", false
	}

	return ms, expr, ok
}

func durationMs(e ast.Expr) (ms int, expr string, ok bool) {
	var sb strings.Builder
	_ = formatExpr(&sb, e)
	expr = sb.String()
	unit := func(x ast.Expr) (int, bool) {
		sel, isSel := x.(*ast.SelectorExpr)
		if !isSel {
			return 0, false
		}
		if pkg, isID := sel.X.(*ast.Ident); !isID || pkg.Name != "time" {
			return 0, false
		}
		switch sel.Sel.Name {
		case "Second":
			return 1000, true
		case "Millisecond":
			return 1, true
		case "Minute":
			return 60000, true
		case "Hour":
			return 3600000, true
		}

		return 0, false
	}
	if u, isUnit := unit(e); isUnit {
		return u, expr, true
	}
	if be, isBin := e.(*ast.BinaryExpr); isBin && be.Op == token.MUL {
		for _, pair := range [][2]ast.Expr{{be.X, be.Y}, {be.Y, be.X}} {
			lit, isLit := pair[0].(*ast.BasicLit)
			u, isUnit := unit(pair[1])
			if isLit && isUnit && lit.Kind == token.INT {
				n := 0
				if _, err := fmt.Sscanf(lit.Value, "%d", &n); err == nil {
					return n * u, expr, true
				}
			}
		}
	}

	return 0, expr, false
}

func formatExpr(sb *strings.Builder, e ast.Expr) error {
	return printer.Fprint(sb, fset, e)
}

func main() {
	repo := os.Getenv("VERIF_REPO")
	if repo == "" {
		repo = "/repo"
	}
	verif, err := filepath.Abs(".")
	if err != nil {
		die("%v", err)
	}
	pollMs, pollExpr, pollOK := 0, "flush not found", false
	for _, name := range []string{"stats.go", "unit.go", "http.go"} {
		file, perr := parser.ParseFile(fset, filepath.Join(repo, "internal/stats", name), nil, parser.SkipObjectResolution)
		if perr != nil {
			die("%v", perr)
		}
		for _, d := range file.Decls {
			if fd, ok := d.(*ast.FuncDecl); ok && fd.Body != nil {
				walk(fd.Name.Name, fd.Body.List, held{})
				if fd.Name.Name == "flush" && fd.Recv != nil {
					pollMs, pollExpr, pollOK = pollPeriod(fd)
				}
			}
		}
	}
	if len(facts) == 0 {
		die("no facts: internal/stats no longer has the shapes this extractor understands")
	}
	sort.Slice(facts, func(i, j int) bool {
		a, b := facts[i], facts[j]
		if a.Callee != b.Callee {
			return a.Callee < b.Callee
		}
		if a.Fn != b.Fn {
			return a.Fn < b.Fn
		}

		return a.Pos < b.Pos
	})

	var sb strings.Builder
	sb.WriteString("/-\nREGENERATED by /verif/extract/cmd/c09 on every run of bin/check C09 — never edit.\n")
	sb.WriteString("One tuple per fact: (callee, function, confMu, currMu); lock modes 0 none, 1 RLock, 2 Lock\n")
	sb.WriteString("(Lock/RLock immediately followed by the deferred Unlock/RUnlock, earlier in an enclosing block).\n")
	sb.WriteString("callee: 1 add, 2 flushDB, 3 getData, 4 loadUnits, 5 serialize, 6 setLimit, 7 clear, 8 s.curr =, 9 s.limit =,\n")
	sb.WriteString("10 s.enabled =, 11 unpaired Lock, 12 deserialize, 13 dataFromUnits.\n")
	sb.WriteString("function: 1 Update, 2 flush, 3 flushDB, 4 getData, 5 loadUnits, 6 handleStats, 7 TopClientsIP, 8 Close, 9 New,\n")
	sb.WriteString("10 setLimit, 11 clear, 12 handleStatsConfig, 13 handlePutStatsConfig, 14 handleStatsReset, 0 any other.\n-/\n")
	sb.WriteString("namespace AGH.Gen.C09\n\ndef lockFacts : List (Nat × Nat × Nat × Nat) := [\n")
	var names []string
	for i, f := range facts {
		sep := ","
		if i == len(facts)-1 {
			sep = ""
		}
		fmt.Fprintf(&sb, "  (%d, %d, %d, %d)%s  -- %s in %s (%s)\n", calleeCode[f.Callee], fnCode[f.Fn], f.Conf, f.Curr, sep,
			f.Callee, f.Fn, filepath.Base(f.Pos))
		names = append(names, fmt.Sprintf("%s@%s:%d/%d", f.Callee, f.Fn, f.Conf, f.Curr))
	}
	sb.WriteString("]\n\n")
	fmt.Fprintf(&sb, "/-- what `flush` tells `periodicFlush` to sleep while the unit is the current one: `%s`;\n`none` = not a constant the extractor understands -/\n", pollExpr)
	if pollOK {
		fmt.Fprintf(&sb, "def pollPeriodMs : Option Nat := some %d\n", pollMs)
	} else {
		sb.WriteString("def pollPeriodMs : Option Nat := none\n")
	}
	sb.WriteString("\nend AGH.Gen.C09\n")
	if err = os.WriteFile(filepath.Join(verif, "lean/AGH/Gen/C09Locks.lean"), []byte(sb.String()), 0o644); err != nil {
		die("%v", err)
	}
	if err = os.MkdirAll(filepath.Join(verif, "build/C09"), 0o755); err != nil {
		die("%v", err)
	}
	summary := fmt.Sprintf("flush poll period `%s` (constant: %v, %d ms); %d lock facts of internal/stats: %s",
		pollExpr, pollOK, pollMs, len(facts), strings.Join(names, " "))
	b, _ := json.MarshalIndent(map[string]any{"summary": summary, "facts": facts, "poll_period_expr": pollExpr,
		"poll_period_ms": pollMs, "poll_period_const": pollOK}, "", " ")
	if err = os.WriteFile(filepath.Join(verif, "build/C09/facts.json"), b, 0o644); err != nil {
		die("%v", err)
	}
	fmt.Println(summary)
}
