// Command c18 is the fact extractor of property C18 (translator tie of the
// decision core of internal/schedule).  From the typed syntax of schedule.go it
// regenerates
//
//	lean/AGH/Gen/C18Schedule.lean   the facts, as the source states them
//	build/C18/facts.json            the same with file:line
//
// Facts:
//
//   - the constant maxDayRange in nanoseconds;
//   - dayRange.validate as a decision table: the cases of its tagless switch in
//     source order, each `(lhs, op, rhs, returnsError)` with lhs/rhs printed by
//     types.ExprString (the `r == dayRange{}` case and default included);
//   - dayRange.contains: the conjuncts of its single return expression;
//   - (*Weekly).Contains: whether the first statement is
//     `t = t.In(w.location)`, the methods called on `t` afterwards in source
//     order, every function of package time called in the body, the constant
//     multipliers of the offset sum, whether the day is selected by
//     `w.days[wd]` with `wd := t.Weekday()`.
//
// Lean interprets the validate and contains tables and proves them equal to
// the model's functions for every day range and offset (Props/C18.lean,
// `C18_T_*`).  An expression outside this shape aborts with file:line — a
// broken tie, never a default.
package main

import (
	"encoding/json"
	"fmt"
	"go/ast"
	"go/constant"
	"go/token"
	"go/types"
	"os"
	"path/filepath"
	"strings"

	"golang.org/x/tools/go/packages"

	"verif/extract/internal/load"
)

const schedPkg = "github.com/AdguardTeam/AdGuardHome/internal/schedule"

var (
	fset *token.FileSet
	info *types.Info
)

func die(pos token.Pos, format string, args ...any) {
	fmt.Fprintf(os.Stderr, "extract c18: %s: %s\n", fset.Position(pos), fmt.Sprintf(format, args...))
	os.Exit(2)
}

func funcDecl(pkg *packages.Package, recv, name string) *ast.FuncDecl {
	var found *ast.FuncDecl
	for _, f := range pkg.Syntax {
		if strings.HasSuffix(fset.Position(f.Pos()).Filename, "_test.go") {
			continue
		}
		for _, d := range f.Decls {
			fd, ok := d.(*ast.FuncDecl)
			if !ok || fd.Name.Name != name || fd.Recv == nil || len(fd.Recv.List) != 1 {
				continue
			}
			t := fd.Recv.List[0].Type
			if st, isStar := t.(*ast.StarExpr); isStar {
				t = st.X
			}
			if id, isID := t.(*ast.Ident); !isID || id.Name != recv {
				continue
			}
			if found != nil {
				die(fd.Pos(), "duplicate declaration of %s.%s", recv, name)
			}
			found = fd
		}
	}
	if found == nil || found.Body == nil {
		fmt.Fprintf(os.Stderr, "extract c18: function %s.%s not found\n", recv, name)
		os.Exit(2)
	}

	return found
}

type cmp struct {
	L   string `json:"lhs"`
	Op  string `json:"op"`
	R   string `json:"rhs"`
	Err bool   `json:"returns_error"`
	Pos string `json:"pos"`
}

// term prints an operand; constants of the package are kept by name, typed
// constant literals by value.
func term(e ast.Expr) string {
	e = ast.Unparen(e)
	if id, ok := e.(*ast.Ident); ok {
		return id.Name
	}
	if tv, ok := info.Types[e]; ok && tv.Value != nil {
		return tv.Value.ExactString()
	}

	return types.ExprString(e)
}

func binary(e ast.Expr) (l, op, r string) {
	be, ok := ast.Unparen(e).(*ast.BinaryExpr)
	if !ok {
		die(e.Pos(), "expected a comparison, found %s", types.ExprString(e))
	}
	switch be.Op {
	case token.LSS, token.LEQ, token.GTR, token.GEQ, token.EQL, token.NEQ:
	default:
		die(e.Pos(), "expected a comparison, found operator %s", be.Op)
	}

	return term(be.X), be.Op.String(), term(be.Y)
}

// returnsError reports whether the single statement of a case body is
// `return <non-nil>`.
func returnsError(body []ast.Stmt, pos token.Pos) bool {
	if len(body) != 1 {
		die(pos, "case body with %d statements", len(body))
	}
	rs, ok := body[0].(*ast.ReturnStmt)
	if !ok || len(rs.Results) != 1 {
		die(pos, "case body is not a single-value return")
	}
	id, isID := rs.Results[0].(*ast.Ident)

	return !(isID && id.Name == "nil")
}

func leanStr(s string) string { return fmt.Sprintf("%q", s) }

func main() {
	pkgs := load.Packages("./internal/schedule")
	var pkg *packages.Package
	for _, p := range pkgs {
		if p.PkgPath == schedPkg {
			pkg = p
		}
	}
	if pkg == nil {
		fmt.Fprintln(os.Stderr, "extract c18: package schedule not loaded")
		os.Exit(2)
	}
	fset, info = pkg.Fset, pkg.TypesInfo

	// maxDayRange
	obj, ok := pkg.Types.Scope().Lookup("maxDayRange").(*types.Const)
	if !ok {
		fmt.Fprintln(os.Stderr, "extract c18: constant maxDayRange not found")
		os.Exit(2)
	}
	maxDay, exact := constant.Int64Val(constant.ToInt(obj.Val()))
	if !exact {
		die(obj.Pos(), "maxDayRange is not an int64")
	}

	// dayRange.validate
	val := funcDecl(pkg, "dayRange", "validate")
	if len(val.Body.List) != 1 {
		die(val.Pos(), "validate: expected a single switch statement")
	}
	sw, ok := val.Body.List[0].(*ast.SwitchStmt)
	if !ok || sw.Tag != nil || sw.Init != nil {
		die(val.Pos(), "validate: expected a tagless switch")
	}
	var cases []cmp
	for _, st := range sw.Body.List {
		cc := st.(*ast.CaseClause)
		isErr := returnsError(cc.Body, cc.Pos())
		if cc.List == nil {
			cases = append(cases, cmp{L: "", Op: "default", R: "", Err: isErr, Pos: fset.Position(cc.Pos()).String()})

			continue
		}
		if len(cc.List) != 1 {
			die(cc.Pos(), "validate: case with %d expressions", len(cc.List))
		}
		l, op, r := binary(cc.List[0])
		cases = append(cases, cmp{L: l, Op: op, R: r, Err: isErr, Pos: fset.Position(cc.Pos()).String()})
	}

	// dayRange.contains
	con := funcDecl(pkg, "dayRange", "contains")
	if len(con.Body.List) != 1 {
		die(con.Pos(), "contains: expected a single return")
	}
	rs, ok := con.Body.List[0].(*ast.ReturnStmt)
	if !ok || len(rs.Results) != 1 {
		die(con.Pos(), "contains: expected a single return")
	}
	var conj []cmp
	var flatten func(e ast.Expr)
	flatten = func(e ast.Expr) {
		if be, isBin := ast.Unparen(e).(*ast.BinaryExpr); isBin && be.Op == token.LAND {
			flatten(be.X)
			flatten(be.Y)

			return
		}
		l, op, r := binary(e)
		conj = append(conj, cmp{L: l, Op: op, R: r, Pos: fset.Position(e.Pos()).String()})
	}
	flatten(rs.Results[0])

	// (*Weekly).Contains
	wc := funcDecl(pkg, "Weekly", "Contains")
	if wc.Type.Params == nil || len(wc.Type.Params.List) != 1 || len(wc.Type.Params.List[0].Names) != 1 {
		die(wc.Pos(), "Contains: expected one parameter")
	}
	tName := wc.Type.Params.List[0].Names[0].Name
	headIn := false
	if as, isAs := wc.Body.List[0].(*ast.AssignStmt); isAs && as.Tok == token.ASSIGN && len(as.Lhs) == 1 && len(as.Rhs) == 1 {
		headIn = types.ExprString(as.Lhs[0]) == tName && types.ExprString(as.Rhs[0]) == tName+".In(w.location)"
	}
	var tMethods, timeFuncs []string
	var units []int64
	daySel := false
	wdFromT := false
	for i, st := range wc.Body.List {
		if i == 0 && headIn {
			continue
		}
		ast.Inspect(st, func(n ast.Node) bool {
			switch x := n.(type) {
			case *ast.AssignStmt:
				if len(x.Lhs) == 1 && len(x.Rhs) == 1 && types.ExprString(x.Lhs[0]) == "wd" &&
					types.ExprString(x.Rhs[0]) == tName+".Weekday()" {
					wdFromT = true
				}
			case *ast.IndexExpr:
				if types.ExprString(x) == "w.days[wd]" {
					daySel = true
				} else {
					die(x.Pos(), "Contains: index expression %s", types.ExprString(x))
				}
			case *ast.CallExpr:
				sel, isSel := x.Fun.(*ast.SelectorExpr)
				if !isSel {
					return true
				}
				id, isID := sel.X.(*ast.Ident)
				if !isID {
					return true
				}
				if id.Name == tName {
					tMethods = append(tMethods, sel.Sel.Name)
				} else if pn, isPkg := info.Uses[id].(*types.PkgName); isPkg && pn.Imported().Path() == "time" {
					if _, isFunc := info.Uses[sel.Sel].(*types.Func); isFunc {
						timeFuncs = append(timeFuncs, sel.Sel.Name)
					}
				}
			case *ast.BinaryExpr:
				if x.Op == token.MUL {
					tv, has := info.Types[x.Y]
					if !has || tv.Value == nil {
						die(x.Pos(), "Contains: multiplier is not a constant")
					}
					v, isInt := constant.Int64Val(constant.ToInt(tv.Value))
					if !isInt {
						die(x.Pos(), "Contains: multiplier is not an int64")
					}
					units = append(units, v)
				}
			}

			return true
		})
	}

	var sb strings.Builder
	sb.WriteString("/- GENERATED by /verif/extract/cmd/c18 from internal/schedule/schedule.go — do not edit. -/\n")
	sb.WriteString("namespace AGH.Gen.C18\n\n")
	fmt.Fprintf(&sb, "/-- const maxDayRange, nanoseconds -/\ndef maxDayRange : Int := %d\n\n", maxDay)
	sb.WriteString("/-- dayRange.validate: the cases of its switch in source order, (lhs, op, rhs, returns an error). -/\n")
	sb.WriteString("def validateCases : List (String × String × String × Bool) := [\n")
	for i, c := range cases {
		sep := ","
		if i == len(cases)-1 {
			sep = ""
		}
		fmt.Fprintf(&sb, "  (%s, %s, %s, %v)%s\n", leanStr(c.L), leanStr(c.Op), leanStr(c.R), c.Err, sep)
	}
	sb.WriteString("]\n\n")
	sb.WriteString("/-- dayRange.contains: the conjuncts of its return expression. -/\n")
	sb.WriteString("def containsConj : List (String × String × String) := [")
	for i, c := range conj {
		if i > 0 {
			sb.WriteString(", ")
		}
		fmt.Fprintf(&sb, "(%s, %s, %s)", leanStr(c.L), leanStr(c.Op), leanStr(c.R))
	}
	sb.WriteString("]\n\n")
	fmt.Fprintf(&sb, "/-- (*Weekly).Contains starts with `t = t.In(w.location)`. -/\ndef containsConvertsFirst : Bool := %v\n\n", headIn)
	strs := func(l []string) string {
		q := make([]string, len(l))
		for i, s := range l {
			q[i] = leanStr(s)
		}

		return "[" + strings.Join(q, ", ") + "]"
	}
	fmt.Fprintf(&sb, "/-- Methods called on the converted time afterwards, in source order. -/\ndef timeMethods : List String := %s\n\n", strs(tMethods))
	fmt.Fprintf(&sb, "/-- Functions of package time called in the body (conversions like time.Duration are not functions). -/\ndef timeFuncs : List String := %s\n\n", strs(timeFuncs))
	us := make([]string, len(units))
	for i, u := range units {
		us[i] = fmt.Sprint(u)
	}
	fmt.Fprintf(&sb, "/-- Constant multipliers of the offset sum, in source order. -/\ndef offsetUnits : List Int := [%s]\n\n", strings.Join(us, ", "))
	fmt.Fprintf(&sb, "/-- The day range is `w.days[wd]` with `wd := t.Weekday()` of the converted time. -/\ndef dayByLocalWeekday : Bool := %v\n\n", daySel && wdFromT)
	sb.WriteString("end AGH.Gen.C18\n")

	root, _ := filepath.Abs(filepath.Join("..", ""))
	if wd, err := os.Getwd(); err == nil && filepath.Base(wd) != "extract" {
		root = wd
	}
	out := filepath.Join(root, "lean", "AGH", "Gen", "C18Schedule.lean")
	_ = os.Remove(out)
	if err := os.WriteFile(out, []byte(sb.String()), 0o644); err != nil {
		fmt.Fprintln(os.Stderr, "extract c18:", err)
		os.Exit(2)
	}
	_ = os.MkdirAll(filepath.Join(root, "build", "C18"), 0o755)
	js, _ := json.MarshalIndent(map[string]any{
		"summary":  map[string]any{"validate_cases": len(cases), "contains_conjuncts": len(conj), "time_methods": tMethods, "time_funcs": timeFuncs, "repo": load.Repo()},
		"validate": cases, "contains": conj, "offset_units": units, "max_day_range": maxDay,
	}, "", " ")
	if err := os.WriteFile(filepath.Join(root, "build", "C18", "facts.json"), js, 0o644); err != nil {
		fmt.Fprintln(os.Stderr, "extract c18:", err)
		os.Exit(2)
	}
	fmt.Printf("c18: %d validate cases, %d contains conjuncts, time methods %v\n", len(cases), len(conj), tMethods)
}
