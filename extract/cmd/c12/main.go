// Command c12 is the translator of property C12's throttling core: it turns
// the bodies of (*authRateLimiter).checkLocked, incLocked and the deletion
// condition of cleanupLocked (internal/home/authratelimiter.go) into terms of
// the small statement language of lean/AGH/Model/MiniGo.lean and regenerates
//
//	lean/AGH/Gen/C12Limiter.lean   the three bodies as MiniGo programs + failedAuthTTL
//	build/C12/facts.json           the same, printed, with file:line
//
// Lean evaluates the programs and proves them equal to the hand-written model
// (Model/Auth.lean: checkLocked, Limiter.inc, cleanup) for every limiter
// state, address and instant (Props/C12.lean, `C12_T_*`).
//
// Supported subset (anything else aborts with file:line — a broken tie, never
// a default): `x := e`, `x = e`, `var x T = e`; `a, ok := ab.failedAuths[usrID]`;
// `if c { x = e; … }` (no else; c must not read a variable the body assigns);
// `if c { return e }`; `return e`;
// `ab.failedAuths[usrID] = failedAuth{num: e, until: e}`; in cleanupLocked a
// range over ab.failedAuths whose body is `if c { delete(ab.failedAuths, k) }`.
// Besides, the decision skeleton of (*Auth).checkSession (auth.go) is extracted
// as facts: its comparisons, the constants it divides by, the expressions
// `now` and `newExpire` are initialised with, the effects of the expired branch.
// Expressions: identifiers, `x.f`, integer constants, + - < <= > >= == !,
// conversions, and the time.Time methods Add, Sub, After, Before.
package main

import (
	"encoding/json"
	"fmt"
	"go/ast"
	"go/constant"
	"go/token"
	"go/types"
	"os"
	"path/filepath"
	"strings"

	"golang.org/x/tools/go/packages"

	"verif/extract/internal/load"
)

const homePkg = "github.com/AdguardTeam/AdGuardHome/internal/home"

var (
	fset *token.FileSet
	info *types.Info
)

func die(pos token.Pos, format string, args ...any) {
	fmt.Fprintf(os.Stderr, "extract c12: %s: %s\n", fset.Position(pos), fmt.Sprintf(format, args...))
	os.Exit(2)
}

func method(pkg *packages.Package, recv, name string) *ast.FuncDecl {
	var found *ast.FuncDecl
	for _, f := range pkg.Syntax {
		if strings.HasSuffix(fset.Position(f.Pos()).Filename, "_test.go") {
			continue
		}
		for _, d := range f.Decls {
			fd, ok := d.(*ast.FuncDecl)
			if !ok || fd.Name.Name != name || fd.Recv == nil || len(fd.Recv.List) != 1 {
				continue
			}
			t := fd.Recv.List[0].Type
			if st, isStar := t.(*ast.StarExpr); isStar {
				t = st.X
			}
			if id, isID := t.(*ast.Ident); !isID || id.Name != recv {
				continue
			}
			if found != nil {
				die(fd.Pos(), "duplicate declaration of %s.%s", recv, name)
			}
			found = fd
		}
	}
	if found == nil || found.Body == nil {
		fmt.Fprintf(os.Stderr, "extract c12: method %s.%s not found\n", recv, name)
		os.Exit(2)
	}

	return found
}

func isTime(e ast.Expr) bool {
	t := info.TypeOf(e)
	if t == nil {
		return false
	}
	n, ok := t.(*types.Named)

	return ok && n.Obj().Pkg() != nil && n.Obj().Pkg().Path() == "time" && n.Obj().Name() == "Time"
}

// expr translates e and records the variables it reads.
func expr(e ast.Expr, reads map[string]bool) string {
	e = ast.Unparen(e)
	if tv, ok := info.Types[e]; ok && tv.Value != nil && tv.Value.Kind() == constant.Int {
		v, exact := constant.Int64Val(tv.Value)
		if !exact {
			die(e.Pos(), "constant does not fit int64")
		}

		return fmt.Sprintf("(.lit %d)", v)
	}
	switch x := e.(type) {
	case *ast.Ident:
		reads[x.Name] = true

		return fmt.Sprintf("(.var %q)", x.Name)
	case *ast.SelectorExpr:
		if id, ok := x.X.(*ast.Ident); ok {
			n := id.Name + "." + x.Sel.Name
			reads[n] = true

			return fmt.Sprintf("(.var %q)", n)
		}
	case *ast.UnaryExpr:
		if x.Op == token.NOT {
			return "(.not " + expr(x.X, reads) + ")"
		}
	case *ast.BinaryExpr:
		ops := map[token.Token]string{token.ADD: "add", token.SUB: "sub", token.LSS: "lt", token.LEQ: "le",
			token.GTR: "gt", token.GEQ: "ge", token.EQL: "eq"}
		if op, ok := ops[x.Op]; ok {
			return "(." + op + " " + expr(x.X, reads) + " " + expr(x.Y, reads) + ")"
		}
	case *ast.CallExpr:
		if tv, ok := info.Types[x.Fun]; ok && tv.IsType() && len(x.Args) == 1 {
			return expr(x.Args[0], reads) // conversion
		}
		if sel, ok := x.Fun.(*ast.SelectorExpr); ok && len(x.Args) == 1 && isTime(sel.X) {
			ops := map[string]string{"Add": "add", "Sub": "sub", "After": "gt", "Before": "lt"}
			if op, has := ops[sel.Sel.Name]; has {
				return "(." + op + " " + expr(sel.X, reads) + " " + expr(x.Args[0], reads) + ")"
			}
		}
	}
	die(e.Pos(), "expression outside the supported subset: %s", types.ExprString(e))

	return ""
}

func isMapAt(e ast.Expr) bool {
	ix, ok := e.(*ast.IndexExpr)

	return ok && types.ExprString(ix) == "ab.failedAuths[usrID]"
}

func stmts(list []ast.Stmt) (out []string) {
	for _, st := range list {
		switch x := st.(type) {
		case *ast.AssignStmt:
			switch {
			case len(x.Lhs) == 2 && len(x.Rhs) == 1 && isMapAt(x.Rhs[0]):
				if types.ExprString(x.Lhs[0]) != "a" || types.ExprString(x.Lhs[1]) != "ok" {
					die(x.Pos(), "map lookup must bind `a, ok`")
				}
				out = append(out, ".lookup")
			case len(x.Lhs) == 1 && len(x.Rhs) == 1 && isMapAt(x.Lhs[0]):
				cl, ok := x.Rhs[0].(*ast.CompositeLit)
				if !ok || types.ExprString(cl.Type) != "failedAuth" {
					die(x.Pos(), "store of something that is not a failedAuth literal")
				}
				f := map[string]string{}
				for _, el := range cl.Elts {
					kv, isKV := el.(*ast.KeyValueExpr)
					if !isKV {
						die(el.Pos(), "unkeyed failedAuth literal")
					}
					f[types.ExprString(kv.Key)] = expr(kv.Value, map[string]bool{})
				}
				if len(f) != 2 || f["until"] == "" || f["num"] == "" {
					die(x.Pos(), "failedAuth literal must set exactly num and until")
				}
				out = append(out, ".store "+f["until"]+" "+f["num"])
			case len(x.Lhs) == 1 && len(x.Rhs) == 1:
				id, ok := x.Lhs[0].(*ast.Ident)
				if !ok {
					die(x.Pos(), "assignment to something that is not a local variable")
				}
				out = append(out, fmt.Sprintf(".assign %q %s", id.Name, expr(x.Rhs[0], map[string]bool{})))
			default:
				die(x.Pos(), "assignment outside the supported subset")
			}
		case *ast.DeclStmt:
			gd, ok := x.Decl.(*ast.GenDecl)
			if !ok || gd.Tok != token.VAR || len(gd.Specs) != 1 {
				die(x.Pos(), "declaration outside the supported subset")
			}
			vs := gd.Specs[0].(*ast.ValueSpec)
			if len(vs.Names) != 1 || len(vs.Values) != 1 {
				die(x.Pos(), "var declaration must have one name and one value")
			}
			out = append(out, fmt.Sprintf(".assign %q %s", vs.Names[0].Name, expr(vs.Values[0], map[string]bool{})))
		case *ast.IfStmt:
			if x.Init != nil || x.Else != nil {
				die(x.Pos(), "if with init or else")
			}
			reads := map[string]bool{}
			c := expr(x.Cond, reads)
			if len(x.Body.List) == 1 {
				if rs, ok := x.Body.List[0].(*ast.ReturnStmt); ok {
					if len(rs.Results) != 1 {
						die(rs.Pos(), "return must have one result")
					}
					out = append(out, ".ifRet "+c+" "+expr(rs.Results[0], map[string]bool{}))

					continue
				}
			}
			for _, b := range x.Body.List {
				as, ok := b.(*ast.AssignStmt)
				if !ok || len(as.Lhs) != 1 || len(as.Rhs) != 1 || as.Tok != token.ASSIGN {
					die(b.Pos(), "if body outside the supported subset")
				}
				id, ok := as.Lhs[0].(*ast.Ident)
				if !ok {
					die(b.Pos(), "assignment to something that is not a local variable")
				}
				if reads[id.Name] {
					die(b.Pos(), "the condition reads %s, which the body assigns", id.Name)
				}
				out = append(out, fmt.Sprintf(".ifAssign %s %q %s", c, id.Name, expr(as.Rhs[0], map[string]bool{})))
			}
		case *ast.ReturnStmt:
			if len(x.Results) != 1 {
				die(x.Pos(), "return must have one result")
			}
			out = append(out, ".ret "+expr(x.Results[0], map[string]bool{}))
		default:
			die(st.Pos(), "statement outside the supported subset")
		}
	}

	return out
}

func main() {
	pkgs := load.Packages("./internal/home")
	var pkg *packages.Package
	for _, p := range pkgs {
		if p.PkgPath == homePkg {
			pkg = p
		}
	}
	if pkg == nil {
		fmt.Fprintln(os.Stderr, "extract c12: package home not loaded")
		os.Exit(2)
	}
	fset, info = pkg.Fset, pkg.TypesInfo

	ttlObj, ok := pkg.Types.Scope().Lookup("failedAuthTTL").(*types.Const)
	if !ok {
		fmt.Fprintln(os.Stderr, "extract c12: constant failedAuthTTL not found")
		os.Exit(2)
	}
	ttl, _ := constant.Int64Val(constant.ToInt(ttlObj.Val()))

	chk := method(pkg, "authRateLimiter", "checkLocked")
	inc := method(pkg, "authRateLimiter", "incLocked")
	cln := method(pkg, "authRateLimiter", "cleanupLocked")
	checkP := stmts(chk.Body.List)
	incP := stmts(inc.Body.List)

	// cleanupLocked: for k, v := range ab.failedAuths { if C { delete(ab.failedAuths, k) } }
	if len(cln.Body.List) != 1 {
		die(cln.Pos(), "cleanupLocked: expected a single range statement")
	}
	rg, ok := cln.Body.List[0].(*ast.RangeStmt)
	if !ok || types.ExprString(rg.X) != "ab.failedAuths" || types.ExprString(rg.Key) != "k" || types.ExprString(rg.Value) != "v" ||
		len(rg.Body.List) != 1 {
		die(cln.Pos(), "cleanupLocked: expected `for k, v := range ab.failedAuths { if … }`")
	}
	ifs, ok := rg.Body.List[0].(*ast.IfStmt)
	if !ok || ifs.Init != nil || ifs.Else != nil || len(ifs.Body.List) != 1 {
		die(rg.Pos(), "cleanupLocked: expected a single if without else")
	}
	if es, isES := ifs.Body.List[0].(*ast.ExprStmt); !isES || types.ExprString(es.X) != "delete(ab.failedAuths, k)" {
		die(ifs.Pos(), "cleanupLocked: the if body must be delete(ab.failedAuths, k)")
	}
	cleanC := expr(ifs.Cond, map[string]bool{})

	// (*Auth).checkSession: the decision skeleton (comparisons, the refresh
	// arithmetic, the order of effects on the expired branch).
	cs := method(pkg, "Auth", "checkSession")
	var sessCmps [][3]string
	var sessDivs []int64
	var newExpire, nowInit string
	var expiredEffects []string
	ast.Inspect(cs.Body, func(n ast.Node) bool {
		switch x := n.(type) {
		case *ast.AssignStmt:
			if len(x.Lhs) == 1 && len(x.Rhs) == 1 {
				switch types.ExprString(x.Lhs[0]) {
				case "newExpire":
					newExpire = types.ExprString(x.Rhs[0])
				case "now":
					nowInit = types.ExprString(x.Rhs[0])
				}
			}
		case *ast.IfStmt:
			if be, ok := x.Cond.(*ast.BinaryExpr); ok {
				l, r := be.X, be.Y
				strip := func(e ast.Expr) ast.Expr {
					if q, isQ := e.(*ast.BinaryExpr); isQ && q.Op == token.QUO {
						tv := info.Types[q.Y]
						if tv.Value == nil {
							die(q.Pos(), "checkSession: divisor is not a constant")
						}
						v, _ := constant.Int64Val(constant.ToInt(tv.Value))
						sessDivs = append(sessDivs, v)

						return q.X
					}

					return e
				}
				l, r = strip(l), strip(r)
				sessCmps = append(sessCmps, [3]string{types.ExprString(l), be.Op.String(), types.ExprString(r)})
				if types.ExprString(be) == "s.expire <= now" || len(sessCmps) == 1 {
					for _, b := range x.Body.List {
						switch y := b.(type) {
						case *ast.ExprStmt:
							if ce, isCall := y.X.(*ast.CallExpr); isCall {
								expiredEffects = append(expiredEffects, types.ExprString(ce.Fun))
							}
						case *ast.ReturnStmt:
							expiredEffects = append(expiredEffects, "return "+types.ExprString(y.Results[0]))
						}
					}
				}
			}
		}

		return true
	})

	var sb strings.Builder
	sb.WriteString("/- GENERATED by /verif/extract/cmd/c12 from internal/home/authratelimiter.go and auth.go — do not edit. -/\n")
	sb.WriteString("import AGH.Model.MiniGo\nnamespace AGH.Gen.C12\nopen AGH.MiniGo\n\n")
	fmt.Fprintf(&sb, "/-- const failedAuthTTL, nanoseconds -/\ndef failedAuthTTL : Int := %d\n\n", ttl)
	prog := func(name, doc string, p []string) {
		fmt.Fprintf(&sb, "/-- %s -/\ndef %s : List S := [\n", doc, name)
		for i, s := range p {
			sep := ","
			if i == len(p)-1 {
				sep = ""
			}
			fmt.Fprintf(&sb, "  %s%s\n", s, sep)
		}
		sb.WriteString("]\n\n")
	}
	prog("checkLocked", "(*authRateLimiter).checkLocked", checkP)
	prog("incLocked", "(*authRateLimiter).incLocked", incP)
	fmt.Fprintf(&sb, "/-- cleanupLocked deletes the record `v` of every key for which this holds -/\ndef cleanupCond : E := %s\n\n", cleanC)
	q := func(l []string) string {
		o := make([]string, len(l))
		for i, x := range l {
			o[i] = fmt.Sprintf("%q", x)
		}

		return "[" + strings.Join(o, ", ") + "]"
	}
	sb.WriteString("/-- (*Auth).checkSession: the comparisons of its if statements in source order (a `/ CONST` on either side stripped, the constants listed in sessionDivisors). -/\n")
	sb.WriteString("def sessionCmps : List (String × String × String) := [")
	for i, c := range sessCmps {
		if i > 0 {
			sb.WriteString(", ")
		}
		fmt.Fprintf(&sb, "(%q, %q, %q)", c[0], c[1], c[2])
	}
	sb.WriteString("]\n")
	ds := make([]string, len(sessDivs))
	for i, d := range sessDivs {
		ds[i] = fmt.Sprint(d)
	}
	fmt.Fprintf(&sb, "def sessionDivisors : List Nat := [%s]\n", strings.Join(ds, ", "))
	fmt.Fprintf(&sb, "def sessionNow : String := %q\ndef sessionNewExpire : String := %q\n", nowInit, newExpire)
	fmt.Fprintf(&sb, "/-- what the expired branch does, in order -/\ndef sessionExpiredEffects : List String := %s\n\n", q(expiredEffects))
	sb.WriteString("end AGH.Gen.C12\n")

	root, _ := filepath.Abs(filepath.Join("..", ""))
	if wd, err := os.Getwd(); err == nil && filepath.Base(wd) != "extract" {
		root = wd
	}
	out := filepath.Join(root, "lean", "AGH", "Gen", "C12Limiter.lean")
	_ = os.Remove(out)
	if err := os.WriteFile(out, []byte(sb.String()), 0o644); err != nil {
		fmt.Fprintln(os.Stderr, "extract c12:", err)
		os.Exit(2)
	}
	_ = os.MkdirAll(filepath.Join(root, "build", "C12"), 0o755)
	js, _ := json.MarshalIndent(map[string]any{
		"summary": map[string]any{"checkLocked_stmts": len(checkP), "incLocked_stmts": len(incP), "failedAuthTTL_ns": ttl, "repo": load.Repo()},
		"checkLocked": checkP, "incLocked": incP, "cleanupCond": cleanC,
		"pos": map[string]string{"checkLocked": fset.Position(chk.Pos()).String(), "incLocked": fset.Position(inc.Pos()).String(), "cleanupLocked": fset.Position(cln.Pos()).String()},
	}, "", " ")
	if err := os.WriteFile(filepath.Join(root, "build", "C12", "facts.json"), js, 0o644); err != nil {
		fmt.Fprintln(os.Stderr, "extract c12:", err)
		os.Exit(2)
	}
	fmt.Printf("c12: checkLocked %d statements, incLocked %d statements translated\n", len(checkP), len(incP))
}
