// Command c03 is the small translator tie of property C03.  From the syntax
// trees of the current tree (go/parser only) it regenerates
//
//	/verif/lean/AGH/Gen/C03Hook.lean   call-order facts the model of the hook relies on
//	/verif/build/C03/facts.json        the same facts with file:line
//
// Facts:
//
//  1. (*Server).HandleBefore in internal/dnsforward: the source order of its calls
//     of IsBlockedClient, isBlockedHost, preBlockedResponse, NewMsgSERVFAIL,
//     clientIDCache.Set, clientIDFromDNSContext and of its `return nil`;
//  2. internal/dnsforward registers the server as dnsproxy's BeforeRequestHandler;
//  4. (*Server).Prepare calls initDefaultSettings before newAccessCtx; the literal of
//     defaultBlockedHosts and its use in initDefaultSettings;
//  3. dnsproxy (the version go.mod selects) proxy.(*Proxy).handleDNSRequest: the
//     source order of handleBefore, isRatelimited, RequestHandler, Resolve, respond.
//
// Anything outside the understood shapes aborts: a broken tie, never a default.
package main

import (
	"encoding/json"
	"fmt"
	"go/ast"
	"go/parser"
	"go/token"
	"os"
	"os/exec"
	"path/filepath"
	"strconv"
	"strings"
)

func die(format string, a ...any) {
	fmt.Fprintf(os.Stderr, "extract c03: "+format+"\n", a...)
	os.Exit(1)
}

var fset = token.NewFileSet()

func parseDir(dir string) (files []*ast.File) {
	ents, err := os.ReadDir(dir)
	if err != nil {
		die("%v", err)
	}
	for _, e := range ents {
		n := e.Name()
		if e.IsDir() || !strings.HasSuffix(n, ".go") || strings.HasSuffix(n, "_test.go") {
			continue
		}
		f, perr := parser.ParseFile(fset, filepath.Join(dir, n), nil, parser.SkipObjectResolution)
		if perr != nil {
			die("%v", perr)
		}
		files = append(files, f)
	}

	return files
}

func findMethod(files []*ast.File, recv, name string) *ast.FuncDecl {
	var found *ast.FuncDecl
	for _, f := range files {
		for _, d := range f.Decls {
			fd, ok := d.(*ast.FuncDecl)
			if !ok || fd.Name.Name != name || fd.Recv == nil || len(fd.Recv.List) != 1 || fd.Body == nil {
				continue
			}
			t := fd.Recv.List[0].Type
			if st, isStar := t.(*ast.StarExpr); isStar {
				t = st.X
			}
			if id, isID := t.(*ast.Ident); isID && id.Name == recv {
				if found != nil {
					die("two methods (%s).%s", recv, name)
				}
				found = fd
			}
		}
	}
	if found == nil {
		die("method (%s).%s not found", recv, name)
	}

	return found
}

type event struct {
	Code int    `json:"code"`
	What string `json:"what"`
	Pos  string `json:"pos"`
}

// events lists, in source order, the calls whose selector/ident name is in codes
// and (code retNil) the statements `return nil`.
func events(fd *ast.FuncDecl, codes map[string]int, retNil int) (evs []event) {
	ast.Inspect(fd.Body, func(n ast.Node) bool {
		switch x := n.(type) {
		case *ast.FuncLit:
			return false
		case *ast.CallExpr:
			name := ""
			switch f := x.Fun.(type) {
			case *ast.SelectorExpr:
				name = f.Sel.Name
				if name == "Set" {
					if in, ok := f.X.(*ast.SelectorExpr); ok {
						name = in.Sel.Name + ".Set"
					}
				}
			case *ast.Ident:
				name = f.Name
			}
			if c, ok := codes[name]; ok {
				evs = append(evs, event{Code: c, What: name, Pos: fset.Position(x.Pos()).String()})
			}
		case *ast.ReturnStmt:
			if retNil != 0 && len(x.Results) == 1 {
				if id, ok := x.Results[0].(*ast.Ident); ok && id.Name == "nil" {
					evs = append(evs, event{Code: retNil, What: "return nil", Pos: fset.Position(x.Pos()).String()})
				}
			}
		}

		return true
	})

	return evs
}

func leanList(evs []event) string {
	var s []string
	for _, e := range evs {
		s = append(s, fmt.Sprint(e.Code))
	}

	return "[" + strings.Join(s, ", ") + "]"
}

func leanStrings(l []string) string {
	var q []string
	for _, x := range l {
		q = append(q, strconv.Quote(x))
	}

	return "[" + strings.Join(q, ", ") + "]"
}

func leanBytes(l []string) string {
	var q []string
	for _, x := range l {
		var b []string
		for _, c := range []byte(x) {
			b = append(b, fmt.Sprint(c))
		}
		q = append(q, "["+strings.Join(b, ", ")+"]")
	}

	return "[" + strings.Join(q, ", ") + "]"
}

func main() {
	repo := os.Getenv("VERIF_REPO")
	if repo == "" {
		repo = "/repo"
	}
	verif, err := filepath.Abs(".")
	if err != nil {
		die("%v", err)
	}

	df := parseDir(filepath.Join(repo, "internal/dnsforward"))
	hook := events(findMethod(df, "Server", "HandleBefore"), map[string]int{
		"IsBlockedClient": 1, "isBlockedHost": 2, "preBlockedResponse": 3, "NewMsgSERVFAIL": 4,
		"clientIDCache.Set": 5, "clientIDFromDNSContext": 6,
	}, 7)

	// 2. BeforeRequestHandler: s  (composite literal key) or x.BeforeRequestHandler = s
	registered := 0
	regPos := ""
	for _, f := range df {
		ast.Inspect(f, func(n ast.Node) bool {
			switch x := n.(type) {
			case *ast.KeyValueExpr:
				if k, ok := x.Key.(*ast.Ident); ok && k.Name == "BeforeRequestHandler" {
					if v, isID := x.Value.(*ast.Ident); isID && v.Name == "s" {
						registered++
						regPos = fset.Position(x.Pos()).String()
					}
				}
			case *ast.AssignStmt:
				if len(x.Lhs) == 1 && len(x.Rhs) == 1 {
					if l, ok := x.Lhs[0].(*ast.SelectorExpr); ok && l.Sel.Name == "BeforeRequestHandler" {
						if v, isID := x.Rhs[0].(*ast.Ident); isID && v.Name == "s" {
							registered++
							regPos = fset.Position(x.Pos()).String()
						}
					}
				}
			}

			return true
		})
	}

	// 4. (*Server).Prepare: initDefaultSettings (1) before newAccessCtx (2), and
	// the literal of defaultBlockedHosts.
	prep := events(findMethod(df, "Server", "Prepare"), map[string]int{"initDefaultSettings": 1, "newAccessCtx": 2}, 0)
	var defHosts []string
	defFound := 0
	for _, f := range df {
		for _, d := range f.Decls {
			gd, ok := d.(*ast.GenDecl)
			if !ok || gd.Tok != token.VAR {
				continue
			}
			for _, sp := range gd.Specs {
				vs := sp.(*ast.ValueSpec)
				if len(vs.Names) != 1 || vs.Names[0].Name != "defaultBlockedHosts" || len(vs.Values) != 1 {
					continue
				}
				cl, isCL := vs.Values[0].(*ast.CompositeLit)
				if !isCL {
					die("defaultBlockedHosts is not a composite literal")
				}
				defFound++
				for _, e := range cl.Elts {
					bl, isBL := e.(*ast.BasicLit)
					if !isBL || bl.Kind != token.STRING {
						die("defaultBlockedHosts: element is not a string literal")
					}
					v, uerr := strconv.Unquote(bl.Value)
					if uerr != nil {
						die("%v", uerr)
					}
					defHosts = append(defHosts, v)
				}
			}
		}
	}
	if defFound != 1 {
		die("defaultBlockedHosts: %d declarations", defFound)
	}
	// the BlockedHosts defaulting inside initDefaultSettings
	defaulting := 0
	ast.Inspect(findMethod(df, "Server", "initDefaultSettings").Body, func(n ast.Node) bool {
		if as, ok := n.(*ast.AssignStmt); ok && len(as.Lhs) == 1 && len(as.Rhs) == 1 {
			l, lok := as.Lhs[0].(*ast.SelectorExpr)
			r, rok := as.Rhs[0].(*ast.Ident)
			if lok && rok && l.Sel.Name == "BlockedHosts" && r.Name == "defaultBlockedHosts" {
				defaulting++
			}
		}

		return true
	})

	// 3. dnsproxy of go.mod
	cmd := exec.Command("go1.26", "list", "-m", "-f", "{{.Dir}}", "github.com/AdguardTeam/dnsproxy")
	cmd.Dir = repo
	// never let the go command rewrite the repository's go.mod
	cmd.Env = append(os.Environ(), "GOFLAGS=-mod=readonly")
	out, err := cmd.Output()
	if err != nil {
		die("go list -m dnsproxy: %v", err)
	}
	pdir := filepath.Join(strings.TrimSpace(string(out)), "proxy")
	pf := parseDir(pdir)
	prox := events(findMethod(pf, "Proxy", "handleDNSRequest"), map[string]int{
		"handleBefore": 1, "isRatelimited": 2, "RequestHandler": 3, "Resolve": 4, "respond": 5,
	}, 0)

	lean := "/-\nREGENERATED by /verif/extract/cmd/c03 on every run of bin/check C03 — never edit.\n" +
		"Codes (hook): 1 IsBlockedClient, 2 isBlockedHost, 3 preBlockedResponse, 4 NewMsgSERVFAIL,\n" +
		"5 clientIDCache.Set, 6 clientIDFromDNSContext, 7 `return nil`.\n" +
		"Codes (dnsproxy handleDNSRequest): 1 handleBefore, 2 isRatelimited, 3 RequestHandler, 4 Resolve, 5 respond.\n-/\n" +
		"namespace AGH.Gen.C03\n\n" +
		"/-- calls of (*Server).HandleBefore in source order -/\n" +
		"def hookEvents : List Nat := " + leanList(hook) + "\n\n" +
		"/-- how many times internal/dnsforward sets `BeforeRequestHandler` to the server -/\n" +
		fmt.Sprintf("def hookRegistrations : Nat := %d\n\n", registered) +
		"/-- calls of dnsproxy's (*Proxy).handleDNSRequest in source order -/\n" +
		"def proxyEvents : List Nat := " + leanList(prox) + "\n\n" +
		"/-- calls of (*Server).Prepare in source order: 1 initDefaultSettings, 2 newAccessCtx -/\n" +
		"def prepareEvents : List Nat := " + leanList(prep) + "\n\n" +
		"/-- the literal of `defaultBlockedHosts` -/\n" +
		"def defaultBlockedHosts : List (List Nat) := " + leanBytes(defHosts) + "  -- " + leanStrings(defHosts) + "\n\n" +
		"/-- assignments `….BlockedHosts = defaultBlockedHosts` in initDefaultSettings -/\n" +
		fmt.Sprintf("def hostsDefaulting : Nat := %d\n\n", defaulting) +
		"end AGH.Gen.C03\n"
	if err = os.WriteFile(filepath.Join(verif, "lean/AGH/Gen/C03Hook.lean"), []byte(lean), 0o644); err != nil {
		die("%v", err)
	}
	_ = os.MkdirAll(filepath.Join(verif, "build/C03"), 0o755)
	facts := map[string]any{
		"summary": fmt.Sprintf("HandleBefore events %s; BeforeRequestHandler registrations %d; dnsproxy %s handleDNSRequest events %s",
			leanList(hook), registered, filepath.Base(filepath.Dir(pdir)), leanList(prox)),
		"hook": hook, "registered_at": regPos, "proxy": prox, "prepare": prep, "default_blocked_hosts": defHosts,
	}
	b, _ := json.MarshalIndent(facts, "", " ")
	if err = os.WriteFile(filepath.Join(verif, "build/C03/facts.json"), b, 0o644); err != nil {
		die("%v", err)
	}
	fmt.Println(facts["summary"])
}
