package main

// Escape of a guarded object (obligation 7).
//
// A method of a lock-owning type that takes the guard of a field itself and
// returns a pointer, slice or map that still aliases the object kept in that
// field hands the caller a reference it will use after the lock is released:
// the lock machine (which only sees accesses to the field) says nothing about
// the reads and writes made through that reference.  Every such (method,
// field) pair is a row; the reviewed baseline is guards.json
// `guarded_escape`.
//
// The rows come from a flow-insensitive taint analysis of each method body:
//
//   - sources: a path from the receiver to a guarded field (indexing, slicing,
//     dereferencing and address-of are transparent), and the result of a
//     method called on such a path or on a tainted local;
//   - propagation: assignments, definitions and range statements to locals of
//     pointer, slice or map type; append(x, …) and type assertions keep the
//     taint of x;
//   - sanitisers: any call whose function name contains "clone" or "copy"
//     (Clone, ShallowClone, slices.Clone, maps.Clone, …), composite literals
//     and every other call (a fresh value);
//   - sinks: the results of the return statements of the method itself
//     (function literals are not followed), bare returns with named results
//     included.

import (
	"go/ast"
	"go/token"
	"go/types"
	"sort"
	"strings"
)

// cfgEsc is a reviewed guarded-escape row.
type cfgEsc struct {
	Func  string `json:"func"`
	Field string `json:"field"`
	Note  string `json:"note"`
}

type escOut struct {
	Site   int    `json:"site"`
	Func   string `json:"func"`
	Field  string `json:"field"`
	Pos    string `json:"pos"`
	Listed bool   `json:"listed"`
}

type escCtx struct {
	a     *analysis
	info  *types.Info
	recv  types.Object
	root  string
	taint map[types.Object]string
}

func isRefType(t types.Type) bool {
	if t == nil {
		return false
	}
	switch types.Unalias(t).Underlying().(type) {
	case *types.Pointer, *types.Slice, *types.Map:
		return true
	}

	return false
}

func isCloneName(name string) bool {
	l := strings.ToLower(name)

	return strings.Contains(l, "clone") || strings.Contains(l, "copy")
}

// recvPath renders a path expression rooted at the receiver as dotted field
// names; ok is false for anything else.
func (e *escCtx) recvPath(x ast.Expr) (path string, ok bool) {
	switch x := ast.Unparen(x).(type) {
	case *ast.Ident:
		if obj := e.info.Uses[x]; obj != nil && obj == e.recv {
			return "", true
		}
	case *ast.StarExpr:
		return e.recvPath(x.X)
	case *ast.UnaryExpr:
		if x.Op == token.AND {
			return e.recvPath(x.X)
		}
	case *ast.IndexExpr:
		return e.recvPath(x.X)
	case *ast.SliceExpr:
		return e.recvPath(x.X)
	case *ast.SelectorExpr:
		s := e.info.Selections[x]
		if s == nil || s.Kind() != types.FieldVal {
			return "", false
		}
		p, ok := e.recvPath(x.X)
		if !ok {
			return "", false
		}
		// embedded fields: use the full index path
		t := s.Recv()
		for _, i := range s.Index() {
			st, isSt := deref(t).Underlying().(*types.Struct)
			if !isSt {
				return "", false
			}
			f := st.Field(i)
			if p != "" {
				p += "."
			}
			p += f.Name()
			t = f.Type()
		}

		return p, true
	}

	return "", false
}

// guardedField returns "Root:prefix" and the guard if x is a receiver path to
// a guarded field.
func (e *escCtx) guardedField(x ast.Expr) (field, guard string) {
	p, ok := e.recvPath(x)
	if !ok || p == "" {
		return "", ""
	}
	prefix, g, _, ok := e.a.classify(e.root, p)
	if !ok || g == "" {
		return "", ""
	}

	return e.root + ":" + prefix, g
}

// source returns the guarded field the value of x may alias, "" if none.
func (e *escCtx) source(x ast.Expr) string {
	x = ast.Unparen(x)
	switch x := x.(type) {
	case *ast.Ident:
		if obj := e.info.Uses[x]; obj != nil {
			return e.taint[obj]
		}

		return ""
	case *ast.TypeAssertExpr:
		return e.source(x.X)
	case *ast.CallExpr:
		return e.callSource(x)
	case *ast.StarExpr:
		// *p is a copy of the struct, not an alias (a shallow one: accepted)
		return ""
	case *ast.UnaryExpr:
		if x.Op == token.AND {
			return e.base(x.X)
		}

		return ""
	case *ast.SelectorExpr, *ast.IndexExpr, *ast.SliceExpr:
		if !isRefType(e.info.TypeOf(x)) {
			return ""
		}

		return e.base(x)
	}

	return ""
}

// base returns the guarded field a path expression leads into: a receiver path
// to a guarded field, or a path below a tainted local.
func (e *escCtx) base(x ast.Expr) string {
	if f, _ := e.guardedField(x); f != "" {
		return f
	}
	for {
		switch y := ast.Unparen(x).(type) {
		case *ast.SelectorExpr:
			if s := e.info.Selections[y]; s == nil || s.Kind() != types.FieldVal {
				return ""
			}
			x = y.X
		case *ast.IndexExpr:
			x = y.X
		case *ast.SliceExpr:
			x = y.X
		case *ast.StarExpr:
			x = y.X
		case *ast.Ident:
			if obj := e.info.Uses[y]; obj != nil {
				return e.taint[obj]
			}

			return ""
		case *ast.CallExpr:
			return e.callSource(y)
		default:
			return ""
		}
	}
}

func (e *escCtx) callSource(call *ast.CallExpr) string {
	switch fun := ast.Unparen(call.Fun).(type) {
	case *ast.Ident:
		if fun.Name == "append" && len(call.Args) > 0 {
			if _, isBuiltin := e.info.Uses[fun].(*types.Builtin); isBuiltin {
				return e.source(call.Args[0])
			}
		}
	case *ast.SelectorExpr:
		if isCloneName(fun.Sel.Name) {
			return ""
		}
		s := e.info.Selections[fun]
		if s == nil || s.Kind() != types.MethodVal {
			return ""
		}
		// a method of the guarded object (or of something reached from it)
		// returning a reference: assumed to alias it
		return e.base(fun.X)
	}

	return ""
}

// locksTaken lists the guard paths (dotted, from the receiver) this body
// acquires directly.
func (e *escCtx) locksTaken(body *ast.BlockStmt) map[string]bool {
	res := map[string]bool{}
	ast.Inspect(body, func(n ast.Node) bool {
		call, ok := n.(*ast.CallExpr)
		if !ok {
			return true
		}
		sel, ok := ast.Unparen(call.Fun).(*ast.SelectorExpr)
		if !ok {
			return true
		}
		switch sel.Sel.Name {
		case "Lock", "RLock", "TryLock", "TryRLock":
		default:
			return true
		}
		if p, ok := e.recvPath(sel.X); ok && p != "" {
			res[p] = true
		}

		return true
	})

	return res
}

func (e *escCtx) setTaint(lhs ast.Expr, src string) (changed bool) {
	id, ok := ast.Unparen(lhs).(*ast.Ident)
	if !ok || id.Name == "_" || src == "" {
		return false
	}
	obj := e.info.Defs[id]
	if obj == nil {
		obj = e.info.Uses[id]
	}
	if obj == nil || !isRefType(obj.Type()) || e.taint[obj] != "" {
		return false
	}
	e.taint[obj] = src

	return true
}

func (e *escCtx) propagate(body *ast.BlockStmt) {
	for changed := true; changed; {
		changed = false
		ast.Inspect(body, func(n ast.Node) bool {
			switch s := n.(type) {
			case *ast.AssignStmt:
				if len(s.Lhs) == len(s.Rhs) {
					for i := range s.Lhs {
						if e.setTaint(s.Lhs[i], e.source(s.Rhs[i])) {
							changed = true
						}
					}
				} else if len(s.Rhs) == 1 {
					src := e.source(s.Rhs[0])
					for _, l := range s.Lhs {
						if e.setTaint(l, src) {
							changed = true
						}
					}
				}
			case *ast.ValueSpec:
				if len(s.Names) == len(s.Values) {
					for i := range s.Names {
						if e.setTaint(s.Names[i], e.source(s.Values[i])) {
							changed = true
						}
					}
				}
			case *ast.RangeStmt:
				src := e.source(s.X)
				if src == "" {
					src = e.base(s.X)
				}
				if s.Value != nil && e.setTaint(s.Value, src) {
					changed = true
				}
			}

			return true
		})
	}
}

// guardedEscape computes the rows and confronts them with the baseline.
func (a *analysis) guardedEscape() (rows []escOut, unlisted int, stale []string) {
	seen := map[[2]string]bool{}
	for _, fi := range a.order {
		fd := fi.decl
		if fd.Recv == nil || len(fd.Recv.List) != 1 || len(fd.Recv.List[0].Names) != 1 || fd.Type.Results == nil {
			continue
		}
		info := fi.pkg.TypesInfo
		recv := info.Defs[fd.Recv.List[0].Names[0]]
		if recv == nil {
			continue
		}
		root := shortNamed(namedOf(recv.Type()))
		if a.rootCfg[root] == nil || len(a.rootCfg[root].Guards) == 0 {
			continue
		}
		e := &escCtx{a: a, info: info, recv: recv, root: root, taint: map[types.Object]string{}}
		taken := e.locksTaken(fd.Body)
		if len(taken) == 0 {
			continue
		}
		e.propagate(fd.Body)
		guardOf := func(field string) string {
			_, g, _, _ := a.classify(root, strings.TrimPrefix(field, root+":"))

			return g
		}
		note := func(field string, p token.Pos) {
			if field == "" || !taken[guardOf(field)] {
				return
			}
			k := [2]string{fi.name, field}
			if seen[k] {
				return
			}
			seen[k] = true
			rows = append(rows, escOut{Func: fi.name, Field: field, Pos: a.pos(p)})
		}
		var named []types.Object
		for _, f := range fd.Type.Results.List {
			for _, nm := range f.Names {
				if obj := info.Defs[nm]; obj != nil {
					named = append(named, obj)
				}
			}
		}
		var visit func(n ast.Node) bool
		visit = func(n ast.Node) bool {
			switch s := n.(type) {
			case *ast.FuncLit:
				return false
			case *ast.ReturnStmt:
				if len(s.Results) == 0 {
					for _, obj := range named {
						note(e.taint[obj], s.Pos())
					}
				}
				for _, r := range s.Results {
					if t := info.TypeOf(r); t != nil {
						if _, isTuple := t.(*types.Tuple); !isTuple && !isRefType(t) {
							continue
						}
					}
					note(e.source(r), r.Pos())
				}
			}

			return true
		}
		ast.Inspect(fd.Body, visit)
	}
	used := make([]bool, len(a.cfg.GuardedEscape))
	for i := range rows {
		for j, b := range a.cfg.GuardedEscape {
			if b.Func == rows[i].Func && b.Field == rows[i].Field {
				rows[i].Listed = true
				used[j] = true
			}
		}
	}
	for j, b := range a.cfg.GuardedEscape {
		if !used[j] {
			stale = append(stale, "guarded-escape "+b.Func+" "+b.Field)
		}
	}
	sort.Slice(rows, func(i, j int) bool { return rows[i].Func+rows[i].Field < rows[j].Func+rows[j].Field })
	for i := range rows {
		rows[i].Site = i
		if !rows[i].Listed {
			unlisted++
		}
	}

	return rows, unlisted, stale
}
