package main

import (
	"fmt"
	"go/ast"
	"go/token"
	"go/types"
	"sort"
	"strings"

	"golang.org/x/tools/go/packages"
)

// fctx is the analysis context of one function body (a declared function or a
// function literal): the locks that must be held at the current point, the
// lock classes that may be held, local aliases.
type fctx struct {
	a       *analysis
	fi      *funcInfo
	pkg     *packages.Package
	info    *types.Info
	name    string
	must    []heldLock
	may     map[int]bool
	top     bool
	initFn  bool
	initLit bool
	aliases map[types.Object]*pathRef
	fresh   map[types.Object]bool
	multi   map[types.Object]int
	lits    map[types.Object]*ast.FuncLit
	loops   [][]heldLock
	nlit    int
	// detached: the body runs in another goroutine or later; what it acquires
	// is not acquired by the enclosing function.
	detached bool
	inPrefix bool
	// depth is the nesting depth of the current statement inside the function
	// body (0: the top-level statement list).
	depth   int
	inDefer bool
	// published: local variables whose value was stored into a guarded field
	// under a hold (seq) of its guard.
	published map[types.Object]pubInfo
	// taint: local variables holding a value obtained under a lock that is
	// (possibly) no longer held; ctaCands: conditions on such values so far.
	taint    map[types.Object][]ctaSrc
	ctaCands []ctaCand
	// nonBlocking: walking the communication of a select with a default clause.
	nonBlocking bool
	// drained maps a channel to the acquisitions (seq) under which it was
	// drained by a non-blocking receive loop in this function.
	drained map[types.Object][]int
	// beginErr is the error variable of the Begin call of the previous
	// statement, beginClass the pseudo-lock it would hold.
	beginErr   types.Object
	beginErrAt ast.Stmt
	beginClass int
	// boltRows are the acquisition rows of the pseudo-locks currently held.
	boltRows map[int]*acqSite
	// pendingTx is the variable the transaction being opened is assigned to.
	pendingTx types.Object
	// dbOwner names the database a local *bbolt.DB variable was loaded from.
	dbOwner map[types.Object]string
	// txClass maps a local *bbolt.Tx variable to the pseudo-lock it holds.
	txClass map[types.Object]int
}

func (a *analysis) newCtx(fi *funcInfo, name string, pkg *packages.Package) *fctx {
	return &fctx{
		a: a, fi: fi, pkg: pkg, info: pkg.TypesInfo, name: name, may: map[int]bool{},
		aliases: map[types.Object]*pathRef{}, fresh: map[types.Object]bool{}, multi: map[types.Object]int{},
		lits: map[types.Object]*ast.FuncLit{}, dbOwner: map[types.Object]string{}, txClass: map[types.Object]int{},
		boltRows: map[int]*acqSite{}, drained: map[types.Object][]int{}, taint: map[types.Object][]ctaSrc{},
		published: map[types.Object]pubInfo{},
	}
}

func baseKey(obj types.Object, prefix []string) string {
	return fmt.Sprintf("%p|%s", obj, strings.Join(prefix, "."))
}

// prescan counts assignments per local variable (aliases are only tracked for
// variables assigned exactly once).
func (c *fctx) prescan(body *ast.BlockStmt) {
	ast.Inspect(body, func(n ast.Node) bool {
		switch n := n.(type) {
		case *ast.AssignStmt:
			for _, l := range n.Lhs {
				if id, ok := l.(*ast.Ident); ok {
					if obj := c.objOf(id); obj != nil {
						c.multi[obj]++
					}
				}
			}
		case *ast.ValueSpec:
			for _, id := range n.Names {
				if obj := c.objOf(id); obj != nil && len(n.Values) > 0 {
					c.multi[obj]++
				}
			}
		case *ast.UnaryExpr:
			if n.Op == token.AND {
				if id, ok := n.X.(*ast.Ident); ok {
					if obj := c.objOf(id); obj != nil {
						c.multi[obj] += 2
					}
				}
			}
		case *ast.RangeStmt:
			for _, e := range []ast.Expr{n.Key, n.Value} {
				if id, ok := e.(*ast.Ident); ok && id != nil {
					if obj := c.objOf(id); obj != nil {
						c.multi[obj] += 2
					}
				}
			}
		}

		return true
	})
}

func (c *fctx) objOf(id *ast.Ident) types.Object {
	if o := c.info.Defs[id]; o != nil {
		return o
	}

	return c.info.Uses[id]
}

func copyLocks(ls []heldLock) []heldLock { return append([]heldLock(nil), ls...) }

func copyMay(m map[int]bool) map[int]bool {
	r := make(map[int]bool, len(m))
	for k := range m {
		r[k] = true
	}

	return r
}

type snapshot struct {
	must []heldLock
	may  map[int]bool
}

func (c *fctx) snap() snapshot { return snapshot{copyLocks(c.must), copyMay(c.may)} }

func (c *fctx) restore(s snapshot) { c.must, c.may = copyLocks(s.must), copyMay(s.may) }

func sameLock(x, y heldLock) bool {
	return x.class == y.class && x.base == y.base && x.path == y.path && x.root == y.root
}

// join intersects the must sets and unites the may sets of the given exits.
func (c *fctx) join(exits []snapshot) {
	if len(exits) == 0 {
		return
	}
	must := copyLocks(exits[0].must)
	may := copyMay(exits[0].may)
	for _, e := range exits[1:] {
		var keep []heldLock
		for _, l := range must {
			for _, m := range e.must {
				if sameLock(l, m) {
					l.excl = l.excl && m.excl
					l.deferred = l.deferred && m.deferred
					keep = append(keep, l)

					break
				}
			}
		}
		must = keep
		for k := range e.may {
			may[k] = true
		}
	}
	c.must, c.may = must, may
}

func locksEqual(x, y []heldLock) bool {
	if len(x) != len(y) {
		return false
	}
	for _, l := range x {
		n, m := 0, 0
		for _, k := range x {
			if sameLock(l, k) {
				n++
			}
		}
		for _, k := range y {
			if sameLock(l, k) {
				m++
			}
		}
		if n != m {
			return false
		}
	}

	return true
}

func (c *fctx) checkLeak(p token.Pos) {
	for _, l := range c.must {
		if !l.deferred && !l.outer {
			c.a.errorf(p, "%s returns while holding %s (no deferred unlock)", c.name, c.a.classByID(l.class))
		}
	}
}

func (a *analysis) classByID(id int) string {
	if id >= 0 && id < len(a.classList) {
		return a.classList[id].name
	}

	return fmt.Sprint("class#", id)
}

// ---------------------------------------------------------------- statements

func (c *fctx) block(list []ast.Stmt) (terminated bool) {
	for _, s := range list {
		if c.stmt(s) {
			return true
		}
	}

	return false
}

func (c *fctx) stmt(s ast.Stmt) (terminated bool) {
	switch s.(type) {
	case *ast.IfStmt, *ast.ForStmt, *ast.RangeStmt, *ast.SwitchStmt, *ast.TypeSwitchStmt, *ast.SelectStmt, *ast.BlockStmt:
		c.depth++
		defer func() { c.depth-- }()
	}
	switch s := s.(type) {
	case nil, *ast.EmptyStmt:
	case *ast.BlockStmt:
		return c.block(s.List)
	case *ast.LabeledStmt:
		return c.stmt(s.Stmt)
	case *ast.ExprStmt:
		c.expr(s.X)

		return c.isTerminatingCall(s.X)
	case *ast.SendStmt:
		c.expr(s.Chan)
		c.expr(s.Value)
		c.chanOp(s.Chan, "send", s.Pos())
	case *ast.IncDecStmt:
		c.lhs(s.X)
	case *ast.AssignStmt:
		c.assign(s)
	case *ast.DeclStmt:
		if gd, ok := s.Decl.(*ast.GenDecl); ok {
			for _, sp := range gd.Specs {
				if vs, ok := sp.(*ast.ValueSpec); ok {
					for i, v := range vs.Values {
						c.expr(v)
						if len(vs.Names) == len(vs.Values) {
							c.noteDefine(vs.Names[i], v)
						}
					}
				}
			}
		}
	case *ast.GoStmt:
		c.goStmt(s)
	case *ast.DeferStmt:
		c.deferStmt(s)
	case *ast.ReturnStmt:
		for _, r := range s.Results {
			c.expr(r)
		}
		c.checkLeak(s.Pos())

		return true
	case *ast.BranchStmt:
		if s.Tok == token.BREAK || s.Tok == token.CONTINUE || s.Tok == token.GOTO {
			if len(c.loops) > 0 && s.Tok != token.GOTO && s.Label == nil {
				if !locksEqual(c.loops[len(c.loops)-1], c.must) {
					c.a.errorf(s.Pos(), "%s: lock set at %s differs from the lock set at loop entry", c.name, s.Tok)
				}
			}

			return true
		}
	case *ast.IfStmt:
		return c.ifStmt(s)
	case *ast.ForStmt:
		if ch := c.drainLoop(s); ch != nil {
			for _, l := range c.must {
				if !l.outer {
					c.drained[ch] = append(c.drained[ch], l.seq)
				}
			}
		}
		c.stmt(s.Init)
		if s.Cond != nil {
			c.expr(s.Cond)
		}
		entry := c.snap()
		c.loops = append(c.loops, copyLocks(c.must))
		term := c.block(s.Body.List)
		if !term {
			c.stmt(s.Post)
			if !locksEqual(entry.must, c.must) {
				c.a.errorf(s.Pos(), "%s: loop body changes the lock set", c.name)
			}
		}
		c.loops = c.loops[:len(c.loops)-1]
		exitMay := copyMay(c.may)
		c.restore(entry)
		for k := range exitMay {
			c.may[k] = true
		}
	case *ast.RangeStmt:
		c.expr(s.X)
		if tv, ok := c.info.Types[s.X]; ok {
			if _, isChan := types.Unalias(tv.Type).Underlying().(*types.Chan); isChan {
				c.chanOp(s.X, "recv", s.Pos())
			}
		}
		entry := c.snap()
		c.loops = append(c.loops, copyLocks(c.must))
		term := c.block(s.Body.List)
		if !term && !locksEqual(entry.must, c.must) {
			c.a.errorf(s.Pos(), "%s: loop body changes the lock set", c.name)
		}
		c.loops = c.loops[:len(c.loops)-1]
		exitMay := copyMay(c.may)
		c.restore(entry)
		for k := range exitMay {
			c.may[k] = true
		}
	case *ast.SwitchStmt:
		c.stmt(s.Init)
		if s.Tag != nil {
			c.expr(s.Tag)
			c.ctaCond(s.Tag)
		}

		return c.clauses(s.Body.List, true)
	case *ast.TypeSwitchStmt:
		c.stmt(s.Init)
		c.stmt(s.Assign)

		return c.clauses(s.Body.List, true)
	case *ast.SelectStmt:
		return c.clauses(s.Body.List, false)
	default:
		c.a.errorf(s.Pos(), "%s: unsupported statement %T", c.name, s)
	}

	return false
}

func (c *fctx) clauses(list []ast.Stmt, implicitDefault bool) (terminated bool) {
	entry := c.snap()
	var exits []snapshot
	hasDefault := false
	selDefault := false
	for _, cl := range list {
		if cc, ok := cl.(*ast.CommClause); ok && cc.Comm == nil {
			selDefault = true
		}
	}
	// inside switch/select, an unlabeled break leaves the clause, not a loop
	c.loops = append(c.loops, copyLocks(c.must))
	defer func() { c.loops = c.loops[:len(c.loops)-1] }()
	for _, cl := range list {
		c.restore(entry)
		var body []ast.Stmt
		switch cl := cl.(type) {
		case *ast.CaseClause:
			if cl.List == nil {
				hasDefault = true
			}
			for _, e := range cl.List {
				c.expr(e)
			}
			body = cl.Body
		case *ast.CommClause:
			if cl.Comm == nil {
				hasDefault = true
			} else {
				saved := c.nonBlocking
				c.nonBlocking = selDefault
				c.stmt(cl.Comm)
				c.nonBlocking = saved
			}
			body = cl.Body
		}
		if !c.block(body) {
			exits = append(exits, c.snap())
		} else if endsWithBreak(body) {
			exits = append(exits, c.snap())
		}
	}
	if implicitDefault && !hasDefault {
		exits = append(exits, entry)
	}
	if len(exits) == 0 {
		c.restore(entry)

		return len(list) > 0
	}
	c.join(exits)

	return false
}

func endsWithBreak(body []ast.Stmt) bool {
	if len(body) == 0 {
		return false
	}
	b, ok := body[len(body)-1].(*ast.BranchStmt)

	return ok && b.Tok == token.BREAK && b.Label == nil
}

func (c *fctx) ifStmt(s *ast.IfStmt) (terminated bool) {
	c.stmt(s.Init)
	// `if !mu.TryLock() { return }` / `if ok = mu.TryLock(); !ok { return }`
	tryLock := c.findTryLock(s)
	if tryLock == nil {
		c.expr(s.Cond)
		c.ctaCond(s.Cond)
	}
	entry := c.snap()
	var exits []snapshot
	if c.beginErr != nil && isErrNotNil(c, s.Cond, c.beginErr) {
		// Begin failed: no transaction, no lock
		delete(c.may, c.beginClass)
	}
	c.beginErr = nil
	if !c.block(s.Body.List) {
		exits = append(exits, c.snap())
	}
	c.restore(entry)
	if tryLock != nil {
		if len(exits) > 0 || s.Else != nil {
			c.a.errorf(s.Pos(), "%s: unsupported TryLock shape (the failure branch must return)", c.name)
		}
		c.lockOp(tryLock, true)

		return false
	}
	if s.Else != nil {
		if !c.stmt(s.Else) {
			exits = append(exits, c.snap())
		}
	} else {
		exits = append(exits, entry)
	}
	if len(exits) == 0 {
		return true
	}
	c.join(exits)

	return false
}

// findTryLock recognises the two shapes of a non-blocking acquisition whose
// failure branch leaves the function.
func (c *fctx) findTryLock(s *ast.IfStmt) *ast.CallExpr {
	neg, ok := s.Cond.(*ast.UnaryExpr)
	if !ok || neg.Op != token.NOT {
		return nil
	}
	if call, ok := neg.X.(*ast.CallExpr); ok && c.lockMethod(call) == "TryLock" {
		return call
	}
	if as, ok := s.Init.(*ast.AssignStmt); ok && len(as.Rhs) == 1 {
		if call, ok := as.Rhs[0].(*ast.CallExpr); ok && c.lockMethod(call) == "TryLock" {
			if id, ok := neg.X.(*ast.Ident); ok {
				if l, ok := as.Lhs[0].(*ast.Ident); ok && c.objOf(l) == c.objOf(id) {
					return call
				}
			}
		}
	}

	return nil
}

func (c *fctx) isTerminatingCall(e ast.Expr) bool {
	call, ok := e.(*ast.CallExpr)
	if !ok {
		return false
	}
	switch f := call.Fun.(type) {
	case *ast.Ident:
		return f.Name == "panic" && c.info.Uses[f] == types.Universe.Lookup("panic")
	case *ast.SelectorExpr:
		if id, ok := f.X.(*ast.Ident); ok {
			if pn, ok := c.info.Uses[id].(*types.PkgName); ok {
				p := pn.Imported().Path()
				n := f.Sel.Name
				if p == "os" && n == "Exit" {
					return true
				}
				if strings.HasSuffix(p, "/log") && strings.HasPrefix(n, "Fatal") {
					return true
				}
			}
		}
	}

	return false
}

func (c *fctx) assign(s *ast.AssignStmt) {
	if len(s.Rhs) == 1 {
		if call, ok := ast.Unparen(s.Rhs[0]).(*ast.CallExpr); ok && c.boltMethod(call) == "DB.Begin" {
			if id, ok := s.Lhs[0].(*ast.Ident); ok {
				if obj := c.objOf(id); obj != nil {
					c.pendingTx = obj
				}
			}
			if len(s.Lhs) == 2 {
				if id, ok := s.Lhs[1].(*ast.Ident); ok {
					c.beginErr = c.objOf(id)
					c.beginErrAt = s
				}
			}
		}
	}
	for _, r := range s.Rhs {
		// TryLock in an assignment outside the recognised `if` shape
		if call, ok := r.(*ast.CallExpr); ok {
			if m := c.lockMethod(call); m == "TryLock" || m == "TryRLock" {
				continue
			}
		}
		c.expr(r)
	}
	for i, l := range s.Lhs {
		if id, ok := l.(*ast.Ident); ok {
			if len(s.Lhs) == len(s.Rhs) {
				c.noteDefine(id, s.Rhs[i])
			} else if len(s.Rhs) == 1 {
				// x, err := f(): x may describe guarded state
				if obj := c.objOf(id); obj != nil && id.Name != "_" && !isErrorType(obj.Type()) {
					if srcs := c.ctaSources(s.Rhs[0]); len(srcs) > 0 {
						c.taint[obj] = srcs
					} else {
						delete(c.taint, obj)
					}
				}
			}

			continue
		}
		c.lhs(l)
		if len(s.Lhs) == len(s.Rhs) {
			c.notePublish(l, s.Rhs[i])
		}
	}
}

// noteDefine records aliases (x := s.conf / x := &s.conf), fresh objects
// (x := &T{…}) and local function literals.
func (c *fctx) noteDefine(id *ast.Ident, rhs ast.Expr) {
	obj := c.objOf(id)
	if obj == nil || id.Name == "_" {
		return
	}
	rhs = ast.Unparen(rhs)
	if srcs := c.ctaSources(rhs); len(srcs) > 0 {
		c.taint[obj] = srcs
	} else {
		delete(c.taint, obj)
	}
	if isBoltType(obj.Type(), "DB") {
		if o := c.boltOwner(rhs); o != "" {
			c.dbOwner[obj] = o
		}
	}
	if fl, ok := rhs.(*ast.FuncLit); ok {
		if c.multi[obj] <= 1 {
			c.lits[obj] = fl
		}

		return
	}
	if isFreshExpr(rhs) {
		c.fresh[obj] = true

		return
	}
	if c.multi[obj] > 1 {
		return
	}
	if _, isPtr := types.Unalias(obj.Type()).(*types.Pointer); !isPtr {
		return
	}
	if pr := c.resolve(rhs); pr != nil && pr.obj != nil && len(pr.segs) > 0 {
		c.aliases[obj] = pr
	}
}

func isFreshExpr(e ast.Expr) bool {
	switch e := ast.Unparen(e).(type) {
	case *ast.UnaryExpr:
		if e.Op == token.AND {
			_, ok := ast.Unparen(e.X).(*ast.CompositeLit)

			return ok
		}
	case *ast.CompositeLit:
		return true
	case *ast.CallExpr:
		if id, ok := e.Fun.(*ast.Ident); ok && id.Name == "new" {
			return true
		}
	}

	return false
}

func (c *fctx) goStmt(s *ast.GoStmt) {
	for _, arg := range s.Call.Args {
		c.expr(arg)
	}
	if fl, ok := ast.Unparen(s.Call.Fun).(*ast.FuncLit); ok {
		c.runLit(fl, nil, nil, false)

		return
	}
	c.exprFun(s.Call.Fun)
	c.callTargets(s.Call, true, nil, false)
}

// deferredLocks is the lock set a deferred call runs with: what the caller
// holds for us plus the locks whose deferred unlock was registered EARLIER
// (deferred calls run in reverse order).
func (c *fctx) deferredLocks() []heldLock {
	var res []heldLock
	for _, l := range c.must {
		if l.outer || l.deferred {
			res = append(res, l)
		}
	}

	return res
}

func (c *fctx) deferStmt(s *ast.DeferStmt) {
	call := s.Call
	if m := c.lockMethod(call); m != "" {
		if m != "Unlock" && m != "RUnlock" {
			c.a.errorf(s.Pos(), "%s: deferred %s is not supported", c.name, m)

			return
		}
		lk := c.lockRef(call)
		if lk == nil {
			return
		}
		for i := len(c.must) - 1; i >= 0; i-- {
			if sameLock(c.must[i], *lk) && !c.must[i].deferred && !c.must[i].outer {
				c.must[i].deferred = true

				return
			}
		}
		if !c.top {
			c.a.errorf(s.Pos(), "%s: deferred unlock of %s, which is not held here", c.name, c.a.classByID(lk.class))
		}

		return
	}
	c.inDefer = true
	defer func() { c.inDefer = false }()
	for _, arg := range call.Args {
		c.expr(arg)
	}
	dl := c.deferredLocks()
	if fl, ok := ast.Unparen(call.Fun).(*ast.FuncLit); ok {
		c.runLit(fl, dl, c.may, c.top)

		return
	}
	c.exprFun(call.Fun)
	saved := c.snap()
	c.must = dl
	c.callTargets(call, false, nil, c.top)
	c.restore(saved)
}

// runLit analyses a function literal as its own function context, entered
// with the given locks held by the enclosing function.
func (c *fctx) runLit(fl *ast.FuncLit, outer []heldLock, may map[int]bool, top bool) {
	c.nlit++
	sub := c.a.newCtx(c.fi, fmt.Sprintf("%s$%d", c.name, c.nlit), c.pkg)
	sub.top = top
	sub.inDefer = c.inDefer
	sub.depth = c.depth + 1
	sub.detached = c.detached || (outer == nil && may == nil)
	// a body that runs later or in another goroutine is not start-up code
	sub.initFn = c.initFn && !sub.detached
	sub.initLit = c.initLit
	for _, l := range outer {
		l.outer = true
		l.deferred = false
		sub.must = append(sub.must, l)
	}
	for k := range may {
		sub.may[k] = true
	}
	for k, v := range c.aliases {
		sub.aliases[k] = v
	}
	for k, v := range c.fresh {
		sub.fresh[k] = v
	}
	for k, v := range c.lits {
		sub.lits[k] = v
	}
	for k, v := range c.dbOwner {
		sub.dbOwner[k] = v
	}
	for k, v := range c.published {
		sub.published[k] = v
	}
	for k, v := range c.txClass {
		sub.txClass[k] = v
	}
	sub.prescan(fl.Body)
	for k, v := range c.multi {
		sub.multi[k] += v
	}
	if !sub.block(fl.Body.List) {
		sub.checkLeak(fl.Body.Rbrace)
	}
	c.nlit = sub.nlit
	if !sub.detached {
		for k, v := range sub.published {
			c.published[k] = v
		}
	}
	// lock classes the literal may acquire count as acquired by the encloser
	// only when it runs synchronously; the caller of runLit decides by passing
	// its own may set.
}

// ---------------------------------------------------------------- locks

func (c *fctx) lockMethod(call *ast.CallExpr) string {
	sel, ok := call.Fun.(*ast.SelectorExpr)
	if !ok {
		return ""
	}
	s := c.info.Selections[sel]
	if s == nil || s.Kind() != types.MethodVal {
		return ""
	}
	f, ok := s.Obj().(*types.Func)
	if !ok || f.Pkg() == nil || f.Pkg().Path() != "sync" {
		return ""
	}
	recv := f.Type().(*types.Signature).Recv()
	if recv == nil {
		return ""
	}
	if ok, _ := isMutexType(recv.Type()); !ok {
		return ""
	}
	switch f.Name() {
	case "Lock", "Unlock", "RLock", "RUnlock", "TryLock", "TryRLock":
		return f.Name()
	}

	return ""
}

// lockRef resolves the lock a sync method is called on.
func (c *fctx) lockRef(call *ast.CallExpr) *heldLock {
	sel := call.Fun.(*ast.SelectorExpr)
	pr := c.resolve(sel.X)
	if pr == nil {
		c.a.errorf(call.Pos(), "%s: cannot resolve the lock expression", c.name)

		return nil
	}
	// embedded mutex: the implicit field path of the method selection
	s := c.info.Selections[sel]
	if idx := s.Index(); len(idx) > 1 {
		pr = c.extend(pr, s.Recv(), idx[:len(idx)-1])
	}
	var rw bool
	var cname string
	if len(pr.segs) == 0 {
		if pr.obj == nil {
			c.a.errorf(call.Pos(), "%s: cannot resolve the lock expression", c.name)

			return nil
		}
		_, rw = isMutexType(pr.obj.Type())
		if pr.obj.Parent() != nil && pr.obj.Pkg() != nil && pr.obj.Parent() == pr.obj.Pkg().Scope() {
			cname = "var:" + shortPkg(pr.obj.Pkg().Path()) + "." + pr.obj.Name()
		} else {
			cname = "var:" + c.fi.name + "." + pr.obj.Name()
		}
	} else {
		last := pr.segs[len(pr.segs)-1]
		_, rw = isMutexType(last.typ)
		cname = last.owner + "." + last.name
		if last.owner == "" {
			cname = "anon:" + c.fi.name + "." + last.name
		}
	}
	cl := c.a.class(cname, rw)
	root, base, path := c.a.rootOf(pr)

	return &heldLock{class: cl.id, root: root, path: path, base: base, excl: true}
}

func (c *fctx) lockOp(call *ast.CallExpr, try bool) {
	m := c.lockMethod(call)
	lk := c.lockRef(call)
	if lk == nil {
		return
	}
	switch m {
	case "Lock", "RLock", "TryLock", "TryRLock":
		lk.excl = m == "Lock" || m == "TryLock"
		if !try && (m == "TryLock" || m == "TryRLock") {
			c.a.errorf(call.Pos(), "%s: unsupported %s shape", c.name, m)

			return
		}
		if !try {
			c.ctaAct(lk.class, nil, call.Pos())
			c.markNonLeaf()
			for h := range c.may {
				c.a.edgeInst(h, lk.class, c.declName(), c.declName(), c.a.pos(call.Pos()))
			}
			if !c.detached {
				c.a.noteDirect(c.fi.obj, lk.class)
			}
		}
		c.a.seq++
		lk.seq = c.a.seq
		c.must = append(c.must, *lk)
		c.may[lk.class] = true
	case "Unlock", "RUnlock":
		for i := len(c.must) - 1; i >= 0; i-- {
			if sameLock(c.must[i], *lk) && !c.must[i].deferred {
				if c.must[i].outer {
					c.a.errorf(call.Pos(), "%s: releases %s, which is held by its caller", c.name, c.a.classByID(lk.class))
				}
				c.must = append(c.must[:i:i], c.must[i+1:]...)
				still := false
				for _, l := range c.must {
					if l.class == lk.class {
						still = true
					}
				}
				if !still {
					delete(c.may, lk.class)
				}

				return
			}
		}
		if !c.top {
			c.a.errorf(call.Pos(), "%s: unlock of %s, which is not held on every path here", c.name, c.a.classByID(lk.class))
		}
	}
}

func (a *analysis) edge(from, to int, pos string) {
	k := [2]int{from, to}
	if a.edgePos[k] == nil {
		a.edgePos[k] = map[string]bool{}
	}
	a.edgePos[k][pos] = true
}

// edgeInst records one instance of a lock-order edge: the function that holds
// `from` at that point and the function that acquires `to`.
func (a *analysis) edgeInst(from, to int, holder, acquirer, pos string) {
	a.edge(from, to, pos)
	k := [2]int{from, to}
	if a.edgeInsts[k] == nil {
		a.edgeInsts[k] = map[[2]string]string{}
	}
	ik := [2]string{holder, acquirer}
	if _, ok := a.edgeInsts[k][ik]; !ok {
		a.edgeInsts[k][ik] = pos
	}
}

func (c *fctx) declName() string {
	if c.fi != nil {
		return c.fi.name
	}

	return c.name
}

func (a *analysis) noteDirect(f *types.Func, class int) {
	if a.direct[f] == nil {
		a.direct[f] = map[int]bool{}
	}
	a.direct[f][class] = true
}

// ---------------------------------------------------------------- paths

// extend appends the fields selected by the index path idx starting at type t.
func (c *fctx) extend(pr *pathRef, t types.Type, idx []int) *pathRef {
	res := &pathRef{obj: pr.obj, segs: append([]seg(nil), pr.segs...), side: pr.side, aliasLen: pr.aliasLen}
	cur := t
	for _, i := range idx {
		st, ok := deref(cur).Underlying().(*types.Struct)
		if !ok {
			return res
		}
		f := st.Field(i)
		res.segs = append(res.segs, seg{name: f.Name(), owner: shortNamed(namedOf(cur)), typ: f.Type()})
		cur = f.Type()
	}

	return res
}

// resolve turns an expression into (variable, field path); nil if the
// expression is not a field path.  Indexing, dereferencing, address-of and
// slicing are transparent: an element belongs to its field.
func (c *fctx) resolve(e ast.Expr) *pathRef {
	switch e := ast.Unparen(e).(type) {
	case *ast.Ident:
		obj := c.objOf(e)
		if _, ok := obj.(*types.Var); !ok {
			return nil
		}
		if al := c.aliases[obj]; al != nil {
			return &pathRef{obj: al.obj, segs: append([]seg(nil), al.segs...), aliasLen: len(al.segs)}
		}

		return &pathRef{obj: obj}
	case *ast.StarExpr:
		return c.resolve(e.X)
	case *ast.UnaryExpr:
		if e.Op == token.AND {
			return c.resolve(e.X)
		}
	case *ast.IndexExpr:
		pr := c.resolve(e.X)
		if pr != nil {
			pr.side = append(pr.side, e.Index)
		}

		return pr
	case *ast.SliceExpr:
		pr := c.resolve(e.X)
		if pr != nil {
			for _, x := range []ast.Expr{e.Low, e.High, e.Max} {
				if x != nil {
					pr.side = append(pr.side, x)
				}
			}
		}

		return pr
	case *ast.SelectorExpr:
		if id, ok := e.X.(*ast.Ident); ok {
			if _, isPkg := c.info.Uses[id].(*types.PkgName); isPkg {
				if v, ok := c.info.Uses[e.Sel].(*types.Var); ok {
					return &pathRef{obj: v}
				}

				return nil
			}
		}
		s := c.info.Selections[e]
		if s == nil || s.Kind() != types.FieldVal {
			return nil
		}
		pr := c.resolve(e.X)
		if pr == nil {
			// a field of a non-path value (call result, …): no shared root
			return nil
		}

		return c.extend(pr, s.Recv(), s.Index())
	}

	return nil
}

// rootOf finds the outermost prefix of the path whose struct type is a root
// (a struct with a mutex or a configured one).
func (a *analysis) rootOf(pr *pathRef) (root, base, path string) {
	names := make([]string, len(pr.segs))
	for i, s := range pr.segs {
		names[i] = s.name
	}
	for k, s := range pr.segs {
		if a.isRoot(s.owner) {
			return s.owner, baseKey(pr.obj, names[:k]), strings.Join(names[k:], ".")
		}
	}

	return "", baseKey(pr.obj, nil), strings.Join(names, ".")
}

// classify finds the guard or exemption of a path by longest prefix.  A key
// "p.*" classifies everything strictly below p (the contents reached through
// the pointer field p), a key "p" the field itself and, if there is no "p.*"
// key, also what is below it.
func (a *analysis) classify(root, path string) (prefix, guard, exempt string, ok bool) {
	rc := a.rootCfg[root]
	if rc == nil {
		return "", "", "", false
	}
	segs := strings.Split(path, ".")
	for n := len(segs); n > 0; n-- {
		p := strings.Join(segs[:n], ".")
		if n < len(segs) {
			if g, found := rc.Guards[p+".*"]; found {
				return p + ".*", g, "", true
			}
			if r, found := rc.Exempt[p+".*"]; found {
				return p + ".*", "", r, true
			}
		}
		if g, found := rc.Guards[p]; found {
			return p, g, "", true
		}
		if r, found := rc.Exempt[p]; found {
			return p, "", r, true
		}
	}

	return "", "", "", false
}

// record notes an access to the path.  An access to a whole struct value (a
// struct-typed path, or a dereferenced pointer to a struct) is also an access
// to every separately classified field below it.
func (c *fctx) record(e ast.Expr, pr *pathRef, write bool) {
	c.recordW(e, pr, write, false)
}

func (c *fctx) recordW(e ast.Expr, pr *pathRef, write, derefd bool) {
	if pr == nil || len(pr.segs) == 0 || c.a.collecting {
		return
	}
	if pr.aliasLen > 0 && len(pr.segs) == pr.aliasLen && !derefd {
		// the local copy of the pointer itself
		return
	}
	root, base, path := c.a.rootOf(pr)
	if root == "" {
		return
	}
	if c.a.rootCfg[root] == nil {
		c.a.uncovered[root]++

		return
	}
	// the lock fields themselves
	if ok, _ := isMutexType(pr.segs[len(pr.segs)-1].typ); ok {
		return
	}
	// reaching a field through pointer-typed fields loads those pointers
	if !c.inPrefix {
		k0 := len(pr.segs) - len(strings.Split(path, "."))
		for k := max(k0, pr.aliasLen); k < len(pr.segs)-1; k++ {
			if _, isPtr := types.Unalias(pr.segs[k].typ).(*types.Pointer); isPtr {
				sub := &pathRef{obj: pr.obj, segs: pr.segs[:k+1]}
				c.inPrefix = true
				c.recordW(e, sub, false, false)
				c.inPrefix = false
			}
		}
	}
	prefix, guard, exempt, ok := c.a.classify(root, path)
	if !ok {
		c.a.unclassified[root+":"+strings.Split(path, ".")[0]+"   (e.g. "+path+" at "+c.a.pos(e.Pos())+")"] = true

		return
	}
	acc := &access{
		fn: c.name, root: root, path: path, field: root + ":" + prefix, guard: guard, exempt: exempt,
		write: write, top: c.top, init: c.initFn || c.initLit, pos: c.a.pos(e.Pos()),
	}
	if pr.obj != nil && c.fresh[pr.obj] {
		acc.fresh = true
	}
	for _, l := range c.must {
		if l.base == base && l.root == root {
			acc.held = append(acc.held, l)
		}
	}
	c.a.accs = append(c.a.accs, acc)
	// whole-value access
	lastT := types.Unalias(pr.segs[len(pr.segs)-1].typ)
	_, isPtr := lastT.(*types.Pointer)
	_, isStruct := deref(lastT).Underlying().(*types.Struct)
	if !isStruct || (isPtr && !derefd) {
		return
	}
	rc := c.a.rootCfg[root]
	var subs []string
	for p := range rc.Guards {
		if strings.HasPrefix(p, path+".") && p != prefix {
			subs = append(subs, p)
		}
	}
	for p, why := range rc.Exempt {
		if strings.HasPrefix(p, path+".") && write && strings.HasPrefix(why, "immutable") {
			subs = append(subs, p)
		}
	}
	sort.Strings(subs)
	for _, p := range subs {
		sub := *acc
		sub.path = p
		sub.field = root + ":" + p
		sub.guard, sub.exempt = rc.Guards[p], rc.Exempt[p]
		c.a.accs = append(c.a.accs, &sub)
	}
}

// ---------------------------------------------------------------- expressions

// lhs handles an assignment target.
func (c *fctx) lhs(e ast.Expr) {
	e = ast.Unparen(e)
	if id, ok := e.(*ast.Ident); ok {
		_ = id

		return
	}
	c.writeThroughPublished(e)
	pr := c.resolve(e)
	if pr == nil {
		c.expr(e)

		return
	}
	for _, x := range pr.side {
		c.expr(x)
	}
	_, isStar := e.(*ast.StarExpr)
	c.recordW(e, pr, true, isStar)
}

// exprFun walks the callee expression of a call.
func (c *fctx) exprFun(fun ast.Expr) {
	fun = ast.Unparen(fun)
	switch f := fun.(type) {
	case *ast.SelectorExpr:
		s := c.info.Selections[f]
		if s != nil && s.Kind() == types.MethodVal {
			// method call: the receiver expression is used
			pr := c.resolve(f.X)
			if pr != nil {
				if idx := s.Index(); len(idx) > 1 {
					pr = c.extend(pr, s.Recv(), idx[:len(idx)-1])
				}
				for _, x := range pr.side {
					c.expr(x)
				}
				write := false
				if fn, ok := s.Obj().(*types.Func); ok && c.a.isMutator(funcName(fn)) {
					write = true
				}
				c.record(f.X, pr, write)
			} else {
				c.expr(f.X)
			}

			return
		}
		if s == nil {
			// qualified identifier pkg.Func
			return
		}
		c.expr(f)
	case *ast.Ident, *ast.FuncLit:
		// handled by the call logic
		if id, ok := f.(*ast.Ident); ok {
			_ = id
		}
	default:
		c.expr(fun)
	}
}

func (a *analysis) isMutator(name string) bool {
	for _, m := range a.cfg.Mutators {
		if m == name {
			return true
		}
	}

	return false
}

func (c *fctx) expr(e ast.Expr) {
	switch e := e.(type) {
	case nil:
	case *ast.BadExpr, *ast.BasicLit, *ast.ArrayType, *ast.StructType, *ast.FuncType, *ast.InterfaceType, *ast.MapType, *ast.ChanType:
	case *ast.Ident:
		// a declared function used as a value
		if f, ok := c.info.Uses[e].(*types.Func); ok {
			c.a.markEscape(f)
		}
	case *ast.ParenExpr:
		c.expr(e.X)
	case *ast.FuncLit:
		// a function value that is not called here: it runs later, with no
		// lock of ours held (unless bound to a local name, see callTargets).
		c.runLit(e, nil, nil, false)
	case *ast.CompositeLit:
		for _, el := range e.Elts {
			if kv, ok := el.(*ast.KeyValueExpr); ok {
				if _, isID := kv.Key.(*ast.Ident); !isID {
					c.expr(kv.Key)
				}
				c.expr(kv.Value)
			} else {
				c.expr(el)
			}
		}
	case *ast.KeyValueExpr:
		c.expr(e.Key)
		c.expr(e.Value)
	case *ast.SelectorExpr:
		s := c.info.Selections[e]
		if s != nil && s.Kind() == types.MethodVal {
			// method value
			if f, ok := s.Obj().(*types.Func); ok {
				c.a.markEscape(f)
			}
			c.expr(e.X)

			return
		}
		if s == nil {
			// qualified identifier
			if f, ok := c.info.Uses[e.Sel].(*types.Func); ok {
				c.a.markEscape(f)
			}

			return
		}
		pr := c.resolve(e)
		if pr == nil {
			c.expr(e.X)

			return
		}
		for _, x := range pr.side {
			c.expr(x)
		}
		c.record(e, pr, false)
	case *ast.IndexExpr:
		pr := c.resolve(e)
		if pr == nil {
			c.expr(e.X)
			c.expr(e.Index)

			return
		}
		for _, x := range pr.side {
			c.expr(x)
		}
		c.record(e, pr, false)
	case *ast.IndexListExpr:
		c.expr(e.X)
	case *ast.SliceExpr:
		pr := c.resolve(e)
		if pr == nil {
			c.expr(e.X)
			c.expr(e.Low)
			c.expr(e.High)
			c.expr(e.Max)

			return
		}
		for _, x := range pr.side {
			c.expr(x)
		}
		c.record(e, pr, false)
	case *ast.StarExpr:
		if pr := c.resolve(e.X); pr != nil && len(pr.segs) > 0 {
			for _, x := range pr.side {
				c.expr(x)
			}
			c.recordW(e, pr, false, true)

			return
		}
		c.expr(e.X)
	case *ast.UnaryExpr:
		if e.Op == token.ARROW {
			c.expr(e.X)
			c.chanOp(e.X, "recv", e.Pos())

			return
		}
		if e.Op == token.AND {
			if pr := c.resolve(e.X); pr != nil && len(pr.segs) > 0 {
				for _, x := range pr.side {
					c.expr(x)
				}
				// address taken: no memory of the field is touched here; what
				// is done through the pointer is outside the analysis (counted).
				c.a.addrTaken[c.a.pos(e.Pos())] = true

				return
			}
		}
		c.expr(e.X)
	case *ast.BinaryExpr:
		c.expr(e.X)
		c.expr(e.Y)
	case *ast.TypeAssertExpr:
		c.expr(e.X)
	case *ast.CallExpr:
		c.call(e)
	case *ast.Ellipsis:
		c.expr(e.Elt)
	default:
		c.a.errorf(e.Pos(), "%s: unsupported expression %T", c.name, e)
	}
}

func (a *analysis) markEscape(f *types.Func) {
	if fi := a.funcs[f.Origin()]; fi != nil {
		fi.escapes = true
	}
}

func (c *fctx) call(call *ast.CallExpr) {
	if m := c.lockMethod(call); m != "" {
		c.lockOp(call, false)

		return
	}
	// conversions
	if tv, ok := c.info.Types[call.Fun]; ok && tv.IsType() {
		for _, arg := range call.Args {
			c.expr(arg)
		}

		return
	}
	// builtins
	if id, ok := ast.Unparen(call.Fun).(*ast.Ident); ok {
		if b, ok := c.info.Uses[id].(*types.Builtin); ok {
			switch b.Name() {
			case "delete", "clear":
				if len(call.Args) > 0 {
					c.lhs(call.Args[0])
					for _, arg := range call.Args[1:] {
						c.expr(arg)
					}
				}
			case "copy":
				if len(call.Args) == 2 {
					c.lhs(call.Args[0])
					c.expr(call.Args[1])
				}
			default:
				for _, arg := range call.Args {
					c.expr(arg)
				}
			}

			return
		}
	}
	// bbolt transactions are locks, too
	if c.boltCall(call) {
		return
	}
	// accessor helpers: f(mu, &x.field, …)
	if acc := c.accessor(call); acc != nil {
		c.accessorCall(call, acc)

		return
	}
	syncCB := c.isSyncCallback(call)
	var lits []*ast.FuncLit
	for _, arg := range call.Args {
		if fl, ok := ast.Unparen(arg).(*ast.FuncLit); ok {
			if syncCB {
				lits = append(lits, fl)
			} else {
				c.a.noteLitCallee(c, call)
				c.runLit(fl, nil, nil, false)
			}

			continue
		}
		c.expr(arg)
	}
	if fl, ok := ast.Unparen(call.Fun).(*ast.FuncLit); ok {
		// immediately invoked
		c.runLit(fl, c.must, c.may, c.top)

		return
	}
	c.exprFun(call.Fun)
	for _, fl := range lits {
		c.runLit(fl, c.must, c.may, c.top)
	}
	c.callTargets(call, false, lits, c.top)
}

func (c *fctx) accessor(call *ast.CallExpr) *cfgAccessor {
	f := c.staticCallee(call)
	if f == nil {
		return nil
	}
	name := funcName(f)
	for i := range c.a.cfg.Accessors {
		if c.a.cfg.Accessors[i].Func == name {
			return &c.a.cfg.Accessors[i]
		}
	}

	return nil
}

func (c *fctx) accessorCall(call *ast.CallExpr, acc *cfgAccessor) {
	if acc.LockArg >= len(call.Args) || acc.PtrArg >= len(call.Args) {
		c.a.errorf(call.Pos(), "%s: accessor call with too few arguments", c.name)

		return
	}
	for i, arg := range call.Args {
		if i != acc.LockArg && i != acc.PtrArg {
			c.expr(arg)
		}
	}
	lpr := c.resolve(call.Args[acc.LockArg])
	ppr := c.resolve(call.Args[acc.PtrArg])
	if lpr == nil || ppr == nil || len(lpr.segs) == 0 {
		c.a.errorf(call.Pos(), "%s: cannot resolve the arguments of the accessor", c.name)

		return
	}
	last := lpr.segs[len(lpr.segs)-1]
	ok, rw := isMutexType(last.typ)
	if !ok {
		c.a.errorf(call.Pos(), "%s: accessor lock argument is not a mutex", c.name)

		return
	}
	cl := c.a.class(last.owner+"."+last.name, rw)
	root, base, path := c.a.rootOf(lpr)
	c.markNonLeaf()
	for h := range c.may {
		c.a.edgeInst(h, cl.id, c.declName(), c.declName(), c.a.pos(call.Pos()))
	}
	if !c.detached {
		c.a.noteDirect(c.fi.obj, cl.id)
	}
	saved := c.snap()
	c.must = append(c.must, heldLock{class: cl.id, root: root, path: path, base: base, excl: acc.Write})
	c.record(call.Args[acc.PtrArg], ppr, acc.Write)
	c.restore(saved)
}

func (c *fctx) isSyncCallback(call *ast.CallExpr) bool {
	f := c.staticCallee(call)
	if f == nil {
		return false
	}
	if f.Pkg() != nil {
		switch f.Pkg().Path() {
		case "slices", "sort", "strings", "maps", "bytes":
			return true
		}
	}
	name := funcName(f.Origin())
	for _, s := range c.a.cfg.SyncCallbacks {
		if s == name {
			return true
		}
	}

	return false
}

func (c *fctx) staticCallee(call *ast.CallExpr) *types.Func {
	switch f := ast.Unparen(call.Fun).(type) {
	case *ast.Ident:
		fn, _ := c.info.Uses[f].(*types.Func)

		return fn
	case *ast.SelectorExpr:
		if s := c.info.Selections[f]; s != nil {
			if s.Kind() == types.MethodVal {
				fn, _ := s.Obj().(*types.Func)
				if fn != nil {
					if _, isIface := s.Recv().Underlying().(*types.Interface); isIface {
						return nil
					}
				}

				return fn
			}

			return nil
		}
		fn, _ := c.info.Uses[f.Sel].(*types.Func)

		return fn
	case *ast.IndexExpr:
		// generic instantiation f[T](…)
		return c.genericCallee(f.X)
	case *ast.IndexListExpr:
		return c.genericCallee(f.X)
	}

	return nil
}

func (c *fctx) genericCallee(x ast.Expr) *types.Func {
	switch x := ast.Unparen(x).(type) {
	case *ast.Ident:
		fn, _ := c.info.Uses[x].(*types.Func)

		return fn
	case *ast.SelectorExpr:
		fn, _ := c.info.Uses[x.Sel].(*types.Func)

		return fn
	}

	return nil
}

// callTargets records the call sites of a call: static callee, or every
// implementation of an interface method, or configured callback targets.
func (c *fctx) callTargets(call *ast.CallExpr, isGo bool, _ []*ast.FuncLit, top bool) {
	var targets []*types.Func
	fun := ast.Unparen(call.Fun)
	if f := c.staticCallee(call); f != nil {
		targets = append(targets, f.Origin())
	} else if sel, ok := fun.(*ast.SelectorExpr); ok {
		s := c.info.Selections[sel]
		switch {
		case s != nil && s.Kind() == types.MethodVal:
			// interface method: class hierarchy analysis over the loaded packages
			if iface, ok := s.Recv().Underlying().(*types.Interface); ok {
				targets = c.a.implementations(iface, sel.Sel.Name)
			}
		case s != nil && s.Kind() == types.FieldVal:
			// function-valued field
			if fld, ok := s.Obj().(*types.Var); ok {
				key := c.fieldKey(s, fld)
				if names, found := c.a.cfg.Callbacks[key]; found {
					for _, n := range names {
						if t := c.a.byName[n]; t != nil {
							targets = append(targets, t)
						} else {
							c.a.errorf(call.Pos(), "guards.json: callback target %q does not exist", n)
						}
					}
				} else {
					c.dynamicCall(call, "field "+key)
				}
			}
		}
	} else if id, ok := fun.(*ast.Ident); ok {
		if obj := c.objOf(id); obj != nil {
			if fl := c.lits[obj]; fl != nil {
				if isGo {
					c.runLit(fl, nil, nil, false)
				} else {
					c.runLit(fl, c.must, c.may, top)
				}

				return
			}
			if _, isVar := obj.(*types.Var); isVar {
				c.dynamicCall(call, "func value "+id.Name)
			}
		}
	} else {
		if _, isLit := fun.(*ast.FuncLit); !isLit {
			c.dynamicCall(call, "dynamic callee")
		}
	}
	for _, t := range targets {
		if !isGo {
			c.ctaAct(-1, t, call.Pos())
		}
		if c.fi != nil && !isGo {
			if !c.detached {
				if c.a.callG[c.fi.obj] == nil {
					c.a.callG[c.fi.obj] = map[*types.Func]bool{}
				}
				c.a.callG[c.fi.obj][t] = true
			}
			if len(c.may) > 0 {
				may := make([]int, 0, len(c.may))
				for k := range c.may {
					may = append(may, k)
				}
				sort.Ints(may)
				pe := pendingEdge{may: may, callee: t, pos: c.a.pos(call.Pos()), holder: c.declName()}
				for cl, row := range c.boltRows {
					if c.may[cl] {
						pe.rows = append(pe.rows, row)
					}
				}
				c.a.pending = append(c.a.pending, pe)
			}
		}
		if c.a.funcs[t] == nil {
			continue
		}
		site := &callSite{caller: c, callee: t, isGo: isGo, top: top, init: (c.initFn || c.initLit) && !isGo, pos: c.a.pos(call.Pos())}
		if c.fi != nil && c.a.cfg.InitFuncs[c.fi.name] != "" && !isGo && !c.detached {
			site.init = true
		}
		// a method called on an object this function has just created: the
		// object is not shared yet, the call constrains nothing
		if sel, ok := ast.Unparen(call.Fun).(*ast.SelectorExpr); ok {
			if pr := c.resolve(sel.X); pr != nil && pr.obj != nil && len(pr.segs) == 0 && c.fresh[pr.obj] {
				site.init = true
			}
		}
		if !isGo && !top {
			site.held = c.mapToCallee(call, t)
		}
		if !isGo {
			site.mayCls = map[int]bool{}
			for k := range c.may {
				site.mayCls[k] = true
			}
			for _, l := range c.must {
				site.mayCls[l.class] = true
			}
		}
		c.a.sites = append(c.a.sites, site)
	}
}

func (c *fctx) fieldKey(s *types.Selection, fld *types.Var) string {
	// owner struct of the field
	cur := s.Recv()
	idx := s.Index()
	for _, i := range idx[:len(idx)-1] {
		st, ok := deref(cur).Underlying().(*types.Struct)
		if !ok {
			break
		}
		cur = st.Field(i).Type()
	}

	return shortNamed(namedOf(cur)) + "." + fld.Name()
}

func (c *fctx) dynamicCall(call *ast.CallExpr, what string) {
	if c.a.collecting {
		return
	}
	c.a.dynAll[what]++
	if len(c.may) == 0 {
		return
	}
	var held []string
	for k := range c.may {
		held = append(held, c.a.classByID(k))
	}
	sort.Strings(held)
	key := fmt.Sprintf("%s: %s called while holding %s", c.name, what, strings.Join(held, ","))
	if _, ok := c.a.cfg.IgnoreUnresolved[c.name+": "+what]; ok {
		return
	}
	c.a.unresolved[key+" ("+c.a.pos(call.Pos())+")"] = true
}

func (a *analysis) implementations(iface *types.Interface, method string) (res []*types.Func) {
	for _, n := range a.named {
		for _, t := range []types.Type{n, types.NewPointer(n)} {
			if !types.Implements(t, iface) {
				continue
			}
			obj, _, _ := types.LookupFieldOrMethod(t, true, n.Obj().Pkg(), method)
			if f, ok := obj.(*types.Func); ok {
				res = append(res, f.Origin())

				break
			}
		}
	}

	return res
}

// mapToCallee expresses the locks held at a call site in terms of the
// callee's receiver and parameters.
func (c *fctx) mapToCallee(call *ast.CallExpr, callee *types.Func) (res []entryLock) {
	argKey := func(e ast.Expr) string {
		pr := c.resolve(e)
		if pr == nil || pr.obj == nil {
			return ""
		}
		names := make([]string, len(pr.segs))
		for i, s := range pr.segs {
			names[i] = s.name
		}

		return baseKey(pr.obj, names)
	}
	var recvKey string
	if sel, ok := ast.Unparen(call.Fun).(*ast.SelectorExpr); ok {
		if s := c.info.Selections[sel]; s != nil && s.Kind() == types.MethodVal {
			recvKey = argKey(sel.X)
		}
	}
	for _, l := range c.must {
		if recvKey != "" && l.base == recvKey {
			res = append(res, entryLock{class: l.class, root: l.root, path: l.path, param: -1, excl: l.excl})
		}
		for i, arg := range call.Args {
			if k := argKey(arg); k != "" && k == l.base {
				res = append(res, entryLock{class: l.class, root: l.root, path: l.path, param: i, excl: l.excl})
			}
		}
	}

	return res
}

func (a *analysis) noteLitCallee(c *fctx, call *ast.CallExpr) {
	name := "?"
	if f := c.staticCallee(call); f != nil {
		name = funcName(f.Origin())
	} else if sel, ok := ast.Unparen(call.Fun).(*ast.SelectorExpr); ok {
		name = "dynamic ." + sel.Sel.Name
	}
	if a.litCallees == nil {
		a.litCallees = map[string]int{}
	}
	if !a.collecting {
		a.litCallees[name]++
	}
}

// ---------------------------------------------------------------- bbolt

const boltPath = "go.etcd.io/bbolt"

func isBoltType(t types.Type, name string) bool {
	n := namedOf(t)

	return n != nil && n.Obj().Pkg() != nil && n.Obj().Pkg().Path() == boltPath && n.Obj().Name() == name
}

// boltMethod names a method of bbolt.DB / bbolt.Tx called here ("DB.Begin",
// "DB.Update", "DB.Batch", "DB.View", "Tx.Commit", "Tx.Rollback"), or "".
func (c *fctx) boltMethod(call *ast.CallExpr) string {
	sel, ok := ast.Unparen(call.Fun).(*ast.SelectorExpr)
	if !ok {
		return ""
	}
	s := c.info.Selections[sel]
	if s == nil || s.Kind() != types.MethodVal {
		return ""
	}
	f, ok := s.Obj().(*types.Func)
	if !ok || f.Pkg() == nil || f.Pkg().Path() != boltPath {
		return ""
	}
	recv := f.Type().(*types.Signature).Recv()
	if recv == nil {
		return ""
	}
	switch {
	case isBoltType(recv.Type(), "DB"):
		switch f.Name() {
		case "Begin", "Update", "Batch", "View":
			return "DB." + f.Name()
		}
	case isBoltType(recv.Type(), "Tx"):
		switch f.Name() {
		case "Commit", "Rollback":
			return "Tx." + f.Name()
		}
	}

	return ""
}

// boltOwner names the database an expression of type *bbolt.DB denotes: the
// struct field it is stored in (also through atomic.Pointer Load/Swap), or the
// package when that cannot be told.
func (c *fctx) boltOwner(e ast.Expr) string {
	e = ast.Unparen(e)
	if id, ok := e.(*ast.Ident); ok {
		if o := c.dbOwner[c.objOf(id)]; o != "" {
			return o
		}
	}
	if call, ok := e.(*ast.CallExpr); ok {
		if sel, ok := ast.Unparen(call.Fun).(*ast.SelectorExpr); ok {
			if sel.Sel.Name == "Load" || sel.Sel.Name == "Swap" {
				return c.boltOwner(sel.X)
			}
		}

		return ""
	}
	if pr := c.resolve(e); pr != nil && len(pr.segs) > 0 {
		last := pr.segs[len(pr.segs)-1]
		if last.owner != "" {
			return last.owner + "." + last.name
		}
	}

	return ""
}

// boltCall handles the bbolt calls that take or release the database's
// single-writer lock ("bolt.rwlock:<db>") or pin its memory map
// ("bolt.mmaplock:<db>", shared for read-only transactions; a committing
// writer that has to remap takes it exclusively).
//
// A read-write transaction holds bolt.rwlock from Begin(true) to
// Commit/Rollback.  The release (tx.Commit(), tx.Rollback() or a call
// passing the transaction to a helper) is followed as a may-analysis: at a
// join the lock counts as held if any branch still holds it; releases inside
// deferred calls are not followed, the lock then counts as held until the
// function returns (more edges, never fewer).  In the branch `if err != nil`
// right after `tx, err := db.Begin(true)` the lock is not held.
func (c *fctx) boltCall(call *ast.CallExpr) bool {
	m := c.boltMethod(call)
	if m == "" {
		// a helper finishing the transaction: f(tx, …)
		if !c.inDefer {
			for _, arg := range call.Args {
				if id, ok := ast.Unparen(arg).(*ast.Ident); ok {
					if cl, held := c.txClass[c.objOf(id)]; held && isBoltType(c.objOf(id).Type(), "Tx") {
						delete(c.may, cl)
						delete(c.boltRows, cl)
					}
				}
			}
		}

		return false
	}
	sel := ast.Unparen(call.Fun).(*ast.SelectorExpr)
	switch m {
	case "Tx.Commit", "Tx.Rollback":
		if id, ok := ast.Unparen(sel.X).(*ast.Ident); ok && !c.inDefer {
			if cl, held := c.txClass[c.objOf(id)]; held {
				delete(c.may, cl)
				delete(c.boltRows, cl)
			}
		}

		return true
	}
	owner := c.boltOwner(sel.X)
	if owner == "" {
		owner = "pkg " + shortPkg(c.pkg.PkgPath)
	}
	c.expr(sel.X)
	write := true
	switch m {
	case "DB.Begin":
		if len(call.Args) == 1 {
			if tv, ok := c.info.Types[call.Args[0]]; ok && tv.Value != nil && tv.Value.String() == "false" {
				write = false
			}
		}
	case "DB.View":
		write = false
	}
	rw := c.a.class("bolt.rwlock:"+owner, false)
	mm := c.a.class("bolt.mmaplock:"+owner, true)
	acquire := func(cl *lockClass, excl bool) {
		gate := c.a.gateOf(cl.name)
		exempt := false
		if gate != "" {
			row := &acqSite{fn: c.name, class: cl.id, pos: c.a.pos(call.Pos()), top: c.top, init: c.initFn}
			for _, l := range c.must {
				if l.excl {
					row.excl = append(row.excl, l.class)
				} else {
					row.shared = append(row.shared, l.class)
				}
				if c.a.classByID(l.class) == gate && l.excl {
					exempt = true
				}
			}
			if !c.a.collecting {
				c.a.acqSites = append(c.a.acqSites, row)
			}
			c.boltRows[cl.id] = row
		}
		c.markNonLeaf()
		if !exempt {
			for h := range c.may {
				c.a.edgeInst(h, cl.id, c.declName(), c.declName(), c.a.pos(call.Pos()))
			}
			if !c.detached {
				c.a.noteDirect(c.fi.obj, cl.id)
			}
		} else if !c.a.collecting {
			c.a.exemptAcqs[c.a.pos(call.Pos())+" "+cl.name+" in "+c.name] = true
		}
		_ = excl
	}
	if write {
		acquire(rw, true)
	} else {
		acquire(mm, false)
	}
	switch m {
	case "DB.Begin":
		if write {
			c.may[rw.id] = true
			c.beginClass = rw.id
			if c.pendingTx != nil {
				c.txClass[c.pendingTx] = rw.id
			}
			// a commit that has to grow the file remaps: bolt.rwlock -> bolt.mmaplock
			c.a.edgeInst(rw.id, mm.id, c.declName(), c.declName(), c.a.pos(call.Pos())+" (commit remaps)")
		} else {
			c.may[mm.id] = true
			c.beginClass = mm.id
			if c.pendingTx != nil {
				c.txClass[c.pendingTx] = mm.id
			}
		}
		c.pendingTx = nil
	default:
		// Update/Batch/View: the callback runs inside the transaction
		cl := rw
		if !write {
			cl = mm
		} else {
			c.a.edgeInst(rw.id, mm.id, c.declName(), c.declName(), c.a.pos(call.Pos())+" (commit remaps)")
		}
		had := c.may[cl.id]
		c.may[cl.id] = true
		for _, arg := range call.Args {
			if fl, ok := ast.Unparen(arg).(*ast.FuncLit); ok {
				c.runLit(fl, c.must, c.may, c.top)
			} else {
				c.expr(arg)
				c.callTargetsOfValue(arg)
			}
		}
		if !had {
			delete(c.may, cl.id)
		}
	}

	return true
}

// callTargetsOfValue records a call of a declared function passed as a value
// to a callee that runs it synchronously (db.Update(s.fn)).
func (c *fctx) callTargetsOfValue(arg ast.Expr) {
	var f *types.Func
	switch a := ast.Unparen(arg).(type) {
	case *ast.Ident:
		f, _ = c.info.Uses[a].(*types.Func)
	case *ast.SelectorExpr:
		if s := c.info.Selections[a]; s != nil && s.Kind() == types.MethodVal {
			f, _ = s.Obj().(*types.Func)
		} else {
			f, _ = c.info.Uses[a.Sel].(*types.Func)
		}
	}
	if f == nil || c.fi == nil || c.detached {
		return
	}
	if c.a.callG[c.fi.obj] == nil {
		c.a.callG[c.fi.obj] = map[*types.Func]bool{}
	}
	c.a.callG[c.fi.obj][f.Origin()] = true
	if len(c.may) > 0 {
		may := make([]int, 0, len(c.may))
		for k := range c.may {
			may = append(may, k)
		}
		sort.Ints(may)
		c.a.pending = append(c.a.pending, pendingEdge{may: may, callee: f.Origin(), pos: c.a.pos(arg.Pos()), holder: c.declName()})
	}
}

func isErrNotNil(c *fctx, cond ast.Expr, errObj types.Object) bool {
	b, ok := ast.Unparen(cond).(*ast.BinaryExpr)
	if !ok || b.Op != token.NEQ {
		return false
	}
	id, ok := ast.Unparen(b.X).(*ast.Ident)
	if !ok || c.objOf(id) != errObj {
		return false
	}
	n, ok := ast.Unparen(b.Y).(*ast.Ident)

	return ok && n.Name == "nil"
}

// markNonLeaf notes that something is acquired while the pseudo-locks in the
// may set are held.
func (c *fctx) markNonLeaf() {
	for cl, row := range c.boltRows {
		if c.may[cl] {
			row.nonLeaf = true
		}
	}
}

// ---------------------------------------------------------------- channels

// chanObj names the channel an expression denotes: a struct field or a variable.
func (c *fctx) chanObj(e ast.Expr) (obj types.Object, name string) {
	e = ast.Unparen(e)
	switch e := e.(type) {
	case *ast.Ident:
		obj = c.objOf(e)
		if obj == nil {
			return nil, ""
		}

		return obj, "var " + c.declName() + "." + e.Name
	case *ast.SelectorExpr:
		if s := c.info.Selections[e]; s != nil && s.Kind() == types.FieldVal {
			owner := ""
			cur := s.Recv()
			idx := s.Index()
			for _, i := range idx[:len(idx)-1] {
				if st, ok := deref(cur).Underlying().(*types.Struct); ok {
					cur = st.Field(i).Type()
				}
			}
			owner = shortNamed(namedOf(cur))

			return s.Obj(), owner + "." + s.Obj().Name()
		}
	case *ast.CallExpr:
		// a channel returned by a call (ctx.Done(), time.After(…), t.C is a field)
		return nil, "call " + exprString(e.Fun)
	}

	return nil, "expr"
}

func exprString(e ast.Expr) string {
	switch e := ast.Unparen(e).(type) {
	case *ast.Ident:
		return e.Name
	case *ast.SelectorExpr:
		return exprString(e.X) + "." + e.Sel.Name
	case *ast.CallExpr:
		return exprString(e.Fun) + "()"
	}

	return "?"
}

// chanOp records a potentially blocking channel operation.
func (c *fctx) chanOp(ch ast.Expr, op string, p token.Pos) {
	if c.nonBlocking || c.a.collecting {
		return
	}
	obj, name := c.chanObj(ch)
	site := &chanOpSite{fn: c.declName(), detached: c.detached, ch: name, chObj: obj, op: op, pos: c.a.pos(p),
		held: map[int]bool{}, init: c.initFn}
	if c.fi != nil {
		site.fobj = c.fi.obj
	}
	for k := range c.may {
		site.held[k] = true
	}
	for _, l := range c.must {
		site.held[l.class] = true
		if !l.outer && obj != nil {
			for _, sq := range c.drained[obj] {
				if sq == l.seq {
					site.drained = append(site.drained, c.a.classByID(l.class))
				}
			}
		}
	}
	c.a.chanOps = append(c.a.chanOps, site)
}

// drainLoop recognises `for { select { case <-ch: default: break/return } }`
// (possibly labelled) and returns the channel drained.
func (c *fctx) drainLoop(s *ast.ForStmt) types.Object {
	if s.Init != nil || s.Cond != nil || s.Post != nil || len(s.Body.List) != 1 {
		return nil
	}
	st := s.Body.List[0]
	if ls, ok := st.(*ast.LabeledStmt); ok {
		st = ls.Stmt
	}
	sel, ok := st.(*ast.SelectStmt)
	if !ok || len(sel.Body.List) != 2 {
		return nil
	}
	var ch types.Object
	hasDefault := false
	for _, cl := range sel.Body.List {
		cc := cl.(*ast.CommClause)
		if cc.Comm == nil {
			hasDefault = true

			continue
		}
		var rx ast.Expr
		switch cm := cc.Comm.(type) {
		case *ast.ExprStmt:
			rx = cm.X
		case *ast.AssignStmt:
			if len(cm.Rhs) == 1 {
				rx = cm.Rhs[0]
			}
		}
		u, ok := ast.Unparen(rx).(*ast.UnaryExpr)
		if !ok || u.Op != token.ARROW {
			return nil
		}
		ch, _ = c.chanObj(u.X)
	}
	if !hasDefault {
		return nil
	}

	return ch
}

// ---------------------------------------------------------------- check-then-act

type ctaCand struct {
	src  ctaSrc
	pos  string
	call *ast.CallExpr // the call the value came from, if it is in the condition itself
}

func (c *fctx) heldClasses() map[int]bool {
	h := map[int]bool{}
	for k := range c.may {
		h[k] = true
	}
	for _, l := range c.must {
		h[l.class] = true
	}

	return h
}

// ctaSources lists where the value of an expression may come from: calls that
// return a value (they may take a lock themselves), and guarded fields read
// under a hold taken in this function that is not kept to its end.
func (c *fctx) ctaSources(e ast.Expr) (srcs []ctaSrc) {
	if e == nil || c.a.collecting {
		return nil
	}
	ast.Inspect(e, func(n ast.Node) bool {
		switch n := n.(type) {
		case *ast.FuncLit:
			return false
		case *ast.Ident:
			if obj := c.objOf(n); obj != nil && !isErrorType(obj.Type()) {
				srcs = append(srcs, c.taint[obj]...)
			}
		case *ast.CallExpr:
			if c.lockMethod(n) != "" {
				return true
			}
			var targets []*types.Func
			if f := c.staticCallee(n); f != nil {
				targets = append(targets, f.Origin())
			} else if sel, ok := ast.Unparen(n.Fun).(*ast.SelectorExpr); ok {
				if s := c.info.Selections[sel]; s != nil && s.Kind() == types.MethodVal {
					if iface, ok := s.Recv().Underlying().(*types.Interface); ok {
						targets = c.a.implementations(iface, sel.Sel.Name)
					}
				}
			}
			// only values that can describe guarded state: not errors
			if tv, ok := c.info.Types[n]; ok && tv.Type != nil {
				if isErrorType(tv.Type) {
					return true
				}
				if tup, isTuple := tv.Type.(*types.Tuple); isTuple {
					onlyErr := true
					for i := 0; i < tup.Len(); i++ {
						onlyErr = onlyErr && isErrorType(tup.At(i).Type())
					}
					if onlyErr {
						return true
					}
				}
			}
			for _, t := range targets {
				if sig, ok := t.Type().(*types.Signature); ok && sig.Results().Len() > 0 {
					srcs = append(srcs, ctaSrc{callee: t, held: c.heldClasses(), name: funcName(t), pos: c.a.pos(n.Pos())})
				}
			}
		case *ast.SelectorExpr:
			pr := c.resolve(n)
			if pr == nil || len(pr.segs) == 0 {
				return true
			}
			root, base, path := c.a.rootOf(pr)
			if root == "" || c.a.rootCfg[root] == nil {
				return true
			}
			prefix, guard, _, ok := c.a.classify(root, path)
			if !ok || guard == "" {
				return true
			}
			for _, l := range c.must {
				if !l.outer && !l.deferred && l.root == root && l.base == base && l.path == guard {
					srcs = append(srcs, ctaSrc{class: l.class, seq: l.seq, held: c.heldClasses(), name: "read of " + root + ":" + prefix, pos: c.a.pos(n.Pos())})
				}
			}

			return false
		}

		return true
	})

	return srcs
}

func isErrorType(t types.Type) bool {
	return t != nil && types.Identical(t, types.Universe.Lookup("error").Type())
}

// ctaCond notes that the values an `if`/`switch` tests come from the given sources.
func (c *fctx) ctaCond(e ast.Expr) {
	if c.initFn {
		return
	}
	for _, src := range c.ctaSources(e) {
		c.ctaCands = append(c.ctaCands, ctaCand{src: src, pos: c.a.pos(e.Pos())})
	}
}

// ctaAct pairs every earlier condition with an acquisition made now (directly,
// class >= 0, or possibly by a callee); the pairs are resolved when the locks
// the callees take are known.
func (c *fctx) ctaAct(class int, callee *types.Func, p token.Pos) {
	if c.a.collecting || len(c.ctaCands) == 0 {
		return
	}
	pos := c.a.pos(p)
	for _, cand := range c.ctaCands {
		if cand.src.pos == pos {
			continue // the call in the condition itself
		}
		if cand.src.callee == nil {
			// a field read under a hold of this function: only if that hold is over
			still := false
			for _, l := range c.must {
				still = still || l.seq == cand.src.seq
			}
			if still {
				continue
			}
		}
		c.a.ctaPairs = append(c.a.ctaPairs, ctaPair{fn: c.declName(), src: cand.src, condPos: cand.pos, actClass: class, actCallee: callee, actPos: pos})
	}
}

// ---------------------------------------------------------------- write after publish

type pubInfo struct {
	field string
	seq   int
	pos   string
}

// rootVar returns the local variable a written expression goes through
// (v.f = …, *v = …, v.f[i] = …), if the write is to what v points to.
func (c *fctx) rootVar(e ast.Expr) (obj types.Object, deep bool) {
	for {
		switch x := ast.Unparen(e).(type) {
		case *ast.SelectorExpr:
			e, deep = x.X, true
		case *ast.IndexExpr:
			e, deep = x.X, true
		case *ast.StarExpr:
			e, deep = x.X, true
		case *ast.Ident:
			return c.objOf(x), deep
		default:
			return nil, false
		}
	}
}

// notePublish records `x.guarded = v` / `x.guarded = &v` made under the guard.
func (c *fctx) notePublish(lhs, rhs ast.Expr) {
	if c.a.collecting {
		return
	}
	rhs = ast.Unparen(rhs)
	if u, ok := rhs.(*ast.UnaryExpr); ok && u.Op == token.AND {
		rhs = ast.Unparen(u.X)
	}
	id, ok := rhs.(*ast.Ident)
	if !ok {
		return
	}
	obj := c.objOf(id)
	v, isVar := obj.(*types.Var)
	if !isVar || v.IsField() || (v.Parent() != nil && v.Pkg() != nil && v.Parent() == v.Pkg().Scope()) {
		return
	}
	pr := c.resolve(lhs)
	if pr == nil || len(pr.segs) == 0 {
		return
	}
	root, base, path := c.a.rootOf(pr)
	if root == "" || c.a.rootCfg[root] == nil {
		return
	}
	prefix, guard, _, ok := c.a.classify(root, path)
	if !ok || guard == "" {
		return
	}
	for _, l := range c.must {
		if l.root == root && l.base == base && l.path == guard && !l.outer {
			c.published[obj] = pubInfo{field: root + ":" + prefix, seq: l.seq, pos: c.a.pos(lhs.Pos())}
		}
	}
}

// writeThroughPublished notes a write through a published variable made after
// the hold under which it was published has ended.
func (c *fctx) writeThroughPublished(e ast.Expr) {
	if c.a.collecting || len(c.published) == 0 {
		return
	}
	obj, deep := c.rootVar(e)
	if obj == nil || !deep {
		return
	}
	pi, ok := c.published[obj]
	if !ok {
		return
	}
	for _, l := range c.must {
		if l.seq == pi.seq {
			return // still inside the publishing hold
		}
	}
	c.a.pubRows = append(c.a.pubRows, pubRow{fn: c.declName(), field: pi.field, varName: obj.Name(), pubPos: pi.pos, writePos: c.a.pos(e.Pos())})
}
