// Command c05 is the fact extractor of property C05 (translator tie, DESIGN §2
// C05): from the typed syntax of the AdGuard Home packages it regenerates
//
//	lean/AGH/Gen/C05Locks.lean   guards, access rows with the locks held,
//	                             lock-order edges and a rank certificate
//	build/C05/facts.json         the same facts with names and positions
//
// It exits non-zero with a file:line message on any locking construct it does
// not understand: a broken tie, never a silent default.
package main

import (
	"encoding/json"
	"fmt"
	"os"
	"path/filepath"
	"sort"
	"strings"

	"verif/extract/internal/load"
)

const modPrefix = "github.com/AdguardTeam/AdGuardHome/internal/"

func verifDir() string {
	if v := os.Getenv("VERIF_DIR"); v != "" {
		return v
	}
	wd, _ := os.Getwd()
	for d := wd; d != "/"; d = filepath.Dir(d) {
		if _, err := os.Stat(filepath.Join(d, "properties.jsonl")); err == nil {
			return d
		}
	}

	return "/verif"
}

func die(format string, args ...any) {
	fmt.Fprintf(os.Stderr, "c05 extract: "+format+"\n", args...)
	os.Exit(1)
}

func main() {
	vd := verifDir()
	report := len(os.Args) > 1 && os.Args[1] == "-report"

	var cfg config
	// C05_GUARDS: an alternative reviewed configuration (used to try a
	// configuration change together with a repair of the repository).
	guardsPath := filepath.Join(vd, "extract/cmd/c05/guards.json")
	if g := os.Getenv("C05_GUARDS"); g != "" {
		guardsPath = g
	}
	data, err := os.ReadFile(guardsPath)
	if err != nil {
		die("%v", err)
	}
	if err = json.Unmarshal(data, &cfg); err != nil {
		die("guards.json: %v", err)
	}

	genPath := filepath.Join(vd, "lean/AGH/Gen/C05Locks.lean")
	factsPath := filepath.Join(vd, "build/C05/facts.json")
	if !report {
		_ = os.Remove(genPath)
		_ = os.Remove(factsPath)
	}

	pkgs := load.Packages(cfg.Packages...)
	a := newAnalysis(&cfg, pkgs)
	a.run()
	res := a.result()

	if report {
		printReport(res)
		if len(os.Args) > 2 {
			a.printPaths(os.Args[2])
		}

		return
	}

	if err = os.MkdirAll(filepath.Dir(factsPath), 0o755); err != nil {
		die("%v", err)
	}
	if err = os.MkdirAll(filepath.Dir(genPath), 0o755); err != nil {
		die("%v", err)
	}
	fj, _ := json.MarshalIndent(res, "", " ")
	if err = os.WriteFile(factsPath, fj, 0o644); err != nil {
		die("%v", err)
	}
	if err = os.WriteFile(genPath, []byte(renderLean(res)), 0o644); err != nil {
		die("%v", err)
	}

	s := res.Summary
	msg := fmt.Sprintf("c05 facts: %d lock classes, %d guarded fields, %d access sites (%d rows, %d undisciplined of which %d known), %d edges (+%d known bad), %d functions",
		s.LockClasses, s.GuardedFields, s.AccessSites, s.AccessRows, s.Undisciplined, s.KnownUndisciplined, s.Edges, s.KnownEdges, s.Functions)
	// name what will make the Lean obligations fail
	var bad []string
	for _, row := range res.Rows {
		if !row.OK && row.Known == "" {
			kind := "read"
			if row.Write {
				kind = "write"
			}
			bad = append(bad, fmt.Sprintf("UNDISCIPLINED %s of %s in %s at %s (held shared %v excl %v)", kind, row.FieldName, row.Func, row.Pos[0], lockNames(res, row.HeldShared), lockNames(res, row.HeldExcl)))
		}
	}
	for _, ar := range res.Acqs {
		if !ar.OK && ar.Known == "" {
			bad = append(bad, fmt.Sprintf("UNGATED acquisition of %s in %s at %s (held shared %v excl %v)", ar.LockName, ar.Func, ar.Pos[0], lockNames(res, ar.HeldShared), lockNames(res, ar.HeldExcl)))
		}
	}
	for _, pr := range res.Pub {
		if !pr.Listed {
			bad = append(bad, fmt.Sprintf("NEW WRITE AFTER PUBLISH in %s: %s is stored into the guarded %s at %s and, after the lock is released, written through at %s (readers under the lock see a half-initialised object; unsynchronised write)", pr.Func, pr.Var, pr.Field, pr.PublishedAt, pr.WrittenAt))
		}
	}
	for _, er := range res.Esc {
		if !er.Listed {
			bad = append(bad, fmt.Sprintf("NEW GUARDED ESCAPE in %s: the value returned at %s aliases the object kept in the guarded %s and is used by the caller after the lock is released (return a clone)", er.Func, er.Pos, er.Field))
		}
	}
	for _, ct := range res.CTA {
		if !ct.Listed {
			bad = append(bad, fmt.Sprintf("NEW CHECK-THEN-ACT in %s: the value of %s, obtained under %s, is tested at %s and %s is taken again at %s (two critical sections: the tested fact may no longer hold)", ct.Func, ct.Source, ct.LockName, ct.CondPos, ct.LockName, ct.ActPos))
		}
	}
	for _, co := range res.ChanOps {
		if !co.Justified {
			bad = append(bad, fmt.Sprintf("BLOCKING CHANNEL OP UNDER LOCK: %s on %s in %s at %s (locks possibly held %v): %s", co.Op, co.Chan, co.Func, co.Pos[0], lockNames(res, co.Held), co.Why))
		}
	}
	for _, e := range res.Edges {
		if res.Locks[e.From].Rank >= res.Locks[e.To].Rank {
			what := fmt.Sprintf("LOCK-ORDER CYCLE edge %s -> %s at %s", res.Locks[e.From].Name, res.Locks[e.To].Name, e.Pos[0])
			for _, in := range e.Unlisted {
				what += fmt.Sprintf(" [NEW chain, not one of the listed findings: %s holds it and %s acquires it, %s]", in.Holder, in.Acquirer, in.Pos)
			}
			bad = append(bad, what)
		}
	}
	if len(bad) > 6 {
		bad = append(bad[:6], fmt.Sprintf("… and %d more (build/C05/facts.json)", len(bad)-6))
	}
	if len(bad) > 0 {
		msg += " ;; " + strings.Join(bad, " ;; ")
	}
	fmt.Println(msg)
}

func lockNames(r *result, ids []int) (names []string) {
	for _, id := range ids {
		names = append(names, r.Locks[id].Name)
	}

	return names
}

// ---------------------------------------------------------------- output model

type lockOut struct {
	ID   int    `json:"id"`
	Name string `json:"name"`
	RW   bool   `json:"rw"`
	Rank int    `json:"rank"`
}

type fieldOut struct {
	ID    int    `json:"id"`
	Name  string `json:"name"`
	Guard int    `json:"guard"`
}

type rowOut struct {
	Site       int      `json:"site"`
	Func       string   `json:"func"`
	Field      int      `json:"field"`
	FieldName  string   `json:"field_name"`
	Write      bool     `json:"write"`
	HeldShared []int    `json:"held_shared"`
	HeldExcl   []int    `json:"held_excl"`
	Known      string   `json:"known,omitempty"`
	OK         bool     `json:"disciplined"`
	Pos        []string `json:"pos"`
	Paths      []string `json:"paths"`
}

type edgeInstOut struct {
	Holder   string `json:"holder"`
	Acquirer string `json:"acquirer"`
	Pos      string `json:"pos"`
}

type edgeOut struct {
	// Instances: (function holding `from`, function acquiring `to`) pairs.
	Instances []edgeInstOut `json:"instances"`
	// Unlisted: instances of an edge with a known finding that the finding
	// does not list (they make the edge an ordinary, rank-checked one).
	Unlisted []edgeInstOut `json:"unlisted_instances,omitempty"`
	From int      `json:"from"`
	To   int      `json:"to"`
	Pos  []string `json:"pos"`
	// Known names the finding this edge belongs to (a reported lock-order
	// defect of the tree); known edges are kept out of the rank certificate.
	Known string `json:"known,omitempty"`
}

type gateOut struct {
	Lock int    `json:"lock"`
	Gate int    `json:"gate"`
	Name string `json:"name"`
}

type acqOut struct {
	Site       int      `json:"site"`
	Func       string   `json:"func"`
	Lock       int      `json:"lock"`
	LockName   string   `json:"lock_name"`
	HeldShared []int    `json:"held_shared"`
	HeldExcl   []int    `json:"held_excl"`
	Known      string   `json:"known,omitempty"`
	// Leaf: nothing is acquired while the lock is held (it is released at
	// once); such a hold cannot be part of a wait-for cycle.
	Leaf bool `json:"leaf"`
	OK   bool `json:"gate_held_or_leaf"`
	Pos        []string `json:"pos"`
}

type chanOpOut struct {
	Site          int      `json:"site"`
	Func          string   `json:"func"`
	Chan          string   `json:"chan"`
	ChanID        int      `json:"chan_id"`
	Op            string   `json:"op"`
	Cap           int      `json:"capacity"` // -1 not a single constant, -2 unknown
	Held          []int    `json:"locks_possibly_held"`
	DrainedUnder  []string `json:"drained_before_under,omitempty"`
	Justification string   `json:"justification,omitempty"`
	Justified     bool     `json:"justified"`
	Why           string   `json:"why_not,omitempty"`
	Pos           []string `json:"pos"`
	drainedAll    bool
}

type pubOut struct {
	Site        int    `json:"site"`
	Func        string `json:"func"`
	Field       string `json:"field"`
	Var         string `json:"var"`
	PublishedAt string `json:"published_at"`
	WrittenAt   string `json:"written_at"`
	Listed      bool   `json:"listed"`
}

type ctaOut struct {
	Site     int    `json:"site"`
	Func     string `json:"func"`
	Lock     int    `json:"lock"`
	LockName string `json:"lock_name"`
	Source   string `json:"source"`
	CondPos  string `json:"condition"`
	ActPos   string `json:"later_acquisition"`
	Listed   bool   `json:"listed"`
}

type exemptOut struct {
	Field  string `json:"field"`
	Reason string `json:"reason"`
	Sites  int    `json:"sites"`
	Writes int    `json:"writes_outside_init"`
}

type summary struct {
	LockClasses        int `json:"lock_classes"`
	GuardedFields      int `json:"guarded_fields"`
	AccessSites        int `json:"access_sites"`
	AccessRows         int `json:"access_rows"`
	Undisciplined      int `json:"undisciplined_rows"`
	KnownUndisciplined int `json:"known_undisciplined_rows"`
	Edges              int `json:"lock_order_edges"`
	KnownEdges         int `json:"known_bad_edges"`
	StaleKnown         int `json:"stale_known_entries"`
	RankCycle          int `json:"edges_violating_rank"`
	Functions          int `json:"functions_analysed"`
	ExemptFields       int `json:"exempt_fields"`
	InitOnlyFuncs      int `json:"init_only_functions"`
	Unresolved         int `json:"unresolved_calls_under_lock"`
	FreshSkipped       int `json:"accesses_on_fresh_objects"`
	InitSkipped        int `json:"accesses_in_init_functions"`
	AddrTaken          int `json:"address_taken_sites_not_followed"`
	PubRows            int `json:"write_after_publish_rows"`
	UnlistedPub        int `json:"unlisted_write_after_publish_rows"`
	EscRows            int `json:"guarded_escape_rows"`
	UnlistedEsc        int `json:"unlisted_guarded_escape_rows"`
	CTARows            int `json:"check_then_act_rows"`
	UnlistedCTA        int `json:"unlisted_check_then_act_rows"`
	ChanOpsUnderLock   int `json:"channel_ops_under_lock"`
	UnjustifiedChanOps int `json:"unjustified_channel_ops_under_lock"`
	GatedAcqRows       int `json:"gated_acquisition_rows"`
	UngatedAcqs        int `json:"acquisitions_without_gate"`
	KnownUngatedAcqs   int `json:"known_acquisitions_without_gate"`
	ExemptAcqs         int `json:"acquisitions_under_exclusive_gate"`
}

type result struct {
	Summary    summary           `json:"summary"`
	Repo       string            `json:"repo"`
	Locks      []lockOut         `json:"locks"`
	Fields     []fieldOut        `json:"fields"`
	Rows       []rowOut          `json:"rows"`
	Edges      []edgeOut         `json:"edges"`
	KnownEdges []edgeOut         `json:"known_edges"`
	Gates      []gateOut         `json:"gates"`
	// CTA: check-then-act rows (a value obtained under a guard lock in a hold
	// that is over is tested, and the same lock is taken again later in the
	// function); each must be in the reviewed baseline of guards.json.
	CTA []ctaOut `json:"check_then_act"`
	// Pub: writes through a local variable to an object after it was stored
	// into a guarded field and the guarding hold ended (write after publish).
	Pub []pubOut `json:"write_after_publish"`
	// Esc: methods that take the guard of a field themselves and return a
	// pointer, slice or map still aliasing the guarded object (see escape.go).
	Esc []escOut `json:"guarded_escape"`
	// ChanOps: potentially blocking channel operations made while a lock is
	// (possibly) held; channels are not part of the lock machine, every such
	// site must be justified in the reviewed table.
	ChanOps []chanOpOut `json:"channel_ops_under_lock"`
	Acqs       []acqOut          `json:"gated_acquisitions"`
	// ExemptAcqs: acquisitions of a gated lock made with the gate held
	// exclusively; they cannot block and contribute no lock-order edge.
	ExemptAcqs []string `json:"acquisitions_under_exclusive_gate"`
	StaleKnown []string          `json:"stale_known_entries"`
	KnownCycle []int             `json:"known_cycle"`
	Exempt     []exemptOut       `json:"exempt"`
	InitFuncs  map[string]string `json:"init_functions"`
	InitOnly   []string          `json:"init_only_functions"`
	Unresolved []string          `json:"unresolved_calls_under_lock"`
	Known      []cfgKnown        `json:"known_findings"`
	EntryHeld  map[string]string `json:"functions_expecting_locks"`
	// LaterCallbacks: callees given a function literal that is analysed as
	// running later, with none of the caller's locks held.
	LaterCallbacks map[string]int `json:"callees_with_deferred_function_literals"`
	// DynamicCalls: calls through function values that are not resolved to a
	// target (their callees' lock acquisitions are not seen).
	DynamicCalls map[string]int `json:"unresolved_dynamic_calls"`
}

func intsLean(xs []int) string {
	ss := make([]string, len(xs))
	for i, x := range xs {
		ss[i] = fmt.Sprint(x)
	}

	return "[" + strings.Join(ss, ", ") + "]"
}

func renderLean(r *result) string {
	var b strings.Builder
	b.WriteString("/-\nGENERATED by /verif/extract/cmd/c05 — never edit by hand; regenerated by `bin/check C05`.\n")
	b.WriteString("Lock classes, guarded fields, access sites with the locks held, lock-order edges and a\nrank certificate, extracted from the typed syntax of the Go packages.\n-/\n")
	b.WriteString("import AGH.Spec.Locks\nnamespace AGH.Gen.C05\nopen AGH.C05\n\n")
	b.WriteString("/-! lock classes\n")
	for _, l := range r.Locks {
		fmt.Fprintf(&b, "  %d  %s  (rank %d)\n", l.ID, l.Name, l.Rank)
	}
	b.WriteString("-/\n\n/-- (lock class, rank) -/\ndef ranks : List (Nat × Nat) := [\n")
	for i, l := range r.Locks {
		sep := ","
		if i == len(r.Locks)-1 {
			sep = ""
		}
		fmt.Fprintf(&b, "  (%d, %d)%s\n", l.ID, l.Rank, sep)
	}
	b.WriteString("]\n\n/-- (guarded field, guarding lock class) -/\ndef guards : List (Nat × Nat) := [\n")
	for i, f := range r.Fields {
		sep := ","
		if i == len(r.Fields)-1 {
			sep = ""
		}
		fmt.Fprintf(&b, "  (%d, %d)%s  -- %s\n", f.ID, f.Guard, sep, f.Name)
	}
	b.WriteString("]\n\n/-- access rows: site, field, write, held shared, held exclusively, known finding -/\ndef accesses : List AccessRow := [\n")
	for i, row := range r.Rows {
		sep := ","
		if i == len(r.Rows)-1 {
			sep = ""
		}
		kn := "false"
		if row.Known != "" {
			kn = "true"
		}
		fmt.Fprintf(&b, "  ⟨%d, %d, %v, %s, %s, %s⟩%s  -- %s %s %s\n", row.Site, row.Field, row.Write,
			intsLean(row.HeldShared), intsLean(row.HeldExcl), kn, sep, row.Func, row.FieldName, row.Pos[0])
	}
	b.WriteString("]\n\n/-- lock-order edges: (held, acquired) -/\ndef edges : List (Nat × Nat) := [\n")
	for i, e := range r.Edges {
		sep := ","
		if i == len(r.Edges)-1 {
			sep = ""
		}
		fmt.Fprintf(&b, "  (%d, %d)%s  -- %s\n", e.From, e.To, sep, e.Pos[0])
	}
	b.WriteString("]\n\n/-- lock-order edges that are reported findings (kept out of `edges`) -/\ndef knownEdges : List (Nat × Nat) := [\n")
	for i, e := range r.KnownEdges {
		sep := ","
		if i == len(r.KnownEdges)-1 {
			sep = ""
		}
		fmt.Fprintf(&b, "  (%d, %d)%s  -- %s %s\n", e.From, e.To, sep, e.Known, e.Pos[0])
	}
	b.WriteString("]\n\n/-- (gated lock, its gate) -/\ndef gates : List (Nat × Nat) := [\n")
	for i, g := range r.Gates {
		sep := ","
		if i == len(r.Gates)-1 {
			sep = ""
		}
		fmt.Fprintf(&b, "  (%d, %d)%s  -- %s\n", g.Lock, g.Gate, sep, g.Name)
	}
	b.WriteString("]\n\n/-- acquisition sites of gated locks: site, lock, held shared, held exclusively, known finding -/\ndef acqs : List AcqRow := [\n")
	for i, a := range r.Acqs {
		sep := ","
		if i == len(r.Acqs)-1 {
			sep = ""
		}
		kn := "false"
		if a.Known != "" {
			kn = "true"
		}
		fmt.Fprintf(&b, "  ⟨%d, %d, %s, %s, %v, %s⟩%s  -- %s %s\n", a.Site, a.Lock, intsLean(a.HeldShared), intsLean(a.HeldExcl), a.Leaf, kn, sep, a.Func, a.Pos[0])
	}
	b.WriteString("]\n\n/-- potentially blocking channel operations under a lock: site, channel, is a send, locks possibly held, justified -/\ndef chanOps : List ChanOpRow := [\n")
	for i, co := range r.ChanOps {
		sep := ","
		if i == len(r.ChanOps)-1 {
			sep = ""
		}
		fmt.Fprintf(&b, "  ⟨%d, %d, %v, %s, %v⟩%s  -- %s %s %s %s %s\n", co.Site, co.ChanID, co.Op == "send", intsLean(co.Held), co.Justified, sep, co.Func, co.Op, co.Chan, co.Justification, co.Pos[0])
	}
	b.WriteString("]\n\n/-- write-after-publish rows: site, guarded field, in the reviewed baseline -/\ndef pubRows : List PubRow := [\n")
	fieldID := map[string]int{}
	for _, f := range r.Fields {
		fieldID[f.Name] = f.ID
	}
	for i, pr := range r.Pub {
		sep := ","
		if i == len(r.Pub)-1 {
			sep = ""
		}
		fmt.Fprintf(&b, "  ⟨%d, %d, %v⟩%s  -- %s: %s stored into %s at %s, written through at %s\n", pr.Site, fieldID[pr.Field], pr.Listed, sep, pr.Func, pr.Var, pr.Field, pr.PublishedAt, pr.WrittenAt)
	}
	b.WriteString("]\n\n/-- check-then-act rows: site, lock, in the reviewed baseline -/\ndef ctaRows : List CtaRow := [\n")
	for i, ct := range r.CTA {
		sep := ","
		if i == len(r.CTA)-1 {
			sep = ""
		}
		fmt.Fprintf(&b, "  ⟨%d, %d, %v⟩%s  -- %s: %s tested at %s, %s taken again at %s\n", ct.Site, ct.Lock, ct.Listed, sep, ct.Func, ct.Source, ct.CondPos, ct.LockName, ct.ActPos)
	}
	b.WriteString("]\n\n/-- guarded-escape rows: site, guarded field, in the reviewed baseline -/\ndef escRows : List EscRow := [\n")
	for i, er := range r.Esc {
		sep := ","
		if i == len(r.Esc)-1 {
			sep = ""
		}
		fmt.Fprintf(&b, "  ⟨%d, %d, %v⟩%s  -- %s returns an alias of %s at %s\n", er.Site, fieldID[er.Field], er.Listed, sep, er.Func, er.Field, er.Pos)
	}
	b.WriteString("]\n\n/-- a cycle of `edges ++ knownEdges` through a known edge (empty if there is none) -/\n")
	fmt.Fprintf(&b, "def knownCycle : List Nat := %s\n", intsLean(r.KnownCycle))
	b.WriteString("\nend AGH.Gen.C05\n")

	return b.String()
}

func printReport(r *result) {
	fmt.Println("== locks")
	for _, l := range r.Locks {
		fmt.Printf("  %d %s rank=%d\n", l.ID, l.Name, l.Rank)
	}
	fmt.Println("== undisciplined rows")
	for _, row := range r.Rows {
		if !row.OK {
			fmt.Printf("  %s %s write=%v shared=%v excl=%v known=%q %s paths=%v\n", row.Func, row.FieldName, row.Write, row.HeldShared, row.HeldExcl, row.Known, strings.Join(row.Pos, " "), row.Paths)
		}
	}
	fmt.Println("== edges")
	for _, e := range r.Edges {
		fmt.Printf("  %s -> %s  %s\n", r.Locks[e.From].Name, r.Locks[e.To].Name, strings.Join(e.Pos, " "))
	}
	fmt.Println("== known bad edges")
	for _, e := range r.KnownEdges {
		fmt.Printf("  %s -> %s  [%s] %s\n", r.Locks[e.From].Name, r.Locks[e.To].Name, e.Known, strings.Join(e.Pos, " "))
		for _, in := range e.Instances {
			fmt.Printf("      instance: holder %s, acquirer %s (%s)\n", in.Holder, in.Acquirer, in.Pos)
		}
	}
	fmt.Println("== stale known entries:", r.StaleKnown)
	fmt.Println("== write-after-publish rows")
	for _, pr := range r.Pub {
		fmt.Printf("  %s | %s | %s | published %s written %s listed=%v\n", pr.Func, pr.Field, pr.Var, pr.PublishedAt, pr.WrittenAt, pr.Listed)
	}
	fmt.Println("== check-then-act rows")
	for _, ct := range r.CTA {
		fmt.Printf("  %s | %s | %s | cond %s act %s listed=%v\n", ct.Func, ct.LockName, ct.Source, ct.CondPos, ct.ActPos, ct.Listed)
	}
	fmt.Println("== channel ops under lock")
	for _, co := range r.ChanOps {
		fmt.Printf("  %s %s %s cap=%d held=%v drained_under=%v justified=%v (%s) %s %s\n", co.Func, co.Op, co.Chan, co.Cap, lockNames(r, co.Held), co.DrainedUnder, co.Justified, co.Justification, co.Why, strings.Join(co.Pos, " "))
	}
	fmt.Println("== gated acquisitions")
	for _, a := range r.Acqs {
		fmt.Printf("  %s %s shared=%v excl=%v leaf=%v ok=%v known=%q %s\n", a.Func, a.LockName, lockNames(r, a.HeldShared), lockNames(r, a.HeldExcl), a.Leaf, a.OK, a.Known, strings.Join(a.Pos, " "))
	}
	fmt.Println("== acquisitions under the exclusively held gate (no edge):", r.ExemptAcqs)
	fmt.Println("== exempt fields")
	for _, e := range r.Exempt {
		fmt.Printf("  %s: %s (sites %d, writes outside init %d)\n", e.Field, e.Reason, e.Sites, e.Writes)
	}
	fmt.Println("== unresolved calls under lock")
	for _, u := range r.Unresolved {
		fmt.Println("  " + u)
	}
	fmt.Println("== functions expecting locks")
	keys := make([]string, 0, len(r.EntryHeld))
	for k := range r.EntryHeld {
		keys = append(keys, k)
	}
	sort.Strings(keys)
	for _, k := range keys {
		fmt.Printf("  %s: %s\n", k, r.EntryHeld[k])
	}
	fmt.Println("== callees whose function-literal arguments are analysed as running later (no locks)")
	for k, v := range r.LaterCallbacks {
		fmt.Printf("  %s  x%d\n", k, v)
	}
	fmt.Println("== unresolved dynamic calls (all)")
	for k, v := range r.DynamicCalls {
		fmt.Printf("  %s x%d\n", k, v)
	}
	fmt.Println("== init-only functions")
	for _, f := range r.InitOnly {
		fmt.Println("  " + f)
	}
	sj, _ := json.Marshal(r.Summary)
	fmt.Println(string(sj))
}
