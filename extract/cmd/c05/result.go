package main

import (
	"fmt"
	"go/ast"
	"go/constant"
	"go/types"
	"sort"
	"strings"

	"verif/extract/internal/load"
)

// lockClassOfPath finds the class name (owner struct + field) of the lock at
// the given path of a root struct.
func (a *analysis) lockClassOfPath(root, path string) (name string, rw, ok bool) {
	var cur types.Type
	for _, n := range a.named {
		if shortNamed(n) == root {
			cur = n
		}
	}
	if cur == nil {
		return "", false, false
	}
	segs := strings.Split(path, ".")
	owner := ""
	var ft types.Type
	for _, s := range segs {
		st, isStruct := deref(cur).Underlying().(*types.Struct)
		if !isStruct {
			return "", false, false
		}
		found := false
		for i := 0; i < st.NumFields(); i++ {
			if st.Field(i).Name() == s {
				owner = shortNamed(namedOf(cur))
				ft = st.Field(i).Type()
				cur = ft
				found = true

				break
			}
		}
		if !found {
			return "", false, false
		}
	}
	isM, rw := isMutexType(ft)
	if !isM {
		return "", false, false
	}

	return owner + "." + segs[len(segs)-1], rw, true
}

// fieldExists checks a configured field path against the struct type.
func (a *analysis) fieldExists(root, path string) bool {
	var cur types.Type
	for _, n := range a.named {
		if shortNamed(n) == root {
			cur = n
		}
	}
	if cur == nil {
		return false
	}
	for _, s := range strings.Split(strings.TrimSuffix(path, ".*"), ".") {
		st, isStruct := deref(cur).Underlying().(*types.Struct)
		if !isStruct {
			return false
		}
		found := false
		for i := 0; i < st.NumFields(); i++ {
			if st.Field(i).Name() == s {
				cur = st.Field(i).Type()
				found = true

				break
			}
		}
		if !found {
			return false
		}
	}

	return true
}

func (a *analysis) result() *result {
	res := &result{Repo: load.Repo(), InitFuncs: a.cfg.InitFuncs, EntryHeld: map[string]string{}, Known: a.cfg.Known}

	// configuration sanity: every configured path exists; every field of a
	// configured root is classified.
	for _, rc := range a.cfg.Roots {
		for p, g := range rc.Guards {
			if !a.fieldExists(rc.Type, p) {
				die("guards.json: %s has no field path %q", rc.Type, p)
			}
			if _, _, ok := a.lockClassOfPath(rc.Type, g); !ok {
				die("guards.json: %s: guard %q of %q is not a mutex", rc.Type, g, p)
			}
		}
		for p := range rc.Exempt {
			if !a.fieldExists(rc.Type, p) {
				die("guards.json: %s has no field path %q", rc.Type, p)
			}
		}
		for _, n := range a.named {
			if shortNamed(n) != rc.Type {
				continue
			}
			st := n.Underlying().(*types.Struct)
			for i := 0; i < st.NumFields(); i++ {
				f := st.Field(i)
				if ok, _ := isMutexType(f.Type()); ok {
					continue
				}
				if _, _, _, ok := a.classify(rc.Type, f.Name()); !ok {
					// a struct field may be classified only below its top level
					sub := false
					for p := range rc.Guards {
						sub = sub || strings.HasPrefix(p, f.Name()+".")
					}
					for p := range rc.Exempt {
						sub = sub || strings.HasPrefix(p, f.Name()+".")
					}
					if !sub {
						die("guards.json: field %s.%s is neither guarded nor exempt (review needed)", rc.Type, f.Name())
					}
				}
			}
		}
	}

	// lock classes, sorted by name
	for _, rc := range a.cfg.Roots {
		for _, g := range rc.Guards {
			name, rw, _ := a.lockClassOfPath(rc.Type, g)
			a.class(name, rw)
		}
	}
	for l, g := range a.cfg.Gates {
		if !strings.HasPrefix(l, "bolt.") {
			die("guards.json: gates are only supported for bbolt pseudo-locks, not %q", l)
		}
		if a.classes[g] == nil {
			die("guards.json: gate %q of %q is not a lock class of the program", g, l)
		}
	}
	names := make([]string, 0, len(a.classes))
	for n := range a.classes {
		names = append(names, n)
	}
	sort.Strings(names)
	remap := map[int]int{}
	for i, n := range names {
		remap[a.classes[n].id] = i
		res.Locks = append(res.Locks, lockOut{ID: i, Name: n, RW: a.classes[n].rw})
	}
	byName := map[string]int{}
	for _, l := range res.Locks {
		byName[l.Name] = l.ID
	}

	// guarded fields
	fieldID := map[string]int{}
	var fnames []string
	guardOfField := map[string]int{}
	for _, rc := range a.cfg.Roots {
		for p, g := range rc.Guards {
			fn := rc.Type + ":" + p
			fnames = append(fnames, fn)
			name, _, _ := a.lockClassOfPath(rc.Type, g)
			guardOfField[fn] = byName[name]
		}
	}
	sort.Strings(fnames)
	for i, fn := range fnames {
		fieldID[fn] = i
		res.Fields = append(res.Fields, fieldOut{ID: i, Name: fn, Guard: guardOfField[fn]})
	}

	// access rows
	type rowKey struct {
		fn, field string
		write     bool
		sh, ex    string
	}
	rows := map[rowKey]*rowOut{}
	exempt := map[string]*exemptOut{}
	var immutableViolations []string
	for _, ac := range a.accs {
		if ac.exempt != "" {
			e := exempt[ac.field]
			if e == nil {
				e = &exemptOut{Field: ac.field, Reason: ac.exempt}
				exempt[ac.field] = e
			}
			e.Sites++
			if ac.write && !ac.init && !ac.fresh {
				e.Writes++
				if strings.HasPrefix(ac.exempt, "immutable") {
					immutableViolations = append(immutableViolations,
						fmt.Sprintf("%s: %s is exempt as %q but written in %s", ac.pos, ac.field, ac.exempt, ac.fn))
				}
			}

			continue
		}
		if ac.fresh {
			res.Summary.FreshSkipped++

			continue
		}
		if ac.init {
			res.Summary.InitSkipped++

			continue
		}
		res.Summary.AccessSites++
		var sh, ex []int
		if !ac.top {
			for _, l := range ac.held {
				id := remap[l.class]
				if l.excl {
					ex = append(ex, id)
				} else {
					sh = append(sh, id)
				}
			}
		} else {
			ex = append(ex, guardOfField[ac.field])
		}
		sh, ex = sortedUniq(sh), sortedUniq(ex)
		k := rowKey{ac.fn, ac.field, ac.write, fmt.Sprint(sh), fmt.Sprint(ex)}
		r := rows[k]
		if r == nil {
			g := guardOfField[ac.field]
			ok := containsInt(ex, g) || (!ac.write && containsInt(sh, g))
			r = &rowOut{Func: ac.fn, Field: fieldID[ac.field], FieldName: ac.field, Write: ac.write, HeldShared: sh, HeldExcl: ex, OK: ok}
			rows[k] = r
		}
		r.Pos = append(r.Pos, ac.pos)
		r.Paths = append(r.Paths, ac.path)
	}
	if len(immutableViolations) > 0 {
		sort.Strings(immutableViolations)
		die("exemptions that do not hold:\n  %s", strings.Join(uniq(immutableViolations), "\n  "))
	}
	for _, r := range rows {
		sort.Strings(r.Pos)
		r.Pos = uniq(r.Pos)
		sort.Strings(r.Paths)
		r.Paths = uniq(r.Paths)
		res.Rows = append(res.Rows, *r)
	}
	sort.Slice(res.Rows, func(i, j int) bool {
		x, y := res.Rows[i], res.Rows[j]
		if x.Func != y.Func {
			return x.Func < y.Func
		}
		if x.FieldName != y.FieldName {
			return x.FieldName < y.FieldName
		}
		if x.Write != y.Write {
			return !x.Write
		}

		return fmt.Sprint(x.HeldShared, x.HeldExcl) < fmt.Sprint(y.HeldShared, y.HeldExcl)
	})
	usedKnown := make([]bool, len(a.cfg.Known))
	for i := range res.Rows {
		r := &res.Rows[i]
		r.Site = i
		if r.OK {
			continue
		}
		res.Summary.Undisciplined++
		for j, kn := range a.cfg.Known {
			if kn.Func == r.Func && kn.Field == r.FieldName {
				r.Known = kn.Finding
				usedKnown[j] = true
			}
		}
		if r.Known != "" {
			res.Summary.KnownUndisciplined++
		}
	}
	for j, kn := range a.cfg.Known {
		if !usedKnown[j] {
			res.StaleKnown = append(res.StaleKnown, fmt.Sprintf("access %s %s (%s)", kn.Func, kn.Field, kn.Finding))
		}
	}
	for _, e := range exempt {
		res.Exempt = append(res.Exempt, *e)
	}
	sort.Slice(res.Exempt, func(i, j int) bool { return res.Exempt[i].Field < res.Exempt[j].Field })

	// lock-order edges: direct ones plus held-at-call × acquired-by-callee*
	acq := a.acquireClosure()
	for _, pe := range a.pending {
		if len(acq[pe.callee]) > 0 {
			for _, row := range pe.rows {
				row.nonLeaf = true
			}
		}
		for to := range acq[pe.callee] {
			for _, from := range pe.may {
				a.edge(from, to, pe.pos+" via "+a.chain(pe.callee, to))
				for _, g := range a.acquirers(pe.callee, to) {
					a.edgeInst(from, to, pe.holder, g, pe.pos+" via "+a.chain(pe.callee, to))
				}
			}
		}
	}
	usedKE := make([]bool, len(a.cfg.KnownEdges))
	for k, ps := range a.edgePos {
		e := edgeOut{From: remap[k[0]], To: remap[k[1]], Pos: keys(ps)}
		if len(e.Pos) > 6 {
			e.Pos = e.Pos[:6]
		}
		for ik, ipos := range a.edgeInsts[k] {
			e.Instances = append(e.Instances, edgeInstOut{Holder: ik[0], Acquirer: ik[1], Pos: ipos})
		}
		sort.Slice(e.Instances, func(i, j int) bool {
			return e.Instances[i].Holder+e.Instances[i].Acquirer < e.Instances[j].Holder+e.Instances[j].Acquirer
		})
		isKnown := false
		for j, ke := range a.cfg.KnownEdges {
			if ke.From == res.Locks[e.From].Name && ke.To == res.Locks[e.To].Name {
				usedKE[j] = true
				// known only if every instance of the edge is a listed one
				all := true
				for _, in := range e.Instances {
					listed := false
					for _, ki := range ke.Instances {
						listed = listed || (ki.Holder == in.Holder && ki.Acquirer == in.Acquirer)
					}
					if !listed {
						all = false
						e.Unlisted = append(e.Unlisted, in)
					}
				}
				if all {
					e.Known = ke.Finding
					isKnown = true
				}
			}
		}
		if isKnown {
			res.KnownEdges = append(res.KnownEdges, e)
		} else {
			res.Edges = append(res.Edges, e)
		}
	}
	for j, ke := range a.cfg.KnownEdges {
		if !usedKE[j] {
			res.StaleKnown = append(res.StaleKnown, fmt.Sprintf("edge %s -> %s (%s)", ke.From, ke.To, ke.Finding))
		}
	}
	sort.Slice(res.KnownEdges, func(i, j int) bool {
		if res.KnownEdges[i].From != res.KnownEdges[j].From {
			return res.KnownEdges[i].From < res.KnownEdges[j].From
		}

		return res.KnownEdges[i].To < res.KnownEdges[j].To
	})
	sort.Slice(res.Edges, func(i, j int) bool {
		if res.Edges[i].From != res.Edges[j].From {
			return res.Edges[i].From < res.Edges[j].From
		}

		return res.Edges[i].To < res.Edges[j].To
	})
	res.KnownCycle = findCycle(len(res.Locks), res.Edges, res.KnownEdges)
	rank := rankCertificate(len(res.Locks), res.Edges)
	for i := range res.Locks {
		res.Locks[i].Rank = rank[i]
	}
	for _, e := range res.Edges {
		if rank[e.From] >= rank[e.To] {
			res.Summary.RankCycle++
		}
	}

	// gates and the acquisition sites of gated locks
	var gl []string
	for l := range a.cfg.Gates {
		gl = append(gl, l)
	}
	sort.Strings(gl)
	for _, l := range gl {
		if _, ok := byName[l]; !ok {
			continue // the program no longer uses this lock
		}
		res.Gates = append(res.Gates, gateOut{Lock: byName[l], Gate: byName[a.cfg.Gates[l]], Name: l + " gated by " + a.cfg.Gates[l]})
	}
	type acqKey struct {
		fn     string
		lock   int
		sh, ex string
	}
	acqRows := map[acqKey]*acqOut{}
	for _, st := range a.acqSites {
		if st.init {
			continue
		}
		sh, ex := []int{}, []int{}
		for _, x := range st.shared {
			sh = append(sh, remap[x])
		}
		for _, x := range st.excl {
			ex = append(ex, remap[x])
		}
		sh, ex = sortedUniq(sh), sortedUniq(ex)
		lock := remap[st.class]
		gate := byName[a.cfg.Gates[res.Locks[lock].Name]]
		if st.top {
			ex = sortedUniq(append(ex, gate))
		}
		k := acqKey{st.fn, lock, fmt.Sprint(sh, !st.nonLeaf), fmt.Sprint(ex)}
		r := acqRows[k]
		if r == nil {
			r = &acqOut{Func: st.fn, Lock: lock, LockName: res.Locks[lock].Name, HeldShared: sh, HeldExcl: ex, Leaf: !st.nonLeaf,
				OK: containsInt(sh, gate) || containsInt(ex, gate) || !st.nonLeaf}
			acqRows[k] = r
		}
		r.Pos = append(r.Pos, st.pos)
	}
	for _, r := range acqRows {
		sort.Strings(r.Pos)
		r.Pos = uniq(r.Pos)
		res.Acqs = append(res.Acqs, *r)
	}
	sort.Slice(res.Acqs, func(i, j int) bool {
		x, y := res.Acqs[i], res.Acqs[j]
		if x.Func != y.Func {
			return x.Func < y.Func
		}

		return fmt.Sprint(x.Lock, x.HeldShared, x.HeldExcl) < fmt.Sprint(y.Lock, y.HeldShared, y.HeldExcl)
	})
	usedKA := make([]bool, len(a.cfg.KnownAcqs))
	for i := range res.Acqs {
		r := &res.Acqs[i]
		r.Site = i
		if r.OK {
			continue
		}
		res.Summary.UngatedAcqs++
		for j, ka := range a.cfg.KnownAcqs {
			if ka.Func == r.Func && ka.Lock == r.LockName {
				r.Known = ka.Finding
				usedKA[j] = true
			}
		}
		if r.Known != "" {
			res.Summary.KnownUngatedAcqs++
		}
	}
	for j, ka := range a.cfg.KnownAcqs {
		if !usedKA[j] {
			res.StaleKnown = append(res.StaleKnown, fmt.Sprintf("acquisition %s %s (%s)", ka.Func, ka.Lock, ka.Finding))
		}
	}
	res.ExemptAcqs = keys(a.exemptAcqs)
	res.Summary.GatedAcqRows = len(res.Acqs)
	res.Summary.ExemptAcqs = len(res.ExemptAcqs)
	res.Summary.StaleKnown = len(res.StaleKnown)

	a.channelOps(res, remap)
	a.checkThenAct(res, remap, acq)
	a.writeAfterPublish(res)
	var staleEsc []string
	res.Esc, res.Summary.UnlistedEsc, staleEsc = a.guardedEscape()
	res.Summary.EscRows = len(res.Esc)
	res.StaleKnown = append(res.StaleKnown, staleEsc...)
	res.Summary.StaleKnown = len(res.StaleKnown)

	for f, es := range a.entry {
		if len(es.locks) == 0 || a.funcs[f] == nil {
			continue
		}
		var ls []string
		for _, l := range es.locks {
			m := "shared"
			if l.excl {
				m = "excl"
			}
			ls = append(ls, fmt.Sprintf("%s(%s)", a.classByID(l.class), m))
		}
		sort.Strings(ls)
		res.EntryHeld[a.funcs[f].name] = strings.Join(uniq(ls), " ")
	}
	for f := range a.initOnly {
		if a.funcs[f] != nil && a.cfg.InitFuncs[a.funcs[f].name] == "" {
			res.InitOnly = append(res.InitOnly, a.funcs[f].name)
		}
	}
	sort.Strings(res.InitOnly)
	res.Unresolved = keys(a.unresolved)
	res.LaterCallbacks = a.litCallees
	res.DynamicCalls = a.dynAll

	res.Summary.LockClasses = len(res.Locks)
	res.Summary.GuardedFields = len(res.Fields)
	res.Summary.AccessRows = len(res.Rows)
	res.Summary.Edges = len(res.Edges)
	res.Summary.KnownEdges = len(res.KnownEdges)
	res.Summary.StaleKnown = len(res.StaleKnown)
	res.Summary.Functions = len(a.order)
	res.Summary.ExemptFields = len(res.Exempt)
	res.Summary.InitOnlyFuncs = len(res.InitOnly) + len(a.cfg.InitFuncs)
	res.Summary.Unresolved = len(res.Unresolved)
	res.Summary.AddrTaken = len(a.addrTaken)

	return res
}

func sortedUniq(xs []int) []int {
	sort.Ints(xs)
	res := []int{}
	for i, x := range xs {
		if i == 0 || xs[i-1] != x {
			res = append(res, x)
		}
	}

	return res
}

func containsInt(xs []int, x int) bool {
	for _, y := range xs {
		if y == x {
			return true
		}
	}

	return false
}

// acquireClosure computes, per function, the lock classes it may acquire
// itself or through the functions it calls synchronously.
func (a *analysis) acquireClosure() map[*types.Func]map[int]bool {
	acq := map[*types.Func]map[int]bool{}
	for f, m := range a.direct {
		acq[f] = map[int]bool{}
		for k := range m {
			acq[f][k] = true
		}
	}
	for changed := true; changed; {
		changed = false
		for f, callees := range a.callG {
			for g := range callees {
				for k := range acq[g] {
					if acq[f] == nil {
						acq[f] = map[int]bool{}
					}
					if !acq[f][k] {
						acq[f][k] = true
						changed = true
					}
				}
			}
		}
	}

	return acq
}

// rankCertificate orders the lock classes topologically along the edges
// (Kahn); classes on a cycle get the ranks left over, so that the Lean check
// fails exactly on the edges that close a cycle.
func rankCertificate(n int, edges []edgeOut) []int {
	indeg := make([]int, n)
	out := make([][]int, n)
	for _, e := range edges {
		if e.From == e.To {
			continue
		}
		out[e.From] = append(out[e.From], e.To)
		indeg[e.To]++
	}
	rank := make([]int, n)
	done := make([]bool, n)
	next := 1
	for {
		progressed := false
		for i := 0; i < n; i++ {
			if !done[i] && indeg[i] == 0 {
				done[i] = true
				rank[i] = next
				next++
				progressed = true
				for _, j := range out[i] {
					indeg[j]--
				}

				break
			}
		}
		if !progressed {
			// a cycle: break it at the class with the fewest unranked
			// predecessors, so that only the closing edges violate the rank
			best := -1
			for i := 0; i < n; i++ {
				if !done[i] && (best < 0 || indeg[i] < indeg[best]) {
					best = i
				}
			}
			if best < 0 {
				break
			}
			done[best] = true
			rank[best] = next
			next++
			for _, j := range out[best] {
				indeg[j]--
			}
		}
	}

	return rank
}

// chain explains why calling f may acquire class: the shortest call chain to
// a function that acquires it directly.
func (a *analysis) chain(f *types.Func, class int) string {
	prev := map[*types.Func]*types.Func{f: nil}
	queue := []*types.Func{f}
	for len(queue) > 0 {
		g := queue[0]
		queue = queue[1:]
		if a.direct[g][class] {
			var names []string
			for h := g; h != nil; h = prev[h] {
				names = append([]string{funcName(h)}, names...)
			}

			return strings.Join(names, " > ")
		}
		var next []*types.Func
		for h := range a.callG[g] {
			if _, seen := prev[h]; !seen {
				prev[h] = g
				next = append(next, h)
			}
		}
		sort.Slice(next, func(i, j int) bool { return funcName(next[i]) < funcName(next[j]) })
		queue = append(queue, next...)
	}

	return funcName(f)
}

// printPaths prints, for review, every write access below a root type with
// the locks held, and the number of reads per path.
func (a *analysis) printPaths(root string) {
	type info struct {
		writes map[string]bool
		reads  int
		unl    int
	}
	m := map[string]*info{}
	for _, ac := range a.accs {
		if ac.root != root {
			continue
		}
		i := m[ac.path]
		if i == nil {
			i = &info{writes: map[string]bool{}}
			m[ac.path] = i
		}
		var hs []string
		for _, l := range ac.held {
			hs = append(hs, a.classByID(l.class))
		}
		tag := ""
		if ac.init {
			tag = " [init]"
		}
		if ac.fresh {
			tag += " [fresh]"
		}
		if ac.top {
			tag += " [top]"
		}
		if ac.write {
			i.writes[fmt.Sprintf("%s %s held=%v%s", ac.fn, ac.pos, hs, tag)] = true
		} else {
			i.reads++
			if len(hs) == 0 && !ac.init && !ac.fresh {
				i.unl++
			}
		}
	}
	var ks []string
	for k := range m {
		ks = append(ks, k)
	}
	sort.Strings(ks)
	fmt.Println("== paths of", root)
	for _, k := range ks {
		fmt.Printf("  %s: reads=%d (unlocked %d)\n", k, m[k].reads, m[k].unl)
		for _, w := range keys(m[k].writes) {
			fmt.Println("      W " + w)
		}
	}
}

// findCycle returns a cycle of the full edge relation through one of the
// known edges ([a] for a self-loop a -> a; [a, b, …, z] for a -> b -> … -> z -> a),
// the witness of the counterexample theorem; nil if there is no known edge.
func findCycle(n int, edges, known []edgeOut) []int {
	out := make([][]int, n)
	for _, e := range append(append([]edgeOut{}, edges...), known...) {
		out[e.From] = append(out[e.From], e.To)
	}
	for _, k := range known {
		if k.From == k.To {
			return []int{k.From}
		}
	}
	for _, k := range known {
		// shortest path k.To ~> k.From
		prev := map[int]int{k.To: -1}
		queue := []int{k.To}
		for len(queue) > 0 {
			x := queue[0]
			queue = queue[1:]
			if x == k.From {
				var path []int
				for y := x; y != -1; y = prev[y] {
					path = append([]int{y}, path...)
				}
				// path = k.To … k.From ; cycle = k.From, k.To, …(without the final k.From)
				return append([]int{k.From}, path[:len(path)-1]...)
			}
			for _, y := range out[x] {
				if _, seen := prev[y]; !seen {
					prev[y] = x
					queue = append(queue, y)
				}
			}
		}
	}

	return nil
}

// acquirers lists the functions reachable from f (f included) that acquire
// class directly.
func (a *analysis) acquirers(f *types.Func, class int) (res []string) {
	seen := map[*types.Func]bool{f: true}
	queue := []*types.Func{f}
	for len(queue) > 0 {
		g := queue[0]
		queue = queue[1:]
		if a.direct[g][class] {
			res = append(res, funcName(g))
		}
		for h := range a.callG[g] {
			if !seen[h] {
				seen[h] = true
				queue = append(queue, h)
			}
		}
	}
	sort.Strings(res)

	return res
}

// chanCaps finds the capacity every channel-typed struct field is made with
// (-1: not a single constant capacity).
func (a *analysis) chanCaps() map[types.Object]int {
	caps := map[types.Object]int{}
	note := func(obj types.Object, mk ast.Expr, info *types.Info) {
		call, ok := ast.Unparen(mk).(*ast.CallExpr)
		if !ok {
			return
		}
		id, ok := call.Fun.(*ast.Ident)
		if !ok || id.Name != "make" || len(call.Args) == 0 {
			return
		}
		if tv, ok := info.Types[call.Args[0]]; !ok || tv.Type == nil {
			return
		} else if _, isChan := types.Unalias(tv.Type).Underlying().(*types.Chan); !isChan {
			return
		}
		n := 0
		if len(call.Args) > 1 {
			n = -1
			if tv, ok := info.Types[call.Args[1]]; ok && tv.Value != nil {
				if v, exact := constant.Int64Val(tv.Value); exact {
					n = int(v)
				}
			}
		}
		if old, seen := caps[obj]; seen && old != n {
			n = -1
		}
		caps[obj] = n
	}
	for _, p := range a.pkgs {
		for _, f := range p.Syntax {
			ast.Inspect(f, func(nd ast.Node) bool {
				switch nd := nd.(type) {
				case *ast.AssignStmt:
					if len(nd.Lhs) == len(nd.Rhs) {
						for i, l := range nd.Lhs {
							if sel, ok := ast.Unparen(l).(*ast.SelectorExpr); ok {
								if s := p.TypesInfo.Selections[sel]; s != nil && s.Kind() == types.FieldVal {
									note(s.Obj(), nd.Rhs[i], p.TypesInfo)
								}
							}
						}
					}
				case *ast.KeyValueExpr:
					if id, ok := nd.Key.(*ast.Ident); ok {
						if obj, ok := p.TypesInfo.Uses[id].(*types.Var); ok && obj.IsField() {
							note(obj, nd.Value, p.TypesInfo)
						}
					}
				}

				return true
			})
		}
	}

	return caps
}

// channelOps lists the potentially blocking channel operations made while a
// lock is held (by the function itself or by some caller) and confronts them
// with the reviewed table of guards.json.
func (a *analysis) channelOps(res *result, remap map[int]int) {
	// lock classes that MAY be held on entry, through some call chain
	mayEntry := map[*types.Func]map[int]bool{}
	for changed := true; changed; {
		changed = false
		for _, s := range a.sites {
			if s.isGo || s.mayCls == nil {
				continue
			}
			add := func(k int) {
				if mayEntry[s.callee] == nil {
					mayEntry[s.callee] = map[int]bool{}
				}
				if !mayEntry[s.callee][k] {
					mayEntry[s.callee][k] = true
					changed = true
				}
			}
			for k := range s.mayCls {
				add(k)
			}
			if !s.caller.detached && s.caller.fi != nil {
				for k := range mayEntry[s.caller.fi.obj] {
					add(k)
				}
			}
		}
	}
	caps := a.chanCaps()
	type key struct{ fn, ch, op string }
	rows := map[key]*chanOpOut{}
	for _, st := range a.chanOps {
		if st.init {
			continue
		}
		held := map[int]bool{}
		for k := range st.held {
			held[k] = true
		}
		if !st.detached && st.fobj != nil {
			for k := range mayEntry[st.fobj] {
				held[k] = true
			}
		}
		if len(held) == 0 {
			continue
		}
		k := key{st.fn, st.ch, st.op}
		r := rows[k]
		if r == nil {
			r = &chanOpOut{Func: st.fn, Chan: st.ch, Op: st.op, Cap: -2}
			if st.chObj != nil {
				if n, ok := caps[st.chObj]; ok {
					r.Cap = n
				}
			}
			r.drainedAll = true
			rows[k] = r
		}
		r.Pos = append(r.Pos, st.pos)
		for h := range held {
			r.Held = append(r.Held, remap[h])
		}
		// the structural fact must hold at EVERY occurrence
		if r.drainedAll {
			if len(r.Pos) == 1 {
				r.DrainedUnder = append([]string(nil), st.drained...)
			} else {
				var keep []string
				for _, d := range r.DrainedUnder {
					for _, e := range st.drained {
						if d == e {
							keep = append(keep, d)
						}
					}
				}
				r.DrainedUnder = keep
			}
		}
	}
	used := make([]bool, len(a.cfg.ChannelOps))
	for _, r := range rows {
		r.Held = sortedUniq(r.Held)
		sort.Strings(r.Pos)
		r.Pos = uniq(r.Pos)
		for j, co := range a.cfg.ChannelOps {
			if co.Func != r.Func || co.Chan != r.Chan || co.Op != r.Op {
				continue
			}
			used[j] = true
			r.Justification = co.Justification
			switch co.Justification {
			case "drained_under":
				okDrain := false
				for _, d := range r.DrainedUnder {
					okDrain = okDrain || d == co.Lock
				}
				switch {
				case r.Op != "send":
					r.Why = "drained_under only justifies a send"
				case r.Cap != co.Cap || co.Cap < 1:
					r.Why = fmt.Sprintf("the channel is made with capacity %d, the table says %d", r.Cap, co.Cap)
				case !okDrain:
					r.Why = "the send is not preceded, inside the same hold of " + co.Lock + " taken in this function, by a loop draining the channel"
				default:
					r.Justified = true
				}
			case "reviewed":
				if co.Cap != 0 && r.Cap != co.Cap {
					r.Why = fmt.Sprintf("the channel is made with capacity %d, the table says %d", r.Cap, co.Cap)
				} else {
					r.Justified = true
				}
			default:
				r.Why = "unknown justification " + co.Justification
			}
		}
		if r.Justification == "" {
			r.Why = "not in the reviewed channel_ops table of guards.json"
		}
		res.ChanOps = append(res.ChanOps, *r)
	}
	// every send on a channel justified by draining must itself be justified that way
	for j, co := range a.cfg.ChannelOps {
		if !used[j] {
			res.StaleKnown = append(res.StaleKnown, fmt.Sprintf("channel op %s %s %s", co.Func, co.Op, co.Chan))
		}
	}
	sort.Slice(res.ChanOps, func(i, j int) bool {
		x, y := res.ChanOps[i], res.ChanOps[j]

		return x.Func+x.Chan+x.Op < y.Func+y.Chan+y.Op
	})
	chanID := map[string]int{}
	for i := range res.ChanOps {
		r := &res.ChanOps[i]
		r.Site = i
		if _, ok := chanID[r.Chan]; !ok {
			chanID[r.Chan] = len(chanID)
		}
		r.ChanID = chanID[r.Chan]
		if !r.Justified {
			res.Summary.UnjustifiedChanOps++
		}
	}
	res.Summary.ChanOpsUnderLock = len(res.ChanOps)
	// sends on a drained channel made with NO lock held at all are not rows; check them too
	for _, co := range a.cfg.ChannelOps {
		if co.Justification != "drained_under" {
			continue
		}
		for _, st := range a.chanOps {
			if st.op == "send" && st.ch == co.Chan && !st.init {
				found := false
				for _, r := range res.ChanOps {
					found = found || (r.Func == st.fn && r.Chan == st.ch && r.Op == "send")
				}
				if !found {
					res.ChanOps = append(res.ChanOps, chanOpOut{Site: len(res.ChanOps), Func: st.fn, Chan: st.ch, Op: "send", Pos: []string{st.pos},
						Why: "a send on a channel whose other sends rely on draining under " + co.Lock + " is made without it", ChanID: chanID[st.ch]})
					res.Summary.UnjustifiedChanOps++
				}
			}
		}
	}
}

// checkThenAct resolves the candidate pairs: a value obtained under a guard
// lock L in a hold that is over (inside a callee, or an earlier hold of this
// function) is tested, and L is acquired again later in the same function.
func (a *analysis) checkThenAct(res *result, remap map[int]int, acq map[*types.Func]map[int]bool) {
	guardLock := map[int]bool{}
	for _, rc := range a.cfg.Roots {
		for _, g := range rc.Guards {
			if name, _, ok := a.lockClassOfPath(rc.Type, g); ok {
				if c := a.classes[name]; c != nil {
					guardLock[c.id] = true
				}
			}
		}
	}
	type key struct{ fn, lock, src string }
	rows := map[key]*ctaOut{}
	for _, p := range a.ctaPairs {
		// the locks under which the value was obtained
		srcLocks := map[int]bool{}
		if p.src.callee == nil {
			srcLocks[p.src.class] = true
		} else {
			for k := range acq[p.src.callee] {
				if guardLock[k] && !p.src.held[k] {
					srcLocks[k] = true
				}
			}
		}
		actLocks := map[int]bool{}
		if p.actClass >= 0 {
			actLocks[p.actClass] = true
		} else {
			for k := range acq[p.actCallee] {
				actLocks[k] = true
			}
		}
		for k := range srcLocks {
			if !guardLock[k] || !actLocks[k] {
				continue
			}
			kk := key{p.fn, "", p.src.name}
			r := rows[kk]
			if r == nil {
				r = &ctaOut{Func: p.fn, Lock: remap[k], Source: p.src.name, CondPos: p.condPos, ActPos: p.actPos}
				rows[kk] = r
			}
			// the representative lock of a grouped row: the smallest id (not
			// the first one the map iteration happens to yield)
			if remap[k] < r.Lock {
				r.Lock = remap[k]
			}
			if !strings.Contains(";"+r.LockName+";", ";"+a.classByID(k)+";") {
				if r.LockName != "" {
					r.LockName += ";"
				}
				r.LockName += a.classByID(k)
			}
		}
	}
	used := make([]bool, len(a.cfg.CheckThenAct))
	for _, r := range rows {
		ls := strings.Split(r.LockName, ";")
		sort.Strings(ls)
		r.LockName = strings.Join(ls, ";")
		for j, b := range a.cfg.CheckThenAct {
			if b.Func == r.Func && b.Source == r.Source {
				r.Listed = true
				used[j] = true
			}
		}
		res.CTA = append(res.CTA, *r)
	}
	for j, b := range a.cfg.CheckThenAct {
		if !used[j] {
			res.StaleKnown = append(res.StaleKnown, fmt.Sprintf("check-then-act %s %s %s", b.Func, b.Lock, b.Source))
		}
	}
	sort.Slice(res.CTA, func(i, j int) bool {
		x, y := res.CTA[i], res.CTA[j]

		return x.Func+x.LockName+x.Source < y.Func+y.LockName+y.Source
	})
	for i := range res.CTA {
		res.CTA[i].Site = i
		if !res.CTA[i].Listed {
			res.Summary.UnlistedCTA++
		}
	}
	res.Summary.CTARows = len(res.CTA)
	res.Summary.StaleKnown = len(res.StaleKnown)
}

// writeAfterPublish confronts the write-after-publish rows with the baseline.
func (a *analysis) writeAfterPublish(res *result) {
	seen := map[[3]string]bool{}
	used := make([]bool, len(a.cfg.WriteAfterPublish))
	for _, r := range a.pubRows {
		k := [3]string{r.fn, r.field, r.varName}
		if seen[k] {
			continue
		}
		seen[k] = true
		o := pubOut{Func: r.fn, Field: r.field, Var: r.varName, PublishedAt: r.pubPos, WrittenAt: r.writePos}
		for j, b := range a.cfg.WriteAfterPublish {
			if b.Func == r.fn && b.Field == r.field && b.Var == r.varName {
				o.Listed = true
				used[j] = true
			}
		}
		res.Pub = append(res.Pub, o)
	}
	for j, b := range a.cfg.WriteAfterPublish {
		if !used[j] {
			res.StaleKnown = append(res.StaleKnown, fmt.Sprintf("write-after-publish %s %s %s", b.Func, b.Field, b.Var))
		}
	}
	sort.Slice(res.Pub, func(i, j int) bool {
		return res.Pub[i].Func+res.Pub[i].Field+res.Pub[i].Var < res.Pub[j].Func+res.Pub[j].Field+res.Pub[j].Var
	})
	for i := range res.Pub {
		res.Pub[i].Site = i
		if !res.Pub[i].Listed {
			res.Summary.UnlistedPub++
		}
	}
	res.Summary.PubRows = len(res.Pub)
	res.Summary.StaleKnown = len(res.StaleKnown)
}
