package main

import (
	"fmt"
	"go/ast"
	"go/token"
	"go/types"
	"sort"
	"strings"

	"golang.org/x/tools/go/packages"
)

// ---------------------------------------------------------------- configuration

type cfgRoot struct {
	// Type is the short name of a struct type, e.g. "dnsforward.Server".
	Type string `json:"type"`
	// Guards maps a field path prefix (relative to the struct) to the path of
	// the lock that protects it.
	Guards map[string]string `json:"guards"`
	// Exempt maps a field path prefix to the reviewed reason why it needs no
	// lock ("immutable: …" is verified: no write outside init functions).
	Exempt map[string]string `json:"exempt"`
}

type cfgAccessor struct {
	Func    string `json:"func"`
	LockArg int    `json:"lock_arg"`
	PtrArg  int    `json:"ptr_arg"`
	Write   bool   `json:"write"`
}

type cfgKnown struct {
	Func    string `json:"func"`
	Field   string `json:"field"`
	Finding string `json:"finding"`
	Note    string `json:"note"`
}

// cfgChanOp is a reviewed, potentially blocking channel operation made while
// a lock is held.  Justification "drained_under" is CHECKED by the extractor:
// the channel has the given capacity, and the send is preceded, inside the
// same hold of the given lock taken in the same function, by a loop that
// drains the channel (for { select { case <-ch: default: break } }), so that
// the send cannot block; every send on the channel must be justified this
// way.  Justification "reviewed" is a reviewed statement only.
type cfgChanOp struct {
	Func          string `json:"func"`
	Chan          string `json:"chan"`
	Op            string `json:"op"`
	Justification string `json:"justification"`
	Lock          string `json:"lock,omitempty"`
	Cap           int    `json:"cap,omitempty"`
	Note          string `json:"note"`
}

// cfgPub is a reviewed write-after-publish row: in Func, a value stored into the
// guarded Field under its lock is written through the local variable Var after
// that hold is over.
type cfgPub struct {
	Func  string `json:"func"`
	Field string `json:"field"`
	Var   string `json:"var"`
	Note  string `json:"note"`
}

// cfgCTA is a reviewed check-then-act row: in Func, a value obtained under
// Lock (through Source: a callee that takes the lock itself, or a field read
// in an earlier hold) is tested, and a later, separate hold of the same lock
// follows.
type cfgCTA struct {
	Func   string `json:"func"`
	Lock   string `json:"lock"`
	Source string `json:"source"`
	Note   string `json:"note"`
}

type cfgEdgeInst struct {
	Holder   string `json:"holder"`
	Acquirer string `json:"acquirer"`
}

type cfgKnownEdge struct {
	// Instances are the exact (function holding `from`, function acquiring
	// `to`) pairs the finding consists of; the edge counts as known only if
	// every instance found in the program is listed.
	Instances []cfgEdgeInst `json:"instances"`
	From      string        `json:"from"`
	To        string        `json:"to"`
	Finding string `json:"finding"`
	Note    string `json:"note"`
}

type cfgKnownAcq struct {
	Func    string `json:"func"`
	Lock    string `json:"lock"`
	Finding string `json:"finding"`
	Note    string `json:"note"`
}

type config struct {
	// WriteAfterPublish is the reviewed baseline of write-after-publish rows.
	WriteAfterPublish []cfgPub `json:"write_after_publish"`
	// GuardedEscape is the reviewed baseline of guarded-escape rows.
	GuardedEscape []cfgEsc `json:"guarded_escape"`
	// CheckThenAct is the reviewed baseline of check-then-act rows.
	CheckThenAct []cfgCTA `json:"check_then_act"`
	// ChannelOps is the reviewed table of blocking channel operations under locks.
	ChannelOps []cfgChanOp `json:"channel_ops"`
	// Gates maps a lock class to the lock class that gates it: every
	// acquisition of the lock is made with the gate held (checked), so that an
	// acquisition under the exclusively held gate cannot block.
	Gates map[string]string `json:"gates"`
	// KnownAcqs are reported findings: acquisitions of a gated lock without
	// its gate.
	KnownAcqs []cfgKnownAcq `json:"known_acqs"`
	// KnownEdges are reported lock-order findings of the current tree.
	KnownEdges []cfgKnownEdge `json:"known_edges"`
	Packages []string  `json:"packages"`
	Roots    []cfgRoot `json:"roots"`
	// InitFuncs run before the objects they touch are shared with other
	// goroutines (constructors, start-up wiring): accesses inside them and
	// inside functions only reachable from them are not access sites.
	InitFuncs map[string]string `json:"init_functions"`
	// SyncCallbacks are callees that run function-literal arguments
	// synchronously, i.e. under the caller's locks.
	SyncCallbacks []string `json:"sync_callbacks"`
	// Callbacks resolves calls through function-valued fields.
	Callbacks map[string][]string `json:"callbacks"`
	// Accessors are helpers of the shape f(mu, ptr, …){mu.Lock(); defer mu.Unlock(); … *ptr …}.
	Accessors []cfgAccessor `json:"accessors"`
	// Known are reported findings: undisciplined accesses of the current tree.
	Known []cfgKnown `json:"known"`
	// Mutators are methods that modify their receiver: calling one on a
	// guarded field is a write to the field.
	Mutators []string `json:"mutators"`
	// IgnoreUnresolved are dynamic calls made under a lock that were reviewed
	// as not acquiring any lock of the analysed packages.
	IgnoreUnresolved map[string]string `json:"ignore_unresolved"`
}

// ---------------------------------------------------------------- data

type funcInfo struct {
	obj     *types.Func
	decl    *ast.FuncDecl
	pkg     *packages.Package
	name    string
	escapes bool
}

type lockClass struct {
	id   int
	name string
	rw   bool
}

type heldLock struct {
	class    int
	root     string
	path     string
	base     string
	excl     bool
	deferred bool
	outer    bool // held by the caller / enclosing function: stays held until the end
	seq      int  // identifies the acquisition
}

type entryLock struct {
	class int
	root  string
	path  string
	param int // -1 receiver
	excl  bool
}

type entrySet struct {
	top   bool
	locks []entryLock
}

type callSite struct {
	caller *fctx
	callee *types.Func
	held   []entryLock
	mayCls map[int]bool
	top    bool
	isGo   bool
	init   bool
	pos    string
}

type chanOpSite struct {
	fn       string
	fobj     *types.Func
	detached bool
	ch       string
	chObj    types.Object
	op       string
	pos      string
	held     map[int]bool // lock classes held locally (must and may)
	drained  []string     // classes of the local holds under which the channel was drained before
	init     bool
}

// ctaSrc is where a tested value comes from.
type ctaSrc struct {
	callee *types.Func  // a callee that returns a value (nil for a field read)
	class  int          // field read: the lock held while reading …
	seq    int          // … and which acquisition of it
	held   map[int]bool // lock classes held by the function when the value was obtained
	name   string
	pos    string
}

// ctaPair is a candidate: a condition on src followed by an act.
type ctaPair struct {
	fn        string
	src       ctaSrc
	condPos   string
	actClass  int         // direct acquisition (-1 if through a callee)
	actCallee *types.Func // callee that may acquire
	actPos    string
}

// pubRow is a write through a local variable to an object after the object was
// stored into a guarded field and the guarding hold ended.
type pubRow struct {
	fn, field, varName, pubPos, writePos string
}

type acqSite struct {
	fn     string
	class  int
	shared []int
	excl   []int
	pos    string
	top    bool
	init   bool
	// nonLeaf: something may be acquired while this hold lasts.
	nonLeaf bool
}

type pendingEdge struct {
	may    []int
	callee *types.Func
	pos    string
	rows   []*acqSite
	holder string
}

type access struct {
	fn     string
	root   string
	path   string
	field  string // root:prefix
	guard  string // lock path; "" if exempt
	exempt string
	write  bool
	held   []heldLock
	top    bool
	fresh  bool
	init   bool
	pos    string
}

type seg struct {
	name  string
	owner string // short name of the struct type containing the field, "" if unnamed
	typ   types.Type
}

type pathRef struct {
	obj  types.Object
	segs []seg
	side []ast.Expr
	// aliasLen is the number of leading segments that come from a local
	// variable holding a copy of a pointer read earlier (x := s.f): using x
	// touches what it points to, not the field s.f again.
	aliasLen int
}

type analysis struct {
	cfg   *config
	pkgs  []*packages.Package
	fset  *token.FileSet
	funcs map[*types.Func]*funcInfo
	order []*funcInfo

	rootCfg      map[string]*cfgRoot
	mutexStructs map[string]bool
	classes      map[string]*lockClass
	classList    []*lockClass
	named        []*types.Named // all named non-interface types of the loaded packages
	byName       map[string]*types.Func

	entry    map[*types.Func]*entrySet
	initOnly map[*types.Func]bool

	sites        []*callSite
	accs         []*access
	edgePos      map[[2]int]map[string]bool
	edgeInsts    map[[2]int]map[[2]string]string
	pending      []pendingEdge
	direct       map[*types.Func]map[int]bool
	callG        map[*types.Func]map[*types.Func]bool
	unresolved   map[string]bool
	unclassified map[string]bool
	uncovered    map[string]int
	errs         []string
	collecting   bool
	litCallees   map[string]int
	addrTaken    map[string]bool
	dynAll       map[string]int
	acqSites     []*acqSite
	ctaPairs     []ctaPair
	pubRows      []pubRow
	chanOps      []*chanOpSite
	seq          int
	exemptAcqs   map[string]bool
}

func shortPkg(p string) string { return strings.TrimPrefix(p, modPrefix) }

func shortNamed(n *types.Named) string {
	if n == nil || n.Obj() == nil {
		return ""
	}
	if n.Obj().Pkg() == nil {
		return n.Obj().Name()
	}

	return shortPkg(n.Obj().Pkg().Path()) + "." + n.Obj().Name()
}

func funcName(f *types.Func) string {
	s := f.FullName()

	return strings.ReplaceAll(s, modPrefix, "")
}

func deref(t types.Type) types.Type {
	for {
		p, ok := types.Unalias(t).(*types.Pointer)
		if !ok {
			return types.Unalias(t)
		}
		t = p.Elem()
	}
}

func namedOf(t types.Type) *types.Named {
	n, _ := deref(t).(*types.Named)

	return n
}

func isMutexType(t types.Type) (ok, rw bool) {
	n := namedOf(t)
	if n == nil || n.Obj().Pkg() == nil || n.Obj().Pkg().Path() != "sync" {
		return false, false
	}
	switch n.Obj().Name() {
	case "Mutex":
		return true, false
	case "RWMutex":
		return true, true
	}

	return false, false
}

func newAnalysis(cfg *config, pkgs []*packages.Package) *analysis {
	a := &analysis{
		cfg: cfg, pkgs: pkgs, funcs: map[*types.Func]*funcInfo{}, rootCfg: map[string]*cfgRoot{},
		mutexStructs: map[string]bool{}, classes: map[string]*lockClass{}, byName: map[string]*types.Func{},
	}
	if len(pkgs) > 0 {
		a.fset = pkgs[0].Fset
	}
	for i := range cfg.Roots {
		a.rootCfg[cfg.Roots[i].Type] = &cfg.Roots[i]
	}
	for _, p := range pkgs {
		for _, f := range p.Syntax {
			for _, d := range f.Decls {
				fd, ok := d.(*ast.FuncDecl)
				if !ok || fd.Body == nil {
					continue
				}
				obj, _ := p.TypesInfo.Defs[fd.Name].(*types.Func)
				if obj == nil {
					continue
				}
				fi := &funcInfo{obj: obj, decl: fd, pkg: p, name: funcName(obj)}
				a.funcs[obj] = fi
				a.order = append(a.order, fi)
				a.byName[fi.name] = obj
			}
		}
		sc := p.Types.Scope()
		for _, nm := range sc.Names() {
			tn, ok := sc.Lookup(nm).(*types.TypeName)
			if !ok || tn.IsAlias() {
				continue
			}
			n, ok := tn.Type().(*types.Named)
			if !ok {
				continue
			}
			if _, isIface := n.Underlying().(*types.Interface); !isIface {
				a.named = append(a.named, n)
			}
			st, ok := n.Underlying().(*types.Struct)
			if !ok {
				continue
			}
			for i := 0; i < st.NumFields(); i++ {
				if ok, _ := isMutexType(st.Field(i).Type()); ok {
					a.mutexStructs[shortNamed(n)] = true
				}
			}
		}
	}
	sort.Slice(a.order, func(i, j int) bool { return a.order[i].name < a.order[j].name })
	for name := range cfg.InitFuncs {
		if a.byName[name] == nil {
			die("guards.json: init function %q does not exist in the loaded packages", name)
		}
	}
	for _, r := range cfg.Roots {
		if !a.typeExists(r.Type) {
			die("guards.json: root type %q does not exist", r.Type)
		}
	}

	return a
}

func (a *analysis) typeExists(short string) bool {
	for _, n := range a.named {
		if shortNamed(n) == short {
			return true
		}
	}

	return false
}

func (a *analysis) isRoot(short string) bool {
	return short != "" && (a.mutexStructs[short] || a.rootCfg[short] != nil)
}

func (a *analysis) class(name string, rw bool) *lockClass {
	if c := a.classes[name]; c != nil {
		return c
	}
	c := &lockClass{id: len(a.classList), name: name, rw: rw}
	a.classes[name] = c
	a.classList = append(a.classList, c)

	return c
}

func (a *analysis) gateOf(class string) string { return a.cfg.Gates[class] }

func (a *analysis) pos(p token.Pos) string {
	ps := a.fset.Position(p)
	fn := ps.Filename
	if i := strings.Index(fn, "/internal/"); i >= 0 {
		fn = fn[i+1:]
	}

	return fmt.Sprintf("%s:%d", fn, ps.Line)
}

func (a *analysis) errorf(p token.Pos, format string, args ...any) {
	a.errs = append(a.errs, a.pos(p)+": "+fmt.Sprintf(format, args...))
}

// ---------------------------------------------------------------- driver

func (a *analysis) reset() {
	a.sites, a.accs, a.pending = nil, nil, nil
	a.edgePos = map[[2]int]map[string]bool{}
	a.edgeInsts = map[[2]int]map[[2]string]string{}
	a.direct = map[*types.Func]map[int]bool{}
	a.callG = map[*types.Func]map[*types.Func]bool{}
	a.unresolved = map[string]bool{}
	a.unclassified = map[string]bool{}
	a.uncovered = map[string]int{}
	a.errs = nil
	a.litCallees = nil
	a.addrTaken = map[string]bool{}
	a.dynAll = map[string]int{}
	a.acqSites = nil
	a.ctaPairs = nil
	a.pubRows = nil
	a.chanOps = nil
	a.exemptAcqs = map[string]bool{}
}

func (a *analysis) walkAll() {
	a.reset()
	for _, fi := range a.order {
		c := a.newCtx(fi, fi.name, fi.pkg)
		es := a.entry[fi.obj]
		if es != nil && es.top {
			c.top = true
		} else if es != nil {
			for _, el := range es.locks {
				var obj types.Object
				sig := fi.obj.Type().(*types.Signature)
				if el.param < 0 {
					if sig.Recv() != nil {
						obj = sig.Recv()
					}
				} else if el.param < sig.Params().Len() {
					obj = sig.Params().At(el.param)
				}
				if obj == nil || obj.Name() == "" || obj.Name() == "_" {
					continue
				}
				c.must = append(c.must, heldLock{class: el.class, root: el.root, path: el.path, base: baseKey(obj, nil), excl: el.excl, outer: true})
			}
		}
		c.initFn = a.initOnly[fi.obj]
		c.prescan(fi.decl.Body)
		term := c.block(fi.decl.Body.List)
		if !term {
			c.checkLeak(fi.decl.Body.Rbrace)
		}
	}
}

func (a *analysis) run() {
	a.entry = map[*types.Func]*entrySet{}
	a.initOnly = map[*types.Func]bool{}
	// Round 0: call graph only.
	a.collecting = true
	a.walkAll()
	a.collecting = false
	hasSite := map[*types.Func]bool{}
	for _, s := range a.sites {
		hasSite[s.callee] = true
	}
	// init-only closure
	for name := range a.cfg.InitFuncs {
		a.initOnly[a.byName[name]] = true
	}
	for changed := true; changed; {
		changed = false
		for _, fi := range a.order {
			if a.initOnly[fi.obj] || fi.escapes || !hasSite[fi.obj] {
				continue
			}
			all := true
			for _, s := range a.sites {
				if s.callee == fi.obj && !s.init {
					all = false

					break
				}
			}
			if all {
				a.initOnly[fi.obj] = true
				changed = true
				// re-evaluate the init flag of the sites inside it
				for _, s := range a.sites {
					if s.caller.fi.obj == fi.obj {
						s.init = true
					}
				}
			}
		}
	}
	tracked := map[*types.Func]bool{}
	for _, fi := range a.order {
		if hasSite[fi.obj] && !fi.escapes {
			tracked[fi.obj] = true
			a.entry[fi.obj] = &entrySet{top: true}
		} else {
			a.entry[fi.obj] = &entrySet{}
		}
	}
	for iter := 0; ; iter++ {
		if iter > 60 {
			die("entry lockset fixpoint did not converge")
		}
		a.walkAll()
		next := a.nextEntry(tracked)
		if entryEqual(a.entry, next) {
			// functions still TOP are only reachable from TOP functions (dead
			// code or pure recursion): analyse them with nothing held.
			anyTop := false
			for f, es := range a.entry {
				if es.top && !a.initOnly[f] {
					delete(tracked, f)
					a.entry[f] = &entrySet{}
					anyTop = true
				}
			}
			if !anyTop {
				break
			}

			continue
		}
		a.entry = next
	}
	if len(a.errs) > 0 {
		sort.Strings(a.errs)
		die("unsupported locking constructs (the tie is broken):\n  %s", strings.Join(uniq(a.errs), "\n  "))
	}
	if len(a.unclassified) > 0 {
		die("fields of guarded structs that are neither guarded nor exempt in guards.json (review needed):\n  %s",
			strings.Join(keys(a.unclassified), "\n  "))
	}
}

func uniq(xs []string) (res []string) {
	for i, x := range xs {
		if i == 0 || xs[i-1] != x {
			res = append(res, x)
		}
	}

	return res
}

func keys(m map[string]bool) []string {
	ks := make([]string, 0, len(m))
	for k := range m {
		ks = append(ks, k)
	}
	sort.Strings(ks)

	return ks
}

func sameEntryLock(x, y entryLock) bool {
	return x.class == y.class && x.param == y.param && x.root == y.root && x.path == y.path
}

func (a *analysis) nextEntry(tracked map[*types.Func]bool) map[*types.Func]*entrySet {
	next := map[*types.Func]*entrySet{}
	for f := range a.entry {
		if tracked[f] {
			next[f] = &entrySet{top: true}
		} else {
			next[f] = &entrySet{}
		}
	}
	for _, s := range a.sites {
		if !tracked[s.callee] || s.init {
			continue
		}
		cur := next[s.callee]
		switch {
		case s.isGo:
			next[s.callee] = &entrySet{}
		case s.top:
			// the caller itself is still undetermined: no constraint yet
		case cur.top:
			next[s.callee] = &entrySet{locks: append([]entryLock(nil), s.held...)}
		default:
			var keep []entryLock
			for _, l := range cur.locks {
				for _, h := range s.held {
					if sameEntryLock(l, h) {
						l.excl = l.excl && h.excl
						keep = append(keep, l)

						break
					}
				}
			}
			next[s.callee] = &entrySet{locks: keep}
		}
	}

	return next
}

func entryEqual(x, y map[*types.Func]*entrySet) bool {
	if len(x) != len(y) {
		return false
	}
	for f, ex := range x {
		ey := y[f]
		if ey == nil || ex.top != ey.top || len(ex.locks) != len(ey.locks) {
			return false
		}
		for _, l := range ex.locks {
			found := false
			for _, m := range ey.locks {
				if sameEntryLock(l, m) && l.excl == m.excl {
					found = true
				}
			}
			if !found {
				return false
			}
		}
	}

	return true
}
