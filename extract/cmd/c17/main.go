// Command c17 is the fact extractor of property C17 (translator tie).
//
// A SITE is one (call expression, path-argument position) pair: a direct call
// of a function of the table `callees` — the os / io/ioutil / path/filepath /
// io/fs / os.Root / net/http.ServeFile / os/exec / renameio / bbolt / urlfilter
// entry points that take a file name, directory or program path — found in a
// function body of a non-test file.  Wrappers need no entry of their own: the
// path of the site inside the wrapper is traced back through the wrapper's
// parameter to every caller in the module.
//
// It lists every call in the AdGuard Home module (non-test files of
// ./internal/... and the main package, GOOS=linux) that hands a path to the
// file system (open/read, stat, directory listing, library open, exec, and the
// mutating calls as well), computes the provenance of the path argument by a
// conservative backward data-flow (locals flow-insensitively, parameters
// joined over all call sites in the module, struct fields joined over all
// writes to the field in the module, results of module functions over their
// return statements, unknown calls = join of their arguments), and checks the
// guard structure around the sites that are fed by a filter's URL.  It also
// lists every write to a filter's URL field with the provenance of the value
// and whether validateFilterURL dominates it.  Output:
//
//	lean/AGH/Gen/C17OpenSites.lean   (tables the theorems of Props/C17 quantify over)
//	build/C17/facts.json             (the same facts with names, for people)
//
// Inside internal/filtering/... anything it cannot classify is a fatal error
// with file:line — a broken tie, never a silent default.
package main

import (
	"encoding/json"
	"fmt"
	"go/ast"
	"go/constant"
	"go/token"
	"go/types"
	"os"
	"path/filepath"
	"sort"
	"strings"

	"golang.org/x/tools/go/packages"

	"verif/extract/internal/load"
)

const modPath = "github.com/AdguardTeam/AdGuardHome"

const fltPkg = modPath + "/internal/filtering"

// Operation codes (keep in sync with lean/AGH/Props/C17.lean).
const (
	opOpen   = 0 // os.Open, os.OpenFile, os.ReadFile, ioutil.ReadFile, http.ServeFile
	opStat   = 1 // os.Stat, os.Lstat, os.Readlink
	opList   = 2 // os.ReadDir, filepath.Glob, filepath.Walk(Dir), os.DirFS
	opLib    = 3 // filterlist.NewFileRuleList, bbolt.Open
	opExec   = 4 // exec.Command (program path)
	opMutate = 5 // create / write / remove / rename / chmod / chtimes / mkdir
)

var opNames = map[int]string{0: "open", 1: "stat", 2: "list", 3: "libOpen", 4: "exec", 5: "mutate"}

// Provenance bits.
const (
	provOther   = 1  // anything else (configuration values, flags, unknown)
	provDataDir = 2  // derived from the data directory (FilterYAML.Path, Config.DataDir, filterDir)
	provFltURL  = 4  // a stored filter's URL (filtering.FilterYAML.URL)
	provReqURL  = 8  // a URL field of an HTTP request body of the filtering API
	provNextURL = 16 // the URL of the not yet wired rulelist.Filter (rulelist.FilterConfig.URL)
	provConst   = 32 // a compile-time constant string
)

// Roles of functions the obligations name.
const (
	roleNone     = 0
	roleReader   = 1 // filtering.DNSFilter.reader
	roleValidate = 2 // filtering.DNSFilter.validateFilterURL
	roleAdd      = 3 // filtering.DNSFilter.handleFilteringAddURL
	roleSetURL   = 4 // filtering.DNSFilter.handleFilteringSetURL
)

var roles = map[string]int{
	fltPkg + ".DNSFilter.reader":                roleReader,
	fltPkg + ".DNSFilter.validateFilterURL":     roleValidate,
	fltPkg + ".DNSFilter.handleFilteringAddURL": roleAdd,
	fltPkg + ".DNSFilter.handleFilteringSetURL": roleSetURL,
}

// Guard codes of a site.
const (
	guardNone   = 0
	guardBefore = 1 // v = filepath.Clean(v); if !pathMatchesAny(d.safeFSPatterns, v) { return … }; SITE(v)
	guardAfter  = 2 // v = filepath.Clean(v); SITE(v); if err != nil { return }; if !pathMatchesAny(…, v) { return … }
)

type calleeSpec struct {
	op      int
	pathArg int
}

var callees = map[string][]calleeSpec{
	"os.Open":            {{opOpen, 0}},
	"os.OpenFile":        {{opOpen, 0}},
	"os.ReadFile":        {{opOpen, 0}},
	"io/ioutil.ReadFile": {{opOpen, 0}},
	"net/http.ServeFile": {{opOpen, 2}},
	// file-system abstractions: the name is relative to the FS / root value
	"io/fs.ReadFile":            {{opOpen, 1}},
	"io/fs.FS.Open":             {{opOpen, 0}},
	"io/fs.ReadFileFS.ReadFile": {{opOpen, 0}},
	"io/fs.Stat":                {{opStat, 1}},
	"io/fs.StatFS.Stat":         {{opStat, 0}},
	"io/fs.ReadDir":             {{opList, 1}},
	"io/fs.ReadDirFS.ReadDir":   {{opList, 0}},
	"io/fs.Glob":                {{opList, 1}},
	"io/fs.GlobFS.Glob":         {{opList, 0}},
	"io/fs.WalkDir":             {{opList, 1}},
	"io/fs.Sub":                 {{opList, 1}},
	"io/fs.SubFS.Sub":           {{opList, 0}},
	"os.OpenRoot":               {{opList, 0}},
	"os.OpenInRoot":             {{opOpen, 0}, {opOpen, 1}},
	"os.CopyFS":                 {{opMutate, 0}},
	"os.Root.Open":              {{opOpen, 0}},
	"os.Root.OpenFile":          {{opOpen, 0}},
	"os.Root.OpenRoot":          {{opList, 0}},
	"os.Root.Stat":              {{opStat, 0}},
	"os.Root.Lstat":             {{opStat, 0}},
	"os.Root.Create":            {{opMutate, 0}},
	"os.Root.Mkdir":             {{opMutate, 0}},
	"os.Root.Remove":            {{opMutate, 0}},
	"os.Stat":                   {{opStat, 0}},
	"os.Lstat":                  {{opStat, 0}},
	"os.Readlink":               {{opStat, 0}},
	"os.ReadDir":                {{opList, 0}},
	"io/ioutil.ReadDir":         {{opList, 0}},
	"os.DirFS":                  {{opList, 0}},
	"path/filepath.Glob":        {{opList, 0}},
	"path/filepath.Walk":        {{opList, 0}},
	"path/filepath.WalkDir":     {{opList, 0}},
	"github.com/AdguardTeam/urlfilter/filterlist.NewFileRuleList": {{opLib, 1}},
	"go.etcd.io/bbolt.Open":  {{opLib, 0}},
	"os/exec.Command":        {{opExec, 0}},
	"os/exec.CommandContext": {{opExec, 1}},
	"os.WriteFile":           {{opMutate, 0}},
	"io/ioutil.WriteFile":    {{opMutate, 0}},
	"os.Create":              {{opMutate, 0}},
	"os.Truncate":            {{opMutate, 0}},
	"os.CreateTemp":          {{opMutate, 0}},
	"os.MkdirTemp":           {{opMutate, 0}},
	"os.Mkdir":               {{opMutate, 0}},
	"os.MkdirAll":            {{opMutate, 0}},
	"os.Remove":              {{opMutate, 0}},
	"os.RemoveAll":           {{opMutate, 0}},
	"os.Rename":              {{opMutate, 0}, {opMutate, 1}},
	"os.Link":                {{opMutate, 0}, {opMutate, 1}},
	"os.Symlink":             {{opMutate, 0}, {opMutate, 1}},
	"os.Chmod":               {{opMutate, 0}},
	"os.Chown":               {{opMutate, 0}},
	"os.Chtimes":             {{opMutate, 0}},
	"github.com/google/renameio/v2/maybe.WriteFile": {{opMutate, 0}},
	"github.com/google/renameio/v2.WriteFile":       {{opMutate, 0}},
	"github.com/google/renameio/v2.NewPendingFile":  {{opMutate, 0}},
	"github.com/google/renameio/v2.TempFile":        {{opMutate, 1}},
}

// sourceFields are the struct fields that ARE provenance classes.
var sourceFields = map[string]int{
	fltPkg + ".FilterYAML.URL":            provFltURL,
	fltPkg + ".filterAddJSON.URL":         provReqURL,
	fltPkg + ".filterURLReqData.URL":      provReqURL,
	fltPkg + ".filterURLReq.URL":          provReqURL,
	fltPkg + ".Config.DataDir":            provDataDir,
	fltPkg + "/rulelist.FilterConfig.URL": provNextURL,
	fltPkg + "/rulelist.Filter.url":       provNextURL,
}

type site struct {
	ID      int    `json:"id"`
	Pos     string `json:"pos"`
	Func    string `json:"func"`
	Callee  string `json:"callee"`
	Op      int    `json:"op"`
	OpName  string `json:"op_name"`
	Prov    int    `json:"prov"`
	ProvTxt string `json:"prov_text"`
	InFlt   bool   `json:"in_filtering"`
	Role    int    `json:"role"`
	Guard   int    `json:"guard"`
	Path    string `json:"path_expr"`
}

type urlWrite struct {
	ID        int    `json:"id"`
	Pos       string `json:"pos"`
	Func      string `json:"func"`
	Role      int    `json:"role"`
	Prov      int    `json:"prov"`
	ProvTxt   string `json:"prov_text"`
	Validated bool   `json:"validated"`
	Expr      string `json:"value_expr"`
}

// patWrite is a store into DNSFilter.safeFSPatterns.
type patWrite struct {
	ID   int    `json:"id"`
	Pos  string `json:"pos"`
	Func string `json:"func"`
	// Kind 1: `d.safeFSPatterns = append(d.safeFSPatterns, p)` inside
	// `for _, p := range c.SafeFSPatterns` of filtering.New, after
	// `_, err = filepath.Match(p, …); if err != nil { return … }`.  0: anything else.
	Kind int    `json:"kind"`
	Expr string `json:"value_expr"`
}

// clientWrite is a store into filtering.Config.HTTPClient.
type clientWrite struct {
	ID   int    `json:"id"`
	Pos  string `json:"pos"`
	Func string `json:"func"`
	// Kind 1: the value is a call of a module function all of whose returns
	// are `&http.Client{…, Transport: &http.Transport{…}}` literals (a plain
	// transport: http and https only unless a protocol is registered on it).
	// 0: anything else.
	Kind int    `json:"kind"`
	Expr string `json:"value_expr"`
}

type funcInfo struct {
	decl *ast.FuncDecl
	pkg  *packages.Package
}

type callInfo struct {
	call *ast.CallExpr
	pkg  *packages.Package
	fn   *ast.FuncDecl
}

type fieldWrite struct {
	val ast.Expr
	pkg *packages.Package
	fn  *ast.FuncDecl
}

type extractor struct {
	pkgs    []*packages.Package
	fset    *token.FileSet
	repo    string
	sites   []*site
	writes  []*urlWrite
	pats    []*patWrite
	clients []*clientWrite
	// protoRefs: uses of (*http.Transport).RegisterProtocol, http.NewFileTransport(FS).
	protoRefs []string
	funcs     map[*types.Func]funcInfo
	callsOf   map[*types.Func][]callInfo
	// fieldWrites: every value stored into a struct field in the module.
	fieldWrites map[*types.Var][]fieldWrite
	// nextRefs: references from outside internal/filtering/rulelist to the
	// constructors of the not yet wired rule-list implementation.
	nextRefs []string
	// strict is set while tracing a path that starts in internal/filtering/...
	strict bool
}

func (x *extractor) pos(p token.Pos) string {
	ps := x.fset.Position(p)
	rel, err := filepath.Rel(x.repo, ps.Filename)
	if err != nil {
		rel = ps.Filename
	}

	return fmt.Sprintf("%s:%d", rel, ps.Line)
}

// posLess orders positions by (file name, line, column): token.Pos values
// depend on the order in which the packages happened to be loaded.
func (x *extractor) posLess(a, b token.Pos) bool {
	pa, pb := x.fset.Position(a), x.fset.Position(b)
	if pa.Filename != pb.Filename {
		return pa.Filename < pb.Filename
	}
	if pa.Line != pb.Line {
		return pa.Line < pb.Line
	}

	return pa.Column < pb.Column
}

func (x *extractor) fatal(p token.Pos, format string, args ...any) {
	fmt.Fprintf(os.Stderr, "extract c17: %s: %s\n", x.pos(p), fmt.Sprintf(format, args...))
	os.Exit(3)
}

func fullName(f *types.Func) string {
	if f.Pkg() == nil {
		return f.Name()
	}
	sig, _ := f.Type().(*types.Signature)
	if sig != nil && sig.Recv() != nil {
		t := sig.Recv().Type()
		if p, ok := t.(*types.Pointer); ok {
			t = p.Elem()
		}
		if n, ok := t.(*types.Named); ok {
			return f.Pkg().Path() + "." + n.Obj().Name() + "." + f.Name()
		}
	}

	return f.Pkg().Path() + "." + f.Name()
}

func calleeOf(info *types.Info, call *ast.CallExpr) *types.Func {
	var id *ast.Ident
	switch f := ast.Unparen(call.Fun).(type) {
	case *ast.Ident:
		id = f
	case *ast.SelectorExpr:
		id = f.Sel
	case *ast.IndexExpr:
		switch g := ast.Unparen(f.X).(type) {
		case *ast.Ident:
			id = g
		case *ast.SelectorExpr:
			id = g.Sel
		}
	}
	if id == nil {
		return nil
	}
	fn, _ := info.Uses[id].(*types.Func)

	return fn
}

func inFiltering(pkgPath string) bool {
	return pkgPath == fltPkg || strings.HasPrefix(pkgPath, fltPkg+"/")
}

func main() {
	x := &extractor{
		repo:        load.Repo(),
		funcs:       map[*types.Func]funcInfo{},
		callsOf:     map[*types.Func][]callInfo{},
		fieldWrites: map[*types.Var][]fieldWrite{},
	}
	// Delete the generated table first: a failed extraction must not leave a
	// stale one for the proofs to pass on.
	_ = os.Remove(filepath.Join(verifRoot(), "lean/AGH/Gen/C17OpenSites.lean"))
	x.pkgs = load.Packages("./internal/...", ".")
	if len(x.pkgs) == 0 {
		fmt.Fprintln(os.Stderr, "extract c17: no packages")
		os.Exit(2)
	}
	x.fset = x.pkgs[0].Fset
	sort.Slice(x.pkgs, func(i, j int) bool { return x.pkgs[i].PkgPath < x.pkgs[j].PkgPath })
	x.index()
	x.requireAnchors()
	x.collect()
	x.collectURLWrites()
	x.collectPatternWrites()
	x.collectClientFacts()
	x.write()
}

// fieldKey names a struct field as "pkg.Type.Field" when its owner is a named
// struct type.
func fieldOwner(sel *types.Selection) string {
	t := sel.Recv()
	for {
		if pt, isPtr := t.(*types.Pointer); isPtr {
			t = pt.Elem()

			continue
		}

		break
	}
	// Walk the embedding path to the struct that declares the field.
	idx := sel.Index()
	for i := 0; i < len(idx)-1; i++ {
		st, ok := t.Underlying().(*types.Struct)
		if !ok {
			return ""
		}
		t = st.Field(idx[i]).Type()
		if pt, isPtr := t.(*types.Pointer); isPtr {
			t = pt.Elem()
		}
	}
	if n, ok := t.(*types.Named); ok && n.Obj().Pkg() != nil {
		return n.Obj().Pkg().Path() + "." + n.Obj().Name()
	}

	return ""
}

func namedOf(t types.Type) *types.Named {
	for {
		switch v := t.(type) {
		case *types.Pointer:
			t = v.Elem()
		case *types.Named:
			return v
		default:
			return nil
		}
	}
}

// index records declarations, call sites and field writes of the module, and
// rejects uses of a tracked function as a value.
func (x *extractor) index() {
	for _, pkg := range x.pkgs {
		for _, file := range pkg.Syntax {
			for _, d := range file.Decls {
				fd, ok := d.(*ast.FuncDecl)
				if !ok {
					continue
				}
				if obj, isFn := pkg.TypesInfo.Defs[fd.Name].(*types.Func); isFn {
					x.funcs[obj] = funcInfo{decl: fd, pkg: pkg}
				}
			}
		}
	}
	for _, pkg := range x.pkgs {
		info := pkg.TypesInfo
		for _, file := range pkg.Syntax {
			called := map[*ast.Ident]bool{}
			var stack []*ast.FuncDecl
			var cur *ast.FuncDecl
			_ = stack
			for _, d := range file.Decls {
				fd, _ := d.(*ast.FuncDecl)
				cur = fd
				ast.Inspect(d, func(n ast.Node) bool {
					switch v := n.(type) {
					case *ast.CallExpr:
						if fn := calleeOf(info, v); fn != nil {
							switch f := ast.Unparen(v.Fun).(type) {
							case *ast.Ident:
								called[f] = true
							case *ast.SelectorExpr:
								called[f.Sel] = true
							}
							x.callsOf[fn] = append(x.callsOf[fn], callInfo{call: v, pkg: pkg, fn: cur})
						}
					case *ast.CompositeLit:
						x.indexLiteral(pkg, cur, v)
					case *ast.AssignStmt:
						if len(v.Lhs) == len(v.Rhs) {
							for i, lhs := range v.Lhs {
								se, ok := ast.Unparen(lhs).(*ast.SelectorExpr)
								if !ok {
									continue
								}
								if sel, isSel := info.Selections[se]; isSel && sel.Kind() == types.FieldVal {
									fv := sel.Obj().(*types.Var)
									x.fieldWrites[fv] = append(x.fieldWrites[fv], fieldWrite{val: v.Rhs[i], pkg: pkg, fn: cur})
								}
							}
						} else {
							for _, lhs := range v.Lhs {
								se, ok := ast.Unparen(lhs).(*ast.SelectorExpr)
								if !ok {
									continue
								}
								if sel, isSel := info.Selections[se]; isSel && sel.Kind() == types.FieldVal {
									fv := sel.Obj().(*types.Var)
									x.fieldWrites[fv] = append(x.fieldWrites[fv], fieldWrite{val: v.Rhs[0], pkg: pkg, fn: cur})
								}
							}
						}
					}

					return true
				})
			}
			for id, obj := range info.Uses {
				fn, ok := obj.(*types.Func)
				if !ok {
					continue
				}
				if id.Pos() < file.Pos() || id.Pos() > file.End() {
					continue
				}
				name := fullName(fn)
				if !called[id] {
					if _, tracked := callees[name]; tracked {
						x.fatal(id.Pos(), "file-system function %s used as a value (not a direct call)", name)
					}
				}
				// References to the constructors of the not yet wired implementation.
				if fn.Pkg() != nil && fn.Pkg().Path() == fltPkg+"/rulelist" && pkg.PkgPath != fltPkg+"/rulelist" {
					switch fn.Name() {
					case "NewFilter", "NewEngine", "NewStorage", "NewTextEngine":
						x.nextRefs = append(x.nextRefs, x.pos(id.Pos())+" "+name)
					}
				}
			}
		}
	}
	sort.Strings(x.nextRefs)
}

func (x *extractor) indexLiteral(pkg *packages.Package, cur *ast.FuncDecl, lit *ast.CompositeLit) {
	info := pkg.TypesInfo
	tv, ok := info.Types[lit]
	if !ok {
		return
	}
	st, ok := tv.Type.Underlying().(*types.Struct)
	if !ok {
		if pt, isPtr := tv.Type.Underlying().(*types.Pointer); isPtr {
			st, ok = pt.Elem().Underlying().(*types.Struct)
		}
		if !ok {
			return
		}
	}
	for i, el := range lit.Elts {
		if kv, isKV := el.(*ast.KeyValueExpr); isKV {
			id, isID := kv.Key.(*ast.Ident)
			if !isID {
				continue
			}
			for j := 0; j < st.NumFields(); j++ {
				if st.Field(j).Name() == id.Name {
					x.fieldWrites[st.Field(j)] = append(x.fieldWrites[st.Field(j)], fieldWrite{val: kv.Value, pkg: pkg, fn: cur})
				}
			}
		} else if i < st.NumFields() {
			x.fieldWrites[st.Field(i)] = append(x.fieldWrites[st.Field(i)], fieldWrite{val: el, pkg: pkg, fn: cur})
		}
	}
}

// requireAnchors makes sure the functions and fields the obligations name
// still exist (a rename is a broken tie, not an empty table).
func (x *extractor) requireAnchors() {
	have := map[string]bool{}
	for fn := range x.funcs {
		have[fullName(fn)] = true
	}
	for name := range roles {
		if !have[name] {
			fmt.Fprintf(os.Stderr, "extract c17: anchor function %s not found\n", name)
			os.Exit(3)
		}
	}
	for _, name := range []string{fltPkg + ".pathMatchesAny", fltPkg + ".FilterYAML.Path"} {
		if !have[name] {
			fmt.Fprintf(os.Stderr, "extract c17: anchor function %s not found\n", name)
			os.Exit(3)
		}
	}
	fields := map[string]bool{}
	for _, pkg := range x.pkgs {
		if !inFiltering(pkg.PkgPath) {
			continue
		}
		sc := pkg.Types.Scope()
		for _, nm := range sc.Names() {
			tn, ok := sc.Lookup(nm).(*types.TypeName)
			if !ok {
				continue
			}
			st, ok := tn.Type().Underlying().(*types.Struct)
			if !ok {
				continue
			}
			for i := 0; i < st.NumFields(); i++ {
				fields[pkg.PkgPath+"."+nm+"."+st.Field(i).Name()] = true
			}
		}
	}
	for name := range sourceFields {
		if !fields[name] {
			fmt.Fprintf(os.Stderr, "extract c17: anchor field %s not found\n", name)
			os.Exit(3)
		}
	}
	if !fields[fltPkg+".DNSFilter.safeFSPatterns"] {
		fmt.Fprintln(os.Stderr, "extract c17: anchor field DNSFilter.safeFSPatterns not found")
		os.Exit(3)
	}
}

func (x *extractor) funcName(pkg *packages.Package, fd *ast.FuncDecl) string {
	if fd == nil {
		return pkg.PkgPath + ".<package initialiser>"
	}
	if obj, ok := pkg.TypesInfo.Defs[fd.Name].(*types.Func); ok {
		return fullName(obj)
	}

	return pkg.PkgPath + "." + fd.Name.Name
}

func (x *extractor) exprText(e ast.Expr) string {
	p1, p2 := x.fset.Position(e.Pos()), x.fset.Position(e.End())
	b, err := os.ReadFile(p1.Filename)
	if err != nil || p2.Offset > len(b) {
		return ""
	}

	return string(b[p1.Offset:p2.Offset])
}

func provText(p int) string {
	var parts []string
	for _, kv := range []struct {
		bit  int
		name string
	}{{provFltURL, "filterURL"}, {provReqURL, "requestURL"}, {provNextURL, "nextURL"}, {provDataDir, "dataDir"},
		{provConst, "const"}, {provOther, "other"}} {
		if p&kv.bit != 0 {
			parts = append(parts, kv.name)
		}
	}

	return strings.Join(parts, "|")
}

func (x *extractor) collect() {
	for _, pkg := range x.pkgs {
		files := append([]*ast.File{}, pkg.Syntax...)
		sort.Slice(files, func(i, j int) bool {
			return x.fset.Position(files[i].Pos()).Filename < x.fset.Position(files[j].Pos()).Filename
		})
		for _, file := range files {
			for _, d := range file.Decls {
				fd, _ := d.(*ast.FuncDecl)
				ast.Inspect(d, func(n ast.Node) bool {
					call, ok := n.(*ast.CallExpr)
					if !ok {
						return true
					}
					fn := calleeOf(pkg.TypesInfo, call)
					if fn == nil {
						return true
					}
					name := fullName(fn)
					specs, tracked := callees[name]
					if !tracked {
						return true
					}
					if fd == nil {
						if inFiltering(pkg.PkgPath) {
							x.fatal(call.Pos(), "file-system call in a package-level initialiser")
						}

						return true
					}
					for _, sp := range specs {
						if sp.pathArg >= len(call.Args) {
							x.fatal(call.Pos(), "call of %s has too few arguments", name)
						}
						arg := call.Args[sp.pathArg]
						x.strict = inFiltering(pkg.PkgPath)
						prov := x.prov(pkg, fd, arg, map[types.Object]bool{}, 0)
						fname := x.funcName(pkg, fd)
						s := &site{
							ID: len(x.sites), Pos: x.pos(call.Pos()), Func: fname, Callee: name,
							Op: sp.op, OpName: opNames[sp.op], Prov: prov, ProvTxt: provText(prov),
							InFlt: inFiltering(pkg.PkgPath), Role: roles[fname], Path: x.exprText(arg),
						}
						if prov&(provFltURL|provReqURL|provNextURL) != 0 {
							s.Guard = x.guard(pkg, fd, call, arg)
						}
						x.sites = append(x.sites, s)
					}

					return true
				})
			}
		}
	}
}

// ---------------------------------------------------------------- provenance

func (x *extractor) unknown(p token.Pos, format string, args ...any) int {
	if x.strict {
		x.fatal(p, format, args...)
	}

	return provOther
}

func (x *extractor) prov(pkg *packages.Package, fd *ast.FuncDecl, e ast.Expr, seen map[types.Object]bool, depth int) int {
	if depth > 40 {
		return x.unknown(e.Pos(), "path provenance too deep")
	}
	info := pkg.TypesInfo
	if tv, ok := info.Types[e]; ok && tv.Value != nil {
		return provConst
	}
	switch v := e.(type) {
	case *ast.ParenExpr:
		return x.prov(pkg, fd, v.X, seen, depth+1)
	case *ast.BasicLit:
		return provConst
	case *ast.BinaryExpr:
		return x.prov(pkg, fd, v.X, seen, depth+1) | x.prov(pkg, fd, v.Y, seen, depth+1)
	case *ast.UnaryExpr:
		return x.prov(pkg, fd, v.X, seen, depth+1)
	case *ast.StarExpr:
		return x.prov(pkg, fd, v.X, seen, depth+1)
	case *ast.IndexExpr:
		return x.prov(pkg, fd, v.X, seen, depth+1)
	case *ast.SliceExpr:
		return x.prov(pkg, fd, v.X, seen, depth+1)
	case *ast.TypeAssertExpr:
		return x.prov(pkg, fd, v.X, seen, depth+1)
	case *ast.CompositeLit:
		p := 0
		for _, el := range v.Elts {
			if kv, ok := el.(*ast.KeyValueExpr); ok {
				p |= x.prov(pkg, fd, kv.Value, seen, depth+1)
			} else {
				p |= x.prov(pkg, fd, el, seen, depth+1)
			}
		}
		if p == 0 {
			p = provConst
		}

		return p
	case *ast.FuncLit:
		return x.unknown(e.Pos(), "function literal in a path expression")
	case *ast.CallExpr:
		return x.provCall(pkg, fd, v, seen, depth)
	case *ast.SelectorExpr:
		if sel, ok := info.Selections[v]; ok {
			switch sel.Kind() {
			case types.FieldVal:
				return x.provField(pkg, fd, v, sel, seen, depth)
			default:
				// method value
				return x.unknown(e.Pos(), "method value in a path expression")
			}
		}
		// Qualified identifier pkg.Name.
		return x.provObject(pkg, fd, info.Uses[v.Sel], v.Pos(), seen, depth)
	case *ast.Ident:
		obj := info.Uses[v]
		if obj == nil {
			obj = info.Defs[v]
		}

		return x.provObject(pkg, fd, obj, v.Pos(), seen, depth)
	default:
		return x.unknown(e.Pos(), "unsupported path expression %T", e)
	}
}

func (x *extractor) provObject(pkg *packages.Package, fd *ast.FuncDecl, obj types.Object, p token.Pos, seen map[types.Object]bool, depth int) int {
	switch o := obj.(type) {
	case *types.Const:
		return provConst
	case *types.Nil:
		return provConst
	case *types.Var:
		if seen[o] {
			return 0
		}
		seen[o] = true
		defer delete(seen, o)
		if o.IsField() {
			return provOther
		}
		if o.Parent() == nil || (o.Pkg() != nil && o.Parent() == o.Pkg().Scope()) {
			// Package-level variable: configuration or a compiled-in value.
			return provOther
		}
		if fd == nil {
			return provOther
		}
		if idx, isParam := paramIndex(pkg.TypesInfo, fd, o); isParam {
			return x.provParam(pkg, fd, idx, seen, depth)
		}
		if isReceiver(pkg.TypesInfo, fd, o) {
			return provOther
		}

		return x.provLocal(pkg, fd, o, seen, depth)
	case *types.Func:
		return x.unknown(p, "function value in a path expression")
	case *types.PkgName, *types.TypeName, *types.Builtin, nil:
		return provOther
	default:
		return x.unknown(p, "unsupported object %T in a path expression", obj)
	}
}

func isReceiver(info *types.Info, fd *ast.FuncDecl, vr *types.Var) bool {
	if fd.Recv == nil {
		return false
	}
	for _, fl := range fd.Recv.List {
		for _, nm := range fl.Names {
			if info.Defs[nm] == vr {
				return true
			}
		}
	}

	return false
}

func paramIndex(info *types.Info, fd *ast.FuncDecl, vr *types.Var) (idx int, ok bool) {
	if fd == nil || fd.Type.Params == nil {
		return 0, false
	}
	i := 0
	for _, fl := range fd.Type.Params.List {
		if len(fl.Names) == 0 {
			i++

			continue
		}
		for _, nm := range fl.Names {
			if info.Defs[nm] == vr {
				return i, true
			}
			i++
		}
	}

	return 0, false
}

func (x *extractor) provField(pkg *packages.Package, fd *ast.FuncDecl, v *ast.SelectorExpr, sel *types.Selection, seen map[types.Object]bool, depth int) int {
	fv := sel.Obj().(*types.Var)
	key := fieldOwner(sel) + "." + fv.Name()
	if p, ok := sourceFields[key]; ok {
		return p
	}
	// A field of a value that itself carries provenance (e.g. u.Path of a URL).
	base := 0
	if tv, ok := pkg.TypesInfo.Types[v.X]; ok {
		if n := namedOf(tv.Type); n != nil && n.Obj().Pkg() != nil && n.Obj().Pkg().Path() == "net/url" {
			return x.prov(pkg, fd, v.X, seen, depth+1)
		}
	}
	if seen[fv] {
		return 0
	}
	seen[fv] = true
	defer delete(seen, fv)
	ws := x.fieldWrites[fv]
	p := base
	for _, w := range ws {
		p |= x.prov(w.pkg, w.fn, w.val, seen, depth+1)
	}
	if p == 0 {
		// Never written in the module: decoded configuration, flags, zero value.
		p = provOther
	}

	return p
}

func (x *extractor) provCall(pkg *packages.Package, fd *ast.FuncDecl, v *ast.CallExpr, seen map[types.Object]bool, depth int) int {
	info := pkg.TypesInfo
	fn := calleeOf(info, v)
	joinArgs := func() int {
		p := 0
		for _, a := range v.Args {
			p |= x.prov(pkg, fd, a, seen, depth+1)
		}
		if se, ok := ast.Unparen(v.Fun).(*ast.SelectorExpr); ok {
			if _, isSel := info.Selections[se]; isSel {
				p |= x.prov(pkg, fd, se.X, seen, depth+1) // receiver
			}
		}

		return p
	}
	if fn == nil {
		if tv, ok := info.Types[v.Fun]; ok && tv.IsType() && len(v.Args) == 1 {
			return x.prov(pkg, fd, v.Args[0], seen, depth+1) // conversion
		}
		if id, ok := ast.Unparen(v.Fun).(*ast.Ident); ok {
			if _, isBuiltin := info.Uses[id].(*types.Builtin); isBuiltin {
				p := joinArgs()
				if p == 0 {
					p = provConst
				}

				return p
			}
		}
		// Call of a function value / interface method of unknown implementation.
		p := joinArgs() | provOther

		return p
	}
	name := fullName(fn)
	switch name {
	case fltPkg + ".FilterYAML.Path":
		return provDataDir
	}
	p := joinArgs()
	if fi, ok := x.funcs[fn]; ok && fi.decl.Body != nil {
		// Module function: what it returns, in its own context.
		if !seen[fn] {
			seen[fn] = true
			ast.Inspect(fi.decl.Body, func(n ast.Node) bool {
				switch r := n.(type) {
				case *ast.FuncLit:
					return false
				case *ast.ReturnStmt:
					if len(r.Results) > 0 {
						p |= x.prov(fi.pkg, fi.decl, r.Results[0], seen, depth+1)
					}
				}

				return true
			})
			delete(seen, fn)
		}
	} else if fn.Pkg() != nil && strings.HasPrefix(fn.Pkg().Path(), modPath) {
		p |= provOther
	}
	if p == 0 {
		p = provOther
	}

	return p
}

func (x *extractor) provParam(pkg *packages.Package, fd *ast.FuncDecl, idx int, seen map[types.Object]bool, depth int) int {
	obj, _ := pkg.TypesInfo.Defs[fd.Name].(*types.Func)
	calls := x.callsOf[obj]
	if obj == nil || len(calls) == 0 {
		// Exported API, interface implementation, HTTP handler or dead code:
		// the callers are not in view.
		return provOther
	}
	sig := obj.Type().(*types.Signature)
	p := 0
	for _, c := range calls {
		if sig.Variadic() && idx >= sig.Params().Len()-1 {
			for _, a := range c.call.Args[min(idx, len(c.call.Args)):] {
				p |= x.prov(c.pkg, c.fn, a, seen, depth+1)
			}

			continue
		}
		if idx >= len(c.call.Args) {
			x.fatal(c.call.Pos(), "short call of %s", fullName(obj))
		}
		p |= x.prov(c.pkg, c.fn, c.call.Args[idx], seen, depth+1)
	}
	if p == 0 {
		p = provOther
	}

	return p
}

func (x *extractor) provLocal(pkg *packages.Package, fd *ast.FuncDecl, vr *types.Var, seen map[types.Object]bool, depth int) int {
	info := pkg.TypesInfo
	found := false
	p := 0
	add := func(rhs ast.Expr) {
		found = true
		p |= x.prov(pkg, fd, rhs, seen, depth+1)
	}
	ast.Inspect(fd.Body, func(n ast.Node) bool {
		switch st := n.(type) {
		case *ast.AssignStmt:
			for i, lhs := range st.Lhs {
				id, ok := lhs.(*ast.Ident)
				if !ok || (info.Defs[id] != vr && info.Uses[id] != vr) {
					continue
				}
				switch {
				case len(st.Rhs) == len(st.Lhs):
					add(st.Rhs[i])
				case len(st.Rhs) == 1:
					// a, b := f(): the provenance of the call for every result.
					add(st.Rhs[0])
				}
			}
		case *ast.ValueSpec:
			for i, nm := range st.Names {
				if info.Defs[nm] != vr {
					continue
				}
				switch {
				case i < len(st.Values):
					add(st.Values[i])
				case len(st.Values) == 1:
					add(st.Values[0])
				default:
					found = true
					p |= provConst // zero value
				}
			}
		case *ast.RangeStmt:
			for _, lhs := range []ast.Expr{st.Key, st.Value} {
				if id, ok := lhs.(*ast.Ident); ok && (info.Defs[id] == vr || info.Uses[id] == vr) {
					add(st.X)
				}
			}
		case *ast.TypeSwitchStmt:
			if as, ok := st.Assign.(*ast.AssignStmt); ok && len(as.Lhs) == 1 && len(as.Rhs) == 1 {
				if id, isID := as.Lhs[0].(*ast.Ident); isID && info.Defs[id] == vr {
					add(as.Rhs[0])
				}
			}
		}

		return true
	})
	if !found {
		// Named result, closure parameter, or the implicit object of a type switch.
		if fd.Type.Results != nil {
			for _, fl := range fd.Type.Results.List {
				for _, nm := range fl.Names {
					if info.Defs[nm] == vr {
						return provConst
					}
				}
			}
		}
		// Variables of case clauses of a type switch are implicit objects.
		for _, imp := range info.Implicits {
			if imp == vr {
				return provOther
			}
		}

		// Parameter of a function literal that is called on the spot
		// (`defer func(a T) {…}(arg)`): the argument.
		if arg := closureArg(info, fd, vr); arg != nil {
			return x.prov(pkg, fd, arg, seen, depth+1)
		}

		return x.unknown(vr.Pos(), "variable %s is never assigned in view (parameter of a stored closure?)", vr.Name())
	}
	if p == 0 {
		p = provOther
	}

	return p
}

// closureArg returns the argument bound to vr when vr is a parameter of a
// function literal that is called immediately.
func closureArg(info *types.Info, fd *ast.FuncDecl, vr *types.Var) (arg ast.Expr) {
	ast.Inspect(fd.Body, func(n ast.Node) bool {
		call, ok := n.(*ast.CallExpr)
		if !ok {
			return true
		}
		fl, ok := ast.Unparen(call.Fun).(*ast.FuncLit)
		if !ok || fl.Type.Params == nil {
			return true
		}
		i := 0
		for _, f := range fl.Type.Params.List {
			if len(f.Names) == 0 {
				i++

				continue
			}
			for _, nm := range f.Names {
				if info.Defs[nm] == vr && i < len(call.Args) {
					arg = call.Args[i]
				}
				i++
			}
		}

		return true
	})

	return arg
}

// ---------------------------------------------------------------- guards

func endsInReturn(b *ast.BlockStmt) bool {
	if b == nil || len(b.List) == 0 {
		return false
	}
	_, ok := b.List[len(b.List)-1].(*ast.ReturnStmt)

	return ok
}

func varOf(info *types.Info, e ast.Expr) types.Object {
	id, ok := ast.Unparen(e).(*ast.Ident)
	if !ok {
		return nil
	}
	if o := info.Uses[id]; o != nil {
		return o
	}

	return info.Defs[id]
}

// isGuard recognises `if !pathMatchesAny(d.safeFSPatterns, v) { …; return … }`.
func (x *extractor) isGuard(pkg *packages.Package, st ast.Stmt, v types.Object) bool {
	info := pkg.TypesInfo
	ifs, ok := st.(*ast.IfStmt)
	if !ok || ifs.Init != nil || ifs.Else != nil || !endsInReturn(ifs.Body) {
		return false
	}
	un, ok := ast.Unparen(ifs.Cond).(*ast.UnaryExpr)
	if !ok || un.Op != token.NOT {
		return false
	}
	call, ok := ast.Unparen(un.X).(*ast.CallExpr)
	if !ok || len(call.Args) != 2 {
		return false
	}
	fn := calleeOf(info, call)
	if fn == nil || fullName(fn) != fltPkg+".pathMatchesAny" {
		return false
	}
	if varOf(info, call.Args[1]) != v {
		return false
	}
	se, ok := ast.Unparen(call.Args[0]).(*ast.SelectorExpr)
	if !ok {
		return false
	}
	sel, ok := info.Selections[se]
	if !ok || sel.Kind() != types.FieldVal || fieldOwner(sel)+"."+sel.Obj().Name() != fltPkg+".DNSFilter.safeFSPatterns" {
		return false
	}
	// The refusal must return a non-nil error.
	ret := ifs.Body.List[len(ifs.Body.List)-1].(*ast.ReturnStmt)
	if len(ret.Results) == 0 {
		return false
	}
	last := ret.Results[len(ret.Results)-1]
	if id, isID := ast.Unparen(last).(*ast.Ident); isID && id.Name == "nil" {
		return false
	}

	return true
}

// isCleanAssign recognises `v = filepath.Clean(v)`.
func isCleanAssign(info *types.Info, st ast.Stmt, v types.Object) bool {
	as, ok := st.(*ast.AssignStmt)
	if !ok || len(as.Lhs) != 1 || len(as.Rhs) != 1 || varOf(info, as.Lhs[0]) != v {
		return false
	}
	call, ok := ast.Unparen(as.Rhs[0]).(*ast.CallExpr)
	if !ok || len(call.Args) != 1 || varOf(info, call.Args[0]) != v {
		return false
	}
	fn := calleeOf(info, call)

	return fn != nil && fullName(fn) == "path/filepath.Clean"
}

func assignsVar(info *types.Info, st ast.Stmt, v types.Object) bool {
	found := false
	ast.Inspect(st, func(n ast.Node) bool {
		switch s := n.(type) {
		case *ast.AssignStmt:
			for _, lhs := range s.Lhs {
				if varOf(info, lhs) == v {
					found = true
				}
			}
		case *ast.UnaryExpr:
			if s.Op == token.AND && varOf(info, s.X) == v {
				found = true
			}
		case *ast.IncDecStmt:
			if varOf(info, s.X) == v {
				found = true
			}
		}

		return true
	})

	return found
}

func containsNode(st ast.Stmt, target ast.Node) bool {
	found := false
	ast.Inspect(st, func(n ast.Node) bool {
		if n == target {
			found = true
		}

		return !found
	})

	return found
}

// guard classifies the safe-pattern test around a site whose path argument is
// the plain variable v: within ONE statement list,
//
//	v = filepath.Clean(v)
//	[guard]            -- guardBefore
//	… SITE(v) …
//	[if err != nil { return }  guard]   -- guardAfter
//
// with no other assignment to v between the Clean and the later of site/guard.
func (x *extractor) guard(pkg *packages.Package, fd *ast.FuncDecl, call *ast.CallExpr, arg ast.Expr) int {
	info := pkg.TypesInfo
	v := varOf(info, arg)
	if v == nil {
		return guardNone
	}
	res := guardNone
	ast.Inspect(fd.Body, func(n ast.Node) bool {
		var list []ast.Stmt
		switch b := n.(type) {
		case *ast.BlockStmt:
			list = b.List
		case *ast.CaseClause:
			list = b.Body
		default:
			return true
		}
		si := -1
		for i, st := range list {
			// The site must be directly in a simple statement of this list
			// (not nested in a branch or a closure of it).
			switch s := st.(type) {
			case *ast.AssignStmt, *ast.ExprStmt, *ast.ReturnStmt:
				if containsNode(s, call) {
					si = i
				}
			}
		}
		if si < 0 {
			return true
		}
		ci := -1
		for i := si - 1; i >= 0; i-- {
			if isCleanAssign(info, list[i], v) {
				ci = i

				break
			}
		}
		if ci < 0 {
			return true
		}
		gi := -1
		for i := ci + 1; i < len(list); i++ {
			if x.isGuard(pkg, list[i], v) {
				gi = i

				break
			}
		}
		if gi < 0 {
			return true
		}
		last := max(si, gi)
		for i := ci + 1; i <= last; i++ {
			if i == si || i == gi {
				continue
			}
			if assignsVar(info, list[i], v) {
				return true
			}
		}
		if gi < si {
			res = guardBefore

			return false
		}
		// Site first: everything between it and the guard may only be error returns.
		for i := si + 1; i < gi; i++ {
			ifs, ok := list[i].(*ast.IfStmt)
			if !ok || !endsInReturn(ifs.Body) || ifs.Else != nil {
				return true
			}
		}
		res = guardAfter

		return false
	})

	return res
}

// ---------------------------------------------------------------- URL writes

// collectURLWrites lists every value stored into filtering.FilterYAML.URL.
func (x *extractor) collectURLWrites() {
	var urlField *types.Var
	for fv := range x.fieldWrites {
		if fv.Name() != "URL" || fv.Pkg() == nil || fv.Pkg().Path() != fltPkg {
			continue
		}
		// Identify FilterYAML.URL by its declaring struct.
		for _, pkg := range x.pkgs {
			if pkg.PkgPath != fltPkg {
				continue
			}
			tn, _ := pkg.Types.Scope().Lookup("FilterYAML").(*types.TypeName)
			if tn == nil {
				continue
			}
			st := tn.Type().Underlying().(*types.Struct)
			for i := 0; i < st.NumFields(); i++ {
				if st.Field(i) == fv {
					urlField = fv
				}
			}
		}
	}
	if urlField == nil {
		fmt.Fprintln(os.Stderr, "extract c17: no write to filtering.FilterYAML.URL found (anchor lost)")
		os.Exit(3)
	}
	ws := append([]fieldWrite{}, x.fieldWrites[urlField]...)
	sort.Slice(ws, func(i, j int) bool { return x.posLess(ws[i].val.Pos(), ws[j].val.Pos()) })
	for _, w := range ws {
		x.strict = inFiltering(w.pkg.PkgPath)
		p := x.prov(w.pkg, w.fn, w.val, map[types.Object]bool{}, 0)
		fname := x.funcName(w.pkg, w.fn)
		uw := &urlWrite{
			ID: len(x.writes), Pos: x.pos(w.val.Pos()), Func: fname, Role: roles[fname], Prov: p,
			ProvTxt: provText(p), Expr: x.exprText(w.val),
		}
		if p&provReqURL != 0 && w.fn != nil {
			uw.Validated = x.validated(w.pkg, w.fn, w.val)
		}
		x.writes = append(x.writes, uw)
	}
}

// validated checks that, in the top-level statement list of the function,
//
//	err = d.validateFilterURL(E)        (or err := …)
//	if err != nil { …; return }
//
// precede the statement containing the URL write, with E the same expression
// as the value written.
func (x *extractor) validated(pkg *packages.Package, fd *ast.FuncDecl, val ast.Expr) bool {
	info := pkg.TypesInfo
	list := fd.Body.List
	wi := -1
	for i, st := range list {
		if containsNode(st, val) {
			wi = i
		}
	}
	if wi < 0 {
		return false
	}
	want := strings.Join(strings.Fields(x.exprText(val)), "")
	for i := 0; i+1 < wi; i++ {
		as, ok := list[i].(*ast.AssignStmt)
		if !ok || len(as.Rhs) != 1 || len(as.Lhs) != 1 {
			continue
		}
		call, ok := ast.Unparen(as.Rhs[0]).(*ast.CallExpr)
		if !ok || len(call.Args) != 1 {
			continue
		}
		fn := calleeOf(info, call)
		if fn == nil || fullName(fn) != fltPkg+".DNSFilter.validateFilterURL" {
			continue
		}
		if strings.Join(strings.Fields(x.exprText(call.Args[0])), "") != want {
			continue
		}
		errVar := varOf(info, as.Lhs[0])
		ifs, ok := list[i+1].(*ast.IfStmt)
		if !ok || ifs.Init != nil || ifs.Else != nil || !endsInReturn(ifs.Body) {
			continue
		}
		be, ok := ast.Unparen(ifs.Cond).(*ast.BinaryExpr)
		if !ok || be.Op != token.NEQ || varOf(info, be.X) != errVar {
			continue
		}
		if id, isID := ast.Unparen(be.Y).(*ast.Ident); !isID || id.Name != "nil" {
			continue
		}
		// Nothing between may reassign the request value: it is a field of a
		// local decoded before; require that no statement in between assigns
		// to the root variable of E.
		root := rootVar(info, val)
		clean := true
		for j := i + 2; j < wi; j++ {
			if root != nil && assignsVar(info, list[j], root) {
				clean = false
			}
		}
		if clean {
			return true
		}
	}

	return false
}

func rootVar(info *types.Info, e ast.Expr) types.Object {
	for {
		switch v := ast.Unparen(e).(type) {
		case *ast.SelectorExpr:
			e = v.X
		case *ast.StarExpr:
			e = v.X
		case *ast.Ident:
			return varOf(info, v)
		default:
			return nil
		}
	}
}

// ---------------------------------------------------------------- safe patterns

// collectPatternWrites lists every store into DNSFilter.safeFSPatterns and
// recognises the one shape that copies the configured list, validated, with
// nothing added.
func (x *extractor) collectPatternWrites() {
	var field *types.Var
	var cfgField *types.Var
	for _, pkg := range x.pkgs {
		if pkg.PkgPath != fltPkg {
			continue
		}
		for _, tc := range []struct {
			typ, fld string
			dst      **types.Var
		}{{"DNSFilter", "safeFSPatterns", &field}, {"Config", "SafeFSPatterns", &cfgField}} {
			tn, _ := pkg.Types.Scope().Lookup(tc.typ).(*types.TypeName)
			if tn == nil {
				continue
			}
			st, ok := tn.Type().Underlying().(*types.Struct)
			if !ok {
				continue
			}
			for i := 0; i < st.NumFields(); i++ {
				if st.Field(i).Name() == tc.fld {
					*tc.dst = st.Field(i)
				}
			}
		}
	}
	if field == nil || cfgField == nil {
		fmt.Fprintln(os.Stderr, "extract c17: anchor fields DNSFilter.safeFSPatterns / Config.SafeFSPatterns not found")
		os.Exit(3)
	}
	ws := append([]fieldWrite{}, x.fieldWrites[field]...)
	sort.Slice(ws, func(i, j int) bool { return x.posLess(ws[i].val.Pos(), ws[j].val.Pos()) })
	for _, w := range ws {
		pw := &patWrite{ID: len(x.pats), Pos: x.pos(w.val.Pos()), Func: x.funcName(w.pkg, w.fn), Expr: x.exprText(w.val)}
		if w.fn != nil && pw.Func == fltPkg+".New" && x.isConfiguredAppend(w.pkg, w.fn, w.val, field, cfgField) {
			pw.Kind = 1
		}
		x.pats = append(x.pats, pw)
	}
	// Any other way of reaching the field (address taken, passed by pointer)
	// is outside the supported subset.
	for _, pkg := range x.pkgs {
		for _, file := range pkg.Syntax {
			ast.Inspect(file, func(n ast.Node) bool {
				un, ok := n.(*ast.UnaryExpr)
				if !ok || un.Op != token.AND {
					return true
				}
				if se, isSel := ast.Unparen(un.X).(*ast.SelectorExpr); isSel {
					if sel, has := pkg.TypesInfo.Selections[se]; has && sel.Obj() == field {
						x.fatal(un.Pos(), "address of DNSFilter.safeFSPatterns taken")
					}
				}

				return true
			})
		}
	}
}

func (x *extractor) isConfiguredAppend(pkg *packages.Package, fd *ast.FuncDecl, val ast.Expr, field, cfgField *types.Var) bool {
	info := pkg.TypesInfo
	call, ok := ast.Unparen(val).(*ast.CallExpr)
	if !ok || len(call.Args) != 2 || call.Ellipsis != token.NoPos {
		return false
	}
	if id, isID := ast.Unparen(call.Fun).(*ast.Ident); !isID || id.Name != "append" {
		return false
	} else if _, isBuiltin := info.Uses[id].(*types.Builtin); !isBuiltin {
		return false
	}
	se, ok := ast.Unparen(call.Args[0]).(*ast.SelectorExpr)
	if !ok {
		return false
	}
	if sel, has := info.Selections[se]; !has || sel.Obj() != field {
		return false
	}
	p := varOf(info, call.Args[1])
	if p == nil {
		return false
	}
	// Find the range statement that declares p and contains the append.
	found := false
	ast.Inspect(fd.Body, func(n ast.Node) bool {
		rs, isRange := n.(*ast.RangeStmt)
		if !isRange || rs.Value == nil || varOf(info, rs.Value) != p || !containsNode(rs.Body, call) {
			return true
		}
		// … over the configured list itself
		xs, isSel := ast.Unparen(rs.X).(*ast.SelectorExpr)
		if !isSel {
			return true
		}
		sel, has := info.Selections[xs]
		if !has || sel.Obj() != cfgField {
			return true
		}
		if _, isParam := paramIndexOf(info, fd, rootVar(info, xs)); !isParam {
			return true
		}
		// … with the validation and its error return before the append,
		// directly in the loop body, and no assignment to p.
		ai := -1
		for i, st := range rs.Body.List {
			if containsNode(st, call) {
				ai = i
			}
		}
		vi := -1
		for i := 0; i+1 < ai; i++ {
			as, isAs := rs.Body.List[i].(*ast.AssignStmt)
			if !isAs || len(as.Rhs) != 1 || len(as.Lhs) != 2 {
				continue
			}
			mc, isCall := ast.Unparen(as.Rhs[0]).(*ast.CallExpr)
			if !isCall || len(mc.Args) != 2 || varOf(info, mc.Args[0]) != p {
				continue
			}
			fn := calleeOf(info, mc)
			if fn == nil || fullName(fn) != "path/filepath.Match" {
				continue
			}
			errVar := varOf(info, as.Lhs[1])
			ifs, isIf := rs.Body.List[i+1].(*ast.IfStmt)
			if !isIf || ifs.Else != nil || !endsInReturn(ifs.Body) {
				continue
			}
			be, isBin := ast.Unparen(ifs.Cond).(*ast.BinaryExpr)
			if !isBin || be.Op != token.NEQ || varOf(info, be.X) != errVar {
				continue
			}
			vi = i
		}
		if ai < 0 || vi < 0 {
			return true
		}
		for _, st := range rs.Body.List {
			if !containsNode(st, call) && assignsVar(info, st, p) {
				return true
			}
		}
		found = true

		return false
	})

	return found
}

func paramIndexOf(info *types.Info, fd *ast.FuncDecl, obj types.Object) (int, bool) {
	vr, ok := obj.(*types.Var)
	if !ok {
		return 0, false
	}

	return paramIndex(info, fd, vr)
}

// ---------------------------------------------------------------- HTTP client

func isHTTPType(t types.Type, name string) bool {
	n := namedOf(t)

	return n != nil && n.Obj().Pkg() != nil && n.Obj().Pkg().Path() == "net/http" && n.Obj().Name() == name
}

// plainClientLit recognises `&http.Client{…, Transport: &http.Transport{…}, …}`.
func plainClientLit(info *types.Info, e ast.Expr) bool {
	un, ok := ast.Unparen(e).(*ast.UnaryExpr)
	if !ok || un.Op != token.AND {
		return false
	}
	lit, ok := ast.Unparen(un.X).(*ast.CompositeLit)
	if !ok {
		return false
	}
	if tv, has := info.Types[lit]; !has || !isHTTPType(tv.Type, "Client") {
		return false
	}
	for _, el := range lit.Elts {
		kv, isKV := el.(*ast.KeyValueExpr)
		if !isKV {
			return false
		}
		if id, isID := kv.Key.(*ast.Ident); isID && id.Name == "Transport" {
			tu, isUn := ast.Unparen(kv.Value).(*ast.UnaryExpr)
			if !isUn || tu.Op != token.AND {
				return false
			}
			tl, isLit := ast.Unparen(tu.X).(*ast.CompositeLit)
			if !isLit {
				return false
			}
			tv, has := info.Types[tl]

			return has && isHTTPType(tv.Type, "Transport")
		}
	}

	// No Transport given: http.DefaultTransport, which other code could have
	// registered protocols on — not the recognised shape.
	return false
}

// collectClientFacts lists the stores into filtering.Config.HTTPClient and
// every use of the functions that teach a transport another URL scheme.
func (x *extractor) collectClientFacts() {
	var field *types.Var
	for _, pkg := range x.pkgs {
		if pkg.PkgPath != fltPkg {
			continue
		}
		tn, _ := pkg.Types.Scope().Lookup("Config").(*types.TypeName)
		if tn == nil {
			continue
		}
		if st, ok := tn.Type().Underlying().(*types.Struct); ok {
			for i := 0; i < st.NumFields(); i++ {
				if st.Field(i).Name() == "HTTPClient" {
					field = st.Field(i)
				}
			}
		}
	}
	if field == nil {
		fmt.Fprintln(os.Stderr, "extract c17: anchor field filtering.Config.HTTPClient not found")
		os.Exit(3)
	}
	ws := append([]fieldWrite{}, x.fieldWrites[field]...)
	sort.Slice(ws, func(i, j int) bool { return x.posLess(ws[i].val.Pos(), ws[j].val.Pos()) })
	for _, w := range ws {
		cw := &clientWrite{ID: len(x.clients), Pos: x.pos(w.val.Pos()), Func: x.funcName(w.pkg, w.fn), Expr: x.exprText(w.val)}
		if call, ok := ast.Unparen(w.val).(*ast.CallExpr); ok {
			if fn := calleeOf(w.pkg.TypesInfo, call); fn != nil {
				if fi, known := x.funcs[fn]; known && fi.decl.Body != nil {
					all, any := true, false
					ast.Inspect(fi.decl.Body, func(n ast.Node) bool {
						switch r := n.(type) {
						case *ast.FuncLit:
							return false
						case *ast.ReturnStmt:
							any = true
							if len(r.Results) != 1 || !plainClientLit(fi.pkg.TypesInfo, r.Results[0]) {
								all = false
							}
						}

						return true
					})
					if all && any {
						cw.Kind = 1
					}
				}
			}
		}
		x.clients = append(x.clients, cw)
	}
	for _, pkg := range x.pkgs {
		for _, file := range pkg.Syntax {
			for id, obj := range pkg.TypesInfo.Uses {
				fn, ok := obj.(*types.Func)
				if !ok || id.Pos() < file.Pos() || id.Pos() > file.End() {
					continue
				}
				switch fullName(fn) {
				case "net/http.Transport.RegisterProtocol", "net/http.NewFileTransport", "net/http.NewFileTransportFS":
					x.protoRefs = append(x.protoRefs, x.pos(id.Pos())+" "+fullName(fn))
				}
			}
		}
	}
	sort.Strings(x.protoRefs)
}

// ---------------------------------------------------------------- output

func (x *extractor) write() {
	verif := verifRoot()
	genPath := filepath.Join(verif, "lean/AGH/Gen/C17OpenSites.lean")
	_ = os.Remove(genPath)
	must(os.MkdirAll(filepath.Dir(genPath), 0o755))

	var sb strings.Builder
	sb.WriteString("/- GENERATED by /verif/extract/cmd/c17 from the Go sources; do not edit.\n")
	sb.WriteString("   op:    0 open/read, 1 stat, 2 list/glob, 3 library open, 4 exec, 5 create/write/remove/rename/…\n")
	sb.WriteString("   prov:  bit set — 1 other, 2 data directory, 4 stored filter URL (FilterYAML.URL),\n")
	sb.WriteString("          8 URL field of a filtering API request, 16 URL of the unwired rulelist.Filter, 32 constant\n")
	sb.WriteString("   role:  0 other, 1 DNSFilter.reader, 2 DNSFilter.validateFilterURL,\n")
	sb.WriteString("          3 DNSFilter.handleFilteringAddURL, 4 DNSFilter.handleFilteringSetURL\n")
	sb.WriteString("   guard: 0 none, 1 `v = Clean(v); if !pathMatchesAny(d.safeFSPatterns, v) {return err}` before the site,\n")
	sb.WriteString("          2 the same test right after the site (only error returns between) -/\n")
	sb.WriteString("namespace AGH.C17.Gen\n\n")
	sb.WriteString("structure Site where\n  id : Nat\n  op : Nat\n  prov : Nat\n  inFiltering : Bool\n  role : Nat\n  guard : Nat\n  deriving DecidableEq, Repr\n\n")
	sb.WriteString("def sites : List Site := [\n")
	for i, s := range x.sites {
		comma := ","
		if i == len(x.sites)-1 {
			comma = ""
		}
		fmt.Fprintf(&sb, "  ⟨%d, %d, %d, %v, %d, %d⟩%s  -- %s %s(%s) in %s [%s]\n",
			s.ID, s.Op, s.Prov, s.InFlt, s.Role, s.Guard, comma, s.Pos, shortCallee(s.Callee), oneLine(s.Path),
			strings.TrimPrefix(s.Func, modPath+"/internal/"), s.ProvTxt)
	}
	sb.WriteString("]\n\n")
	sb.WriteString("/-- A value stored into `filtering.FilterYAML.URL`. -/\n")
	sb.WriteString("structure URLWrite where\n  id : Nat\n  prov : Nat\n  role : Nat\n  validated : Bool\n  deriving DecidableEq, Repr\n\n")
	sb.WriteString("def urlWrites : List URLWrite := [\n")
	for i, w := range x.writes {
		comma := ","
		if i == len(x.writes)-1 {
			comma = ""
		}
		fmt.Fprintf(&sb, "  ⟨%d, %d, %d, %v⟩%s  -- %s URL := %s in %s [%s]\n",
			w.ID, w.Prov, w.Role, w.Validated, comma, w.Pos, oneLine(w.Expr),
			strings.TrimPrefix(w.Func, modPath+"/internal/"), w.ProvTxt)
	}
	sb.WriteString("]\n\n")
	sb.WriteString("/-- A store into `DNSFilter.safeFSPatterns`.  kind 1: the append of the element of\n")
	sb.WriteString("`for _, p := range c.SafeFSPatterns` in filtering.New, after `filepath.Match(p, …)` and its error\n")
	sb.WriteString("return; kind 0: anything else (a default, a literal, another function). -/\n")
	sb.WriteString("structure PatternWrite where\n  id : Nat\n  kind : Nat\n  deriving DecidableEq, Repr\n\n")
	sb.WriteString("def patternWrites : List PatternWrite := [\n")
	for i, w := range x.pats {
		comma := ","
		if i == len(x.pats)-1 {
			comma = ""
		}
		fmt.Fprintf(&sb, "  ⟨%d, %d⟩%s  -- %s safeFSPatterns := %s in %s\n", w.ID, w.Kind, comma, w.Pos, oneLine(w.Expr),
			strings.TrimPrefix(w.Func, modPath+"/internal/"))
	}
	sb.WriteString("]\n\n")
	sb.WriteString("/-- A store into `filtering.Config.HTTPClient` (the client `reader` hands every non-absolute\n")
	sb.WriteString("location to).  kind 1: a call of a module function whose every return is\n")
	sb.WriteString("`&http.Client{…, Transport: &http.Transport{…}}`; kind 0: anything else. -/\n")
	sb.WriteString("structure ClientWrite where\n  id : Nat\n  kind : Nat\n  deriving DecidableEq, Repr\n\n")
	sb.WriteString("def clientWrites : List ClientWrite := [\n")
	for i, w := range x.clients {
		comma := ","
		if i == len(x.clients)-1 {
			comma = ""
		}
		fmt.Fprintf(&sb, "  ⟨%d, %d⟩%s  -- %s HTTPClient := %s in %s\n", w.ID, w.Kind, comma, w.Pos, oneLine(w.Expr),
			strings.TrimPrefix(w.Func, modPath+"/internal/"))
	}
	sb.WriteString("]\n\n")
	sb.WriteString("/-- Uses, in non-test code of the module, of `(*http.Transport).RegisterProtocol`,\n")
	sb.WriteString("`http.NewFileTransport` and `http.NewFileTransportFS` (what makes a client serve `file:` URLs). -/\n")
	fmt.Fprintf(&sb, "def protocolRegistrations : Nat := %d\n\n", len(x.protoRefs))
	sb.WriteString("/-- References, outside internal/filtering/rulelist and outside tests, to the constructors\n")
	sb.WriteString("(NewFilter, NewEngine, NewStorage, NewTextEngine) of the rule-list implementation that is not wired\n")
	sb.WriteString("into the server yet. -/\n")
	fmt.Fprintf(&sb, "def nextImplRefs : Nat := %d\n", len(x.nextRefs))
	sb.WriteString("\nend AGH.C17.Gen\n")
	must(os.WriteFile(genPath, []byte(sb.String()), 0o644))

	type summary struct {
		Sites          int            `json:"sites"`
		SitesFiltering int            `json:"sites_in_filtering"`
		ByOp           map[string]int `json:"by_op"`
		URLFed         []string       `json:"url_fed_sites"`
		NextFed        []string       `json:"next_impl_url_fed_sites"`
		URLWrites      int            `json:"url_writes"`
		URLWritesReq   int            `json:"url_writes_from_request"`
		NextImplRefs   []string       `json:"next_impl_constructor_refs"`
		Packages       int            `json:"packages"`
	}
	sum := summary{ByOp: map[string]int{}, Packages: len(x.pkgs), NextImplRefs: x.nextRefs}
	for _, s := range x.sites {
		sum.Sites++
		if s.InFlt {
			sum.SitesFiltering++
		}
		sum.ByOp[s.OpName]++
		if s.Prov&(provFltURL|provReqURL) != 0 {
			sum.URLFed = append(sum.URLFed, fmt.Sprintf("%s %s guard=%d", s.Pos, shortCallee(s.Callee), s.Guard))
		}
		if s.Prov&provNextURL != 0 {
			sum.NextFed = append(sum.NextFed, fmt.Sprintf("%s %s", s.Pos, shortCallee(s.Callee)))
		}
	}
	for _, w := range x.writes {
		sum.URLWrites++
		if w.Prov&provReqURL != 0 {
			sum.URLWritesReq++
		}
	}
	out := map[string]any{"summary": sum, "sites": x.sites, "url_writes": x.writes, "pattern_writes": x.pats, "client_writes": x.clients,
		"protocol_registrations": x.protoRefs, "repo": x.repo}
	b, err := json.MarshalIndent(out, "", " ")
	must(err)
	factsDir := filepath.Join(verif, "build/C17")
	must(os.MkdirAll(factsDir, 0o755))
	must(os.WriteFile(filepath.Join(factsDir, "facts.json"), b, 0o644))
	fmt.Printf("c17: %d file-system sites (%d in filtering), %d fed by a filter URL, %d URL writes (%d from requests), %d refs to the unwired implementation\n",
		sum.Sites, sum.SitesFiltering, len(sum.URLFed), sum.URLWrites, sum.URLWritesReq, len(x.nextRefs))
}

func verifRoot() string {
	if v := os.Getenv("VERIF_ROOT"); v != "" {
		return v
	}

	return "/verif"
}

func shortCallee(s string) string {
	if i := strings.LastIndex(s, "/"); i >= 0 {
		return s[i+1:]
	}

	return s
}

func oneLine(s string) string {
	s = strings.Join(strings.Fields(s), " ")
	if len(s) > 60 {
		s = s[:57] + "..."
	}

	return strings.ReplaceAll(s, "-/", "- /")
}

func must(err error) {
	if err != nil {
		fmt.Fprintln(os.Stderr, "extract c17:", err)
		os.Exit(2)
	}
}

var _ = constant.MakeBool
