// Command c15 is the fact extractor of property C15 (translator tie of the
// commit / abandon decision of a filter refresh).  From the typed syntax of
// internal/filtering/filter.go it regenerates
//
//	lean/AGH/Gen/C15Refresh.lean   the facts, as the source states them
//	build/C15/facts.json           the same with file:line
//
// Facts:
//
//   - (*DNSFilter).updateIntl: its steps in source order (calls of
//     NewPendingFile, reader, Parse, NewParser, the buffer pool, and the deferred
//     finalizeUpdate / Close, marked `defer:`), and the conjuncts of its final
//     return expression (when is the refresh "updated");
//   - (*DNSFilter).finalizeUpdate: the guard of its first if statement, the
//     PendingFile methods called on that (abandon) branch, and on the other
//     (commit) path the events in source order as (kind, what) pairs: calls of
//     PendingFile / list methods (`call`), `return`s, assignments to fields of
//     the list (`assign`).
//
// A missing / duplicated function or an unexpected shape aborts with file:line —
// a broken tie, never a default.
package main

import (
	"encoding/json"
	"fmt"
	"go/ast"
	"go/token"
	"go/types"
	"os"
	"path/filepath"
	"strings"

	"golang.org/x/tools/go/packages"

	"verif/extract/internal/load"
)

const fltPkg = "github.com/AdguardTeam/AdGuardHome/internal/filtering"

var fset *token.FileSet

func die(pos token.Pos, format string, args ...any) {
	fmt.Fprintf(os.Stderr, "extract c15: %s: %s\n", fset.Position(pos), fmt.Sprintf(format, args...))
	os.Exit(2)
}

func method(pkg *packages.Package, recv, name string) *ast.FuncDecl {
	var found *ast.FuncDecl
	for _, f := range pkg.Syntax {
		if strings.HasSuffix(fset.Position(f.Pos()).Filename, "_test.go") {
			continue
		}
		for _, d := range f.Decls {
			fd, ok := d.(*ast.FuncDecl)
			if !ok || fd.Name.Name != name || fd.Recv == nil || len(fd.Recv.List) != 1 {
				continue
			}
			t := fd.Recv.List[0].Type
			if st, isStar := t.(*ast.StarExpr); isStar {
				t = st.X
			}
			if id, isID := t.(*ast.Ident); !isID || id.Name != recv {
				continue
			}
			if found != nil {
				die(fd.Pos(), "duplicate declaration of %s.%s", recv, name)
			}
			found = fd
		}
	}
	if found == nil || found.Body == nil {
		fmt.Fprintf(os.Stderr, "extract c15: method %s.%s not found\n", recv, name)
		os.Exit(2)
	}

	return found
}

var updSteps = map[string]bool{
	"NewPendingFile": true, "finalizeUpdate": true, "reader": true, "Close": true, "Get": true, "Put": true,
	"NewParser": true, "Parse": true, "CloseReplace": true, "Cleanup": true,
}

func callName(ce *ast.CallExpr) string {
	switch fn := ce.Fun.(type) {
	case *ast.Ident:
		return fn.Name
	case *ast.SelectorExpr:
		return fn.Sel.Name
	}

	return ""
}

func updateSteps(fd *ast.FuncDecl) (out []string) {
	var walk func(n ast.Node, prefix string)
	walk = func(n ast.Node, prefix string) {
		ast.Inspect(n, func(m ast.Node) bool {
			switch x := m.(type) {
			case *ast.DeferStmt:
				walk(x.Call, "defer:")

				return false
			case *ast.FuncLit:
				walk(x.Body, prefix)

				return false
			case *ast.CallExpr:
				if n := callName(x); updSteps[n] {
					out = append(out, prefix+n)
				}
			}

			return true
		})
	}
	walk(fd.Body, "")

	return out
}

func conjuncts(e ast.Expr) (out [][3]string) {
	if be, ok := ast.Unparen(e).(*ast.BinaryExpr); ok && be.Op == token.LAND {
		return append(conjuncts(be.X), conjuncts(be.Y)...)
	}
	be, ok := ast.Unparen(e).(*ast.BinaryExpr)
	if !ok {
		die(e.Pos(), "expected a comparison, found %s", types.ExprString(e))
	}

	return [][3]string{{types.ExprString(be.X), be.Op.String(), types.ExprString(be.Y)}}
}

// events lists the commit-path events of a statement list.
func events(list []ast.Stmt, fileVar, fltVar string) (out []string) {
	for _, st := range list {
		ast.Inspect(st, func(n ast.Node) bool {
			switch x := n.(type) {
			case *ast.ReturnStmt:
				out = append(out, "return|")
			case *ast.AssignStmt:
				for _, l := range x.Lhs {
					if sel, ok := l.(*ast.SelectorExpr); ok {
						if id, isID := sel.X.(*ast.Ident); isID && id.Name == fltVar {
							out = append(out, "assign|"+fltVar+"."+sel.Sel.Name)
						}
					}
				}
			case *ast.CallExpr:
				if sel, ok := x.Fun.(*ast.SelectorExpr); ok {
					if id, isID := sel.X.(*ast.Ident); isID && (id.Name == fileVar || id.Name == fltVar) {
						if !(id.Name == fltVar && sel.Sel.Name == "Path") {
							out = append(out, "call|"+id.Name+"."+sel.Sel.Name)
						}
					}
				}
			}

			return true
		})
	}

	return out
}

func main() {
	pkgs := load.Packages("./internal/filtering")
	var pkg *packages.Package
	for _, p := range pkgs {
		if p.PkgPath == fltPkg {
			pkg = p
		}
	}
	if pkg == nil {
		fmt.Fprintln(os.Stderr, "extract c15: package filtering not loaded")
		os.Exit(2)
	}
	fset = pkg.Fset

	upd := method(pkg, "DNSFilter", "updateIntl")
	steps := updateSteps(upd)
	last, ok := upd.Body.List[len(upd.Body.List)-1].(*ast.ReturnStmt)
	if !ok || len(last.Results) != 2 {
		die(upd.Pos(), "updateIntl: the last statement must be `return <updated>, <err>`")
	}
	updConj := conjuncts(last.Results[0])
	updErr := types.ExprString(last.Results[1])

	fin := method(pkg, "DNSFilter", "finalizeUpdate")
	if fin.Type.Params == nil || len(fin.Type.Params.List) < 2 {
		die(fin.Pos(), "finalizeUpdate: unexpected parameters")
	}
	fileVar := fin.Type.Params.List[0].Names[0].Name
	fltVar := fin.Type.Params.List[1].Names[0].Name
	var firstIf *ast.IfStmt
	idx := -1
	for i, st := range fin.Body.List {
		if is, isIf := st.(*ast.IfStmt); isIf {
			firstIf, idx = is, i

			break
		}
	}
	if firstIf == nil || firstIf.Else != nil {
		die(fin.Pos(), "finalizeUpdate: expected a first if statement without else")
	}
	guard := types.ExprString(firstIf.Cond)
	abandon := events(firstIf.Body.List, fileVar, fltVar)
	if _, endsInReturn := firstIf.Body.List[len(firstIf.Body.List)-1].(*ast.ReturnStmt); !endsInReturn {
		die(firstIf.Pos(), "finalizeUpdate: the abandon branch does not end in a return")
	}
	commit := events(fin.Body.List[idx+1:], fileVar, fltVar)

	q := func(l []string) string {
		s := make([]string, len(l))
		for i, x := range l {
			s[i] = fmt.Sprintf("%q", x)
		}

		return "[" + strings.Join(s, ", ") + "]"
	}
	var sb strings.Builder
	sb.WriteString("/- GENERATED by /verif/extract/cmd/c15 from internal/filtering/filter.go — do not edit. -/\n")
	sb.WriteString("namespace AGH.Gen.C15\n\n")
	fmt.Fprintf(&sb, "/-- updateIntl: steps in source order -/\ndef updateSteps : List String := %s\n\n", q(steps))
	sb.WriteString("/-- updateIntl: the conjuncts of the `updated` result -/\ndef updatedConj : List (String × String × String) := [")
	for i, c := range updConj {
		if i > 0 {
			sb.WriteString(", ")
		}
		fmt.Fprintf(&sb, "(%q, %q, %q)", c[0], c[1], c[2])
	}
	sb.WriteString("]\n")
	fmt.Fprintf(&sb, "def updatedErrResult : String := %q\n\n", updErr)
	fmt.Fprintf(&sb, "/-- finalizeUpdate: guard of the abandon branch, what it does, and the commit path -/\ndef abandonGuard : String := %q\n", guard)
	pairs := func(l []string) string {
		o := make([]string, len(l))
		for i, x := range l {
			k, v, _ := strings.Cut(x, "|")
			o[i] = fmt.Sprintf("(%q, %q)", k, v)
		}

		return "[" + strings.Join(o, ", ") + "]"
	}
	fmt.Fprintf(&sb, "/-- events: (kind, what), kind one of return / assign / call -/\ndef abandonEvents : List (String × String) := %s\ndef commitEvents : List (String × String) := %s\n\n", pairs(abandon), pairs(commit))
	sb.WriteString("end AGH.Gen.C15\n")

	root, _ := filepath.Abs(filepath.Join("..", ""))
	if wd, err := os.Getwd(); err == nil && filepath.Base(wd) != "extract" {
		root = wd
	}
	out := filepath.Join(root, "lean", "AGH", "Gen", "C15Refresh.lean")
	_ = os.Remove(out)
	if err := os.WriteFile(out, []byte(sb.String()), 0o644); err != nil {
		fmt.Fprintln(os.Stderr, "extract c15:", err)
		os.Exit(2)
	}
	_ = os.MkdirAll(filepath.Join(root, "build", "C15"), 0o755)
	js, _ := json.MarshalIndent(map[string]any{
		"summary":     map[string]any{"update_steps": len(steps), "commit_events": len(commit), "repo": load.Repo()},
		"updateSteps": steps, "updatedConj": updConj, "abandonGuard": guard, "abandonEvents": abandon, "commitEvents": commit,
		"pos": map[string]string{"updateIntl": fset.Position(upd.Pos()).String(), "finalizeUpdate": fset.Position(fin.Pos()).String()},
	}, "", " ")
	if err := os.WriteFile(filepath.Join(root, "build", "C15", "facts.json"), js, 0o644); err != nil {
		fmt.Fprintln(os.Stderr, "extract c15:", err)
		os.Exit(2)
	}
	fmt.Printf("c15: updateIntl %d steps, finalizeUpdate commit path %d events\n", len(steps), len(commit))
}
