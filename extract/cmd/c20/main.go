// Command c20 is the fact extractor of property C20 (translator tie of the
// constants the model is instantiated with).  From the typed syntax of
// internal/querylog (qlogfile.go) it regenerates
//
//	lean/AGH/Gen/C20Consts.lean   the constants, as the source states them
//	build/C20/facts.json          the same with file:line
//
// Facts: the package constants maxEntrySize and bufferSize; the literal of the
// depth guard in (*qLogFile).seekTS (`depth >= N`); the size of the probe buffer
// in readProbeLine (`make([]byte, E)`) and the bound its position is compared
// with; the bound relativePos is compared with in readNextLine and the bound
// position is compared with in initBuffer; the keys readQLogTimestamp passes to
// readJSONValue, in order; the layout it passes to time.Parse; validateQLogLineIdx
// as a first-match decision list (nested if / else-if of == comparisons, each
// branch ending in a return of nil or an errTS* value).  Every expression
// must be a typed constant; anything else (or a missing / duplicated site)
// aborts with file:line — a broken tie, never a default.
package main

import (
	"encoding/json"
	"fmt"
	"go/ast"
	"go/constant"
	"go/token"
	"go/types"
	"os"
	"path/filepath"
	"strings"

	"golang.org/x/tools/go/packages"

	"verif/extract/internal/load"
)

const qlPkg = "github.com/AdguardTeam/AdGuardHome/internal/querylog"

type fact struct {
	Name  string `json:"name"`
	Value string `json:"value"`
	Pos   string `json:"pos"`
}

var (
	fset  *token.FileSet
	info  *types.Info
	facts []fact
)

func die(pos token.Pos, format string, args ...any) {
	fmt.Fprintf(os.Stderr, "extract c20: %s: %s\n", fset.Position(pos), fmt.Sprintf(format, args...))
	os.Exit(2)
}

func constVal(e ast.Expr) constant.Value {
	tv, ok := info.Types[e]
	if !ok || tv.Value == nil {
		die(e.Pos(), "expression is not a typed constant")
	}

	return tv.Value
}

func intVal(e ast.Expr) int64 {
	v, ok := constant.Int64Val(constant.ToInt(constVal(e)))
	if !ok {
		die(e.Pos(), "constant is not an int64")
	}

	return v
}

func strVal(e ast.Expr) string {
	v := constVal(e)
	if v.Kind() != constant.String {
		die(e.Pos(), "constant is not a string")
	}

	return constant.StringVal(v)
}

func funcDecl(pkg *packages.Package, recv, name string) *ast.FuncDecl {
	var found *ast.FuncDecl
	for _, f := range pkg.Syntax {
		for _, d := range f.Decls {
			fd, ok := d.(*ast.FuncDecl)
			if !ok || fd.Name.Name != name {
				continue
			}
			r := ""
			if fd.Recv != nil && len(fd.Recv.List) == 1 {
				t := fd.Recv.List[0].Type
				if st, isStar := t.(*ast.StarExpr); isStar {
					t = st.X
				}
				if id, isID := t.(*ast.Ident); isID {
					r = id.Name
				}
			}
			if r != recv {
				continue
			}
			if found != nil {
				die(fd.Pos(), "duplicate declaration of %s.%s", recv, name)
			}
			found = fd
		}
	}
	if found == nil || found.Body == nil {
		fmt.Fprintf(os.Stderr, "extract c20: function %s.%s not found\n", recv, name)
		os.Exit(2)
	}

	return found
}

// cmpWith returns the constant operands of all comparisons `ident op CONST` in fd.
func cmpWith(fd *ast.FuncDecl, ident string, op token.Token) (vals []int64, poss []token.Pos) {
	ast.Inspect(fd.Body, func(n ast.Node) bool {
		be, ok := n.(*ast.BinaryExpr)
		if !ok || be.Op != op {
			return true
		}
		id, ok := be.X.(*ast.Ident)
		if !ok || id.Name != ident {
			return true
		}
		vals = append(vals, intVal(be.Y))
		poss = append(poss, be.Pos())

		return true
	})

	return vals, poss
}

func one(fd *ast.FuncDecl, ident string, op token.Token, name string) int64 {
	vals, poss := cmpWith(fd, ident, op)
	if len(vals) != 1 {
		die(fd.Pos(), "expected exactly one comparison `%s %s CONST` in %s, found %d", ident, op, fd.Name.Name, len(vals))
	}
	facts = append(facts, fact{Name: name, Value: fmt.Sprint(vals[0]), Pos: fset.Position(poss[0]).String()})

	return vals[0]
}

// makeSizes returns the constant sizes of all `make([]byte, E)` in fd.
func makeSize(fd *ast.FuncDecl, name string) int64 {
	var vals []int64
	var poss []token.Pos
	ast.Inspect(fd.Body, func(n ast.Node) bool {
		ce, ok := n.(*ast.CallExpr)
		if !ok || len(ce.Args) != 2 {
			return true
		}
		if id, isID := ce.Fun.(*ast.Ident); !isID || id.Name != "make" {
			return true
		}
		vals = append(vals, intVal(ce.Args[1]))
		poss = append(poss, ce.Pos())

		return true
	})
	if len(vals) != 1 {
		die(fd.Pos(), "expected exactly one make([]byte, CONST) in %s, found %d", fd.Name.Name, len(vals))
	}
	facts = append(facts, fact{Name: name, Value: fmt.Sprint(vals[0]), Pos: fset.Position(poss[0]).String()})

	return vals[0]
}

func pkgConst(pkg *packages.Package, name string) int64 {
	obj := pkg.Types.Scope().Lookup(name)
	c, ok := obj.(*types.Const)
	if !ok {
		fmt.Fprintf(os.Stderr, "extract c20: constant %s not found\n", name)
		os.Exit(2)
	}
	v, ok := constant.Int64Val(constant.ToInt(c.Val()))
	if !ok {
		die(c.Pos(), "constant %s is not an int64", name)
	}
	facts = append(facts, fact{Name: name, Value: fmt.Sprint(v), Pos: fset.Position(c.Pos()).String()})

	return v
}

func bytesLit(s string) string {
	parts := make([]string, 0, len(s))
	for _, b := range []byte(s) {
		parts = append(parts, fmt.Sprint(int(b)))
	}

	return "[" + strings.Join(parts, ", ") + "]"
}

func main() {
	pkgs := load.Packages("./internal/querylog")
	var pkg *packages.Package
	for _, p := range pkgs {
		if p.PkgPath == qlPkg {
			pkg = p
		}
	}
	if pkg == nil {
		fmt.Fprintln(os.Stderr, "extract c20: package querylog not loaded")
		os.Exit(2)
	}
	fset, info = pkg.Fset, pkg.TypesInfo

	maxEntry := pkgConst(pkg, "maxEntrySize")
	bufSize := pkgConst(pkg, "bufferSize")

	depth := one(funcDecl(pkg, "qLogFile", "seekTS"), "depth", token.GEQ, "seekTS.depthGuard")
	rnl := funcDecl(pkg, "qLogFile", "readNextLine")
	refill := one(rnl, "relativePos", token.LSS, "readNextLine.refillBound")
	ib := funcDecl(pkg, "qLogFile", "initBuffer")
	ibBound := one(ib, "position", token.GTR, "initBuffer.positionBound")
	ibMake := makeSize(ib, "initBuffer.bufferLen")
	rpl := funcDecl(pkg, "qLogFile", "readProbeLine")
	probeBound := one(rpl, "position", token.GTR, "readProbeLine.positionBound")
	probeBuf := makeSize(rpl, "readProbeLine.bufferLen")

	// readQLogTimestamp: readJSONValue(str, KEY) calls in source order, time.Parse(LAYOUT, val).
	rqt := funcDecl(pkg, "", "readQLogTimestamp")
	var keys []string
	var layouts []string
	ast.Inspect(rqt.Body, func(n ast.Node) bool {
		ce, ok := n.(*ast.CallExpr)
		if !ok {
			return true
		}
		switch fn := ce.Fun.(type) {
		case *ast.Ident:
			if fn.Name == "readJSONValue" {
				if len(ce.Args) != 2 {
					die(ce.Pos(), "readJSONValue with %d arguments", len(ce.Args))
				}
				keys = append(keys, strVal(ce.Args[1]))
				facts = append(facts, fact{Name: "readQLogTimestamp.key", Value: keys[len(keys)-1], Pos: fset.Position(ce.Pos()).String()})
			}
		case *ast.SelectorExpr:
			if x, isID := fn.X.(*ast.Ident); isID && x.Name == "time" && fn.Sel.Name == "Parse" {
				layouts = append(layouts, strVal(ce.Args[0]))
				facts = append(facts, fact{Name: "readQLogTimestamp.layout", Value: layouts[len(layouts)-1], Pos: fset.Position(ce.Pos()).String()})
			}
		}

		return true
	})
	if len(keys) != 2 || len(layouts) != 1 {
		die(rqt.Pos(), "readQLogTimestamp: expected 2 readJSONValue keys and 1 time.Parse layout, found %d and %d", len(keys), len(layouts))
	}

	var sb strings.Builder
	sb.WriteString("/- GENERATED by /verif/extract/cmd/c20 from internal/querylog/qlogfile.go — do not edit. -/\n")
	sb.WriteString("namespace AGH.Gen.C20\n\n")
	w := func(name string, v int64, comment string) {
		fmt.Fprintf(&sb, "/-- %s -/\ndef %s : Nat := %d\n\n", comment, name, v)
	}
	w("maxEntrySize", maxEntry, "const maxEntrySize")
	w("bufferSize", bufSize, "const bufferSize")
	w("depthGuard", depth, "seekTS: `if depth >= N`")
	w("refillBound", refill, "readNextLine: `relativePos < N`")
	w("initPositionBound", ibBound, "initBuffer: `position > N`")
	w("initBufferLen", ibMake, "initBuffer: `make([]byte, N)`")
	w("probePositionBound", probeBound, "readProbeLine: `position > N`")
	w("probeBufferLen", probeBuf, "readProbeLine: `make([]byte, N)`")
	fmt.Fprintf(&sb, "/-- readQLogTimestamp: keys passed to readJSONValue, in order: %q, %q -/\n", keys[0], keys[1])
	fmt.Fprintf(&sb, "def tsKeys : List (List Nat) := [%s, %s]\n\n", bytesLit(keys[0]), bytesLit(keys[1]))
	fmt.Fprintf(&sb, "/-- readQLogTimestamp: layout passed to time.Parse: %q -/\n", layouts[0])
	fmt.Fprintf(&sb, "def timeLayout : List Nat := %s\n\n", bytesLit(layouts[0]))
	// validateQLogLineIdx as a first-match decision list: (conjunction of comparisons, result).
	vq := funcDecl(pkg, "qLogFile", "validateQLogLineIdx")
	type vrow struct {
		conds [][3]string
		res   string
	}
	var vrows []vrow
	resultName := func(rs *ast.ReturnStmt) string {
		if len(rs.Results) != 1 {
			die(rs.Pos(), "validateQLogLineIdx: return with %d results", len(rs.Results))
		}
		name := ""
		ast.Inspect(rs.Results[0], func(n ast.Node) bool {
			if id, ok := n.(*ast.Ident); ok && (strings.HasPrefix(id.Name, "errTS") || id.Name == "nil") {
				if name != "" {
					die(id.Pos(), "validateQLogLineIdx: two result names in one return")
				}
				name = id.Name
			}

			return true
		})
		if name == "" {
			die(rs.Pos(), "validateQLogLineIdx: return of something that is neither nil nor an errTS* value")
		}

		return name
	}
	var flatten func(list []ast.Stmt, prefix [][3]string) (terminated bool)
	flatten = func(list []ast.Stmt, prefix [][3]string) (terminated bool) {
		for _, st := range list {
			switch x := st.(type) {
			case *ast.ReturnStmt:
				vrows = append(vrows, vrow{conds: append([][3]string(nil), prefix...), res: resultName(x)})

				return true
			case *ast.IfStmt:
				for cur := x; cur != nil; {
					if cur.Init != nil {
						die(cur.Pos(), "validateQLogLineIdx: if with init")
					}
					be, ok := cur.Cond.(*ast.BinaryExpr)
					if !ok || be.Op != token.EQL {
						die(cur.Pos(), "validateQLogLineIdx: condition is not an == comparison")
					}
					c := [3]string{types.ExprString(be.X), "==", types.ExprString(be.Y)}
					if !flatten(cur.Body.List, append(append([][3]string(nil), prefix...), c)) {
						die(cur.Pos(), "validateQLogLineIdx: a branch that falls through")
					}
					switch e := cur.Else.(type) {
					case nil:
						cur = nil
					case *ast.IfStmt:
						cur = e
					default:
						die(cur.Pos(), "validateQLogLineIdx: else block")
					}
				}
			default:
				die(st.Pos(), "validateQLogLineIdx: statement outside the supported shape")
			}
		}

		return false
	}
	if !flatten(vq.Body.List, nil) {
		die(vq.Pos(), "validateQLogLineIdx: does not end in a return")
	}
	sb.WriteString("/-- validateQLogLineIdx as a first-match decision list: (conjunction of comparisons, result) -/\n")
	sb.WriteString("def validateRows : List (List (String × String × String) × String) := [\n")
	for i, r := range vrows {
		cs := make([]string, len(r.conds))
		for j, c := range r.conds {
			cs[j] = fmt.Sprintf("(%q, %q, %q)", c[0], c[1], c[2])
		}
		sep := ","
		if i == len(vrows)-1 {
			sep = ""
		}
		fmt.Fprintf(&sb, "  ([%s], %q)%s\n", strings.Join(cs, ", "), r.res, sep)
		facts = append(facts, fact{Name: "validateQLogLineIdx.row", Value: fmt.Sprintf("%v -> %s", r.conds, r.res), Pos: fset.Position(vq.Pos()).String()})
	}
	sb.WriteString("]\n\n")
	sb.WriteString("end AGH.Gen.C20\n")

	root, _ := filepath.Abs(filepath.Join("..", ""))
	if wd, err := os.Getwd(); err == nil && filepath.Base(wd) != "extract" {
		root = wd
	}
	out := filepath.Join(root, "lean", "AGH", "Gen", "C20Consts.lean")
	_ = os.Remove(out)
	if err := os.WriteFile(out, []byte(sb.String()), 0o644); err != nil {
		fmt.Fprintln(os.Stderr, "extract c20:", err)
		os.Exit(2)
	}
	_ = os.MkdirAll(filepath.Join(root, "build", "C20"), 0o755)
	js, _ := json.MarshalIndent(map[string]any{
		"summary": map[string]any{"constants": len(facts), "repo": load.Repo()},
		"facts":   facts,
	}, "", " ")
	if err := os.WriteFile(filepath.Join(root, "build", "C20", "facts.json"), js, 0o644); err != nil {
		fmt.Fprintln(os.Stderr, "extract c20:", err)
		os.Exit(2)
	}
	fmt.Printf("c20: %d constants extracted\n", len(facts))
}
