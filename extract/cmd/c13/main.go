// Command c13 extracts the facts of internal/configmigrate that the C13
// theorems quantify over (translator tie, DESIGN §2 C13):
//
//   - LastSchemaVersion and the table of steps in upgradeConfigSchema;
//   - every write of "schema_version" (function, statement index, value);
//   - every fieldVal / moveVal / moveSameVal call with its type argument and keys;
//   - every []string{...} literal (keys that are iterated over);
//   - every syntactic panic site (map write, index / slice expression, unchecked
//     type assertion, explicit panic, integer division) with the guard that
//     makes it safe, 0 when none was recognised;
//   - the presence of the two repairs (null object absent in fieldVal, nil
//     document replaced in Migrate).
//
// It writes lean/AGH/Gen/C13Facts.lean and build/C13/facts.json and exits
// non-zero with a file:line message on syntax it does not understand.
package main

import (
	"encoding/json"
	"fmt"
	"go/ast"
	"go/constant"
	"go/parser"
	"go/token"
	"go/types"
	"os"
	"path/filepath"
	"regexp"
	"sort"
	"strconv"
	"strings"

	"golang.org/x/tools/go/packages"

	"verif/extract/internal/load"
)

var (
	fset *token.FileSet
	info *types.Info
)

func die(pos token.Pos, format string, args ...any) {
	p := fset.Position(pos)
	fmt.Fprintf(os.Stderr, "extract c13: %s:%d: %s\n", p.Filename, p.Line, fmt.Sprintf(format, args...))
	os.Exit(1)
}

var stepRe = regexp.MustCompile(`^migrateTo(\d+)$`)

// fnID numbers the functions of the package; unknown ones get 200+.
var fixedIDs = map[string]int{
	"Migrate": 100, "upgradeConfigSchema": 101, "validateVersion": 102, "New": 103,
	"fieldVal": 110, "moveVal": 111, "moveSameVal": 112,
	"addQUICPorts": 120, "addQUICPort": 121, "replaceDot": 122,
}

var unknownFns = map[string]int{}

func fnID(name string) int {
	if m := stepRe.FindStringSubmatch(name); m != nil {
		n, _ := strconv.Atoi(m[1])

		return n
	}
	if id, ok := fixedIDs[name]; ok {
		return id
	}
	if id, ok := unknownFns[name]; ok {
		return id
	}
	id := 200 + len(unknownFns)
	unknownFns[name] = id

	return id
}

// tyID: 0 int, 1 string, 2 bool, 3 yobj, 4 yarr, 5 any, 6 anything else, 7 type parameter.
func tyID(t types.Type) (int, string) {
	t = types.Unalias(t)
	if tp, ok := t.(*types.TypeParam); ok {
		// the helper's own type parameter, instantiated by its callers
		return 7, tp.Obj().Name()
	}
	s := types.TypeString(t, func(p *types.Package) string { return p.Name() })
	switch s {
	case "int":
		return 0, s
	case "string":
		return 1, s
	case "bool":
		return 2, s
	case "map[string]any", "map[string]interface{}":
		return 3, "yobj"
	case "[]any", "[]interface{}":
		return 4, "yarr"
	case "any", "interface{}":
		return 5, "any"
	}

	return 6, s
}

type access struct {
	Fn   int    `json:"fn"`
	Func string `json:"func"`
	Kind int    `json:"kind"` // 0 fieldVal, 1 moveVal, 2 moveSameVal
	Ty   int    `json:"ty"`
	TyS  string `json:"type"`
	Key  string `json:"key"`  // "" with KeyVar set: not a constant
	Key2 string `json:"key2"` // destination key of moveVal
	Var  string `json:"key_var,omitempty"`
	Line int    `json:"line"`
}

type stampW struct {
	Fn    int    `json:"fn"`
	Func  string `json:"func"`
	Index int    `json:"stmt_index"`
	Value int    `json:"value"`
	Line  int    `json:"line"`
}

type site struct {
	Fn    int    `json:"fn"`
	Func  string `json:"func"`
	Kind  int    `json:"kind"`  // 1 map write, 2 index, 3 slice, 4 unchecked assertion, 5 panic call, 6 division
	Guard int    `json:"guard"` // 0 none; see guardNames
	What  string `json:"what"`
	Line  int    `json:"line"`
}

var guardNames = map[int]string{
	0: "NONE", 1: "map literal", 2: "ok-guarded fieldVal[yobj] / comma-ok assertion",
	3: "document parameter (non-nil: Migrate replaces a nil document)", 4: "dst parameter: every caller passes a non-nil map",
	5: "inside `if v, ok := x.(yobj); ok`", 6: "index variable of a range over the same slice",
	7: "`s == \"\" ||` short circuit before s[0]", 8: "length checked just before", 9: "validateVersion before upgradeConfigSchema",
}

type delCall struct {
	Fn   int    `json:"fn"`
	Func string `json:"func"`
	Key  string `json:"key"`
	Var  string `json:"key_var,omitempty"`
	Line int    `json:"line"`
}

type strList struct {
	Fn     int      `json:"fn"`
	Func   string   `json:"func"`
	Values []string `json:"values"`
}

type fnInfo struct {
	decl *ast.FuncDecl
	name string
}

var funcs = map[string]*fnInfo{}

func constString(e ast.Expr) (string, bool) {
	tv, ok := info.Types[e]
	if !ok || tv.Value == nil || tv.Value.Kind() != constant.String {
		return "", false
	}

	return constant.StringVal(tv.Value), true
}

func isMapStringAny(t types.Type) bool {
	m, ok := t.Underlying().(*types.Map)
	if !ok {
		return false
	}
	b, ok := m.Key().Underlying().(*types.Basic)

	return ok && b.Kind() == types.String
}

// terminates reports whether the block ends in return / continue / break.
func terminates(b *ast.BlockStmt) bool {
	if b == nil || len(b.List) == 0 {
		return false
	}
	switch s := b.List[len(b.List)-1].(type) {
	case *ast.ReturnStmt:
		return true
	case *ast.BranchStmt:
		return s.Tok == token.CONTINUE || s.Tok == token.BREAK
	}

	return false
}

// notOK reports whether cond is `!<okObj>`.
func notOK(cond ast.Expr, okObj types.Object) bool {
	u, ok := cond.(*ast.UnaryExpr)
	if !ok || u.Op != token.NOT {
		return false
	}
	id, ok := u.X.(*ast.Ident)

	return ok && info.Uses[id] == okObj
}

// okGuardFollows: the statement after defStmt in its block is an if / else-if
// chain one of whose conditions is `!ok` with a terminating body.
func okGuardFollows(block []ast.Stmt, idx int, okObj types.Object) bool {
	if okObj == nil || idx+1 >= len(block) {
		return false
	}
	ifs, ok := block[idx+1].(*ast.IfStmt)
	for ok && ifs != nil {
		if notOK(ifs.Cond, okObj) && terminates(ifs.Body) {
			return true
		}
		// `if err != nil { return } else if !ok { return }`: every earlier
		// branch must terminate too, otherwise control may fall through.
		if !terminates(ifs.Body) {
			return false
		}
		next, isIf := ifs.Else.(*ast.IfStmt)
		if !isIf {
			return false
		}
		ifs = next
	}

	return false
}

// blockOf finds the statement list containing stmt and its index.
func blockOf(root ast.Node, stmt ast.Stmt) (list []ast.Stmt, idx int) {
	idx = -1
	ast.Inspect(root, func(n ast.Node) bool {
		var l []ast.Stmt
		switch b := n.(type) {
		case *ast.BlockStmt:
			l = b.List
		case *ast.CaseClause:
			l = b.Body
		}
		for i, s := range l {
			if s == stmt {
				list, idx = l, i
			}
		}

		return idx < 0
	})

	return list, idx
}

type dstCheck struct {
	fn  *fnInfo
	obj types.Object
}

// mapOrigin classifies why the map held by ident id is non-nil at pos.
func mapOrigin(fn *fnInfo, id *ast.Ident, pos token.Pos, seen map[dstCheck]bool) int {
	obj := info.Uses[id]
	if obj == nil {
		obj = info.Defs[id]
	}
	if obj == nil {
		return 0
	}

	// A parameter?
	if fn.decl.Type.Params != nil {
		for pi, f := range fn.decl.Type.Params.List {
			_ = pi
			for _, n := range f.Names {
				if info.Defs[n] == obj {
					return paramOrigin(fn, obj, seen)
				}
			}
		}
	}

	// `if c, ok := x.(yobj); ok { … write … }`
	var inScope int
	ast.Inspect(fn.decl, func(n ast.Node) bool {
		ifs, ok := n.(*ast.IfStmt)
		if !ok || ifs.Init == nil || pos < ifs.Body.Pos() || pos > ifs.Body.End() {
			return true
		}
		as, ok := ifs.Init.(*ast.AssignStmt)
		if !ok || len(as.Lhs) != 2 || len(as.Rhs) != 1 {
			return true
		}
		l0, _ := as.Lhs[0].(*ast.Ident)
		l1, _ := as.Lhs[1].(*ast.Ident)
		ta, isTA := as.Rhs[0].(*ast.TypeAssertExpr)
		c, _ := ifs.Cond.(*ast.Ident)
		if l0 != nil && l1 != nil && isTA && ta.Type != nil && c != nil &&
			info.Defs[l0] == obj && info.Uses[c] == info.Defs[l1] && isMapStringAny(info.TypeOf(ta.Type)) {
			inScope = 5
		}

		return true
	})
	if inScope != 0 {
		return inScope
	}

	// The last assignment to the variable before pos.
	var last *ast.AssignStmt
	ast.Inspect(fn.decl, func(n ast.Node) bool {
		as, ok := n.(*ast.AssignStmt)
		if !ok || as.Pos() >= pos {
			return true
		}
		for _, l := range as.Lhs {
			if li, isID := l.(*ast.Ident); isID && (info.Defs[li] == obj || info.Uses[li] == obj) {
				if last == nil || as.Pos() > last.Pos() {
					last = as
				}
			}
		}

		return true
	})
	if last == nil {
		return 0
	}

	if len(last.Lhs) == 1 && len(last.Rhs) == 1 {
		if cl, ok := last.Rhs[0].(*ast.CompositeLit); ok && isMapStringAny(info.TypeOf(cl)) {
			return 1
		}

		return 0
	}

	// x, ok, err := fieldVal[yobj](…)   or   x, ok = y.(yobj)
	if len(last.Rhs) != 1 || len(last.Lhs) < 2 {
		return 0
	}
	li, _ := last.Lhs[0].(*ast.Ident)
	if li == nil || (info.Defs[li] != obj && info.Uses[li] != obj) {
		return 0
	}
	okID, _ := last.Lhs[1].(*ast.Ident)
	if okID == nil || okID.Name == "_" {
		return 0
	}
	okObj := info.Defs[okID]
	if okObj == nil {
		okObj = info.Uses[okID]
	}
	switch rhs := last.Rhs[0].(type) {
	case *ast.CallExpr:
		ix, ok := rhs.Fun.(*ast.IndexExpr)
		if !ok {
			return 0
		}
		fid, ok := ix.X.(*ast.Ident)
		if !ok || fid.Name != "fieldVal" || !isMapStringAny(info.TypeOf(ix.Index)) {
			return 0
		}
	case *ast.TypeAssertExpr:
		if rhs.Type == nil || !isMapStringAny(info.TypeOf(rhs.Type)) {
			return 0
		}
	default:
		return 0
	}
	list, idx := blockOf(fn.decl, last)
	if idx >= 0 && okGuardFollows(list, idx, okObj) {
		return 2
	}

	return 0
}

// paramOrigin: a map parameter is non-nil when every caller passes a non-nil map.
func paramOrigin(fn *fnInfo, obj types.Object, seen map[dstCheck]bool) int {
	if stepRe.MatchString(fn.name) {
		// The document: upgradeConfigSchema passes Migrate's diskConf.
		return 3
	}
	key := dstCheck{fn, obj}
	if seen[key] {
		return 4
	}
	seen[key] = true

	// Position of the parameter.
	pidx, i := -1, 0
	for _, f := range fn.decl.Type.Params.List {
		for _, n := range f.Names {
			if info.Defs[n] == obj {
				pidx = i
			}
			i++
		}
	}
	if pidx < 0 {
		return 0
	}

	callers := 0
	okAll := true
	for _, caller := range funcs {
		ast.Inspect(caller.decl, func(n ast.Node) bool {
			call, ok := n.(*ast.CallExpr)
			if !ok {
				return true
			}
			var name string
			switch f := call.Fun.(type) {
			case *ast.Ident:
				name = f.Name
			case *ast.IndexExpr:
				if id, isID := f.X.(*ast.Ident); isID {
					name = id.Name
				}
			}
			if name != fn.name || pidx >= len(call.Args) {
				return true
			}
			callers++
			arg, isID := call.Args[pidx].(*ast.Ident)
			if !isID || mapOrigin(caller, arg, call.Pos(), seen) == 0 {
				okAll = false
			}

			return true
		})
	}
	if callers > 0 && okAll {
		return 4
	}

	return 0
}

func main() {
	pkgs := load.Packages("./internal/configmigrate")
	var pkg *packages.Package
	for _, p := range pkgs {
		if strings.HasSuffix(p.PkgPath, "internal/configmigrate") {
			pkg = p
		}
	}
	if pkg == nil {
		fmt.Fprintln(os.Stderr, "extract c13: package internal/configmigrate not loaded")
		os.Exit(1)
	}
	fset, info = pkg.Fset, pkg.TypesInfo

	for _, f := range pkg.Syntax {
		for _, d := range f.Decls {
			if fd, ok := d.(*ast.FuncDecl); ok && fd.Body != nil {
				if _, dup := funcs[fd.Name.Name]; dup {
					die(fd.Pos(), "two functions named %s", fd.Name.Name)
				}
				funcs[fd.Name.Name] = &fnInfo{decl: fd, name: fd.Name.Name}
			}
		}
	}
	names := make([]string, 0, len(funcs))
	for n := range funcs {
		names = append(names, n)
	}
	sort.Slice(names, func(i, j int) bool { return fnID(names[i]) < fnID(names[j]) })

	// LastSchemaVersion.
	lastObj, _ := pkg.Types.Scope().Lookup("LastSchemaVersion").(*types.Const)
	if lastObj == nil {
		fmt.Fprintln(os.Stderr, "extract c13: const LastSchemaVersion not found")
		os.Exit(1)
	}
	last64, _ := constant.Int64Val(lastObj.Val())
	last := int(last64)

	// Step table.
	up := funcs["upgradeConfigSchema"]
	if up == nil {
		fmt.Fprintln(os.Stderr, "extract c13: func upgradeConfigSchema not found")
		os.Exit(1)
	}
	var table [][2]int
	ast.Inspect(up.decl, func(n ast.Node) bool {
		cl, ok := n.(*ast.CompositeLit)
		if !ok {
			return true
		}
		if _, isArr := info.TypeOf(cl).Underlying().(*types.Array); !isArr {
			return true
		}
		if table != nil {
			die(cl.Pos(), "second array literal in upgradeConfigSchema")
		}
		table = [][2]int{}
		for _, el := range cl.Elts {
			kv, ok := el.(*ast.KeyValueExpr)
			if !ok {
				die(el.Pos(), "step table element without an index")
			}
			tv := info.Types[kv.Key]
			if tv.Value == nil {
				die(kv.Key.Pos(), "step table index is not a constant")
			}
			idx, _ := constant.Int64Val(tv.Value)
			var name string
			switch v := kv.Value.(type) {
			case *ast.Ident:
				name = v.Name
			case *ast.SelectorExpr:
				name = v.Sel.Name
			default:
				die(kv.Value.Pos(), "step table value is not a function name")
			}
			m := stepRe.FindStringSubmatch(name)
			if m == nil {
				die(kv.Value.Pos(), "step function %q is not named migrateTo<N>", name)
			}
			if funcs[name] == nil {
				die(kv.Value.Pos(), "step function %q has no body in the package", name)
			}
			n, _ := strconv.Atoi(m[1])
			table = append(table, [2]int{int(idx), n})
		}

		return true
	})
	if table == nil {
		die(up.decl.Pos(), "no step table in upgradeConfigSchema")
	}

	var (
		accesses []access
		stamps   []stampW
		sites    []site
		lists    []strList
		deletes  []delCall
	)

	for _, name := range names {
		fn := funcs[name]
		id := fnID(name)
		line := func(p token.Pos) int { return fset.Position(p).Line }

		// statement index of top-level statements
		topIdx := map[ast.Stmt]int{}
		for i, s := range fn.decl.Body.List {
			topIdx[s] = i
		}

		commaOK := map[*ast.TypeAssertExpr]bool{}
		ast.Inspect(fn.decl, func(n ast.Node) bool {
			switch s := n.(type) {
			case *ast.AssignStmt:
				if len(s.Lhs) == 2 && len(s.Rhs) == 1 {
					if ta, ok := s.Rhs[0].(*ast.TypeAssertExpr); ok {
						commaOK[ta] = true
					}
				}
			case *ast.ValueSpec:
				if len(s.Names) == 2 && len(s.Values) == 1 {
					if ta, ok := s.Values[0].(*ast.TypeAssertExpr); ok {
						commaOK[ta] = true
					}
				}
			}

			return true
		})

		ast.Inspect(fn.decl, func(n ast.Node) bool {
			switch x := n.(type) {
			case *ast.CompositeLit:
				if sl, ok := info.TypeOf(x).Underlying().(*types.Slice); ok {
					if b, isB := sl.Elem().Underlying().(*types.Basic); isB && b.Kind() == types.String {
						l := strList{Fn: id, Func: name}
						for _, e := range x.Elts {
							// A non-constant element is recorded as the empty string.
							s, _ := constString(e)
							l.Values = append(l.Values, s)
						}
						lists = append(lists, l)
					}
				}
			case *ast.CallExpr:
				// generic helper calls
				if ix, ok := x.Fun.(*ast.IndexExpr); ok {
					if fid, isID := ix.X.(*ast.Ident); isID {
						kind := map[string]int{"fieldVal": 0, "moveVal": 1, "moveSameVal": 2}
						if k, known := kind[fid.Name]; known {
							t, ts := tyID(info.TypeOf(ix.Index))
							a := access{Fn: id, Func: name, Kind: k, Ty: t, TyS: ts, Line: line(x.Pos())}
							keyArgs := map[int][]int{0: {1}, 1: {2, 3}, 2: {2}}[k]
							want := map[int]int{0: 2, 1: 4, 2: 3}[k]
							if len(x.Args) != want {
								die(x.Pos(), "%s called with %d arguments", fid.Name, len(x.Args))
							}
							for j, ai := range keyArgs {
								s, isC := constString(x.Args[ai])
								if !isC {
									v, isV := x.Args[ai].(*ast.Ident)
									if !isV {
										die(x.Args[ai].Pos(), "key of %s is neither a constant nor a variable", fid.Name)
									}
									a.Var = v.Name
								}
								if j == 0 {
									a.Key = s
								} else {
									a.Key2 = s
								}
							}
							accesses = append(accesses, a)
						}
					}
				}
				if fid, ok := x.Fun.(*ast.Ident); ok && fid.Name == "delete" && len(x.Args) == 2 {
					if _, isBuiltin := info.Uses[fid].(*types.Builtin); isBuiltin {
						d := delCall{Fn: id, Func: name, Line: line(x.Pos())}
						k, isC := constString(x.Args[1])
						if !isC {
							v, isV := x.Args[1].(*ast.Ident)
							if !isV {
								die(x.Args[1].Pos(), "key of delete is neither a constant nor a variable")
							}
							d.Var = v.Name
						}
						d.Key = k
						deletes = append(deletes, d)
					}
				}
				if fid, ok := x.Fun.(*ast.Ident); ok && fid.Name == "panic" {
					if _, isBuiltin := info.Uses[fid].(*types.Builtin); isBuiltin {
						sites = append(sites, site{Fn: id, Func: name, Kind: 5, What: "panic(...)", Line: line(x.Pos())})
					}
				}
			case *ast.TypeAssertExpr:
				if x.Type != nil && !commaOK[x] {
					sites = append(sites, site{Fn: id, Func: name, Kind: 4, What: "unchecked type assertion", Line: line(x.Pos())})
				}
			case *ast.BinaryExpr:
				if x.Op == token.QUO || x.Op == token.REM {
					if b, ok := info.TypeOf(x).Underlying().(*types.Basic); ok && b.Info()&types.IsInteger != 0 {
						if tv := info.Types[x]; tv.Value == nil {
							sites = append(sites, site{Fn: id, Func: name, Kind: 6, What: "integer division", Line: line(x.Pos())})
						}
					}
				}
			case *ast.SliceExpr:
				g := 0
				if name == "upgradeConfigSchema" && validatedBeforeUpgrade() {
					g = 9
				}
				sites = append(sites, site{Fn: id, Func: name, Kind: 3, Guard: g, What: "slice expression", Line: line(x.Pos())})
			case *ast.AssignStmt:
				for _, l := range x.Lhs {
					ix, ok := l.(*ast.IndexExpr)
					if !ok {
						continue
					}
					if !isMapStringAny(info.TypeOf(ix.X)) {
						continue // slice element writes are index sites, below
					}
					if k, isC := constString(ix.Index); isC && k == "schema_version" {
						v := -1
						if len(x.Rhs) == 1 {
							if tv := info.Types[x.Rhs[0]]; tv.Value != nil {
								i64, _ := constant.Int64Val(tv.Value)
								v = int(i64)
							}
						}
						si, isTop := topIdx[ast.Stmt(x)]
						if !isTop {
							si = -1
						}
						stamps = append(stamps, stampW{Fn: id, Func: name, Index: si, Value: v, Line: line(x.Pos())})
					}
					base, isID := ix.X.(*ast.Ident)
					g := 0
					if isID {
						g = mapOrigin(fn, base, x.Pos(), map[dstCheck]bool{})
					}
					what := "map write"
					if isID {
						what = base.Name + "[…] ="
					}
					sites = append(sites, site{Fn: id, Func: name, Kind: 1, Guard: g, What: what, Line: line(x.Pos())})
				}
			case *ast.IndexExpr:
				t := info.TypeOf(x.X)
				if t == nil {
					return true
				}
				switch u := t.Underlying().(type) {
				case *types.Slice, *types.Array, *types.Pointer:
					_ = u
				case *types.Basic:
					if u.Info()&types.IsString == 0 {
						return true
					}
				default:
					return true // maps (reads never panic), generic instantiations
				}
				if _, isFn := info.TypeOf(x).(*types.Signature); isFn {
					return true
				}
				sites = append(sites, site{Fn: id, Func: name, Kind: 2, Guard: indexGuard(fn, x), What: exprString(x), Line: line(x.Pos())})
			}

			return true
		})
	}

	// The two repairs.
	nullObjAbsent := hasNullObjGuard(funcs["fieldVal"])
	nilDocGuard := hasNilDocGuard(funcs["Migrate"])

	// ------------------------------------------------------------ output
	sort.SliceStable(accesses, func(i, j int) bool {
		if accesses[i].Fn != accesses[j].Fn {
			return accesses[i].Fn < accesses[j].Fn
		}

		return accesses[i].Line < accesses[j].Line
	})
	sort.SliceStable(sites, func(i, j int) bool {
		if sites[i].Fn != sites[j].Fn {
			return sites[i].Fn < sites[j].Fn
		}

		return sites[i].Line < sites[j].Line
	})
	sort.SliceStable(stamps, func(i, j int) bool { return stamps[i].Fn < stamps[j].Fn })
	sort.SliceStable(deletes, func(i, j int) bool {
		if deletes[i].Fn != deletes[j].Fn {
			return deletes[i].Fn < deletes[j].Fn
		}

		return deletes[i].Line < deletes[j].Line
	})
	sort.SliceStable(lists, func(i, j int) bool { return lists[i].Fn < lists[j].Fn })
	sort.Slice(table, func(i, j int) bool { return table[i][0] < table[j][0] })

	verif := os.Getenv("VERIF_DIR")
	if verif == "" {
		verif, _ = os.Getwd()
	}
	genDir := filepath.Join(verif, "lean", "AGH", "Gen")
	_ = os.MkdirAll(genDir, 0o755)
	leanPath := filepath.Join(genDir, "C13Facts.lean")
	_ = os.Remove(leanPath)

	var sb strings.Builder
	sb.WriteString("/- GENERATED by /verif/extract/cmd/c13 from internal/configmigrate — do not edit. -/\n")
	sb.WriteString("namespace AGH.Gen.C13\n\n")
	fmt.Fprintf(&sb, "def lastSchemaVersion : Nat := %d\n\n", last)
	sb.WriteString("/-- (index in `upgrades`, N of the function `migrateTo<N>` stored there) -/\n")
	sb.WriteString("def stepTable : List (Nat × Nat) := [\n")
	for i, e := range table {
		fmt.Fprintf(&sb, "  (%d, %d)%s\n", e[0], e[1], comma(i, len(table)))
	}
	sb.WriteString("]\n\n")
	sb.WriteString("/-- writes of \"schema_version\": (function id, index of the statement in the body, value) -/\n")
	sb.WriteString("def stamps : List (Nat × Nat × Nat) := [\n")
	for i, s := range stamps {
		idx, val := s.Index, s.Value
		if idx < 0 {
			idx = 999
		}
		if val < 0 {
			val = 999
		}
		fmt.Fprintf(&sb, "  (%d, %d, %d)%s  -- %s:%d\n", s.Fn, idx, val, comma(i, len(stamps)), s.Func, s.Line)
	}
	sb.WriteString("]\n\n")
	sb.WriteString("/-- calls of fieldVal (0) / moveVal (1) / moveSameVal (2):\n")
	sb.WriteString("    (function id, kind, T: 0 int 1 string 2 bool 3 yobj 4 yarr 5 any 6 other 7 type parameter, key, second key);\n")
	sb.WriteString("    an empty key: the key is a variable -/\n")
	sb.WriteString("def accesses : List (Nat × Nat × Nat × List Nat × List Nat) := [\n")
	for i, a := range accesses {
		fmt.Fprintf(&sb, "  (%d, %d, %d, %s, %s)%s  -- %s:%d %s[%s] %q %q %s\n", a.Fn, a.Kind, a.Ty, bytesLit(a.Key), bytesLit(a.Key2),
			comma(i, len(accesses)), a.Func, a.Line, []string{"fieldVal", "moveVal", "moveSameVal"}[a.Kind], a.TyS, a.Key, a.Key2, a.Var)
	}
	sb.WriteString("]\n\n")
	sb.WriteString("/-- `delete(m, key)` calls: (function id, key); an empty key: the key is a variable -/\n")
	sb.WriteString("def deletes : List (Nat × List Nat) := [\n")
	for i, d := range deletes {
		fmt.Fprintf(&sb, "  (%d, %s)%s  -- %s:%d %q %s\n", d.Fn, bytesLit(d.Key), comma(i, len(deletes)), d.Func, d.Line, d.Key, d.Var)
	}
	sb.WriteString("]\n\n")
	sb.WriteString("/-- `[]string{…}` literals (keys that are iterated over): (function id, values) -/\n")
	sb.WriteString("def strLists : List (Nat × List (List Nat)) := [\n")
	for i, l := range lists {
		vs := make([]string, len(l.Values))
		for j, v := range l.Values {
			vs[j] = bytesLit(v)
		}
		fmt.Fprintf(&sb, "  (%d, [%s])%s  -- %s %q\n", l.Fn, strings.Join(vs, ", "), comma(i, len(lists)), l.Func, l.Values)
	}
	sb.WriteString("]\n\n")
	sb.WriteString("/-- syntactic panic sites: (function id, kind: 1 map write 2 index 3 slice 4 unchecked assertion\n")
	sb.WriteString("    5 panic call 6 integer division, guard: 0 NONE, line) -/\n")
	sb.WriteString("def panicSites : List (Nat × Nat × Nat × Nat) := [\n")
	for i, s := range sites {
		fmt.Fprintf(&sb, "  (%d, %d, %d, %d)%s  -- %s: %s; guard: %s\n", s.Fn, s.Kind, s.Guard, s.Line, comma(i, len(sites)), s.Func, s.What, guardNames[s.Guard])
	}
	sb.WriteString("]\n\n")
	fmt.Fprintf(&sb, "/-- fieldVal reports a null value as absent when T is yobj -/\ndef fieldValNullObjAbsent : Bool := %v\n\n", nullObjAbsent)
	fmt.Fprintf(&sb, "/-- Migrate replaces a nil document by an empty map -/\ndef migrateNilDocGuard : Bool := %v\n\n", nilDocGuard)
	sb.WriteString("end AGH.Gen.C13\n")
	if err := os.WriteFile(leanPath, []byte(sb.String()), 0o644); err != nil {
		fmt.Fprintln(os.Stderr, err)
		os.Exit(1)
	}

	loaderRegs, skipsZero := extractLoader(genDir)

	unguarded := 0
	for _, s := range sites {
		if s.Guard == 0 {
			unguarded++
		}
	}
	facts := map[string]any{
		"summary": map[string]any{
			"last_schema_version": last, "steps": len(table), "accesses": len(accesses), "stamp_writes": len(stamps),
			"panic_sites": len(sites), "panic_sites_unguarded": unguarded, "string_lists": len(lists), "deletes": len(deletes),
			"fieldval_null_object_absent": nullObjAbsent, "migrate_nil_document_guard": nilDocGuard,
			"unknown_functions": unknownFns,
			"loader_port_registrations": len(loaderRegs), "loader_addports_skips_zero": skipsZero,
		},
		"loader_port_registrations": loaderRegs,
		"step_table": table, "accesses": accesses, "stamps": stamps, "panic_sites": sites, "string_lists": lists, "deletes": deletes,
		"guards": guardNames,
	}
	bdir := filepath.Join(verif, "build", "C13")
	_ = os.MkdirAll(bdir, 0o755)
	b, _ := json.MarshalIndent(facts, "", " ")
	if err := os.WriteFile(filepath.Join(bdir, "facts.json"), b, 0o644); err != nil {
		fmt.Fprintln(os.Stderr, err)
		os.Exit(1)
	}
	fmt.Printf("c13 facts: %d steps, %d accesses, %d panic sites (%d unguarded), repairs %v/%v\n",
		len(table), len(accesses), len(sites), unguarded, nullObjAbsent, nilDocGuard)
}

func comma(i, n int) string {
	if i+1 < n {
		return ","
	}

	return ""
}

func bytesLit(s string) string {
	if s == "" {
		return "[]"
	}
	parts := make([]string, len(s))
	for i := 0; i < len(s); i++ {
		parts[i] = strconv.Itoa(int(s[i]))
	}

	return "[" + strings.Join(parts, ", ") + "]"
}

func exprString(e ast.Expr) string {
	switch x := e.(type) {
	case *ast.Ident:
		return x.Name
	case *ast.IndexExpr:
		return exprString(x.X) + "[" + exprString(x.Index) + "]"
	case *ast.BasicLit:
		return x.Value
	case *ast.SelectorExpr:
		return exprString(x.X) + "." + x.Sel.Name
	}

	return "…"
}

// validatedBeforeUpgrade: in Migrate, validateVersion(current, target) is
// called, its error returned, before upgradeConfigSchema is called.
func validatedBeforeUpgrade() bool {
	m := funcs["Migrate"]
	if m == nil {
		return false
	}
	var vpos, upos token.Pos
	ast.Inspect(m.decl, func(n ast.Node) bool {
		call, ok := n.(*ast.CallExpr)
		if !ok {
			return true
		}
		switch f := call.Fun.(type) {
		case *ast.Ident:
			if f.Name == "validateVersion" && vpos == 0 {
				vpos = call.Pos()
			}
		case *ast.SelectorExpr:
			if f.Sel.Name == "upgradeConfigSchema" && upos == 0 {
				upos = call.Pos()
			}
		}

		return true
	})
	// upgradeConfigSchema must have no other caller.
	callers := 0
	for _, fn := range funcs {
		ast.Inspect(fn.decl, func(n ast.Node) bool {
			if call, ok := n.(*ast.CallExpr); ok {
				if s, isSel := call.Fun.(*ast.SelectorExpr); isSel && s.Sel.Name == "upgradeConfigSchema" {
					callers++
				}
				if id, isID := call.Fun.(*ast.Ident); isID && id.Name == "upgradeConfigSchema" {
					callers++
				}
			}

			return true
		})
	}

	return vpos != 0 && upos != 0 && vpos < upos && callers == 1
}

// indexGuard classifies an index expression on a slice / array / string.
func indexGuard(fn *fnInfo, x *ast.IndexExpr) int {
	base, ok := x.X.(*ast.Ident)
	if !ok {
		return 0
	}
	bobj := info.Uses[base]

	// for i := range base { … base[i] … }
	if iv, isID := x.Index.(*ast.Ident); isID {
		iobj := info.Uses[iv]
		g := 0
		ast.Inspect(fn.decl, func(n ast.Node) bool {
			rs, isR := n.(*ast.RangeStmt)
			if !isR || x.Pos() < rs.Body.Pos() || x.Pos() > rs.Body.End() {
				return true
			}
			k, _ := rs.Key.(*ast.Ident)
			rb, _ := rs.X.(*ast.Ident)
			if k != nil && rb != nil && info.Defs[k] == iobj && info.Uses[rb] == bobj {
				g = 6
			}

			return true
		})

		return g
	}

	tv := info.Types[x.Index]
	if tv.Value == nil {
		return 0
	}
	idx, _ := constant.Int64Val(tv.Value)

	// s == "" || s[0] == …
	if idx == 0 {
		g := 0
		ast.Inspect(fn.decl, func(n ast.Node) bool {
			be, isB := n.(*ast.BinaryExpr)
			if !isB || be.Op != token.LOR || x.Pos() < be.Y.Pos() || x.Pos() > be.Y.End() {
				return true
			}
			l, isL := be.X.(*ast.BinaryExpr)
			if !isL || l.Op != token.EQL {
				return true
			}
			li, _ := l.X.(*ast.Ident)
			if s, isC := constString(l.Y); li != nil && isC && s == "" && info.Uses[li] == bobj {
				g = 7
			}

			return true
		})
		if g != 0 {
			return g
		}
	}

	// if len(base) != N { return … } earlier in the same block, idx < N
	g := 0
	ast.Inspect(fn.decl, func(n ast.Node) bool {
		ifs, isIf := n.(*ast.IfStmt)
		if !isIf || ifs.End() > x.Pos() || !terminates(ifs.Body) {
			return true
		}
		be, isB := ifs.Cond.(*ast.BinaryExpr)
		if !isB || be.Op != token.NEQ {
			return true
		}
		call, isCall := be.X.(*ast.CallExpr)
		if !isCall || len(call.Args) != 1 {
			return true
		}
		f, _ := call.Fun.(*ast.Ident)
		a, _ := call.Args[0].(*ast.Ident)
		nv := info.Types[be.Y]
		if f == nil || f.Name != "len" || a == nil || info.Uses[a] != bobj || nv.Value == nil {
			return true
		}
		n64, _ := constant.Int64Val(nv.Value)
		if idx < n64 {
			g = 8
		}

		return true
	})

	return g
}

// hasNullObjGuard: inside `if val == nil { … }` of fieldVal there is
// `if _, isObj := any(v).(yobj); isObj { return v, false, nil }`.
func hasNullObjGuard(fn *fnInfo) bool {
	if fn == nil {
		return false
	}
	found := false
	ast.Inspect(fn.decl, func(n ast.Node) bool {
		outer, ok := n.(*ast.IfStmt)
		if !ok {
			return true
		}
		be, isB := outer.Cond.(*ast.BinaryExpr)
		if !isB || be.Op != token.EQL {
			return true
		}
		if id, isID := be.Y.(*ast.Ident); !isID || id.Name != "nil" {
			return true
		}
		for _, s := range outer.Body.List {
			inner, isIf := s.(*ast.IfStmt)
			if !isIf || inner.Init == nil {
				continue
			}
			as, isAs := inner.Init.(*ast.AssignStmt)
			if !isAs || len(as.Rhs) != 1 {
				continue
			}
			ta, isTA := as.Rhs[0].(*ast.TypeAssertExpr)
			if !isTA || ta.Type == nil || !isMapStringAny(info.TypeOf(ta.Type)) || len(inner.Body.List) != 1 {
				continue
			}
			ret, isRet := inner.Body.List[0].(*ast.ReturnStmt)
			if !isRet || len(ret.Results) != 3 {
				continue
			}
			if okv, isID := ret.Results[1].(*ast.Ident); isID && okv.Name == "false" {
				found = true
			}
		}

		return true
	})

	return found
}

// hasNilDocGuard: Migrate contains `if diskConf == nil { diskConf = yobj{} }`
// before the first fieldVal call.
func hasNilDocGuard(fn *fnInfo) bool {
	if fn == nil {
		return false
	}
	found := false
	for _, s := range fn.decl.Body.List {
		if ifs, ok := s.(*ast.IfStmt); ok {
			be, isB := ifs.Cond.(*ast.BinaryExpr)
			if !isB || be.Op != token.EQL || len(ifs.Body.List) != 1 {
				continue
			}
			x, _ := be.X.(*ast.Ident)
			y, _ := be.Y.(*ast.Ident)
			as, isAs := ifs.Body.List[0].(*ast.AssignStmt)
			if x == nil || y == nil || y.Name != "nil" || !isAs || len(as.Lhs) != 1 || len(as.Rhs) != 1 {
				continue
			}
			l, _ := as.Lhs[0].(*ast.Ident)
			cl, isCL := as.Rhs[0].(*ast.CompositeLit)
			if l != nil && isCL && l.Name == x.Name && isMapStringAny(info.TypeOf(cl)) {
				found = true
			}
		}
		// stop at the first use of the document
		stop := false
		ast.Inspect(s, func(n ast.Node) bool {
			if call, ok := n.(*ast.CallExpr); ok {
				if ix, isIx := call.Fun.(*ast.IndexExpr); isIx {
					if id, isID := ix.X.(*ast.Ident); isID && id.Name == "fieldVal" {
						stop = true
					}
				}
			}

			return true
		})
		if stop {
			break
		}
	}

	return found
}


// ---------------------------------------------------------------- the loader's port check

type portReg struct {
	Helper  int    `json:"via_addPorts"` // 1: addPorts(uc, …); 0: uc.Add(…) directly
	Checker int    `json:"checker"`      // 0 tcp, 1 udp, 9 unknown
	Guard   int    `json:"guard"`        // 0 none, 1 `if config.TLS.Enabled`, 9 another condition
	Field   int    `json:"field"`        // 0 http port, 1 dns port, 2 https, 3 dot, 4 dnscrypt, 5 doq, 99 other
	Expr    string `json:"expr"`
	Line    int    `json:"line"`
}

func exprStr(e ast.Expr) string {
	switch x := e.(type) {
	case *ast.Ident:
		return x.Name
	case *ast.SelectorExpr:
		return exprStr(x.X) + "." + x.Sel.Name
	case *ast.CallExpr:
		return exprStr(x.Fun) + "()"
	case *ast.UnaryExpr:
		return x.Op.String() + exprStr(x.X)
	case *ast.StarExpr:
		return "*" + exprStr(x.X)
	case *ast.ParenExpr:
		return exprStr(x.X)
	}

	return "?"
}

// extractLoader reads validateConfig and addPorts of internal/home/config.go
// (syntax only) and writes lean/AGH/Gen/C13Loader.lean: which port fields
// reach which uniqueness check, through the zero-skipping helper or not, and
// under which condition.
func extractLoader(genDir string) (regs []portReg, skipsZero bool) {
	path := filepath.Join(load.Repo(), "internal", "home", "config.go")
	lfset := token.NewFileSet()
	f, err := parser.ParseFile(lfset, path, nil, 0)
	if err != nil {
		fmt.Fprintf(os.Stderr, "extract c13: %v\n", err)
		os.Exit(1)
	}
	ldie := func(pos token.Pos, format string, args ...any) {
		p := lfset.Position(pos)
		fmt.Fprintf(os.Stderr, "extract c13: %s:%d: %s\n", p.Filename, p.Line, fmt.Sprintf(format, args...))
		os.Exit(1)
	}

	var validate, addPorts *ast.FuncDecl
	for _, d := range f.Decls {
		if fd, ok := d.(*ast.FuncDecl); ok && fd.Recv == nil {
			switch fd.Name.Name {
			case "validateConfig":
				validate = fd
			case "addPorts":
				addPorts = fd
			}
		}
	}
	if validate == nil || validate.Body == nil {
		fmt.Fprintf(os.Stderr, "extract c13: %s: func validateConfig not found\n", path)
		os.Exit(1)
	}

	// addPorts: `for _, p := range ports { if p != 0 { uc.Add(p) } }`
	if addPorts != nil && addPorts.Body != nil {
		ast.Inspect(addPorts.Body, func(n ast.Node) bool {
			rs, ok := n.(*ast.RangeStmt)
			if !ok || len(rs.Body.List) != 1 {
				return true
			}
			ifs, ok := rs.Body.List[0].(*ast.IfStmt)
			if !ok || ifs.Else != nil || len(ifs.Body.List) != 1 {
				return true
			}
			be, ok := ifs.Cond.(*ast.BinaryExpr)
			v, _ := rs.Value.(*ast.Ident)
			if !ok || be.Op != token.NEQ || v == nil || exprStr(be.X) != v.Name || exprStr(be.Y) != "0" {
				if bl, isLit := be.Y.(*ast.BasicLit); !(ok && be.Op == token.NEQ && v != nil && exprStr(be.X) == v.Name && isLit && bl.Value == "0") {
					return true
				}
			}
			if es, isExpr := ifs.Body.List[0].(*ast.ExprStmt); isExpr {
				if call, isCall := es.X.(*ast.CallExpr); isCall && strings.HasSuffix(exprStr(call.Fun), ".Add") {
					skipsZero = true
				}
			}

			return true
		})
	}

	checkers := map[string]int{} // variable -> 0 tcp / 1 udp
	tlsAlias := map[string]bool{} // variables holding &config.TLS / config.TLS

	fieldID := func(e ast.Expr) (int, string) {
		// tcpPort(X) / udpPort(X)
		if call, ok := e.(*ast.CallExpr); ok && len(call.Args) == 1 {
			if id, isID := call.Fun.(*ast.Ident); isID && (id.Name == "tcpPort" || id.Name == "udpPort") {
				e = call.Args[0]
			}
		}
		s := exprStr(e)
		for a := range tlsAlias {
			if strings.HasPrefix(s, a+".") {
				s = "config.TLS." + strings.TrimPrefix(s, a+".")
			}
		}
		switch s {
		case "config.HTTPConfig.Address.Port()":
			return 0, s
		case "config.DNS.Port":
			return 1, s
		case "config.TLS.PortHTTPS":
			return 2, s
		case "config.TLS.PortDNSOverTLS":
			return 3, s
		case "config.TLS.PortDNSCrypt":
			return 4, s
		case "config.TLS.PortDNSOverQUIC":
			return 5, s
		}

		return 99, s
	}

	var walk func(stmts []ast.Stmt, guard int)
	noteAssign := func(as *ast.AssignStmt) {
		if len(as.Lhs) != 1 || len(as.Rhs) != 1 {
			return
		}
		lhs, ok := as.Lhs[0].(*ast.Ident)
		if !ok {
			return
		}
		switch rhs := as.Rhs[0].(type) {
		case *ast.CompositeLit:
			t := exprStr(rhs.Type)
			if ix, isIx := rhs.Type.(*ast.IndexExpr); isIx {
				t = exprStr(ix.X) + "[" + exprStr(ix.Index) + "]"
			}
			switch t {
			case "aghalg.UniqChecker[tcpPort]":
				checkers[lhs.Name] = 0
			case "aghalg.UniqChecker[udpPort]":
				checkers[lhs.Name] = 1
			}
		default:
			s := exprStr(as.Rhs[0])
			if s == "&config.TLS" || s == "config.TLS" {
				tlsAlias[lhs.Name] = true
			}
		}
	}
	record := func(call *ast.CallExpr, helper int, ucName string, args []ast.Expr, guard int) {
		ck, known := checkers[ucName]
		if !known {
			ck = 9
		}
		for _, a := range args {
			id, s := fieldID(a)
			regs = append(regs, portReg{Helper: helper, Checker: ck, Guard: guard, Field: id, Expr: s,
				Line: lfset.Position(call.Pos()).Line})
		}
	}
	walk = func(stmts []ast.Stmt, guard int) {
		for _, st := range stmts {
			switch s := st.(type) {
			case *ast.AssignStmt:
				noteAssign(s)
			case *ast.ExprStmt:
				call, ok := s.X.(*ast.CallExpr)
				if !ok {
					continue
				}
				switch fn := call.Fun.(type) {
				case *ast.Ident:
					if fn.Name == "addPorts" {
						if len(call.Args) < 1 {
							ldie(call.Pos(), "addPorts without a checker")
						}
						record(call, 1, exprStr(call.Args[0]), call.Args[1:], guard)
					}
				case *ast.SelectorExpr:
					if _, isChecker := checkers[exprStr(fn.X)]; isChecker {
						switch fn.Sel.Name {
						case "Add":
							record(call, 0, exprStr(fn.X), call.Args, guard)
						default:
							ldie(call.Pos(), "unsupported use of a UniqChecker: %s", fn.Sel.Name)
						}
					}
				}
			case *ast.IfStmt:
				if as, ok := s.Init.(*ast.AssignStmt); ok {
					noteAssign(as)
				}
				g := 9
				c := exprStr(s.Cond)
				for a := range tlsAlias {
					if c == a+".Enabled" {
						c = "config.TLS.Enabled"
					}
				}
				if c == "config.TLS.Enabled" {
					g = 1
				}
				inner := g
				if guard != 0 {
					inner = 9
				}
				// conditions that only test an error (`err != nil`, `err = …; err != nil`) guard nothing here
				walk(s.Body.List, inner)
				switch e := s.Else.(type) {
				case *ast.BlockStmt:
					walk(e.List, 9)
				case *ast.IfStmt:
					walk([]ast.Stmt{e}, guard)
				}
			case *ast.ForStmt, *ast.RangeStmt, *ast.SwitchStmt, *ast.TypeSwitchStmt, *ast.GoStmt, *ast.DeferStmt:
				// a registration inside any of these would be missed
				ast.Inspect(st, func(n ast.Node) bool {
					if call, ok := n.(*ast.CallExpr); ok {
						fs := exprStr(call.Fun)
						if fs == "addPorts" || strings.HasSuffix(fs, ".Add") {
							ldie(call.Pos(), "port registration inside an unsupported statement")
						}
					}

					return true
				})
			}
		}
	}
	walk(validate.Body.List, 0)

	leanPath := filepath.Join(genDir, "C13Loader.lean")
	_ = os.Remove(leanPath)
	var sb strings.Builder
	sb.WriteString("/- GENERATED by /verif/extract/cmd/c13 from internal/home/config.go — do not edit. -/\n")
	sb.WriteString("namespace AGH.Gen.C13L\n\n")
	sb.WriteString("/-- port registrations of `validateConfig`, in source order:\n")
	sb.WriteString("    (1 through addPorts / 0 UniqChecker.Add directly, checker: 0 tcp 1 udp, guard: 0 none 1 `if config.TLS.Enabled` 9 other,\n")
	sb.WriteString("     field: 0 http port, 1 dns.port, 2 port_https, 3 port_dns_over_tls, 4 port_dnscrypt, 5 port_dns_over_quic, 99 other) -/\n")
	sb.WriteString("def portRegs : List (Nat × Nat × Nat × Nat) := [\n")
	for i, r := range regs {
		fmt.Fprintf(&sb, "  (%d, %d, %d, %d)%s  -- config.go:%d %s\n", r.Helper, r.Checker, r.Guard, r.Field, comma(i, len(regs)), r.Line, r.Expr)
	}
	sb.WriteString("]\n\n")
	fmt.Fprintf(&sb, "/-- `addPorts` skips zero ports: `if p != 0 { uc.Add(p) }` -/\ndef addPortsSkipsZero : Bool := %v\n\n", skipsZero)
	sb.WriteString("end AGH.Gen.C13L\n")
	if err = os.WriteFile(leanPath, []byte(sb.String()), 0o644); err != nil {
		fmt.Fprintln(os.Stderr, err)
		os.Exit(1)
	}

	return regs, skipsZero
}
