// Command c01 is the (small) translator tie of properties C01 / C02.  From
// the syntax trees of the current tree it regenerates
//
//	/verif/lean/AGH/Gen/C01Stages.lean   structural facts the pipeline model relies on
//	/verif/build/C01/facts.json          the same facts with names and file:line
//
// Facts (all syntactic, go/parser only):
//
//  1. the ordered stage list of (*Server).handleDNSRequest (the `mods` literal);
//  2. (*Server).processUpstream: the single call of prx.Resolve comes after a
//     top-level guard `if pctx.Res != nil { return resultCodeSuccess }`;
//  3. (*Server).filterDNSRequest: the order of the cases of its result switch and
//     that the `res.IsFiltered` case assigns pctx.Res from genDNSFilterMessage;
//  4. (*Server).filterAfterResponse: the call of filterDNSResponse comes after the
//     guard on protectionEnabled / responseFromUpstream;
//  5. every call of a method named Resolve on a proxy in internal/dnsforward
//     (function it occurs in);
//  6. filtering.New: the ordered hostCheckers list; (*DNSFilter).CheckHost calls
//     processRewrites before ranging over d.hostCheckers.
//
// Anything outside the understood shapes aborts with a message: a broken tie,
// never a silent default.
package main

import (
	"encoding/json"
	"fmt"
	"go/ast"
	"go/parser"
	"go/token"
	"os"
	"path/filepath"
	"strings"
)

func die(format string, a ...any) {
	fmt.Fprintf(os.Stderr, "extract c01: "+format+"\n", a...)
	os.Exit(1)
}

var fset = token.NewFileSet()

func parseDir(dir string) (files []*ast.File) {
	ents, err := os.ReadDir(dir)
	if err != nil {
		die("%v", err)
	}
	for _, e := range ents {
		n := e.Name()
		if e.IsDir() || !strings.HasSuffix(n, ".go") || strings.HasSuffix(n, "_test.go") {
			continue
		}
		f, perr := parser.ParseFile(fset, filepath.Join(dir, n), nil, parser.SkipObjectResolution)
		if perr != nil {
			die("%v", perr)
		}
		files = append(files, f)
	}

	return files
}

func findFunc(files []*ast.File, recv, name string) *ast.FuncDecl {
	for _, f := range files {
		for _, d := range f.Decls {
			fd, ok := d.(*ast.FuncDecl)
			if !ok || fd.Name.Name != name || fd.Body == nil {
				continue
			}
			if recv == "" && fd.Recv == nil {
				return fd
			}
			if recv != "" && fd.Recv != nil && len(fd.Recv.List) == 1 {
				t := fd.Recv.List[0].Type
				if st, isStar := t.(*ast.StarExpr); isStar {
					t = st.X
				}
				if id, isID := t.(*ast.Ident); isID && id.Name == recv {
					return fd
				}
			}
		}
	}
	die("function (%s).%s not found", recv, name)

	return nil
}

func exprStr(e ast.Expr) string {
	switch v := e.(type) {
	case *ast.Ident:
		return v.Name
	case *ast.SelectorExpr:
		return exprStr(v.X) + "." + v.Sel.Name
	case *ast.CallExpr:
		return exprStr(v.Fun) + "()"
	case *ast.UnaryExpr:
		return v.Op.String() + exprStr(v.X)
	case *ast.BinaryExpr:
		return exprStr(v.X) + " " + v.Op.String() + " " + exprStr(v.Y)
	case *ast.ParenExpr:
		return "(" + exprStr(v.X) + ")"
	case *ast.BasicLit:
		return v.Value
	default:
		return fmt.Sprintf("<%T>", e)
	}
}

func pos(n ast.Node) string {
	p := fset.Position(n.Pos())

	return fmt.Sprintf("%s:%d", filepath.Base(p.Filename), p.Line)
}

// containsCall reports whether n contains a call whose function is a selector with the given name.
func containsCall(n ast.Node, sel string) (found bool) {
	ast.Inspect(n, func(x ast.Node) bool {
		if c, ok := x.(*ast.CallExpr); ok {
			if s, isSel := c.Fun.(*ast.SelectorExpr); isSel && s.Sel.Name == sel {
				found = true
			}
		}

		return !found
	})

	return found
}

// returnsSuccess reports whether the block is (only) `return resultCodeSuccess`.
func returnsSuccess(b *ast.BlockStmt) bool {
	for _, st := range b.List {
		if r, ok := st.(*ast.ReturnStmt); ok && len(r.Results) == 1 && exprStr(r.Results[0]) == "resultCodeSuccess" {
			return true
		}
	}

	return false
}

// guardBefore checks that the top-level statement list has an `if <cond> { …return resultCodeSuccess }`
// before the first top-level statement containing a call of callee; it returns the guard's condition.
func guardBefore(fd *ast.FuncDecl, callee string, wantCond func(string) bool) (cond string, ok bool) {
	for _, st := range fd.Body.List {
		if containsCall(st, callee) {
			return cond, ok
		}
		if is, isIf := st.(*ast.IfStmt); isIf && is.Init == nil && returnsSuccess(is.Body) && wantCond(exprStr(is.Cond)) {
			cond, ok = exprStr(is.Cond), true
		}
	}
	die("%s: no call of %s found", fd.Name.Name, callee)

	return "", false
}

func countCalls(n ast.Node, sel string) (c int) {
	ast.Inspect(n, func(x ast.Node) bool {
		if ce, ok := x.(*ast.CallExpr); ok {
			if s, isSel := ce.Fun.(*ast.SelectorExpr); isSel && s.Sel.Name == sel {
				c++
			}
		}

		return true
	})

	return c
}

// Known names and their codes in the generated Lean file (an unknown name aborts).
var stageCode = map[string]int{
	"s.processInitial": 0, "s.processDDRQuery": 1, "s.processDHCPHosts": 2, "s.processDHCPAddrs": 3,
	"s.processFilteringBeforeRequest": 4, "s.processUpstream": 5, "s.processFilteringAfterResponse": 6,
	"s.ipset.process": 7, "s.processQueryLogsAndStats": 8,
}

var checkerCode = map[string]int{
	"d.matchSysHosts": 0, "d.matchHost": 1, "matchBlockedServicesRules": 2, "d.checkSafeBrowsing": 3,
	"d.checkParental": 4, "d.checkSafeSearch": 5,
}

// the cases of filterDNSRequest's switch
var caseCode = map[string]int{
	"isRewrittenCNAME()": 0, "res.IsFiltered": 1, "res.Reason.In()": 2,
}

type facts struct {
	Stages            []string `json:"stages"`
	Checkers          []string `json:"host_checkers"`
	RequestCases      []string `json:"filter_dns_request_cases"`
	UpstreamGuard     string   `json:"process_upstream_guard"`
	ResolveInUpstream int      `json:"resolve_calls_in_process_upstream"`
	FilteredSetsRes   bool     `json:"is_filtered_case_sets_response"`
	AfterGuard        string   `json:"filter_after_response_guard"`
	ResolveSites      []string `json:"proxy_resolve_call_sites"`
	RewritesFirst     bool     `json:"check_host_rewrites_before_checkers"`
	Summary           string   `json:"summary"`
}

func main() {
	repo := os.Getenv("VERIF_REPO")
	if repo == "" {
		repo = "/repo"
	}
	verif := os.Getenv("VERIF_ROOT")
	if verif == "" {
		verif = "/verif"
	}
	df := parseDir(filepath.Join(repo, "internal/dnsforward"))
	ff := parseDir(filepath.Join(repo, "internal/filtering"))
	var f facts

	// 1. stage list
	h := findFunc(df, "Server", "handleDNSRequest")
	ast.Inspect(h, func(n ast.Node) bool {
		as, ok := n.(*ast.AssignStmt)
		if !ok || len(as.Lhs) != 1 || exprStr(as.Lhs[0]) != "mods" {
			return true
		}
		cl, isCL := as.Rhs[0].(*ast.CompositeLit)
		if !isCL {
			die("%s: mods is not a composite literal", pos(as))
		}
		for _, el := range cl.Elts {
			f.Stages = append(f.Stages, exprStr(el))
		}

		return false
	})
	if len(f.Stages) == 0 {
		die("handleDNSRequest: stage list `mods` not found")
	}

	// 2. processUpstream
	pu := findFunc(df, "Server", "processUpstream")
	f.ResolveInUpstream = countCalls(pu, "Resolve")
	cond, ok := guardBefore(pu, "Resolve", func(c string) bool { return c == "pctx.Res != nil" })
	if ok {
		f.UpstreamGuard = cond
	}

	// 3. filterDNSRequest
	fr := findFunc(df, "Server", "filterDNSRequest")
	ast.Inspect(fr, func(n ast.Node) bool {
		sw, isSw := n.(*ast.SwitchStmt)
		if !isSw || sw.Tag != nil {
			return true
		}
		for _, c := range sw.Body.List {
			cc := c.(*ast.CaseClause)
			if len(cc.List) != 1 {
				die("%s: unexpected case list", pos(cc))
			}
			name := exprStr(cc.List[0])
			f.RequestCases = append(f.RequestCases, name)
			if name == "res.IsFiltered" {
				for _, st := range cc.Body {
					if as, isAs := st.(*ast.AssignStmt); isAs && len(as.Lhs) == 1 && exprStr(as.Lhs[0]) == "pctx.Res" &&
						exprStr(as.Rhs[0]) == "s.genDNSFilterMessage()" {
						f.FilteredSetsRes = true
					}
				}
			}
		}

		return false
	})

	// 4. filterAfterResponse
	fa := findFunc(df, "Server", "filterAfterResponse")
	cond, ok = guardBefore(fa, "filterDNSResponse", func(c string) bool {
		return c == "!dctx.protectionEnabled || !dctx.responseFromUpstream"
	})
	if ok {
		f.AfterGuard = cond
	}

	// 5. Resolve call sites on a proxy
	for _, file := range df {
		for _, d := range file.Decls {
			fd, isFn := d.(*ast.FuncDecl)
			if !isFn || fd.Body == nil {
				continue
			}
			ast.Inspect(fd.Body, func(n ast.Node) bool {
				if ce, isCall := n.(*ast.CallExpr); isCall {
					if s, isSel := ce.Fun.(*ast.SelectorExpr); isSel && s.Sel.Name == "Resolve" && len(ce.Args) == 1 {
						f.ResolveSites = append(f.ResolveSites, fd.Name.Name+" "+exprStr(s.X)+" "+pos(ce))
					}
				}

				return true
			})
		}
	}

	// 6. host checkers and CheckHost
	nw := findFunc(ff, "", "New")
	ast.Inspect(nw, func(n ast.Node) bool {
		as, isAs := n.(*ast.AssignStmt)
		if !isAs || len(as.Lhs) != 1 || exprStr(as.Lhs[0]) != "d.hostCheckers" {
			return true
		}
		cl := as.Rhs[0].(*ast.CompositeLit)
		for _, el := range cl.Elts {
			inner, isCL := el.(*ast.CompositeLit)
			if !isCL {
				die("%s: unexpected hostChecker element", pos(el))
			}
			for _, kv := range inner.Elts {
				p := kv.(*ast.KeyValueExpr)
				if exprStr(p.Key) == "check" {
					f.Checkers = append(f.Checkers, exprStr(p.Value))
				}
			}
		}

		return false
	})
	ch := findFunc(ff, "DNSFilter", "CheckHost")
	seenRewrites := false
	for _, st := range ch.Body.List {
		if containsCall(st, "processRewrites") {
			seenRewrites = true
		}
		if rs, isRange := st.(*ast.RangeStmt); isRange && exprStr(rs.X) == "d.hostCheckers" {
			f.RewritesFirst = seenRewrites

			break
		}
	}

	// ---- render
	code := func(tbl map[string]int, names []string, what string) (s string) {
		var cs []string
		for _, n := range names {
			c, known := tbl[n]
			if !known {
				die("%s: unknown name %q (the model does not know this stage/checker/case)", what, n)
			}
			cs = append(cs, fmt.Sprint(c))
		}

		return "[" + strings.Join(cs, ", ") + "]"
	}
	resolveFns := map[string]int{}
	for _, s := range f.ResolveSites {
		resolveFns[strings.Fields(s)[0]]++
	}
	b := func(v bool) string {
		if v {
			return "true"
		}

		return "false"
	}
	var sb strings.Builder
	sb.WriteString("/-\nGENERATED by /verif/extract/cmd/c01 from the syntax trees of the tree — never edit.\n")
	sb.WriteString("Structural facts of internal/dnsforward and internal/filtering the C01 / C02 pipeline\nmodel relies on.  Names and file:line: build/C01/facts.json.\n-/\n")
	sb.WriteString("namespace AGH.Filter.Gen\n\n")
	fmt.Fprintf(&sb, "/-- handleDNSRequest `mods`: %s -/\ndef stages : List Nat := %s\n\n", strings.Join(f.Stages, ", "), code(stageCode, f.Stages, "stage list"))
	fmt.Fprintf(&sb, "/-- filtering.New `hostCheckers`: %s -/\ndef hostCheckers : List Nat := %s\n\n", strings.Join(f.Checkers, ", "), code(checkerCode, f.Checkers, "host checkers"))
	fmt.Fprintf(&sb, "/-- filterDNSRequest switch: %s -/\ndef requestCases : List Nat := %s\n\n", strings.Join(f.RequestCases, " | "), code(caseCode, f.RequestCases, "filterDNSRequest cases"))
	fmt.Fprintf(&sb, "/-- processUpstream: guard `if pctx.Res != nil { return resultCodeSuccess }` before prx.Resolve -/\ndef upstreamGuarded : Bool := %s\n\n", b(f.UpstreamGuard != ""))
	fmt.Fprintf(&sb, "def resolveCallsInProcessUpstream : Nat := %d\n\n", f.ResolveInUpstream)
	fmt.Fprintf(&sb, "/-- the `res.IsFiltered` case assigns pctx.Res = s.genDNSFilterMessage(…) -/\ndef filteredCaseSetsResponse : Bool := %s\n\n", b(f.FilteredSetsRes))
	fmt.Fprintf(&sb, "/-- filterAfterResponse: guard on protectionEnabled / responseFromUpstream before filterDNSResponse -/\ndef afterResponseGuarded : Bool := %s\n\n", b(f.AfterGuard != ""))
	fmt.Fprintf(&sb, "/-- CheckHost calls processRewrites before ranging over d.hostCheckers -/\ndef rewritesBeforeCheckers : Bool := %s\n\n", b(f.RewritesFirst))
	fmt.Fprintf(&sb, "/-- calls of a one-argument method Resolve in internal/dnsforward, per function:\n%s -/\n", strings.Join(f.ResolveSites, "\n"))
	fmt.Fprintf(&sb, "def resolveSites : List (Nat × Nat) := [(0, %d), (1, %d), (2, %d), (3, %d)]  -- processUpstream, genBlockedHost, anything else on the request path, resolveLocalDomain/internal\n\n",
		resolveFns["processUpstream"], resolveFns["genBlockedHost"], len(f.ResolveSites)-resolveFns["processUpstream"]-resolveFns["genBlockedHost"]-resolveFns["Exchange"]-resolveFns["Resolve"], resolveFns["Exchange"]+resolveFns["Resolve"])
	sb.WriteString("end AGH.Filter.Gen\n")

	out := filepath.Join(verif, "lean/AGH/Gen/C01Stages.lean")
	if err := os.WriteFile(out, []byte(sb.String()), 0o644); err != nil {
		die("%v", err)
	}
	f.Summary = fmt.Sprintf("%d stages, %d host checkers, %d request cases, %d Resolve sites", len(f.Stages), len(f.Checkers), len(f.RequestCases), len(f.ResolveSites))
	js, _ := json.MarshalIndent(f, "", " ")
	_ = os.MkdirAll(filepath.Join(verif, "build/C01"), 0o755)
	if err := os.WriteFile(filepath.Join(verif, "build/C01/facts.json"), js, 0o644); err != nil {
		die("%v", err)
	}
	fmt.Println("c01 facts:", f.Summary)
}
