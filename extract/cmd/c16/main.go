// Command c16 is the fact extractor of property C16 (translator tie "no other
// source").  From the typed syntax of internal/dnsforward it regenerates
//
//	lean/AGH/Gen/C16Sources.lean   tables the theorems C16_gen_* quantify over
//	build/C16/facts.json           the same facts with names and file:line
//
// Facts:
//
//  1. The ClientID functions: everything in package dnsforward reachable by
//     calls from (*Server).clientIDFromDNSContext.  Inside them, every field
//     read and every method call on a value of a type that is not a basic
//     type (the request context, the HTTP request, connection states, the
//     server configuration) — the INPUT SIGNATURE of the extraction — and
//     every "escape": a call that hands such a value as a whole to a function
//     outside the ClientID functions.
//  2. Every write of dnsContext.clientID (assignment or composite-literal
//     key) with the shape of the value; every clientIDCache.Set/Get/Del with
//     its enclosing function, the shape of the stored value and whether the
//     key is derived from pctx.RequestID; every call of clientIDFromDNSContext.
//  3. Every return statement of the functions whose first result flows into
//     the result of clientIDFromDNSContext, classified: the empty string, the
//     lower-cased form of a variable that passed ValidateClientID right
//     before, a value forwarded from another such function, anything else; and
//     the callees of ValidateClientID.
//  4. Every write of dnsforward.TLSConfig.StrictSNICheck (assignment, address
//     taken, composite-literal key) in packages dnsforward and home, with its
//     site: the flag the ClientID check reads must only be set where the
//     configuration is loaded.
//
// Syntax outside the understood shapes (closures inside these functions, bare
// returns, goto, …) aborts with file:line: a broken tie, never a default.
package main

import (
	"encoding/json"
	"fmt"
	"go/ast"
	"go/printer"
	"go/token"
	"go/types"
	"os"
	"path/filepath"
	"sort"
	"strings"

	"golang.org/x/tools/go/packages"

	"verif/extract/internal/load"
)

const dfPkg = "github.com/AdguardTeam/AdGuardHome/internal/dnsforward"

const homePkgPath = "github.com/AdguardTeam/AdGuardHome/internal/home"

// Known request-derived selectors (keep in sync with lean/AGH/Props/C16.lean).
var knownSources = map[string]int{
	"dnsproxy/proxy.DNSContext.Proto":             1,
	"dnsproxy/proxy.DNSContext.HTTPRequest":       2,
	"net/http.Request.URL":                        3,
	"net/url.URL.Path":                            4,
	"net/http.Request.TLS":                        5,
	"crypto/tls.ConnectionState.ServerName":       6,
	"net/http.Request.Host":                       7,
	"dnsproxy/proxy.DNSContext.Conn":              8,
	"dnsforward.tlsConn.ConnectionState()":        9,
	"dnsproxy/proxy.DNSContext.QUICConnection":    10,
	"dnsforward.quicConnection.ConnectionState()": 11,
	"quic-go.ConnectionState.TLS":                 12,
	"dnsforward.Server.conf":                      13,
	"dnsforward.ServerConfig.TLSConf":             14,
	"dnsforward.TLSConfig.ServerName":             15,
	"dnsforward.TLSConfig.StrictSNICheck":         16,
}

// Known functions.
var knownFuncs = map[string]int{
	"Server.HandleBefore":           1,
	"Server.processInitial":         2,
	"Server.clientIDFromDNSContext": 3,
	"clientIDFromDNSContextHTTPS":   4,
	"clientServerName":              5,
	"clientServerNameFromHTTP":      6,
	"clientIDFromClientServerName":  7,
	"ValidateClientID":              8,
}

// Return classes.
const (
	retEmpty     = 0 // ""
	retValidated = 1 // strings.ToLower(v), v passed ValidateClientID right before
	retOther     = 2
	retForwarded = 3 // a variable only ever assigned from ClientID functions
)

// Value classes of writes / cache stores.
const (
	valCacheGet   = 1 // string(s.clientIDCache.Get(key[:]))
	valOther      = 2
	valExtraction = 1 // []byte(v), v assigned from s.clientIDFromDNSContext(pctx)
)

var (
	fset *token.FileSet
	pkg  *packages.Package
	info *types.Info
)

func pos(n ast.Node) string {
	p := fset.Position(n.Pos())

	return fmt.Sprintf("%s:%d", p.Filename, p.Line)
}

func die(n ast.Node, format string, a ...any) {
	fmt.Fprintf(os.Stderr, "extract c16: %s: %s\n", pos(n), fmt.Sprintf(format, a...))
	os.Exit(1)
}

type named struct {
	ID   int    `json:"id"`
	Name string `json:"name"`
	Pos  string `json:"pos,omitempty"`
}

// dynamic id allocation for names outside the known tables
type alloc struct {
	known map[string]int
	base  int
	dyn   map[string]int
}

func (a *alloc) id(name string) int {
	if i, ok := a.known[name]; ok {
		return i
	}
	if i, ok := a.dyn[name]; ok {
		return i
	}
	i := a.base + len(a.dyn)
	a.dyn[name] = i

	return i
}

func funcName(fd *ast.FuncDecl) string {
	if fd.Recv == nil || len(fd.Recv.List) == 0 {
		return fd.Name.Name
	}
	t := fd.Recv.List[0].Type
	if s, ok := t.(*ast.StarExpr); ok {
		t = s.X
	}
	if id, ok := t.(*ast.Ident); ok {
		return id.Name + "." + fd.Name.Name
	}

	return "?." + fd.Name.Name
}

// shortPkg shortens import paths for names.
func shortPkg(p string) string {
	switch {
	case p == dfPkg:
		return "dnsforward"
	case strings.HasPrefix(p, "github.com/AdguardTeam/"):
		return strings.TrimPrefix(p, "github.com/AdguardTeam/")
	case strings.HasPrefix(p, "github.com/quic-go/quic-go"):
		return "quic-go" + strings.TrimPrefix(p, "github.com/quic-go/quic-go")
	}

	return p
}

func typeName(t types.Type) string {
	if p, ok := t.(*types.Pointer); ok {
		t = p.Elem()
	}
	if a, ok := t.(*types.Alias); ok {
		t = types.Unalias(a)
	}
	if n, ok := t.(*types.Named); ok {
		o := n.Obj()
		if o.Pkg() == nil {
			return o.Name()
		}

		return shortPkg(o.Pkg().Path()) + "." + o.Name()
	}

	return t.String()
}

// carrier reports whether a value of type t can carry request data as a whole
// (anything that is not a basic type, an error, or a slice/array of bytes or
// strings).
func carrier(t types.Type) bool {
	if t == nil {
		return false
	}
	switch u := t.Underlying().(type) {
	case *types.Basic:
		return false
	case *types.Slice:
		return carrier(u.Elem())
	case *types.Array:
		return carrier(u.Elem())
	case *types.Interface:
		return typeName(t) != "error"
	}

	return true
}

func main() {
	verif, err := filepath.Abs(".")
	if err != nil {
		panic(err)
	}
	pkgs := load.Packages("./internal/dnsforward", "./internal/home")
	var homePkg *packages.Package
	for _, p := range pkgs {
		if p.PkgPath == dfPkg {
			pkg = p
		}
		if p.PkgPath == homePkgPath {
			homePkg = p
		}
	}
	if homePkg == nil {
		fmt.Fprintln(os.Stderr, "extract c16: package home not loaded")
		os.Exit(1)
	}
	if pkg == nil {
		fmt.Fprintln(os.Stderr, "extract c16: package dnsforward not loaded")
		os.Exit(1)
	}
	fset, info = pkg.Fset, pkg.TypesInfo

	// all function declarations of the package
	decls := map[*types.Func]*ast.FuncDecl{}
	byName := map[string]*ast.FuncDecl{}
	for _, f := range pkg.Syntax {
		if strings.HasSuffix(fset.Position(f.Pos()).Filename, "_test.go") {
			continue
		}
		for _, d := range f.Decls {
			if fd, ok := d.(*ast.FuncDecl); ok && fd.Body != nil {
				if fn, isFn := info.Defs[fd.Name].(*types.Func); isFn {
					decls[fn] = fd
					byName[funcName(fd)] = fd
				}
			}
		}
	}
	root := byName["Server.clientIDFromDNSContext"]
	if root == nil {
		fmt.Fprintln(os.Stderr, "extract c16: (*Server).clientIDFromDNSContext not found in "+load.Repo()+"/internal/dnsforward")
		os.Exit(1)
	}
	funcs := &alloc{known: knownFuncs, base: 100, dyn: map[string]int{}}
	srcs := &alloc{known: knownSources, base: 1000, dyn: map[string]int{}}

	calleeOf := func(call *ast.CallExpr) *types.Func {
		var id *ast.Ident
		switch f := call.Fun.(type) {
		case *ast.Ident:
			id = f
		case *ast.SelectorExpr:
			id = f.Sel
		default:
			return nil
		}
		fn, _ := info.Uses[id].(*types.Func)

		return fn
	}

	// ---- 1. closure of the ClientID functions
	var closure []*ast.FuncDecl
	inClosure := map[*ast.FuncDecl]bool{}
	var visit func(fd *ast.FuncDecl)
	visit = func(fd *ast.FuncDecl) {
		if inClosure[fd] {
			return
		}
		inClosure[fd] = true
		closure = append(closure, fd)
		ast.Inspect(fd.Body, func(n ast.Node) bool {
			switch x := n.(type) {
			case *ast.FuncLit:
				die(x, "function literal inside ClientID function %s: not supported", funcName(fd))
			case *ast.GoStmt, *ast.DeferStmt:
				die(x, "go/defer inside ClientID function %s: not supported", funcName(fd))
			case *ast.BranchStmt:
				if x.Tok == token.GOTO {
					die(x, "goto inside ClientID function %s: not supported", funcName(fd))
				}
			case *ast.CallExpr:
				if fn := calleeOf(x); fn != nil {
					if d, ok := decls[fn]; ok {
						visit(d)
					}
				}
			}

			return true
		})
	}
	visit(root)

	type fact struct {
		Func string `json:"func"`
		What string `json:"what"`
		ID   int    `json:"id"`
		Pos  string `json:"pos"`
	}
	var sourceFacts, escapeFacts []fact
	sourceSet := map[int]bool{}
	escapeSet := map[int]bool{}
	esc := &alloc{known: map[string]int{}, base: 2000, dyn: map[string]int{}}
	for _, fd := range closure {
		ast.Inspect(fd.Body, func(n ast.Node) bool {
			switch x := n.(type) {
			case *ast.SelectorExpr:
				sel, ok := info.Selections[x]
				if !ok {
					return true // qualified identifier pkg.Name
				}
				recv := typeName(sel.Recv())
				var name string
				switch sel.Kind() {
				case types.FieldVal:
					// the owner of an embedded field is the embedding chain's last struct
					owner := recv
					if idx := sel.Index(); len(idx) > 1 {
						t := sel.Recv()
						for _, i := range idx[:len(idx)-1] {
							if p, isP := t.Underlying().(*types.Pointer); isP {
								t = p.Elem()
							}
							t = t.Underlying().(*types.Struct).Field(i).Type()
						}
						owner = typeName(t)
					}
					name = owner + "." + x.Sel.Name
				case types.MethodVal:
					if !carrier(sel.Recv()) {
						return true
					}
					name = recv + "." + x.Sel.Name + "()"
				default:
					die(x, "method expression in ClientID function: not supported")
				}
				id := srcs.id(name)
				sourceSet[id] = true
				sourceFacts = append(sourceFacts, fact{funcName(fd), name, id, pos(x)})
			case *ast.CallExpr:
				fn := calleeOf(x)
				if fn != nil {
					if d, ok := decls[fn]; ok && inClosure[d] {
						return true
					}
				}
				if tv, ok := info.Types[x.Fun]; ok && tv.IsType() {
					return true // conversion
				}
				cname := "?"
				if fn != nil {
					cname = fn.FullName()
				} else if id, ok := x.Fun.(*ast.Ident); ok {
					if _, isB := info.Uses[id].(*types.Builtin); isB {
						return true
					}
					cname = id.Name
				}
				for _, a := range x.Args {
					if tv, ok := info.Types[a]; ok && carrier(tv.Type) {
						// the receiver-less hand-over of a request-carrying value
						if _, isSel := a.(*ast.SelectorExpr); isSel || isIdent(a) {
							name := cname + "(" + typeName(tv.Type) + ")"
							// logging a value is not a source of the result
							if strings.HasPrefix(cname, "github.com/AdguardTeam/golibs/log.") || cname == "fmt.Errorf" {
								continue
							}
							id := esc.id(name)
							escapeSet[id] = true
							escapeFacts = append(escapeFacts, fact{funcName(fd), name, id, pos(x)})
						}
					}
				}
			}

			return true
		})
	}

	// ---- 2. writers, cache operations, extraction calls (whole package)
	type site struct {
		Func   string `json:"func"`
		FuncID int    `json:"func_id"`
		Op     int    `json:"op,omitempty"`
		Val    int    `json:"val"`
		KeyOK  int    `json:"key_from_request_id"`
		Pos    string `json:"pos"`
		Text   string `json:"text,omitempty"`
	}
	var writes, cacheOps, extrCalls []site

	isField := func(e ast.Expr, owner, field string) bool {
		se, ok := e.(*ast.SelectorExpr)
		if !ok {
			return false
		}
		sel, ok := info.Selections[se]
		if !ok || sel.Kind() != types.FieldVal || se.Sel.Name != field {
			return false
		}
		v, _ := sel.Obj().(*types.Var)
		if v == nil || v.Pkg() == nil || v.Pkg().Path() != dfPkg {
			return false
		}
		// the struct that declares the field
		t := sel.Recv()
		idx := sel.Index()
		for _, i := range idx[:len(idx)-1] {
			if p, isP := t.Underlying().(*types.Pointer); isP {
				t = p.Elem()
			}
			t = t.Underlying().(*types.Struct).Field(i).Type()
		}

		return typeName(t) == "dnsforward."+owner
	}
	// cacheCall: s.clientIDCache.<M>(…)
	cacheCall := func(e ast.Expr) (m string, call *ast.CallExpr) {
		c, ok := e.(*ast.CallExpr)
		if !ok {
			return "", nil
		}
		se, ok := c.Fun.(*ast.SelectorExpr)
		if !ok || !isField(se.X, "Server", "clientIDCache") {
			return "", nil
		}

		return se.Sel.Name, c
	}
	// conversion T(x): returns x
	convArg := func(e ast.Expr) ast.Expr {
		c, ok := e.(*ast.CallExpr)
		if !ok || len(c.Args) != 1 {
			return nil
		}
		if tv, has := info.Types[c.Fun]; has && tv.IsType() {
			return c.Args[0]
		}

		return nil
	}

	for _, fd := range byNameSorted(byName) {
		fname := funcName(fd)
		// does the function derive `key` from pctx.RequestID ?
		keyOK := 0
		ast.Inspect(fd.Body, func(n ast.Node) bool {
			c, ok := n.(*ast.CallExpr)
			if !ok || len(c.Args) != 2 {
				return true
			}
			if se, isSel := c.Fun.(*ast.SelectorExpr); isSel && se.Sel.Name == "PutUint64" {
				if a, isA := c.Args[1].(*ast.SelectorExpr); isA && a.Sel.Name == "RequestID" {
					if s, has := info.Selections[a]; has && typeName(s.Recv()) == "dnsproxy/proxy.DNSContext" {
						keyOK = 1
					}
				}
			}

			return true
		})
		// variables assigned from s.clientIDFromDNSContext(…) only
		fromExtraction := map[types.Object]bool{}
		notOnly := map[types.Object]bool{}
		ast.Inspect(fd.Body, func(n ast.Node) bool {
			as, ok := n.(*ast.AssignStmt)
			if !ok {
				return true
			}
			isExtr := false
			if len(as.Rhs) == 1 {
				if c, isC := as.Rhs[0].(*ast.CallExpr); isC {
					if fn := calleeOf(c); fn != nil && decls[fn] == root {
						isExtr = true
					}
				}
			}
			for i, l := range as.Lhs {
				id, isID := l.(*ast.Ident)
				if !isID {
					continue
				}
				obj := info.ObjectOf(id)
				if obj == nil {
					continue
				}
				if isExtr && i == 0 {
					fromExtraction[obj] = true
				} else {
					notOnly[obj] = true
				}
			}

			return true
		})

		ast.Inspect(fd.Body, func(n ast.Node) bool {
			switch x := n.(type) {
			case *ast.AssignStmt:
				for i, l := range x.Lhs {
					if !isField(l, "dnsContext", "clientID") {
						continue
					}
					val := valOther
					if len(x.Lhs) == len(x.Rhs) {
						if a := convArg(x.Rhs[i]); a != nil {
							if m, _ := cacheCall(a); m == "Get" {
								val = valCacheGet
							}
						}
					}
					writes = append(writes, site{Func: fname, FuncID: funcs.id(fname), Val: val, KeyOK: keyOK, Pos: pos(x), Text: "assignment"})
				}
			case *ast.IncDecStmt:
				if isField(x.X, "dnsContext", "clientID") {
					die(x, "inc/dec of dnsContext.clientID")
				}
			case *ast.UnaryExpr:
				if x.Op == token.AND && isField(x.X, "dnsContext", "clientID") {
					writes = append(writes, site{Func: fname, FuncID: funcs.id(fname), Val: valOther, Pos: pos(x), Text: "address taken"})
				}
			case *ast.CompositeLit:
				tv, ok := info.Types[x]
				if !ok || typeName(tv.Type) != "dnsforward.dnsContext" {
					return true
				}
				for _, el := range x.Elts {
					kv, isKV := el.(*ast.KeyValueExpr)
					if !isKV {
						die(x, "positional composite literal of dnsContext")
					}
					if k, isID := kv.Key.(*ast.Ident); isID && k.Name == "clientID" {
						writes = append(writes, site{Func: fname, FuncID: funcs.id(fname), Val: valOther, Pos: pos(kv), Text: "composite literal"})
					}
				}
			case *ast.CallExpr:
				if m, c := cacheCall(x); c != nil {
					op := map[string]int{"Set": 1, "Get": 2, "Del": 3}[m]
					if op == 0 {
						op = 9 // Clear, Stats, … : any other method of the cache
					}
					val := 0
					if m == "Set" {
						val = valOther
						if len(c.Args) == 2 {
							if a := convArg(c.Args[1]); a != nil {
								if id, isID := a.(*ast.Ident); isID {
									obj := info.ObjectOf(id)
									if fromExtraction[obj] && !notOnly[obj] {
										val = valExtraction
									}
								}
							}
						}
					}
					cacheOps = append(cacheOps, site{Func: fname, FuncID: funcs.id(fname), Op: op, Val: val, KeyOK: keyOK, Pos: pos(x), Text: m})
				} else if fn := calleeOf(x); fn != nil && decls[fn] == root {
					extrCalls = append(extrCalls, site{Func: fname, FuncID: funcs.id(fname), Pos: pos(x)})
				}
			case *ast.SelectorExpr:
				// the cache handed to somebody else (not a method call on it)
				_ = x
			}

			return true
		})
	}
	// the cache field used other than as the receiver of a method call
	for _, fd := range byNameSorted(byName) {
		var parents []ast.Node
		ast.Inspect(fd.Body, func(n ast.Node) bool {
			if n == nil {
				parents = parents[:len(parents)-1]

				return true
			}
			if se, ok := n.(*ast.SelectorExpr); ok && isField(se, "Server", "clientIDCache") {
				okUse := false
				if len(parents) >= 2 {
					if psel, isSel := parents[len(parents)-1].(*ast.SelectorExpr); isSel && psel.X == se {
						if call, isCall := parents[len(parents)-2].(*ast.CallExpr); isCall && call.Fun == psel {
							okUse = true
						}
					}
				}
				if !okUse {
					cacheOps = append(cacheOps, site{Func: funcName(fd), FuncID: funcs.id(funcName(fd)), Op: 8, Pos: pos(se), Text: "cache value used outside a method call"})
				}
			}
			parents = append(parents, n)

			return true
		})
	}

	// ---- 3. returns of the id-returning functions
	idFuncs := []*ast.FuncDecl{root}
	isIDFunc := map[*ast.FuncDecl]bool{root: true}
	type retFact struct {
		Func   string `json:"func"`
		FuncID int    `json:"func_id"`
		Class  int    `json:"class"`
		Pos    string `json:"pos"`
		Text   string `json:"text"`
	}
	var rets []retFact
	for k := 0; k < len(idFuncs); k++ {
		fd := idFuncs[k]
		if fd.Type.Results == nil || fd.Type.Results.NumFields() == 0 {
			die(fd, "id-returning function %s has no results", funcName(fd))
		}
		// variables of fd assigned (first position) only from calls of closure functions
		forwarded := map[types.Object][]*ast.FuncDecl{}
		tainted := map[types.Object]bool{}
		ast.Inspect(fd.Body, func(n ast.Node) bool {
			as, ok := n.(*ast.AssignStmt)
			if !ok {
				return true
			}
			var callee *ast.FuncDecl
			if len(as.Rhs) == 1 {
				if c, isC := as.Rhs[0].(*ast.CallExpr); isC {
					if fn := calleeOf(c); fn != nil {
						if d, has := decls[fn]; has && inClosure[d] {
							callee = d
						}
					}
				}
			}
			for i, l := range as.Lhs {
				id, isID := l.(*ast.Ident)
				if !isID {
					continue
				}
				obj := info.ObjectOf(id)
				if callee != nil && i == 0 && len(as.Lhs) > 1 {
					forwarded[obj] = append(forwarded[obj], callee)
				} else {
					tainted[obj] = true
				}
			}

			return true
		})
		// validated(v) at statement index i of a block: stmt i-2 is `err = ValidateClientID(v)`,
		// stmt i-1 is `if err != nil { return "", … }`
		var walk func(list []ast.Stmt)
		classify := func(list []ast.Stmt, i int, r *ast.ReturnStmt) {
			if len(r.Results) == 0 {
				die(r, "bare return in %s: not supported", funcName(fd))
			}
			e := r.Results[0]
			class, text := retOther, exprText(e)
			switch x := e.(type) {
			case *ast.BasicLit:
				if x.Kind == token.STRING && (x.Value == `""` || x.Value == "``") {
					class = retEmpty
				}
			case *ast.Ident:
				obj := info.ObjectOf(x)
				if cs := forwarded[obj]; len(cs) > 0 && !tainted[obj] {
					class = retForwarded
					for _, c := range cs {
						if !isIDFunc[c] {
							isIDFunc[c] = true
							idFuncs = append(idFuncs, c)
						}
					}
				}
			case *ast.CallExpr:
				if fn := calleeOf(x); fn != nil && fn.FullName() == "strings.ToLower" && len(x.Args) == 1 {
					if v, isID := x.Args[0].(*ast.Ident); isID && i >= 2 && validatedBefore(list, i, info.ObjectOf(v), calleeOf) {
						class = retValidated
					}
				}
			}
			rets = append(rets, retFact{funcName(fd), funcs.id(funcName(fd)), class, pos(r), text})
		}
		walk = func(list []ast.Stmt) {
			for i, st := range list {
				switch x := st.(type) {
				case *ast.ReturnStmt:
					classify(list, i, x)
				case *ast.BlockStmt:
					walk(x.List)
				case *ast.IfStmt:
					walk(x.Body.List)
					switch el := x.Else.(type) {
					case nil:
					case *ast.BlockStmt:
						walk(el.List)
					case *ast.IfStmt:
						walk([]ast.Stmt{el})
					}
				case *ast.SwitchStmt:
					for _, c := range x.Body.List {
						walk(c.(*ast.CaseClause).Body)
					}
				case *ast.TypeSwitchStmt:
					for _, c := range x.Body.List {
						walk(c.(*ast.CaseClause).Body)
					}
				case *ast.ForStmt:
					walk(x.Body.List)
				case *ast.RangeStmt:
					walk(x.Body.List)
				case *ast.LabeledStmt:
					walk([]ast.Stmt{x.Stmt})
				case *ast.SelectStmt:
					die(x, "select in %s: not supported", funcName(fd))
				}
			}
		}
		walk(fd.Body.List)
	}

	// callees of ValidateClientID
	var validateCallees []named
	vfd := byName["ValidateClientID"]
	if vfd == nil {
		fmt.Fprintln(os.Stderr, "extract c16: ValidateClientID not found")
		os.Exit(1)
	}
	vc := &alloc{known: map[string]int{
		"github.com/AdguardTeam/golibs/netutil.ValidateHostnameLabel": 1,
		"fmt.Errorf": 2, "github.com/AdguardTeam/golibs/errors.Unwrap": 3,
	}, base: 50, dyn: map[string]int{}}
	validateUnconditional := 0
	if len(vfd.Body.List) > 0 {
		// first statement: err = netutil.ValidateHostnameLabel(id), id the parameter
		if as, ok := vfd.Body.List[0].(*ast.AssignStmt); ok && len(as.Rhs) == 1 {
			if c, isC := as.Rhs[0].(*ast.CallExpr); isC && len(c.Args) == 1 {
				if fn := calleeOf(c); fn != nil && fn.FullName() == "github.com/AdguardTeam/golibs/netutil.ValidateHostnameLabel" {
					if a, isID := c.Args[0].(*ast.Ident); isID && vfd.Type.Params.NumFields() == 1 &&
						info.ObjectOf(a) == info.ObjectOf(vfd.Type.Params.List[0].Names[0]) {
						validateUnconditional = 1
					}
				}
			}
		}
	}
	ast.Inspect(vfd.Body, func(n ast.Node) bool {
		if c, ok := n.(*ast.CallExpr); ok {
			if fn := calleeOf(c); fn != nil {
				validateCallees = append(validateCallees, named{vc.id(fn.FullName()), fn.FullName(), pos(c)})
			}
		}

		return true
	})

	// ---- 4. writes of TLSConfig.StrictSNICheck (packages dnsforward and home)
	type strictWrite struct {
		Pkg  string `json:"pkg"`
		Func string `json:"func"`
		Site int    `json:"site"` // 1 home.newDNSTLSConfig, 2 elsewhere in home, 3 dnsforward
		Kind int    `json:"kind"` // 1 composite-literal key, 2 assignment / inc-dec, 3 address taken
		Pos  string `json:"pos"`
	}
	var strictWrites []strictWrite
	for _, p := range []*packages.Package{pkg, homePkg} {
		pinfo := p.TypesInfo
		isStrictField := func(e ast.Expr) bool {
			se, ok := e.(*ast.SelectorExpr)
			if !ok || se.Sel.Name != "StrictSNICheck" {
				return false
			}
			sel, ok := pinfo.Selections[se]
			if !ok || sel.Kind() != types.FieldVal {
				return false
			}
			v, _ := sel.Obj().(*types.Var)

			return v != nil && v.Pkg() != nil && v.Pkg().Path() == dfPkg
		}
		for _, f := range p.Syntax {
			if strings.HasSuffix(p.Fset.Position(f.Pos()).Filename, "_test.go") {
				continue
			}
			for _, d := range f.Decls {
				fd, ok := d.(*ast.FuncDecl)
				if !ok || fd.Body == nil {
					// package-level variable initialisers
					ast.Inspect(d, func(n ast.Node) bool {
						if cl, isCL := n.(*ast.CompositeLit); isCL {
							if tv, has := pinfo.Types[cl]; has && typeName(tv.Type) == "dnsforward.TLSConfig" {
								for _, el := range cl.Elts {
									if kv, isKV := el.(*ast.KeyValueExpr); isKV {
										if k, isID := kv.Key.(*ast.Ident); isID && k.Name == "StrictSNICheck" {
											die(kv, "TLSConfig literal with StrictSNICheck in a package-level initialiser")
										}
									}
								}
							}
						}

						return true
					})

					continue
				}
				site := 3
				if p == homePkg {
					site = 2
					if funcName(fd) == "newDNSTLSConfig" {
						site = 1
					}
				}
				add := func(n ast.Node, kind int) {
					pp := p.Fset.Position(n.Pos())
					strictWrites = append(strictWrites, strictWrite{shortPkg(p.PkgPath), funcName(fd), site, kind, fmt.Sprintf("%s:%d", pp.Filename, pp.Line)})
				}
				ast.Inspect(fd.Body, func(n ast.Node) bool {
					switch x := n.(type) {
					case *ast.AssignStmt:
						for _, l := range x.Lhs {
							if isStrictField(l) {
								add(x, 2)
							}
						}
					case *ast.IncDecStmt:
						if isStrictField(x.X) {
							add(x, 2)
						}
					case *ast.UnaryExpr:
						if x.Op == token.AND && isStrictField(x.X) {
							add(x, 3)
						}
					case *ast.CompositeLit:
						tv, has := pinfo.Types[x]
						if !has || typeName(tv.Type) != "dnsforward.TLSConfig" {
							return true
						}
						for _, el := range x.Elts {
							kv, isKV := el.(*ast.KeyValueExpr)
							if !isKV {
								pp := p.Fset.Position(x.Pos())
								fmt.Fprintf(os.Stderr, "extract c16: %s:%d: positional composite literal of TLSConfig\n", pp.Filename, pp.Line)
								os.Exit(1)
							}
							if k, isID := kv.Key.(*ast.Ident); isID && k.Name == "StrictSNICheck" {
								add(kv, 1)
							}
						}
					}

					return true
				})
			}
		}
	}

	// ---- output
	sortedKeys := func(m map[int]bool) (ks []int) {
		for k := range m {
			ks = append(ks, k)
		}
		sort.Ints(ks)

		return ks
	}
	natList := func(xs []int) string {
		s := make([]string, len(xs))
		for i, x := range xs {
			s[i] = fmt.Sprint(x)
		}

		return "[" + strings.Join(s, ", ") + "]"
	}
	names := func(a *alloc) string {
		var ls []string
		for n, i := range a.known {
			ls = append(ls, fmt.Sprintf("%5d %s", i, n))
		}
		for n, i := range a.dyn {
			ls = append(ls, fmt.Sprintf("%5d %s   (NOT in the known table)", i, n))
		}
		sort.Strings(ls)

		return strings.Join(ls, "\n")
	}
	var closureIDs []int
	for _, fd := range closure {
		closureIDs = append(closureIDs, funcs.id(funcName(fd)))
	}
	sort.Ints(closureIDs)
	var idFuncIDs []int
	for _, fd := range idFuncs {
		idFuncIDs = append(idFuncIDs, funcs.id(funcName(fd)))
	}
	sort.Ints(idFuncIDs)

	var b strings.Builder
	b.WriteString("/-\nREGENERATED by /verif/extract/cmd/c16 on every run of bin/check C16 — never edit.\n")
	b.WriteString("Facts about internal/dnsforward of the tree under check (typed AST).\n\nFunctions:\n" + names(funcs) + "\n\nSelectors:\n" + names(srcs) + "\n")
	if len(esc.dyn) > 0 {
		b.WriteString("\nEscapes:\n" + names(esc) + "\n")
	}
	b.WriteString("\nReturn classes: 0 \"\", 1 strings.ToLower(v) right after ValidateClientID(v) + error return, 2 other, 3 forwarded from a ClientID function.\n")
	b.WriteString("Cache ops: 1 Set, 2 Get, 3 Del, 8 cache used outside a method call, 9 other method.  Value classes: writes 1 = string(clientIDCache.Get(key)), Set 1 = []byte(v) with v only from clientIDFromDNSContext; 2 other.\n-/\n")
	b.WriteString("namespace AGH.Gen.C16\n\n")
	b.WriteString("/-- functions reachable from (*Server).clientIDFromDNSContext inside package dnsforward -/\n")
	b.WriteString("def closure : List Nat := " + natList(closureIDs) + "\n\n")
	b.WriteString("/-- field reads and method calls on non-basic values inside them (sorted, deduplicated) -/\n")
	b.WriteString("def sources : List Nat := " + natList(sortedKeys(sourceSet)) + "\n\n")
	b.WriteString("/-- request-carrying values handed as a whole to functions outside the closure -/\n")
	b.WriteString("def escapes : List Nat := " + natList(sortedKeys(escapeSet)) + "\n\n")
	b.WriteString("/-- writes of dnsContext.clientID in package dnsforward: (function, value class, key from RequestID) -/\n")
	b.WriteString("def clientIDWrites : List (Nat × Nat × Nat) := [" + joinSites(writes, func(s site) string {
		return fmt.Sprintf("(%d, %d, %d)", s.FuncID, s.Val, s.KeyOK)
	}) + "]\n\n")
	b.WriteString("/-- uses of Server.clientIDCache: (function, op, value class, key from RequestID) -/\n")
	b.WriteString("def cacheOps : List (Nat × Nat × Nat × Nat) := [" + joinSites(cacheOps, func(s site) string {
		return fmt.Sprintf("(%d, %d, %d, %d)", s.FuncID, s.Op, s.Val, s.KeyOK)
	}) + "]\n\n")
	b.WriteString("/-- callers of (*Server).clientIDFromDNSContext -/\n")
	b.WriteString("def extractionCalls : List Nat := [" + joinSites(extrCalls, func(s site) string { return fmt.Sprint(s.FuncID) }) + "]\n\n")
	b.WriteString("/-- functions whose first result flows into the result of clientIDFromDNSContext -/\n")
	b.WriteString("def idFuncs : List Nat := " + natList(idFuncIDs) + "\n\n")
	b.WriteString("/-- their return statements: (function, class) -/\n")
	var rs []string
	for _, r := range rets {
		rs = append(rs, fmt.Sprintf("(%d, %d)", r.FuncID, r.Class))
	}
	b.WriteString("def returns : List (Nat × Nat) := [" + strings.Join(rs, ", ") + "]\n\n")
	var vcs []int
	for _, c := range validateCallees {
		vcs = append(vcs, c.ID)
	}
	b.WriteString("/-- callees of ValidateClientID (1 netutil.ValidateHostnameLabel, 2 fmt.Errorf, 3 errors.Unwrap) -/\n")
	b.WriteString("def validateCallees : List Nat := " + natList(vcs) + "\n\n")
	b.WriteString("/-- ValidateClientID starts with `err = netutil.ValidateHostnameLabel(id)` on its parameter -/\n")
	b.WriteString(fmt.Sprintf("def validateUnconditional : Nat := %d\n\n", validateUnconditional))
	b.WriteString("/-- writes of dnsforward.TLSConfig.StrictSNICheck in packages dnsforward and home: (site, kind);\nsite 1 home.newDNSTLSConfig (configuration loading), 2 elsewhere in home, 3 dnsforward; kind 1 composite-literal key, 2 assignment, 3 address taken -/\n")
	var sws []string
	for _, w := range strictWrites {
		sws = append(sws, fmt.Sprintf("(%d, %d)", w.Site, w.Kind))
	}
	b.WriteString("def strictFlagWrites : List (Nat × Nat) := [" + strings.Join(sws, ", ") + "]\n\n")
	b.WriteString("end AGH.Gen.C16\n")

	gen := filepath.Join(verif, "lean/AGH/Gen/C16Sources.lean")
	_ = os.Remove(gen)
	if err = os.WriteFile(gen, []byte(b.String()), 0o644); err != nil {
		panic(err)
	}
	_ = os.MkdirAll(filepath.Join(verif, "build/C16"), 0o755)
	summary := map[string]any{
		"closure_functions": len(closure), "distinct_sources": len(sourceSet), "source_reads": len(sourceFacts),
		"unknown_sources": len(srcs.dyn), "escapes": len(escapeSet), "clientID_writes": len(writes),
		"cache_ops": len(cacheOps), "extraction_calls": len(extrCalls), "returns_classified": len(rets),
		"strict_flag_writes": len(strictWrites),
	}
	facts := map[string]any{
		"summary": summary, "sources": sourceFacts, "escapes": escapeFacts, "writes": writes, "cache_ops": cacheOps,
		"extraction_calls": extrCalls, "returns": rets, "validate_callees": validateCallees,
		"strict_flag_writes": strictWrites,
	}
	js, _ := json.MarshalIndent(facts, "", " ")
	if err = os.WriteFile(filepath.Join(verif, "build/C16/facts.json"), js, 0o644); err != nil {
		panic(err)
	}
	fmt.Printf("c16 facts: %d closure functions, %d distinct sources (%d unknown), %d escapes, %d writes, %d cache ops, %d returns\n",
		len(closure), len(sourceSet), len(srcs.dyn), len(escapeSet), len(writes), len(cacheOps), len(rets))
}

func isIdent(e ast.Expr) bool {
	_, ok := e.(*ast.Ident)

	return ok
}

func exprText(e ast.Expr) string {
	var b strings.Builder
	_ = printer.Fprint(&b, fset, e)

	return b.String()
}

func byNameSorted(m map[string]*ast.FuncDecl) (out []*ast.FuncDecl) {
	var ks []string
	for k := range m {
		ks = append(ks, k)
	}
	sort.Strings(ks)
	for _, k := range ks {
		out = append(out, m[k])
	}

	return out
}

func joinSites[T any](xs []T, f func(T) string) string {
	s := make([]string, len(xs))
	for i, x := range xs {
		s[i] = f(x)
	}

	return strings.Join(s, ", ")
}

// validatedBefore: list[i-2] is `err = ValidateClientID(v)` (or `:=`), list[i-1]
// is `if err != nil { …; return "", … }` with nothing else, for the variable v.
func validatedBefore(list []ast.Stmt, i int, v types.Object, calleeOf func(*ast.CallExpr) *types.Func) bool {
	as, ok := list[i-2].(*ast.AssignStmt)
	if !ok || len(as.Lhs) != 1 || len(as.Rhs) != 1 {
		return false
	}
	errID, ok := as.Lhs[0].(*ast.Ident)
	if !ok {
		return false
	}
	c, ok := as.Rhs[0].(*ast.CallExpr)
	if !ok || len(c.Args) != 1 {
		return false
	}
	fn := calleeOf(c)
	if fn == nil || fn.FullName() != dfPkg+".ValidateClientID" {
		return false
	}
	a, ok := c.Args[0].(*ast.Ident)
	if !ok || info.ObjectOf(a) != v {
		return false
	}
	ifs, ok := list[i-1].(*ast.IfStmt)
	if !ok || ifs.Init != nil || ifs.Else != nil {
		return false
	}
	be, ok := ifs.Cond.(*ast.BinaryExpr)
	if !ok || be.Op != token.NEQ {
		return false
	}
	l, lok := be.X.(*ast.Ident)
	r, rok := be.Y.(*ast.Ident)
	if !lok || !rok || info.ObjectOf(l) != info.ObjectOf(errID) || r.Name != "nil" {
		return false
	}
	if len(ifs.Body.List) == 0 {
		return false
	}
	ret, ok := ifs.Body.List[len(ifs.Body.List)-1].(*ast.ReturnStmt)
	if !ok || len(ret.Results) == 0 {
		return false
	}
	lit, ok := ret.Results[0].(*ast.BasicLit)

	return ok && lit.Value == `""`
}
