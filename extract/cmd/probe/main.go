// Command probe checks that the extractor tool chain works offline.
package main

import (
	"fmt"

	"verif/extract/internal/load"
)

func main() {
	pkgs := load.Packages("./internal/schedule")
	for _, p := range pkgs {
		fmt.Println(p.PkgPath, len(p.Syntax), "files")
	}
}
