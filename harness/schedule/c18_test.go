//go:build verif

package schedule

import (
	"archive/zip"
	"encoding/json"
	"fmt"
	"io/fs"
	"math/rand/v2"
	"os"
	"path/filepath"
	"regexp"
	"runtime"
	"sort"
	"strconv"
	"strings"
	"sync"
	"testing"
	"time"

	"github.com/AdguardTeam/AdGuardHome/internal/aghhttp"
	"github.com/AdguardTeam/AdGuardHome/internal/vutil"
	"github.com/AdguardTeam/golibs/timeutil"
	"gopkg.in/yaml.v3"
)

// ---------------------------------------------------------------- zones

var (
	c18LocMu  sync.Mutex
	c18LocMap = map[string]*time.Location{}
)

// c18Loc loads a location by name (cached).  It panics on an unknown name:
// a replayed line names a zone the generator found on this host.
func c18Loc(name string) *time.Location {
	c18LocMu.Lock()
	defer c18LocMu.Unlock()

	if l, ok := c18LocMap[name]; ok {
		return l
	}
	l, err := time.LoadLocation(name)
	if err != nil {
		panic("c18: zone " + name + ": " + err.Error())
	}
	c18LocMap[name] = l

	return l
}

// c18ZoneNames enumerates every IANA zone name present on the host
// (/usr/share/zoneinfo, falling back to Go's zoneinfo.zip).  The "posix/" copy
// is skipped (identical data); "right/" (leap-second tables) only when asked.
func c18ZoneNames(withRight bool) (names []string) {
	seen := map[string]bool{}
	add := func(n string) {
		if seen[n] || strings.HasPrefix(n, "posix/") || (!withRight && strings.HasPrefix(n, "right/")) {
			return
		}
		if strings.ContainsAny(n, ". ") || n == "posixrules" || n == "leapseconds" || n == "Factory" || n == "localtime" {
			return
		}
		if _, err := time.LoadLocation(n); err != nil {
			return
		}
		seen[n] = true
		names = append(names, n)
	}

	for _, root := range []string{"/usr/share/zoneinfo", "/usr/lib/zoneinfo", "/usr/share/lib/zoneinfo"} {
		_ = filepath.WalkDir(root, func(p string, d fs.DirEntry, err error) error {
			if err != nil || d.IsDir() {
				return nil
			}
			rel, rerr := filepath.Rel(root, p)
			if rerr == nil {
				add(filepath.ToSlash(rel))
			}

			return nil
		})
	}
	if len(names) == 0 {
		zr, err := zip.OpenReader(filepath.Join(runtime.GOROOT(), "lib/time/zoneinfo.zip"))
		if err == nil {
			for _, f := range zr.File {
				if !strings.HasSuffix(f.Name, "/") {
					add(f.Name)
				}
			}
			_ = zr.Close()
		}
	}
	add("UTC")
	sort.Strings(names)

	return names
}

var (
	c18Lo = time.Date(1970, 1, 1, 0, 0, 0, 0, time.UTC)
	c18Hi = time.Date(2040, 1, 1, 0, 0, 0, 0, time.UTC)
)

// c18Transitions returns the instants in [1970, 2040) at which the zone's
// rules change (offset, abbreviation or DST flag), found with ZoneBounds.
func c18Transitions(loc *time.Location) (ts []int64) {
	t := c18Lo.In(loc)
	for i := 0; i < 2000; i++ {
		_, end := t.ZoneBounds()
		if end.IsZero() || !end.Before(c18Hi) {
			break
		}
		ts = append(ts, end.Unix())
		t = end
	}

	return ts
}

// ---------------------------------------------------------------- running one line

func c18Days(f []string) (days [7]dayRange) {
	for i := 0; i < 7; i++ {
		days[i] = dayRange{
			start: time.Duration(c18I64(f[2*i])),
			end:   time.Duration(c18I64(f[2*i+1])),
		}
	}

	return days
}

func c18I64(s string) int64 {
	v, err := strconv.ParseInt(s, 10, 64)
	if err != nil {
		panic(err)
	}

	return v
}

func c18FmtDays(days [7]dayRange) (out []string) {
	for _, d := range days {
		out = append(out, strconv.FormatInt(int64(d.start), 10), strconv.FormatInt(int64(d.end), 10))
	}

	return out
}

// c18VErr maps a validation error to the model's enum.
func c18VErr(msg string) string {
	switch {
	case strings.Contains(msg, "start") && strings.Contains(msg, "isn't rounded to minutes"):
		return "startNotMinutes"
	case strings.Contains(msg, "end") && strings.Contains(msg, "isn't rounded to minutes"):
		return "endNotMinutes"
	case strings.Contains(msg, "start") && strings.Contains(msg, "is negative"):
		return "startNeg"
	case strings.Contains(msg, "end") && strings.Contains(msg, "is negative"):
		return "endNeg"
	case strings.Contains(msg, "is greater or equal to end "):
		return "startGeEnd"
	case strings.Contains(msg, "start") && strings.Contains(msg, "is greater or equal to"):
		return "startGeMax"
	case strings.Contains(msg, "end") && strings.Contains(msg, "is greater than"):
		return "endGtMax"
	default:
		return "other:" + vutil.Hex(msg)
	}
}

var c18WeekdayIdx = map[string]int{
	"Sunday": 0, "Monday": 1, "Tuesday": 2, "Wednesday": 3, "Thursday": 4, "Friday": 5, "Saturday": 6,
}

// c18DecodeErr classifies the error of Unmarshal{JSON,YAML}.
func c18DecodeErr(err error, tz string) []string {
	msg := err.Error()
	if rest, ok := strings.CutPrefix(msg, "weekday "); ok {
		name, tail, _ := strings.Cut(rest, ":")
		idx, known := c18WeekdayIdx[name]
		if known && strings.HasPrefix(tail, " bad day range: ") {
			return []string{"err", "day", strconv.Itoa(idx), c18VErr(tail)}
		}
	}
	if _, lerr := time.LoadLocation(tz); lerr != nil && lerr.Error() == msg {
		return []string{"err", "tz"}
	}

	return []string{"err", "parse"}
}

func c18SameWeekly(a, b *Weekly) bool {
	return a.days == b.days && a.location.String() == b.location.String()
}

// c18AfterDecode is the observation after a successful decode: the schedule,
// its re-serialised form and whether decoding that gives the same schedule and
// the same bytes again.
func c18AfterDecode(w *Weekly, yml bool) []string {
	var data []byte
	var err error
	w2 := &Weekly{}
	if yml {
		data, err = yaml.Marshal(w)
		if err == nil {
			err = yaml.Unmarshal(data, w2)
		}
	} else {
		data, err = json.Marshal(w)
		if err == nil {
			err = json.Unmarshal(data, w2)
		}
	}
	rt := err == nil && w2.location != nil && c18SameWeekly(w, w2)
	if rt {
		var data2 []byte
		if yml {
			data2, err = yaml.Marshal(w2)
		} else {
			data2, err = json.Marshal(w2)
		}
		rt = err == nil && string(data2) == string(data)
	}
	out := []string{"ok", vutil.Hex(w.location.String())}
	out = append(out, c18FmtDays(w.days)...)

	return append(out, vutil.Hex(string(data)), vutil.B(rt))
}

func c18Run(f []string) []string {
	switch f[0] {
	case "C18.contains":
		loc := c18Loc(vutil.Unhex(f[1]))
		t := time.Unix(c18I64(f[2]), c18I64(f[3]))
		w := &Weekly{location: loc, days: c18Days(f[5:19])}
		ok := w.Contains(t)
		lt := t.In(loc)
		h, m, s := lt.Clock()
		_, off := lt.Zone()
		// what a holder of a copy sees (client settings are handed out as clones)
		okClone := w.Clone().Contains(t)

		return []string{vutil.B(ok), strconv.Itoa(int(lt.Weekday())), strconv.Itoa(h), strconv.Itoa(m),
			strconv.Itoa(s), strconv.Itoa(off), vutil.B(okClone)}
	case "C18.ctor":
		var w *Weekly
		switch f[1] {
		case "empty":
			w = EmptyWeekly()
		case "full":
			w = FullWeekly()
		default:
			panic("unknown constructor " + f[1])
		}

		return append([]string{vutil.Hex(w.location.String())}, c18FmtDays(w.days)...)
	case "C18.validate":
		w := &Weekly{}
		err := w.validate(dayRange{start: time.Duration(c18I64(f[1])), end: time.Duration(c18I64(f[2]))})
		if err != nil {
			return []string{"err", c18VErr(err.Error())}
		}

		return []string{"ok"}
	case "C18.json":
		w := &Weekly{}
		err := json.Unmarshal([]byte(vutil.Unhex(f[1])), w)
		if err != nil {
			return c18DecodeErr(err, vutil.Unhex(f[3]))
		}

		return c18AfterDecode(w, false)
	case "C18.yaml":
		w := &Weekly{}
		err := yaml.Unmarshal([]byte(vutil.Unhex(f[1])), w)
		if err != nil {
			return c18DecodeErr(err, vutil.Unhex(f[3]))
		}

		return c18AfterDecode(w, true)
	case "C18.jsondur":
		var d aghhttp.JSONDuration
		err := d.UnmarshalJSON([]byte(vutil.Unhex(f[1])))
		if err != nil {
			return []string{"err"}
		}

		return []string{"ok", strconv.FormatInt(int64(d), 10)}
	case "C18.jsondurenc":
		b, _ := aghhttp.JSONDuration(c18I64(f[1])).MarshalJSON()

		return []string{"enc", vutil.Hex(string(b))}
	case "C18.yamldur":
		var d timeutil.Duration
		err := d.UnmarshalText([]byte(vutil.Unhex(f[1])))
		if err != nil {
			return []string{"err"}
		}

		return []string{"ok", strconv.FormatInt(int64(d), 10)}
	case "C18.yamldurenc":
		b, _ := timeutil.Duration(c18I64(f[1])).MarshalText()

		return []string{"enc", vutil.Hex(string(b))}
	default:
		panic("unknown op " + f[0])
	}
}

// ---------------------------------------------------------------- generator

const (
	c18Min  = int64(time.Minute)
	c18Hour = int64(time.Hour)
	c18Day  = 24 * int64(time.Hour)
)

type c18Gen struct {
	r     *rand.Rand
	emit  vutil.Emit
	zones []string
	trans map[string][]int64
}

// randRange returns a mostly valid whole-minute range.
func (g *c18Gen) randRange() dayRange {
	r := g.r
	switch r.IntN(12) {
	case 0:
		return dayRange{}
	case 1:
		return dayRange{start: 0, end: time.Duration(c18Day)}
	case 2:
		// F8-shaped: one morning hour
		return dayRange{start: time.Duration(9 * c18Hour), end: time.Duration(10 * c18Hour)}
	case 3:
		// late evening up to midnight
		return dayRange{start: time.Duration(int64(r.IntN(1440)) * c18Min), end: time.Duration(c18Day)}
	default:
		a, b := int64(r.IntN(1441)), int64(r.IntN(1441))
		if a > b {
			a, b = b, a
		}
		if a == b {
			if b < 1440 {
				b++
			} else {
				a--
			}
		}

		return dayRange{start: time.Duration(a * c18Min), end: time.Duration(b * c18Min)}
	}
}

// badRange returns a range that should be rejected or sits on a validation edge.
func (g *c18Gen) badRange() dayRange {
	r := g.r
	m := func() int64 { return int64(r.IntN(1441)) * c18Min }
	switch r.IntN(16) {
	case 0:
		return dayRange{start: -c18MinDur(1), end: time.Duration(m())}
	case 1:
		return dayRange{start: time.Duration(m()), end: -c18MinDur(int64(1 + r.IntN(100)))}
	case 2:
		a := m()

		return dayRange{start: time.Duration(a), end: time.Duration(a)}
	case 3:
		a, b := m(), m()
		if a < b {
			a, b = b, a
		}

		return dayRange{start: time.Duration(a), end: time.Duration(b)}
	case 4:
		return dayRange{start: time.Duration(c18Day), end: time.Duration(c18Day + c18Min)}
	case 5:
		return dayRange{start: time.Duration(m() % c18Day), end: time.Duration(c18Day + c18Min*int64(1+r.IntN(3000)))}
	case 6:
		return dayRange{start: time.Duration(m() + int64(1+r.IntN(59_999))*int64(time.Millisecond)), end: time.Duration(c18Day)}
	case 7:
		return dayRange{start: 0, end: time.Duration(m() + int64(1+r.IntN(59_999))*int64(time.Millisecond))}
	case 8:
		return dayRange{start: time.Duration(r.Int64N(c18Day)), end: time.Duration(r.Int64N(c18Day))}
	case 9:
		return dayRange{start: time.Duration(int64(r.Uint64())), end: time.Duration(int64(r.Uint64()))}
	case 10:
		return dayRange{start: 0, end: time.Duration(c18Day + 1)}
	case 11:
		return dayRange{start: 1, end: time.Duration(c18Min)}
	case 12:
		return dayRange{start: 0, end: time.Duration(c18Min - 1)}
	case 13:
		return dayRange{start: time.Duration(c18Day - c18Min), end: time.Duration(c18Day)}
	case 14:
		return dayRange{start: 0, end: 0 + time.Duration(c18Min)}
	default:
		return dayRange{start: time.Duration(-c18Day), end: 0}
	}
}

func c18MinDur(n int64) time.Duration { return time.Duration(n * c18Min) }

// schedFor builds a schedule whose interesting edges sit at the wall-clock
// reading of lt.
func (g *c18Gen) schedFor(lt time.Time) (days [7]dayRange) {
	r := g.r
	h, m, _ := lt.Clock()
	tod := int64(h*60 + m)
	wd := int(lt.Weekday())
	full := dayRange{start: 0, end: time.Duration(c18Day)}
	mk := func(a, b int64) dayRange {
		if a < 0 {
			a = 0
		}
		if b > 1440 {
			b = 1440
		}
		if a >= b {
			return dayRange{}
		}

		return dayRange{start: c18MinDur(a), end: c18MinDur(b)}
	}
	switch r.IntN(12) {
	case 0:
		for i := range days {
			days[i] = full
		}
	case 1:
		// empty
	case 2:
		// the minute the clock shows, this weekday only
		days[wd] = mk(tod, tod+1)
	case 3:
		// starts the next minute
		days[wd] = mk(tod+1, tod+1+int64(1+r.IntN(120)))
	case 4:
		// ends at this minute
		days[wd] = mk(tod-int64(1+r.IntN(120)), tod)
	case 5:
		// an hour around the clock reading; neighbours get the complement
		days[wd] = mk(tod-30, tod+30)
		days[(wd+1)%7] = mk(tod+30, 1440)
		days[(wd+6)%7] = mk(0, tod-30)
	case 6:
		// everything but this weekday
		for i := range days {
			if i != wd {
				days[i] = full
			}
		}
	case 7:
		// this weekday only
		days[wd] = full
	case 8:
		// window that an off-by-one-hour reading would hit
		d := int64(60)
		if r.IntN(2) == 0 {
			d = -60
		}
		days[wd] = mk(tod+d, tod+d+1)
	case 9:
		// window ending exactly at the clock reading's next minute, all days
		for i := range days {
			days[i] = mk(int64(r.IntN(int(tod)+1)), tod+1)
		}
	default:
		for i := range days {
			days[i] = g.randRange()
		}
	}

	return days
}

func (g *c18Gen) emitContains(zone string, loc *time.Location, sec, nsec int64) {
	t := time.Unix(sec, nsec)
	lt := t.In(loc)
	_, off := lt.Zone()
	days := g.schedFor(lt)
	if g.r.IntN(40) == 0 {
		// arbitrary (even invalid) ranges: Contains is defined on them too
		days[int(lt.Weekday())] = g.badRange()
	}
	f := []string{"C18.contains", vutil.Hex(zone), strconv.FormatInt(sec, 10), strconv.FormatInt(nsec, 10), strconv.Itoa(off)}
	g.emit(append(f, c18FmtDays(days)...)...)
}

var c18Deltas = []int64{
	-86400, -7200, -3601, -3600, -3599, -1801, -1800, -1, 0, 1, 59, 60, 1799, 1800, 1801, 3599, 3600, 3601, 5400, 7199,
	7200, 7201, 10800, 36000, 43200, 79200, 82800, 86399, 86400, 90000,
}

var c18Nsecs = []int64{0, 0, 0, 1, 999_999_999, 500_000_000}

// instantNear returns an instant at a characteristic place relative to the
// transition tr of loc.
func (g *c18Gen) instantNear(loc *time.Location, tr int64) (sec, nsec int64) {
	r := g.r
	nsec = vutil.Pick(r, c18Nsecs)
	if r.IntN(8) == 0 {
		nsec = r.Int64N(1_000_000_000)
	}
	switch r.IntN(10) {
	case 0, 1, 2, 3:
		return tr + vutil.Pick(r, c18Deltas), nsec
	case 4, 5:
		// around a local midnight next to the transition
		lt := time.Unix(tr, 0).In(loc)
		y, mo, d := lt.Date()
		mid := time.Date(y, mo, d+r.IntN(4)-1, 0, 0, 0, 0, loc)

		return mid.Unix() + vutil.Pick(r, []int64{-3601, -3600, -61, -60, -1, 0, 1, 59, 60, 3599, 3600, 3601}), nsec
	case 6, 7:
		// a wall-clock reading on the transition's local day (or the next one)
		lt := time.Unix(tr, 0).In(loc)
		y, mo, d := lt.Date()
		hh := vutil.Pick(r, []int{0, 1, 2, 3, 4, 9, 10, 12, 22, 23})
		mm := vutil.Pick(r, []int{0, 1, 29, 30, 31, 59})
		ss := vutil.Pick(r, []int{0, 0, 1, 30, 59})

		return time.Date(y, mo, d+r.IntN(2), hh, mm, ss, 0, loc).Unix(), nsec
	default:
		return tr + r.Int64N(2*86400) - 86400, nsec
	}
}

func (g *c18Gen) genContainsRandom() {
	r := g.r
	zone := vutil.Pick(r, g.zones)
	loc := c18Loc(zone)
	trs := g.trans[zone]
	switch {
	case len(trs) > 0 && r.IntN(10) < 8:
		tr := vutil.Pick(r, trs)
		if r.IntN(2) == 0 {
			// prefer recent rules
			tr = trs[len(trs)-1-r.IntN(min(len(trs), 90))]
		}
		sec, nsec := g.instantNear(loc, tr)
		g.emitContains(zone, loc, sec, nsec)
	case r.IntN(6) == 0:
		// far past / far future / before the epoch (LMT offsets with seconds, negative Unix time)
		sec := vutil.Pick(r, []int64{-62135596800, -5_000_000_000, -2_208_988_800, -1, 0, 4_102_444_800, 32_503_680_000, 253_402_300_799})
		g.emitContains(zone, loc, sec+r.Int64N(86400*400), vutil.Pick(r, c18Nsecs))
	default:
		sec := r.Int64N(4_102_444_800+2_208_988_800) - 2_208_988_800 // 1900..2100
		g.emitContains(zone, loc, sec, vutil.Pick(r, c18Nsecs))
	}
}

func (g *c18Gen) genValidate() {
	var d dayRange
	if g.r.IntN(3) == 0 {
		d = g.randRange()
	} else {
		d = g.badRange()
	}
	g.emit("C18.validate", strconv.FormatInt(int64(d.start), 10), strconv.FormatInt(int64(d.end), 10))
}

var c18JSONToks = []string{
	"0", "60000", "3600000", "86400000", "86460000", "-60000", "1", "59999", "60000.0", "6e4", "6E4", "3.6e6", "0.5",
	"1.5", "-0", "1e-3", "1e30", "-1e30", "9007199254", "9007199255", "9223372036854", "9223372036855", "\"60000\"",
	"null", "true", "{}", "[]", "60000.000001", "86399999.999999", "0.0000001",
	// fractions of a millisecond, negative fractions, tiny values, exponent forms, huge values
	"3600000.25", "3600000.5", "3600000.125", "-0.5", "-0.25", "0.2", "0.7", "43200000.9999", "0.25", "0.75", "60000.5",
	"1e-7", "-1e-7", "1e-6", "5e-7", "0.000001", "-0.000001", "0.0000005", "36e5", "3600000.0", "3600000.000", "3.6E+6",
	"36000000e-1", "0.0036e9", "1e19", "-1e19", "9.3e18", "1e400", "1e-400", "2100000.000001", "540000.000010",
	"86400000.000001", "86400000.0000001", "59999.999999", "60000.0000001", "-0.0", "0e0", "0.0", "\"1h\"", "\"\"",
}

var c18YAMLToks = []string{
	"0s", "0", "1m", "30m", "1h", "1h30m", "24h", "23h59m", "90m", "1440m", "86400s", "1h0m0s", "24h0m0s", "25h", "24h1m",
	"-1h", "+1h", "1.5h", "0.5m", "1h30", "1", "60", "h", "m", "1d", "1w", "\"\"", "''", "~", "null", "1h 30m", "1H",
	"3600000ms", "60000000000ns", "60000000us", "60000000µs", "1m1s", "1m0.5s", "1m1ms", "true", "[]", "{}", "0h", "0m",
	"00h30m", "1h60m", "9223372036s", "2562047h", "2562048h", "100000000000h",
	// fractional coefficients, negative zero, seconds, sub-nanosecond fractions
	"1h0.5s", "-0s", "90s", "24h0m1s", "1m0.000000001s", "1m0.0000000001s", "0.5h", "0.25h", "1.5m", "0.1m", "0.1h", ".5h",
	"1.h", "1.", ".", ".s", "-.5h", "0.000001ms", "0.5ns", "1.5ns", "23h59m60s", "23h59m59.999999999s", "0.0166666666666666666h",
	"1m0s", "60.0s", "3600.000s", "1e3s", "-0.5m", "+0.5h", "24.0h", "24.000000001h", "0.016666666666666666h", "1.0000000000000000001m",
}

var c18DayKeys = []string{"sun", "mon", "tue", "wed", "thu", "fri", "sat"}

var c18TZPool = []string{
	"", "UTC", "Local", "Europe/Berlin", "America/New_York", "Asia/Kolkata", "Australia/Lord_Howe", "Asia/Kathmandu",
	"Etc/GMT+5", "Nowhere/Land", "europe/berlin", "../etc/passwd", "/abs", "Europe", "GMT+0", "utc", "Z", "EST5EDT",
	"Europe/Berlin ", "\x00", "Europe\\Berlin", "Pacific/Chatham", "right/Europe/Berlin",
}

// weeklyValue builds a schedule value directly (valid most of the time).
func (g *c18Gen) weeklyValue() *Weekly {
	r := g.r
	zone := vutil.Pick(r, g.zones)
	if r.IntN(8) == 0 {
		zone = vutil.Pick(r, []string{"UTC", "Local"})
	}
	w := &Weekly{location: c18Loc(zone)}
	nBad := 0
	if r.IntN(3) == 0 {
		nBad = 1 + r.IntN(2)
	}
	for i := range w.days {
		switch {
		case r.IntN(3) == 0:
			// unset day
		default:
			w.days[i] = g.randRange()
		}
	}
	for ; nBad > 0; nBad-- {
		w.days[r.IntN(7)] = g.badRange()
	}

	return w
}

// c18DayTok is what the generator knows about one day of a generated document.
type c18DayTok struct {
	kind       int    // 0: absent or null; 1: an object
	start, end string // "" = key absent
}

var c18PlainTok = regexp.MustCompile(`^[-+.0-9a-zA-Zµμ ]+$`)

// tokFields renders the token fields of a decode line.
func c18TokFields(ok bool, days [7]c18DayTok) (f []string) {
	f = append(f, vutil.B(ok))
	t := func(s string) string {
		if s == "" {
			return "~"
		}

		return vutil.Hex(s)
	}
	for _, d := range days {
		f = append(f, strconv.Itoa(d.kind), t(d.start), t(d.end))
	}

	return f
}

// nearMinuteTok is a number of milliseconds (JSON) or a duration string (YAML)
// at a chosen tiny distance from a whole number of minutes.
func (g *c18Gen) nearMinuteTok(yml bool) string {
	r := g.r
	mins := int64(r.IntN(1441))
	switch r.IntN(4) {
	case 0:
		// the binades in which float64(ms)*1e6 loses a nanosecond
		mins = vutil.Pick(r, []int64{9, 18, 35, 36, 70, 71, 72, 73, 280, 281, 285, 290, 1120, 1130, 1140, 1150})
	case 1:
		mins = vutil.Pick(r, []int64{0, 1, 60, 1439, 1440})
	}
	// distance in picoseconds
	d := vutil.Pick(r, []int64{0, 0, 1000, -1000, 2000, 10_000, 1_000_000, 250_000_000, 500_000_000, 125_000_000, 999_999_000,
		100, -100, 500, 1, 999, 1_000_000_000, 60_000_000_000_000})
	if r.IntN(8) == 0 {
		d = r.Int64N(2_000_000_000) - 1_000_000_000
	}
	ps := mins*60_000_000_000_000 + d // picoseconds
	neg := ps < 0
	if neg {
		ps = -ps
	}
	var out string
	if yml {
		// seconds with up to 12 fraction digits, as XmY.Zs
		m, rest := ps/60_000_000_000_000, ps%60_000_000_000_000
		sec, frac := rest/1_000_000_000_000, rest%1_000_000_000_000
		fs := strings.TrimRight(fmt.Sprintf("%012d", frac), "0")
		out = strconv.FormatInt(m, 10) + "m" + strconv.FormatInt(sec, 10)
		if fs != "" {
			out += "." + fs
		}
		out += "s"
	} else {
		ms, frac := ps/1_000_000_000, ps%1_000_000_000
		fs := strings.TrimRight(fmt.Sprintf("%09d", frac), "0")
		out = strconv.FormatInt(ms, 10)
		if fs != "" {
			out += "." + fs
		}
	}
	if neg {
		out = "-" + out
	}

	return out
}

// textTemplate writes a document token by token and reports the tokens.
func (g *c18Gen) textTemplate(yml bool) (text string, days [7]c18DayTok, tokOK bool) {
	r := g.r
	tokOK = true
	toks := c18JSONToks
	if yml {
		toks = c18YAMLToks
	}
	// a document is mostly valid values with a few interesting ones
	pBad := 1 + r.IntN(8)
	tok := func() (t string) {
		switch k := r.IntN(8 * pBad); {
		case k >= 16:
			// a valid value
			n := int64(r.IntN(1441))
			if yml {
				b, _ := timeutil.Duration(n * c18Min).MarshalText()

				return string(b)
			}

			return strconv.FormatInt(n*60000, 10)
		case k >= 8:
			t = g.nearMinuteTok(yml)
		default:
			t = vutil.Pick(r, toks)
		}
		if !c18PlainTok.MatchString(t) && !(len(t) >= 2 && t[0] == '"' && !yml) {
			tokOK = false
		}
		if yml && (t == "null" || t == "true" || t == "~" || strings.HasPrefix(t, " ") || strings.HasSuffix(t, " ")) {
			tokOK = false
		}
		if !yml && (t == "null" || t == "true") {
			tokOK = false
		}

		return t
	}
	tz := vutil.Pick(r, c18TZPool)
	if r.IntN(2) == 0 {
		tz = vutil.Pick(r, g.zones)
	}
	var sb strings.Builder
	if yml {
		if r.IntN(12) > 0 {
			sb.WriteString("time_zone: " + strconv.Quote(tz) + "\n")
		}
		for i, k := range c18DayKeys {
			switch r.IntN(8) {
			case 0, 1, 2:
				continue
			case 3:
				days[i] = c18DayTok{kind: 1, start: tok()}
				sb.WriteString(k + ":\n    start: " + days[i].start + "\n")
			case 4:
				v := vutil.Pick(r, []string{"~", "{}", "[]", "1h", "\"\""})
				switch v {
				case "~":
				case "{}":
					days[i] = c18DayTok{kind: 1}
				default:
					tokOK = false
				}
				sb.WriteString(k + ": " + v + "\n")
			default:
				days[i] = c18DayTok{kind: 1, start: tok(), end: tok()}
				sb.WriteString(k + ":\n    start: " + days[i].start + "\n    end: " + days[i].end + "\n")
			}
		}
		if r.IntN(20) == 0 {
			sb.WriteString("extra: 1\n")
		}

		return sb.String(), days, tokOK
	}
	parts := []string{}
	for i, k := range c18DayKeys {
		switch r.IntN(8) {
		case 0, 1, 2:
			continue
		case 3:
			days[i] = c18DayTok{kind: 1, start: tok()}
			parts = append(parts, `"`+k+`":{"start":`+days[i].start+`}`)
		case 4:
			v := vutil.Pick(r, []string{"null", "{}", "[]", "1", `"x"`})
			switch v {
			case "null":
			case "{}":
				days[i] = c18DayTok{kind: 1}
			default:
				tokOK = false
			}
			parts = append(parts, `"`+k+`":`+v)
		default:
			days[i] = c18DayTok{kind: 1, start: tok(), end: tok()}
			parts = append(parts, `"`+k+`":{"start":`+days[i].start+`,"end":`+days[i].end+`}`)
		}
	}
	if r.IntN(12) > 0 {
		b, _ := json.Marshal(tz)
		parts = append(parts, `"time_zone":`+string(b))
	}
	if r.IntN(20) == 0 {
		parts = append(parts, `"extra":1`)
	}
	r.Shuffle(len(parts), func(i, j int) { parts[i], parts[j] = parts[j], parts[i] })

	return "{" + strings.Join(parts, ",") + "}", days, tokOK
}

func c18Mutate(r *rand.Rand, s string) string {
	if s == "" {
		return "x"
	}
	b := []byte(s)
	switch r.IntN(5) {
	case 0:
		return string(b[:r.IntN(len(b))])
	case 1:
		i := r.IntN(len(b))
		b[i] = byte(r.IntN(256))

		return string(b)
	case 2:
		i := r.IntN(len(b))

		return string(b[:i]) + string(b[i+1:])
	case 3:
		i := r.IntN(len(b))

		return string(b[:i]) + vutil.Pick(r, []string{"-", "1", "0", ".", "e", "\"", "}", "{", ":", " ", "\n", "h", "m"}) + string(b[i:])
	default:
		return vutil.Pick(r, []string{"", "null", "[]", "{}", "1", "\"x\"", "{", "time_zone: [", "- a", "~"})
	}
}

// genDecode emits a C18.json / C18.yaml case: the text plus what the library
// makes of it (oracle fields).
func (g *c18Gen) genDecode(yml bool) {
	r := g.r
	var text string
	var toks [7]c18DayTok
	tokOK := false
	switch k := r.IntN(10); {
	case k < 4:
		// the real encoder on a schedule value: this is the round trip from the value side
		w := g.weeklyValue()
		var data []byte
		var err error
		if yml {
			data, err = yaml.Marshal(w)
		} else {
			data, err = json.Marshal(w)
		}
		if err != nil {
			panic(err)
		}
		text = string(data)
		// the tokens the duration types write
		tokOK = true
		for i, d := range w.days {
			if (d == dayRange{}) {
				continue
			}
			var a, b []byte
			if yml {
				a, _ = timeutil.Duration(d.start).MarshalText()
				b, _ = timeutil.Duration(d.end).MarshalText()
			} else {
				a, _ = aghhttp.JSONDuration(d.start).MarshalJSON()
				b, _ = aghhttp.JSONDuration(d.end).MarshalJSON()
			}
			toks[i] = c18DayTok{kind: 1, start: string(a), end: string(b)}
			if !c18PlainTok.MatchString(string(a)) || !c18PlainTok.MatchString(string(b)) {
				tokOK = false
			}
		}
	default:
		text, toks, tokOK = g.textTemplate(yml)
	}
	if r.IntN(12) == 0 {
		text = c18Mutate(r, text)
		tokOK = false
	}
	g.emitDecode(yml, text, tokOK, toks)
}

func (g *c18Gen) emitDecode(yml bool, text string, tokOK bool, toks [7]c18DayTok) {
	op := "C18.json"
	f := []string{vutil.Hex(text)}
	var tz string
	var perr error
	var days [7][3]int64
	if yml {
		op = "C18.yaml"
		conf := &weeklyConfigYAML{}
		perr = c18YAMLOracle(text, conf)
		tz = conf.TimeZone
		for i, d := range []dayConfigYAML{conf.Sunday, conf.Monday, conf.Tuesday, conf.Wednesday, conf.Thursday, conf.Friday, conf.Saturday} {
			days[i] = [3]int64{1, int64(d.Start), int64(d.End)}
		}
	} else {
		conf := &weeklyConfigJSON{}
		perr = json.Unmarshal([]byte(text), conf)
		tz = conf.TimeZone
		for i, d := range []*dayConfigJSON{conf.Sunday, conf.Monday, conf.Tuesday, conf.Wednesday, conf.Thursday, conf.Friday, conf.Saturday} {
			if d != nil {
				days[i] = [3]int64{1, int64(d.Start), int64(d.End)}
			}
		}
	}
	_, lerr := time.LoadLocation(tz)
	f = append(f, vutil.B(perr == nil), vutil.Hex(tz), vutil.B(lerr == nil))
	for _, d := range days {
		f = append(f, strconv.FormatInt(d[0], 10), strconv.FormatInt(d[1], 10), strconv.FormatInt(d[2], 10))
	}
	f = append(f, c18TokFields(tokOK, toks)...)
	g.emit(append([]string{op}, f...)...)
}

// c18YAMLOracle is what `value.Decode(conf)` does inside UnmarshalYAML: the
// library decoding the document into the configuration struct.
func c18YAMLOracle(text string, conf *weeklyConfigYAML) (err error) {
	defer func() {
		if v := recover(); v != nil {
			err = os.ErrInvalid
		}
	}()

	return yaml.Unmarshal([]byte(text), conf)
}

func (g *c18Gen) genToken() {
	r := g.r
	switch r.IntN(4) {
	case 0:
		t := vutil.Pick(r, c18JSONToks)
		switch r.IntN(4) {
		case 0:
			t = strconv.FormatInt(r.Int64N(100_000_000), 10)
		case 1:
			t = strconv.FormatInt(r.Int64N(20_000_000_000)-10_000_000_000, 10)
		case 2:
			switch r.IntN(4) {
			case 0:
				t = strconv.FormatInt(int64(r.IntN(1441))*60000, 10)
			case 1:
				t = g.nearMinuteTok(false)
			case 2:
				// a random decimal with up to 9 fraction digits, sometimes in exponent form
				t = strconv.FormatInt(r.Int64N(200_000_000)-50_000_000, 10) + "." + strconv.Itoa(r.IntN(1_000_000_000))
				if r.IntN(3) == 0 {
					t += vutil.Pick(r, []string{"e0", "e1", "e-1", "E3", "e-6", "e+2", "e-9", "e12", "e-20"})
				}
			default:
				// mantissa x power of ten
				t = strconv.FormatInt(r.Int64N(1_000_000), 10) + "e" + strconv.Itoa(r.IntN(40)-20)
			}
		}
		g.emit("C18.jsondur", vutil.Hex(t))
	case 1:
		ns := int64(r.IntN(1441)) * c18Min
		switch r.IntN(5) {
		case 0:
			ns = r.Int64N(100_000_000) * int64(time.Millisecond)
		case 1:
			ns = r.Int64N(c18Day)
		case 2:
			ns = -ns
		}
		g.emit("C18.jsondurenc", strconv.FormatInt(ns, 10))
	case 2:
		t := vutil.Pick(r, c18YAMLToks)
		switch r.IntN(4) {
		case 0:
			b, _ := timeutil.Duration(int64(r.IntN(3000)) * c18Min).MarshalText()
			t = string(b)
		case 1:
			units := []string{"h", "m", "s", "ms", "us", "µs", "μs", "ns", "d", ""}
			t = ""
			for i := r.IntN(4); i >= 0; i-- {
				t += strconv.Itoa(r.IntN(5000)) + vutil.Pick(r, units)
			}
			if r.IntN(6) == 0 {
				t = vutil.Pick(r, []string{"-", "+"}) + t
			}
		case 2:
			switch r.IntN(3) {
			case 0:
				t = c18Mutate(r, t)
			case 1:
				t = g.nearMinuteTok(true)
			default:
				// fractional coefficients
				units := []string{"h", "m", "s", "ms", "us", "ns"}
				t = ""
				for i := r.IntN(3); i >= 0; i-- {
					t += strconv.Itoa(r.IntN(100)) + "." + strings.Repeat("0", r.IntN(3)) + strconv.Itoa(r.IntN(100000)) + vutil.Pick(r, units)
				}
			}
		}
		g.emit("C18.yamldur", vutil.Hex(t))
	default:
		ns := int64(r.IntN(1441)) * c18Min
		switch r.IntN(5) {
		case 0:
			ns = int64(r.IntN(100000)) * c18Min
		case 1:
			ns = r.Int64N(c18Day)
		}
		g.emit("C18.yamldurenc", strconv.FormatInt(ns, 10))
	}
}

func c18Generate(r *rand.Rand, emit vutil.Emit) {
	g := &c18Gen{r: r, emit: emit, zones: c18ZoneNames(vutil.Thorough()), trans: map[string][]int64{}}
	for _, z := range g.zones {
		g.trans[z] = c18Transitions(c18Loc(z))
	}

	// Deterministic part 1: every zone, its most recent transitions before
	// 2040 and (thorough) all of them, a fixed fan of instants around each.
	perZone := 6
	if vutil.Thorough() {
		perZone = 1 << 30
	}
	for _, z := range g.zones {
		loc := c18Loc(z)
		trs := g.trans[z]
		if len(trs) > perZone {
			// the latest ones and a spread of old ones
			sel := append([]int64{}, trs[len(trs)-perZone/2:]...)
			for i := 0; i < perZone/2; i++ {
				sel = append(sel, trs[r.IntN(len(trs))])
			}
			trs = sel
		}
		for _, tr := range trs {
			reps := 4
			if vutil.Thorough() {
				reps = 24
			}
			for i := 0; i < reps; i++ {
				sec, nsec := g.instantNear(loc, tr)
				g.emitContains(z, loc, sec, nsec)
			}
		}
	}

	emit("C18.ctor", "empty")
	emit("C18.ctor", "full")

	// Part 2: VERIF_N random cases over all ops.
	n := vutil.N(100000)
	for i := 0; i < n; i++ {
		switch k := r.IntN(100); {
		case k < 64:
			g.genContainsRandom()
		case k < 70:
			g.genValidate()
		case k < 80:
			g.genDecode(false)
		case k < 90:
			g.genDecode(true)
		default:
			g.genToken()
		}
	}
}

func TestVerifC18(t *testing.T) { vutil.Main(t, c18Generate, c18Run) }

// ---------------------------------------------------------------------------
// Aliasing blocks (C18.areset …): several schedule values alive at once,
// decoding INTO a target that is pre-filled the way the code does it (the
// default configuration of internal/home holds `Schedule: schedule.EmptyWeekly()`
// and the file is decoded over it; encoding/json and yaml.v3 reuse a non-nil
// pointer).  After every operation: a FRESH EmptyWeekly() (fields, Contains on
// probe instants of every weekday, JSON and YAML bytes) and every value created
// so far.

// c18aTarget is a configuration struct with a schedule field, like
// filtering.BlockedServices.
type c18aTarget struct {
	Schedule *Weekly  `json:"schedule" yaml:"schedule"`
	IDs      []string `json:"ids" yaml:"ids"`
}

var c18aProbes = func() (ps []time.Time) {
	for d := 0; d < 7; d++ {
		ps = append(ps, time.Date(2024, 3, 3+d, 12, 0, 0, 0, time.UTC), time.Date(2024, 3, 3+d, 0, 30, 0, 0, time.UTC))
	}

	return ps
}()

type c18aWorld struct {
	slots []*Weekly
	// polluted: package-level state left behind by an EARLIER block already makes
	// EmptyWeekly() non-empty.  That block has reported it; this one cannot be
	// replayed on its own, so it is skipped (and counted as such).
	polluted bool
}

func (w *c18aWorld) obs() (out []string) {
	e := EmptyWeekly()
	out = append(out, "E")
	out = append(out, c18FmtDays(e.days)...)
	bits := make([]byte, len(c18aProbes))
	for i, p := range c18aProbes {
		bits[i] = '0'
		if e.Contains(p) {
			bits[i] = '1'
		}
	}
	jb, err := json.Marshal(e)
	if err != nil {
		panic(err)
	}
	yb, err := yaml.Marshal(e)
	if err != nil {
		panic(err)
	}
	out = append(out, string(bits), vutil.Hex(string(jb)), vutil.Hex(string(yb)), "S", strconv.Itoa(len(w.slots)))
	for _, s := range w.slots {
		out = append(out, vutil.Hex(s.location.String()))
		out = append(out, c18FmtDays(s.days)...)
	}

	return out
}

func (w *c18aWorld) do(f []string) []string {
	switch f[0] {
	case "C18.areset":
		w.slots = nil
		e := EmptyWeekly()
		w.polluted = e.days != [7]dayRange{}
		if w.polluted {
			return []string{"polluted"}
		}

		return []string{"ok"}
	case "C18.anew", "C18.adec":
		if w.polluted {
			return []string{"skipped"}
		}
	}
	switch f[0] {
	case "C18.anew":
		switch f[1] {
		case "empty":
			w.slots = append(w.slots, EmptyWeekly())
		case "full":
			w.slots = append(w.slots, FullWeekly())
		case "clone":
			w.slots = append(w.slots, w.slots[vutil.Atoi(f[2])].Clone())
		default:
			panic("unknown kind " + f[1])
		}

		return w.obs()
	case "C18.adec":
		i := vutil.Atoi(f[1])
		text := vutil.Unhex(f[3])
		tgt := &c18aTarget{Schedule: w.slots[i], IDs: []string{}}
		var err error
		if f[2] == "yaml" {
			err = yaml.Unmarshal([]byte("ids: [youtube]\nschedule:\n"+c18Indent(text)), tgt)
		} else {
			err = json.Unmarshal([]byte(`{"ids":["youtube"],"schedule":`+text+`}`), tgt)
		}
		res := "ok"
		if err != nil {
			res = "err"
		} else if tgt.Schedule != w.slots[i] {
			// the library allocated a new value: the slot is what the configuration now holds
			w.slots[i] = tgt.Schedule
		}

		return append([]string{res}, w.obs()...)
	default:
		panic("unknown op " + f[0])
	}
}

func c18Indent(text string) string {
	lines := strings.Split(strings.TrimRight(text, "\n"), "\n")
	for i := range lines {
		lines[i] = "    " + lines[i]
	}

	return strings.Join(lines, "\n") + "\n"
}

func c18aGen(r *rand.Rand, emit vutil.Emit) {
	g := &c18Gen{r: r, emit: emit, zones: c18ZoneNames(false), trans: map[string][]int64{}}
	n := vutil.N(300)
	for blk := 0; blk < n; blk++ {
		emit("C18.areset")
		nSlots := 0
		newSlot := func() {
			switch k := r.IntN(10); {
			case k < 6 || nSlots == 0:
				emit("C18.anew", "empty")
			case k < 8:
				emit("C18.anew", "full")
			default:
				emit("C18.anew", "clone", strconv.Itoa(r.IntN(nSlots)))
			}
			nSlots++
		}
		newSlot()
		for i, nOps := 0, 4+r.IntN(12); i < nOps; i++ {
			if r.IntN(3) == 0 {
				newSlot()

				continue
			}
			yml := r.IntN(2) == 0
			w := g.weeklyValue()
			if r.IntN(4) > 0 {
				// valid and visibly non-empty
				for d := range w.days {
					w.days[d] = g.randRange()
				}
				w.days[r.IntN(7)] = dayRange{start: 0, end: time.Duration(c18Day)}
			}
			var data []byte
			var err error
			if yml {
				data, err = yaml.Marshal(w)
			} else {
				data, err = json.Marshal(w)
			}
			if err != nil {
				panic(err)
			}
			fmtName := "json"
			if yml {
				fmtName = "yaml"
			}
			var line []string
			g.emit = func(f ...string) { line = f }
			g.emitDecode(yml, string(data), false, [7]c18DayTok{})
			g.emit = emit
			// line = op, text, parseOK, tz, tzOK, days…, tokens…: keep the oracle part
			emit(append([]string{"C18.adec", strconv.Itoa(r.IntN(nSlots)), fmtName}, line[1:1+4+21]...)...)
		}
	}
}

func TestVerifC18Alias(t *testing.T) {
	w := &c18aWorld{}
	vutil.Main(t, c18aGen, w.do)
}
