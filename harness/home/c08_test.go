//go:build verif

package home

import (
	"bytes"
	"context"
	"encoding/gob"
	"encoding/json"
	"fmt"
	"math/rand/v2"
	"net"
	"net/http"
	"net/http/httptest"
	"net/netip"
	"os"
	"path/filepath"
	"sort"
	"strings"
	"sync"
	"testing"
	"time"

	"github.com/AdguardTeam/AdGuardHome/internal/aghnet"
	"github.com/AdguardTeam/AdGuardHome/internal/client"
	"github.com/AdguardTeam/AdGuardHome/internal/dhcpsvc"
	"github.com/AdguardTeam/AdGuardHome/internal/dnsforward"
	"github.com/AdguardTeam/AdGuardHome/internal/filtering"
	"github.com/AdguardTeam/AdGuardHome/internal/querylog"
	"github.com/AdguardTeam/AdGuardHome/internal/stats"
	"github.com/AdguardTeam/AdGuardHome/internal/vutil"
	"github.com/AdguardTeam/AdGuardHome/internal/whois"
	"github.com/AdguardTeam/golibs/logutil/slogutil"
	"github.com/AdguardTeam/golibs/timeutil"
	"github.com/miekg/dns"
	"go.etcd.io/bbolt"
)

// C08 harness: a real clientsContainer (client.Storage built from config-file
// client objects), a real query log and a real statistics module on a
// temporary directory, wired exactly as initDNS wires them (findMultiple,
// shouldCountClient, one shared anonymizer), and a real dnsforward.Server whose
// processQueryLogsAndStats is called for every query line.

// c08DHCP is the DHCP lease table of a block: MACByIP only.
type c08DHCP struct {
	macs map[netip.Addr]net.HardwareAddr
}

func (d *c08DHCP) Leases() (leases []*dhcpsvc.Lease)       { return nil }
func (d *c08DHCP) HostByIP(_ netip.Addr) (host string)     { return "" }
func (d *c08DHCP) MACByIP(ip netip.Addr) net.HardwareAddr  { return d.macs[ip] }

// c08Checker is the access-list stub findMultiple needs for the blocked flag.
type c08Checker struct{}

func (c08Checker) IsBlockedClient(_ netip.Addr, _ string) (bool, string) { return false, "" }

// c08FixDefault tells whether /repo carries fixes/c08/zoned_client_stats.patch
// (shouldCountClient looks clients up with FindLoose).  The harness reports it
// with every reset line and the driver runs the matching model variant
// (Conf.fixZone).  VERIF_C08_FIX=0/1 overrides it for scratch trees (e.g. with
// the repair reverted: VERIF_C08_FIX=0).
const c08FixDefault = true

// c08Zoned turns on persistent clients configured with zoned addresses
// (fe80::1%eth0) and link-local peers.  Before the repair the tree violated C08
// for them (fixes/c08/README.txt).
const c08Zoned = true

func c08EnvBool(name string, def bool) bool {
	switch os.Getenv(name) {
	case "1":
		return true
	case "0":
		return false
	default:
		return def
	}
}

type c08Ctx struct {
	dir       string
	clients   *clientsContainer
	qlog      querylog.QueryLog
	st        *stats.StatsCtx
	srv       *dnsforward.Server
	refuseAny bool
	dhcp      *c08DHCP
	// unit is the statistics unit-id clock of the block (hours).
	unit uint32
	// rotated tells that querylog.json.1 exists (rotate is driven only once a
	// block, so that no record is dropped by a second rename).
	rotated bool
	// blocked is the disallowed-clients list of the block (access settings).
	blocked []string
	// peers are the real peer addresses of the block's queries (unmapped), for
	// the catch-all leak scan of the log API's answer.
	peers map[netip.Addr]bool
}

var c08 *c08Ctx

func c08Drop() {
	if c08 == nil {
		return
	}
	if c08.srv != nil {
		closeDNSServer()
		globalContext.stats, globalContext.queryLog = nil, nil
	}
	_ = os.RemoveAll(c08.dir)
	c08 = nil
}

func c08TempDir() string {
	base := os.TempDir()
	if st, err := os.Stat("/dev/shm"); err == nil && st.IsDir() {
		base = "/dev/shm"
	}
	dir, err := os.MkdirTemp(base, "verif-c08-")
	if err != nil {
		panic(err)
	}

	return dir
}

// c08List reads a count-prefixed list of k-field items starting at f[*i].
func c08List(f []string, i *int, k int) (items [][]string) {
	n := vutil.Atoi(f[*i])
	*i++
	for j := 0; j < n; j++ {
		items = append(items, f[*i:*i+k])
		*i += k
	}

	return items
}

func c08Strings(f []string, i *int) (out []string) {
	for _, it := range c08List(f, i, 1) {
		out = append(out, vutil.Unhex(it[0]))
	}
	if out == nil {
		out = []string{}
	}

	return out
}

// c08IDString renders a typed identifier the way the configuration file and the
// web API carry it.
func c08IDString(kind, hx, bits string) string {
	raw := []byte(vutil.Unhex(hx))
	switch kind {
	case "i":
		a, ok := netip.AddrFromSlice(raw)
		if !ok {
			panic("bad ip id")
		}

		return a.String()
	case "n":
		a, ok := netip.AddrFromSlice(raw)
		if !ok {
			panic("bad prefix id")
		}

		return netip.PrefixFrom(a, vutil.Atoi(bits)).String()
	case "z":
		// A zoned address; the third field is the zone name.
		a, ok := netip.AddrFromSlice(raw)
		if !ok {
			panic("bad zoned ip id")
		}

		return a.WithZone(vutil.Unhex(bits)).String()
	case "m":
		return net.HardwareAddr(raw).String()
	case "c":
		return string(raw)
	default:
		panic("bad id kind " + kind)
	}
}

func c08Reset(f []string) []string {
	c08Drop()

	i := 1
	anon, refuseAny := vutil.UnB(f[i]), vutil.UnB(f[i+1])
	qlogOn, statsOn := vutil.UnB(f[i+2]), vutil.UnB(f[i+3])
	i += 4
	ignQ := c08Strings(f, &i)
	ignS := c08Strings(f, &i)

	nC := vutil.Atoi(f[i])
	i++
	var objs []*clientObject
	for j := 0; j < nC; j++ {
		o := &clientObject{
			Name:                     vutil.Unhex(f[i]),
			IgnoreQueryLog:           vutil.UnB(f[i+1]),
			IgnoreStatistics:         vutil.UnB(f[i+2]),
			UseGlobalSettings:        true,
			UseGlobalBlockedServices: true,
		}
		i += 3
		for _, id := range c08List(f, &i, 3) {
			o.IDs = append(o.IDs, c08IDString(id[0], id[1], id[2]))
		}
		objs = append(objs, o)
	}

	dhcp := &c08DHCP{macs: map[netip.Addr]net.HardwareAddr{}}
	for _, l := range c08List(f, &i, 2) {
		a, ok := netip.AddrFromSlice([]byte(vutil.Unhex(l[0])))
		if !ok {
			panic("bad lease ip")
		}
		dhcp.macs[a] = net.HardwareAddr(vutil.Unhex(l[1]))
	}

	c := &c08Ctx{dir: c08TempDir(), refuseAny: refuseAny, dhcp: dhcp, peers: map[netip.Addr]bool{}}
	c08 = c
	// Optional trailing fields: the fix flag (read by the driver only), then the
	// disallowed clients as typed identifiers.
	if i+1 < len(f) {
		i++
		for _, id := range c08List(f, &i, 3) {
			c.blocked = append(c.blocked, c08IDString(id[0], id[1], id[2]))
		}
	}

	return c.start(objs, anon, qlogOn, statsOn, ignQ, ignS)
}

// start creates the modules on c.dir from what a configuration file holds:
// client objects, the two switches, the two ignore lists, the anonymisation
// flag.  It is used at reset and at restart.
func (c *c08Ctx) start(objs []*clientObject, anon, qlogOn, statsOn bool, ignQ, ignS []string) []string {
	logger := slogutil.NewDiscardLogger()

	// The globals initDNS and the registered handlers read.
	globalContext.mux = http.NewServeMux()
	globalContext.firstRun = false
	globalContext.web = &webAPI{}
	globalContext.workDir = c.dir
	globalContext.confFilePath = filepath.Join(c.dir, "AdGuardHome.yaml")
	tlsMgr := &tlsManager{mu: &sync.Mutex{}, conf: &tlsConfigSettings{}, logger: logger}
	globalContext.tls = tlsMgr

	globalContext.clients.storage = nil
	globalContext.clients.testing = true
	c.clients = &globalContext.clients
	err := c.clients.Init(
		context.Background(),
		logger,
		objs,
		c.dhcp,
		nil,
		nil,
		&filtering.Config{},
		newSignalHandler(nil, nil),
	)
	if err != nil {
		msg := err.Error()
		switch {
		case strings.Contains(msg, "another client"):
			return []string{"clash"}
		default:
			return []string{"err:" + vutil.Hex(msg)}
		}
	}

	// What the configuration file holds.
	config.DNS.AnonymizeClientIP = anon
	config.DNS.RefuseAny = c.refuseAny
	config.DNS.DisallowedClients = c.blocked
	config.DNS.AllowedClients = nil
	config.QueryLog.Enabled = qlogOn
	config.QueryLog.FileEnabled = true
	config.QueryLog.Interval = timeutil.Duration(24 * time.Hour)
	config.QueryLog.MemSize = 256
	config.QueryLog.Ignored = ignQ
	config.Stats.Enabled = statsOn
	config.Stats.Interval = timeutil.Duration(24 * time.Hour)
	config.Stats.Ignored = ignS
	config.Filtering.DataDir = c.dir
	// No rDNS / WHOIS lookups of client addresses by the address processor (they
	// need the network); runtime records are driven by the runtime operation.
	config.Clients.Sources.RDNS = false
	config.Clients.Sources.WHOIS = false

	// The REAL wiring: whatever instances initDNS creates and shares (or does
	// not share) are the ones in use below.
	if err = initDNS(logger, tlsMgr, c.dir, c.dir); err != nil {
		panic(err)
	}
	c.qlog = globalContext.queryLog
	c.st = globalContext.stats.(*stats.StatsCtx)
	c.srv = globalContext.dnsServer

	stats.VerifC08NoSync(c.st)
	if c.unit == 0 {
		c.unit = stats.VerifC08CurID(c.st)
	}
	stats.VerifC08Rebase(c.st, func() uint32 { return c.unit })
	// What startDNSServer's Start calls do, minus the never-ending goroutines
	// (their iterations are driven by the tick and rotate operations).
	stats.VerifC08InitWeb(c.st)
	querylog.VerifC08InitWeb(c.qlog)

	return []string{"ok"}
}

// c08CountPair and c08UnitDB mirror the gob layout of a stored statistics unit
// (only the fields read here), so that the buckets are decoded independently of
// the stats package.
type c08CountPair struct {
	Name  string
	Count uint64
}

type c08UnitDB struct {
	Domains        []c08CountPair
	BlockedDomains []c08CountPair
	Clients        []c08CountPair
}

// c08RawDB sums the per-unit client and domain tables of every bucket of db.
func c08RawDB(db *bbolt.DB) []string {
	clients, domains := map[string]uint64{}, map[string]uint64{}
	bad := 0
	err := db.View(func(tx *bbolt.Tx) error {
		return tx.ForEach(func(_ []byte, b *bbolt.Bucket) error {
			return b.ForEach(func(_, v []byte) error {
				u := c08UnitDB{}
				if derr := gob.NewDecoder(bytes.NewReader(v)).Decode(&u); derr != nil {
					bad++

					return nil
				}
				for _, p := range u.Clients {
					clients[p.Name] += p.Count
				}
				for _, p := range u.Domains {
					domains[p.Name] += p.Count
				}
				for _, p := range u.BlockedDomains {
					domains[p.Name] += p.Count
				}

				return nil
			})
		})
	})
	if err != nil || bad != 0 {
		return []string{fmt.Sprintf("baddb:%d:%v", bad, err)}
	}

	return append(c08Counts("KC", clients, c08Key), c08Counts("KD", domains, vutil.Hex)...)
}

// c08Restart stops the modules the way a shutdown does (the log buffer is
// flushed, the current statistics unit is stored), reads both stores back raw,
// and starts new modules on the same directory from what the old ones would
// have written to the configuration file.
func c08Restart() []string {
	c := c08
	// The configuration file as written on the last change: the state of the
	// modules and of the clients container go into the global configuration.
	if err := config.write(globalContext.tls); err != nil {
		return []string{"err:" + vutil.Hex(err.Error())}
	}
	objs := config.Clients.Persistent
	anon, qlogOn, statsOn := config.DNS.AnonymizeClientIP, config.QueryLog.Enabled, config.Stats.Enabled
	ignQ, ignS := config.QueryLog.Ignored, config.Stats.Ignored

	// Shutdown: the DNS server, then the statistics (the current unit is
	// stored) and the query log (the buffer is flushed).
	closeDNSServer()
	globalContext.stats, globalContext.queryLog = nil, nil
	_ = c.clients.close(context.Background())

	db, err := bbolt.Open(filepath.Join(c.dir, "stats.db"), 0o644, &bbolt.Options{ReadOnly: true, Timeout: time.Second})
	if err != nil {
		return []string{"err:" + vutil.Hex(err.Error())}
	}
	raw := c08RawDB(db)
	_ = db.Close()

	res := c.start(objs, anon, qlogOn, statsOn, ignQ, ignS)
	if len(res) != 1 || res[0] != "ok" {
		return res
	}

	out := append(c08Mem(), c08File()...)
	out = append(out, raw...)

	return append(out, c08Unit()...)
}

func c08CanonIP(ip net.IP) string {
	if ip4 := ip.To4(); ip4 != nil {
		return vutil.Hex(string(ip4))
	}

	return vutil.Hex(string(ip))
}

func c08Entry(host string, ip net.IP, cid string) string {
	return vutil.Hex(host) + ":" + c08CanonIP(ip) + ":" + vutil.Hex(cid)
}

func c08WithCount(tag string, items []string) []string {
	return append([]string{tag, vutil.Itoa(len(items))}, items...)
}

func c08Mem() []string {
	var items []string
	for _, e := range querylog.VerifC08Mem(c08.qlog) {
		items = append(items, c08Entry(e.Host, e.IP, e.ClientID))
	}

	return c08WithCount("M", items)
}

// c08ReadLogs returns the bytes of the rotated and the current log file.  The
// query log's start-up rotation check runs in its own goroutine and may rename
// the current file at any moment once; reading is repeated until two passes see
// the same thing.
func c08ReadLogs() (data []byte) {
	read := func() (rot, cur []byte, errs string) {
		var err error
		rot, err = os.ReadFile(filepath.Join(c08.dir, "querylog.json.1"))
		if err != nil && !os.IsNotExist(err) {
			errs += err.Error()
		}
		cur, err = os.ReadFile(filepath.Join(c08.dir, "querylog.json"))
		if err != nil && !os.IsNotExist(err) {
			errs += err.Error()
		}

		return rot, cur, errs
	}

	for i := 0; i < 100; i++ {
		rot1, cur1, errs := read()
		rot2, cur2, _ := read()
		if errs != "" {
			panic("reading the log files: " + errs)
		}
		if bytes.Equal(rot1, rot2) && bytes.Equal(cur1, cur2) {
			return append(rot1, cur1...)
		}
	}

	panic("log files keep changing")
}

// c08File reads the flushed query-log file(s) line by line, oldest first.
func c08File() []string {
	var items []string
	for _, line := range bytes.Split(c08ReadLogs(), []byte("\n")) {
		if len(bytes.TrimSpace(line)) == 0 {
			continue
		}
		var rec struct {
			QH  string `json:"QH"`
			CID string `json:"CID"`
			IP  net.IP `json:"IP"`
		}
		if err := json.Unmarshal(line, &rec); err != nil {
			items = append(items, "badline:"+vutil.Hex(string(line)))

			continue
		}
		items = append(items, c08Entry(rec.QH, rec.IP, rec.CID))
	}

	return c08WithCount("F", items)
}

func c08Key(k string) string {
	if a, err := netip.ParseAddr(k); err == nil {
		return "ip:" + vutil.Hex(string(a.AsSlice()))
	}

	return "id:" + vutil.Hex(k)
}

func c08Counts(tag string, m map[string]uint64, key func(string) string) []string {
	items := make([]string, 0, len(m))
	for k, v := range m {
		items = append(items, fmt.Sprintf("%s=%d", key(k), v))
	}
	sort.Strings(items)

	return c08WithCount(tag, items)
}

func c08Unit() []string {
	cl, dom, blocked := stats.VerifC08Unit(c08.st)
	out := c08Counts("C", cl, c08Key)
	out = append(out, c08Counts("D", dom, vutil.Hex)...)
	if len(blocked) != 0 {
		out = append(out, c08Counts("B", blocked, vutil.Hex)...)
	}

	return out
}

func c08HTTP(method, url, body string) (code int, resp []byte) {
	r := httptest.NewRequest(method, url, strings.NewReader(body))
	r.Header.Set("Content-Type", "application/json")
	w := httptest.NewRecorder()
	// Through the real mux, i.e. the handlers as httpRegister wrapped them.
	globalContext.mux.ServeHTTP(w, r)

	return w.Code, w.Body.Bytes()
}

func c08Status(code int) []string {
	if code == http.StatusOK {
		return []string{"ok"}
	}

	return []string{fmt.Sprintf("http:%d", code)}
}

// c08Has is the stateless probe of the ignore engine: Has on the normalized
// name, as the query log and the statistics call it.
func c08Has(f []string) []string {
	i := 1
	rules := c08Strings(f, &i)
	host := vutil.Unhex(f[i])
	eng, err := aghnet.NewIgnoreEngine(rules)
	if err != nil {
		return []string{"err"}
	}

	return []string{vutil.B(eng.Has(aghnet.NormalizeDomain(host)))}
}

// c08AddrField canonicalises a string of the API answer that may be an address:
// i.<hex> for an address, n.<hex>.<bits> for a prefix, s.<hex> otherwise.
func c08AddrField(v string) string {
	if a, err := netip.ParseAddr(v); err == nil {
		return "i." + vutil.Hex(string(a.AsSlice()))
	}
	if p, err := netip.ParsePrefix(v); err == nil {
		return "n." + vutil.Hex(string(p.Addr().AsSlice())) + "." + vutil.Itoa(p.Bits())
	}

	return "s." + vutil.Hex(v)
}

func c08IsAddrChar(b byte) bool {
	return b == '.' || b == ':' || (b >= '0' && b <= '9') || (b >= 'a' && b <= 'f') || (b >= 'A' && b <= 'F')
}

// c08Mentions reports whether text contains needle as a whole address token.
func c08Mentions(text, needle string) bool {
	for from := 0; ; {
		j := strings.Index(text[from:], needle)
		if j < 0 {
			return false
		}
		start, end := from+j, from+j+len(needle)
		if (start == 0 || !c08IsAddrChar(text[start-1])) && (end == len(text) || !c08IsAddrChar(text[end])) {
			return true
		}
		from = start + 1
	}
}

// c08Leaks is the catch-all clause: with anonymisation on, does the raw JSON of
// one returned record contain a textual form of an un-anonymised peer address
// of this block?
func c08Leaks(raw string) bool {
	for a := range c08.peers {
		m := net.IP(a.AsSlice())
		querylog.AnonymizeIP(m)
		if masked, _ := netip.AddrFromSlice(m); masked.Unmap() == a {
			continue
		}
		forms := []string{a.String()}
		if a.Is6() {
			forms = append(forms, a.StringExpanded())
		} else {
			forms = append(forms, "::ffff:"+a.String())
		}
		for _, fm := range forms {
			if c08Mentions(raw, fm) {
				return true
			}
		}
	}

	return false
}

// c08Reported renders one record of the log API's answer: name, client,
// client_id, client_info (name, whois.orgname, disallowed, disallowed_rule) or
// "-" when absent, and the leak flag.
func c08Reported(raw json.RawMessage, anon bool) string {
	var d struct {
		Client     string `json:"client"`
		ClientID   string `json:"client_id"`
		ClientInfo *struct {
			WHOIS          map[string]string `json:"whois"`
			Name           string            `json:"name"`
			DisallowedRule string            `json:"disallowed_rule"`
			Disallowed     bool              `json:"disallowed"`
		} `json:"client_info"`
		Question struct {
			Name string `json:"name"`
		} `json:"question"`
	}
	if err := json.Unmarshal(raw, &d); err != nil {
		return "badentry." + vutil.Hex(err.Error())
	}
	ip := "bad" + vutil.Hex(d.Client)
	if a, err := netip.ParseAddr(d.Client); err == nil {
		ip = vutil.Hex(string(a.AsSlice()))
	}
	info := "-"
	if d.ClientInfo != nil {
		other := ""
		for k, v := range d.ClientInfo.WHOIS {
			if k != "orgname" {
				other += k + "=" + v + ";"
			}
		}
		info = vutil.Hex(d.ClientInfo.Name) + "," + vutil.Hex(d.ClientInfo.WHOIS["orgname"]+other) + "," +
			vutil.B(d.ClientInfo.Disallowed) + "," + c08AddrField(d.ClientInfo.DisallowedRule)
	}
	leak := anon && c08Leaks(string(raw))

	return vutil.Hex(d.Question.Name) + ":" + ip + ":" + vutil.Hex(d.ClientID) + ":" + info + ":" + vutil.B(leak)
}

func c08Run(f []string) []string {
	switch f[0] {
	case "C08.reset":
		return c08Reset(f)
	case "C08.has":
		return c08Has(f)
	}
	if c08 == nil || c08.srv == nil {
		return []string{"nostate"}
	}

	switch f[0] {
	case "C08.query":
		name, qt := vutil.Unhex(f[1]), uint16(vutil.Atoi(f[2]))
		addr, ok := netip.AddrFromSlice([]byte(vutil.Unhex(f[3])))
		if !ok {
			panic("bad client address")
		}
		cid := vutil.Unhex(f[4])
		c08.peers[addr.Unmap()] = true
		if len(f) > 5 && addr.Is6() {
			// An IPv6 zone of the peer address (link-local clients have one).
			addr = addr.WithZone(vutil.Unhex(f[5]))
		}
		dnsforward.VerifC08Process(c08.srv, name, qt, netip.AddrPortFrom(addr, 53535), cid, c08.refuseAny)

		return append(c08Mem(), c08Unit()...)
	case "C08.querylocked":
		// The same as a query, but pushed through while the clients container's
		// lock is held (as GET /control/clients and every configuration write hold
		// it): the statistics' client callback must wait for the lock, not guess.
		name, qt := vutil.Unhex(f[1]), uint16(vutil.Atoi(f[2]))
		addr, ok := netip.AddrFromSlice([]byte(vutil.Unhex(f[3])))
		if !ok {
			panic("bad client address")
		}
		cid := vutil.Unhex(f[4])
		c08.peers[addr.Unmap()] = true
		if len(f) > 5 && addr.Is6() {
			addr = addr.WithZone(vutil.Unhex(f[5]))
		}
		done := make(chan struct{})
		globalContext.clients.lock.Lock()
		go func() {
			defer close(done)
			dnsforward.VerifC08Process(c08.srv, name, qt, netip.AddrPortFrom(addr, 53535), cid, c08.refuseAny)
		}()
		select {
		case <-done:
		case <-time.After(2 * time.Millisecond):
		}
		globalContext.clients.lock.Unlock()
		<-done

		return append(c08Mem(), c08Unit()...)
	case "C08.flush":
		_ = c08.qlog.Shutdown(context.Background())

		return append(c08Mem(), c08File()...)
	case "C08.qlogconf":
		i := 3
		body, _ := json.Marshal(map[string]any{
			"enabled":             vutil.UnB(f[1]),
			"anonymize_client_ip": vutil.UnB(f[2]),
			"interval":            float64(24 * time.Hour / time.Millisecond),
			"ignored":             c08Strings(f, &i),
		})
		code, _ := c08HTTP(http.MethodPut, "/control/querylog/config/update", string(body))

		return c08Status(code)
	case "C08.qlogconfold":
		// The legacy handler: enabled and anonymize_client_ip only.
		body, _ := json.Marshal(map[string]any{
			"enabled":             vutil.UnB(f[1]),
			"anonymize_client_ip": vutil.UnB(f[2]),
			"interval":            1,
		})
		code, _ := c08HTTP(http.MethodPost, "/control/querylog_config", string(body))

		return c08Status(code)
	case "C08.statsconf":
		i := 2
		body, _ := json.Marshal(map[string]any{
			"enabled":  vutil.UnB(f[1]),
			"interval": float64(24 * time.Hour / time.Millisecond),
			"ignored":  c08Strings(f, &i),
		})
		code, _ := c08HTTP(http.MethodPut, "/control/stats/config/update", string(body))

		return c08Status(code)
	case "C08.setflags":
		name := vutil.Unhex(f[1])
		p, ok := c08.clients.storage.FindByName(name)
		if !ok {
			return []string{"noclient"}
		}
		p.IgnoreQueryLog, p.IgnoreStatistics = vutil.UnB(f[2]), vutil.UnB(f[3])
		p.UID = client.MustNewUID()
		if err := c08.clients.storage.Update(context.Background(), name, p); err != nil {
			return []string{"err:" + vutil.Hex(err.Error())}
		}

		return []string{"ok"}
	case "C08.edit":
		// An edit that adds one identifier to a client, through Storage.Update as
		// POST /control/clients/update does it.  A rejected edit (the identifier
		// belongs to another client) must leave the storage as it was.
		name := vutil.Unhex(f[1])
		p, ok := c08.clients.storage.FindByName(name)
		if !ok {
			return []string{"noclient"}
		}
		ids := append(p.IDs(), c08IDString(f[2], f[3], f[4]))
		p.IPs, p.Subnets, p.MACs, p.ClientIDs = nil, nil, nil, nil
		if err := p.SetIDs(ids); err != nil {
			return []string{"err:" + vutil.Hex(err.Error())}
		}
		p.UID = client.MustNewUID()
		if err := c08.clients.storage.Update(context.Background(), name, p); err != nil {
			if strings.Contains(err.Error(), "another client") {
				return []string{"clash"}
			}

			return []string{"err:" + vutil.Hex(err.Error())}
		}

		return []string{"ok"}
	case "C08.rmclient":
		if !c08.clients.storage.RemoveByName(context.Background(), vutil.Unhex(f[1])) {
			return []string{"noclient"}
		}

		return []string{"ok"}
	case "C08.tick":
		c08.unit++
		stats.VerifC08Flush(c08.st)
		db := stats.VerifC08DB(c08.st)
		if db == nil {
			return []string{"nodb"}
		}

		return append(c08RawDB(db), c08Unit()...)
	case "C08.restart":
		return c08Restart()
	case "C08.rotate":
		if c08.rotated {
			return []string{"skip"}
		}
		if err := querylog.VerifC08Rotate(c08.qlog); err != nil {
			return []string{"err:" + vutil.Hex(err.Error())}
		}
		if _, err := os.Stat(filepath.Join(c08.dir, "querylog.json.1")); err != nil {
			return []string{"nofile"}
		}
		c08.rotated = true

		return append([]string{"ok"}, c08File()...)
	case "C08.runtime":
		// A runtime record for the address: rDNS host name and/or WHOIS data, the
		// way the rDNS and WHOIS processors report them.
		addr, ok := netip.AddrFromSlice([]byte(vutil.Unhex(f[1])))
		if !ok {
			panic("bad runtime address")
		}
		host, org := vutil.Unhex(f[2]), vutil.Unhex(f[3])
		var wi *whois.Info
		if org != "" {
			wi = &whois.Info{Orgname: org}
		}
		c08.clients.UpdateAddress(context.Background(), addr, host, wi)

		return []string{"ok"}
	case "C08.search":
		code, body := c08HTTP(http.MethodGet, "/control/querylog?limit=100000&offset=0", "")
		if code != http.StatusOK {
			return c08Status(code)
		}
		var resp struct {
			Data []json.RawMessage `json:"data"`
		}
		if err := json.Unmarshal(body, &resp); err != nil {
			return []string{"badjson:" + vutil.Hex(err.Error())}
		}
		qc := querylog.Config{}
		c08.qlog.WriteDiskConfig(&qc)
		var items []string
		for _, raw := range resp.Data {
			items = append(items, c08Reported(raw, qc.AnonymizeClientIP))
		}

		return c08WithCount("R", items)
	case "C08.stats":
		code, body := c08HTTP(http.MethodGet, "/control/stats", "")
		if code != http.StatusOK {
			return c08Status(code)
		}
		var resp stats.StatsResp
		if err := json.Unmarshal(body, &resp); err != nil {
			return []string{"badjson:" + vutil.Hex(err.Error())}
		}
		flat := func(l []map[string]uint64) map[string]uint64 {
			m := map[string]uint64{}
			for _, kv := range l {
				for k, v := range kv {
					m[k] += v
				}
			}

			return m
		}

		return append(c08Counts("C", flat(resp.TopClients), c08Key), c08Counts("D", flat(resp.TopQueried), vutil.Hex)...)
	default:
		panic("unknown op " + f[0])
	}
}

// ---------------------------------------------------------------- generator

var c08Names = []string{
	"example.org", "ads.example.org", "sub.ads.example.org", "example.com", "test.local", "localhost",
	"a.b1", "xa.b1y.com", "x.example.org.evil.com", "notexample.org", "tracker.io", "my-host",
	"foo.bar.baz.example.org", "org", "a.c", "ex_ample.org", "example.org.uk", "xn--e1afmkfd.xn--p1ai",
	"ads.tracker.io", "1.0.0.127.in-addr.arpa", "ab", "example", "wpad", "ads.io",
}

var c08V4 = []string{
	"\xc0\xa8\x01\x05", "\xc0\xa8\x01\x06", "\xc0\xa8\x02\x05", "\x0a\x00\x00\x01", "\x0a\x01\x02\x03",
	"\x7f\x00\x00\x01", "\x01\x02\x03\x04", "\xc0\xa8\x00\x00", "\x0a\x00\x00\x00", "\x0a\x01\x00\x00",
}

func c08V6(s string) string {
	a := netip.MustParseAddr(s)

	return string(a.AsSlice())
}

var c08V6s = []string{
	c08V6("2001:db8::1"), c08V6("2001:db8::2"), c08V6("2001:db8:0:0:1::1"), c08V6("2001:db8:1:2:3:4:5:6"),
	c08V6("fe80::1"), c08V6("::1"), c08V6("2001:db8::"), c08V6("2001:db8:1::"), c08V6("::"),
}

func c08In6(v4 string) string {
	return "\x00\x00\x00\x00\x00\x00\x00\x00\x00\x00\xff\xff" + v4
}

func c08Addr(r *rand.Rand) string {
	switch r.IntN(10) {
	case 0, 1, 2, 3, 4:
		return vutil.Pick(r, c08V4)
	case 5, 6, 7:
		return vutil.Pick(r, c08V6s)
	case 8:
		return c08In6(vutil.Pick(r, c08V4))
	default:
		if r.IntN(2) == 0 {
			b := []byte(vutil.Pick(r, c08V4))
			b[3] = byte(r.IntN(256))
			if r.IntN(3) == 0 {
				b[2] = byte(r.IntN(4))
			}

			return string(b)
		}
		b := []byte(vutil.Pick(r, c08V6s))
		b[15] = byte(r.IntN(4))
		if r.IntN(3) == 0 {
			b[5] = byte(r.IntN(3))
		}

		return string(b)
	}
}

// c08LinkLocal are the addresses persistent clients hold with a zone (the name
// is historical): link-local, unique-local, global, and IPv4-mapped ones — the
// configuration accepts a zone on any IPv6 address.
var c08LinkLocal = []string{
	c08V6("fe80::1"), c08V6("fe80::2"), c08V6("fd00::5"), c08V6("2001:db8::5"), c08V6("fec0::7"),
	c08In6("\xc0\xa8\x01\x05"),
}

var c08Zones = []string{"eth0", "wlan0"}

var c08MACs = []string{
	"\xaa\xbb\xcc\xdd\xee\xff", "\x02\x00\x00\x00\x00\x01", "\x02\x00\x00\x00\x00\x02", "\x00\x11\x22\x33\x44\x55",
}

// c08CIDs are the ClientIDs of queries; the MAC look-alikes are valid ClientID
// labels which the client index also tries as MAC addresses.
var c08CIDs = []string{"cli", "client-1", "aa-bb-cc-dd-ee-ff", "laptop", "x", "02-00-00-00-00-01", "phone", "AA-BB-CC-DD-EE-FF", "00-11-22-33-44-5"}

// c08OwnCIDs are the ClientIDs persistent clients are configured with (a
// MAC-shaped one would be stored as a MAC by setID, so those come as kind m).
var c08OwnCIDs = []string{"cli", "client-1", "laptop", "x", "phone"}

type c08ID struct {
	kind, raw string
	bits      int
	zone      string
}

func c08Prefixes() []c08ID {
	return []c08ID{
		{kind: "n", raw: "\xc0\xa8\x01\x00", bits: 24}, {kind: "n", raw: "\xc0\xa8\x00\x00", bits: 16}, {kind: "n", raw: "\x0a\x00\x00\x00", bits: 8},
		{kind: "n", raw: "\xc0\xa8\x01\x04", bits: 30}, {kind: "n", raw: "\xc0\xa8\x01\x05", bits: 24}, {kind: "n", raw: "\x00\x00\x00\x00", bits: 0},
		{kind: "n", raw: "\xc0\xa8\x01\x05", bits: 32}, {kind: "n", raw: "\x0a\x01\x00\x00", bits: 16},
		{kind: "n", raw: c08V6("2001:db8::"), bits: 32}, {kind: "n", raw: c08V6("2001:db8::"), bits: 64}, {kind: "n", raw: c08V6("2001:db8::1"), bits: 128},
		{kind: "n", raw: c08V6("::"), bits: 0}, {kind: "n", raw: c08In6("\xc0\xa8\x01\x00"), bits: 120}, {kind: "n", raw: c08V6("fe80::"), bits: 10},
	}
}

func c08GenID(r *rand.Rand) c08ID {
	switch r.IntN(12) {
	case 0, 1, 2:
		return c08ID{kind: "i", raw: vutil.Pick(r, c08V4)}
	case 3:
		return c08ID{kind: "i", raw: vutil.Pick(r, c08V6s)}
	case 4:
		return c08ID{kind: "i", raw: c08In6(vutil.Pick(r, c08V4))}
	case 5, 6, 7:
		return vutil.Pick(r, c08Prefixes())
	case 8, 9:
		return c08ID{kind: "m", raw: vutil.Pick(r, c08MACs)}
	default:
		id := vutil.Pick(r, c08OwnCIDs)
		if r.IntN(8) == 0 {
			id = strings.ToUpper(id)
		}

		return c08ID{kind: "c", raw: id}
	}
}

func c08RuleFor(r *rand.Rand, name string) string {
	labels := strings.Split(name, ".")
	parent := name
	if len(labels) > 1 {
		parent = strings.Join(labels[1:], ".")
	}
	var s string
	switch r.IntN(24) {
	case 0, 1, 2, 3, 4:
		s = name
	case 5, 6, 7, 8:
		s = "||" + name + "^"
	case 9:
		s = "||" + parent + "^"
	case 10:
		s = "*." + parent
	case 11:
		s = "|" + name + "^"
	case 12:
		s = "|" + name + "|"
	case 13:
		s = name + "|"
	case 14:
		s = "@@||" + name + "^"
	case 15:
		s = "*" + labels[0] + "*"
	case 16:
		s = labels[0] + ".*"
	case 17:
		s = "||" + labels[0] + ".*^"
	case 18:
		s = "^" + name + "^"
	case 19:
		s = "." + parent
	case 20:
		s = "||" + name
	case 21:
		s = "|" + labels[0]
	case 22:
		s = "*" + name
	default:
		s = "||*." + parent + "^"
	}
	switch r.IntN(12) {
	case 0:
		s = strings.ToUpper(s)
	case 1:
		s = "  " + s + "\t"
	}

	return s
}

var c08OddRules = []string{
	"|.^", "|.^", "|.^", "", "! comment example.org", "# example.org", "||", "*", "|", "a", "ab", "||^", "|*|", "^", ".",
	"||.^", "*.*", "||*^", "***", "|.|", ".^", "||a^", "org", "|org^", "example.org\n||tracker.io^",
	"||example.org^|", "a|b", "||example.org^*", "-", "_", "||ex_ample.org^", "@@", "@@|.^", "!", "@@a",
}

func c08GenRules(r *rand.Rand) []string {
	n := 0
	switch r.IntN(6) {
	case 0:
		n = 0
	case 1, 2:
		n = 1
	case 3, 4:
		n = 1 + r.IntN(3)
	default:
		n = 2 + r.IntN(6)
	}
	out := make([]string, 0, n)
	for i := 0; i < n; i++ {
		if r.IntN(5) == 0 {
			out = append(out, vutil.Pick(r, c08OddRules))
		} else {
			out = append(out, c08RuleFor(r, vutil.Pick(r, c08Names)))
		}
	}

	return out
}

func c08GenQName(r *rand.Rand) string {
	if r.IntN(14) == 0 {
		return "."
	}
	name := vutil.Pick(r, c08Names)
	switch r.IntN(10) {
	case 0, 1:
		b := []byte(name)
		for i := range b {
			if r.IntN(2) == 0 && b[i] >= 'a' && b[i] <= 'z' {
				b[i] -= 32
			}
		}
		name = string(b)
	case 2:
		name = strings.ToUpper(name)
	case 3:
		name = "www." + name
	}
	switch r.IntN(12) {
	case 0:
		return name
	case 1:
		return name + ".."
	default:
		return name + "."
	}
}

func c08EmitStrings(out []string, l []string) []string {
	out = append(out, vutil.Itoa(len(l)))
	for _, s := range l {
		out = append(out, vutil.Hex(s))
	}

	return out
}

func c08Gen(r *rand.Rand, emit vutil.Emit) {
	blocks := vutil.N(300)
	fix := c08EnvBool("VERIF_C08_FIX", c08FixDefault)
	zoned := c08Zoned
	for b := 0; b < blocks; b++ {
		anon := r.IntN(2) == 0
		refuseAny := r.IntN(2) == 0
		qlogOn := r.IntN(12) != 0
		statsOn := r.IntN(12) != 0

		f := []string{vutil.B(anon), vutil.B(refuseAny), vutil.B(qlogOn), vutil.B(statsOn)}
		f = c08EmitStrings(f, c08GenRules(r))
		f = c08EmitStrings(f, c08GenRules(r))

		// Persistent clients: identifiers are drawn without replacement, except
		// in the occasional deliberately clashing table.
		nC := r.IntN(5)
		if r.IntN(4) == 0 {
			nC = 4 + r.IntN(4)
		}
		allowClash := r.IntN(25) == 0
		used := map[c08ID]bool{}
		// One zone per link-local address and block: the same address under two
		// zones in different clients is the indeterminate case of FindLoose.
		zoneOf := map[string]string{}
		var names []string
		var allIDs []c08ID
		f = append(f, vutil.Itoa(nC))
		for j := 0; j < nC; j++ {
			name := fmt.Sprintf("c%d", j)
			if allowClash && j > 0 && r.IntN(6) == 0 {
				name = "c0"
			}
			names = append(names, name)
			f = append(f, vutil.Hex(name), vutil.B(r.IntN(2) == 0), vutil.B(r.IntN(2) == 0))
			var ids []c08ID
			want := 1 + r.IntN(3)
			for tries := 0; len(ids) < want && tries < 20; tries++ {
				id := c08GenID(r)
				if zoned && r.IntN(4) == 0 {
					a := vutil.Pick(r, c08LinkLocal)
					if zoneOf[a] == "" {
						zoneOf[a] = vutil.Pick(r, c08Zones)
					}
					id = c08ID{kind: "z", raw: a, zone: zoneOf[a]}
				}
				key := id
				if id.kind == "c" {
					key.raw = strings.ToLower(id.raw)
				}
				if used[key] && !allowClash {
					continue
				}
				used[key] = true
				ids = append(ids, id)
			}
			if len(ids) == 0 {
				ids = append(ids, c08ID{kind: "c", raw: fmt.Sprintf("only-%d", j)})
			}
			f = append(f, vutil.Itoa(len(ids)))
			allIDs = append(allIDs, ids...)
			for _, id := range ids {
				third := vutil.Itoa(id.bits)
				if id.kind == "z" {
					third = vutil.Hex(id.zone)
				}
				f = append(f, id.kind, vutil.Hex(id.raw), third)
			}
		}

		// DHCP leases: address -> MAC.
		nL := r.IntN(4)
		f = append(f, vutil.Itoa(nL))
		seenL := map[string]bool{}
		for j := 0; j < nL; j++ {
			a := vutil.Pick(r, c08V4)
			if r.IntN(6) == 0 {
				a = vutil.Pick(r, c08V6s)
			}
			for seenL[a] {
				a = vutil.Pick(r, c08V4)
			}
			seenL[a] = true
			f = append(f, vutil.Hex(a), vutil.Hex(vutil.Pick(r, c08MACs)))
		}
		f = append(f, vutil.B(fix))

		// Disallowed clients (access settings): exact addresses incl. masked
		// forms, CIDRs, ClientIDs.
		nB := 0
		if r.IntN(2) == 0 {
			nB = 1 + r.IntN(3)
		}
		f = append(f, vutil.Itoa(nB))
		for j := 0; j < nB; j++ {
			var id c08ID
			switch r.IntN(6) {
			case 0, 1:
				id = c08ID{kind: "i", raw: vutil.Pick(r, c08V4)}
			case 2:
				id = c08ID{kind: "i", raw: vutil.Pick(r, c08V6s)}
			case 3, 4:
				id = vutil.Pick(r, c08Prefixes())
			default:
				id = c08ID{kind: "c", raw: vutil.Pick(r, c08OwnCIDs)}
			}
			f = append(f, id.kind, vutil.Hex(id.raw), vutil.Itoa(id.bits))
		}
		emit(append([]string{"C08.reset"}, f...)...)

		nOps := 8 + r.IntN(30)
		for k := 0; k < nOps; k++ {
			switch x := r.IntN(100); {
			case x < 59:
				qt := dns.TypeA
				switch r.IntN(8) {
				case 0:
					qt = dns.TypeANY
				case 1:
					qt = dns.TypeAAAA
				}
				cid := ""
				if r.IntN(5) < 2 {
					cid = vutil.Pick(r, c08CIDs)
				}
				zone := ""
				if r.IntN(6) == 0 {
					zone = vutil.Pick(r, []string{"eth0", "1", "wlan0"})
				}
				addr := c08Addr(r)
				if zoned && r.IntN(5) == 0 {
					// a link-local peer, mostly with a zone
					addr = vutil.Pick(r, c08LinkLocal)
					zone = vutil.Pick(r, []string{"eth0", "wlan0", "eth0", "wlan0", ""})
				}
				op := "C08.query"
				if r.IntN(120) == 0 {
					op = "C08.querylocked"
				}
				emit(op, vutil.Hex(c08GenQName(r)), vutil.Itoa(int(qt)), vutil.Hex(addr), vutil.Hex(cid), vutil.Hex(zone))
			case x < 62:
				// a runtime record (rDNS name and/or WHOIS) for an address of the pool
				a := vutil.Pick(r, c08V4)
				switch r.IntN(4) {
				case 0:
					a = vutil.Pick(r, c08V6s)
				case 1:
					a = c08Addr(r)
					if len(a) == 16 && strings.HasPrefix(a, c08In6("")) {
						a = a[12:]
					}
				}
				emit("C08.runtime", vutil.Hex(a), vutil.Hex(vutil.Pick(r, []string{"host-a.lan", "printer", "", "nas.local"})),
					vutil.Hex(vutil.Pick(r, []string{"", "ExampleOrg", ""})))
			case x < 70:
				emit("C08.flush")
			case x < 72:
				emit("C08.tick")
			case x < 74:
				emit("C08.restart")
			case x < 75:
				emit("C08.rotate")
			case x < 80:
				if r.IntN(3) == 0 {
					anon = !anon
				}
				if r.IntN(4) == 0 {
					emit("C08.qlogconfold", vutil.B(r.IntN(10) != 0), vutil.B(anon))

					break
				}
				g := []string{"C08.qlogconf", vutil.B(r.IntN(10) != 0), vutil.B(anon)}
				emit(c08EmitStrings(g, c08GenRules(r))...)
			case x < 84:
				g := []string{"C08.statsconf", vutil.B(r.IntN(10) != 0)}
				emit(c08EmitStrings(g, c08GenRules(r))...)
			case x < 88:
				name := "c9"
				if len(names) > 0 && r.IntN(10) != 0 {
					name = vutil.Pick(r, names)
				}
				emit("C08.setflags", vutil.Hex(name), vutil.B(r.IntN(2) == 0), vutil.B(r.IntN(2) == 0))
			case x < 90:
				name := "c9"
				if len(names) > 0 {
					name = vutil.Pick(r, names)
				}
				if r.IntN(3) != 0 {
					// an edit adding an identifier: one of another client (rejected), or any
					id := c08GenID(r)
					if len(allIDs) > 0 && r.IntN(2) == 0 {
						id = vutil.Pick(r, allIDs)
					}
					if id.kind == "z" {
						id = c08ID{kind: "c", raw: "edited"}
					}
					emit("C08.edit", vutil.Hex(name), id.kind, vutil.Hex(id.raw), vutil.Itoa(id.bits))

					break
				}
				emit("C08.rmclient", vutil.Hex(name))
			case x < 95:
				emit("C08.search")
			case x < 97:
				emit("C08.stats")
			default:
				g := c08EmitStrings([]string{"C08.has"}, c08GenRules(r))
				emit(append(g, vutil.Hex(c08GenQName(r)))...)
			}
		}
	}
	c08Drop()
}

func TestVerifC08(t *testing.T) {
	defer c08Drop()
	vutil.Main(t, c08Gen, c08Run)
}
