//go:build verif

package home

import (
	"fmt"
	"go/ast"
	"go/parser"
	"go/token"
	"math/rand/v2"
	"net/http"
	"net/netip"
	"net/http/httptest"
	"net/url"
	"os"
	"path/filepath"
	"runtime"
	"runtime/debug"
	"slices"
	"strings"
	"sync/atomic"
	"testing"
	"testing/synctest"
	"time"

	"github.com/AdguardTeam/AdGuardHome/internal/aghos"
	"github.com/AdguardTeam/AdGuardHome/internal/vutil"
	"github.com/AdguardTeam/golibs/httphdr"
	"github.com/AdguardTeam/golibs/netutil"
	"github.com/AdguardTeam/golibs/timeutil"
	"go.etcd.io/bbolt"
	"golang.org/x/crypto/bcrypt"
)

// One block (C12.reset … ) runs inside its own synctest bubble, so that every
// block starts at the bubble's epoch 2000-01-01T00:00:00Z and the real
// time.Now() calls in check/inc/newCookie/checkSession/loadSessions see the
// fake clock.  vutil.Main calls c12Run from the test goroutine; the lines are
// handed to the bubble through channels created outside of it.

type c12Cmd struct {
	f   []string
	res chan []string
}

var (
	c12T     *testing.T
	c12Cmds  chan c12Cmd // current bubble's input
	c12Done  chan struct{}
	c12Users []webUser
)

// c12Peers are the RemoteAddr values (TCP peers) of the login requests.
var c12Peers = []string{
	"10.0.0.1:1111", "10.0.0.2:2222", "192.168.1.7:80", "[::1]:8080",
	"[2001:db8::1]:443", "10.0.0.1:9999", "127.0.0.1:5000", "203.0.113.5:65535",
}

// c12Univ numbers every address (host string) a limiter key can be: the
// peers' hosts and the addresses put into proxy headers.
var c12Univ = []string{
	"10.0.0.1", "10.0.0.2", "192.168.1.7", "::1", "2001:db8::1", "127.0.0.1", "127.0.0.5", "203.0.113.5",
	"172.16.0.9", "::ffff:10.0.0.1", "2001:db8::2", "10.200.0.1",
}

// c12Trusted are the trusted_proxies settings a block runs with.
var c12Trusted = [][]string{
	{"127.0.0.0/8", "::1/128"}, // the default
	{"10.0.0.0/8", "2001:db8::/32"},
	{},
}

var c12Headers = []string{httphdr.CFConnectingIP, httphdr.TrueClientIP, httphdr.XRealIP, httphdr.XForwardedFor}

func c12UnivIdx(host string) int {
	for i, u := range c12Univ {
		if u == host {
			return i
		}
	}

	return -1
}

// c12PeerKey is the oracle for netutil.SplitHost(RemoteAddr).
func c12PeerKey(i int) int {
	h, err := netutil.SplitHost(c12Peers[i])
	if err != nil {
		panic(err)
	}

	return c12UnivIdx(h)
}

// c12Request builds the login request: peer, proxy headers by mask (bit i =
// c12Headers[i], bit 4 = a second X-Forwarded-For entry), h[i] = index of the
// address in header i.
func c12Request(body string, peer, mask int, h [4]int) (r *http.Request) {
	r = httptest.NewRequest(http.MethodPost, "/control/login", strings.NewReader(body))
	r.RemoteAddr = c12Peers[peer]
	for i, name := range c12Headers {
		if mask&(1<<i) == 0 {
			continue
		}
		v := c12Univ[h[i]]
		if i == 3 && mask&16 != 0 {
			v += ", 198.51.100.77"
		}
		r.Header.Set(name, v)
	}

	return r
}

// c12FixDefault is the code level of /repo that the model has as a switch, a
// number of two bits: bit 0 = /verif/fixes/c12/basic_auth_throttle.patch is in
// (HTTP Basic credentials go through the login rate limiter), bit 1 =
// /verif/fixes/c12/session_expiry_serial_compare.patch is in (known finding
// "uint32 session horizon").  "0" = neither, "1" = Basic-auth repair only,
// "2" = horizon repair only, "3" = both.  It is sent with every reset line;
// C12_FIX overrides it for a scratch tree.
const c12FixDefault = "1"

func c12Fix() string {
	if v := os.Getenv("C12_FIX"); v == "0" || v == "1" || v == "2" || v == "3" {
		return v
	}

	return c12FixDefault
}

const c12NoCookie = "00000000000000000000000000000000"

// c12Block is the state of one block, living inside the bubble.
type c12Block struct {
	dir    string
	floods int            // addresses used by C12.flood so far
	slots  map[int]string // slot -> cookie value
	tokIDs map[string]int // cookie value -> creation index
	ma, bm int
	ttl    int
	tp     int
}

func (b *c12Block) initUsers() {
	config.AuthAttempts = uint(b.ma)
	config.AuthBlockMin = uint(b.bm)
	config.HTTPConfig.SessionTTL = timeutil.Duration(time.Duration(b.ttl) * time.Second)
	config.Users = slices.Clone(c12Users)
	config.DNS.TrustedProxies = nil
	for _, p := range c12Trusted[b.tp] {
		config.DNS.TrustedProxies = append(config.DNS.TrustedProxies, netutil.Prefix{Prefix: netip.MustParsePrefix(p)})
	}
	globalContext.workDir = b.dir
	a, err := initUsers()
	if err != nil {
		panic(err)
	}
	globalContext.auth = a
}

func (b *c12Block) dump() (out []string) {
	a := globalContext.auth
	out = append(out, "R")
	if rl := a.rateLimiter; rl == nil {
		out = append(out, "off")
	} else {
		rl.failedAuthsLock.Lock()
		var rows [][3]int
		for k, v := range rl.failedAuths {
			idx := c12UnivIdx(k)
			if strings.HasPrefix(k, "100.") {
				idx = -2
			}
			rows = append(rows, [3]int{idx, int(v.until.UnixNano()), int(v.num)})
		}
		rl.failedAuthsLock.Unlock()
		// the addresses of floods (100.64.0.0/10) are only counted
		flood := 0
		rows = slices.DeleteFunc(rows, func(r [3]int) bool {
			if r[0] == -2 {
				flood++
			}

			return r[0] == -2
		})
		slices.SortFunc(rows, func(x, y [3]int) int { return x[0] - y[0] })
		out = append(out, vutil.Itoa(len(rows)))
		for _, r := range rows {
			out = append(out, vutil.Itoa(r[0]), vutil.Itoa(r[1]), vutil.Itoa(r[2]))
		}
		out = append(out, "F", vutil.Itoa(flood))
	}

	user := func(n string) string { return strings.TrimPrefix(n, "u") }
	type row struct {
		id     int
		expire uint32
		user   string
	}
	emit := func(tag string, rows []row) {
		slices.SortFunc(rows, func(x, y row) int { return x.id - y.id })
		out = append(out, tag, vutil.Itoa(len(rows)))
		for _, r := range rows {
			out = append(out, vutil.Itoa(r.id), vutil.Itoa(int(r.expire)), r.user)
		}
	}

	var mem []row
	a.lock.Lock()
	for k, s := range a.sessions {
		id, ok := b.tokIDs[k]
		if !ok {
			id = -1
		}
		mem = append(mem, row{id, s.expire, user(s.userName)})
	}
	a.lock.Unlock()
	emit("M", mem)

	// the bucket: raw record bytes
	type rawRow struct {
		id  int
		val string
	}
	var db []rawRow
	_ = a.db.View(func(tx *bbolt.Tx) error {
		bkt := tx.Bucket(bucketName())
		if bkt == nil {
			return nil
		}

		return bkt.ForEach(func(k, v []byte) error {
			id, ok := b.tokIDs[fmt.Sprintf("%x", k)]
			if !ok {
				id = -1
			}
			db = append(db, rawRow{id, vutil.Hex(string(v))})

			return nil
		})
	})
	slices.SortFunc(db, func(x, y rawRow) int { return x.id - y.id })
	out = append(out, "D", vutil.Itoa(len(db)))
	for _, r := range db {
		out = append(out, vutil.Itoa(r.id), r.val)
	}

	return out
}

func (b *c12Block) cookie(slot int) string {
	if v, ok := b.slots[slot]; ok {
		return v
	}

	return c12NoCookie
}

// exec runs one line inside the bubble.
func (b *c12Block) exec(f []string) (out []string) {
	switch f[0] {
	case "C12.sleep":
		time.Sleep(time.Duration(vutil.Atoi(f[1])))

		return []string{"ok"}
	case "C12.login":
		peer, mask := vutil.Atoi(f[1]), vutil.Atoi(f[3])
		h := [4]int{vutil.Atoi(f[4]), vutil.Atoi(f[5]), vutil.Atoi(f[6]), vutil.Atoi(f[7])}
		good, user, slot := f[10] == "1", vutil.Atoi(f[11]), vutil.Atoi(f[12])
		w := httptest.NewRecorder()
		globalContext.mux.ServeHTTP(w, c12LoginRequest(peer, mask, h, user, good))
		res := w.Result()
		retry, tok := "-", "-"
		if v := res.Header.Get("Retry-After"); v != "" {
			retry = v
		}
		for _, c := range res.Cookies() {
			if c.Name == sessionCookieName {
				if _, ok := b.tokIDs[c.Value]; !ok {
					b.tokIDs[c.Value] = len(b.tokIDs)
				}
				b.slots[slot] = c.Value
				tok = vutil.Itoa(b.tokIDs[c.Value])
			}
		}

		return append([]string{vutil.Itoa(res.StatusCode), retry, tok}, b.dump()...)
	case "C12.req":
		called := false
		h := optionalAuth(func(http.ResponseWriter, *http.Request) { called = true })
		r := httptest.NewRequest(http.MethodGet, "/control/status", nil)
		r.URL = &url.URL{Path: "/control/status"}
		r.AddCookie(&http.Cookie{Name: sessionCookieName, Value: b.cookie(vutil.Atoi(f[1]))})
		h(httptest.NewRecorder(), r)

		return append([]string{vutil.B(called)}, b.dump()...)
	case "C12.logout":
		r := httptest.NewRequest(http.MethodGet, "/control/logout", nil)
		r.AddCookie(&http.Cookie{Name: sessionCookieName, Value: b.cookie(vutil.Atoi(f[1]))})
		handleLogout(httptest.NewRecorder(), r)

		return append([]string{"ok"}, b.dump()...)
	case "C12.flood":
		// n failed logins from n fresh addresses, as far as the limiter is
		// concerned: what handleLogin + newCookie do to it for a wrong
		// password (check, not blocked, inc), without running bcrypt n times
		if rl := globalContext.auth.rateLimiter; rl != nil {
			for i, n := 0, vutil.Atoi(f[1]); i < n; i++ {
				k := b.floods
				b.floods++
				addr := fmt.Sprintf("100.%d.%d.%d", 64+k/65536, k/256%256, k%256)
				if rl.check(addr) <= 0 {
					rl.inc(addr)
				}
			}
		}

		return append([]string{"ok"}, b.dump()...)
	case "C12.heldprobe":
		// Is the password evaluated?  The harness holds Auth.lock, which
		// findUser needs: a request that evaluates parks there, one that is
		// refused by the limiter first is answered right away.
		form, peer, good, user := vutil.Atoi(f[1]), vutil.Atoi(f[2]), f[4] == "1", vutil.Atoi(f[5])
		a := globalContext.auth
		// GL mode makes authRequired answer without taking Auth.lock (no GL
		// cookie in the request, so nothing else changes)
		prevGL := GLMode
		GLMode = form == 1
		defer func() { GLMode = prevGL }()
		a.lock.Lock()
		done := make(chan struct{})
		called, code := false, 0
		go func() {
			defer close(done)
			if form == 0 {
				w := httptest.NewRecorder()
				globalContext.mux.ServeHTTP(w, c12LoginRequest(peer, 0, [4]int{}, user, false))
				code = w.Code

				return
			}
			h := optionalAuth(func(http.ResponseWriter, *http.Request) { called = true })
			r := httptest.NewRequest(http.MethodGet, "/control/status", nil)
			r.RemoteAddr = c12Peers[peer]
			pass := fmt.Sprintf("pass%d", user)
			if !good {
				pass = "wrong"
			}
			r.SetBasicAuth(fmt.Sprintf("u%d", user), pass)
			h(httptest.NewRecorder(), r)
		}()
		buf := make([]byte, 1<<18)
		evaluated := false
		for i := 0; i < 40000 && !evaluated; i++ {
			select {
			case <-done:
				i = 40000
			default:
				runtime.Gosched()
				evaluated = i%8 == 7 && c12Parked(buf, "home.(*Auth).findUser") > 0
			}
		}
		a.lock.Unlock()
		<-done
		res := vutil.B(called)
		if form == 0 {
			res = vutil.Itoa(code)
		}

		return append([]string{vutil.B(evaluated), res}, b.dump()...)
	case "C12.areq":
		// a request to a protected route: cookie form x Authorization form
		peer, ck, slot, ak, user := vutil.Atoi(f[1]), vutil.Atoi(f[3]), vutil.Atoi(f[4]), vutil.Atoi(f[5]), vutil.Atoi(f[6])
		called := false
		h := optionalAuth(func(http.ResponseWriter, *http.Request) { called = true })
		r := httptest.NewRequest(http.MethodGet, "/control/status", nil)
		r.RemoteAddr = c12Peers[peer]
		val := b.cookie(slot)
		bogus := fmt.Sprintf("%032x", 0xabc000+slot)
		add := func(name, v string) { r.AddCookie(&http.Cookie{Name: name, Value: v}) }
		switch ck {
		case 1:
			add(sessionCookieName, val)
		case 2:
			add(sessionCookieName, bogus)
		case 3:
			add(sessionCookieName, "zz"+val[2:31]) // not hex, odd length
		case 4:
			if up := strings.ToUpper(val); up != val {
				add(sessionCookieName, up)
			} else {
				add(sessionCookieName, bogus)
			}
		case 5:
			add(sessionCookieName, val)
			add(sessionCookieName, bogus)
		case 6:
			add(sessionCookieName, bogus)
			add(sessionCookieName, val)
		case 7:
			add("theme", "dark")
			add(sessionCookieName, val)
			add("agh_session2", bogus)
		}
		switch ak {
		case 1:
			r.SetBasicAuth(fmt.Sprintf("u%d", user), fmt.Sprintf("pass%d", user))
		case 2:
			r.SetBasicAuth(fmt.Sprintf("u%d", user), "wrong")
		case 3:
			r.SetBasicAuth("nobody", fmt.Sprintf("pass%d", user))
		case 4:
			r.Header.Set("Authorization", "Basic !!!not-base64!!!")
		case 5:
			r.Header.Set("Authorization", "Bearer "+val)
		case 6:
			r.SetBasicAuth("", fmt.Sprintf("pass%d", user))
		case 7:
			r.SetBasicAuth("", "")
		case 8:
			r.SetBasicAuth(fmt.Sprintf("U%d", user), fmt.Sprintf("pass%d", user))
		}
		h(httptest.NewRecorder(), r)

		return append([]string{vutil.B(called)}, b.dump()...)
	case "C12.basic":
		// a request without a cookie carrying HTTP Basic credentials
		peer, user, good := vutil.Atoi(f[1]), vutil.Atoi(f[3]), f[4] == "1"
		called := false
		h := optionalAuth(func(http.ResponseWriter, *http.Request) { called = true })
		r := httptest.NewRequest(http.MethodGet, "/control/status", nil)
		r.RemoteAddr = c12Peers[peer]
		pass := fmt.Sprintf("pass%d", user)
		if !good {
			pass = "wrong"
		}
		name := fmt.Sprintf("u%d", user)
		switch user {
		case 2:
			// no user name at all, a real user's password
			name, pass = "", "pass0"
		case 3:
			name, pass = "", ""
		case 4:
			// the name in another letter case, the right password
			name, pass = "U0", "pass0"
		}
		r.SetBasicAuth(name, pass)
		h(httptest.NewRecorder(), r)

		return append([]string{vutil.B(called)}, b.dump()...)
	case "C12.loginlock":
		// fact: is controlLock held while the registered login handler
		// evaluates the password?  (findUser needs a.lock, held here)
		a := globalContext.auth
		a.lock.Lock()
		done := make(chan struct{})
		go func() {
			defer close(done)
			globalContext.mux.ServeHTTP(httptest.NewRecorder(), c12LoginRequest(0, 0, [4]int{}, 0, false))
		}()
		buf := make([]byte, 1<<20)
		parked := false
		for i := 0; i < 200000 && !parked; i++ {
			runtime.Gosched()
			parked = i%8 == 7 && c12Parked(buf, "home.(*Auth).findUser") > 0
		}
		fact := "unknown"
		if parked {
			fact = "held"
			if globalContext.controlLock.TryLock() {
				globalContext.controlLock.Unlock()
				fact = "free"
			}
		}
		a.lock.Unlock()
		<-done

		return []string{fact}
	case "C12.burst":
		codes := c12Burst(vutil.Atoi(f[1]), vutil.Atoi(f[3]))
		n403, n429, other := 0, 0, 0
		for _, c := range codes {
			switch c {
			case http.StatusForbidden:
				n403++
			case http.StatusTooManyRequests:
				n429++
			default:
				other++
			}
		}

		return append([]string{vutil.Itoa(n403), vutil.Itoa(n429), vutil.Itoa(other)}, b.dump()...)
	case "C12.logoutrace":
		// A logout and a request with the same cookie overlap: the harness
		// holds bbolt's single writer, so the logout parks inside
		// removeSessionFromFile (whatever it has done before), then the
		// request runs (and parks in storeSession if it has to write), then
		// the writer is released.
		a := globalContext.auth
		cookie := b.cookie(vutil.Atoi(f[1]))
		tx, err := a.db.Begin(true)
		if err != nil {
			panic(err)
		}
		logoutDone, reqDone := make(chan struct{}), make(chan struct{})
		go func() {
			defer close(logoutDone)
			r := httptest.NewRequest(http.MethodGet, "/control/logout", nil)
			r.AddCookie(&http.Cookie{Name: sessionCookieName, Value: cookie})
			handleLogout(httptest.NewRecorder(), r)
		}()
		c12WaitParked(logoutDone, "removeSessionFromFile")
		called := false
		go func() {
			defer close(reqDone)
			h := optionalAuth(func(http.ResponseWriter, *http.Request) { called = true })
			r := httptest.NewRequest(http.MethodGet, "/control/status", nil)
			r.AddCookie(&http.Cookie{Name: sessionCookieName, Value: cookie})
			h(httptest.NewRecorder(), r)
		}()
		c12WaitParked(reqDone, "checkSession")
		_ = tx.Rollback()
		<-logoutDone
		<-reqDone

		return append([]string{vutil.B(called)}, b.dump()...)
	case "C12.dbfail":
		// the sessions file cannot be written any more (a read-only handle
		// stands for EIO / ENOSPC / a read-only file system) / can again
		a := globalContext.auth
		_ = a.db.Close()
		var opts *bbolt.Options
		if f[1] == "1" {
			opts = &bbolt.Options{ReadOnly: true}
		}
		db, err := bbolt.Open(filepath.Join(globalContext.getDataDir(), "sessions.db"), aghos.DefaultPermFile, opts)
		if err != nil {
			panic(err)
		}
		a.db = db

		return []string{"ok"}
	case "C12.restart":
		globalContext.auth.Close()
		b.initUsers()

		return append([]string{"ok"}, b.dump()...)
	default:
		panic("unknown op " + f[0])
	}
}

// c12Parked returns how many goroutines are parked on a mutex with every
// one of the given substrings in their stack.
func c12Parked(buf []byte, subs ...string) (n int) {
	k := runtime.Stack(buf, true)
	for _, g := range strings.Split(string(buf[:k]), "\n\n") {
		hdr, _, _ := strings.Cut(g, "\n")
		if !strings.Contains(hdr, "Mutex.Lock") {
			continue
		}
		ok := true
		for _, sub := range subs {
			ok = ok && strings.Contains(g, sub)
		}
		if ok {
			n++
		}
	}

	return n
}

// c12WaitParked spins until done is closed or some goroutine is parked on a
// mutex below the function fn of package home (i.e. waits for bbolt's writer).
func c12WaitParked(done chan struct{}, fn string) {
	buf := make([]byte, 1<<20)
	for i := 0; i < 200000; i++ {
		select {
		case <-done:
			return
		default:
		}
		runtime.Gosched()
		if i%8 == 7 && c12Parked(buf, "home.(*Auth)."+fn, "beginRWTx") > 0 {
			return
		}
	}
}

// c12LoginRequest is a POST /control/login as a browser sends it.
func c12LoginRequest(peer, mask int, h [4]int, user int, good bool) (r *http.Request) {
	pass := fmt.Sprintf("pass%d", user)
	if !good {
		pass = "wrong"
	}
	r = c12Request(fmt.Sprintf(`{"name":"u%d","password":%q}`, user, pass), peer, mask, h)
	r.Header.Set(httphdr.ContentType, "application/json")

	return r
}

// c12Burst posts k wrong passwords from one peer at once through the
// REGISTERED handler of /control/login.  a.lock is held meanwhile, so every
// request runs as far as it can (up to findUser, or up to a lock in front of
// the handler); then a.lock is released.  It returns the status codes.
func c12Burst(peer, k int) (codes []int) {
	a := globalContext.auth
	codes = make([]int, k)
	var finished atomic.Int32
	a.lock.Lock()
	done := make(chan struct{}, k)
	for i := 0; i < k; i++ {
		go func() {
			defer func() { finished.Add(1); done <- struct{}{} }()
			w := httptest.NewRecorder()
			globalContext.mux.ServeHTTP(w, c12LoginRequest(peer, 0, [4]int{}, 0, false))
			codes[i] = w.Code
		}()
	}
	buf := make([]byte, 1<<20)
	for i := 0; i < 200000; i++ {
		runtime.Gosched()
		if i%8 == 7 && c12Parked(buf, "internal/home.") + int(finished.Load()) >= k {
			break
		}
	}
	a.lock.Unlock()
	for i := 0; i < k; i++ {
		<-done
	}

	return codes
}

// c12CallOrder extracts two call-order facts from the sources: in handleLogin
// the limiter is asked (and its verdict returned on) before newCookie, the only
// call that evaluates the password; in newCookie the session is stored
// (addSession: map + file) before the cookie is built and returned.
func c12CallOrder() string {
	pos := func(file, fn string, match func(ast.Node) bool) (first token.Pos) {
		fset := token.NewFileSet()
		f, err := parser.ParseFile(fset, file, nil, 0)
		if err != nil {
			return token.NoPos
		}
		for _, d := range f.Decls {
			fd, ok := d.(*ast.FuncDecl)
			if !ok || fd.Name.Name != fn || fd.Body == nil {
				continue
			}
			ast.Inspect(fd.Body, func(n ast.Node) bool {
				if n != nil && first == token.NoPos && match(n) {
					first = n.Pos()
				}

				return true
			})
		}

		return first
	}
	call := func(name string) func(ast.Node) bool {
		return func(n ast.Node) bool {
			c, ok := n.(*ast.CallExpr)
			if !ok {
				return false
			}
			sel, ok := c.Fun.(*ast.SelectorExpr)

			return ok && sel.Sel.Name == name
		}
	}
	// the "if left := rateLimiter.check(...); left > 0 { ...; return }" statement
	isGate := func(n ast.Node) bool {
		st, ok := n.(*ast.IfStmt)
		if !ok {
			return false
		}
		hasCheck, hasReturn := false, false
		look := func(m ast.Node) bool { hasCheck = hasCheck || (m != nil && call("check")(m)); return true }
		if st.Init != nil {
			ast.Inspect(st.Init, look)
		}
		ast.Inspect(st.Cond, look)
		ast.Inspect(st.Body, func(m ast.Node) bool { _, r := m.(*ast.ReturnStmt); hasReturn = hasReturn || r; return true })

		return hasCheck && hasReturn
	}
	gate := pos("authhttp.go", "handleLogin", isGate)
	// checkBasicAuth: "if rateLimiter != nil && rateLimiter.check(ip) > 0 { return false }" before findUser
	bgate := pos("authhttp.go", "checkBasicAuth", isGate)
	beval := pos("authhttp.go", "checkBasicAuth", func(n ast.Node) bool {
		return call("findUser")(n) || call("CompareHashAndPassword")(n)
	})
	eval := pos("authhttp.go", "handleLogin", func(n ast.Node) bool {
		return call("newCookie")(n) || call("findUser")(n) || call("CompareHashAndPassword")(n)
	})
	store := pos("authhttp.go", "newCookie", call("addSession"))
	cookie := pos("authhttp.go", "newCookie", func(n ast.Node) bool {
		cl, ok := n.(*ast.CompositeLit)
		if !ok {
			return false
		}
		sel, ok := cl.Type.(*ast.SelectorExpr)

		return ok && sel.Sel.Name == "Cookie"
	})
	a, bb := "check?newCookie", "addSession?cookie"
	if gate != token.NoPos && eval != token.NoPos {
		a = "newCookie<check"
		if gate < eval {
			a = "check<newCookie"
		}
	}
	if store != token.NoPos && cookie != token.NoPos {
		bb = "cookie<addSession"
		if store < cookie {
			bb = "addSession<cookie"
		}
	}

	cc := "check?findUser"
	if beval != token.NoPos {
		cc = "findUser<check"
		if bgate != token.NoPos && bgate < beval {
			cc = "check<findUser"
		}
	}

	return a + ";" + bb + ";" + cc
}

// c12FindUserSites lists the functions of package home (non-test files) that
// call findUser.
func c12FindUserSites() string {
	fset := token.NewFileSet()
	pkgs, err := parser.ParseDir(fset, ".", func(fi os.FileInfo) bool { return !strings.HasSuffix(fi.Name(), "_test.go") }, 0)
	if err != nil {
		return "?"
	}
	seen := map[string]bool{}
	for _, pkg := range pkgs {
		for _, file := range pkg.Files {
			for _, d := range file.Decls {
				fd, ok := d.(*ast.FuncDecl)
				if !ok || fd.Body == nil {
					continue
				}
				ast.Inspect(fd.Body, func(n ast.Node) bool {
					c, isCall := n.(*ast.CallExpr)
					if !isCall {
						return true
					}
					if sel, isSel := c.Fun.(*ast.SelectorExpr); isSel && sel.Sel.Name == "findUser" {
						seen[fd.Name.Name] = true
					}

					return true
				})
			}
		}
	}
	var names []string
	for n := range seen {
		names = append(names, n)
	}
	slices.Sort(names)

	return strings.Join(names, " ")
}

// c12LogoutOrder extracts from the source of removeSession whether the map
// entry is deleted before the file entry.
func c12LogoutOrder() string {
	fset := token.NewFileSet()
	file, err := parser.ParseFile(fset, "auth.go", nil, 0)
	if err != nil {
		return "unknown:" + vutil.Hex(err.Error())
	}
	for _, d := range file.Decls {
		fd, ok := d.(*ast.FuncDecl)
		if !ok || fd.Name.Name != "removeSession" || fd.Body == nil {
			continue
		}
		memPos, filePos := token.NoPos, token.NoPos
		deferred := false
		ast.Inspect(fd.Body, func(n ast.Node) bool {
			switch x := n.(type) {
			case *ast.DeferStmt:
				if id, isID := x.Call.Fun.(*ast.Ident); isID && id.Name == "delete" {
					deferred = true
				}
			case *ast.CallExpr:
				switch fun := x.Fun.(type) {
				case *ast.Ident:
					if fun.Name == "delete" && memPos == token.NoPos {
						memPos = x.Pos()
					}
				case *ast.SelectorExpr:
					if fun.Sel.Name == "removeSessionFromFile" && filePos == token.NoPos {
						filePos = x.Pos()
					}
				}
			}

			return true
		})
		switch {
		case memPos == token.NoPos || filePos == token.NoPos || deferred:
			return "unknown"
		case memPos < filePos:
			return "memfirst"
		default:
			return "filefirst"
		}
	}

	return "unknown"
}

// c12Bubble serves one block.
func c12Bubble(first c12Cmd, cmds chan c12Cmd, done chan struct{}) {
	defer close(done)
	synctest.Test(c12T, func(t *testing.T) {
		dir, err := os.MkdirTemp("", "c12-*")
		if err != nil {
			panic(err)
		}
		defer func() { _ = os.RemoveAll(dir) }()
		if err = os.MkdirAll(filepath.Join(dir, dataDir), 0o755); err != nil {
			panic(err)
		}
		b := &c12Block{
			dir: dir, slots: map[int]string{}, tokIDs: map[string]int{},
			ma: vutil.Atoi(first.f[1]), bm: vutil.Atoi(first.f[2]), ttl: vutil.Atoi(first.f[3]), tp: vutil.Atoi(first.f[4]),
		}
		b.initUsers()
		defer func() { globalContext.auth.Close() }()
		if now := time.Now(); now.Unix() != 946684800 || now.Nanosecond() != 0 {
			panic(fmt.Sprintf("c12: unexpected bubble epoch %v", now))
		}
		first.res <- []string{"ok", c12Fix()}

		for c := range cmds {
			c.res <- func() (out []string) {
				defer func() {
					if v := recover(); v != nil {
						msg := fmt.Sprint(v)
						if os.Getenv("VERIF_STACK") != "" {
							msg += "\n" + string(debug.Stack())
						}
						out = []string{"PANIC", vutil.Hex(msg)}
					}
				}()

				return b.exec(c.f)
			}()
		}
	})
}

func c12EndBlock() {
	if c12Cmds != nil {
		close(c12Cmds)
		<-c12Done
		c12Cmds = nil
	}
}

func c12Run(f []string) []string {
	res := make(chan []string, 1)
	if f[0] == "C12.logoutorder" {
		return []string{c12LogoutOrder()}
	}
	if f[0] == "C12.callorder" {
		return []string{c12CallOrder()}
	}
	if f[0] == "C12.findusersites" {
		return []string{c12FindUserSites()}
	}
	if f[0] == "C12.reset" {
		c12EndBlock()
		c12Cmds, c12Done = make(chan c12Cmd), make(chan struct{})
		go c12Bubble(c12Cmd{f, res}, c12Cmds, c12Done)

		return <-res
	}
	if c12Cmds == nil {
		panic("c12: operation before reset")
	}
	c12Cmds <- c12Cmd{f, res}

	return <-res
}

func c12Gen(r *rand.Rand, emit vutil.Emit) {
	blocks := vutil.N(300)
	const sec = 1_000_000_000
	emit("C12.logoutorder")
	emit("C12.callorder")
	emit("C12.findusersites")
	emit("C12.reset", "5", "15", "3600", "0", c12Fix())
	emit("C12.loginlock")
	for b := 0; b < blocks; b++ {
		ma := 1 + r.IntN(5)
		bm := vutil.Pick(r, []int{1, 1, 2, 15})
		if r.IntN(25) == 0 {
			if r.IntN(2) == 0 {
				ma = 0
			} else {
				bm = 0
			}
		}
		ttl := vutil.Pick(r, []int{0, 1, 90, 3600, 3600, 86400, 90000, 2592000})
		tp := vutil.Pick(r, []int{0, 0, 1, 1, 2})
		emit("C12.reset", vutil.Itoa(ma), vutil.Itoa(bm), vutil.Itoa(ttl), vutil.Itoa(tp), c12Fix())
		var prefixes []netip.Prefix
		for _, p := range c12Trusted[tp] {
			prefixes = append(prefixes, netip.MustParsePrefix(p))
		}
		trusted := netutil.SliceSubnetSet(prefixes)

		// client profiles: how a client (peer) presents itself; the same
		// profile is reused so that its failures add up
		type profile struct {
			mask int
			h    [4]int
		}
		randProfile := func() (p profile) {
			switch r.IntN(5) {
			case 0, 1:
				// no proxy headers
			case 2:
				p.mask = 1 << r.IntN(4)
			default:
				p.mask = r.IntN(32)
			}
			for i := range p.h {
				p.h[i] = r.IntN(len(c12Univ))
			}

			return p
		}
		profiles := make([]profile, len(c12Peers))
		for i := range profiles {
			profiles[i] = randProfile()
			if r.IntN(4) == 0 {
				// the header names the peer itself
				k := c12PeerKey(i)
				profiles[i].h = [4]int{k, k, k, k}
			}
		}

		block := bm * 60 * sec
		sleeps := []int{0, 1, sec / 2, sec - 1, sec, 10 * sec, 20 * sec, 30 * sec, 59 * sec, 60*sec - 1, 60 * sec, 60*sec + 1, 61 * sec,
			block - sec, block - 1, block, block + 1, block + sec, block - 59*sec, ttl*sec - sec, ttl * sec, ttl*sec + sec, ttl * sec / 2,
			86400 * sec, 86400*sec - ttl*sec, 43200 * sec}
		extra := os.Getenv("VERIF_C12_EXTRA")
		faults := strings.Contains(extra, "faults")
		horizonK := 0
		if r.IntN(25) == 0 {
			// the uint32 horizon: start the block between 2^32-ttl-ish and
			// 2^32+ttl seconds (the clock wraps at 2106-02-07T06:28:16Z)
			k := vutil.Pick(r, []int{5000, 2000, ttl + 10, ttl/2 + 1, 100, 90000, 1, -ttl / 2, -ttl})
			emit("C12.sleep", vutil.Itoa((4294967296-946684800-k)*sec))
			horizonK = k
		}
		horizon := horizonK != 0
		hot := r.IntN(len(c12Peers))
		login := func(peer int, good bool, slot int) {
			p := profiles[peer]
			if r.IntN(6) == 0 {
				// header rotation: same peer, another story
				p = randProfile()
			}
			// oracles: realIP(r) and trustedProxies.Contains(realIP(r).Unmap())
			probe := c12Request("", peer, p.mask, p.h)
			probe.RemoteAddr = "192.0.2.254:1"
			hdrKey := 999
			ip, err := realIP(probe)
			if err != nil {
				panic(err)
			}
			if ip.String() != "192.0.2.254" {
				hdrKey = c12UnivIdx(ip.String())
			} else {
				ip = netip.MustParseAddr(c12Univ[c12PeerKey(peer)])
			}
			emit("C12.login", vutil.Itoa(peer), vutil.Itoa(c12PeerKey(peer)), vutil.Itoa(p.mask),
				vutil.Itoa(p.h[0]), vutil.Itoa(p.h[1]), vutil.Itoa(p.h[2]), vutil.Itoa(p.h[3]),
				vutil.Itoa(hdrKey), vutil.B(trusted.Contains(ip.Unmap())),
				vutil.B(good), vutil.Itoa(r.IntN(2)), vutil.Itoa(slot))
		}
		sleep := func(d int) {
			if d < 0 {
				d = 0
			}
			emit("C12.sleep", vutil.Itoa(d))
		}
		small := func() int { return vutil.Pick(r, []int{0, 1, sec / 2, sec, 3 * sec, 10 * sec, 20 * sec, 29 * sec}) }
		if horizon {
			// a session created before the clock wraps, used again after it
			slot := r.IntN(4)
			login(r.IntN(len(c12Peers)), true, slot)
			emit("C12.req", vutil.Itoa(slot))
			sleep(vutil.Pick(r, []int{horizonK*sec + sec, (horizonK + ttl + 1) * sec, (horizonK + 2*ttl) * sec, ttl*sec + sec, horizonK * sec}))
			if r.IntN(2) == 0 {
				emit("C12.restart")
			}
			emit("C12.req", vutil.Itoa(slot))
		}
		for seg, nseg := 0, 2+r.IntN(6); seg < nseg; seg++ {
			switch r.IntN(6) {
			case 0:
				if r.IntN(3) == 0 {
					// a burst of simultaneous wrong passwords from one address
					emit("C12.burst", vutil.Itoa(hot), vutil.Itoa(c12PeerKey(hot)), vutil.Itoa(2+r.IntN(11)))
					sleep(small())
				}
				// brute force: failures in quick succession, then probes
				// around the end of the block period
				for i, n := 0, ma+r.IntN(3); i < n; i++ {
					login(hot, r.IntN(12) == 0, r.IntN(4))
					sleep(small())
				}
				if r.IntN(2) == 0 {
					// is the password of a (probably blocked) address evaluated?
					emit("C12.heldprobe", vutil.Itoa(r.IntN(2)), vutil.Itoa(hot), vutil.Itoa(c12PeerKey(hot)), vutil.B(r.IntN(2) == 0),
						vutil.Itoa(r.IntN(2)))
				}
				if r.IntN(3) == 0 {
					// many other addresses fail meanwhile
					emit("C12.flood", vutil.Itoa(vutil.Pick(r, []int{10, 10, 1000, 1000, 1024, 1025, 1025, 1025, 5000})))
				}
				login(hot, true, r.IntN(4))
				// the address is blocked or close to it: credentials on a protected route
				for i, n := 0, r.IntN(4); i < n; i++ {
					emit("C12.areq", vutil.Itoa(hot), vutil.Itoa(c12PeerKey(hot)), vutil.Itoa(r.IntN(8)), vutil.Itoa(r.IntN(5)),
						vutil.Itoa(1+r.IntN(3)), vutil.Itoa(r.IntN(2)))
				}
				sleep(vutil.Pick(r, []int{block - 61*sec, block - 31*sec, block - 30*sec - 1, block, block / 2}))
				login(hot, r.IntN(2) == 0, r.IntN(4))
				sleep(vutil.Pick(r, []int{0, 1, sec, 30 * sec}))
				login(hot, r.IntN(2) == 0, r.IntN(4))
			case 1:
				// failures straddling the one-minute window of the first one
				for i, n := 0, 1+r.IntN(ma+1); i < n; i++ {
					login(hot, false, 0)
					sleep(vutil.Pick(r, []int{10 * sec, 20 * sec, 29 * sec, 30 * sec, 30*sec + 1, 31 * sec, 59 * sec, 60 * sec, 60*sec + 1}))
				}
				login(hot, r.IntN(3) == 0, r.IntN(4))
			case 2:
				// a session's life: use, expiry edge, restart, logout
				slot := r.IntN(4)
				login(r.IntN(len(c12Peers)), true, slot)
				for i, n := 0, 2+r.IntN(6); i < n; i++ {
					if faults && r.IntN(5) == 0 {
						emit("C12.dbfail", vutil.Itoa(r.IntN(2)))
					}
					switch r.IntN(9) {
					case 0:
						emit("C12.restart")
					case 8:
						// logout overlapping a request with the same cookie,
						// often the first authenticated one of a UTC day
						if r.IntN(2) == 0 {
							sleep(vutil.Pick(r, []int{86400 * sec, 43200 * sec, 86400*sec - ttl*sec, ttl * sec / 2}))
						}
						if faults {
							emit("C12.dbfail", "0")
						}
						emit("C12.logoutrace", vutil.Itoa(slot))
						if r.IntN(2) == 0 {
							emit("C12.restart")
						}
					case 1:
						emit("C12.logout", vutil.Itoa(slot))
					case 2, 3:
						sleep(vutil.Pick(r, []int{ttl*sec - sec, ttl*sec - 1, ttl * sec, ttl*sec + sec, ttl * sec / 2, ttl * sec / 3,
							86400 * sec, 86400*sec - ttl*sec, 86399 * sec, 43200 * sec, sec}))
					default:
						emit("C12.req", vutil.Itoa(slot))
					}
				}
				emit("C12.req", vutil.Itoa(slot))
			default:
				// random soup
				for i, n := 0, 3+r.IntN(12); i < n; i++ {
					switch k := r.IntN(100); {
					case k < 45:
						addr := hot
						if r.IntN(4) == 0 {
							addr = r.IntN(len(c12Peers))
						}
						login(addr, r.IntN(100) < 22, r.IntN(4))
					case k < 42:
						// a protected request: every cookie form x every Authorization form
						p := hot
						if r.IntN(3) == 0 {
							p = r.IntN(len(c12Peers))
						}
						emit("C12.areq", vutil.Itoa(p), vutil.Itoa(c12PeerKey(p)), vutil.Itoa(r.IntN(8)), vutil.Itoa(r.IntN(5)),
							vutil.Itoa(r.IntN(9)), vutil.Itoa(r.IntN(2)))
					case k < 50:
						// HTTP Basic credentials instead of a cookie
						p := hot
						if r.IntN(3) == 0 {
							p = r.IntN(len(c12Peers))
						}
						bu, bg := r.IntN(2), r.IntN(3) == 0
						if r.IntN(5) == 0 {
							// empty user name (with a real / an empty password), other letter case
							bu, bg = 2+r.IntN(3), false
						}
						emit("C12.basic", vutil.Itoa(p), vutil.Itoa(c12PeerKey(p)), vutil.Itoa(bu),
							vutil.B(bg), vutil.B(strings.Contains(extra, "basic") || c12Fix() == "1" || c12Fix() == "3"))
					case k < 62:
						emit("C12.req", vutil.Itoa(r.IntN(5)))
					case k < 68:
						emit("C12.logout", vutil.Itoa(r.IntN(5)))
					case k < 73:
						emit("C12.restart")
					default:
						d := vutil.Pick(r, sleeps)
						if r.IntN(3) == 0 {
							d = r.IntN(5 * sec)
						}
						sleep(d)
					}
				}
			}
		}
	}
}

func TestVerifC12(t *testing.T) {
	c12T = t
	for i := 0; i < 2; i++ {
		h, err := bcrypt.GenerateFromPassword([]byte(fmt.Sprintf("pass%d", i)), bcrypt.MinCost)
		if err != nil {
			t.Fatal(err)
		}
		c12Users = append(c12Users, webUser{Name: fmt.Sprintf("u%d", i), PasswordHash: string(h)})
	}
	// the registered handlers, as home.go sets them up
	globalContext.mux = http.NewServeMux()
	globalContext.web = &webAPI{}
	globalContext.firstRun = false
	RegisterAuthHandlers()
	defer c12EndBlock()
	vutil.Main(t, c12Gen, c12Run)
}
