//go:build verif

package home

import (
	"fmt"
	"math/rand/v2"
	"net/netip"
	"os"
	"path/filepath"
	"regexp"
	"sort"
	"strconv"
	"strings"
	"testing"

	"github.com/AdguardTeam/AdGuardHome/internal/configmigrate"
	"github.com/AdguardTeam/AdGuardHome/internal/vutil"
	yaml "gopkg.in/yaml.v3"
)

// C13.load: the clause "…which the current configuration loader accepts
// whenever the input was valid under its own schema".
//
// A case is a configuration file of some historical schema version.  The
// implementation side runs the REAL startup path parseConfig (read, upgrade,
// write back, yaml.Unmarshal into the default configuration, validateConfig,
// validateTLSCipherIDs) and classifies its verdict.  The model side
// (lean/AGH/Model/Loader.lean) starts after the two library stages: it gets,
// as oracle fields, whether the upgrade and the decoding succeeded and the
// values of the fields the validation reads, and computes the verdict; the spec
// (lean/AGH/Spec/Loader.lean) says what the verdict must be from the documented
// meaning of the settings.  `valid` is the generator's statement that the
// document is valid under its own schema.
//
//	C13.load body valid migrated unmarshalled httpValid httpPort nBind b1..bn dnsPort
//	         tlsEnabled portHTTPS portDoT portDoQ portDNSCrypt ciphersOK  =>  result
//
// result: ok | migrate | unmarshal | bindhttp | binddns:<i> | tcp:<p,…> | udp:<p,…> | ciphers | other:<hex>

var (
	c13lDir     string
	c13lDefault *configuration
)

// c13lFresh is a copy of the default configuration the way it is at startup.
func c13lFresh() (c *configuration) {
	cc := *c13lDefault
	if c13lDefault.HTTPConfig.Pprof != nil {
		p := *c13lDefault.HTTPConfig.Pprof
		cc.HTTPConfig.Pprof = &p
	}
	if c13lDefault.Filtering != nil {
		f := *c13lDefault.Filtering
		cc.Filtering = &f
	}
	cc.DNS.BindHosts = append([]netip.Addr(nil), c13lDefault.DNS.BindHosts...)
	cc.fileData = nil

	return &cc
}

var (
	c13lDupRe  = regexp.MustCompile(`validating (tcp|udp) ports: duplicated values: \[([0-9 ]*)\]`)
	c13lBindRe = regexp.MustCompile(`dns\.bind_hosts at index (\d+) is not a valid ip address`)
)

func c13lMigrate(body []byte) (nb []byte, err error) {
	m := configmigrate.New(&configmigrate.Config{WorkingDir: c13lDir, DataDir: filepath.Join(c13lDir, "data")})
	nb, _, err = m.Migrate(append([]byte(nil), body...), configmigrate.LastSchemaVersion)

	return nb, err
}

// c13lRun runs the real parseConfig on the body.
func c13lRun(f []string) (out []string) {
	if f[0] != "C13.load" {
		panic("unknown op " + f[0])
	}
	body := []byte(vutil.Unhex(f[1]))

	confPath := filepath.Join(c13lDir, "AdGuardHome.yaml")
	if err := os.WriteFile(confPath, body, 0o644); err != nil {
		panic(err)
	}

	oldConf, oldWorkDir, oldConfPath := config, globalContext.workDir, globalContext.confFilePath
	defer func() { config, globalContext.workDir, globalContext.confFilePath = oldConf, oldWorkDir, oldConfPath }()

	config = c13lFresh()
	globalContext.workDir = c13lDir
	globalContext.confFilePath = confPath

	err := parseConfig()
	if err == nil {
		return []string{"ok"}
	}

	msg := err.Error()
	switch {
	case c13lDupRe.MatchString(msg):
		m := c13lDupRe.FindStringSubmatch(msg)

		return []string{m[1] + ":" + strings.Join(strings.Fields(m[2]), ",")}
	case strings.Contains(msg, "http.address is not a valid ip address"):
		return []string{"bindhttp"}
	case c13lBindRe.MatchString(msg):
		return []string{"binddns:" + c13lBindRe.FindStringSubmatch(msg)[1]}
	case strings.Contains(msg, "override_tls_ciphers"):
		return []string{"ciphers"}
	case strings.Contains(msg, "writing new config"):
		return []string{"other:" + vutil.Hex(msg)}
	}
	// An error of one of the two library stages: which one?
	if _, merr := c13lMigrate(body); merr != nil {
		return []string{"migrate"}
	}

	return []string{"unmarshal"}
}

// c13lOracle computes the fields the model starts from.
func c13lOracle(body []byte) (fields []string) {
	nb, merr := c13lMigrate(body)
	c := c13lFresh()
	uerr := error(nil)
	if merr == nil {
		uerr = yaml.Unmarshal(nb, c)
	}

	fields = append(fields, vutil.B(merr == nil), vutil.B(merr == nil && uerr == nil))
	fields = append(fields, vutil.B(c.HTTPConfig.Address.IsValid()), strconv.Itoa(int(c.HTTPConfig.Address.Port())))
	fields = append(fields, strconv.Itoa(len(c.DNS.BindHosts)))
	for _, a := range c.DNS.BindHosts {
		fields = append(fields, vutil.B(a.IsValid()))
	}
	fields = append(fields, strconv.Itoa(int(c.DNS.Port)), vutil.B(c.TLS.Enabled),
		strconv.Itoa(int(c.TLS.PortHTTPS)), strconv.Itoa(int(c.TLS.PortDNSOverTLS)),
		strconv.Itoa(int(c.TLS.PortDNSOverQUIC)), strconv.Itoa(int(c.TLS.PortDNSCrypt)),
		vutil.B(validateTLSCipherIDs(c.TLS.OverrideTLSCiphers) == nil))

	return fields
}

func c13lEmit(emit vutil.Emit, body []byte, valid bool) {
	f := []string{"C13.load", vutil.Hex(string(body)), vutil.B(valid)}
	f = append(f, c13lOracle(body)...)
	emit(f...)
}

// ---------------------------------------------------------------- generator

// c13lGolden[v] is a valid document of schema version v (the repository's own
// golden files: vN/input.yml is of version N-1, vN/output.yml of version N).
var c13lGolden = map[int][]byte{}

func c13lLoadGoldens() {
	for n := 1; n <= 29; n++ {
		dir := filepath.Join("..", "configmigrate", "testdata", "TestMigrateConfig_Migrate", "v"+strconv.Itoa(n))
		if b, err := os.ReadFile(filepath.Join(dir, "input.yml")); err == nil {
			c13lGolden[n-1] = b
		}
		if b, err := os.ReadFile(filepath.Join(dir, "output.yml")); err == nil {
			if _, has := c13lGolden[n]; !has {
				c13lGolden[n] = b
			}
		}
	}
}

var (
	c13lPorts   = []int{0, 0, 53, 80, 443, 784, 853, 853, 3000, 5353, 5443, 8853, 65535}
	c13lHosts   = []string{"0.0.0.0", "127.0.0.1", "192.168.1.1", "::", "::1"}
	c13lCiphers = []string{"TLS_AES_128_GCM_SHA256", "TLS_ECDHE_RSA_WITH_AES_128_GCM_SHA256", "TLS_CHACHA20_POLY1305_SHA256"}
)

// c13lListeners is the generator's own reading of the documented meaning: a
// listener is active when its section is on and its port is not 0; two active
// listeners of one transport must not share a port.
func c13lClash(ports []int) bool {
	seen := map[int]bool{}
	for _, p := range ports {
		if p == 0 {
			continue
		}
		if seen[p] {
			return true
		}
		seen[p] = true
	}

	return false
}

// c13lGenDoc builds a document of a random schema version; valid reports
// whether every setting in it is valid and no two listeners clash.
func c13lGenDoc(r *rand.Rand) (body []byte, valid bool) {
	vers := make([]int, 0, len(c13lGolden))
	for v := range c13lGolden {
		vers = append(vers, v)
	}
	sort.Ints(vers)
	ver := vutil.Pick(r, vers)
	doc := map[string]any{}
	if err := yaml.Unmarshal(c13lGolden[ver], &doc); err != nil {
		panic(err)
	}
	valid = true
	// The password hash is slow and not what this harness is about.
	delete(doc, "auth_pass")
	delete(doc, "auth_name")

	sub := func(k string) map[string]any {
		m, _ := doc[k].(map[string]any)
		if m == nil {
			m = map[string]any{}
			doc[k] = m
		}

		return m
	}

	// the web interface
	httpPort := 3000
	switch x := r.IntN(10); {
	case x < 2:
		// keep what the golden file has / the default
		delete(doc, "http")
		delete(doc, "bind_host")
		delete(doc, "bind_port")
	default:
		host := vutil.Pick(r, c13lHosts)
		httpPort = vutil.Pick(r, c13lPorts)
		if r.IntN(25) == 0 {
			host, valid = vutil.Pick(r, []string{"localhost", "1.2.3", "256.1.1.1", ""}), false
		}
		if ver < 23 {
			doc["bind_host"], doc["bind_port"] = host, httpPort
			if r.IntN(40) == 0 {
				doc["bind_port"], valid = 70000, false
				httpPort = 70000 % 65536
			}
		} else {
			addr := host + ":" + strconv.Itoa(httpPort)
			if strings.Contains(host, ":") {
				addr = "[" + host + "]:" + strconv.Itoa(httpPort)
			}
			sub("http")["address"] = addr
			if r.IntN(40) == 0 {
				sub("http")["address"], valid = vutil.Pick(r, []string{":3000", "127.0.0.1", "127.0.0.1:70000"}), false
			}
		}
	}

	// plain DNS (the section is called coredns before schema version 2)
	dnsKey := "dns"
	if ver < 2 {
		dnsKey = "coredns"
		delete(doc, "dns")
	}
	dns := sub(dnsKey)
	dnsPort := 53
	if r.IntN(4) > 0 {
		dnsPort = vutil.Pick(r, c13lPorts)
		dns["port"] = dnsPort
		if r.IntN(40) == 0 {
			dns["port"], valid = vutil.Pick(r, []any{70000, -1, "53a"}), false
		}
	} else {
		delete(dns, "port")
	}
	if r.IntN(3) == 0 {
		hosts := []any{vutil.Pick(r, c13lHosts)}
		if r.IntN(3) == 0 {
			hosts = append(hosts, vutil.Pick(r, c13lHosts))
		}
		if r.IntN(20) == 0 {
			hosts, valid = append(hosts, vutil.Pick(r, []string{"not-an-ip", "1.2.3.4.5"})), false
		}
		if ver < 8 {
			dns["bind_host"] = hosts[0]
			delete(dns, "bind_hosts")
		} else {
			dns["bind_hosts"] = hosts
			delete(dns, "bind_host")
		}
	}
	if ver < 3 && r.IntN(3) == 0 {
		// a scalar before schema version 3, a list afterwards
		dns["bootstrap_dns"] = vutil.Pick(r, []string{"", "1.1.1.1", "8.8.8.8:53"})
	}
	if r.IntN(4) == 0 {
		dns["upstream_timeout"] = vutil.Pick(r, []string{"10s", "0s", "1m30s", "500ms"})
		if r.IntN(10) == 0 {
			dns["upstream_timeout"], valid = vutil.Pick(r, []any{"ten seconds", "10", []any{1}}), false
		}
	}
	if r.IntN(6) == 0 {
		key := "filters_update_interval"
		if ver >= 26 {
			sub("filtering")[key] = vutil.Pick(r, []int{0, 1, 5, 12, 24, 72, 168, 1000})
		} else {
			dns[key] = vutil.Pick(r, []int{0, 1, 5, 12, 24, 72, 168, 1000})
		}
	}

	// encryption
	tcp := []int{httpPort}
	udp := []int{dnsPort}
	if r.IntN(10) > 1 {
		tls := map[string]any{}
		enabled := r.IntN(3) > 0
		tls["enabled"] = enabled
		tls["server_name"] = "dns.example.org"
		tls["force_https"] = false
		ports := map[string]int{"port_https": 443, "port_dns_over_tls": 853, "port_dns_over_quic": 853, "port_dnscrypt": 0}
		for _, k := range []string{"port_https", "port_dns_over_tls", "port_dns_over_quic", "port_dnscrypt"} {
			switch x := r.IntN(10); {
			case x < 2:
				// absent: the default
			case x < 5:
				ports[k] = 0
				tls[k] = 0
			default:
				ports[k] = vutil.Pick(r, c13lPorts)
				tls[k] = ports[k]
			}
		}
		if r.IntN(50) == 0 {
			tls["port_https"], valid = vutil.Pick(r, []any{70000, "https", -443}), false
		}
		if r.IntN(8) == 0 {
			tls["override_tls_ciphers"] = []any{vutil.Pick(r, c13lCiphers), vutil.Pick(r, c13lCiphers)}
			if r.IntN(5) == 0 {
				tls["override_tls_ciphers"], valid = []any{"TLS_NOT_A_CIPHER"}, false
			}
		}
		doc["tls"] = tls
		if enabled {
			tcp = append(tcp, ports["port_https"], ports["port_dns_over_tls"], ports["port_dnscrypt"])
			udp = append(udp, ports["port_dns_over_quic"])
		}
	} else {
		delete(doc, "tls")
	}
	if c13lClash(tcp) || c13lClash(udp) {
		valid = false
	}

	// other settings the decoding can reject
	if r.IntN(6) == 0 {
		doc["users"] = []any{map[string]any{"name": "admin", "password": "$2a$10$abcdefghijklmnopqrstuv"}}
		if r.IntN(10) == 0 {
			doc["users"], valid = "admin", false
		}
	}
	if ver >= 20 && r.IntN(6) == 0 {
		sub("statistics")["interval"] = vutil.Pick(r, []string{"24h", "168h", "1h"})
		if r.IntN(10) == 0 {
			sub("statistics")["interval"], valid = "a day", false
		}
	}
	if ver >= 15 && r.IntN(6) == 0 {
		sub("querylog")["interval"] = vutil.Pick(r, []string{"2160h", "24h", "6h"})
		if r.IntN(10) == 0 {
			sub("querylog")["interval"], valid = "ninety days", false
		}
	}
	if r.IntN(5) == 0 {
		doc["verif_extra"] = map[string]any{"a": 1, "b": []any{"x"}}
	}

	body, err := yaml.Marshal(doc)
	if err != nil {
		panic(err)
	}

	return body, valid
}

func c13lGen(r *rand.Rand, emit vutil.Emit) {
	c13lLoadGoldens()
	if len(c13lGolden) == 0 {
		panic("no golden inputs found")
	}

	// every golden document as it is: valid by construction
	vers := make([]int, 0, len(c13lGolden))
	for v := range c13lGolden {
		vers = append(vers, v)
	}
	sort.Ints(vers)
	for _, v := range vers {
		doc := map[string]any{}
		if yaml.Unmarshal(c13lGolden[v], &doc) == nil {
			delete(doc, "auth_pass")
			b, _ := yaml.Marshal(doc)
			c13lEmit(emit, b, true)
		}
	}
	if os.Getenv("VERIF_C13L_GOLDEN_ONLY") != "" {
		return
	}

	n := vutil.N(1500)
	for i := 0; i < n; i++ {
		body, valid := c13lGenDoc(r)
		c13lEmit(emit, body, valid)
	}
}

func TestVerifC13Load(t *testing.T) {
	if os.Getenv("VERIF_OUT") != "" {
		c13lDir = t.TempDir()
		c13lDefault = config
	}
	vutil.Main(t, c13lGen, c13lRun)
	_ = fmt.Sprint
}
