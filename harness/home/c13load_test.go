//go:build verif

package home

import (
	"fmt"
	"math/rand/v2"
	"os"
	"path/filepath"
	"sort"
	"strconv"
	"testing"

	"github.com/AdguardTeam/AdGuardHome/internal/configmigrate"
	"github.com/AdguardTeam/AdGuardHome/internal/vutil"
	yaml "gopkg.in/yaml.v3"
)

// C13.load: the clause "the current configuration loader accepts the result
// whenever the input was valid under its own schema".  There is no formal
// schema of the 29 historical versions, so this is a test, not a theorem: the
// repository's own golden inputs (valid by construction), with mutations that
// keep a file valid (unknown extra keys at any level are ignored by the
// loader, every key of the old schemas is optional), are upgraded by the real
// Migrate and loaded the way parseConfig does (yaml.Unmarshal into the default
// configuration, validateConfig).
//
//	C13.load body valid  =>  result loadOK
//
// result: U upgraded, S nothing to do, E:<msg> error, P:<msg> panic;
// loadOK: 1, 0:<error>, or - when there is nothing to load.

var c13lDir string

func c13lLoad(body []byte) (res string) {
	defer func() {
		if v := recover(); v != nil {
			res = "0:" + vutil.Hex("panic: "+fmt.Sprint(v))
		}
	}()

	saved := config
	defer func() { config = saved }()

	c := *saved
	if saved.HTTPConfig.Pprof != nil {
		p := *saved.HTTPConfig.Pprof
		c.HTTPConfig.Pprof = &p
	}
	config = &c

	if err := yaml.Unmarshal(body, config); err != nil {
		return "0:" + vutil.Hex(err.Error())
	}
	if err := validateConfig(); err != nil {
		return "0:" + vutil.Hex(err.Error())
	}
	if err := validateTLSCipherIDs(config.TLS.OverrideTLSCiphers); err != nil {
		return "0:" + vutil.Hex(err.Error())
	}

	return "1"
}

func c13lRun(f []string) (out []string) {
	if f[0] != "C13.load" {
		panic("unknown op " + f[0])
	}
	body := []byte(vutil.Unhex(f[1]))

	var (
		nb       []byte
		upgraded bool
		err      error
	)
	func() {
		defer func() {
			if v := recover(); v != nil {
				out = []string{"P:" + vutil.Hex(fmt.Sprint(v)), "-"}
			}
		}()
		m := configmigrate.New(&configmigrate.Config{WorkingDir: c13lDir, DataDir: c13lDir})
		nb, upgraded, err = m.Migrate(body, configmigrate.LastSchemaVersion)
	}()
	switch {
	case out != nil:
		return out
	case err != nil:
		return []string{"E:" + vutil.Hex(err.Error()), "-"}
	case !upgraded:
		return []string{"S", c13lLoad(nb)}
	default:
		return []string{"U", c13lLoad(nb)}
	}
}

func c13lExtra(r *rand.Rand, depth int) any {
	switch r.IntN(7) {
	case 0:
		return nil
	case 1:
		return r.IntN(2) == 0
	case 2:
		return r.IntN(100000) - 5
	case 3:
		return vutil.Pick(r, []string{"", "x", "1.2.3.4", "quic://dns.example", "~", "123"})
	case 4:
		return 1.5
	case 5:
		if depth <= 0 {
			return []any{}
		}

		return []any{c13lExtra(r, depth-1), c13lExtra(r, depth-1)}
	default:
		if depth <= 0 {
			return map[string]any{}
		}

		return map[string]any{"verif_a": c13lExtra(r, depth-1), "verif_b": c13lExtra(r, depth-1)}
	}
}

// c13lMutate keeps the document valid: adds keys no schema knows, or removes a key.
func c13lMutate(r *rand.Rand, v any, depth int) {
	m, ok := v.(map[string]any)
	if !ok {
		return
	}
	keys := make([]string, 0, len(m))
	for k := range m {
		keys = append(keys, k)
	}
	sort.Strings(keys)
	switch r.IntN(4) {
	case 0:
		m["verif_extra_"+strconv.Itoa(r.IntN(3))] = c13lExtra(r, 2)
	case 1:
		if len(keys) > 0 && depth > 0 {
			k := keys[r.IntN(len(keys))]
			if k != "schema_version" {
				delete(m, k)
			}
		}
	default:
		if len(keys) > 0 {
			k := keys[r.IntN(len(keys))]
			switch c := m[k].(type) {
			case map[string]any:
				c13lMutate(r, c, depth+1)
			case []any:
				if len(c) > 0 {
					c13lMutate(r, c[r.IntN(len(c))], depth+1)
				}
			}
		}
	}
}

func c13lGen(r *rand.Rand, emit vutil.Emit) {
	paths, _ := filepath.Glob("../configmigrate/testdata/TestMigrateConfig_Migrate/*/input.yml")
	sort.Strings(paths)
	var goldens [][]byte
	for _, p := range paths {
		if b, err := os.ReadFile(p); err == nil {
			goldens = append(goldens, b)
		}
	}
	if len(goldens) == 0 {
		panic("no golden inputs found")
	}

	// every golden input as it is
	for _, g := range goldens {
		emit("C13.load", vutil.Hex(string(g)), "1")
	}

	n := vutil.N(300)
	for i := 0; i < n; i++ {
		g := vutil.Pick(r, goldens)
		doc := map[string]any{}
		if err := yaml.Unmarshal(g, &doc); err != nil {
			continue
		}
		for j := 1 + r.IntN(4); j > 0; j-- {
			c13lMutate(r, doc, 0)
		}
		b, err := yaml.Marshal(doc)
		if err != nil {
			continue
		}
		// The password hash is slow: keep it in one case out of ten.
		if r.IntN(10) > 0 {
			delete(doc, "auth_pass")
			b, _ = yaml.Marshal(doc)
		}
		emit("C13.load", vutil.Hex(string(b)), "1")
	}
}

func TestVerifC13Load(t *testing.T) {
	if os.Getenv("VERIF_OUT") != "" {
		c13lDir = t.TempDir()
	}
	vutil.Main(t, c13lGen, c13lRun)
}
