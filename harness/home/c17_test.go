//go:build verif

package home

import (
	"bytes"
	"encoding/json"
	"io"
	"math/rand/v2"
	"net/http"
	"net/http/httptest"
	"os"
	"path"
	"path/filepath"
	"strconv"
	"strings"
	"testing"

	"github.com/AdguardTeam/AdGuardHome/internal/filtering"
	"github.com/AdguardTeam/AdGuardHome/internal/vutil"
	"github.com/AdguardTeam/golibs/log"
)

// C17 harness in package home: the filtering module gets the HTTP client
// exactly as home builds it (httpClient), and lists whose locations are
// file-scheme URLs (or absolute paths, as controls) go through add_url,
// set_url and a forced refresh.  Canary files with unique rules are planted;
// the observation is which canary's content ended up in the data directory.

const c17hRoot = "/tmp/vc17h"

var c17hFiles = map[string]string{
	c17hRoot + "/canary.txt":  "||canary-vc17h.example^\n",
	c17hRoot + "/safe/ok.txt": "||ok-vc17h.example^\n",
}

const c17hOld = "||old-vc17h.example^\n"

func c17hSetup() {
	log.SetOutput(io.Discard)
	for p, body := range c17hFiles {
		if err := os.MkdirAll(filepath.Dir(p), 0o755); err != nil {
			panic(err)
		}
		if err := os.WriteFile(p, []byte(body), 0o644); err != nil {
			panic(err)
		}
	}
}

func c17hRun(f []string) []string {
	op := f[0]
	n := vutil.Atoi(f[1])
	var pats []string
	for _, h := range f[2 : 2+n] {
		pats = append(pats, vutil.Unhex(h))
	}
	loc := vutil.Unhex(f[2+n])

	c17hSetup()
	dataDir := c17hRoot + "/data"
	_ = os.RemoveAll(dataDir)
	if err := os.MkdirAll(filepath.Join(dataDir, "filters"), 0o755); err != nil {
		panic(err)
	}
	handlers := map[string]http.HandlerFunc{}
	conf := &filtering.Config{
		FilteringEnabled: true,
		SafeFSPatterns:   pats,
		// the client of the real server
		HTTPClient:     httpClient(&tlsManager{}),
		ConfigModified: func() {},
		DataDir:        dataDir,
		HTTPRegister:   func(_, url string, h http.HandlerFunc) { handlers[url] = h },
	}
	if op != "C17.hadd" {
		url := loc
		if op == "C17.hseturl" {
			url = "http://lists.invalid/h0.txt"
		}
		conf.Filters = []filtering.FilterYAML{{Enabled: true, URL: url, Name: "l", Filter: filtering.Filter{ID: 1}}}
		if err := os.WriteFile(filepath.Join(dataDir, "filters", "1.txt"), []byte(c17hOld), 0o644); err != nil {
			panic(err)
		}
	}
	d, err := filtering.New(conf, nil)
	if err != nil {
		return []string{"conferr"}
	}
	d.Start()
	defer d.Close()

	post := func(url string, body any) {
		b, merr := json.Marshal(body)
		if merr != nil {
			panic(merr)
		}
		h, ok := handlers[url]
		if !ok {
			panic("handler not registered: " + url)
		}
		r := httptest.NewRequest(http.MethodPost, "http://agh.example"+url, bytes.NewReader(b))
		r.Header.Set("Content-Type", "application/json")
		h(httptest.NewRecorder(), r)
	}
	func() {
		defer func() { _ = recover() }() // a bad-pattern panic reads nothing
		switch op {
		case "C17.hadd":
			post("/control/filtering/add_url", map[string]any{"name": "n", "url": loc})
		case "C17.hseturl":
			post("/control/filtering/set_url", map[string]any{
				"url": "http://lists.invalid/h0.txt", "data": map[string]any{"name": "n", "url": loc, "enabled": true},
			})
		case "C17.hrefresh":
			post("/control/filtering/refresh", map[string]any{"whitelist": false})
		default:
			panic("unknown op " + op)
		}
	}()

	ents, _ := os.ReadDir(filepath.Join(dataDir, "filters"))
	for _, e := range ents {
		data, rerr := os.ReadFile(filepath.Join(dataDir, "filters", e.Name()))
		if rerr != nil {
			continue
		}
		for p, body := range c17hFiles {
			if strings.Contains(string(data), strings.TrimSpace(body)) {
				return []string{"file", vutil.Hex(p)}
			}
		}
	}

	return []string{"none", "-"}
}

func c17hGen(r *rand.Rand, emit vutil.Emit) {
	c17hSetup()
	n := vutil.N(300)
	targets := []string{c17hRoot + "/canary.txt", c17hRoot + "/safe/ok.txt", c17hRoot + "/safe/../canary.txt",
		c17hRoot + "/safe/./ok.txt", c17hRoot + "//canary.txt", c17hRoot + "/nope.txt", c17hRoot + "/safe"}
	schemes := []string{"file://", "FILE://", "File://", "file:", "file://localhost", "file:///../..", "file:/", ""}
	patsets := [][]string{nil, {}, {c17hRoot + "/safe/*"}, {c17hRoot + "/*"}, {c17hRoot + "/safe/ok.txt"}, {"/*/*/*"}}
	for i := 0; i < n; i++ {
		op := vutil.Pick(r, []string{"C17.hadd", "C17.hseturl", "C17.hrefresh", "C17.hrefresh"})
		t := vutil.Pick(r, targets)
		sc := vutil.Pick(r, schemes)
		loc := sc + t
		if sc == "file:/" {
			loc = "file:" + t
		}
		pats := vutil.Pick(r, patsets)
		kind := "N"
		if strings.HasPrefix(loc, "/") {
			if st, err := os.Stat(path.Clean(loc)); err == nil {
				kind = "F"
				if st.IsDir() {
					kind = "D"
				}
			}
		}
		line := []string{op, strconv.Itoa(len(pats))}
		for _, p := range pats {
			line = append(line, vutil.Hex(p))
		}
		emit(append(line, vutil.Hex(loc), kind)...)
	}
}

func TestVerifC17Home(t *testing.T) {
	t.Cleanup(func() { _ = os.RemoveAll(c17hRoot) })
	vutil.Main(t, c17hGen, c17hRun)
}
