//go:build verif

package home

// Correspondence harness of property C11 (every admin endpoint is behind
// authentication).  It is compiled into internal/home by `go test -overlay`;
// /repo is not modified.
//
// The real admin mux is built the way the program builds it: newWebAPI (first
// run: "/", "/install.html", the install wizard routes), then what
// handleInstallConfigure / a normal start add: registerControlHandlers (with
// RegisterAuthHandlers), the TLS manager's and the clients container's
// registerWebHandlers, and the registration code of dnsforward, filtering,
// stats, querylog and dhcpd reached through their public constructors.  The
// callback given to those packages calls the real home.httpRegister with a
// stub in place of the package's handler, so that "the handler was entered" is
// observed exactly for them; the routes registered inside internal/home keep
// their real handlers (on skeletal receivers) and "entered" is everything that
// is not one of the wrappers' exact denial signatures.

import (
	"bufio"
	"context"
	"encoding/base64"
	"encoding/json"
	"fmt"
	"io"
	stdlog "log"
	"math/rand/v2"
	"net"
	"net/http"
	"net/http/httptest"
	"net/netip"
	"os"
	"path/filepath"
	"reflect"
	"sort"
	"strings"
	"sync"
	"testing"
	"testing/fstest"
	"time"

	"github.com/AdguardTeam/AdGuardHome/internal/aghhttp"
	"github.com/AdguardTeam/AdGuardHome/internal/dhcpd"
	"github.com/AdguardTeam/AdGuardHome/internal/dnsforward"
	"github.com/AdguardTeam/AdGuardHome/internal/filtering"
	"github.com/AdguardTeam/AdGuardHome/internal/querylog"
	"github.com/AdguardTeam/AdGuardHome/internal/stats"
	"github.com/AdguardTeam/AdGuardHome/internal/vutil"
	"github.com/AdguardTeam/golibs/log"
	"github.com/AdguardTeam/golibs/logutil/slogutil"
	"github.com/AdguardTeam/golibs/netutil"
	"github.com/AdguardTeam/golibs/timeutil"
	"github.com/NYTimes/gziphandler"
	"github.com/josharian/native"
	"golang.org/x/crypto/bcrypt"
)

const (
	c11User       = "admin"
	c11Password   = "correct horse"
	c11ValidTok   = "00112233445566778899aabbccddeeff"
	c11ExpiredTok = "ffeeddccbbaa99887766554433221100"
	c11UnknownTok = "0123456789abcdef0123456789abcdef"
)

// c11State is the state of the harness for one process.
type c11State struct {
	handler  http.Handler    // the mux behind the servers' middleware
	users    []webUser       // the configured administrator
	stubbed  map[string]bool // patterns registered with a stub handler
	entered  bool            // set by a stub handler
	patterns []string        // patterns registered on the real mux
	facts    []c11Fact       // extracted routes (may be empty when facts.json is missing)

	mu       sync.Mutex   // serialises the request in flight (client side and server goroutine)
	wireAddr string       // address of the real HTTP server
	wireObs  chan *c11Obs // serving-side observation of the request in flight

	stuck    int               // requests abandoned at the deadline
	glIssued map[string]string // router tokens planted by name -> "short" | "date:<n>"
}

type c11Fact struct {
	Pattern  string `json:"pattern"`
	Declared string `json:"declared"`
}

var c11 *c11State

// c11MuxPatterns reads the patterns registered on mux by walking its routing
// tree (net/http has no API for that; reading unexported fields with reflect
// is allowed).  Any surprise panics: a broken tie, not a silent default.
func c11MuxPatterns(mux *http.ServeMux) (pats []string) {
	seen := map[string]bool{}
	var node func(v reflect.Value)
	node = func(v reflect.Value) {
		if v.Kind() == reflect.Pointer {
			if v.IsNil() {
				return
			}
			v = v.Elem()
		}
		if p := v.FieldByName("pattern"); !p.IsNil() {
			s := p.Elem().FieldByName("str").String()
			if !seen[s] {
				seen[s] = true
				pats = append(pats, s)
			}
		}
		ch := v.FieldByName("children")
		for i, sl := 0, ch.FieldByName("s"); i < sl.Len(); i++ {
			node(sl.Index(i).FieldByName("value"))
		}
		if m := ch.FieldByName("m"); m.Kind() == reflect.Map && !m.IsNil() {
			it := m.MapRange()
			for it.Next() {
				node(it.Value())
			}
		}
		node(v.FieldByName("multiChild"))
		node(v.FieldByName("emptyChild"))
	}
	node(reflect.ValueOf(mux).Elem().FieldByName("tree"))
	sort.Strings(pats)

	return pats
}

// c11Build builds the real mux and the global state the wrappers read.
func c11Build(t *testing.T) *c11State {
	log.SetOutput(io.Discard)
	st := &c11State{stubbed: map[string]bool{}}
	dir, err := os.MkdirTemp("", "verif-c11-")
	if err != nil {
		t.Fatal(err)
	}
	t.Cleanup(func() { _ = os.RemoveAll(dir) })

	logger := slogutil.NewDiscardLogger()
	ctx := context.Background()

	hash, err := bcrypt.GenerateFromPassword([]byte(c11Password), bcrypt.MinCost)
	if err != nil {
		t.Fatal(err)
	}
	st.users = []webUser{{Name: c11User, PasswordHash: string(hash)}}

	globalContext.mux = http.NewServeMux()
	globalContext.firstRun = true
	globalContext.auth = InitAuth(filepath.Join(dir, "sessions.db"), st.users, 3600, nil, nil)
	if globalContext.auth == nil {
		t.Fatal("InitAuth failed")
	}
	globalContext.auth.db.NoSync = true

	clientFS := fstest.MapFS{
		"index.html":    {Data: []byte("<html>index</html>")},
		"login.html":    {Data: []byte("<html>login</html>")},
		"login.js":      {Data: []byte("/* login */")},
		"install.html":  {Data: []byte("<html>install</html>")},
		"favicon.png":   {Data: []byte("png")},
		"assets/app.js": {Data: []byte("/* app */")},
		"assets/a/b.js": {Data: []byte("/* nested */")},
	}

	// A fresh installation: "/", "/install.html" and the wizard routes.
	web := newWebAPI(ctx, &webConfig{
		logger:        logger,
		baseLogger:    logger,
		clientFS:      clientFS,
		firstRun:      true,
		disableUpdate: true,
	})
	globalContext.web = web

	// What handleInstallConfigure and a normal start add.
	registerControlHandlers(web)
	var tlsMgr *tlsManager
	tlsMgr.registerWebHandlers()
	globalContext.clients.registerWebHandlers()

	// The other packages get a callback that is the real httpRegister with the
	// handler replaced by a stub.
	shim := aghhttp.RegisterFunc(func(method, url string, _ http.HandlerFunc) {
		st.stubbed[url] = true
		httpRegister(method, url, func(w http.ResponseWriter, _ *http.Request) {
			st.entered = true
			w.WriteHeader(http.StatusOK)
			_, _ = io.WriteString(w, "stub")
		})
	})

	flt, err := filtering.New(&filtering.Config{
		DataDir:              dir,
		BlockingMode:         filtering.BlockingModeDefault,
		HTTPRegister:         shim,
		ConfigModified:       func() {},
		BlockedServices:      &filtering.BlockedServices{},
		ApplyClientFiltering: func(_ string, _ netip.Addr, _ *filtering.Settings) {},
	}, nil)
	if err != nil {
		t.Fatalf("filtering.New: %v", err)
	}
	flt.RegisterFilteringHandlers()

	sts, err := stats.New(stats.Config{
		Logger:            logger,
		Filename:          filepath.Join(dir, "stats.db"),
		Limit:             timeutil.Day,
		Enabled:           true,
		ShouldCountClient: func(_ []string) bool { return true },
		HTTPRegister:      shim,
		ConfigModified:    func() {},
	})
	if err != nil {
		t.Fatalf("stats.New: %v", err)
	}
	sts.Start()
	t.Cleanup(func() { _ = sts.Close() })

	ql, err := querylog.New(querylog.Config{
		Logger:         logger,
		BaseDir:        dir,
		RotationIvl:    timeutil.Day,
		MemSize:        100,
		Enabled:        true,
		FileEnabled:    false,
		HTTPRegister:   shim,
		ConfigModified: func() {},
		Anonymizer:     nil,
	})
	if err != nil {
		t.Fatalf("querylog.New: %v", err)
	}
	qctx, qcancel := context.WithCancel(ctx)
	t.Cleanup(qcancel)
	if err = ql.Start(qctx); err != nil {
		t.Fatalf("querylog.Start: %v", err)
	}

	_, err = dhcpd.Create(&dhcpd.ServerConfig{
		Enabled:        false,
		DataDir:        dir,
		HTTPRegister:   shim,
		ConfigModified: func() {},
	})
	if err != nil {
		t.Fatalf("dhcpd.Create: %v", err)
	}

	dns, err := dnsforward.NewServer(dnsforward.DNSCreateParams{
		DNSFilter:   flt,
		PrivateNets: netutil.SubnetSetFunc(netutil.IsLocallyServed),
		Logger:      logger,
	})
	if err != nil {
		t.Fatalf("dnsforward.NewServer: %v", err)
	}
	err = dns.Prepare(&dnsforward.ServerConfig{
		UDPListenAddrs: nil,
		TCPListenAddrs: nil,
		Config: dnsforward.Config{
			UpstreamDNS:      []string{"127.0.0.1:1"},
			UpstreamMode:     dnsforward.UpstreamModeLoadBalance,
			EDNSClientSubnet: &dnsforward.EDNSClientSubnet{},
			ClientsContainer: dnsforward.EmptyClientsContainer{},
		},
		TLSConf:       &dnsforward.TLSConfig{},
		HTTPRegister:  shim,
		ServePlainDNS: true,
	})
	if err != nil {
		t.Fatalf("dnsforward.Prepare: %v", err)
	}
	t.Cleanup(dns.Close)

	st.handler = withMiddlewares(globalContext.mux, limitRequestBody)
	st.patterns = c11MuxPatterns(globalContext.mux)

	factsPath := os.Getenv("VERIF_C11_FACTS")
	if factsPath == "" {
		factsPath = "/verif/build/C11/facts.json"
	}
	if data, rerr := os.ReadFile(factsPath); rerr == nil {
		var f struct {
			Routes []c11Fact `json:"routes"`
		}
		if jerr := json.Unmarshal(data, &f); jerr != nil {
			t.Fatalf("facts.json: %v", jerr)
		}
		st.facts = f.Routes
	}

	return st
}

// c11SetSessions (re)installs the session table: one valid, one expired token.
func c11SetSessions() {
	a := globalContext.auth
	now := uint32(time.Now().UTC().Unix())
	a.lock.Lock()
	defer a.lock.Unlock()
	a.sessions = map[string]*session{
		c11ValidTok:   {userName: c11User, expire: now + a.sessionTTL},
		c11ExpiredTok: {userName: c11User, expire: 1},
	}
}

// c11SetGlobals sets the two global flags the wrappers read.
func c11SetGlobals(firstRun, usersExist bool) {
	GLMode = false
	globalContext.firstRun = firstRun
	a := globalContext.auth
	a.lock.Lock()
	if usersExist {
		a.users = c11.users
	} else {
		a.users = nil
	}
	a.lock.Unlock()
	// A fresh login rate limiter for every request (checkBasicAuth counts the
	// failed Basic attempts of earlier requests otherwise); c11BlockAddrs blocks
	// the two remote addresses the requests come from.
	a.rateLimiter = newAuthRateLimiter(time.Hour, c11MaxAttempts)
	c11SetSessions()
}

const c11MaxAttempts = 3

// c11BlockAddrs makes the login rate limiter block the remote addresses of the
// in-process requests (httptest's 192.0.2.1) and of the TCP ones (loopback).
func c11BlockAddrs() {
	rl := globalContext.auth.rateLimiter
	for _, ip := range []string{"192.0.2.1", "127.0.0.1", "::1"} {
		for range c11MaxAttempts {
			rl.inc(ip)
		}
		if rl.check(ip) <= 0 {
			panic("rate limiter does not block " + ip)
		}
	}
}

// c11NoLimiter reports whether the line asks for a disabled login rate limiter
// (token "nolimiter" in its last field).
func c11NoLimiter(f []string) bool {
	return strings.Contains(","+f[len(f)-1]+",", ",nolimiter,") ||
		(len(f) > 2 && strings.Contains(","+f[len(f)-3]+",", ",nolimiter,"))
}

// c11Basic splits a basic class into the credentials class and "the remote
// address is blocked by the login rate limiter".
func c11Basic(class string) (basic string, blocked bool) {
	if b, ok := strings.CutSuffix(class, "blocked"); ok {
		return b, true
	}

	return class, false
}

// c11ParseLen decodes the body field of a line: "n" is a body of n bytes with a
// known length, "u<n>" a body of n bytes whose length is not announced
// (ContentLength -1: chunked transfer encoding, HTTP/2 without content-length).
func c11ParseLen(s string) (known bool, n int) {
	if rest, ok := strings.CutPrefix(s, "u"); ok {
		return false, vutil.Atoi(rest)
	}

	return true, vutil.Atoi(s)
}

// c11BodyBytes is never valid JSON: no handler that decodes its body goes any
// further.
func c11BodyBytes(n int) string {
	if n <= 0 {
		return ""
	}

	return "{" + strings.Repeat(" ", n-1)
}

// c11NewRequest builds an in-process request with the announced length.
func c11NewRequest(method, target, lenSpec string) (r *http.Request) {
	known, n := c11ParseLen(lenSpec)
	if known {
		var body io.Reader
		if n > 0 {
			body = strings.NewReader(c11BodyBytes(n))
		}
		r = httptest.NewRequest(method, target, body)
		if int(r.ContentLength) != n {
			panic(fmt.Sprintf("content length %d, want %d", r.ContentLength, n))
		}

		return r
	}

	// What net/http hands to a handler for a chunked request.
	r = httptest.NewRequest(method, target, io.NopCloser(strings.NewReader(c11BodyBytes(n))))
	r.ContentLength = -1
	r.TransferEncoding = []string{"chunked"}

	return r
}

// c11HdrTokens is the vocabulary of further request headers a line may ask
// for.  None of them may influence whether a handler is entered.
var c11HdrTokens = []string{
	"origin", "acrm", "acrh", "xrw", "xff", "xfproto", "xfhost", "xrealip", "upgrade", "bearer2",
	"ckother", "ck2valid", "ck2unknown", "cksplit", "gzip", "host", "referer", "secfetch",
	// not a header: the fixture runs with the login rate limiter disabled
	"nolimiter",
}

// c11GLRaw, when not nil, is the raw value of an Admin-Token cookie that
// c11Decorate puts in front of the other cookies (gl-inet cases only).
var c11GLRaw *string

// c11Decorate sets the credentials, the content type and the further headers
// (hdrs: "-" or a comma-separated list of c11HdrTokens) of a request.
func c11Decorate(r *http.Request, cookie, basic, ctype, hdrs string) {
	tok := map[string]bool{}
	if hdrs != "-" && hdrs != "" {
		for _, t := range strings.Split(hdrs, ",") {
			tok[t] = true
		}
	}

	// Cookies: the first agh_session value is the one that counts
	// (http.Request.Cookie); other names and later values must not matter.
	var cookies []string
	if c11GLRaw != nil {
		cookies = append(cookies, glCookieName+"="+*c11GLRaw)
	}
	if tok["ckother"] {
		cookies = append(cookies, "session="+c11ValidTok, "agh_sessionx="+c11ValidTok, "AGH_SESSION="+c11ValidTok)
	}
	switch cookie {
	case "none":
	case "unknown":
		cookies = append(cookies, sessionCookieName+"="+c11UnknownTok)
	case "expired":
		cookies = append(cookies, sessionCookieName+"="+c11ExpiredTok)
	case "valid":
		cookies = append(cookies, sessionCookieName+"="+c11ValidTok)
	default:
		panic("bad cookie class " + cookie)
	}
	if cookie != "none" {
		// A second value only after a first one: alone it would be the first.
		if tok["ck2valid"] {
			cookies = append(cookies, sessionCookieName+"="+c11ValidTok)
		}
		if tok["ck2unknown"] {
			cookies = append(cookies, sessionCookieName+"="+c11UnknownTok)
		}
	}
	switch {
	case len(cookies) == 0:
	case tok["cksplit"]:
		r.Header["Cookie"] = cookies
	default:
		r.Header.Set("Cookie", strings.Join(cookies, "; "))
	}

	basic, _ = c11Basic(basic)
	switch basic {
	case "none":
	case "right":
		r.SetBasicAuth(c11User, c11Password)
	case "wrong":
		r.SetBasicAuth(c11User, "wrong password")
	case "wronguser":
		r.SetBasicAuth("nobody", c11Password)
	case "emptypw":
		r.SetBasicAuth(c11User, "")
	case "malformed":
		r.Header.Set("Authorization", "Basic !!!not-base64")
	case "bearer":
		r.Header.Set("Authorization", "Bearer "+c11ValidTok)
	case "m-nopayload":
		r.Header.Set("Authorization", "Basic")
	case "m-b64":
		r.Header.Set("Authorization", "Basic ####")
	case "m-nocolon":
		r.Header.Set("Authorization", "Basic "+base64.StdEncoding.EncodeToString([]byte(c11User)))
	case "m-colons":
		r.Header.Set("Authorization", "Basic "+base64.StdEncoding.EncodeToString([]byte(c11User+":"+c11Password+":extra")))
	case "m-lower":
		r.Header.Set("Authorization", "basic "+base64.StdEncoding.EncodeToString([]byte(c11User+":"+c11Password)))
	case "m-twice":
		r.SetBasicAuth(c11User, "wrong password")
		r.Header.Add("Authorization", "Basic "+base64.StdEncoding.EncodeToString([]byte(c11User+":"+c11Password)))
	default:
		// u<U>p<P>: a user name form and a password form
		if len(basic) != 4 || basic[0] != 'u' || basic[2] != 'p' {
			panic("bad basic class " + basic)
		}
		users := map[byte]string{
			'r': c11User, 'c': "Admin", 'k': "nobody", 'e': "", 's': c11User + " ", 'l': strings.Repeat("a", 300),
		}
		passes := map[byte]string{'r': c11Password, 'w': "wrong password", 'e': "", 'l': strings.Repeat("a", 300)}
		u, okU := users[basic[1]]
		pw, okP := passes[basic[3]]
		if !okU || !okP {
			panic("bad basic class " + basic)
		}
		r.SetBasicAuth(u, pw)
	}
	if tok["bearer2"] {
		// A further Authorization value, after the first one if there is one.
		r.Header.Add("Authorization", "Bearer "+c11ValidTok)
	}
	if ctype != "" {
		r.Header.Set("Content-Type", ctype)
	}

	set := func(t, name, value string) {
		if tok[t] {
			r.Header.Set(name, value)
		}
	}
	set("origin", "Origin", "http://frontend.example")
	set("acrm", "Access-Control-Request-Method", "POST")
	set("acrh", "Access-Control-Request-Headers", "content-type, authorization")
	set("xrw", "X-Requested-With", "XMLHttpRequest")
	set("xff", "X-Forwarded-For", "127.0.0.1, 10.0.0.1")
	set("xfproto", "X-Forwarded-Proto", "https")
	set("xfhost", "X-Forwarded-Host", "localhost")
	set("xrealip", "X-Real-IP", "127.0.0.1")
	set("gzip", "Accept-Encoding", "gzip")
	set("referer", "Referer", "http://127.0.0.1/login.html")
	set("secfetch", "Sec-Fetch-Site", "same-origin")
	if tok["upgrade"] {
		r.Header.Set("Upgrade", "websocket")
		r.Header.Add("Connection", "Upgrade")
	}
	if tok["host"] {
		r.Host = "admin.example:8443"
	}
}

// c11Classify maps a recorded response to the outcome classes of the model.
// A denial by a wrapper has one of these exact signatures; anything else
// (including a recovered panic of a handler) means the registered handler was
// entered.
func c11Classify(method string, code int, hdr http.Header, body string, panicked bool) string {
	if panicked {
		return "ran"
	}
	switch code {
	case http.StatusForbidden:
		switch body {
		case "Forbidden":
			return "forbiddenAuth"
		case "Forbidden\n":
			return "forbiddenPre"
		}
	case http.StatusMethodNotAllowed:
		if strings.HasPrefix(body, "only method ") {
			return "methodNotAllowed"
		}
	case http.StatusUnsupportedMediaType:
		if strings.HasPrefix(body, "only content-type ") || strings.HasPrefix(body, "empty body with content-type ") {
			return "unsupportedMedia"
		}
	case http.StatusFound:
		// http.Redirect: html content type (and a body for GET) for GET and
		// HEAD, nothing otherwise; never a cookie.
		isGetHead := method == http.MethodGet || method == http.MethodHead
		sig := len(hdr.Values("Set-Cookie")) == 0
		if isGetHead {
			sig = sig && strings.HasPrefix(hdr.Get("Content-Type"), "text/html")
		} else {
			sig = sig && body == "" && hdr.Get("Content-Type") == ""
		}
		loc := hdr.Get("Location")
		switch {
		case !sig:
		case loc == "/login.html":
			return "redirLogin"
		case loc == "/install.html" || strings.HasSuffix(loc, "/install.html"):
			return "redirInstall"
		case loc == "/":
			return "redirDash"
		case strings.HasPrefix(loc, "http://") && GLMode:
			// glProcessRedirect: the router's own login page
			return "redirGL"
		}
	}

	return "ran"
}

// c11Deadline bounds one request: a handler that blocks has been entered.
const c11Deadline = 10 * time.Second

func c11ServeRecover(h http.Handler, rec http.ResponseWriter, r *http.Request) (panicked bool) {
	done := make(chan bool, 1)
	go func() {
		defer func() {
			if v := recover(); v != nil {
				done <- true

				return
			}
			done <- false
		}()
		h.ServeHTTP(rec, r)
	}()
	select {
	case p := <-done:
		return p
	case <-time.After(c11Deadline):
		// Still running: whatever blocks is past the wrappers' own answers (they
		// never wait) or is a wrapper waiting for a lock a handler holds.  The
		// goroutine is abandoned; the outcome counts as "handler entered".
		c11.stuck++
		if c11.stuck > 20 {
			panic("more than 20 requests did not finish within the deadline")
		}

		return true
	}
}

// c11Obs is what is observed on the serving side of one request.
type c11Obs struct {
	path     string // URL.Path as the handlers see it
	muxkind  string // route | muxredir | muxnotfound
	pat      string // the pattern ServeMux.Handler reports
	cl       int64  // the ContentLength the handlers see
	panicked bool
	entered  bool // a stub handler ran
}

// c11Observe asks the real mux who serves r, then serves r through the real
// handler stack.  c11.mu must be held.
func c11Observe(w http.ResponseWriter, r *http.Request) (o *c11Obs) {
	o = &c11Obs{path: r.URL.Path, muxkind: "route", cl: r.ContentLength}
	var h http.Handler
	h, o.pat = globalContext.mux.Handler(r)
	switch {
	case reflect.TypeOf(h).String() == "*http.redirectHandler":
		o.muxkind = "muxredir"
	case o.pat == "":
		o.muxkind = "muxnotfound"
	}

	c11.entered = false
	o.panicked = c11ServeRecover(c11.handler, w, r)
	o.entered = c11.entered

	return o
}

// fields turns the serving-side observation and the response into the
// implementation fields of a C11.req / C11.wire line.
func (o *c11Obs) fields(method string, code int, hdr http.Header, body string) []string {
	var kind string
	switch o.muxkind {
	case "muxredir":
		kind = "muxRedirect"
		if o.panicked || code/100 != 3 || o.entered {
			kind = "INCONSISTENT-mux-redirect"
		}
	case "muxnotfound":
		kind = "muxNotFound"
		if o.panicked || (code != http.StatusNotFound && code != http.StatusMethodNotAllowed) || o.entered {
			kind = "INCONSISTENT-mux-notfound"
		}
	default:
		kind = c11Classify(method, code, hdr, body, o.panicked)
		if c11.stubbed[o.pat] && (kind == "ran") != o.entered {
			// The signature-based classification disagrees with the stub's
			// ground truth.
			kind = fmt.Sprintf("INCONSISTENT-%s-entered=%v", kind, o.entered)
		}
	}

	return []string{
		vutil.Hex(o.path), o.muxkind, vutil.Hex(o.pat), kind,
		vutil.Itoa(code), vutil.Hex(hdr.Get("Location")), vutil.Itoa(int(o.cl)),
	}
}

// c11StartServer starts a real HTTP server around the same handler stack; the
// serving-side observation of each request is handed over on c11.wireObs.
func c11StartServer(t *testing.T) {
	c11.wireObs = make(chan *c11Obs, 1)
	srv := httptest.NewUnstartedServer(http.HandlerFunc(func(w http.ResponseWriter, r *http.Request) {
		c11.mu.Lock()
		defer c11.mu.Unlock()
		o := c11Observe(w, r)
		if o.panicked {
			// net/http would abort the connection; answer instead so that the
			// client side can tell a handler panic from a transport error.
			w.WriteHeader(http.StatusInternalServerError)
		}
		c11.wireObs <- o
	}))
	srv.Config.ErrorLog = stdlog.New(io.Discard, "", 0)
	srv.Start()
	t.Cleanup(srv.Close)
	c11.wireAddr = srv.Listener.Addr().String()
}

// c11Wire writes one HTTP/1.1 request byte by byte on a TCP connection: a body
// of unknown length really is a chunked body, and ContentLength is whatever
// net/http's server makes of it.
func c11Wire(method, target, cookie, basic, ctype, lenSpec, hdrs string) []string {
	if method == "" {
		panic("empty method on the wire")
	}
	hr := &http.Request{Header: http.Header{}, Host: c11.wireAddr}
	c11Decorate(hr, cookie, basic, ctype, hdrs)

	var sb strings.Builder
	fmt.Fprintf(&sb, "%s %s HTTP/1.1\r\nHost: %s\r\nConnection: close\r\n", method, target, hr.Host)
	for k, vs := range hr.Header {
		for _, v := range vs {
			fmt.Fprintf(&sb, "%s: %s\r\n", k, v)
		}
	}
	known, n := c11ParseLen(lenSpec)
	body := c11BodyBytes(n)
	switch {
	case known && n == 0:
		sb.WriteString("\r\n")
	case known:
		fmt.Fprintf(&sb, "Content-Length: %d\r\n\r\n%s", n, body)
	default:
		sb.WriteString("Transfer-Encoding: chunked\r\n\r\n")
		if n > 0 {
			fmt.Fprintf(&sb, "%x\r\n%s\r\n", n, body)
		}
		sb.WriteString("0\r\n\r\n")
	}

	conn, err := net.DialTimeout("tcp", c11.wireAddr, 5*time.Second)
	if err != nil {
		panic(err)
	}
	defer func() { _ = conn.Close() }()
	_ = conn.SetDeadline(time.Now().Add(10 * time.Second))
	if _, err = io.WriteString(conn, sb.String()); err != nil {
		panic(err)
	}
	resp, err := http.ReadResponse(bufio.NewReader(conn), &http.Request{Method: method})
	if err != nil {
		panic(fmt.Sprintf("reading response: %v", err))
	}
	respBody, _ := io.ReadAll(resp.Body)
	_ = resp.Body.Close()

	// The handler hands its observation over before the connection is closed: if
	// none is there once the response has been read, net/http answered by itself.
	select {
	case o := <-c11.wireObs:
		return o.fields(method, resp.StatusCode, resp.Header, string(respBody))
	case <-time.After(300 * time.Millisecond):
		panic(fmt.Sprintf("no serving-side observation (status %d)", resp.StatusCode))
	}
}

// c11Opt returns the optional field i of a line ("-" when absent: lines written
// before the field existed).
func c11Opt(f []string, i int) string {
	if i < len(f) {
		return f[i]
	}

	return "-"
}

// c11GLSetup plants the router's token directory: base/tok holds the tokens
// (glFilePrefix = base/tok/gl_token_), next to them and one level up lie files
// that are not tokens but whose first four bytes read as a fresh date.
func c11GLSetup(t *testing.T, base string) {
	tok := filepath.Join(base, "tok")
	if err := os.MkdirAll(filepath.Join(tok, "sub"), 0o755); err != nil {
		t.Fatal(err)
	}
	glFilePrefix = filepath.Join(tok, "gl_token_")
	now := uint32(time.Now().UTC().Unix())
	date := func(d uint32) []byte {
		b := make([]byte, 4)
		native.Endian.PutUint32(b, d)

		return b
	}
	c11.glIssued = map[string]string{}
	plant := func(name string, data []byte) {
		if err := os.WriteFile(glFilePrefix+name, data, 0o600); err != nil {
			t.Fatal(err)
		}
		if len(data) < 4 {
			c11.glIssued[name] = "short"
		} else {
			c11.glIssued[name] = "date:" + vutil.Itoa(int(native.Endian.Uint32(data)))
		}
	}
	plant("fresh", date(now))
	plant("future", date(now+86400*365))
	plant("long8", append(date(now), 1, 2, 3, 4))
	plant("old", date(now-2*glTokenTimeoutSeconds))
	plant("justold", date(now-glTokenTimeoutSeconds-600))
	plant("zero", date(0))
	plant("wrap", date(0xffffffff))
	plant("short", []byte{1, 2, 3})
	plant("empty", nil)
	plant("A-b_9.tok", date(now))

	// Not tokens.
	other := func(p string, data []byte) {
		if err := os.WriteFile(p, data, 0o644); err != nil {
			t.Fatal(err)
		}
	}
	other(filepath.Join(tok, "passwd"), []byte("root:x:0:0:root:/root:/bin/ash\n"))
	other(filepath.Join(tok, "secret"), date(now))
	other(filepath.Join(tok, "sub", "inner"), date(now))
	other(filepath.Join(base, "outside"), date(now))
	// A directory whose name starts with the token prefix (anybody who can
	// write to the token directory, /tmp on the router, can make one): through
	// it a value like dir/../secret reaches the other files.  Before 40971e7
	// such a value authenticated.
	if err := os.MkdirAll(glFilePrefix+"dir", 0o755); err != nil {
		t.Fatal(err)
	}
	other(filepath.Join(glFilePrefix+"dir", "inner"), date(now))
}

// c11GLStat is the harness's own look at the path glFilePrefix + value, the
// path the code is meant to ask the OS for.
func c11GLStat(value string) string {
	p := glFilePrefix + value
	if _, err := os.Stat(p); err != nil {
		return "missing"
	}
	data, err := os.ReadFile(p)
	if err != nil || len(data) < 4 {
		return "short"
	}

	return "date:" + vutil.Itoa(int(native.Endian.Uint32(data)))
}

// c11GLIssued is the token the router issued under exactly this name.
func c11GLIssued(value string) string {
	if v, ok := c11.glIssued[value]; ok {
		return v
	}

	return "missing"
}

// c11GLValues are Admin-Token values: names of issued tokens and hostile ones.
var c11GLValues = []string{
	"fresh", "future", "long8", "A-b_9.tok", "old", "justold", "zero", "wrap", "short", "empty",
	"missing", "", "FRESH", "fresh/", "fresh/.", "./fresh", "fresh/../fresh", "%66resh", "fresh%00",
	"x/../gl_token_fresh", "x/../passwd", "x/../secret", "x/../sub/inner", "x/../../outside",
	"x/../../tok/gl_token_fresh", "/../passwd", "/../gl_token_fresh", "../tok/passwd", "..", ".",
	"fresh/../passwd", "old/../gl_token_fresh", "missing/../secret", "sub/inner",
	"dir", "dir/inner", "dir/../passwd", "dir/../secret", "dir/../gl_token_fresh", "dir/../../outside",
	"dir/../gl_token_old", "x\\..\\passwd", "fresh fresh", "fresh,old",
}

// c11Run executes one line on the implementation.
func c11Run(f []string) []string {
	switch f[0] {
	case "C11.req":
		firstRun, usersExist := vutil.UnB(f[1]), vutil.UnB(f[2])
		method, target := vutil.Unhex(f[3]), vutil.Unhex(f[4])
		cookie, basic, ctype, lenSpec, hdrs := f[5], f[6], vutil.Unhex(f[7]), f[8], c11Opt(f, 9)

		c11.mu.Lock()
		defer c11.mu.Unlock()
		c11SetGlobals(firstRun, usersExist)
		if _, blocked := c11Basic(basic); blocked {
			c11BlockAddrs()
		} else if c11NoLimiter(f) {
			// auth_attempts / block_auth_min 0: the limiter is disabled
			globalContext.auth.rateLimiter = nil
		}
		r := c11NewRequest(method, target, lenSpec)
		c11Decorate(r, cookie, basic, ctype, hdrs)

		rec := httptest.NewRecorder()
		o := c11Observe(rec, r)

		return o.fields(method, rec.Code, rec.Header(), rec.Body.String())
	case "C11.gl":
		firstRun, usersExist := vutil.UnB(f[1]), vutil.UnB(f[2])
		method, target := vutil.Unhex(f[3]), vutil.Unhex(f[4])
		cookie, basic, ctype, lenSpec, hdrs := f[5], f[6], vutil.Unhex(f[7]), f[8], f[9]
		glRaw, host := f[10], vutil.Unhex(f[11])

		c11.mu.Lock()
		defer c11.mu.Unlock()
		c11SetGlobals(firstRun, usersExist)
		if _, blocked := c11Basic(basic); blocked {
			c11BlockAddrs()
		} else if c11NoLimiter(f) {
			// auth_attempts / block_auth_min 0: the limiter is disabled
			globalContext.auth.rateLimiter = nil
		}
		GLMode = true
		defer func() { GLMode = false }()

		r := c11NewRequest(method, target, lenSpec)
		if glRaw != "none" {
			v := vutil.Unhex(glRaw)
			c11GLRaw = &v
		}
		c11Decorate(r, cookie, basic, ctype, hdrs)
		c11GLRaw = nil
		r.Host = host

		// What net/http makes of the cookie, what the OS has under the path the
		// code is meant to build, and what the router issued under that name.
		seen, stat, issued := "none", "missing", "missing"
		if ck, err := r.Cookie(glCookieName); err == nil {
			seen, stat, issued = vutil.Hex(ck.Value), c11GLStat(ck.Value), c11GLIssued(ck.Value)
		}
		now := uint32(time.Now().UTC().Unix())

		rec := httptest.NewRecorder()
		o := c11Observe(rec, r)

		return append(o.fields(method, rec.Code, rec.Header(), rec.Body.String()),
			seen, stat, issued, vutil.Itoa(int(now)))
	case "C11.gltok":
		value := vutil.Unhex(f[1])

		c11.mu.Lock()
		defer c11.mu.Unlock()
		now := uint32(time.Now().UTC().Unix())
		res := glCheckToken(value)

		return []string{c11GLStat(value), c11GLIssued(value), vutil.Itoa(int(now)), vutil.B(res)}
	case "C11.start":
		// The start-up path: the real initUsers on a data directory whose
		// sessions.db is in state f[1], with or without administrators in the
		// configuration; then, if start-up goes on (run() stops on an error:
		// fatalOnError), one protected request without credentials.
		store := f[1]
		// The configured administrators: "0" none, "1" one with a well-formed
		// bcrypt hash, or a list with malformed hashes (plain text after a manual
		// reset, empty, truncated, wrong prefix), mixed and several users.
		good := c11.users[0]
		bad := func(name, hash string) webUser { return webUser{Name: name, PasswordHash: hash} }
		userLists := map[string][]webUser{
			"0":              nil,
			"1":              {good},
			"bad-plain":      {bad("root", "hunter2")},
			"bad-empty":      {bad("root", "")},
			"bad-trunc":      {bad("root", good.PasswordHash[:20])},
			"bad-prefix":     {bad("root", "$9z$"+good.PasswordHash[4:])},
			"mixed":          {good, bad("root", "hunter2")},
			"mixed-badfirst": {bad("root", ""), good},
			"several":        {good, bad("second", good.PasswordHash)},
			"allbad2":        {bad("root", "hunter2"), bad("admin2", "$2a$10$short")},
		}
		configured, known := userLists[f[2]]
		if !known {
			panic("bad user list " + f[2])
		}
		usersConfigured := len(configured) > 0

		c11.mu.Lock()
		defer c11.mu.Unlock()
		c11SetGlobals(false, true)

		work, err := os.MkdirTemp("", "verif-c11-start-")
		if err != nil {
			panic(err)
		}
		defer func() { _ = os.RemoveAll(work) }()
		data := filepath.Join(work, dataDir)
		if err = os.MkdirAll(data, 0o755); err != nil {
			panic(err)
		}
		sess := filepath.Join(data, "sessions.db")
		switch store {
		case "missing":
		case "fine":
			a := InitAuth(sess, nil, 3600, nil, nil)
			a.addSession([]byte("0123456789abcdef"), &session{userName: c11User, expire: uint32(time.Now().Unix()) + 3600})
			a.Close()
		case "empty":
			err = os.WriteFile(sess, nil, 0o644)
		case "garbage":
			b := make([]byte, 32768)
			for i := range b {
				b[i] = byte(i*131 + 7)
			}
			err = os.WriteFile(sess, b, 0o644)
		case "garbage-short":
			err = os.WriteFile(sess, []byte("not a database"), 0o644)
		case "truncated":
			a := InitAuth(sess, nil, 3600, nil, nil)
			a.Close()
			err = os.Truncate(sess, 5000)
		case "directory":
			err = os.MkdirAll(filepath.Join(sess, "x"), 0o755)
		default:
			panic("bad store state " + store)
		}
		if err != nil {
			panic(err)
		}

		prevAuth, prevWork, prevUsers := globalContext.auth, globalContext.workDir, config.Users
		defer func() {
			if a := globalContext.auth; a != nil && a != prevAuth {
				a.Close()
			}
			globalContext.auth, globalContext.workDir, config.Users = prevAuth, prevWork, prevUsers
		}()
		globalContext.workDir = work
		config.Users = nil
		if usersConfigured {
			config.Users = append([]webUser{}, configured...)
		}

		auth, ierr := initUsers()
		if ierr != nil {
			// run() ends here: fatalOnError(err).
			if auth != nil {
				auth.Close()
			}

			return []string{"0", "-", "-", "-"}
		}
		globalContext.auth = auth
		kept := "-"
		if auth != nil {
			kept = vutil.Itoa(len(auth.usersList()))
		}

		r := httptest.NewRequest(http.MethodGet, "/control/status", nil)
		rec := httptest.NewRecorder()
		o := c11Observe(rec, r)
		kind := o.fields(http.MethodGet, rec.Code, rec.Header(), rec.Body.String())[3]

		return []string{"1", vutil.B(auth == nil), kind, kept}
	case "C11.wire":
		firstRun, usersExist := vutil.UnB(f[1]), vutil.UnB(f[2])
		method, target := vutil.Unhex(f[3]), vutil.Unhex(f[4])
		cookie, basic, ctype, lenSpec, hdrs := f[5], f[6], vutil.Unhex(f[7]), f[8], c11Opt(f, 9)

		c11.mu.Lock()
		c11SetGlobals(firstRun, usersExist)
		if _, blocked := c11Basic(basic); blocked {
			c11BlockAddrs()
		} else if c11NoLimiter(f) {
			// auth_attempts / block_auth_min 0: the limiter is disabled
			globalContext.auth.rateLimiter = nil
		}
		c11.mu.Unlock()

		return c11Wire(method, target, cookie, basic, ctype, lenSpec, hdrs)
	case "C11.chain":
		chain := f[1]
		firstRun, usersExist := vutil.UnB(f[2]), vutil.UnB(f[3])
		method, path := vutil.Unhex(f[4]), vutil.Unhex(f[5])
		cookie, basic, ctype, lenSpec, hdrs := f[6], f[7], vutil.Unhex(f[8]), f[9], c11Opt(f, 10)

		c11.mu.Lock()
		defer c11.mu.Unlock()
		c11SetGlobals(firstRun, usersExist)
		if _, blocked := c11Basic(basic); blocked {
			c11BlockAddrs()
		} else if c11NoLimiter(f) {
			// auth_attempts / block_auth_min 0: the limiter is disabled
			globalContext.auth.rateLimiter = nil
		}
		entered := false
		var h http.Handler = http.HandlerFunc(func(w http.ResponseWriter, _ *http.Request) {
			entered = true
			w.WriteHeader(http.StatusOK)
		})
		var ws []string
		if chain != "-" {
			ws = strings.Split(chain, ",")
		}
		for i := len(ws) - 1; i >= 0; i-- {
			inner := h
			switch name, arg, _ := strings.Cut(ws[i], ":"); name {
			case "post":
				h = postInstallHandler(inner)
			case "pre":
				h = preInstallHandler(inner)
			case "auth":
				h = optionalAuthHandler(inner)
			case "gzip":
				h = gziphandler.GzipHandler(inner)
			case "ensure":
				h = ensureHandler(vutil.Unhex(arg), inner.ServeHTTP)
			default:
				panic("bad wrapper " + ws[i])
			}
		}
		r := c11NewRequest(method, "/", lenSpec)
		r.URL.Path = path
		c11Decorate(r, cookie, basic, ctype, hdrs)
		rec := httptest.NewRecorder()
		h.ServeHTTP(rec, r)
		kind := c11Classify(method, rec.Code, rec.Header(), rec.Body.String(), false)
		if (kind == "ran") != entered {
			kind = fmt.Sprintf("INCONSISTENT-%s-entered=%v", kind, entered)
		}

		return []string{kind}
	case "C11.public":
		return []string{vutil.B(isPublicResource(vutil.Unhex(f[1])))}
	case "C11.table":
		pat := vutil.Unhex(f[1])
		i := sort.SearchStrings(c11.patterns, pat)

		return []string{vutil.B(i < len(c11.patterns) && c11.patterns[i] == pat)}
	default:
		panic("unknown op " + f[0])
	}
}

var (
	c11Methods = []string{
		http.MethodGet, http.MethodPost, http.MethodPut, http.MethodDelete, http.MethodHead,
		http.MethodOptions, http.MethodPatch, "get", "CONNECT", http.MethodTrace, http.MethodOptions,
	}
	c11CTypes = []string{
		"", "application/json", "application/json; charset=utf-8", "application/x-www-form-urlencoded",
		"text/plain", "Application/JSON", "multipart/form-data", " application/json",
	}
	c11Cookies = []string{"none", "none", "none", "unknown", "expired", "valid", "valid"}
	c11Basics  = []string{
		"none", "none", "none", "none", "wrong", "right", "right", "wronguser", "emptypw", "malformed", "bearer",
		"rightblocked", "wrongblocked",
		"urpr", "urpr", "urpw", "urpe", "urpl", "ucpr", "ucpw", "ukpr", "ukpw", "uepr", "uepw", "uepe", "uepl",
		"uspr", "uspw", "ulpr", "ulpw", "ulpl", "ukpe", "uepe",
		"m-nopayload", "m-b64", "m-nocolon", "m-colons", "m-lower", "m-twice", "urprblocked", "ueprblocked",
	}
	c11Segs = []string{
		"", ".", "..", "control", "status", "assets", "login.html", "login.js", "login.", "index.html",
		"install.html", "install.js", "dns-query", "apple", "doh.mobileconfig", "x", "%2e%2e", "%2F", "%2e",
		"app.js", "a", "login", "stats", "CONTROL", "clients", "install", "configure", "favicon.png",
	}
	c11Fixed = []string{
		"/", "/index.html", "/login.html", "/login.js", "/login.", "/login", "/login.html/", "/login.html/x",
		"/assets/app.js", "/assets/", "/assets", "/assets/a/b.js", "/assets/../control/status",
		"/assets/..%2fcontrol%2fstatus", "/assets/%2e%2e/control/status", "/login.%2f..%2fcontrol%2fstatus",
		"/install.html", "/install.js", "/favicon.png", "/nonexistent", "/control", "/control/",
		"/control/nonexistent", "/dns-query", "/dns-query/", "/dns-query/client-1", "/dns-query/a/b",
		"/dns-queryx", "/apple/doh.mobileconfig", "/apple/dot.mobileconfig", "/apple/", "/apple/x.mobileconfig",
		"/control/login", "/control/login/", "/control/logout", "/control/install/configure",
		"/control/version.json", "/index.html/", "//", "/./", "/%2e", "/.%2e/control/status",
	}
)

// c11Spell returns a spelling of the path of pattern p.
func c11Spell(r *rand.Rand, p string) string {
	body := strings.TrimPrefix(p, "/")
	last := body
	if i := strings.LastIndex(body, "/"); i >= 0 {
		last = body[i+1:]
	}
	switch r.IntN(26) {
	case 0:
		return p + "/"
	case 1:
		return "/" + p
	case 2:
		return strings.Replace(p, "/", "/./", 1)
	case 3:
		return p + "/../" + last
	case 4:
		return strings.ToUpper(p)
	case 5:
		return "/x/%2e%2e" + p
	case 6:
		return "/x/.." + p
	case 7:
		if len(body) > 0 {
			return fmt.Sprintf("/%%%02x%s", body[0], body[1:])
		}
	case 8:
		return p + "?x=1&agh_session=" + c11ValidTok
	case 9:
		return p + "/extra"
	case 10:
		return "/assets/.." + p
	case 11:
		return "/assets/..%2f" + body
	case 12:
		return "/login.html/.." + p
	case 13:
		return strings.Replace(p, "/", "//", 2)
	case 14:
		return p + "%2f"
	case 15:
		return p + "/."
	case 16:
		return "/." + p
	}

	return p
}

func c11Soup(r *rand.Rand) string {
	n := 1 + r.IntN(4)
	var sb strings.Builder
	for range n {
		sb.WriteByte('/')
		sb.WriteString(vutil.Pick(r, c11Segs))
	}
	if r.IntN(5) == 0 {
		sb.WriteByte('/')
	}

	return sb.String()
}

// c11ValidTarget reports whether net/http accepts the request line.
func c11ValidTarget(method, target string) (ok bool) {
	defer func() {
		if recover() != nil {
			ok = false
		}
	}()
	_ = httptest.NewRequest(method, target, nil)

	return true
}

func c11GenChain(r *rand.Rand) string {
	pool := []string{
		"post", "pre", "auth", "gzip",
		"ensure:" + vutil.Hex("GET"), "ensure:" + vutil.Hex("POST"), "ensure:" + vutil.Hex("PUT"),
		"ensure:" + vutil.Hex("DELETE"), "ensure:" + vutil.Hex("PATCH"), "ensure:" + vutil.Hex(""),
	}
	switch r.IntN(6) {
	case 0:
		return "post,auth,gzip," + vutil.Pick(r, pool[4:])
	case 1:
		return "post,auth,gzip"
	case 2:
		return "pre," + vutil.Pick(r, pool[4:])
	}
	n := r.IntN(5)
	if n == 0 {
		return "-"
	}
	// At most one ensure: two of them around a modifying method lock the
	// non-reentrant controlLock twice (no route of the program does that).
	ws := make([]string, n)
	hasEnsure := false
	for i := range ws {
		ws[i] = vutil.Pick(r, pool)
		if strings.HasPrefix(ws[i], "ensure:") {
			if hasEnsure {
				ws[i] = vutil.Pick(r, pool[:4])
			}
			hasEnsure = true
		}
	}

	// ensure is never outside the gate: with a modifying method it holds the
	// non-reentrant controlLock, which checkBasicAuth (07d17ef) takes again (no
	// route of the program has that order: C11_all_routes_gated).
	for i, w := range ws {
		if strings.HasPrefix(w, "ensure:") {
			for _, later := range ws[i+1:] {
				if later == "auth" {
					ws = append(append(append([]string{}, ws[:i]...), ws[i+1:]...), w)

					break
				}
			}

			break
		}
	}

	return strings.Join(ws, ",")
}

// c11GenHdrs picks the further headers of a request.
func c11GenHdrs(r *rand.Rand) string {
	var ts []string
	switch r.IntN(10) {
	case 0, 1, 2, 3, 4:
		return "-"
	case 5:
		// what a browser sends with a CORS preflight
		ts = []string{"origin", "acrm"}
		if r.IntN(2) == 0 {
			ts = append(ts, "acrh")
		}
	default:
		for _, t := range c11HdrTokens {
			if r.IntN(4) == 0 {
				ts = append(ts, t)
			}
		}
	}
	if len(ts) == 0 {
		return "-"
	}

	return strings.Join(ts, ",")
}

// c11LenSpec announces the length of a body of n bytes, or (1 in 4) does not.
func c11LenSpec(r *rand.Rand, n int) string {
	if r.IntN(4) == 0 {
		return "u" + vutil.Itoa(n)
	}

	return vutil.Itoa(n)
}

func c11Gen(r *rand.Rand, emit vutil.Emit) {
	n := vutil.N(30000)

	// Both directions of the route table: what the real mux holds and what the
	// extractor found.
	declared := map[string]string{}
	for _, f := range c11.facts {
		switch f.Declared {
		case http.MethodGet, http.MethodPost, http.MethodPut, http.MethodDelete, http.MethodPatch, http.MethodHead:
			declared[f.Pattern] = f.Declared
		default:
			// none, or "?" (the extractor could not tell)
			declared[f.Pattern] = ""
		}
	}
	union := map[string]bool{}
	for _, p := range c11.patterns {
		union[p] = true
	}
	for p := range declared {
		union[p] = true
	}
	var pats []string
	for p := range union {
		pats = append(pats, p)
	}
	sort.Strings(pats)
	for _, p := range pats {
		emit("C11.table", vutil.Hex(p))
	}
	emit("C11.table", vutil.Hex("/control/not-a-route"))

	// Every route without credentials, by its own path, with the request shape
	// most likely to reach the handler: the replay of a route that lost its
	// gate.
	for _, p := range pats {
		path := p
		if !strings.HasPrefix(path, "/") {
			continue
		}
		m := declared[p]
		if m == "" {
			m = http.MethodGet
		}
		for _, fr := range []string{"0", "1"} {
			emit("C11.req", fr, "1", vutil.Hex(m), vutil.Hex(path), "none", "none", "-", "0")
			emit("C11.req", fr, "1", vutil.Hex(m), vutil.Hex(path), "none", "none", vutil.Hex("application/json"), "2")
		}
		// The same without credentials but dressed up: as a CORS preflight, and
		// with every further header at once.
		for _, mm := range []string{http.MethodOptions, m, http.MethodHead, "TRACE"} {
			emit("C11.req", "0", "1", vutil.Hex(mm), vutil.Hex(path), "none", "none", "-", "0", "origin,acrm")
			emit("C11.req", "0", "1", vutil.Hex(mm), vutil.Hex(path), "none", "none", "-", "0", "origin,acrm,acrh")
			emit("C11.req", "0", "1", vutil.Hex(mm), vutil.Hex(path), "none", "bearer", "-", "0", strings.Join(c11HdrTokens, ","))
			emit("C11.req", "0", "1", vutil.Hex(mm), vutil.Hex(path), "unknown", "none", "-", "0", "ckother,ck2valid,cksplit,bearer2")
		}
		// Basic credentials that name no configured user, the empty name first.
		for _, b := range []string{"uepr", "uepe", "uepw", "ukpr", "ucpr", "uspr", "m-nocolon", "m-colons"} {
			emit("C11.req", "0", "1", vutil.Hex(m), vutil.Hex(path), "none", b, "-", "0", "-")
			emit("C11.req", "0", "1", vutil.Hex(m), vutil.Hex(path), "none", b, vutil.Hex("application/json"), "2", "nolimiter")
		}
		emit("C11.req", "0", "1", vutil.Hex(m), vutil.Hex(path), "none", "urpr", "-", "0", "nolimiter")
		emit("C11.wire", "0", "1", vutil.Hex(http.MethodOptions), vutil.Hex(path), "none", "none", "-", "0", "origin,acrm")
	}

	// State-changing routes, for the requests that go over a real connection.
	var changing []string
	for _, p := range pats {
		switch declared[p] {
		case http.MethodPost, http.MethodPut, http.MethodDelete:
			changing = append(changing, p)
		}
	}
	if len(changing) == 0 {
		changing = pats
	}
	// Every state-changing route, authenticated, with a body whose length is not
	// announced and every kind of content type: in process and over the wire.
	wireCTypes := []string{"", "application/json", "application/json; charset=utf-8", "application/x-www-form-urlencoded", "text/plain"}
	for _, p := range changing {
		for _, ct := range wireCTypes {
			for _, ls := range []string{"u0", "u2"} {
				emit("C11.req", "0", "1", vutil.Hex(declared[p]), vutil.Hex(p), "valid", "none", vutil.Hex(ct), ls)
			}
		}
		wm := declared[p]
		if wm == "" {
			wm = http.MethodPost
		}
		emit("C11.wire", "0", "1", vutil.Hex(wm), vutil.Hex(p), "valid", "none", "-", "u2")
		emit("C11.wire", "0", "1", vutil.Hex(wm), vutil.Hex(p), "none", "right", "-", "u0")
	}

	// gl-inet mode: every route x the token matrix without any other credential
	// (issued and fresh / expired / short / missing, no cookie, and values that
	// point at other existing files), then glCheckToken on raw byte strings.
	glHosts := []string{"router.lan:80", "router.lan", "192.168.8.1:3000", "[::1]:8080", ""}
	for _, p := range pats {
		m := declared[p]
		if m == "" {
			m = http.MethodGet
		}
		for _, v := range []string{
			"fresh", "old", "short", "missing", "x/../passwd", "x/../../outside", "dir/../secret", "dir/inner", "",
		} {
			emit("C11.gl", "0", "0", vutil.Hex(m), vutil.Hex(p), "none", "none", "-", "0", "-", vutil.Hex(v), vutil.Hex("router.lan:80"))
		}
		emit("C11.gl", "0", "0", vutil.Hex(m), vutil.Hex(p), "none", "none", "-", "0", "-", "none", vutil.Hex("router.lan:80"))
		emit("C11.gl", "1", "0", vutil.Hex(m), vutil.Hex(p), "none", "none", "-", "0", "-", vutil.Hex("fresh"), vutil.Hex("router.lan"))
	}
	for _, st := range []string{"missing", "fine", "empty", "garbage", "garbage-short", "truncated", "directory"} {
		for _, ul := range []string{
			"1", "0", "bad-plain", "bad-empty", "bad-trunc", "bad-prefix", "mixed", "mixed-badfirst", "several", "allbad2",
		} {
			emit("C11.start", st, ul)
		}
	}
	for _, v := range c11GLValues {
		emit("C11.gltok", vutil.Hex(v))
	}
	for _, v := range []string{"fresh\x00", "\x00", "fresh\x00/../passwd", strings.Repeat("a", 300), strings.Repeat("a", 5000), "x/" + strings.Repeat("../", 40) + "etc/passwd", "../../../../../../../../etc/passwd", "x/../../../../../../../../etc/passwd"} {
		emit("C11.gltok", vutil.Hex(v))
	}

	for i := 0; i < n; i++ {
		switch {
		case i%8 == 5:
			p := vutil.Pick(r, pats)
			var tgt string
			switch r.IntN(8) {
			case 0:
				tgt = vutil.Pick(r, c11Fixed)
			case 1:
				tgt = c11Spell(r, p)
			default:
				tgt = p
			}
			method := vutil.Pick(r, c11Methods)
			if declared[p] != "" && r.IntN(4) > 0 {
				method = declared[p]
			}
			if !c11ValidTarget(method, tgt) {
				continue
			}
			ctype, bodyLen := "", 0
			if r.IntN(3) == 0 {
				ctype, bodyLen = "application/json", 2
			}
			cookie, basic := "none", "none"
			if r.IntN(5) == 0 {
				cookie, basic = vutil.Pick(r, c11Cookies), vutil.Pick(r, c11Basics)
			}
			glRaw := "none"
			if r.IntN(8) > 0 {
				glRaw = vutil.Hex(vutil.Pick(r, c11GLValues))
			}
			// Basic credentials can only be "right" when the user exists.
			usersExist := r.IntN(2) == 0 || basic == "right"
			emit("C11.gl", vutil.B(r.IntN(15) == 0), vutil.B(usersExist), vutil.Hex(method), vutil.Hex(tgt),
				cookie, basic, vutil.Hex(ctype), vutil.Itoa(bodyLen), c11GenHdrs(r), glRaw, vutil.Hex(vutil.Pick(r, glHosts)))

			continue
		case i%20 == 19:
			p := vutil.Pick(r, changing)
			if r.IntN(3) == 0 {
				p = vutil.Pick(r, pats)
			}
			hdrs := c11GenHdrs(r)
			method := declared[p]
			if method == "" || r.IntN(5) == 0 || (strings.Contains(hdrs, "origin") && r.IntN(2) == 0) {
				// no HEAD here: its answers carry no body to classify
				method = vutil.Pick(r, []string{"GET", "POST", "PUT", "DELETE", "PATCH", "post", "OPTIONS", "OPTIONS", "TRACE"})
			}
			ls := vutil.Pick(r, []string{"0", "2", "u0", "u0", "u1", "u2", "u2", "u3"})
			cookie, basic := "valid", "none"
			if r.IntN(4) == 0 {
				cookie, basic = vutil.Pick(r, c11Cookies), vutil.Pick(r, c11Basics)
			}
			emit("C11.wire", vutil.B(r.IntN(20) == 0), vutil.B(r.IntN(10) > 0), vutil.Hex(method), vutil.Hex(p),
				cookie, basic, vutil.Hex(vutil.Pick(r, wireCTypes)), ls, hdrs)

			continue
		case i%12 == 11:
			var p string
			switch r.IntN(3) {
			case 0:
				p = vutil.Pick(r, c11Fixed)
			case 1:
				p = c11Soup(r)
			default:
				p = c11Spell(r, pats[r.IntN(len(pats))])
			}
			if !c11ValidTarget(http.MethodGet, p) {
				continue
			}
			u := httptest.NewRequest(http.MethodGet, p, nil).URL.Path
			emit("C11.public", vutil.Hex(u))

			continue
		case i%4 == 3:
			method := vutil.Pick(r, c11Methods[:7])
			if r.IntN(3) > 0 {
				method = vutil.Pick(r, []string{"GET", "POST", "PUT", "DELETE"})
			}
			var path string
			switch r.IntN(5) {
			case 0:
				path = vutil.Pick(r, c11Fixed)
			case 1:
				path = c11Soup(r)
			case 2:
				path = vutil.Pick(r, []string{
					"/login.html", "/", "/index.html", "/assets/app.js", "/login.js", "/install.html",
					"/assets/a/b.js", "/install.js", "/assets/", "/login.",
				})
			default:
				path = pats[r.IntN(len(pats))]
			}
			if i := strings.IndexByte(path, '?'); i >= 0 {
				path = path[:i]
			}
			ctype, bodyLen := vutil.Pick(r, c11CTypes), r.IntN(3)
			if r.IntN(2) == 0 {
				if r.IntN(2) == 0 {
					ctype, bodyLen = "", 0
				} else {
					ctype, bodyLen = "application/json", 1+r.IntN(3)
				}
			}
			hdrs := c11GenHdrs(r)
			if strings.Contains(hdrs, "origin") && r.IntN(2) == 0 {
				method = http.MethodOptions
			}
			emit("C11.chain", c11GenChain(r), vutil.B(r.IntN(6) == 0), vutil.B(r.IntN(6) > 0), vutil.Hex(method),
				vutil.Hex(path), vutil.Pick(r, c11Cookies), vutil.Pick(r, c11Basics), vutil.Hex(ctype), c11LenSpec(r, bodyLen), hdrs)

			continue
		}

		p := vutil.Pick(r, pats)
		decl := declared[p]
		var tgt string
		switch r.IntN(10) {
		case 0:
			tgt = vutil.Pick(r, c11Fixed)
		case 1:
			tgt = c11Soup(r)
		case 2, 3, 4:
			tgt = c11Spell(r, p)
		default:
			tgt = p
		}
		hdrs := c11GenHdrs(r)
		method := vutil.Pick(r, c11Methods)
		switch {
		case strings.Contains(hdrs, "origin") && r.IntN(2) == 0:
			method = http.MethodOptions
		case decl != "" && r.IntN(3) > 0:
			method = decl
		}
		ctype, bodyLen := vutil.Pick(r, c11CTypes), r.IntN(4)
		if r.IntN(2) == 0 {
			// the two accepted shapes
			if r.IntN(2) == 0 {
				ctype, bodyLen = "", 0
			} else {
				ctype, bodyLen = "application/json", 1+r.IntN(3)
			}
		}
		if !c11ValidTarget(method, tgt) {
			continue
		}
		firstRun := r.IntN(10) == 0
		usersExist := r.IntN(8) > 0
		emit("C11.req", vutil.B(firstRun), vutil.B(usersExist), vutil.Hex(method), vutil.Hex(tgt),
			vutil.Pick(r, c11Cookies), vutil.Pick(r, c11Basics), vutil.Hex(ctype), c11LenSpec(r, bodyLen), hdrs)
	}
}

func TestVerifC11(t *testing.T) {
	if os.Getenv("VERIF_OUT") == "" {
		t.Skip("VERIF_OUT not set; verification harness is driven by /verif/bin/check")
	}
	c11 = c11Build(t)
	c11StartServer(t)
	glBase, err := os.MkdirTemp("", "verif-c11-gl-")
	if err != nil {
		t.Fatal(err)
	}
	t.Cleanup(func() { _ = os.RemoveAll(glBase) })
	c11GLSetup(t, glBase)
	vutil.Main(t, c11Gen, c11Run)
}
