//go:build verif && linux

package home

import (
	"bytes"
	"context"
	"fmt"
	"math/rand/v2"
	"os"
	"path/filepath"
	"strconv"
	"strings"
	"testing"

	"github.com/AdguardTeam/AdGuardHome/internal/client"
	"github.com/AdguardTeam/AdGuardHome/internal/configmigrate"
	"github.com/AdguardTeam/AdGuardHome/internal/filtering"
	"github.com/AdguardTeam/AdGuardHome/internal/vc14"
	"github.com/AdguardTeam/AdGuardHome/internal/vutil"
	"github.com/AdguardTeam/golibs/logutil/slogutil"
	"gopkg.in/yaml.v3"
)

// C14 harness for the configuration file: home/config.go configuration.write
// (:818) and parseConfig's write after a schema upgrade (:652).

func TestVerifC14(t *testing.T) {
	if vc14.IsChild() {
		vc14.ChildLoop(c14Child)

		return
	}
	if os.Getenv("VERIF_OUT") == "" {
		t.Skip("driven by /verif/bin/check")
	}

	p := &c14Parent{t: t, root: t.TempDir()}
	p.canImm = vc14.CanImmutable(p.root)
	defer p.close()
	vutil.Main(t, p.gen, p.run)
}

// ---------------------------------------------------------------- child

var c14c struct {
	w, dest string
}

func must(err error) {
	if err != nil {
		panic(err)
	}
}

func c14Rules(size int, seed uint64) (rules []string) {
	r := rand.New(rand.NewPCG(seed, 141414))
	rules = []string{}
	for total := 0; total < size; {
		n := 8 + r.IntN(40)
		if size > 1<<20 {
			n = 100 + r.IntN(400)
		}
		var sb strings.Builder
		sb.WriteString("||")
		for sb.Len() < n {
			sb.WriteByte("abcdefghijklmnopqrstuvwxyz0123456789-."[r.IntN(38)])
		}
		sb.WriteString("^")
		rules = append(rules, sb.String())
		total += sb.Len() + 5
	}

	return rules
}

func c14Encode() []byte {
	buf := &bytes.Buffer{}
	enc := yaml.NewEncoder(buf)
	enc.SetIndent(2)
	must(enc.Encode(config))

	return buf.Bytes()
}

func c14Child(f []string) []string {
	switch f[0] {
	case "reset":
		// reset <W> <T> <hasInitial> <seed>
		w := f[1]
		c14c.w = w
		c14c.dest = filepath.Join(w, "AdGuardHome.yaml")
		must(os.MkdirAll(filepath.Join(w, "data"), 0o755))
		must(os.MkdirAll(f[2], 0o755))
		must(os.Setenv("TMPDIR", f[2]))
		globalContext.workDir = w
		globalContext.confFilePath = c14c.dest
		if globalContext.clients.storage == nil {
			globalContext.clients.testing = true
			must(globalContext.clients.Init(
				context.Background(),
				slogutil.NewDiscardLogger(),
				nil,
				client.EmptyDHCP{},
				nil,
				nil,
				&filtering.Config{},
				newSignalHandler(nil, nil),
			))
		}
		config.fileData = nil
		if f[3] == "1" {
			seed, _ := strconv.ParseUint(f[4], 10, 64)
			config.UserRules = c14Rules(300, seed)
			must(os.WriteFile(c14c.dest, c14Encode(), 0o644))
		}

		return []string{"ok"}
	case "put":
		// put <abs path> <size> <seed> <schema version>: a configuration file of an
		// older schema.
		size, _ := strconv.Atoi(f[2])
		seed, _ := strconv.ParseUint(f[3], 10, 64)
		var sb strings.Builder
		if f[4] != "0" {
			fmt.Fprintf(&sb, "schema_version: %s\n", f[4])
		}
		sb.WriteString("http:\n  address: 127.0.0.1:3000\ndns:\n  port: 5353\nuser_rules:\n")
		for _, r := range c14Rules(size, seed) {
			sb.WriteString("  - '" + r + "'\n")
		}
		must(os.WriteFile(f[1], []byte(sb.String()), 0o644))

		return []string{"ok"}
	case "save":
		return c14Save(f[1], f[2], f[3], f[4])
	default:
		panic("unknown command " + f[0])
	}
}

// c14Save performs one real save.  Answer: committed newLen finalOK oldSum newSum.
func c14Save(variant, sizeS, seedS, probe string) []string {
	size, _ := strconv.Atoi(sizeS)
	seed, _ := strconv.ParseUint(seedS, 10, 64)
	dest := c14c.dest
	before, _ := os.ReadFile(dest)
	oldSum := vc14.FileSum(dest)

	var err error
	var expected []byte
	committed := false
	switch variant {
	case "write":
		config.UserRules = c14Rules(size, seed)
		vc14.WithFault(probe, dest, func() { vc14.Window(func() { err = config.write(nil) }) })
		expected = c14Encode()
		committed = err == nil
	case "upgrade":
		// The old file has been put by the preceding C14.put line.
		m := configmigrate.New(&configmigrate.Config{
			WorkingDir: globalContext.workDir,
			DataDir:    globalContext.getDataDir(),
		})
		var upgraded bool
		expected, upgraded, err = m.Migrate(before, configmigrate.LastSchemaVersion)
		if err != nil || !upgraded {
			panic(fmt.Sprintf("harness: old configuration does not migrate: %v %v", upgraded, err))
		}
		config.fileData = nil
		vc14.WithFault(probe, dest, func() { vc14.Window(func() { err = parseConfig() }) })
		config.fileData = nil
		// parseConfig validates after writing; the save itself happened when the
		// file is no longer the old one.
		committed = vc14.FileSum(dest) != oldSum
	default:
		panic("unknown variant " + variant)
	}

	after, rerr := os.ReadFile(dest)
	finalOK := rerr == nil && bytes.Equal(after, expected)
	if probe == "faildir" || vc14.FsizeOf(probe) >= 0 {
		// The save cannot succeed; it must say so and leave the file alone.
		committed = false
		finalOK = err != nil && vc14.FileSum(dest) == oldSum
	}

	return []string{vutil.B(committed), strconv.Itoa(len(expected)), vutil.B(finalOK), oldSum, vc14.FileSum(dest)}
}

// ---------------------------------------------------------------- parent

type c14Parent struct {
	t     *testing.T
	root  string
	child *vc14.Child
	blk   int
	w, tm string
	dest  string

	canImm bool
}

func (p *c14Parent) close() {
	if p.child != nil {
		p.child.Stop()
	}
	_ = os.RemoveAll(c14ShmRoot())
	vc14.ClearImmutable(p.root)
}

func c14ShmRoot() string { return "/dev/shm/verif-c14-home-" + strconv.Itoa(os.Getpid()) }

const c14DestRel = "W/AdGuardHome.yaml"

func c14Size(r *rand.Rand) int {
	switch v := r.IntN(100); {
	case v < 8:
		return 0
	case v < 60:
		return r.IntN(4096)
	case v < 92:
		return r.IntN(1 << 16)
	case v < 98:
		return r.IntN(1 << 20)
	default:
		if vutil.Thorough() {
			return 1<<20 + r.IntN(31<<20)
		}

		return r.IntN(1 << 20)
	}
}

func (p *c14Parent) gen(r *rand.Rand, emit vutil.Emit) {
	n := vutil.N(40)
	for b := 0; b < n; b++ {
		mode := "same"
		if r.IntN(4) == 0 {
			mode = "xdev"
		}
		hasInitial := r.IntN(4) != 0
		files := []string{}
		if hasInitial {
			files = append(files, vutil.Hex(c14DestRel))
		}
		emit(append([]string{"C14.reset", fmt.Sprintf("config-%s-%d", mode, r.Uint64N(1<<40)),
			vutil.Hex(c14DestRel), strconv.Itoa(len(files))}, files...)...)
		saves := 1 + r.IntN(20)
		for s := 0; s < saves; s++ {
			size := c14Size(r)
			// The variant first: it bounds the size the write fault is drawn from.
			upgrade := r.IntN(5) == 0
			if upgrade && size > 4<<20 {
				size = 4 << 20
			}
			sz, sd := strconv.Itoa(size), strconv.FormatUint(r.Uint64N(1<<40), 10)
			fault := ""
			switch f := r.IntN(16); {
			case f == 0 && p.canImm:
				fault = "faildir"
			case f == 1:
				fault = "notmp"
			case f == 2 || f == 3:
				// Write fault: the file may not grow beyond lim bytes (EFBIG); the
				// configuration is always longer than that.
				lim := 0
				if r.IntN(2) == 0 {
					lim = r.IntN(size/2 + 1)
				}
				fault = "fsize=" + strconv.Itoa(lim)
			}
			probe := vc14.Probe(mode, fault)
			failing := fault == "faildir" || strings.HasPrefix(fault, "fsize=")
			if upgrade {
				ver := strconv.Itoa(r.IntN(int(configmigrate.LastSchemaVersion)))
				emit("C14.put", vutil.Hex(c14DestRel), sz, sd, ver)
				emit("C14.save", "upgrade", sz, sd, vutil.B(!failing), "0", probe)
			} else {
				emit("C14.save", "write", sz, sd, vutil.B(!failing), "0", probe)
			}
		}
	}
}

func (p *c14Parent) run(f []string) []string {
	switch f[0] {
	case "C14.reset":
		if p.child == nil {
			p.child = vc14.Start(p.t, "TestVerifC14", p.root)
		}
		p.blk++
		parts := strings.Split(f[1], "-")
		p.w = filepath.Join(p.root, "b"+strconv.Itoa(p.blk))
		p.tm = filepath.Join(p.root, "t"+strconv.Itoa(p.blk))
		if parts[1] == "xdev" {
			p.tm = filepath.Join(c14ShmRoot(), "t"+strconv.Itoa(p.blk))
		}
		p.dest = filepath.Join(p.w, "AdGuardHome.yaml")
		p.child.SetRoots(map[string]string{p.w: "W", p.tm: "T"})
		resp, _, err := p.child.Do("reset", p.w, p.tm, vutil.B(vutil.Atoi(f[3]) > 0), parts[2])
		if err != nil {
			panic(err)
		}

		return resp
	case "C14.put":
		rel := vutil.Unhex(f[1])
		resp, _, err := p.child.Do("put", filepath.Join(p.w, strings.TrimPrefix(rel, "W/")), f[2], f[3], f[4])
		if err != nil {
			panic(err)
		}

		return resp
	case "C14.save":
		rd := vc14.StartReader(p.dest)
		resp, events, err := p.child.Do("save", f[1], f[2], f[3], f[6])
		if err != nil || len(resp) != 5 {
			rd.Stop()
			if err != nil {
				panic(err)
			}

			return resp
		}
		reads, bad := rd.Stop(resp[3], resp[4])
		out := []string{resp[0], resp[1], resp[2], strconv.Itoa(reads), strconv.Itoa(bad)}
		names := p.child.ListFiles(p.w, p.tm)
		out = append(out, strconv.Itoa(len(names)))
		out = append(out, names...)
		out = append(out, strconv.Itoa(len(events)))

		return append(out, events...)
	default:
		panic("unknown op " + f[0])
	}
}
