//go:build verif

package home

import (
	"context"
	"encoding/binary"
	"encoding/hex"
	"fmt"
	"math/rand/v2"
	"net"
	"net/netip"
	"os"
	"strings"
	"sync"
	"testing"

	"github.com/AdguardTeam/AdGuardHome/internal/client"
	"github.com/AdguardTeam/AdGuardHome/internal/dhcpsvc"
	"github.com/AdguardTeam/AdGuardHome/internal/filtering"
	"github.com/AdguardTeam/AdGuardHome/internal/schedule"
	"github.com/AdguardTeam/AdGuardHome/internal/vutil"
	"github.com/AdguardTeam/golibs/logutil/slogutil"
	"gopkg.in/yaml.v3"
)

// Persistence run of C04: the registry lives in a real clientsContainer
// (Init -> client.NewStorage); clients come in as configuration records
// (clientObject.toPersistent, the path of the configuration file); the op
// C04.restart writes the records with the real forConfig, sends them through
// yaml.Marshal / yaml.Unmarshal and brings up a NEW container with Init.  After
// every op the public lookups, the per-request filtering settings (through a
// DNSFilter wired the way Init wires it) and every field of every client are
// dumped.  Same line protocol and driver as the history run in internal/client.

// c04pFixEUI64 says which Persistent.IDs the tree has: false = the tree as it
// is (MACs always printed with colons), true = fixes/c04/eui64_ids.patch applied
// (an 8-byte MAC is printed with hyphens).  It is reported with every reset
// line (the driver then runs the matching model variant) and switches the
// generation of 8-byte MACs on.  The environment variable C04_FIX_EUI64=1
// overrides it for trying the patch in a scratch worktree.
const c04pFixEUI64 = true

func c04pFixed() bool { return c04pFixEUI64 || os.Getenv("C04_FIX_EUI64") == "1" }

type c04pDHCP struct {
	macs map[netip.Addr]net.HardwareAddr
}

func (d *c04pDHCP) Leases() (leases []*dhcpsvc.Lease)      { return nil }
func (d *c04pDHCP) HostByIP(_ netip.Addr) (host string)    { return "" }
func (d *c04pDHCP) MACByIP(ip netip.Addr) net.HardwareAddr { return d.macs[ip] }

var (
	c04pServices  = []string{"4chan", "500px", "9gag", "amazon", "aliexpress", "amino", "activision_blizzard", "amazon_streaming"}
	c04pTagSets   = [][]string{nil, {"device_pc"}, {"device_tv", "user_child"}, {"os_linux", "user_admin", "user_regular"}}
	c04pUpstreams = [][]string{nil, {"1.1.1.1"}, {"[/example.org/]8.8.8.8", "9.9.9.9"}}
	c04pInitOnce  sync.Once
)

func c04pIndex(sets [][]string, l []string) string {
	j := strings.Join(l, ",")
	for i, s := range sets {
		if strings.Join(s, ",") == j {
			return vutil.Itoa(i)
		}
	}

	return "?" + vutil.Hex(j)
}

func c04pServiceNum(name string) string {
	for i, n := range c04pServices {
		if n == name {
			return vutil.Itoa(i)
		}
	}

	return "?" + vutil.Hex(name)
}

func c04pSched(n int) (w *schedule.Weekly) {
	if n == 0 {
		return schedule.EmptyWeekly()
	}
	w = &schedule.Weekly{}
	if err := yaml.Unmarshal([]byte("time_zone: UTC\n"), w); err != nil {
		panic(err)
	}

	return w
}

func c04pSchedNum(w *schedule.Weekly) string {
	if w == nil {
		return "nil"
	}
	b, err := yaml.Marshal(w)
	switch {
	case err != nil:
		return "?"
	case strings.Contains(string(b), "time_zone: Local"):
		return "0"
	case strings.Contains(string(b), "time_zone: UTC"):
		return "1"
	default:
		return "?" + vutil.Hex(string(b))
	}
}

func c04pUID(n uint64) (uid client.UID) {
	if n != 0 {
		binary.BigEndian.PutUint64(uid[8:], n)
	}

	return uid
}

func c04pUIDNum(uid client.UID) uint64 { return binary.BigEndian.Uint64(uid[8:]) }

func c04pIP(kind, addrHex, zoneHex string) netip.Addr {
	if kind == "0" {
		return netip.Addr{}
	}
	b, err := hex.DecodeString(addrHex)
	if err != nil {
		panic(err)
	}
	ip, _ := netip.AddrFromSlice(b)

	return ip.WithZone(vutil.Unhex(zoneHex))
}

// c04pObject decodes the string form of a client into a configuration record.
func c04pObject(f []string, i int) (o *clientObject) {
	o = &clientObject{}
	o.UID = c04pUID(uint64(vutil.Atoi(f[i])))
	o.UpstreamsCacheSize = uint32(vutil.Atoi(f[i+1]))
	o.Name = vutil.Unhex(f[i+2])
	n := vutil.Atoi(f[i+3])
	i += 4
	for ; n > 0; n-- {
		o.IDs = append(o.IDs, vutil.Unhex(f[i]))
		i += 11
	}
	g := f[i:]
	o.Tags = append([]string(nil), c04pTagSets[vutil.Atoi(g[9])]...)
	if vutil.UnB(g[0]) {
		o.Tags = append(o.Tags, "no_such_tag")
	}
	o.UseGlobalSettings = !vutil.UnB(g[1])
	o.FilteringEnabled = vutil.UnB(g[2])
	o.SafeBrowsingEnabled = vutil.UnB(g[4])
	o.ParentalEnabled = vutil.UnB(g[5])
	o.UseGlobalBlockedServices = !vutil.UnB(g[6])
	o.IgnoreQueryLog, o.IgnoreStatistics = vutil.UnB(g[10]), vutil.UnB(g[11])
	o.Upstreams = append([]string(nil), c04pUpstreams[vutil.Atoi(g[12])]...)
	o.UpstreamsCacheEnabled = vutil.UnB(g[13])
	nss := vutil.Atoi(g[15])
	o.SafeSearchConf = filtering.SafeSearchConfig{
		Enabled: vutil.UnB(g[3]), Bing: nss&1 != 0, DuckDuckGo: nss&2 != 0, Ecosia: nss&4 != 0, Google: nss&8 != 0,
		Pixabay: nss&16 != 0, Yandex: nss&32 != 0, YouTube: nss&64 != 0,
	}
	o.BlockedServices = &filtering.BlockedServices{
		Schedule: c04pSched(vutil.Atoi(g[14])),
		IDs:      []string{c04pServices[vutil.Atoi(g[7])]},
	}

	return o
}

func c04pErrKind(err error) []string {
	if err == nil {
		return []string{"ok"}
	}
	msg := err.Error()
	kinds := []struct{ sub, kind string }{
		{"clientid is empty", "emptyID"}, {"invalid clientid", "badID"},
		{"empty name", "emptyName"}, {"uid required", "noUID"}, {"id required", "noIDs"},
		{"invalid tag", "invalidConf"}, {"invalid upstream", "invalidConf"},
		{"uses the same uid", "uidClash"}, {"uses the same name", "nameClash"},
		{"uses the same ClientID", "cidClash"}, {"uses the same IP", "ipClash"},
		{"uses the same subnet", "subnetClash"}, {"uses the same MAC", "macClash"},
		{"is not found", "notFound"},
	}
	for _, k := range kinds {
		if strings.Contains(msg, k.sub) {
			return []string{"err", k.kind}
		}
	}

	return []string{"err", "other:" + vutil.Hex(msg)}
}

type c04pProbe struct {
	tag, s string
	ip     netip.Addr
}

type c04pState struct {
	cc     *clientsContainer
	flt    *filtering.DNSFilter
	dhcp   *c04pDHCP
	probes []c04pProbe
}

var c04pCur *c04pState

// c04pBoot brings a container up from configuration records, the way the
// program starts: clientsContainer.Init, then a DNSFilter from the filtering
// configuration Init completed.
func c04pBoot(
	objs []*clientObject,
	d *c04pDHCP,
	src []string,
) (cc *clientsContainer, flt *filtering.DNSFilter, err error) {
	c04pInitOnce.Do(filtering.InitModule)
	// clients.runtime_sources of the configuration this start reads
	if config.Clients == nil {
		config.Clients = &clientsConfig{}
	}
	config.Clients.Sources = &clientSourcesConfig{
		WHOIS: vutil.UnB(src[0]), ARP: vutil.UnB(src[1]), RDNS: vutil.UnB(src[2]), DHCP: vutil.UnB(src[3]),
		HostsFile: vutil.UnB(src[4]),
	}
	cc = &clientsContainer{testing: true}
	fconf := &filtering.Config{
		BlockedServices:     &filtering.BlockedServices{Schedule: schedule.EmptyWeekly(), IDs: []string{c04pServices[0]}},
		BlockingMode:        filtering.BlockingModeDefault,
		SafeBrowsingEnabled: true,
	}
	err = cc.Init(context.Background(), slogutil.NewDiscardLogger(), objs, d, nil, nil, fconf, newSignalHandler(nil, nil))
	if err != nil {
		return nil, nil, err
	}
	flt, err = filtering.New(fconf, nil)
	if err != nil {
		return nil, nil, err
	}
	flt.SetEnabled(true)

	return cc, flt, nil
}

func c04pShow(p *client.Persistent, ok bool) string {
	switch {
	case !ok:
		return "-"
	case p == nil:
		return "D"
	default:
		return fmt.Sprintf("%d:%d", c04pUIDNum(p.UID), p.UpstreamsCacheSize)
	}
}

func c04pGuard(f func() string) (s string) {
	defer func() {
		if v := recover(); v != nil {
			s = "P"
		}
	}()

	return f()
}

func c04pFull(p *client.Persistent) string {
	sso := "0"
	if p.SafeSearch != nil {
		sso = "1"
	}
	svc, sched := "nil", "nil"
	if bs := p.BlockedServices; bs != nil {
		sched = c04pSchedNum(bs.Schedule)
		svc = "?"
		if len(bs.IDs) == 1 {
			svc = c04pServiceNum(bs.IDs[0])
		}
	}
	bits := ""
	for _, b := range []bool{
		p.UseOwnSettings, p.FilteringEnabled, p.SafeSearchConf.Enabled, p.SafeBrowsingEnabled, p.ParentalEnabled,
		p.UseOwnBlockedServices, p.IgnoreQueryLog, p.IgnoreStatistics, p.UpstreamsCacheEnabled,
	} {
		bits += vutil.B(b)
	}
	c, nss := p.SafeSearchConf, 0
	for i, b := range []bool{c.Bing, c.DuckDuckGo, c.Ecosia, c.Google, c.Pixabay, c.Yandex, c.YouTube} {
		if b {
			nss |= 1 << i
		}
	}

	return strings.Join([]string{
		fmt.Sprint(c04pUIDNum(p.UID)), fmt.Sprint(p.UpstreamsCacheSize), vutil.Itoa(len(p.IPs)),
		vutil.Itoa(len(p.Subnets)), vutil.Itoa(len(p.MACs)), vutil.Itoa(len(p.ClientIDs)), bits, svc, sso,
		c04pIndex(c04pTagSets, p.Tags), c04pIndex(c04pUpstreams, p.Upstreams), sched, vutil.Itoa(nss),
	}, "/")
}

func c04pObserve(c *c04pState) (out []string) {
	st := c.cc.storage
	for _, pr := range c.probes {
		out = append(out, c04pGuard(func() string {
			switch pr.tag {
			case "n":
				return c04pShow(st.FindByName(pr.s))
			case "f":
				return c04pShow(st.Find(pr.s))
			case "a":
				setts := &filtering.Settings{
					ProtectionEnabled: true, FilteringEnabled: true, SafeBrowsingEnabled: true,
				}
				c.flt.ApplyAdditionalFiltering(pr.ip, pr.s, setts)
				svc := "?"
				if len(setts.ServicesRules) == 1 {
					svc = c04pServiceNum(setts.ServicesRules[0].Name)
				}
				if bs := setts.BlockedServices; bs != nil && (len(bs.IDs) != 1 || c04pServiceNum(bs.IDs[0]) != svc) {
					svc = "?mismatch"
				}
				sso := "0"
				if setts.ClientSafeSearch != nil {
					sso = "1"
				}

				return strings.Join([]string{
					"S", vutil.Hex(setts.ClientName), c04pIndex(c04pTagSets, setts.ClientTags), svc,
					vutil.B(setts.FilteringEnabled), vutil.B(setts.SafeSearchEnabled), sso,
					vutil.B(setts.SafeBrowsingEnabled), vutil.B(setts.ParentalEnabled),
					vutil.B(setts.ProtectionEnabled), vutil.B(setts.ClientIP == pr.ip),
				}, ":")
			default:
				panic("bad probe " + pr.tag)
			}
		}))
	}
	var all, full []string
	st.RangeByName(func(p *client.Persistent) (cont bool) {
		all = append(all, fmt.Sprintf("%d:%d", c04pUIDNum(p.UID), p.UpstreamsCacheSize))
		full = append(full, c04pFull(p))

		return true
	})
	allS, fullS := "-", "-"
	if len(all) > 0 {
		allS, fullS = strings.Join(all, ","), strings.Join(full, ",")
	}

	return append(out, "R", allS, "F", fullS)
}

func c04pRun(f []string) []string {
	ctx := context.Background()
	if f[0] == "C04.reset" {
		d := &c04pDHCP{macs: map[netip.Addr]net.HardwareAddr{}}
		n := vutil.Atoi(f[1])
		cc, flt, err := c04pBoot(nil, d, f[2+8*n:2+8*n+5])
		if err != nil {
			panic(err)
		}
		c := &c04pState{cc: cc, flt: flt, dhcp: d}
		for k := 0; k < n; k++ {
			g := f[2+8*k : 2+8*k+8]
			pr := c04pProbe{tag: g[0]}
			switch g[0] {
			case "n", "f":
				pr.s = vutil.Unhex(g[1])
			case "a":
				pr.s, pr.ip = vutil.Unhex(g[1]), c04pIP(g[2], g[3], g[4])
			default:
				panic("probe kind not available through the public API: " + g[0])
			}
			c.probes = append(c.probes, pr)
		}
		c04pCur = c
		if c04pFixed() {
			return []string{"ok", "fix-eui64"}
		}

		return []string{"ok"}
	}

	c := c04pCur
	if c == nil {
		panic("op before reset")
	}
	var res []string
	func() {
		defer func() {
			if v := recover(); v != nil {
				res = []string{"panic"}
			}
		}()
		st := c.cc.storage
		switch f[0] {
		case "C04.addS", "C04.updateS":
			i := 1
			if f[0] == "C04.updateS" {
				i = 2
			}
			o := c04pObject(f, i)
			p, err := o.toPersistent(ctx, slogutil.NewDiscardLogger(), 0, 0)
			switch {
			case err != nil:
				res = c04pErrKind(err)
			case f[0] == "C04.addS":
				res = c04pErrKind(st.Add(ctx, p))
			default:
				res = c04pErrKind(st.Update(ctx, vutil.Unhex(f[1]), p))
			}
		case "C04.remove":
			if st.RemoveByName(ctx, vutil.Unhex(f[1])) {
				res = []string{"ok"}
			} else {
				res = []string{"err", "notFound"}
			}
		case "C04.dhcpset":
			c.dhcp.macs[c04pIP(f[1], f[2], f[3])] = net.HardwareAddr(vutil.Unhex(f[4]))
			res = []string{"ok"}
		case "C04.dhcpdel":
			delete(c.dhcp.macs, c04pIP(f[1], f[2], f[3]))
			res = []string{"ok"}
		case "C04.restart":
			// what is written to the configuration file ...
			data, err := yaml.Marshal(c.cc.forConfig())
			if err != nil {
				panic(err)
			}
			// ... and what the next start reads from it
			var objs []*clientObject
			if err = yaml.Unmarshal(data, &objs); err != nil {
				res = []string{"err", "restartFailed"}

				return
			}
			cc, flt, berr := c04pBoot(objs, c.dhcp, f[1:6])
			if berr != nil {
				if os.Getenv("VERIF_STACK") != "" {
					fmt.Fprintln(os.Stderr, "restart:", berr)
				}
				res = []string{"err", "restartFailed"}

				return
			}
			c.cc, c.flt = cc, flt
			res = []string{"ok"}
		default:
			panic("unknown op " + f[0])
		}
	}()

	return append(res, c04pObserve(c)...)
}

// ---------------------------------------------------------------- generator

var (
	c04pNames   = []string{"alice", "bob", "carol", "Alice", "dave", "erin"}
	c04pCIDs    = []string{"cli", "phone", "tv", "a-b", "x9"}
	c04pIPs     = []string{"10.0.0.1", "10.0.0.2", "192.168.1.1", "::1", "2001:db8::1", "fe80::1%eth0", "fe80::1", "::ffff:10.0.0.1"}
	c04pSubnets = []string{
		"10.0.0.0/8", "10.0.0.0/24", "10.0.0.1/24", "10.0.0.1/32", "0.0.0.0/0", "::/0", "2001:db8::/32", "fe80::/10",
		"::ffff:10.0.0.0/104", "192.168.0.0/16",
	}
	c04pExtra = []string{"10.0.0.7", "10.9.9.9", "11.1.1.1", "192.168.7.7", "2001:db8::5", "fe80::9%eth0", "0:11:22:33:44:55:66:77"}
	c04pMACs  = []string{
		"\x02\x00\x00\x00\x00\x01", "\x02\x00\x00\x00\x00\x02", "\xaa\xbb\xcc\xdd\xee\xff",
		"\x00\x00\x00\x00\xfe\x80\x00\x00\x00\x00\x00\x00\x02\x00\x5e\x10\x00\x00\x00\x01",
	}
	// an EUI-64: only with VERIF_C04_EUI64=1 (see the finding in the report)
	c04pMAC8 = "\x00\x11\x22\x33\x44\x55\x66\x77"
)

func c04pIPFields(ip netip.Addr) []string {
	if !ip.IsValid() {
		return []string{"0", "-", "-"}
	}
	k := "6"
	if ip.Is4() {
		k = "4"
	}

	return []string{k, hex.EncodeToString(ip.AsSlice()), vutil.Hex(ip.Zone())}
}

func c04pIDStringFields(s string) (f []string) {
	f = []string{vutil.Hex(s)}
	if ip, err := netip.ParseAddr(s); err == nil {
		f = append(append(f, "1"), c04pIPFields(ip)...)
	} else {
		f = append(f, "0", "0", "-", "-")
	}
	if p, err := netip.ParsePrefix(s); err == nil {
		f = append(f, "1", vutil.B(!p.Addr().Is4()), hex.EncodeToString(p.Addr().AsSlice()), vutil.Itoa(p.Bits()))
	} else {
		f = append(f, "0", "0", "-", "0")
	}
	if mac, err := net.ParseMAC(s); err == nil {
		f = append(f, "1", vutil.Hex(string(mac)))
	} else {
		f = append(f, "0", "-")
	}

	return f
}

func c04pSpellMAC(r *rand.Rand, m string) (s string) {
	h := hex.EncodeToString([]byte(m))
	var parts []string
	for i := 0; i < len(h); i += 2 {
		parts = append(parts, h[i:i+2])
	}
	s = strings.Join(parts, []string{":", "-", "-"}[r.IntN(3)])
	if r.IntN(2) == 0 {
		s = strings.ToUpper(s)
	}

	return s
}

func c04pGen(r *rand.Rand, emit vutil.Emit) {
	n := vutil.N(300)
	macs := append([]string{}, c04pMACs...)
	if c04pFixed() || os.Getenv("VERIF_C04_EUI64") != "" {
		macs = append(macs, c04pMAC8)
	}
	ver := 0
	for h := 0; h < n; h++ {
		var probes [][]string
		add := func(g ...string) {
			for len(g) < 8 {
				g = append(g, "-")
			}
			probes = append(probes, g)
		}
		for _, nm := range c04pNames {
			add("n", vutil.Hex(nm))
		}
		var addrs []netip.Addr
		for _, s := range append(append([]string{}, c04pIPs...), c04pExtra...) {
			addrs = append(addrs, netip.MustParseAddr(s))
		}
		for k := 0; k < 12; k++ {
			id := ""
			if r.IntN(3) == 0 {
				id = vutil.Pick(r, c04pCIDs)
			}
			add(append([]string{"a", vutil.Hex(id)}, c04pIPFields(vutil.Pick(r, addrs))...)...)
		}
		strs := append([]string{}, c04pCIDs...)
		for _, a := range addrs {
			strs = append(strs, a.String())
		}
		for _, m := range macs {
			strs = append(strs, net.HardwareAddr(m).String())
		}
		strs = append(strs, "00-11-22-33-44-55-66-77")
		for _, s := range strs {
			g := []string{"f", vutil.Hex(s)}
			if ip, err := netip.ParseAddr(s); err == nil {
				g = append(append(g, "1"), c04pIPFields(ip)...)
			} else {
				g = append(g, "0", "0", "-", "-")
			}
			if mac, err := net.ParseMAC(s); err == nil {
				g = append(g, "1", vutil.Hex(string(mac)))
			} else {
				g = append(g, "0", "-")
			}
			add(g...)
		}
		f := []string{"C04.reset", vutil.Itoa(len(probes))}
		for _, g := range probes {
			f = append(f, g...)
		}
		// runtime_sources: whois arp rdns dhcp hosts — every combination
		srcBits := func() (b []string) {
			for k := 0; k < 5; k++ {
				b = append(b, vutil.Itoa(r.IntN(2)))
			}

			return b
		}
		emit(append(f, srcBits()...)...)

		nextUID := 1
		var live []string
		genClient := func() (name string, fields []string) {
			ver++
			name = vutil.Pick(r, c04pNames)
			uid := nextUID
			nextUID++
			if r.IntN(30) == 0 && nextUID > 2 {
				uid = 1 + r.IntN(nextUID-1)
			}
			var ids []string
			for k := []int{1, 1, 2, 2, 3, 4}[r.IntN(6)]; k > 0; k-- {
				switch r.IntN(10) {
				case 0, 1, 2:
					ids = append(ids, vutil.Pick(r, c04pIPs))
				case 3, 4, 5:
					ids = append(ids, vutil.Pick(r, c04pSubnets))
				case 6, 7:
					ids = append(ids, c04pSpellMAC(r, vutil.Pick(r, macs)))
				default:
					id := []byte(vutil.Pick(r, c04pCIDs))
					if r.IntN(3) == 0 {
						id = []byte(strings.ToUpper(string(id)))
					}
					ids = append(ids, string(id))
				}
			}
			if r.IntN(40) == 0 {
				ids = append(ids, "a_b")
			}
			fields = []string{vutil.Itoa(uid), vutil.Itoa(ver), vutil.Hex(name), vutil.Itoa(len(ids))}
			for _, s := range ids {
				fields = append(fields, c04pIDStringFields(s)...)
			}
			// invalidConf own filt ssearch sbrowse parental ownSvc — all independent
			ss := r.IntN(2)
			fields = append(fields, vutil.B(r.IntN(40) == 0), vutil.Itoa(r.IntN(2)), vutil.Itoa(r.IntN(2)), vutil.Itoa(ss),
				vutil.Itoa(r.IntN(2)), vutil.Itoa(r.IntN(2)), vutil.Itoa(r.IntN(2)),
				// svc, safe-search object (exists exactly when the config is enabled), tags
				vutil.Itoa(1+ver%(len(c04pServices)-1)), vutil.Itoa(ss), vutil.Itoa(r.IntN(len(c04pTagSets))),
				// ignoreQueryLog ignoreStatistics upstreams upstreamsCacheEnabled sched ssConf
				vutil.Itoa(r.IntN(2)), vutil.Itoa(r.IntN(2)), vutil.Itoa(r.IntN(len(c04pUpstreams))), vutil.Itoa(r.IntN(2)),
				vutil.Itoa(r.IntN(2)), vutil.Itoa(r.IntN(128)))

			return name, fields
		}
		nOps := 2 + r.IntN(30)
		for k := 0; k < nOps; k++ {
			switch x := r.IntN(100); {
			case x < 36:
				name, fields := genClient()
				emit(append([]string{"C04.addS"}, fields...)...)
				live = append(live, name)
			case x < 58:
				name, fields := genClient()
				target := vutil.Pick(r, c04pNames)
				if len(live) > 0 && r.IntN(5) > 0 {
					target = vutil.Pick(r, live)
				}
				emit(append([]string{"C04.updateS", vutil.Hex(target)}, fields...)...)
				live = append(live, name)
			case x < 68:
				target := vutil.Pick(r, c04pNames)
				if len(live) > 0 && r.IntN(4) > 0 {
					target = vutil.Pick(r, live)
				}
				emit("C04.remove", vutil.Hex(target))
			case x < 76:
				emit(append(append([]string{"C04.dhcpset"}, c04pIPFields(vutil.Pick(r, addrs))...),
					vutil.Hex(vutil.Pick(r, c04pMACs)))...)
			case x < 80:
				emit(append([]string{"C04.dhcpdel"}, c04pIPFields(vutil.Pick(r, addrs))...)...)
			default:
				emit(append([]string{"C04.restart"}, srcBits()...)...)
			}
		}
		emit(append([]string{"C04.restart"}, srcBits()...)...)
	}
}

func TestVerifC04Persist(t *testing.T) { vutil.Main(t, c04pGen, c04pRun) }
