//go:build verif

package home

// C05 harness, internal/home part: the lock order between the TLS manager and
// the configuration (finding R5).  POST /control/tls/validate runs concurrently
// with the configuration write that every modifying admin operation ends with
// (onConfigModified > configuration.write).  Every scenario runs in a child
// process of this test binary built with -race; see harness/c05util.

import (
	"context"
	"encoding/json"
	"math/rand/v2"
	"net/http/httptest"
	"os"
	"path/filepath"
	"runtime"
	"strings"
	"sync"
	"sync/atomic"
	"testing"
	"time"

	"github.com/AdguardTeam/AdGuardHome/internal/c05util"
	"github.com/AdguardTeam/AdGuardHome/internal/client"
	"github.com/AdguardTeam/AdGuardHome/internal/vutil"
	"github.com/AdguardTeam/golibs/logutil/slogutil"
	"github.com/AdguardTeam/golibs/timeutil"
)

// TestVerifC05Home is the entry point used by bin/check.
func TestVerifC05Home(t *testing.T) {
	n := vutil.N(1)
	gen := func(r *rand.Rand, emit vutil.Emit) {
		for i := 0; i < n; i++ {
			emit("C05.run", "home", "tls_validate_vs_config_write", "1", vutil.Itoa(300+r.IntN(200)), "1",
				vutil.Itoa(int(r.Uint32()>>1)), "home")
		}
	}
	run := func(f []string) []string {
		if f[0] != "C05.run" {
			panic("unknown op " + f[0])
		}

		return c05util.RunStress("TestVerifC05HomeChild", f)
	}
	vutil.Main(t, gen, run)
}

// TestVerifC05HomeChild runs one scenario; only as a child of TestVerifC05Home.
func TestVerifC05HomeChild(t *testing.T) {
	scn := os.Getenv("C05_SCN")
	dir := os.Getenv("C05_DIR")
	if scn == "" || dir == "" {
		t.Skip("only run as a child of TestVerifC05Home")
	}
	f := strings.Split(scn, "\t")
	nIter := vutil.Atoi(f[4])

	res := &c05util.ChildResult{}
	write := func() {
		data, _ := json.Marshal(res)
		_ = os.WriteFile(filepath.Join(dir, "result.json"), data, 0o644)
	}

	ctx := context.Background()
	logger := slogutil.NewDiscardLogger()
	globalContext.workDir = dir
	globalContext.confFilePath = filepath.Join(dir, "AdGuardHome.yaml")
	var err error
	globalContext.clients.storage, err = client.NewStorage(ctx, &client.StorageConfig{
		Logger: logger, Clock: timeutil.SystemClock{}, DHCP: client.EmptyDHCP{},
	})
	if err != nil {
		t.Fatal(err)
	}
	m, err := newTLSManager(ctx, &tlsManagerConfig{
		logger:         logger,
		configModified: func() {},
		tlsSettings:    tlsConfigSettings{},
		servePlainDNS:  true,
	})
	if err != nil {
		t.Fatal(err)
	}

	c05util.ObserveLocks(m, config, &globalContext.clients)

	var ops atomic.Int64
	var wg sync.WaitGroup
	wg.Add(2)
	go func() {
		defer wg.Done()
		body := `{"enabled":true,"port_https":0,"port_dns_over_tls":0,"port_dns_over_quic":0,"certificate_chain":"","private_key":""}`
		for i := 0; i < nIter; i++ {
			r := httptest.NewRequest("POST", "/control/tls/validate", strings.NewReader(body))
			r.Header.Set("Content-Type", "application/json")
			m.handleTLSValidate(httptest.NewRecorder(), r)
			ops.Add(1)
		}
	}()
	go func() {
		defer wg.Done()
		for i := 0; i < nIter; i++ {
			_ = config.write(m)
			ops.Add(1)
		}
	}()
	finished := make(chan struct{})
	go func() { wg.Wait(); close(finished) }()
	stalled := make(chan struct{})
	go func() {
		last, since := int64(-1), time.Now()
		for {
			time.Sleep(250 * time.Millisecond)
			if cur := ops.Load(); cur != last {
				last, since = cur, time.Now()
			} else if time.Since(since) > 4*time.Second {
				close(stalled)

				return
			}
		}
	}()
	select {
	case <-finished:
	case <-stalled:
		buf := make([]byte, 1<<20)
		buf = buf[:runtime.Stack(buf, true)]
		_ = os.WriteFile(filepath.Join(dir, "stacks.txt"), buf, 0o644)
		res.Edges, res.LockOps = c05util.ObservedEdges()
		res.Deadlock = true
		res.Stuck = c05util.StuckKey(string(buf))
		res.AdminOps = int(ops.Load())
		write()
		os.Exit(3)
	}
	res.AdminOps = int(ops.Load())
	res.Served = nIter
	res.Done = true
	res.Edges, res.LockOps = c05util.ObservedEdges()
	write()
	os.Exit(0)
}
