//go:build verif

package rulelist

import (
	"bufio"
	"bytes"
	"errors"
	"io"
	"math/rand/v2"
	"strconv"
	"strings"
	"testing"
	"unicode/utf8"

	"github.com/AdguardTeam/AdGuardHome/internal/vutil"
)

// C15 harness, part (a): Parser.Parse, bytes.TrimSpace and utf8.DecodeLastRune
// against the Lean model.

// c15Reader delivers data in chunks and then EOF or a read error.
type c15Reader struct {
	data     []byte
	complete bool
}

func (r *c15Reader) Read(p []byte) (n int, err error) {
	if len(r.data) == 0 {
		if r.complete {
			return 0, io.EOF
		}

		return 0, io.ErrUnexpectedEOF
	}
	n = min(len(p), len(r.data), 4096)
	copy(p, r.data[:n])
	r.data = r.data[n:]

	return n, nil
}

func c15ErrClass(err error) string {
	switch {
	case err == nil:
		return "ok"
	case errors.Is(err, ErrHTML):
		return "html"
	case errors.Is(err, bufio.ErrTooLong):
		return "toolong"
	case errors.Is(err, io.ErrUnexpectedEOF):
		return "read"
	}
	msg := err.Error()
	var line, col int
	const mid = ": likely binary character "
	if i := strings.Index(msg, mid); i > 0 && strings.HasPrefix(msg, "line ") {
		head := msg[len("line "):i]
		parts := strings.Split(head, ": character ")
		if len(parts) == 2 {
			line, _ = strconv.Atoi(parts[0])
			col, _ = strconv.Atoi(parts[1])
			q, uerr := strconv.Unquote(msg[i+len(mid):])
			if uerr == nil && len(q) > 0 {
				r, _ := utf8.DecodeRuneInString(q)

				return "binary:" + strconv.Itoa(line) + ":" + strconv.Itoa(col) + ":" + strconv.Itoa(int(r))
			}
		}
	}

	return "other:" + vutil.Hex(msg)
}

func c15Parse(src []byte, complete bool) (res *ParseResult, out []byte, err error) {
	dst := &bytes.Buffer{}
	res, err = NewParser().Parse(dst, &c15Reader{data: src, complete: complete}, make([]byte, DefaultRuleBufSize))

	return res, dst.Bytes(), err
}

func c15Run(f []string) []string {
	switch f[0] {
	case "C15.trim":
		in := []byte(vutil.Unhex(f[1]))
		out := bytes.TrimSpace(in)

		return []string{vutil.Hex(string(out)), vutil.B(out == nil)}
	case "C15.lastrune":
		r, n := utf8.DecodeLastRune([]byte(vutil.Unhex(f[1])))

		return []string{strconv.Itoa(int(r)), strconv.Itoa(n)}
	case "C15.parse":
		src := []byte(vutil.Unhex(f[1]))
		res, out, err := c15Parse(src, vutil.UnB(f[2]))
		// what load() does after a restart: parse the stored form again
		res2, out2, err2 := c15Parse(out, true)

		return []string{
			c15ErrClass(err), vutil.Hex(res.Title), strconv.Itoa(res.RulesCount), strconv.Itoa(res.BytesWritten),
			strconv.FormatUint(uint64(res.Checksum), 10), vutil.Hex(string(out)),
			vutil.B(err2 == nil), strconv.Itoa(res2.RulesCount), strconv.FormatUint(uint64(res2.Checksum), 10),
			vutil.B(bytes.Equal(out, out2)),
		}
	}
	panic("unknown op " + f[0])
}

var c15Spaces = []string{
	" ", " ", "\t", "\v", "\f", "\r", "\xc2\x85", "\xc2\xa0", "\xe1\x9a\x80", "\xe2\x80\x80", "\xe2\x80\x8a",
	"\xe2\x80\xa8", "\xe2\x80\xa9", "\xe2\x80\xaf", "\xe2\x81\x9f", "\xe3\x80\x80",
	// not spaces, but look-alikes and broken encodings
	"\x85", "\xa0", "\xc2", "\xe2\x80", "\x80", "\xe2\x80\x8b", "\xef\xbb\xbf", "\xe2", "\xe3\x80", "\xf0\x9f\x98\x80", "\xff",
}

var c15Bodies = []string{
	"||a.example^", "||b.example^$important", "127.0.0.1 host.example", "@@||ok.example^", "/regex.*/", "a", "x y", "caf\xc3\xa9.example",
	"# comment", "! comment", "!", "#", "#||commented.example^", "!||commented.example^",
	"! Title: My List", "! Title:", "! Title:   Spaced  ", "! Title: \xc2\xa0", "! title: x", "!Title: x", "! Title: Second", "! Title: \xe2\x80\x80x\xe2\x80\x80",
	"<html>", "<HTML lang=\"en\">", "<!DOCTYPE html>", "<!doctype", "<htm", "<!doc", "x<html>", "<Html", "<\xe2\x84\xaatml>", "<!DOCTYPE", "<!doctypes",
	"a\x00b", "\x01", "x\x1b", "\x7fx", "a\tb", "tab\t", "a\rb", "\x00",
	"", "", "", "||c.example^", "||d.example^", "0.0.0.0 e.example",
	// Adblock-style list headers and other lines starting with a bracket
	"[Adblock Plus 2.0]", "[Adblock Plus 2.0]", "[adblock]", "[Adblock", "[uBlock Origin]", "[x]", "[", "[Adblock Plus 2.0] x",
	"[ADBLOCK PLUS 3.1]", "[]",
	// more titles, so that several of them and titles after rules are common
	"! Title: A", "! Title: B", "! Title: [Adblock Plus 2.0]",
}

func c15Line(r *rand.Rand) string {
	var b strings.Builder
	for k := r.IntN(3); k > 0 && r.IntN(3) == 0; k-- {
		b.WriteString(vutil.Pick(r, c15Spaces))
	}
	if r.IntN(3) == 0 {
		b.WriteString(vutil.Pick(r, c15Spaces))
	}
	b.WriteString(vutil.Pick(r, c15Bodies))
	if r.IntN(3) == 0 {
		b.WriteString(vutil.Pick(r, c15Spaces))
	}
	if r.IntN(8) == 0 {
		b.WriteString(vutil.Pick(r, c15Spaces))
	}

	return b.String()
}

func c15Text(r *rand.Rand) string {
	var b strings.Builder
	n := r.IntN(8)
	if r.IntN(300) == 0 {
		// a line around the scanner's token limit
		b.WriteString(strings.Repeat("a", 65533+r.IntN(5)))
		if r.IntN(2) == 0 {
			b.WriteString("\r")
		}
		if r.IntN(3) > 0 {
			b.WriteString("\n")
		}
	}
	for i := 0; i < n; i++ {
		b.WriteString(c15Line(r))
		switch r.IntN(10) {
		case 0:
			b.WriteString("\r\n")
		case 1:
			b.WriteString("\r")
		case 2:
			b.WriteString("\n\n")
		case 3:
			b.WriteString("\r\r\n")
		case 4:
			if i != n-1 {
				b.WriteString("\n")
			}
		default:
			b.WriteString("\n")
		}
	}
	if r.IntN(60) == 0 {
		k := r.IntN(12)
		for i := 0; i < k; i++ {
			b.WriteByte(byte(r.IntN(256)))
		}
	}

	return b.String()
}

func c15Gen(r *rand.Rand, emit vutil.Emit) {
	n := vutil.N(20000)
	pool := []byte{0x00, 0x20, 0x41, 0x7f, 0x80, 0x85, 0x8a, 0x9f, 0xa0, 0xa8, 0xaf, 0xbf, 0xc0, 0xc2, 0xdf, 0xe0, 0xe1, 0xe2, 0xe3, 0xed, 0xef, 0xf0, 0xf4, 0xf5, 0xff, 0x9a, 0x81}
	for i := 0; i < n; i++ {
		switch x := r.IntN(100); {
		case x < 60:
			src := c15Text(r)
			complete := r.IntN(7) > 0
			if !complete && len(src) > 0 && r.IntN(2) == 0 {
				src = src[:r.IntN(len(src)+1)]
			}
			emit("C15.parse", vutil.Hex(src), vutil.B(complete))
		case x < 90:
			var b strings.Builder
			for k := r.IntN(7); k > 0; k-- {
				if r.IntN(3) == 0 {
					b.WriteString(vutil.Pick(r, []string{"a", "||x^", "\n", "\x00", "Z"}))
				} else {
					b.WriteString(vutil.Pick(r, c15Spaces))
				}
			}
			emit("C15.trim", vutil.Hex(b.String()))
		default:
			k := 1 + r.IntN(6)
			bs := make([]byte, k)
			for j := range bs {
				bs[j] = vutil.Pick(r, pool)
			}
			emit("C15.lastrune", vutil.Hex(string(bs)))
		}
	}
}

func TestVerifC15(t *testing.T) { vutil.Main(t, c15Gen, c15Run) }
