// Package vutil is the shared part of the verification harnesses.  It is
// compiled into the AdGuard Home module only through `go test -overlay`
// (see /verif/bin/check); no file is added to /repo.
package vutil

import (
	"bufio"
	"encoding/hex"
	"fmt"
	"math/rand/v2"
	"os"
	"runtime/debug"
	"strconv"
	"strings"
	"testing"
)

// Hex encodes s for the line protocol; the empty string is "-".
func Hex(s string) string {
	if s == "" {
		return "-"
	}

	return hex.EncodeToString([]byte(s))
}

// Unhex is the inverse of Hex.
func Unhex(s string) string {
	if s == "-" {
		return ""
	}

	b, err := hex.DecodeString(s)
	if err != nil {
		panic(fmt.Sprintf("vutil: bad hex %q", s))
	}

	return string(b)
}

// B encodes a bool.
func B(b bool) string {
	if b {
		return "1"
	}

	return "0"
}

// UnB decodes a bool.
func UnB(s string) bool { return s == "1" }

// Itoa is strconv.Itoa.
func Itoa(i int) string { return strconv.Itoa(i) }

// Atoi parses an int or panics.
func Atoi(s string) int {
	i, err := strconv.Atoi(s)
	if err != nil {
		panic(err)
	}

	return i
}

// Seed returns VERIF_SEED (default 1).
func Seed() uint64 {
	s, err := strconv.ParseUint(os.Getenv("VERIF_SEED"), 10, 64)
	if err != nil {
		return 1
	}

	return s
}

// N returns VERIF_N (the number of cases/histories to generate) or def.
func N(def int) int {
	n, err := strconv.Atoi(os.Getenv("VERIF_N"))
	if err != nil || n <= 0 {
		return def
	}

	return n
}

// Thorough reports whether VERIF_TIER=thorough.
func Thorough() bool { return os.Getenv("VERIF_TIER") == "thorough" }

// Pick returns a random element.
func Pick[T any](r *rand.Rand, xs []T) T { return xs[r.IntN(len(xs))] }

// Emit is what a generator calls for every case (one line of input fields).
type Emit func(fields ...string)

// Main runs a harness.  gen produces cases; run executes ONE input line on the
// implementation and returns its canonical observation.  With VERIF_REPLAY set
// the input lines are read from that file instead of being generated.  Every
// line written to VERIF_OUT is: input fields, "=>", implementation fields.
func Main(t *testing.T, gen func(r *rand.Rand, emit Emit), run func(fields []string) []string) {
	outPath := os.Getenv("VERIF_OUT")
	if outPath == "" {
		t.Skip("VERIF_OUT not set; verification harness is driven by /verif/bin/check")
	}

	f, err := os.Create(outPath)
	if err != nil {
		t.Fatal(err)
	}
	w := bufio.NewWriterSize(f, 1<<20)
	defer func() {
		_ = w.Flush()
		_ = f.Close()
	}()

	one := func(fields ...string) {
		impl := safeRun(run, fields)
		_, _ = w.WriteString(strings.Join(fields, "\t"))
		_, _ = w.WriteString("\t=>\t")
		_, _ = w.WriteString(strings.Join(impl, "\t"))
		_ = w.WriteByte('\n')
	}

	if rp := os.Getenv("VERIF_REPLAY"); rp != "" {
		data, rerr := os.ReadFile(rp)
		if rerr != nil {
			t.Fatal(rerr)
		}
		for _, line := range strings.Split(strings.TrimRight(string(data), "\n"), "\n") {
			if line == "" {
				continue
			}
			fields := strings.Split(line, "\t")
			for i, fl := range fields {
				if fl == "=>" {
					fields = fields[:i]

					break
				}
			}
			one(fields...)
		}

		return
	}

	seed := Seed()
	r := rand.New(rand.NewPCG(seed, 0x9e3779b97f4a7c15))
	gen(r, one)
}

// safeRun converts a panic of the implementation into an observation.
func safeRun(run func(fields []string) []string, fields []string) (impl []string) {
	defer func() {
		if v := recover(); v != nil {
			msg := fmt.Sprint(v)
			if os.Getenv("VERIF_STACK") != "" {
				msg += "\n" + string(debug.Stack())
			}
			impl = []string{"PANIC", Hex(msg)}
		}
	}()

	return run(fields)
}
