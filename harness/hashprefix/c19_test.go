//go:build verif

package hashprefix

import (
	"fmt"
	"go/ast"
	"go/parser"
	"go/token"
	"crypto/sha256"
	"encoding/hex"
	"errors"
	"math/rand/v2"
	"net"
	"reflect"
	"slices"
	"strings"
	"testing"
	"testing/synctest"
	"time"
	"unsafe"

	"github.com/AdguardTeam/AdGuardHome/internal/vutil"
	"github.com/miekg/dns"
	"golang.org/x/net/publicsuffix"
)

// c19Ups is the lookup service: a database of full hashes answering a TXT
// question with every hash carrying one of the 4-hex-digit labels asked.  It
// mirrors `serve` in lean/AGH/Spec/HashPrefix.lean.
type c19Ups struct {
	db        []hostnameHash
	questions []string

	// par: overlapping lookups.  Every Exchange announces itself, waits until
	// the harness releases it, and only then reads the question of the request
	// it was given — what would go on the wire.
	par *c19Par

	// script of the current check
	err, upper, nonTXT bool
	chunk              int
	junk               []string
}

type c19Par struct {
	current int
	entered chan int
	release []chan struct{}
	sent    []string
}

func (u *c19Ups) Exchange(req *dns.Msg) (resp *dns.Msg, err error) {
	if p := u.par; p != nil {
		i := p.current
		p.entered <- i
		<-p.release[i]
		p.sent[i] = req.Question[0].Name
	}
	q := req.Question[0].Name
	u.questions = append(u.questions, q)
	if u.err {
		return nil, errors.New("c19: upstream failure")
	}

	asked := map[string]bool{}
	for _, l := range strings.Split(q, ".") {
		if len(l) == 4 {
			asked[l] = true
		}
	}

	half := len(u.junk) / 2
	strs := append([]string{}, u.junk[:half]...)
	for _, h := range u.db {
		if asked[hex.EncodeToString(h[:2])] {
			s := hex.EncodeToString(h[:])
			if u.upper {
				s = strings.ToUpper(s)
			}
			strs = append(strs, s)
		}
	}
	strs = append(strs, u.junk[half:]...)

	resp = (&dns.Msg{}).SetReply(req)
	hdr := dns.RR_Header{Name: q, Rrtype: dns.TypeTXT, Class: dns.ClassINET, Ttl: 10}
	if u.nonTXT {
		resp.Answer = append(resp.Answer, &dns.A{
			Hdr: dns.RR_Header{Name: q, Rrtype: dns.TypeA, Class: dns.ClassINET}, A: net.IP{1, 2, 3, 4},
		})
	}
	for len(strs) > 0 {
		k := u.chunk
		if k == 0 || k > len(strs) {
			k = len(strs)
		}
		resp.Answer = append(resp.Answer, &dns.TXT{Hdr: hdr, Txt: strs[:k]})
		strs = strs[k:]
	}
	if u.nonTXT {
		resp.Answer = append(resp.Answer, &dns.CNAME{
			Hdr: dns.RR_Header{Name: q, Rrtype: dns.TypeCNAME, Class: dns.ClassINET}, Target: "x.",
		})
	}

	return resp, nil
}

func (u *c19Ups) Address() string { return "c19" }
func (u *c19Ups) Close() error    { return nil }

// c19Dump reads the golibs LRU cache (unexported fields, read-only, without
// touching the usage order): items from least to most recently used.
func c19Dump(c *Checker, baseSec int64) (out []string) {
	cv := reflect.ValueOf(c.cache).Elem()
	usage := cv.FieldByName("usage")
	itemT := cv.FieldByName("items").Type().Elem().Elem()
	usedF, _ := itemT.FieldByName("used")
	head := unsafe.Pointer(usage.UnsafeAddr())
	next := func(p unsafe.Pointer) unsafe.Pointer {
		return *(*unsafe.Pointer)(p) // listItem.next is the first field
	}
	if f0 := usage.Type().Field(0); f0.Name != "next" {
		panic("c19: golibs cache list layout changed")
	}

	n := 0
	for p := next(head); p != head; p = next(p) {
		it := reflect.NewAt(itemT, unsafe.Pointer(uintptr(p)-usedF.Offset)).Elem()
		key := it.FieldByName("key").Bytes()
		val := it.FieldByName("value").Bytes()
		// the raw bytes as fromCacheItem wrote them
		out = append(out, vutil.Hex(string(key)), vutil.Hex(string(val)))
		n++
	}

	return append([]string{vutil.Itoa(n)}, out...)
}

// state of the current block
var (
	c19C       *Checker
	c19U       *c19Ups
	c19BaseSec int64
)

func c19Hash(s string) (h hostnameHash) {
	b := vutil.Unhex(s)
	if len(b) != hashSize {
		panic("c19: bad hash length")
	}
	copy(h[:], b)

	return h
}

// c19Run executes one line on the real Checker.
// c19Consts reports the constants of the package; subDomainNum is local to
// hostnameToHashes and is read from the source.
func c19Consts() string {
	sub := "?"
	fset := token.NewFileSet()
	if file, err := parser.ParseFile(fset, "hashprefix.go", nil, 0); err == nil {
		ast.Inspect(file, func(n ast.Node) bool {
			vs, ok := n.(*ast.ValueSpec)
			if ok && len(vs.Names) == 1 && vs.Names[0].Name == "subDomainNum" && len(vs.Values) == 1 {
				if lit, isLit := vs.Values[0].(*ast.BasicLit); isLit {
					sub = lit.Value
				}
			}

			return true
		})
	}

	return fmt.Sprintf("%d %d %d %s %d", prefixLen, hashSize, hexSize, sub, expirySize)
}

// c19CheckFields lists the fields of the receiver that the body of Check
// touches directly (the request message must be built from locals).
func c19CheckFields() string {
	fset := token.NewFileSet()
	file, err := parser.ParseFile(fset, "hashprefix.go", nil, 0)
	if err != nil {
		return "?"
	}
	seen := map[string]bool{}
	for _, d := range file.Decls {
		fd, ok := d.(*ast.FuncDecl)
		if !ok || fd.Name.Name != "Check" || fd.Recv == nil || len(fd.Recv.List) != 1 || len(fd.Recv.List[0].Names) != 1 {
			continue
		}
		recv := fd.Recv.List[0].Names[0].Name
		methods := map[string]bool{"findInCache": true, "getQuestion": true, "processAnswer": true, "storeInCache": true}
		ast.Inspect(fd.Body, func(n ast.Node) bool {
			sel, isSel := n.(*ast.SelectorExpr)
			if !isSel {
				return true
			}
			if id, isID := sel.X.(*ast.Ident); isID && id.Name == recv && !methods[sel.Sel.Name] {
				seen[sel.Sel.Name] = true
			}

			return true
		})
	}
	var names []string
	for n := range seen {
		names = append(names, n)
	}
	slices.Sort(names)

	return strings.Join(names, " ")
}

// c19RunPar runs overlapping Check calls on the block's Checker: the calls
// are started one after the other, each runs until it is inside the
// upstream's Exchange (or has answered from the cache); then the exchanges
// are released in the same order, each lookup running to its end.
func c19RunPar(f []string) (out []string) {
	n := vutil.Atoi(f[1])
	hosts := make([]string, n)
	i := 2
	for k := 0; k < n; k++ {
		hosts[k] = vutil.Unhex(f[i])
		i += 3
		i += 1 + 2*vutil.Atoi(f[i])
	}
	c19U.err, c19U.upper, c19U.chunk, c19U.nonTXT, c19U.junk = false, false, 0, false, nil
	p := &c19Par{entered: make(chan int), release: make([]chan struct{}, n), sent: make([]string, n)}
	c19U.par = p
	defer func() { c19U.par = nil }()

	type result struct {
		blocked bool
		err     error
	}
	res := make([]result, n)
	done := make([]chan struct{}, n)
	asked := make([]bool, n)
	for k := 0; k < n; k++ {
		p.release[k] = make(chan struct{})
		done[k] = make(chan struct{})
		p.current = k
		go func() {
			defer close(done[k])
			res[k].blocked, res[k].err = c19C.Check(hosts[k])
		}()
		select {
		case <-p.entered:
			asked[k] = true
		case <-done[k]:
		}
	}
	for k := 0; k < n; k++ {
		if asked[k] {
			close(p.release[k])
			<-done[k]
		}
	}
	for k := 0; k < n; k++ {
		v := vutil.B(res[k].blocked)
		if res[k].err != nil {
			v = "err"
		}
		a, q := "0", "-"
		if asked[k] {
			a, q = "1", vutil.Hex(p.sent[k])
		}
		out = append(out, v, a, q)
	}

	return append(out, c19Dump(c19C, c19BaseSec)...)
}

func c19Run(f []string) []string {
	switch f[0] {
	case "C19.steer":
		// sleep until an item stored now would get an encoded expiry whose low m
		// bytes are the given ones; the time slept is part of the answer
		m, want := vutil.Atoi(f[1]), vutil.Unhex(f[2])
		mod, target := int64(1), int64(0)
		for i := 0; i < m; i++ {
			mod *= 256
			target = target*256 + int64(want[i])
		}
		cur := time.Now().Add(c19C.cacheTime).Unix()
		d := time.Duration(((target-cur)%mod+mod)%mod) * time.Second
		time.Sleep(d)

		return []string{"ok", vutil.Itoa(int(d))}
	case "C19.consts":
		return []string{c19Consts()}
	case "C19.checkfields":
		return []string{c19CheckFields()}
	case "C19.par":
		return c19RunPar(f)
	case "C19.reset":
		ttl, size, suffix := vutil.Atoi(f[1]), vutil.Atoi(f[2]), vutil.Unhex(f[3])
		n := vutil.Atoi(f[4])
		c19U = &c19Ups{}
		for i := 0; i < n; i++ {
			c19U.db = append(c19U.db, c19Hash(f[5+i]))
		}
		c19C = New(&Config{
			Upstream: c19U, ServiceName: "c19", TXTSuffix: suffix,
			CacheTime: time.Duration(ttl), CacheSize: uint(size),
		})
		// model time 0 is a whole second
		if ns := time.Now().Nanosecond(); ns != 0 {
			time.Sleep(time.Duration(1_000_000_000 - ns))
		}
		c19BaseSec = time.Now().Unix()

		return []string{"ok", vutil.Itoa(int(c19BaseSec))}
	case "C19.sleep":
		time.Sleep(time.Duration(vutil.Atoi(f[1])))

		return []string{"ok"}
	case "C19.setdb":
		// the lookup service's database changes
		c19U.db = nil
		for i, n := 0, vutil.Atoi(f[1]); i < n; i++ {
			c19U.db = append(c19U.db, c19Hash(f[2+i]))
		}

		return []string{"ok"}
	case "C19.check":
	default:
		panic("unknown op " + f[0])
	}

	host := vutil.Unhex(f[1])
	i := 4 + 2*vutil.Atoi(f[4]) + 1
	c19U.err, c19U.upper, c19U.chunk, c19U.nonTXT = vutil.UnB(f[i]), vutil.UnB(f[i+1]), vutil.Atoi(f[i+2]), vutil.UnB(f[i+3])
	nj := vutil.Atoi(f[i+4])
	c19U.junk = nil
	for j := 0; j < nj; j++ {
		c19U.junk = append(c19U.junk, vutil.Unhex(f[i+5+j]))
	}
	c19U.questions = nil

	blocked, err := c19C.Check(host)

	v := vutil.B(blocked)
	if err != nil {
		v = "err"
	}
	asked, q := "0", "-"
	switch len(c19U.questions) {
	case 0:
	case 1:
		asked, q = "1", vutil.Hex(c19U.questions[0])
	default:
		asked, q = vutil.Itoa(len(c19U.questions)), vutil.Hex(strings.Join(c19U.questions, " "))
	}

	return append([]string{v, asked, q}, c19Dump(c19C, c19BaseSec)...)
}

// c19Subs: the name and everything that follows a dot.
func c19Subs(host string) (subs []string) {
	if host == "" {
		return nil
	}
	subs = []string{host}
	for i := 0; i < len(host); i++ {
		if host[i] == '.' {
			subs = append(subs, host[i+1:])
		}
	}

	return subs
}

var c19Labels = []string{"www", "mail", "a", "b", "cdn", "x1", "api", "dev", "shop", "m", "login", "static", "img"}

var c19Bases = []string{
	"example.com", "example.org", "test.co.uk", "site.net", "foo.dyndns.org", "user.github.io",
	"host.internal", "evil.ru", "bank.com.au", "my.blogspot.com", "foo.bar.kobe.jp", "city.kobe.jp",
	"www.ck", "printer.lan", "xn--e1afmkfd.xn--p1ai",
}

var c19Weird = []string{
	"", ".", "..", "com", "co.uk", "uk", "a..b.com", ".example.com", "example.com.", "a.b.c.d.e.f.g.example.com.",
	"EXAMPLE.COM", "Www.Example.Org", "a.b.test.CO.UK", "github.io", "dyndns.org", "kobe.jp", "localhost",
	"1.2.3.4", "a.b.c.d", "a.b.c.d.e", "x.a.b.c.d.e", "caf\xc3\xa9.example.com", "\xff.example.org", "a.b.c.",
}

var c19Junk = []string{
	"", "abc", strings.Repeat("0", 63), strings.Repeat("a", 65), strings.Repeat("g", 64),
	"z" + strings.Repeat("0", 63), strings.Repeat("0", 63) + "z", strings.Repeat("0", 31) + "-" + strings.Repeat("0", 32),
	strings.Repeat(" ", 64), strings.Repeat("\xff", 64), strings.Repeat("0", 128), "deadbeef",
	strings.Repeat("0", 62) + "\xc3\xa9",
}

// c19Universe builds candidate names and finds those whose SHA-256 collide on
// the 2-byte prefix.
type c19Univ struct {
	names  []string
	groups [][]string // names sharing a prefix, ≥ 2 each
	// straddle: names whose hash repeats its own first two bytes at offset j
	// (1 ≤ j ≤ 30): two other 32-byte values with the same prefix can then be
	// crafted whose concatenation contains the hash across their boundary
	straddle []c19Straddle
	// header: names whose hash repeats its first two bytes at offset m (1..2;
	// steering m bytes of the clock costs up to 256^m seconds of fake time):
	// with the clock steered so that the low m bytes of an item's encoded expiry
	// equal the hash's first m bytes, the hash lies across the 8-byte expiry
	// header and the first stored value of the item
	header []c19Straddle
}

type c19Straddle struct {
	name string
	j    int
}

func c19BuildUniverse() (u *c19Univ) {
	u = &c19Univ{}
	seen := map[string]bool{}
	add := func(s string) {
		if !seen[s] {
			seen[s] = true
			u.names = append(u.names, s)
		}
	}
	for _, b := range c19Bases {
		add(b)
		for _, l1 := range c19Labels {
			add(l1 + "." + b)
			for _, l2 := range c19Labels {
				add(l2 + "." + l1 + "." + b)
				for _, l3 := range c19Labels[:6] {
					add(l3 + "." + l2 + "." + l1 + "." + b)
				}
			}
		}
	}
	byPref := map[[2]byte][]string{}
	for _, n := range u.names {
		h := sha256.Sum256([]byte(n))
		p := [2]byte{h[0], h[1]}
		byPref[p] = append(byPref[p], n)
	}
	for _, n := range u.names {
		h := sha256.Sum256([]byte(n))
		for j := 1; j <= 30; j++ {
			if h[j] == h[0] && h[j+1] == h[1] {
				u.straddle = append(u.straddle, c19Straddle{n, j})

				break
			}
		}
	}
	for d := 0; d < 600000 && len(u.header) < 12; d++ {
		n := fmt.Sprintf("h%d.example.com", d)
		h := sha256.Sum256([]byte(n))
		for m := 1; m <= 2; m++ {
			if h[m] == h[0] && h[m+1] == h[1] {
				u.header = append(u.header, c19Straddle{n, m})

				break
			}
		}
	}
	// deterministic order
	for _, n := range u.names {
		h := sha256.Sum256([]byte(n))
		p := [2]byte{h[0], h[1]}
		if g := byPref[p]; len(g) >= 2 && g[0] == n {
			u.groups = append(u.groups, g)
		}
	}

	return u
}

func c19Gen(r *rand.Rand, emit vutil.Emit) {
	emit("C19.consts")
	emit("C19.checkfields")
	u := c19BuildUniverse()
	blocks := vutil.N(500)
	ttls := []int{0, 1, 500_000_000, 1_000_000_000, 1_500_000_000, 2_000_000_000, 600_000_000_000}
	big := []int{0, 1 << 20, 10000, 4096, 1000}
	tiny := []int{5, 10, 40, 41, 42, 50, 74, 84, 100, 150, 200, 400}
	suffixes := []string{"sb.dns.adguard.com.", "pc.dns.adguard.com.", "x.", "", "abcd.example."}

	for b := 0; b < blocks; b++ {
		ttl := vutil.Pick(r, ttls)
		size := vutil.Pick(r, big)
		if r.IntN(100) < 12 {
			size = vutil.Pick(r, tiny)
		}
		suffix := vutil.Pick(r, suffixes)

		// working set of hosts
		var hosts []string
		for i, n := 0, 1+r.IntN(2); i < n && len(u.groups) > 0; i++ {
			g := vutil.Pick(r, u.groups)
			hosts = append(hosts, g...)
		}
		for i, n := 0, 2+r.IntN(4); i < n; i++ {
			h := vutil.Pick(r, u.names)
			// shorten some: the universe is dominated by its deepest names
			for k := r.IntN(4); k > 0 && strings.Count(h, ".") > 1; k-- {
				h = h[strings.IndexByte(h, '.')+1:]
			}
			hosts = append(hosts, h)
		}
		// children / deeper names / case and dot variants of the working set
		for i, n := 0, 2+r.IntN(4); i < n; i++ {
			h := vutil.Pick(r, hosts)
			switch r.IntN(6) {
			case 0, 1:
				h = vutil.Pick(r, c19Labels) + "." + h
			case 2:
				for k, m := 0, 1+r.IntN(5); k < m; k++ {
					h = vutil.Pick(r, c19Labels) + "." + h
				}
			case 3:
				if h != "" {
					k := 1 + r.IntN(len(h))
					h = strings.ToUpper(h[:k]) + h[k:]
				}
			case 4:
				h += "."
			default:
				h = vutil.Pick(r, c19Weird)
			}
			hosts = append(hosts, h)
		}

		// database: hashes of names around the working set, same-prefix
		// strangers, random hashes, duplicates
		var db []hostnameHash
		for _, h := range hosts {
			subs := c19Subs(h)
			if len(subs) == 0 {
				continue
			}
			switch r.IntN(8) {
			case 0, 1:
				db = append(db, sha256.Sum256([]byte(vutil.Pick(r, subs))))
			case 2:
				db = append(db, sha256.Sum256([]byte(h)))
			case 3, 4:
				// a stranger sharing the 2-byte prefix with one of the name's hashes
				x := sha256.Sum256([]byte(vutil.Pick(r, subs)))
				for k := 2 + r.IntN(30); k < hashSize; k++ {
					x[k] = byte(r.IntN(256))
				}
				x[31] ^= 1
				db = append(db, x)
			case 5:
				var x hostnameHash
				for k := range x {
					x[k] = byte(r.IntN(256))
				}
				db = append(db, x)
			}
		}
		if len(db) > 0 && r.IntN(5) == 0 {
			db = append(db, vutil.Pick(r, db))
		}
		r.Shuffle(len(db), func(i, j int) { db[i], db[j] = db[j], db[i] })
		if len(u.straddle) > 0 && r.IntN(8) == 0 {
			// a name that is NOT listed, and two listed 32-byte values with its
			// prefix, adjacent in every answer, whose concatenation contains
			// the name's hash across the record boundary
			sd := vutil.Pick(r, u.straddle)
			h := hostnameHash(sha256.Sum256([]byte(sd.name)))
			k := hashSize - sd.j
			var h1, h2 hostnameHash
			for i := range h1 {
				h1[i], h2[i] = byte(r.IntN(256)), byte(r.IntN(256))
			}
			h1[0], h1[1] = h[0], h[1]
			copy(h1[k:], h[:sd.j])
			copy(h2[:k], h[sd.j:])
			listed := map[hostnameHash]bool{}
			for _, s := range c19Subs(sd.name) {
				listed[sha256.Sum256([]byte(s))] = true
			}
			db = slices.DeleteFunc(db, func(x hostnameHash) bool { return listed[x] || (x[0] == h[0] && x[1] == h[1]) })
			at := r.IntN(len(db) + 1)
			db = slices.Insert(db, at, h1, h2)
			// make it one of the hot names: looked up fresh, then from the cache
			hosts = append([]string{sd.name}, hosts...)
		}

		var steer *c19Straddle
		if len(u.header) > 0 && r.IntN(12) == 0 && size != 5 && size != 10 {
			sd := vutil.Pick(r, u.header)
			steer = &sd
			h := hostnameHash(sha256.Sum256([]byte(sd.name)))
			var h1 hostnameHash
			for i := range h1 {
				h1[i] = byte(r.IntN(256))
			}
			copy(h1[:], h[sd.j:])
			listed := map[hostnameHash]bool{}
			for _, s := range c19Subs(sd.name) {
				listed[sha256.Sum256([]byte(s))] = true
			}
			db = slices.DeleteFunc(db, func(x hostnameHash) bool { return listed[x] || (x[0] == h[0] && x[1] == h[1]) })
			db = slices.Insert(db, r.IntN(len(db)+1), h1)
			hosts = append([]string{sd.name}, hosts...)
		}

		f := []string{"C19.reset", vutil.Itoa(ttl), vutil.Itoa(size), vutil.Hex(suffix), vutil.Itoa(len(db))}
		for _, h := range db {
			f = append(f, hex.EncodeToString(h[:]))
		}
		emit(f...)

		// model time and, per prefix, the latest time a cache item written so
		// far can still be live: the database may change for a prefix only
		// after that (the property's "until the entry expires")
		now := 0
		liveUntil := map[[2]byte]int{}

		sleeps := []int{0, 1, 499_999_999, 500_000_000, 999_999_999, 1_000_000_000, 1_000_000_001, 1_500_000_000,
			ttl, ttl + 1, ttl + 999_999_999, ttl + 1_000_000_000, max(ttl-1, 0), max(ttl-1_000_000_000, 0), ttl / 2}
		for i, n := 0, 10+r.IntN(25); i < n; i++ {
			if steer != nil && (i == 1 || i == 9) {
				// steer the clock, look the name up (stores the item), look it up again
				hh := sha256.Sum256([]byte(steer.name))
				emit("C19.steer", vutil.Itoa(steer.j), vutil.Hex(string(hh[:steer.j])))
				ps, icann := publicsuffix.PublicSuffix(steer.name)
				subs := c19Subs(steer.name)
				for rep := 0; rep < 2; rep++ {
					f = []string{"C19.check", vutil.Hex(steer.name), vutil.Hex(ps), vutil.B(icann), vutil.Itoa(len(subs))}
					for _, s := range subs {
						h := sha256.Sum256([]byte(s))
						f = append(f, vutil.Hex(s), hex.EncodeToString(h[:]))
						p := [2]byte{h[0], h[1]}
						liveUntil[p] = max(liveUntil[p], now+ttl)
					}
					f = append(f, "0", "0", "0", "0", "0")
					emit(f...)
				}

				continue
			}
			if r.IntN(100) < 22 {
				d := vutil.Pick(r, sleeps)
				now += d
				emit("C19.sleep", vutil.Itoa(d))

				continue
			}
			if r.IntN(100) < 9 {
				if r.IntN(2) == 0 {
					d := ttl + 1 + r.IntN(2)*1_000_000_000
					now += d
					emit("C19.sleep", vutil.Itoa(d))
				}
				// toggle hashes of names of the working set whose prefix has
				// no live item
				changed := false
				for k, m := 0, 1+r.IntN(3); k < m; k++ {
					subs := c19Subs(vutil.Pick(r, hosts))
					if len(subs) == 0 {
						continue
					}
					x := hostnameHash(sha256.Sum256([]byte(vutil.Pick(r, subs))))
					if lu, ok := liveUntil[[2]byte{x[0], x[1]}]; ok && now <= lu {
						continue
					}
					changed = true
					if j := slices.Index(db, x); j >= 0 {
						db = slices.DeleteFunc(db, func(y hostnameHash) bool { return y == x })
					} else {
						db = append(db, x)
					}
				}
				if changed {
					f = []string{"C19.setdb", vutil.Itoa(len(db))}
					for _, h := range db {
						f = append(f, hex.EncodeToString(h[:]))
					}
					emit(f...)
				}

				continue
			}
			if size == 0 || size >= 1000 {
				if r.IntN(100) < 8 {
					// overlapping lookups of 2-8 names on this Checker
					k := 2 + r.IntN(7)
					f = []string{"C19.par", vutil.Itoa(k)}
					for j := 0; j < k; j++ {
						h := vutil.Pick(r, hosts)
						hps, hic := publicsuffix.PublicSuffix(h)
						hsubs := c19Subs(h)
						f = append(f, vutil.Hex(h), vutil.Hex(hps), vutil.B(hic), vutil.Itoa(len(hsubs)))
						for _, s := range hsubs {
							hh := sha256.Sum256([]byte(s))
							f = append(f, vutil.Hex(s), hex.EncodeToString(hh[:]))
							pp := [2]byte{hh[0], hh[1]}
							liveUntil[pp] = max(liveUntil[pp], now+ttl)
						}
					}
					emit(f...)

					continue
				}
			}
			host := vutil.Pick(r, hosts)
			if r.IntN(2) == 0 {
				// a few hot names, so that answers come from the cache
				host = hosts[r.IntN(min(3, len(hosts)))]
			}
			ps, icann := publicsuffix.PublicSuffix(host)
			subs := c19Subs(host)
			f = []string{"C19.check", vutil.Hex(host), vutil.Hex(ps), vutil.B(icann), vutil.Itoa(len(subs))}
			for _, s := range subs {
				h := sha256.Sum256([]byte(s))
				f = append(f, vutil.Hex(s), hex.EncodeToString(h[:]))
				p := [2]byte{h[0], h[1]}
				liveUntil[p] = max(liveUntil[p], now+ttl)
			}
			nj := 0
			if r.IntN(3) == 0 {
				nj = 1 + r.IntN(3)
			}
			f = append(f, vutil.B(r.IntN(20) == 0), vutil.B(r.IntN(5) == 0), vutil.Itoa(r.IntN(4)), vutil.B(r.IntN(5) == 0),
				vutil.Itoa(nj))
			for j := 0; j < nj; j++ {
				f = append(f, vutil.Hex(vutil.Pick(r, c19Junk)))
			}
			emit(f...)
		}
	}
}

func TestVerifC19(t *testing.T) {
	synctest.Test(t, func(t *testing.T) { vutil.Main(t, c19Gen, c19Run) })
}
