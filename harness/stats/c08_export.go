//go:build verif

package stats

import "go.etcd.io/bbolt"

// VerifC08Unit returns copies of the client and domain counters of the current
// unit of s.  It is compiled into the package only by the verification
// overlay.
func VerifC08Unit(s *StatsCtx) (clients, domains, blocked map[string]uint64) {
	s.currMu.RLock()
	defer s.currMu.RUnlock()

	clients, domains, blocked = map[string]uint64{}, map[string]uint64{}, map[string]uint64{}
	if s.curr == nil {
		return clients, domains, blocked
	}

	for k, v := range s.curr.clients {
		clients[k] = v
	}
	for k, v := range s.curr.domains {
		domains[k] = v
	}
	for k, v := range s.curr.blockedDomains {
		blocked[k] = v
	}

	return clients, domains, blocked
}

// VerifC08NoSync makes the temporary database file skip fsync (speed only).
func VerifC08NoSync(s *StatsCtx) {
	if db := s.db.Load(); db != nil {
		db.NoSync = true
	}
}

// VerifC08InitWeb registers the HTTP handlers of s exactly as Start does, but
// does not start the periodic-flush goroutine (it never ends, even after
// Close, and would keep every block's modules alive).
func VerifC08InitWeb(s *StatsCtx) {
	s.initWeb()
}

// VerifC08Flush runs one iteration of the periodic flush: when the unit-id
// clock has moved on, the current unit is written to the database and a new
// one is started.
func VerifC08Flush(s *StatsCtx) {
	_, _ = s.flush()
}

// VerifC08DB returns the open database of s (nil after Close) so that the
// harness can read the buckets raw.
func VerifC08DB(s *StatsCtx) (db *bbolt.DB) {
	return s.db.Load()
}

// VerifC08Rebase puts s on the harness's unit-id clock: initDNS creates the
// module on the wall clock (it passes no Config.UnitID); the current unit is
// re-created for clock() exactly as New creates it (loaded from its bucket).
func VerifC08Rebase(s *StatsCtx, clock func() (id uint32)) {
	s.currMu.Lock()
	defer s.currMu.Unlock()

	s.unitIDGen = clock
	id := clock()

	var udb *unitDB
	if db := s.db.Load(); db != nil {
		tx, err := db.Begin(true)
		if err != nil {
			panic(err)
		}
		udb = s.loadUnitFromDB(tx, id)
		if err = finishTxn(tx, false); err != nil {
			panic(err)
		}
	}

	s.curr = newUnit(id)
	s.curr.deserialize(udb)
}

// VerifC08CurID returns the id of the current unit of s.
func VerifC08CurID(s *StatsCtx) (id uint32) {
	s.currMu.RLock()
	defer s.currMu.RUnlock()

	return s.curr.id
}
