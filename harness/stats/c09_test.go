//go:build verif

package stats

import (
	"bytes"
	"context"
	"encoding/gob"
	"encoding/json"
	"fmt"
	"go/ast"
	"go/parser"
	"go/token"
	"log/slog"
	"math/rand/v2"
	"net/http"
	"net/http/httptest"
	"os"
	"os/signal"
	"path/filepath"
	"sort"
	"strconv"
	"strings"
	"sync"
	"sync/atomic"
	"syscall"
	"testing"
	"testing/synctest"
	"time"

	"github.com/AdguardTeam/AdGuardHome/internal/vutil"
	"go.etcd.io/bbolt"
)

// c09Ctx is the implementation state kept between the lines of one block.
type c09Ctx struct {
	s     *StatsCtx
	dir   string
	clock atomic.Uint32
	hook  *c09Hook
	// down is set between C09.close and C09.open
	down bool
	// scripted UnitID generator: gcalls counts its calls; when flipAfter = k > 0
	// the hour moves on by one right after the k-th call has been answered
	gcalls    atomic.Int32
	flipAfter atomic.Int32
}

// unitID is the UnitID generator of the context.
func (c *c09Ctx) unitID() uint32 {
	n := c.gcalls.Add(1)
	v := c.clock.Load()
	if k := c.flipAfter.Load(); k > 0 && n == k {
		c.clock.Add(1)
	}

	return v
}

// newScripted runs New while the hour flips after the k-th clock read of that
// call; it returns how many times New read the clock.
func (c *c09Ctx) newScripted(limitMs int64, enabled bool, k int) (calls int) {
	c.gcalls.Store(0)
	c.flipAfter.Store(int32(k))
	s, err := New(c.conf(limitMs, enabled))
	c.flipAfter.Store(0)
	if err != nil {
		c.s = nil
		panic("New: " + err.Error())
	}
	c.s = s

	return int(c.gcalls.Load())
}

// c09Hook lets a harness op stall the implementation at a log call (the
// logger is part of Config, so no source is touched): when armed, the first
// record with the given message signals `reached` and waits for `release`.
type c09Hook struct {
	// loopDone is set when periodicFlush logs that it has finished
	watchLoop atomic.Bool
	loopDone  atomic.Bool
	armed     atomic.Bool
	msg     atomic.Value
	reached chan struct{}
	release chan struct{}
}

func newC09Hook() *c09Hook {
	return &c09Hook{reached: make(chan struct{}), release: make(chan struct{})}
}

type c09Handler struct{ h *c09Hook }

func (x c09Handler) Enabled(context.Context, slog.Level) bool {
	return x.h.armed.Load() || x.h.watchLoop.Load()
}

func (x c09Handler) Handle(_ context.Context, r slog.Record) error {
	if r.Message == "periodic flushing finished" {
		x.h.loopDone.Store(true)
	}
	if want, _ := x.h.msg.Load().(string); r.Message == want && x.h.armed.CompareAndSwap(true, false) {
		x.h.reached <- struct{}{}
		<-x.h.release
	}

	return nil
}

func (x c09Handler) WithAttrs([]slog.Attr) slog.Handler { return x }
func (x c09Handler) WithGroup(string) slog.Handler      { return x }

var c09 *c09Ctx

func c09TempDir() string {
	base := os.TempDir()
	if st, err := os.Stat("/dev/shm"); err == nil && st.IsDir() {
		base = "/dev/shm"
	}
	dir, err := os.MkdirTemp(base, "verif-c09-")
	if err != nil {
		panic(err)
	}

	return dir
}

func (c *c09Ctx) conf(limitMs int64, enabled bool) Config {
	if c.hook == nil {
		c.hook = newC09Hook()
	}

	return Config{
		Logger:            slog.New(c09Handler{h: c.hook}),
		UnitID:            c.unitID,
		ConfigModified:    func() {},
		ShouldCountClient: func([]string) bool { return true },
		Filename:          filepath.Join(c.dir, "stats.db"),
		Limit:             time.Duration(limitMs) * time.Millisecond,
		Enabled:           enabled,
	}
}

// nosync makes the temporary bbolt file skip fsync (speed only).
func (c *c09Ctx) nosync() {
	if db := c.s.db.Load(); db != nil {
		db.NoSync = true
	}
}

func c09Drop() {
	if c09 == nil {
		return
	}
	if c09.s != nil {
		_ = c09.s.Close()
	}
	_ = os.RemoveAll(c09.dir)
	c09 = nil
}

func c09Counters(n []uint64) string {
	parts := make([]string, 0, len(n))
	for _, x := range n {
		parts = append(parts, strconv.FormatUint(x, 10))
	}

	return strings.Join(parts, ",")
}

func c09Series(a []uint64) string {
	var sb strings.Builder
	sb.WriteString(strconv.Itoa(len(a)))
	sb.WriteByte('|')
	first := true
	for i, x := range a {
		if x == 0 {
			continue
		}
		if !first {
			sb.WriteByte(',')
		}
		first = false
		sb.WriteString(strconv.Itoa(i))
		sb.WriteByte(':')
		sb.WriteString(strconv.FormatUint(x, 10))
	}

	return sb.String()
}

// c09DumpDB lists every bucket of the file in key order.
func (c *c09Ctx) dumpDB() string {
	db := c.s.db.Load()
	if db == nil {
		return "nodb"
	}
	var parts []string
	err := db.View(func(tx *bbolt.Tx) error {
		return tx.ForEach(func(name []byte, _ *bbolt.Bucket) error {
			id, ok := unitNameToID(name)
			if !ok || len(name) != bucketNameLen {
				parts = append(parts, fmt.Sprintf("badname-%x", name))

				return nil
			}
			udb := c.s.loadUnitFromDB(tx, id)
			if udb == nil {
				parts = append(parts, fmt.Sprintf("%d:undecodable", id))

				return nil
			}
			parts = append(parts, fmt.Sprintf("%d:%d:%s", id, udb.NTotal, c09Counters(udb.NResult))+
				c09CodecCheck(tx.Bucket(name), udb))

			return nil
		})
	})
	if err != nil {
		return "dberr-" + vutil.Hex(err.Error())
	}
	if len(parts) == 0 {
		return "empty"
	}

	return strings.Join(parts, ";")
}

// dumpFile lists the buckets of the database file of a closed context.
func (c *c09Ctx) dumpFile() string {
	db, err := bbolt.Open(filepath.Join(c.dir, "stats.db"), 0o644, &bbolt.Options{ReadOnly: true, Timeout: time.Second})
	if err != nil {
		return "openerr-" + vutil.Hex(err.Error())
	}
	defer func() { _ = db.Close() }()
	c.s.db.Store(db)
	defer c.s.db.Store(nil)

	return c.dumpDB()
}

// observeDown is the observation while the context is closed.
func (c *c09Ctx) observeDown() []string {
	s := c.s

	return []string{"p0", vutil.B(s.enabled), strconv.FormatInt(s.limit.Milliseconds(), 10),
		strconv.FormatUint(uint64(s.curr.id), 10), strconv.FormatUint(s.curr.nTotal, 10), c09Counters(s.curr.nResult),
		c.dumpFile(), "closed"}
}

// c09MirrorUnit is an independent description of what a bucket holds: the gob
// stream under the single key {0}, with these field names and types.  It is
// decoded from the raw bytes and compared with what the package's own
// loadUnitFromDB returned; the per-name lists must also account for the
// counters (the harness never uses more than 100 names per hour).
type c09MirrorPair struct {
	Name  string
	Count uint64
}

type c09MirrorUnit struct {
	NResult            []uint64
	Domains            []c09MirrorPair
	BlockedDomains     []c09MirrorPair
	Clients            []c09MirrorPair
	UpstreamsResponses []c09MirrorPair
	UpstreamsTimeSum   []c09MirrorPair
	NTotal             uint64
	TimeAvg            uint32
}

// c09CodecCheck returns "" when the bucket is what the model takes it to be,
// a marker otherwise (the model never predicts a marker).
func c09CodecCheck(bkt *bbolt.Bucket, udb *unitDB) string {
	if bkt == nil {
		return "!nobucket"
	}
	keys := 0
	_ = bkt.ForEach(func(k, _ []byte) error {
		if len(k) != 1 || k[0] != 0 {
			keys += 100
		}
		keys++

		return nil
	})
	if keys != 1 {
		return "!keys"
	}
	m := &c09MirrorUnit{}
	if err := gob.NewDecoder(bytes.NewReader(bkt.Get([]byte{0}))).Decode(m); err != nil {
		return "!gob"
	}
	if m.NTotal != udb.NTotal || c09Counters(m.NResult) != c09Counters(udb.NResult) || len(m.NResult) != int(resultLast) ||
		len(m.Clients) != len(udb.Clients) || len(m.Domains) != len(udb.Domains) ||
		len(m.BlockedDomains) != len(udb.BlockedDomains) || m.TimeAvg != udb.TimeAvg {
		return "!codec"
	}
	sum := func(a []c09MirrorPair) (n uint64) {
		for _, p := range a {
			n += p.Count
		}

		return n
	}
	for i, p := range m.Clients {
		if p.Name != udb.Clients[i].Name || p.Count != udb.Clients[i].Count {
			return "!codec"
		}
	}
	var blocked uint64
	for _, x := range m.NResult[RFiltered:] {
		blocked += x
	}
	if sum(m.Clients) != m.NTotal || sum(m.Domains) != m.NResult[RNotFiltered] || sum(m.BlockedDomains) != blocked ||
		m.NResult[0] != 0 {
		return "!sums"
	}

	return ""
}

func c09SumTop(a []topAddrs) (n uint64) {
	for _, m := range a {
		for _, v := range m {
			n += v
		}
	}

	return n
}

// c09Read performs GET /control/stats through the real handler.
func (c *c09Ctx) read() (out []string) {
	defer func() {
		if v := recover(); v != nil {
			out = []string{"panic"}
		}
	}()
	w := httptest.NewRecorder()
	r := httptest.NewRequest(http.MethodGet, "/control/stats", nil)
	c.s.handleStats(w, r)
	if w.Code != http.StatusOK {
		return []string{"e" + strconv.Itoa(w.Code)}
	}
	resp := &StatsResp{}
	if err := json.Unmarshal(w.Body.Bytes(), resp); err != nil {
		return []string{"badjson"}
	}
	u := "?" + resp.TimeUnits
	switch resp.TimeUnits {
	case timeUnitsHours:
		u = "h"
	case timeUnitsDays:
		u = "d"
	}

	return []string{"ok", u,
		c09Series(resp.DNSQueries), c09Series(resp.BlockedFiltering),
		c09Series(resp.ReplacedSafebrowsing), c09Series(resp.ReplacedParental),
		strconv.FormatUint(resp.NumDNSQueries, 10), strconv.FormatUint(resp.NumBlockedFiltering, 10),
		strconv.FormatUint(resp.NumReplacedSafebrowsing, 10), strconv.FormatUint(resp.NumReplacedSafesearch, 10),
		strconv.FormatUint(resp.NumReplacedParental, 10),
		// the top lists of the answer, summed (complete: never more than 100 names)
		strconv.FormatUint(c09SumTop(resp.TopClients), 10), strconv.FormatUint(c09SumTop(resp.TopQueried), 10),
		strconv.FormatUint(c09SumTop(resp.TopBlocked), 10)}
}

// observe is the canonical observation after an operation.
func (c *c09Ctx) observe(withDB bool, panics int) []string {
	c.nosync()
	s := c.s
	dbs := "-"
	if withDB {
		dbs = c.dumpDB()
	}
	out := []string{"p" + strconv.Itoa(panics), vutil.B(s.enabled), strconv.FormatInt(s.limit.Milliseconds(), 10),
		strconv.FormatUint(uint64(s.curr.id), 10), strconv.FormatUint(s.curr.nTotal, 10), c09Counters(s.curr.nResult), dbs}

	return append(out, c.read()...)
}

var (
	c09Domains = []string{"example.org", "ads.example", "tracker.test", "a.b.c", "x"}
	c09Clients = []string{"192.0.2.1", "192.0.2.2", "2001:db8::1", "laptop"}
)

func c09U32(s string) uint32 {
	n, err := strconv.ParseUint(s, 10, 32)
	if err != nil {
		panic(err)
	}

	return uint32(n)
}

func c09I64(s string) int64 {
	n, err := strconv.ParseInt(s, 10, 64)
	if err != nil {
		panic(err)
	}

	return n
}

func (c *c09Ctx) httpDo(h http.HandlerFunc, method, body string) int {
	w := httptest.NewRecorder()
	r := httptest.NewRequest(method, "/", bytes.NewReader([]byte(body)))
	h(w, r)

	return w.Code
}

// c09Run executes one line on the real StatsCtx.
func c09Run(f []string) []string {
	op := f[0]
	if op == "C09.conc" {
		return c09Conc(f)
	}
	if op == "C09.locks" {
		return c09LockFacts()
	}
	if op == "C09.top" {
		return c09Top(f)
	}
	if op == "C09.reset" {
		c09Drop()
		c := &c09Ctx{dir: c09TempDir()}
		c.clock.Store(c09U32(f[1]))
		s, err := New(c.conf(c09I64(f[2]), vutil.UnB(f[3])))
		if err != nil {
			_ = os.RemoveAll(c.dir)
			panic("New: " + err.Error())
		}
		c.s = s
		c09 = c

		return c.observe(true, 0)
	}
	c := c09
	if c == nil || c.s == nil {
		panic("no context: block must start with C09.reset")
	}
	if c.down {
		switch op {
		case "C09.advance":
			c.clock.Store(c09U32(f[1]))

			return c.observeDown()
		case "C09.openflip":
			calls := c.newScripted(c09I64(f[1]), vutil.UnB(f[2]), vutil.Atoi(f[3]))
			c.down = false

			return append([]string{"g" + strconv.Itoa(calls)}, c.observe(true, 0)...)
		case "C09.open":
			s, err := New(c.conf(c09I64(f[1]), vutil.UnB(f[2])))
			if err != nil {
				panic("New: " + err.Error())
			}
			c.s = s
			c.down = false

			return c.observe(true, 0)
		default:
			panic("context is closed: only C09.advance / C09.open, got " + op)
		}
	}
	switch op {
	case "C09.advance":
		// the UnitID generator moves on; the flush goroutine has not run yet
		c.clock.Store(c09U32(f[1]))

		return c.observe(false, 0)
	case "C09.close":
		if err := c.s.Close(); err != nil {
			panic("Close: " + err.Error())
		}
		c.down = true

		return c.observeDown()
	case "C09.upd":
		res, n := c09I64(f[1]), vutil.Atoi(f[2])
		e := &Entry{
			Domain:         c09Domains[int((res%5+5)%5)],
			Client:         c09Clients[n%len(c09Clients)],
			Result:         Result(res),
			ProcessingTime: time.Duration(n) * time.Millisecond,
		}
		if vutil.UnB(f[3]) {
			e.Domain = ""
		}
		if vutil.UnB(f[4]) {
			e.Client = ""
		}
		panics := 0
		for i := 0; i < n; i++ {
			func() {
				defer func() {
					if recover() != nil {
						panics++
					}
				}()
				c.s.Update(e)
			}()
		}

		return c.observe(false, panics)
	case "C09.tick":
		c.clock.Store(c09U32(f[1]))
		c.s.flush()

		return c.observe(true, 0)
	case "C09.restart":
		if err := c.s.Close(); err != nil {
			panic("Close: " + err.Error())
		}
		c.clock.Store(c09U32(f[1]))
		s, err := New(c.conf(c09I64(f[2]), vutil.UnB(f[3])))
		if err != nil {
			c.s = nil
			panic("New: " + err.Error())
		}
		c.s = s

		return c.observe(true, 0)
	case "C09.restartflip":
		// Close, the clock shows hour f[1], New — and the hour flips during New
		if err := c.s.Close(); err != nil {
			panic("Close: " + err.Error())
		}
		c.clock.Store(c09U32(f[1]))
		calls := c.newScripted(c09I64(f[2]), vutil.UnB(f[3]), vutil.Atoi(f[4]))

		return append([]string{"g" + strconv.Itoa(calls)}, c.observe(true, 0)...)
	case "C09.setdays":
		c.httpDo(c.s.handleStatsConfig, http.MethodPost, `{"interval":`+f[1]+`}`)

		return c.observe(true, 0)
	case "C09.putconf":
		en := "false"
		if vutil.UnB(f[2]) {
			en = "true"
		}
		c.httpDo(c.s.handlePutStatsConfig, http.MethodPut, `{"enabled":`+en+`,"interval":`+f[1]+`,"ignored":[]}`)

		return c.observe(false, 0)
	case "C09.clear":
		c.httpDo(c.s.handleStatsReset, http.MethodPost, "")

		return c.observe(true, 0)
	case "C09.read":
		return c.observe(false, 0)
	case "C09.tickfail":
		// the hourly flush while every write to a file fails (RLIMIT_FSIZE = 0):
		// bbolt cannot commit the transaction of flushDB
		signal.Ignore(syscall.SIGXFSZ)
		var old syscall.Rlimit
		if err := syscall.Getrlimit(syscall.RLIMIT_FSIZE, &old); err != nil {
			panic(err)
		}
		if err := syscall.Setrlimit(syscall.RLIMIT_FSIZE, &syscall.Rlimit{Cur: 0, Max: old.Max}); err != nil {
			panic(err)
		}
		c.clock.Store(c09U32(f[1]))
		c.s.flush()
		if err := syscall.Setrlimit(syscall.RLIMIT_FSIZE, &old); err != nil {
			panic(err)
		}

		return c.observe(true, 0)
	case "C09.readinreset":
		// GET /control/stats while POST /control/stats_reset is inside clear()
		// between db.Swap(nil) and openDB: clear() is stalled at db.Begin(true)
		// by a write transaction held here
		db := c.s.db.Load()
		tx, err := db.Begin(true)
		if err != nil {
			panic(err)
		}
		done := make(chan struct{})
		go func() {
			defer close(done)
			c.httpDo(c.s.handleStatsReset, http.MethodPost, "")
		}()
		for i := 0; c.s.db.Load() != nil && i < 20000; i++ {
			time.Sleep(50 * time.Microsecond)
		}
		// (with confMu held by the reset, as in the repaired tree, the swap does
		// happen but the read below waits for the reset instead of failing)
		midCh := make(chan string, 1)
		go func() { midCh <- c.read()[0] }()
		mid := "blocked"
		select {
		case mid = <-midCh:
		case <-time.After(300 * time.Millisecond):
		}
		_ = tx.Rollback()
		<-done
		if mid == "blocked" {
			<-midCh
		}

		return append([]string{"mid=" + mid}, c.observe(true, 0)...)
	case "C09.resetrace":
		// POST /control/stats_reset racing with the hourly flush: clear() is
		// stalled right after it has opened the new file (at its "database
		// opened" log line), the flush runs, clear() continues
		c.clock.Store(c09U32(f[1]))
		c.hook.msg.Store("database opened")
		c.hook.armed.Store(true)
		done := make(chan struct{})
		go func() {
			defer close(done)
			c.httpDo(c.s.handleStatsReset, http.MethodPost, "")
		}()
		<-c.hook.reached
		// in the repaired tree the reset holds confMu and the flush has to wait
		flushed := make(chan struct{})
		go func() { defer close(flushed); c.s.flush() }()
		select {
		case <-flushed:
		case <-time.After(300 * time.Millisecond):
		}
		c.hook.release <- struct{}{}
		<-done
		<-flushed

		return c.observe(true, 0)
	default:
		panic("unknown op " + op)
	}
}

// c09Conc: writers × per Updates run concurrently with `ticks` hour rollovers
// and with readers; the observation is the final totals and whether every
// concurrent read was monotone and never above the final total.
func c09Conc(f []string) []string {
	c := &c09Ctx{dir: c09TempDir()}
	defer func() { _ = os.RemoveAll(c.dir) }()
	clock := c09U32(f[1])
	c.clock.Store(clock)
	writers, per, ticks := vutil.Atoi(f[3]), vutil.Atoi(f[4]), vutil.Atoi(f[5])
	s, err := New(c.conf(c09I64(f[2]), true))
	if err != nil {
		panic("New: " + err.Error())
	}
	c.s = s
	defer func() { _ = s.Close() }()
	c.nosync()

	var wg, rwg sync.WaitGroup
	start := make(chan struct{})
	for i := 0; i < writers; i++ {
		wg.Add(1)
		go func(i int) {
			defer wg.Done()
			e := &Entry{Domain: c09Domains[i%len(c09Domains)], Client: c09Clients[i%len(c09Clients)], Result: Result(i%5 + 1)}
			<-start
			for k := 0; k < per; k++ {
				s.Update(e)
			}
		}(i)
	}
	wg.Add(1)
	go func() {
		defer wg.Done()
		<-start
		for k := 0; k < ticks; k++ {
			c.clock.Add(1)
			s.flush()
			time.Sleep(50 * time.Microsecond)
		}
	}()
	var stop atomic.Bool
	var mono atomic.Bool
	mono.Store(true)
	maxSeen := make([]uint64, 2)
	for rI := 0; rI < 2; rI++ {
		rwg.Add(1)
		go func(rI int) {
			defer rwg.Done()
			<-start
			var last uint64
			for !stop.Load() {
				var resp *StatsResp
				var ok bool
				func() {
					s.confMu.RLock()
					defer s.confMu.RUnlock()
					resp, ok = s.getData(uint32(s.limit.Hours()))
				}()
				if !ok || resp.NumDNSQueries < last {
					mono.Store(false)
				} else {
					last = resp.NumDNSQueries
				}
				time.Sleep(20 * time.Microsecond)
			}
			maxSeen[rI] = last
		}(rI)
	}
	close(start)
	wg.Wait()
	stop.Store(true)
	rwg.Wait()

	rd := c.read()
	if rd[0] != "ok" {
		return []string{rd[0]}
	}
	final, _ := strconv.ParseUint(rd[6], 10, 64)
	m := mono.Load() && maxSeen[0] <= final && maxSeen[1] <= final

	return []string{rd[6], rd[7], rd[8], rd[9], rd[10], vutil.B(m)}
}

// ---- generator ----

var c09LimitHours = []int64{1, 1, 2, 2, 3, 5, 23, 24, 24, 24, 25, 47, 48, 72, 167, 168, 168, 169, 191, 192, 193, 215, 216, 240}

func c09GenLimit(r *rand.Rand) int64 {
	h := vutil.Pick(r, c09LimitHours)
	// long retentions are expensive to read (limit-1 bucket lookups): keep them rare
	switch k := r.IntN(200); {
	case k == 0:
		h = 8760
	case k < 4:
		h = 2160
	case k < 14:
		h = vutil.Pick(r, []int64{720, 720, 721, 719, 384})
	}
	ms := h * 3600000
	switch r.IntN(5) {
	case 0:
		if h < 8760 {
			ms += r.Int64N(3600000) // a fraction of an hour on top
		}
	case 1:
		if h < 8760 {
			ms += 3599999
		}
	}

	return ms
}

func c09GenBase(r *rand.Rand) (base uint32, inDomain bool) {
	switch r.IntN(20) {
	case 0:
		return 8761, true // first hour of the domain
	case 1:
		return uint32(8761 + r.IntN(300)), true
	case 2:
		return uint32(4294967295 - 20000 - r.IntN(100000)), true
	case 3:
		// outside the domain: hours of 1970, where `id - limit - 1` wraps
		return uint32(r.IntN(8761)), false
	case 4:
		return uint32(r.IntN(50)), false
	default:
		return uint32(400000 + r.IntN(200000)), true // 2015 … 2038
	}
}

func c09GenGap(r *rand.Rand, limitH int64) uint32 {
	switch r.IntN(20) {
	case 0:
		return 0
	case 1, 2, 3, 4, 5, 6, 7, 8, 9:
		return 1
	case 10, 11:
		return uint32(2 + r.IntN(3))
	case 12:
		return uint32(max(limitH-1, 0))
	case 13:
		return uint32(limitH)
	case 14:
		return uint32(limitH + 1)
	case 15:
		return uint32(1 + r.Int64N(limitH+1))
	case 16:
		return uint32(24 - r.IntN(3) + 1)
	case 17:
		return uint32(1 + r.IntN(1000))
	case 18:
		return uint32(1 + r.IntN(20000))
	default:
		return uint32(1 + r.IntN(30))
	}
}

// c09Lag advances the clock by a gap that matters around the window edge.
func c09Lag(r *rand.Rand, clock uint32, limH int64) uint32 {
	gap := vutil.Pick(r, []int64{1, 1, 1, 2, 3, limH - 1, limH, limH + 1, 30, 24, 25})
	if gap < 1 {
		gap = 1
	}
	if uint64(clock)+uint64(gap) < 4294967295 {
		clock += uint32(gap)
	}

	return clock
}

func c09GenResult(r *rand.Rand) int {
	switch r.IntN(40) {
	case 0:
		return 0
	case 1:
		return 6
	case 2:
		return 7 + r.IntN(1000)
	case 3:
		return -1 - r.IntN(3)
	default:
		return vutil.Pick(r, []int{1, 1, 1, 1, 2, 2, 2, 3, 4, 5})
	}
}

func c09Gen(r *rand.Rand, emit vutil.Emit) {
	n := vutil.N(2000)
	emit("C09.locks")
	for i := 0; i < n/10+5; i++ {
		cnt := 1 + r.IntN(300)
		if i%4 == 0 {
			cnt = 500 + r.IntN(2500)
		}
		emit("C09.top", vutil.Itoa(r.IntN(1<<30)), vutil.Itoa(cnt),
			vutil.Itoa(vutil.Pick(r, []int{1, 3, 50, 99, 100, 101, 130, 400})),
			vutil.Itoa(vutil.Pick(r, []int{1, 5, 100, 101, 250})))
	}
	for b := 0; b < n; b++ {
		base, inDom := c09GenBase(r)
		limMs := c09GenLimit(r)
		limH := limMs / 3600000
		clock := base
		emit("C09.reset", vutil.Itoa(int(clock)), strconv.FormatInt(limMs, 10), vutil.B(r.IntN(12) > 0))
		steps := 10 + r.IntN(60)
		// some blocks keep the limit fixed (exact conservation), some change it a lot
		cfgWeight := vutil.Pick(r, []int{0, 0, 4, 10, 25})
		for i := 0; i < steps; i++ {
			k := r.IntN(100)
			switch {
			case k < cfgWeight:
				switch r.IntN(3) {
				case 0:
					d := vutil.Pick(r, []int{1, 7, 30, 90, 1, 7, 0, 2, 365, 24})
					emit("C09.setdays", vutil.Itoa(d))
					if d == 1 || d == 7 || d == 30 || d == 90 {
						limH = int64(d) * 24
					}
				default:
					ms := c09GenLimit(r)
					switch r.IntN(12) {
					case 0:
						ms = 0
					case 1:
						ms = 3599999
					case 2:
						ms = 365*24*3600000 + 1
					}
					emit("C09.putconf", strconv.FormatInt(ms, 10), vutil.B(r.IntN(6) > 0))
					if ms >= 3600000 && ms <= 365*24*3600000 {
						limH = ms / 3600000
					}
				}
			case k < cfgWeight+40:
				cnt := 1 + r.IntN(4)
				if r.IntN(10) == 0 {
					cnt = 1 + r.IntN(40)
				}
				emit("C09.upd", vutil.Itoa(c09GenResult(r)), vutil.Itoa(cnt), vutil.B(r.IntN(40) == 0), vutil.B(r.IntN(40) == 0))
			case k < cfgWeight+68:
				gap := c09GenGap(r, limH)
				if !inDom && r.IntN(6) == 0 && clock > 3 {
					clock -= uint32(1 + r.IntN(3)) // clock goes backwards (outside the domain)
				} else if uint64(clock)+uint64(gap) < 4294967295 {
					clock += gap
				}
				emit("C09.tick", vutil.Itoa(int(clock)))
			case k < cfgWeight+73:
				// the clock moves on without a flush (suspend/resume, slow poller)
				clock = c09Lag(r, clock, limH)
				emit("C09.advance", vutil.Itoa(int(clock)))
			case k < cfgWeight+78 && r.IntN(2) == 0:
				// a restart in its real parts: [advance] Close [advance] New
				if r.IntN(5) < 3 {
					clock = c09Lag(r, clock, limH)
					emit("C09.advance", vutil.Itoa(int(clock)))
				}
				emit("C09.close")
				if r.IntN(3) == 0 {
					clock = c09Lag(r, clock, limH)
					emit("C09.advance", vutil.Itoa(int(clock)))
				}
				lm := limH * 3600000
				if r.IntN(4) == 0 {
					lm = c09GenLimit(r)
				}
				limH = lm / 3600000
				if r.IntN(3) == 0 {
					// the hour flips while New runs, after its k-th clock read
					k := 1 + r.IntN(3)
					emit("C09.openflip", strconv.FormatInt(lm, 10), vutil.B(r.IntN(12) > 0), vutil.Itoa(k))
					if k == 1 {
						clock++
					}
				} else {
					emit("C09.open", strconv.FormatInt(lm, 10), vutil.B(r.IntN(12) > 0))
				}
			case k < cfgWeight+78:
				if r.IntN(2) == 0 {
					gap := c09GenGap(r, limH)
					if uint64(clock)+uint64(gap) < 4294967295 {
						clock += gap
					}
				}
				lm := limH * 3600000
				if r.IntN(4) == 0 {
					lm = c09GenLimit(r)
				}
				limH = lm / 3600000
				if r.IntN(3) == 0 && clock < 4294967290 {
					k := 1 + r.IntN(3)
					emit("C09.restartflip", vutil.Itoa(int(clock)), strconv.FormatInt(lm, 10), vutil.B(r.IntN(12) > 0), vutil.Itoa(k))
					if k == 1 {
						clock++
					}
				} else {
					emit("C09.restart", vutil.Itoa(int(clock)), strconv.FormatInt(lm, 10), vutil.B(r.IntN(12) > 0))
				}
			case k < cfgWeight+80:
				emit("C09.clear")
			default:
				emit("C09.read")
			}
		}
	}
}

func TestVerifC09(t *testing.T) {
	defer c09Drop()
	vutil.Main(t, c09Gen, c09Run)
}

// c09GenConc generates the concurrent cases (run with -race).
func c09GenConc(r *rand.Rand, emit vutil.Emit) {
	n := vutil.N(20)
	for i := 0; i < n; i++ {
		limH := vutil.Pick(r, []int64{24, 24, 48, 168, 13})
		ticks := r.IntN(int(min(limH-1, 12)))
		writers := 2 + r.IntN(7)
		per := 20 + r.IntN(100)
		emit("C09.conc", vutil.Itoa(400000+r.IntN(100000)), strconv.FormatInt(limH*3600000, 10),
			vutil.Itoa(writers), vutil.Itoa(per), vutil.Itoa(ticks))
	}
}

func TestVerifC09Conc(t *testing.T) { vutil.Main(t, c09GenConc, c09Run) }

// ---- lock facts (the atomicity the model assumes) ----

// c09MuCall recognises `s.<mu>.<method>()` and returns "<mu>.<method>".
func c09MuCall(e ast.Expr) string {
	call, ok := e.(*ast.CallExpr)
	if !ok || len(call.Args) != 0 {
		return ""
	}
	sel, ok := call.Fun.(*ast.SelectorExpr)
	if !ok {
		return ""
	}
	inner, ok := sel.X.(*ast.SelectorExpr)
	if !ok {
		return ""
	}
	if id, isID := inner.X.(*ast.Ident); !isID || id.Name != "s" {
		return ""
	}
	switch inner.Sel.Name {
	case "confMu", "currMu":
		return inner.Sel.Name + "." + sel.Sel.Name
	}

	return ""
}

var c09Watched = map[string]bool{
	"add": true, "getData": true, "flushDB": true, "loadUnits": true, "serialize": true,
	"deserialize": true, "clear": true, "setLimit": true, "dataFromUnits": true,
}

var c09WatchedFields = map[string]bool{"curr": true, "limit": true, "enabled": true}

// c09WalkStmts records, for every watched call and every assignment to s.curr,
// which locks were taken (Lock immediately followed by the deferred Unlock) in
// the enclosing statement lists before it.
func c09WalkStmts(fn string, stmts []ast.Stmt, held []string, out *[]string) {
	for i := 0; i < len(stmts); i++ {
		st := stmts[i]
		if es, ok := st.(*ast.ExprStmt); ok {
			if lk := c09MuCall(es.X); strings.HasSuffix(lk, ".Lock") || strings.HasSuffix(lk, ".RLock") {
				if i+1 < len(stmts) {
					if ds, isDefer := stmts[i+1].(*ast.DeferStmt); isDefer {
						want := strings.Replace(strings.Replace(lk, ".RLock", ".RUnlock", 1), ".Lock", ".Unlock", 1)
						if c09MuCall(ds.Call) == want {
							held = append(append([]string{}, held...), lk)
							i++

							continue
						}
					}
				}
				*out = append(*out, "unpaired:"+lk+"@"+fn)

				continue
			}
		}
		ast.Inspect(st, func(n ast.Node) bool {
			switch x := n.(type) {
			case *ast.BlockStmt:
				c09WalkStmts(fn, x.List, held, out)

				return false
			case *ast.AssignStmt:
				for _, lhs := range x.Lhs {
					if sel, ok := lhs.(*ast.SelectorExpr); ok && c09WatchedFields[sel.Sel.Name] {
						if id, isID := sel.X.(*ast.Ident); isID && id.Name == "s" {
							*out = append(*out, "set:"+sel.Sel.Name+"@"+fn+":"+c09Held(held))
						}
					}
				}
			case *ast.CallExpr:
				if sel, ok := x.Fun.(*ast.SelectorExpr); ok && c09Watched[sel.Sel.Name] {
					*out = append(*out, "call:"+sel.Sel.Name+"@"+fn+":"+c09Held(held))
				}
			}

			return true
		})
	}
}

func c09Held(held []string) string {
	if len(held) == 0 {
		return "none"
	}
	h := append([]string{}, held...)
	sort.Strings(h)

	return strings.Join(h, "+")
}

// c09LockFacts parses the package sources of the tree under test (the test
// binary runs in internal/stats) and lists the lock facts, sorted.
func c09LockFacts() []string {
	fset := token.NewFileSet()
	var out []string
	for _, name := range []string{"stats.go", "unit.go", "http.go"} {
		file, err := parser.ParseFile(fset, name, nil, 0)
		if err != nil {
			return []string{"parse-error:" + vutil.Hex(err.Error())}
		}
		for _, d := range file.Decls {
			fd, ok := d.(*ast.FuncDecl)
			if !ok || fd.Body == nil {
				continue
			}
			c09WalkStmts(fd.Name.Name, fd.Body.List, nil, &out)
		}
	}
	sort.Strings(out)
	// collapse duplicates
	res := out[:0]
	for i, x := range out {
		if i == 0 || x != out[i-1] {
			res = append(res, x)
		}
	}

	return append([]string{strconv.Itoa(len(res))}, res...)
}

// ---- per-name maps and top-N truncation ----

func c09LCG(x uint64) uint64 { return (x*1103515245 + 12345) % 2147483648 }

func c09PickName(v, k uint64) uint64 {
	if (v/7)%2 == 0 {
		return (v / 16) % (k/8 + 1)
	}

	return (v / 16) % k
}

func c09SumMap(m map[string]uint64) (sum uint64) {
	for _, v := range m {
		sum += v
	}

	return sum
}

func c09SumPairs(a []countPair) (sum, minCount uint64) {
	for i, p := range a {
		sum += p.Count
		if i == 0 || p.Count < minCount {
			minCount = p.Count
		}
	}

	return sum, minCount
}

// c09Top: a burst of accepted entries on a fresh unit through the real add,
// serialize and deserialize.
func c09Top(f []string) []string {
	x := uint64(c09I64(f[1]))
	n, nc, nd := vutil.Atoi(f[2]), uint64(vutil.Atoi(f[3])), uint64(vutil.Atoi(f[4]))
	u := newUnit(1)
	for i := 0; i < n; i++ {
		x1 := c09LCG(x)
		x2 := c09LCG(x1)
		x3 := c09LCG(x2)
		x = x3
		u.add(&Entry{
			Result: Result((x1/16)%5 + 1),
			Domain: "d" + strconv.FormatUint(c09PickName(x2, nd), 10),
			Client: "c" + strconv.FormatUint(c09PickName(x3, nc), 10),
		})
	}
	udb := u.serialize()
	u2 := newUnit(1)
	u2.deserialize(udb)
	sc, minC := c09SumPairs(udb.Clients)
	sd, _ := c09SumPairs(udb.Domains)
	sb, _ := c09SumPairs(udb.BlockedDomains)
	u64 := func(v uint64) string { return strconv.FormatUint(v, 10) }

	return []string{u64(u.nTotal), c09Counters(u.nResult),
		vutil.Itoa(len(u.clients)), u64(c09SumMap(u.clients)),
		vutil.Itoa(len(u.domains)), u64(c09SumMap(u.domains)),
		vutil.Itoa(len(u.blockedDomains)), u64(c09SumMap(u.blockedDomains)),
		vutil.Itoa(len(udb.Clients)), u64(sc), u64(minC),
		vutil.Itoa(len(udb.Domains)), u64(sd), vutil.Itoa(len(udb.BlockedDomains)), u64(sb),
		u64(c09SumMap(u2.clients))}
}

// ---- the real flush loop under virtual time ----
//
// TestVerifC09Loop runs inside a testing/synctest bubble: time.Sleep of the
// real periodicFlush goroutine (started by the real Start) and of the harness
// is virtual, the bubble's clock starts at 2000-01-01T00:00:00Z.  The UnitID
// generator shows the hour of the virtual wall clock plus a skew that C09.step
// advances by hand (a stepped clock, a resume from suspend).

var c09LoopSkew atomic.Uint32

func c09LoopHour() uint32 { return uint32(time.Now().Unix()/3600) + c09LoopSkew.Load() }

// c09LoopDrop stops the loop goroutine (periodicFlush ends only when it finds
// s.curr == nil) and removes the context.
func c09LoopDrop() {
	c := c09
	if c == nil {
		return
	}
	c09 = nil
	if c.s != nil {
		_ = c.s.Close()
		c.s.currMu.Lock()
		c.s.curr = nil
		c.s.currMu.Unlock()
		// periodicFlush wakes up within its polling period (a changed tree may
		// sleep much longer), finds no unit and returns
		c.hook.watchLoop.Store(true)
		for i := 0; i < 400 && !c.hook.loopDone.Load(); i++ {
			time.Sleep(2 * time.Second)
			synctest.Wait()
			if i > 5 {
				time.Sleep(time.Hour)
				synctest.Wait()
			}
		}
	}
	_ = os.RemoveAll(c.dir)
}

func c09LoopRun(f []string) []string {
	switch f[0] {
	case "C09.loopstart":
		c09LoopDrop()
		start := time.Unix(int64(c09U32(f[1]))*3600+c09I64(f[2]), 0)
		if d := time.Until(start); d > 0 {
			time.Sleep(d)
		} else if d < 0 {
			panic("C09.loopstart: start hour is in the virtual past")
		}
		c09LoopSkew.Store(0)
		c := &c09Ctx{dir: c09TempDir()}
		conf := c.conf(c09I64(f[3]), true)
		conf.UnitID = c09LoopHour
		s, err := New(conf)
		if err != nil {
			_ = os.RemoveAll(c.dir)
			panic("New: " + err.Error())
		}
		c.s = s
		c09 = c
		s.Start()
		synctest.Wait()

		return c.observe(true, 0)
	case "C09.step":
		c09LoopSkew.Add(uint32(vutil.Atoi(f[1])))

		return c09.observe(false, 0)
	case "C09.wait":
		time.Sleep(time.Duration(c09I64(f[1])) * time.Millisecond)
		synctest.Wait()

		return c09.observe(true, 0)
	case "C09.upd", "C09.read":
		return c09Run(f)
	default:
		panic("unknown loop op " + f[0])
	}
}

func c09GenLoop(r *rand.Rand, emit vutil.Emit) {
	n := vutil.N(150)
	// the bubble starts at hour 262968 (2000-01-01T00:00Z); blocks are 40 h apart
	hour := 262968 + 5
	for b := 0; b < n; b++ {
		hour += 40
		off := vutil.Pick(r, []int{0, 1, 600, 1800, 3000, 3597, 3599})
		limH := vutil.Pick(r, []int64{24, 24, 24, 2, 48, 3})
		emit("C09.loopstart", vutil.Itoa(hour), vutil.Itoa(off), strconv.FormatInt(limH*3600000, 10))
		var elapsed int64
		steps := 6 + r.IntN(14)
		for i := 0; i < steps && elapsed < 30*3600000; i++ {
			switch k := r.IntN(100); {
			case k < 35:
				emit("C09.upd", vutil.Itoa(vutil.Pick(r, []int{1, 1, 2, 2, 3, 4, 5})), vutil.Itoa(1+r.IntN(4)), "0", "0")
			case k < 45:
				emit("C09.read")
			case k < 60:
				emit("C09.step", vutil.Itoa(vutil.Pick(r, []int{1, 1, 1, 1, 2, 3, 25})))
			default:
				ms := vutil.Pick(r, []int64{1, 500, 999, 1000, 1001, 1500, 2500, 2500, 10000, 60000, 1800000, 3600000,
					3599000, 3601000, 7200000})
				elapsed += ms
				emit("C09.wait", strconv.FormatInt(ms, 10))
			}
		}
	}
}

func TestVerifC09Loop(t *testing.T) {
	synctest.Test(t, func(t *testing.T) {
		defer c09LoopDrop()
		vutil.Main(t, c09GenLoop, c09LoopRun)
	})
}
