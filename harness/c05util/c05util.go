// Package c05util is the part of the C05 stress harness shared by the
// harnesses of several packages.  It is compiled into the AdGuard Home module
// only through `go test -overlay` (see /verif/bin/check); no file is added to
// /repo.
package c05util

import (
	"bytes"
	"encoding/json"
	"os"
	"os/exec"
	"path/filepath"
	"regexp"
	"sort"
	"strings"
	"time"

	"github.com/AdguardTeam/AdGuardHome/internal/vutil"
)

var (
	raceHdr  = regexp.MustCompile(`(?m)^(Read|Write|Previous read|Previous write) at 0x[0-9a-f]+ by (main )?goroutine`)
	frameRE  = regexp.MustCompile(`(?m)^  (\S+)\(.*\)\n      (\S+):(\d+)`)
	Internal = "github.com/AdguardTeam/AdGuardHome/internal/"
)

// RaceKeys extracts, from a race detector log, one key per report: the
// innermost AdGuard Home (non-harness) function of each of the two stacks.
func RaceKeys(log string) (keys []string) {
	for _, rep := range strings.Split(log, "WARNING: DATA RACE")[1:] {
		if i := strings.Index(rep, "=================="); i >= 0 {
			rep = rep[:i]
		}
		// split into the two access stacks
		idx := raceHdr.FindAllStringIndex(rep, -1)
		var tops []string
		for j, loc := range idx {
			end := len(rep)
			if j+1 < len(idx) {
				end = idx[j+1][0]
			} else if k := strings.Index(rep[loc[0]:], "\nGoroutine "); k >= 0 {
				end = loc[0] + k
			}
			top := "?"
			for _, m := range frameRE.FindAllStringSubmatch(rep[loc[0]:end], -1) {
				if strings.HasPrefix(m[1], Internal) && !strings.Contains(m[2], "zz_verif") &&
					!strings.Contains(m[1], "/vutil.") && !strings.Contains(m[1], "c05") {
					top = strings.TrimPrefix(m[1], Internal)

					break
				}
			}
			tops = append(tops, top)
		}
		sort.Strings(tops)
		keys = append(keys, strings.Join(tops, "~"))
	}
	sort.Strings(keys)
	var res []string
	for i, k := range keys {
		if i == 0 || keys[i-1] != k {
			res = append(res, k)
		}
	}

	return res
}

type ChildResult struct {
	Served    int    `json:"served"`
	Malformed int    `json:"malformed"`
	AdminOps  int    `json:"admin_ops"`
	Panics    int    `json:"panics"`
	PanicMsg  string `json:"panic_msg"`
	Done      bool   `json:"done"`
	Deadlock  bool   `json:"deadlock"`
	Stuck     string `json:"stuck"`
	// Edges are the lock-order pairs observed by the instrumented package sync
	// on the registered locks; LockOps the number of observed operations.
	Edges   []string `json:"edges"`
	LockOps int64    `json:"lock_ops"`
}

// RunStress runs one scenario in a child process and observes it.
func RunStress(childTest string, f []string) []string {
	dir, err := os.MkdirTemp("", "c05run")
	if err != nil {
		panic(err)
	}
	defer func() { _ = os.RemoveAll(dir) }()

	cmd := exec.Command(os.Args[0], "-test.run", "^"+childTest+"$", "-test.count=1", "-test.timeout", "120s")
	cmd.Env = append(os.Environ(),
		"C05_SCN="+strings.Join(f, "\t"),
		"C05_DIR="+dir,
		"GORACE=log_path="+filepath.Join(dir, "race")+" halt_on_error=0 history_size=5",
		"VERIF_OUT=",
	)
	var out bytes.Buffer
	cmd.Stdout, cmd.Stderr = &out, &out
	done := make(chan error, 1)
	if err = cmd.Start(); err != nil {
		panic(err)
	}
	go func() { done <- cmd.Wait() }()
	hung := false
	select {
	case <-done:
	case <-time.After(90 * time.Second):
		hung = true
		_ = cmd.Process.Kill()
		<-done
	}

	var res ChildResult
	if data, rerr := os.ReadFile(filepath.Join(dir, "result.json")); rerr == nil {
		_ = json.Unmarshal(data, &res)
	}
	var raceLog strings.Builder
	logs, _ := filepath.Glob(filepath.Join(dir, "race.*"))
	for _, lp := range logs {
		data, _ := os.ReadFile(lp)
		raceLog.Write(data)
	}
	keys := RaceKeys(raceLog.String())

	panics := res.Panics
	detail := res.PanicMsg
	so := out.String()
	panicFn := ""
	if !res.Done && !res.Deadlock && !hung {
		// died: panic outside recover (in any goroutine) or a runtime fatal error
		panics++
		panicFn, detail = panicSite(so)
		if detail == "" {
			detail = "child exited without a result: " + lastLines(so, 5)
		}
	}
	deadlocks := 0
	if res.Deadlock || hung {
		deadlocks = 1
		detail = res.Stuck
	}
	untabled := UntabledEdges(res.Edges)
	why := "-"
	switch {
	case deadlocks > 0:
		why = "deadlock:" + Sanitize(writers(res.Stuck))
	case panics > 0 && panicFn != "":
		why = "panic:" + Sanitize(panicFn)
	case panics > 0:
		why = "panic:" + Sanitize(detail)
	case len(keys) > 0:
		why = "race:" + Sanitize(keys[0])
	case res.Malformed > 0:
		why = "malformed"
	case len(untabled) > 0:
		why = "tie:edge-not-in-table:" + Sanitize(strings.ReplaceAll(untabled[0], " ", ""))
	}
	if len(untabled) > 0 {
		detail += " observed lock-order pairs missing from the extracted table: " + strings.Join(untabled, " ; ")
	}
	if len(keys) > 0 {
		detail += " races: " + strings.Join(keys, " ; ")
	}
	if os.Getenv("C05_KEEP") != "" {
		stacks, _ := os.ReadFile(filepath.Join(dir, "stacks.txt"))
		_ = os.WriteFile(filepath.Join(os.Getenv("C05_KEEP"), "c05-"+f[1]+"-"+f[2]+"-"+f[len(f)-1]+".log"),
			[]byte(so+"\n"+raceLog.String()+"\n"+string(stacks)), 0o644)
	}

	return []string{
		vutil.Itoa(len(keys)), vutil.Itoa(panics), vutil.Itoa(deadlocks), vutil.Itoa(res.Malformed), vutil.Itoa(len(untabled)),
		vutil.Hex(why), vutil.Hex(detail), vutil.Itoa(res.Served), vutil.Itoa(res.AdminOps),
		vutil.Itoa(len(res.Edges)), vutil.Itoa(int(res.LockOps)),
	}
}

// writers keeps the goroutines blocked in an exclusive Lock: together with
// the scenario they name the deadlock.
func writers(stuck string) string {
	if strings.HasPrefix(stuck, "rlock:") {
		return stuck
	}
	seen := map[string]bool{}
	var ws []string
	for _, k := range strings.Split(stuck, ";") {
		if strings.HasSuffix(k, "@chansend") {
			ws = append(ws, k)

			continue
		}
		if !strings.HasSuffix(k, ").Lock") {
			continue
		}
		fn := k[:strings.Index(k, "@")]
		if !seen[fn] {
			seen[fn] = true
			ws = append(ws, fn)
		}
	}
	if len(ws) == 0 {
		return stuck
	}

	return strings.Join(ws, ";")
}

func lastLines(s string, n int) string {
	ls := strings.Split(strings.TrimSpace(s), "\n")
	if len(ls) > n {
		ls = ls[len(ls)-n:]
	}

	return strings.Join(ls, " | ")
}

var sanRE = regexp.MustCompile(`[^A-Za-z0-9_.*()/~:$;@+>-]+`)

func Sanitize(s string) string {
	s = sanRE.ReplaceAllString(s, "_")
	if len(s) > 400 {
		s = s[:400]
	}

	return s
}

// StuckKey names where the goroutines of the server are blocked on a lock:
// the AdGuard Home functions right above sync.(*RWMutex).RLock/Lock.
func StuckKey(stacks string) string {
	if rec := recursiveReaders(stacks); rec != "" {
		return rec
	}
	seen := map[string]bool{}
	for _, g := range strings.Split(stacks, "\n\n") {
		if !strings.Contains(g, "sync.(*RWMutex)") && !strings.Contains(g, "sync.(*Mutex)") {
			continue
		}
		lines := strings.Split(g, "\n")
		for i, l := range lines {
			if strings.HasPrefix(l, "sync.(*RWMutex).") || strings.HasPrefix(l, "sync.(*Mutex).") {
				op := l[:strings.Index(l, "(0x")]
				// next function line
				for j := i + 2; j < len(lines); j += 2 {
					if strings.HasPrefix(lines[j], Internal) && !strings.Contains(lines[j], "c05") {
						fn := strings.TrimPrefix(lines[j], Internal)
						if k := strings.Index(fn, "(0x"); k >= 0 {
							fn = fn[:k]
						}
						fn = strings.TrimSuffix(fn, "(...)")
						seen[fn+"@"+strings.TrimPrefix(op, "sync.")] = true

						break
					}
				}
			}
		}
	}
	// goroutines blocked in a channel send inside AdGuard Home code
	for _, g := range strings.Split(stacks, "\n\n") {
		lines := strings.Split(g, "\n")
		if len(lines) == 0 || !strings.Contains(lines[0], "[chan send") {
			continue
		}
		for j := 1; j < len(lines); j += 2 {
			if strings.HasPrefix(lines[j], Internal) && !strings.Contains(lines[j], "c05") && !strings.Contains(lines[j], "C05") {
				fn := strings.TrimPrefix(lines[j], Internal)
				if k := strings.Index(fn, "(0x"); k >= 0 {
					fn = fn[:k]
				}
				seen[strings.TrimSuffix(fn, "(...)")+"@chansend"] = true

				break
			}
		}
	}
	if len(seen) == 0 {
		// nothing is blocked on a lock: name what the stalled workers are doing
		for _, g := range strings.Split(stacks, "\n\n") {
			if !strings.Contains(g, ".adminOp(") && !strings.Contains(g, "Child.func") {
				continue
			}
			lines := strings.Split(g, "\n")
			state := ""
			if i := strings.Index(lines[0], "["); i >= 0 {
				state = strings.Trim(lines[0][i:], "[]:")
				if j := strings.Index(state, ","); j >= 0 {
					state = state[:j]
				}
			}
			for j := 1; j < len(lines); j += 2 {
				if strings.HasPrefix(lines[j], Internal) && !strings.Contains(lines[j], "c05") && !strings.Contains(lines[j], "C05") {
					fn := strings.TrimPrefix(lines[j], Internal)
					if k := strings.Index(fn, "(0x"); k >= 0 {
						fn = fn[:k]
					}
					seen["nolock:"+strings.TrimSuffix(fn, "(...)")+"["+strings.ReplaceAll(state, " ", "_")+"]"] = true

					break
				}
			}
		}
	}
	var ks []string
	for k := range seen {
		ks = append(ks, k)
	}
	sort.Strings(ks)

	return strings.Join(ks, ";")
}

// factsName converts a runtime function name (pkg.(*T).m.func1) to the
// extractor's ((*pkg.T).m).
func factsName(rt string) string {
	rt = strings.TrimPrefix(rt, Internal)
	for {
		k := strings.LastIndex(rt, ".")
		if k < 0 {
			break
		}
		last := rt[k+1:]
		if strings.HasPrefix(last, "func") || strings.HasPrefix(last, "gowrap") || (len(last) > 0 && last[0] >= '0' && last[0] <= '9') {
			rt = rt[:k]

			continue
		}

		break
	}
	if m := ptrMethRE.FindStringSubmatch(rt); m != nil {
		return "(*" + m[1] + "." + m[2] + ")." + m[3]
	}

	return rt
}

var ptrMethRE = regexp.MustCompile(`^(.*?)\.\(\*(\w+)\)\.(\w+)$`)

type edgeInst struct {
	Holder   string `json:"holder"`
	Acquirer string `json:"acquirer"`
}

// recursiveInstances loads, from the facts the extractor has just written for
// the tree under test, the (holder, acquirer) pairs of the re-entrant
// acquisitions of a lock class (edges from a class to itself).
func recursiveInstances() (res []edgeInst) {
	path := os.Getenv("C05_FACTS")
	if path == "" {
		if d := os.Getenv("VERIF_DATA"); d != "" {
			path = filepath.Join(d, "..", "..", "build", "C05", "facts.json")
		}
	}
	data, err := os.ReadFile(path)
	if err != nil {
		return nil
	}
	var facts struct {
		Edges, Known []struct {
			From      int        `json:"from"`
			To        int        `json:"to"`
			Instances []edgeInst `json:"instances"`
		}
	}
	var raw struct {
		Edges []struct {
			From      int        `json:"from"`
			To        int        `json:"to"`
			Instances []edgeInst `json:"instances"`
		} `json:"edges"`
		Known []struct {
			From      int        `json:"from"`
			To        int        `json:"to"`
			Instances []edgeInst `json:"instances"`
		} `json:"known_edges"`
	}
	_ = facts
	if json.Unmarshal(data, &raw) != nil {
		return nil
	}
	for _, e := range raw.Edges {
		if e.From == e.To {
			res = append(res, e.Instances...)
		}
	}
	for _, e := range raw.Known {
		if e.From == e.To {
			res = append(res, e.Instances...)
		}
	}

	return res
}

// recursiveReaders finds, in a goroutine dump, the goroutines that wait in
// RWMutex.RLock inside a function that the extracted facts know as the inner
// acquirer of a re-entrant read lock, while a function known as the matching
// outer holder is further up the same stack: the readers that hold the lock
// they wait for.  The key names these chains ("rlock:holder>acquirer;…").
func recursiveReaders(stacks string) string {
	insts := recursiveInstances()
	if len(insts) == 0 {
		return ""
	}
	seen := map[string]bool{}
	for _, g := range strings.Split(stacks, "\n\n") {
		if !strings.Contains(g, "sync.(*RWMutex).RLock(") {
			continue
		}
		var frames []string // innermost first, AdGuard Home functions only
		for _, l := range strings.Split(g, "\n") {
			if strings.HasPrefix(l, Internal) {
				fn := l
				if k := strings.LastIndex(fn, "("); k >= 0 {
					fn = fn[:k]
				}
				frames = append(frames, strings.TrimPrefix(fn, Internal))
			}
		}
		if len(frames) < 2 {
			continue
		}
		inner := factsName(frames[0])
		for _, in := range insts {
			if in.Acquirer != inner || in.Holder == in.Acquirer {
				continue
			}
			for _, f := range frames[1:] {
				if factsName(f) == in.Holder {
					seen[shortRT(f)+">"+shortRT(frames[0])] = true
				}
			}
		}
	}
	if len(seen) == 0 {
		return ""
	}
	var ks []string
	for k := range seen {
		ks = append(ks, k)
	}
	sort.Strings(ks)

	return "rlock:" + strings.Join(ks, ";")
}

func shortRT(f string) string {
	for {
		k := strings.LastIndex(f, ".")
		if k < 0 {
			return f
		}
		last := f[k+1:]
		if strings.HasPrefix(last, "func") || strings.HasPrefix(last, "gowrap") {
			f = f[:k]

			continue
		}

		return f
	}
}

// panicSite finds, in the output of a process that died, the panic (or fatal
// error) message and the innermost AdGuard Home function of the panicking
// goroutine; detail is the message followed by the head of its stack.
func panicSite(out string) (fn, detail string) {
	lines := strings.Split(out, "\n")
	start := -1
	for i, l := range lines {
		if strings.HasPrefix(l, "panic:") || strings.HasPrefix(l, "fatal error:") {
			start = i

			break
		}
	}
	if start < 0 {
		return "", ""
	}
	end := min(len(lines), start+40)
	for i := start + 1; i < end; i++ {
		l := lines[i]
		if i > start+2 && l == "" {
			// end of the first goroutine
			end = i

			break
		}
		if fn == "" && strings.HasPrefix(l, Internal) && !strings.Contains(l, "c05") && !strings.Contains(l, "C05") && !strings.Contains(l, "/vutil.") {
			fn = strings.TrimPrefix(l, Internal)
			if k := strings.LastIndex(fn, "("); k >= 0 {
				fn = fn[:k]
			}
		}
	}

	return fn, strings.Join(lines[start:end], "\n")
}
