package c05util

// Cross-check of the fact extractor that does not depend on its own walk over
// the syntax: package sync is compiled from an instrumented copy (overlay, see
// harness/c05sync) whose Mutex / RWMutex methods call sync.VerifHook.  The
// stress child registers the locks of the objects it builds (by reflection:
// every sync.Mutex / sync.RWMutex field reachable from the roots, named like
// the extractor names lock classes, "<pkg>.<Type>.<field>"), and records, per
// goroutine, which registered locks are held when a registered lock is
// acquired.  The parent confronts the observed (held -> acquired) pairs with
// the lock-order table the extractor has just written: every observed pair
// must be an edge of the table (table ⊇ reality on what was exercised).

import (
	"encoding/json"
	"os"
	"path/filepath"
	"reflect"
	"runtime"
	"sort"
	"strings"
	"sync"
	"sync/atomic"
	"unsafe"
)

type heldObs struct {
	p    unsafe.Pointer
	excl bool
}

var (
	// obsNamesP is published once, atomically; the map is immutable afterwards.
	obsNamesP atomic.Pointer[map[unsafe.Pointer]string]
	obsSpin  atomic.Int32
	obsHeld  = map[uint64][]heldObs{}
	obsEdges = map[[2]string]bool{}
	obsCount atomic.Int64
)

func obsLock() {
	for !obsSpin.CompareAndSwap(0, 1) {
		runtime.Gosched()
	}
}

func obsUnlock() { obsSpin.Store(0) }

// goid returns the id of the current goroutine.
func goid() (id uint64) {
	var buf [40]byte
	n := runtime.Stack(buf[:], false)
	// "goroutine 123 ["
	for _, c := range buf[len("goroutine "):n] {
		if c < '0' || c > '9' {
			break
		}
		id = id*10 + uint64(c-'0')
	}

	return id
}

// The hook is installed before any goroutine of the test exists; it does
// nothing until ObserveLocks publishes the table of registered locks.
func init() { sync.VerifHook = lockHook }

func lockHook(op int, p unsafe.Pointer) {
	np := obsNamesP.Load()
	if np == nil {
		return
	}
	obsNames := *np
	name, ok := obsNames[p]
	if !ok {
		return
	}
	obsCount.Add(1)
	g := goid()
	obsLock()
	defer obsUnlock()

	switch op {
	case sync.VerifLock, sync.VerifRLock, sync.VerifTryLock, sync.VerifTryRLock:
		if op == sync.VerifLock || op == sync.VerifRLock {
			// a blocking acquisition: an order edge from everything held
			for _, h := range obsHeld[g] {
				obsEdges[[2]string{obsNames[h.p], name}] = true
			}
		}
		obsHeld[g] = append(obsHeld[g], heldObs{p: p, excl: op == sync.VerifLock || op == sync.VerifTryLock})
	case sync.VerifUnlock, sync.VerifRUnlock:
		hs := obsHeld[g]
		for i := len(hs) - 1; i >= 0; i-- {
			if hs[i].p == p && hs[i].excl == (op == sync.VerifUnlock) {
				obsHeld[g] = append(hs[:i:i], hs[i+1:]...)

				return
			}
		}
		// released by another goroutine than the one that acquired it: drop
		// the oldest matching hold of any goroutine
		for og, ohs := range obsHeld {
			for i, h := range ohs {
				if h.p == p && h.excl == (op == sync.VerifUnlock) {
					obsHeld[og] = append(ohs[:i:i], ohs[i+1:]...)

					return
				}
			}
		}
	}
}

var (
	mutexType   = reflect.TypeOf(sync.Mutex{})
	rwMutexType = reflect.TypeOf(sync.RWMutex{})
)

func shortTypeName(t reflect.Type) string {
	return strings.TrimPrefix(t.PkgPath(), Internal) + "." + t.Name()
}

// walkLocks registers every mutex field reachable from v.
func walkLocks(v reflect.Value, depth int, seen map[unsafe.Pointer]bool, names map[unsafe.Pointer]string) {
	if depth > 7 || !v.IsValid() {
		return
	}
	switch v.Kind() {
	case reflect.Pointer:
		if v.IsNil() || seen[v.UnsafePointer()] {
			return
		}
		seen[v.UnsafePointer()] = true
		walkLocks(v.Elem(), depth+1, seen, names)
	case reflect.Interface:
		if !v.IsNil() {
			walkLocks(v.Elem(), depth+1, seen, names)
		}
	case reflect.Struct:
		t := v.Type()
		if !strings.HasPrefix(t.PkgPath(), Internal) {
			return // only AdGuard Home's own structures
		}
		for i := 0; i < t.NumField(); i++ {
			f, ft := v.Field(i), t.Field(i)
			name := shortTypeName(t) + "." + ft.Name
			switch {
			case ft.Type == mutexType || ft.Type == rwMutexType:
				if f.CanAddr() {
					names[unsafe.Pointer(f.UnsafeAddr())] = name
				}
			case ft.Type.Kind() == reflect.Pointer && (ft.Type.Elem() == mutexType || ft.Type.Elem() == rwMutexType):
				if !f.IsNil() {
					names[f.UnsafePointer()] = name
				}
			default:
				walkLocks(f, depth+1, seen, names)
			}
		}
	case reflect.Slice, reflect.Array:
		for i := 0; i < v.Len() && i < 32; i++ {
			walkLocks(v.Index(i), depth+1, seen, names)
		}
	}
}

// ObserveLocks registers the locks reachable from the roots and starts
// recording the acquisition order of the registered locks.
func ObserveLocks(roots ...any) (n int) {
	names := map[unsafe.Pointer]string{}
	seen := map[unsafe.Pointer]bool{}
	for _, r := range roots {
		walkLocks(reflect.ValueOf(r), 0, seen, names)
	}
	obsNamesP.Store(&names)

	return len(names)
}

// ObservedEdges returns the observed (held -> acquired) pairs, "a -> b", and
// the number of observed operations on registered locks.
func ObservedEdges() (edges []string, ops int64) {
	obsLock()
	defer obsUnlock()

	for e := range obsEdges {
		edges = append(edges, e[0]+" -> "+e[1])
	}
	sort.Strings(edges)

	return edges, obsCount.Load()
}

// tableEdges loads the lock-order edges (by class name) of the extracted facts.
func tableEdges() (table map[string]bool, ok bool) {
	path := os.Getenv("C05_FACTS")
	if path == "" {
		if d := os.Getenv("VERIF_DATA"); d != "" {
			path = filepath.Join(d, "..", "..", "build", "C05", "facts.json")
		}
	}
	data, err := os.ReadFile(path)
	if err != nil {
		return nil, false
	}
	var raw struct {
		Locks []struct {
			ID   int    `json:"id"`
			Name string `json:"name"`
		} `json:"locks"`
		Edges []struct {
			From int `json:"from"`
			To   int `json:"to"`
		} `json:"edges"`
		Known []struct {
			From int `json:"from"`
			To   int `json:"to"`
		} `json:"known_edges"`
	}
	if json.Unmarshal(data, &raw) != nil {
		return nil, false
	}
	name := map[int]string{}
	for _, l := range raw.Locks {
		name[l.ID] = l.Name
	}
	table = map[string]bool{}
	for _, e := range raw.Edges {
		table[name[e.From]+" -> "+name[e.To]] = true
	}
	for _, e := range raw.Known {
		table[name[e.From]+" -> "+name[e.To]] = true
	}

	return table, true
}

// UntabledEdges returns the observed edges that are not in the extracted table.
func UntabledEdges(observed []string) (missing []string) {
	table, ok := tableEdges()
	if !ok {
		return nil
	}
	for _, e := range observed {
		if !table[e] {
			missing = append(missing, e)
		}
	}

	return missing
}

// factsPath is where the extractor has just written its facts.
func factsPath() string {
	if p := os.Getenv("C05_FACTS"); p != "" {
		return p
	}
	if d := os.Getenv("VERIF_DATA"); d != "" {
		return filepath.Join(d, "..", "..", "build", "C05", "facts.json")
	}

	return ""
}

// StaticKnown returns, per reported finding that is still excluded from the
// per-program theorems (known rows, known lock-order edges, known ungated
// acquisitions of the regenerated tables), the excluded items, sorted.
func StaticKnown() (byFinding map[string][]string) {
	data, err := os.ReadFile(factsPath())
	if err != nil {
		return nil
	}
	var raw struct {
		Locks []struct {
			ID   int    `json:"id"`
			Name string `json:"name"`
		} `json:"locks"`
		Rows []struct {
			Func  string `json:"func"`
			Field string `json:"field_name"`
			Known string `json:"known"`
		} `json:"rows"`
		Edges []struct {
			From  int    `json:"from"`
			To    int    `json:"to"`
			Known string `json:"known"`
		} `json:"known_edges"`
		Acqs []struct {
			Func  string `json:"func"`
			Lock  string `json:"lock_name"`
			Known string `json:"known"`
		} `json:"gated_acquisitions"`
	}
	if json.Unmarshal(data, &raw) != nil {
		return nil
	}
	name := map[int]string{}
	for _, l := range raw.Locks {
		name[l.ID] = l.Name
	}
	byFinding = map[string][]string{}
	for _, r := range raw.Rows {
		if r.Known != "" {
			byFinding[r.Known] = append(byFinding[r.Known], "row "+r.Func+" "+r.Field)
		}
	}
	for _, e := range raw.Edges {
		if e.Known != "" {
			byFinding[e.Known] = append(byFinding[e.Known], "edge "+name[e.From]+" -> "+name[e.To])
		}
	}
	for _, a := range raw.Acqs {
		if a.Known != "" {
			byFinding[a.Known] = append(byFinding[a.Known], "acquisition "+a.Func+" "+a.Lock)
		}
	}
	for k := range byFinding {
		sort.Strings(byFinding[k])
		// rows differing only in the locks held are one item
		var u []string
		for i, x := range byFinding[k] {
			if i == 0 || byFinding[k][i-1] != x {
				u = append(u, x)
			}
		}
		byFinding[k] = u
	}

	return byFinding
}
