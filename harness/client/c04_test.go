//go:build verif

package client

import (
	"context"
	"encoding/binary"
	"encoding/hex"
	"fmt"
	"math/rand/v2"
	"net"
	"net/netip"
	"strings"
	"sync"
	"testing"

	"github.com/AdguardTeam/AdGuardHome/internal/dhcpsvc"
	"github.com/AdguardTeam/AdGuardHome/internal/filtering"
	"github.com/AdguardTeam/AdGuardHome/internal/schedule"
	"github.com/AdguardTeam/AdGuardHome/internal/vutil"
	"github.com/AdguardTeam/golibs/logutil/slogutil"
	"github.com/AdguardTeam/golibs/timeutil"
	"gopkg.in/yaml.v3"
)

// ---------------------------------------------------------------- implementation side

// c04SS is a filtering.SafeSearch with an identity.
type c04SS struct{ id int }

func (c04SS) CheckHost(_ context.Context, _ string, _ uint16) (res filtering.Result, err error) {
	return filtering.Result{}, nil
}

func (c04SS) Update(_ context.Context, _ filtering.SafeSearchConfig) (err error) { return nil }

// c04TagSets are the values of Persistent.Tags (sorted, all allowed); the
// index is what travels on the line.
var c04TagSets = [][]string{nil, {"device_pc"}, {"device_tv", "user_child"}, {"os_linux", "user_admin", "user_regular"}}

func c04TagsNum(tags []string) string {
	j := strings.Join(tags, ",")
	for i, ts := range c04TagSets {
		if strings.Join(ts, ",") == j {
			return vutil.Itoa(i)
		}
	}

	return "?" + vutil.Hex(j)
}

// c04DHCP is the DHCP server the storage asks for the MAC of a lease.
type c04DHCP struct {
	macs map[netip.Addr]net.HardwareAddr
}

func (d *c04DHCP) Leases() (leases []*dhcpsvc.Lease)      { return nil }
func (d *c04DHCP) HostByIP(_ netip.Addr) (host string)    { return "" }
func (d *c04DHCP) MACByIP(ip netip.Addr) net.HardwareAddr { return d.macs[ip] }

type c04Probe struct {
	tag    string
	s      string // name / clientid / raw id
	ip     netip.Addr
	mac    net.HardwareAddr
	hasMAC bool
}

// c04Services are real blocked-service ids; the index is what travels on the
// line (0 is the global list's).
var c04Services = []string{"4chan", "500px", "9gag", "amazon", "aliexpress", "amino", "activision_blizzard", "amazon_streaming"}

// c04Upstreams are the values of Persistent.Upstreams; the index travels.
var c04Upstreams = [][]string{nil, {"1.1.1.1"}, {"[/example.org/]8.8.8.8", "9.9.9.9"}}

func c04UpstreamsNum(ups []string) string {
	j := strings.Join(ups, ",")
	for i, u := range c04Upstreams {
		if strings.Join(u, ",") == j {
			return vutil.Itoa(i)
		}
	}

	return "?" + vutil.Hex(j)
}

// c04Sched returns schedule number n: 0 the empty local one, 1 an empty one in
// UTC (never contains a moment, so the services always apply).
func c04Sched(n int) (w *schedule.Weekly) {
	if n == 0 {
		return schedule.EmptyWeekly()
	}
	w = &schedule.Weekly{}
	if err := yaml.Unmarshal([]byte("time_zone: UTC\n"), w); err != nil {
		panic(err)
	}

	return w
}

func c04SchedNum(w *schedule.Weekly) string {
	if w == nil {
		return "nil"
	}
	b, err := yaml.Marshal(w)
	if err != nil {
		return "?"
	}
	switch {
	case strings.Contains(string(b), "time_zone: Local"):
		return "0"
	case strings.Contains(string(b), "time_zone: UTC"):
		return "1"
	default:
		return "?" + vutil.Hex(string(b))
	}
}

// c04SSConf decodes the per-engine switches of a safe-search config.
func c04SSConf(enabled bool, n int) filtering.SafeSearchConfig {
	return filtering.SafeSearchConfig{
		Enabled: enabled, Bing: n&1 != 0, DuckDuckGo: n&2 != 0, Ecosia: n&4 != 0, Google: n&8 != 0,
		Pixabay: n&16 != 0, Yandex: n&32 != 0, YouTube: n&64 != 0,
	}
}

func c04SSConfNum(c filtering.SafeSearchConfig) string {
	n := 0
	for i, b := range []bool{c.Bing, c.DuckDuckGo, c.Ecosia, c.Google, c.Pixabay, c.Yandex, c.YouTube} {
		if b {
			n |= 1 << i
		}
	}

	return vutil.Itoa(n)
}

// c04Full prints every field of a client (the F segment of an observation).
func c04Full(p *Persistent) string {
	sso := "0"
	switch v := p.SafeSearch.(type) {
	case nil:
	case *c04SS:
		sso = vutil.Itoa(v.id)
	default:
		sso = "1"
	}
	svc, sched := "nil", "nil"
	if bs := p.BlockedServices; bs != nil {
		sched = c04SchedNum(bs.Schedule)
		svc = "?"
		if len(bs.IDs) == 1 {
			svc = c04ServiceNum(bs.IDs[0])
		}
	}
	bits := ""
	for _, b := range []bool{
		p.UseOwnSettings, p.FilteringEnabled, p.SafeSearchConf.Enabled, p.SafeBrowsingEnabled, p.ParentalEnabled,
		p.UseOwnBlockedServices, p.IgnoreQueryLog, p.IgnoreStatistics, p.UpstreamsCacheEnabled,
	} {
		bits += vutil.B(b)
	}

	return strings.Join([]string{
		fmt.Sprint(c04UIDNum(p.UID)), fmt.Sprint(p.UpstreamsCacheSize), vutil.Itoa(len(p.IPs)),
		vutil.Itoa(len(p.Subnets)), vutil.Itoa(len(p.MACs)), vutil.Itoa(len(p.ClientIDs)), bits, svc, sso,
		c04TagsNum(p.Tags), c04UpstreamsNum(p.Upstreams), sched, c04SSConfNum(p.SafeSearchConf),
	}, "/")
}

func c04ServiceNum(name string) string {
	for i, n := range c04Services {
		if n == name {
			return vutil.Itoa(i)
		}
	}

	return "?" + vutil.Hex(name)
}

var c04InitOnce sync.Once

type c04State struct {
	flt    *filtering.DNSFilter
	st     *Storage
	dhcp   *c04DHCP
	probes []c04Probe
}

var c04Cur *c04State

func c04UID(n uint64) (uid UID) {
	if n != 0 {
		binary.BigEndian.PutUint64(uid[8:], n)
	}

	return uid
}

func c04UIDNum(uid UID) uint64 { return binary.BigEndian.Uint64(uid[8:]) }

func c04IP(kind, addrHex, zoneHex string) netip.Addr {
	if kind == "0" {
		return netip.Addr{}
	}
	b, err := hex.DecodeString(addrHex)
	if err != nil {
		panic(err)
	}
	ip, ok := netip.AddrFromSlice(b)
	if !ok {
		panic("bad ip " + addrHex)
	}

	return ip.WithZone(vutil.Unhex(zoneHex))
}

// c04Client decodes <client> starting at f[i]; returns the next index.
func c04Client(f []string, i int) (p *Persistent, next int) {
	p = &Persistent{}
	p.UID = c04UID(uint64(vutil.Atoi(f[i])))
	p.UpstreamsCacheSize = uint32(vutil.Atoi(f[i+1])) // carries the version tag
	p.Name = vutil.Unhex(f[i+2])
	i += 3
	for n := vutil.Atoi(f[i]); n > 0; n-- {
		p.IPs = append(p.IPs, c04IP(f[i+1], f[i+2], f[i+3]))
		i += 3
	}
	i++
	for n := vutil.Atoi(f[i]); n > 0; n-- {
		b, _ := hex.DecodeString(f[i+2])
		a, _ := netip.AddrFromSlice(b)
		// PrefixFrom keeps the host bits, like ParsePrefix.
		p.Subnets = append(p.Subnets, netip.PrefixFrom(a, vutil.Atoi(f[i+3])))
		i += 3
	}
	i++
	for n := vutil.Atoi(f[i]); n > 0; n-- {
		p.MACs = append(p.MACs, net.HardwareAddr(vutil.Unhex(f[i+1])))
		i++
	}
	i++
	for n := vutil.Atoi(f[i]); n > 0; n-- {
		p.ClientIDs = append(p.ClientIDs, vutil.Unhex(f[i+1]))
		i++
	}
	i++
	p.Tags = append([]string(nil), c04TagSets[vutil.Atoi(f[i+9])]...)
	if vutil.UnB(f[i]) {
		p.Tags = append(p.Tags, "no_such_tag")
	}
	if id := vutil.Atoi(f[i+8]); id != 0 {
		p.SafeSearch = &c04SS{id: id}
	}
	p.UseOwnSettings = vutil.UnB(f[i+1])
	p.FilteringEnabled = vutil.UnB(f[i+2])
	p.SafeSearchConf.Enabled = vutil.UnB(f[i+3])
	p.SafeBrowsingEnabled = vutil.UnB(f[i+4])
	p.ParentalEnabled = vutil.UnB(f[i+5])
	p.UseOwnBlockedServices = vutil.UnB(f[i+6])
	p.IgnoreQueryLog, p.IgnoreStatistics = vutil.UnB(f[i+10]), vutil.UnB(f[i+11])
	p.Upstreams = append([]string(nil), c04Upstreams[vutil.Atoi(f[i+12])]...)
	p.UpstreamsCacheEnabled = vutil.UnB(f[i+13])
	p.SafeSearchConf = c04SSConf(p.SafeSearchConf.Enabled, vutil.Atoi(f[i+15]))
	p.BlockedServices = &filtering.BlockedServices{
		Schedule: c04Sched(vutil.Atoi(f[i+14])),
		IDs:      []string{c04Services[vutil.Atoi(f[i+7])]},
	}

	return p, i + 16
}

// c04ClientS decodes a client whose identifiers are strings and runs the real
// SetIDs on them.
func c04ClientS(f []string, i int) (p *Persistent, err error) {
	p = &Persistent{}
	p.UID = c04UID(uint64(vutil.Atoi(f[i])))
	p.UpstreamsCacheSize = uint32(vutil.Atoi(f[i+1]))
	p.Name = vutil.Unhex(f[i+2])
	n := vutil.Atoi(f[i+3])
	i += 4
	var ids []string
	for ; n > 0; n-- {
		ids = append(ids, vutil.Unhex(f[i]))
		i += 11
	}
	// reuse the tail decoder: "0 0 0 0" = no typed identifiers, then the flags
	tail := append([]string{"0", "0", "", "0", "0", "0", "0"}, f[i:]...)
	q, _ := c04Client(tail, 0)
	q.UID, q.UpstreamsCacheSize, q.Name = p.UID, p.UpstreamsCacheSize, p.Name

	return q, q.SetIDs(ids)
}

func c04SetIDsErr(err error) []string {
	if strings.Contains(err.Error(), "clientid is empty") {
		return []string{"err", "emptyID"}
	} else if strings.Contains(err.Error(), "invalid clientid") {
		return []string{"err", "badID"}
	}

	return []string{"err", "other:" + vutil.Hex(err.Error())}
}

func c04ErrKind(err error) []string {
	if err == nil {
		return []string{"ok"}
	}
	msg := err.Error()
	kinds := []struct{ sub, kind string }{
		{"empty name", "emptyName"}, {"uid required", "noUID"}, {"id required", "noIDs"},
		{"invalid tag", "invalidConf"}, {"invalid upstream", "invalidConf"},
		{"uses the same uid", "uidClash"}, {"uses the same name", "nameClash"},
		{"uses the same ClientID", "cidClash"}, {"uses the same IP", "ipClash"},
		{"uses the same subnet", "subnetClash"}, {"uses the same MAC", "macClash"},
		{"is not found", "notFound"},
	}
	for _, k := range kinds {
		if strings.Contains(msg, k.sub) {
			return []string{"err", k.kind}
		}
	}

	return []string{"err", "other:" + vutil.Hex(msg)}
}

func c04Show(p *Persistent, ok bool) string {
	switch {
	case !ok:
		return "-"
	case p == nil:
		return "D"
	default:
		return fmt.Sprintf("%d:%d", c04UIDNum(p.UID), p.UpstreamsCacheSize)
	}
}

// c04Guard runs one observation and turns a panic into "P".
func c04Guard(f func() string) (s string) {
	defer func() {
		if v := recover(); v != nil {
			s = "P"
		}
	}()

	return f()
}

// c04Global is what DNSFilter.Settings() returns for the filter of the harness
// (checked at reset), with ProtectionEnabled set so that clearing it would show.
func c04Global() *filtering.Settings {
	return &filtering.Settings{
		ProtectionEnabled:   true,
		FilteringEnabled:    true,
		SafeSearchEnabled:   false,
		SafeBrowsingEnabled: true,
		ParentalEnabled:     false,
	}
}

// c04ShowSettings prints EVERY field of filtering.Settings after the real
// per-request path (DNSFilter.ApplyAdditionalFiltering).  The effective blocked
// services are read where the filter reads them: ServicesRules.
func c04ShowSettings(setts *filtering.Settings, addr netip.Addr) string {
	svc := "?"
	if len(setts.ServicesRules) == 1 {
		svc = c04ServiceNum(setts.ServicesRules[0].Name)
	}
	if bs := setts.BlockedServices; bs != nil && (len(bs.IDs) != 1 || c04ServiceNum(bs.IDs[0]) != svc) {
		svc = "?mismatch"
	}
	sso := "0"
	switch v := setts.ClientSafeSearch.(type) {
	case nil:
	case *c04SS:
		sso = vutil.Itoa(v.id)
	default:
		sso = "?"
	}
	// ClientIP is the request's address and nothing else about it changed.
	untouched := setts.ClientIP == addr

	return strings.Join([]string{
		"S", vutil.Hex(setts.ClientName), c04TagsNum(setts.ClientTags), svc, vutil.B(setts.FilteringEnabled),
		vutil.B(setts.SafeSearchEnabled), sso, vutil.B(setts.SafeBrowsingEnabled), vutil.B(setts.ParentalEnabled),
		vutil.B(setts.ProtectionEnabled), vutil.B(untouched),
	}, ":")
}

func c04Observe(c *c04State) (out []string) {
	s := c.st
	for _, pr := range c.probes {
		out = append(out, c04Guard(func() string {
			switch pr.tag {
			case "n":
				return c04Show(s.FindByName(pr.s))
			case "c":
				return c04Show(s.index.findByClientID(pr.s))
			case "i":
				return c04Show(s.index.findByIP(pr.ip))
			case "m":
				return c04Show(s.index.findByMAC(pr.mac))
			case "a":
				// the path of a DNS request: dnsforward's
				// clientRequestFilteringSettings = Settings() + ApplyAdditionalFiltering
				setts := c04Global()
				c.flt.ApplyAdditionalFiltering(pr.ip, pr.s, setts)

				return c04ShowSettings(setts, pr.ip)
			case "f":
				return c04Show(s.Find(pr.s))
			default:
				panic("bad probe " + pr.tag)
			}
		}))
	}
	var all, full []string
	s.RangeByName(func(p *Persistent) (cont bool) {
		all = append(all, fmt.Sprintf("%d:%d", c04UIDNum(p.UID), p.UpstreamsCacheSize))
		full = append(full, c04Full(p))

		return true
	})
	allS, fullS := "-", "-"
	if len(all) > 0 {
		allS, fullS = strings.Join(all, ","), strings.Join(full, ",")
	}

	return append(out, "R", allS, "F", fullS)
}

func c04Run(f []string) []string {
	ctx := context.Background()
	if f[0] == "C04.reset" {
		d := &c04DHCP{macs: map[netip.Addr]net.HardwareAddr{}}
		st, err := NewStorage(ctx, &StorageConfig{
			Logger: slogutil.NewDiscardLogger(),
			Clock:  timeutil.SystemClock{},
			DHCP:   d,
		})
		if err != nil {
			panic(err)
		}
		c04InitOnce.Do(filtering.InitModule)
		flt, err := filtering.New(&filtering.Config{
			ApplyClientFiltering: st.ApplyClientFiltering,
			BlockedServices: &filtering.BlockedServices{
				Schedule: schedule.EmptyWeekly(), IDs: []string{c04Services[0]},
			},
			BlockingMode:        filtering.BlockingModeDefault,
			SafeBrowsingEnabled: true,
		}, nil)
		if err != nil {
			panic(err)
		}
		flt.SetEnabled(true)
		g, w := flt.Settings(), c04Global()
		if g.FilteringEnabled != w.FilteringEnabled || g.SafeSearchEnabled != w.SafeSearchEnabled ||
			g.SafeBrowsingEnabled != w.SafeBrowsingEnabled || g.ParentalEnabled != w.ParentalEnabled {
			panic("c04Global is not DNSFilter.Settings()")
		}
		c := &c04State{st: st, dhcp: d, flt: flt}
		n := vutil.Atoi(f[1])
		for k := 0; k < n; k++ {
			g := f[2+8*k : 2+8*k+8]
			pr := c04Probe{tag: g[0]}
			switch g[0] {
			case "n", "c":
				pr.s = vutil.Unhex(g[1])
			case "i":
				pr.ip = c04IP(g[1], g[2], g[3])
			case "m":
				pr.mac = net.HardwareAddr(vutil.Unhex(g[1]))
			case "a":
				pr.s, pr.ip = vutil.Unhex(g[1]), c04IP(g[2], g[3], g[4])
			case "f":
				pr.s = vutil.Unhex(g[1])
			}
			c.probes = append(c.probes, pr)
		}
		c04Cur = c

		return []string{"ok"}
	}

	c := c04Cur
	if c == nil {
		panic("op before reset")
	}
	var res []string
	func() {
		defer func() {
			if v := recover(); v != nil {
				res = []string{"panic"}
			}
		}()
		switch f[0] {
		case "C04.add":
			p, _ := c04Client(f, 1)
			res = c04ErrKind(c.st.Add(ctx, p))
		case "C04.update":
			p, _ := c04Client(f, 2)
			res = c04ErrKind(c.st.Update(ctx, vutil.Unhex(f[1]), p))
		case "C04.addS":
			p, serr := c04ClientS(f, 1)
			if serr != nil {
				res = c04SetIDsErr(serr)
			} else {
				res = c04ErrKind(c.st.Add(ctx, p))
			}
		case "C04.updateS":
			p, serr := c04ClientS(f, 2)
			if serr != nil {
				res = c04SetIDsErr(serr)
			} else {
				res = c04ErrKind(c.st.Update(ctx, vutil.Unhex(f[1]), p))
			}
		case "C04.remove":
			if c.st.RemoveByName(ctx, vutil.Unhex(f[1])) {
				res = []string{"ok"}
			} else {
				res = []string{"err", "notFound"}
			}
		case "C04.dhcpset":
			c.dhcp.macs[c04IP(f[1], f[2], f[3])] = net.HardwareAddr(vutil.Unhex(f[4]))
			res = []string{"ok"}
		case "C04.dhcpdel":
			delete(c.dhcp.macs, c04IP(f[1], f[2], f[3]))
			res = []string{"ok"}
		default:
			panic("unknown op " + f[0])
		}
	}()

	return append(res, c04Observe(c)...)
}

// ---------------------------------------------------------------- generator

var c04Names = []string{"alice", "bob", "carol", "Alice", "dave", "erin", "frank"}

var c04CIDs = []string{"cli", "phone", "tv", "a-b", "x9"}

var c04IPs = []string{
	"10.0.0.1", "10.0.0.2", "10.0.1.1", "192.168.1.1", "::1", "2001:db8::1", "fe80::1%eth0", "fe80::1",
	"::ffff:10.0.0.1",
}

// Nested and overlapping subnets, some naming the same network with different
// host bits, and families mixed at equal lengths.
var c04Subnets = []string{
	"10.0.0.0/8", "10.0.0.0/16", "10.0.0.0/24", "10.0.0.1/24", "10.0.0.2/31", "10.0.0.1/32", "0.0.0.0/0",
	"::/0", "2001:db8::/32", "2001:db8::/64", "fe80::/10", "::ffff:10.0.0.0/104", "2001:db8::1/128",
	"192.168.0.0/16", "::/8", "128.0.0.0/8",
}

// Addresses probed in addition to the identifiers themselves.
var c04ExtraAddrs = []string{
	"0:11:22:33:44:55:66:77", // what SetIDs makes of an 8-byte MAC written with colons
	"10.0.0.3", "10.0.0.7", "10.0.5.5", "10.9.9.9", "11.1.1.1", "192.168.7.7", "2001:db8::5", "2001:db8:1::1",
	"fe80::9%eth0", "::ffff:10.0.0.9", "2002::1", "200.1.1.1",
}

var c04MACs = []string{
	"\x02\x00\x00\x00\x00\x01", "\x02\x00\x00\x00\x00\x02", "\x02\x00\x00\x00\x00\x09", "\xaa\xbb\xcc\xdd\xee\xff",
	"\x00\x11\x22\x33\x44\x55\x66\x77", "\x00\x11\x22\x33\x44\x55\x66\x78",
	"\x00\x00\x00\x00\xfe\x80\x00\x00\x00\x00\x00\x00\x02\x00\x5e\x10\x00\x00\x00\x01",
	"\x00\x00\x00\x00\xfe\x80\x00\x00\x00\x00\x00\x00\x02\x00\x5e\x10\x00\x00\x00\x02",
}

const c04BadMAC = "\x02\x00\x00\x00\x00\x01\x07" // 7 bytes: macToKey panics

func c04IPFields(ip netip.Addr) []string {
	if !ip.IsValid() {
		return []string{"0", "-", "-"}
	}
	k := "6"
	if ip.Is4() {
		k = "4"
	}

	return []string{k, hex.EncodeToString(ip.AsSlice()), vutil.Hex(ip.Zone())}
}

type c04GenClient struct {
	uid, ver int
	name     string
	ips      []netip.Addr
	subs     []netip.Prefix
	macs     []string
	cids     []string
	flags    [7]bool
	svc      int
	ssObj    int
	tags     int
	extra    [6]int // ignoreQueryLog ignoreStatistics upstreams upstreamsCacheEnabled sched ssConf
}

func (c *c04GenClient) extraFields() (f []string) {
	for _, x := range c.extra {
		f = append(f, vutil.Itoa(x))
	}

	return f
}

func (c *c04GenClient) fields() (f []string) {
	f = []string{vutil.Itoa(c.uid), vutil.Itoa(c.ver), vutil.Hex(c.name), vutil.Itoa(len(c.ips))}
	for _, ip := range c.ips {
		f = append(f, c04IPFields(ip)...)
	}
	f = append(f, vutil.Itoa(len(c.subs)))
	for _, p := range c.subs {
		f = append(f, vutil.B(!p.Addr().Is4()), hex.EncodeToString(p.Addr().AsSlice()), vutil.Itoa(p.Bits()))
	}
	f = append(f, vutil.Itoa(len(c.macs)))
	for _, m := range c.macs {
		f = append(f, vutil.Hex(m))
	}
	f = append(f, vutil.Itoa(len(c.cids)))
	for _, id := range c.cids {
		f = append(f, vutil.Hex(id))
	}
	for _, b := range c.flags {
		f = append(f, vutil.B(b))
	}

	return append(append(f, vutil.Itoa(c.svc), vutil.Itoa(c.ssObj), vutil.Itoa(c.tags)), c.extraFields()...)
}

// ids returns the identifiers of kind k (0 IP, 1 subnet, 2 MAC, 3 ClientID) as keys.
func (c *c04GenClient) ids(k int) (keys []string) {
	switch k {
	case 0:
		for _, ip := range c.ips {
			keys = append(keys, "i"+ip.String())
		}
	case 1:
		for _, p := range c.subs {
			keys = append(keys, "s"+p.String())
		}
	case 2:
		for _, m := range c.macs {
			keys = append(keys, "m"+m)
		}
	default:
		for _, id := range c.cids {
			keys = append(keys, "c"+id)
		}
	}

	return keys
}

func (c *c04GenClient) hasBadMAC() bool {
	for _, m := range c.macs {
		if m == c04BadMAC {
			return true
		}
	}

	return false
}

func (c *c04GenClient) allIDs() (keys []string) {
	for k := 0; k < 4; k++ {
		keys = append(keys, c.ids(k)...)
	}

	return keys
}

// addID appends the identifier with the given key at position pos of its kind.
func (c *c04GenClient) addID(key string, pos int) {
	ins := func(n int) int {
		if pos < 0 || pos > n {
			return n
		}

		return pos
	}
	switch key[0] {
	case 'i':
		i := ins(len(c.ips))
		c.ips = append(c.ips[:i:i], append([]netip.Addr{netip.MustParseAddr(key[1:])}, c.ips[i:]...)...)
	case 's':
		i := ins(len(c.subs))
		c.subs = append(c.subs[:i:i], append([]netip.Prefix{netip.MustParsePrefix(key[1:])}, c.subs[i:]...)...)
	case 'm':
		i := ins(len(c.macs))
		c.macs = append(c.macs[:i:i], append([]string{key[1:]}, c.macs[i:]...)...)
	default:
		i := ins(len(c.cids))
		c.cids = append(c.cids[:i:i], append([]string{key[1:]}, c.cids[i:]...)...)
	}
}

// c04Shadow is the generator's own rough idea of the registry.  It only steers
// the generation (which client owns what); nothing is compared with it.
type c04Shadow struct{ byName map[string]*c04GenClient }

func (sh *c04Shadow) owner(key string, except *c04GenClient) *c04GenClient {
	for _, c := range sh.byName {
		if c == except {
			continue
		}
		for _, k := range c.allIDs() {
			if k == key {
				return c
			}
		}
	}

	return nil
}

func (sh *c04Shadow) acceptable(c, stored *c04GenClient) bool {
	if c.name == "" || len(c.allIDs()) == 0 || c.uid == 0 || c.flags[0] {
		return false
	}
	for _, m := range c.macs {
		if m == c04BadMAC {
			return false
		}
	}
	if o, ok := sh.byName[c.name]; ok && o != stored {
		return false
	}
	for _, o := range sh.byName {
		if o != stored && o.uid == c.uid {
			return false
		}
	}
	for _, k := range c.allIDs() {
		if sh.owner(k, stored) != nil {
			return false
		}
	}

	return true
}

func (sh *c04Shadow) add(c *c04GenClient) {
	if sh.acceptable(c, nil) {
		sh.byName[c.name] = c
	}
}

func (sh *c04Shadow) update(name string, c *c04GenClient) {
	stored, ok := sh.byName[name]
	if !ok {
		return
	}
	cc := *c
	cc.uid = stored.uid
	if sh.acceptable(&cc, stored) {
		delete(sh.byName, name)
		sh.byName[cc.name] = &cc
	}
}

func (sh *c04Shadow) pick(r *rand.Rand, except *c04GenClient) *c04GenClient {
	var cs []*c04GenClient
	for _, n := range c04Names {
		if c, ok := sh.byName[n]; ok && c != except {
			cs = append(cs, c)
		}
	}
	if len(cs) == 0 {
		return nil
	}

	return vutil.Pick(r, cs)
}

// c04Universe returns every identifier key of kind k.
func c04Universe(k int) (keys []string) {
	switch k {
	case 0:
		for _, s := range c04IPs {
			keys = append(keys, "i"+netip.MustParseAddr(s).String())
		}
	case 1:
		for _, s := range c04Subnets {
			keys = append(keys, "s"+netip.MustParsePrefix(s).String())
		}
	case 2:
		for _, m := range c04MACs {
			keys = append(keys, "m"+m)
		}
	default:
		for _, id := range c04CIDs {
			keys = append(keys, "c"+id)
		}
	}

	return keys
}

func (sh *c04Shadow) free(r *rand.Rand, k int, taken []string) (key string, ok bool) {
	var fr []string
	for _, key = range c04Universe(k) {
		used := sh.owner(key, nil) != nil
		for _, t := range taken {
			used = used || t == key
		}
		if !used {
			fr = append(fr, key)
		}
	}
	if len(fr) == 0 {
		return "", false
	}

	return vutil.Pick(r, fr), true
}

// c04SpellMAC writes a MAC in one of the spellings net.ParseMAC accepts.
func c04SpellMAC(r *rand.Rand, m string) (s string) {
	h := hex.EncodeToString([]byte(m))
	var parts []string
	sep := ":"
	switch r.IntN(3) {
	case 0:
		sep = "-"
	case 1:
		if len(m)%2 == 0 {
			sep = "."
			for i := 0; i < len(h); i += 4 {
				parts = append(parts, h[i:i+4])
			}
		}
	}
	if parts == nil {
		for i := 0; i < len(h); i += 2 {
			parts = append(parts, h[i:i+2])
		}
	}
	s = strings.Join(parts, sep)
	if r.IntN(2) == 0 {
		s = strings.ToUpper(s)
	}

	return s
}

func c04SpellCID(r *rand.Rand, id string) string {
	b := []byte(id)
	for i := range b {
		if b[i] >= 'a' && b[i] <= 'z' && r.IntN(3) == 0 {
			b[i] -= 32
		}
	}

	return string(b)
}

// c04IDStringFields encodes one identifier string with what the three parsers
// make of it (the classification itself is the model's).
func c04IDStringFields(s string) (f []string) {
	f = []string{vutil.Hex(s)}
	if ip, err := netip.ParseAddr(s); err == nil {
		f = append(f, "1")
		f = append(f, c04IPFields(ip)...)
	} else {
		f = append(f, "0", "0", "-", "-")
	}
	if p, err := netip.ParsePrefix(s); err == nil {
		f = append(f, "1", vutil.B(!p.Addr().Is4()), hex.EncodeToString(p.Addr().AsSlice()), vutil.Itoa(p.Bits()))
	} else {
		f = append(f, "0", "0", "-", "0")
	}
	if mac, err := net.ParseMAC(s); err == nil {
		f = append(f, "1", vutil.Hex(string(mac)))
	} else {
		f = append(f, "0", "-")
	}

	return f
}

var c04BadIDStrings = []string{"", "a_b", "-x", "1.2.3.4/33", "02:00:00:00:00", "fe80::1%eth0/64x", "a.b"}

// stringFields is fields() with the identifiers as strings in random order and
// spelling (the input of SetIDs).
func (c *c04GenClient) stringFields(r *rand.Rand) (f []string) {
	var ids []string
	for _, ip := range c.ips {
		ids = append(ids, ip.String())
	}
	for _, p := range c.subs {
		ids = append(ids, p.String())
	}
	for _, m := range c.macs {
		ids = append(ids, c04SpellMAC(r, m))
	}
	for _, id := range c.cids {
		ids = append(ids, c04SpellCID(r, id))
	}
	r.Shuffle(len(ids), func(i, j int) { ids[i], ids[j] = ids[j], ids[i] })
	if r.IntN(25) == 0 {
		k := r.IntN(len(ids) + 1)
		ids = append(ids[:k:k], append([]string{vutil.Pick(r, c04BadIDStrings)}, ids[k:]...)...)
	}
	f = []string{vutil.Itoa(c.uid), vutil.Itoa(c.ver), vutil.Hex(c.name), vutil.Itoa(len(ids))}
	for _, s := range ids {
		f = append(f, c04IDStringFields(s)...)
	}
	for _, b := range c.flags {
		f = append(f, vutil.B(b))
	}

	return append(append(f, vutil.Itoa(c.svc), vutil.Itoa(c.ssObj), vutil.Itoa(c.tags)), c.extraFields()...)
}

func c04Gen(r *rand.Rand, emit0 vutil.Emit) {
	// Half of the adds and updates go through the real SetIDs: identifiers as
	// strings.  The client's field list is the last argument group of the op.
	var pending *c04GenClient
	emit := func(fields ...string) {
		c := pending
		pending = nil
		if c != nil && r.IntN(2) == 0 && !c.hasBadMAC() {
			switch fields[0] {
			case "C04.add":
				emit0(append([]string{"C04.addS"}, c.stringFields(r)...)...)

				return
			case "C04.update":
				emit0(append([]string{"C04.updateS", fields[1]}, c.stringFields(r)...)...)

				return
			}
		}
		emit0(fields...)
	}
	_ = emit
	n := vutil.N(2000)
	ver := 0
	for h := 0; h < n; h++ {
		// ---- universe of this history
		var probes [][]string
		add := func(g ...string) {
			for len(g) < 8 {
				g = append(g, "-")
			}
			probes = append(probes, g)
		}
		for _, nm := range c04Names {
			add("n", vutil.Hex(nm))
		}
		for _, id := range c04CIDs {
			add("c", vutil.Hex(id))
		}
		var addrs []netip.Addr
		for _, s := range append(append([]string{}, c04IPs...), c04ExtraAddrs...) {
			addrs = append(addrs, netip.MustParseAddr(s))
		}
		for _, a := range addrs {
			add(append([]string{"i"}, c04IPFields(a)...)...)
		}
		macs := append([]string{}, c04MACs...)
		for _, m := range macs {
			add("m", vutil.Hex(m))
		}
		if r.IntN(20) == 0 {
			add("m", vutil.Hex(c04BadMAC))
		}
		// requests: (ClientID, address) pairs
		for k := 0; k < 14; k++ {
			id := ""
			if r.IntN(3) == 0 {
				id = vutil.Pick(r, c04CIDs)
			}
			add(append([]string{"a", vutil.Hex(id)}, c04IPFields(vutil.Pick(r, addrs))...)...)
		}
		add("a", "-", "0", "-", "-") // no ClientID, zero address
		// Find(string): every kind of string
		var strs []string
		strs = append(strs, c04CIDs[0], c04CIDs[1], "nosuch")
		for k := 0; k < 5; k++ {
			strs = append(strs, vutil.Pick(r, addrs).String())
		}
		for _, m := range macs {
			strs = append(strs, net.HardwareAddr(m).String())
		}
		strs = append(strs, "00-11-22-33-44-55-66-77")
		for _, s := range strs {
			g := []string{"f", vutil.Hex(s)}
			if ip, err := netip.ParseAddr(s); err == nil {
				g = append(g, "1")
				g = append(g, c04IPFields(ip)...)
			} else {
				g = append(g, "0", "0", "-", "-")
			}
			if mac, err := net.ParseMAC(s); err == nil {
				g = append(g, "1", vutil.Hex(string(mac)))
			} else {
				g = append(g, "0", "-")
			}
			add(g...)
		}
		f := []string{"C04.reset", vutil.Itoa(len(probes))}
		for _, g := range probes {
			f = append(f, g...)
		}
		emit(f...)

		// ---- operations
		nextUID := 1
		var live []string // names that were accepted at some point (may be stale: good)
		genClient := func() *c04GenClient {
			ver++
			c := &c04GenClient{ver: ver, name: vutil.Pick(r, c04Names), svc: 1 + ver%(len(c04Services)-1)}
			switch r.IntN(30) {
			case 0:
				c.name = ""
			}
			c.uid = nextUID
			nextUID++
			switch r.IntN(25) {
			case 0:
				c.uid = 0
			case 1:
				if nextUID > 2 {
					c.uid = 1 + r.IntN(nextUID-1) // reuse of a UID
				}
			}
			nIDs := []int{1, 1, 2, 2, 3, 4, 0}[r.IntN(7)]
			if nIDs == 0 && r.IntN(4) > 0 {
				nIDs = 1
			}
			for k := 0; k < nIDs; k++ {
				switch r.IntN(10) {
				case 0, 1, 2:
					c.ips = append(c.ips, netip.MustParseAddr(vutil.Pick(r, c04IPs)))
				case 3, 4, 5, 6:
					c.subs = append(c.subs, netip.MustParsePrefix(vutil.Pick(r, c04Subnets)))
				case 7:
					m := vutil.Pick(r, c04MACs)
					if r.IntN(60) == 0 {
						m = c04BadMAC
					}
					c.macs = append(c.macs, m)
				default:
					c.cids = append(c.cids, vutil.Pick(r, c04CIDs))
				}
			}
			c.flags[0] = r.IntN(40) == 0 // invalid tag
			for k := 1; k < 7; k++ {
				c.flags[k] = r.IntN(2) == 0
			}
			// an own safe-search object and tags, independent of every switch
			if r.IntN(3) > 0 {
				c.ssObj = ver
			}
			c.tags = r.IntN(len(c04TagSets))
			c.extra = [6]int{r.IntN(2), r.IntN(2), r.IntN(len(c04Upstreams)), r.IntN(2), r.IntN(2), r.IntN(128)}

			return c
		}
		nOps := 1 + r.IntN(60)
		if r.IntN(4) == 0 {
			nOps = 1 + r.IntN(8)
		}
		sh := &c04Shadow{byName: map[string]*c04GenClient{}}
		// derive builds a variant of base (nil: a new client): every identifier of
		// base kept, nFree unowned identifiers of kind kd added, and, if victim
		// is not nil, one identifier of kind kd that victim owns inserted before /
		// between / after the others of that kind.
		derive := func(base, victim *c04GenClient, kd, nFree int) *c04GenClient {
			c := genClient()
			c.ips, c.subs, c.macs, c.cids = nil, nil, nil, nil
			c.flags[0] = false
			if c.uid == 0 {
				c.uid = nextUID
				nextUID++
			}
			if base != nil {
				c.name = base.name
				c.ips = append(c.ips, base.ips...)
				c.subs = append(c.subs, base.subs...)
				c.macs = append(c.macs, base.macs...)
				c.cids = append(c.cids, base.cids...)
			} else {
				c.name = vutil.Pick(r, c04Names)
				c.uid = nextUID
				nextUID++
			}
			for ; nFree > 0; nFree-- {
				if key, ok := sh.free(r, kd, c.ids(kd)); ok {
					c.addID(key, r.IntN(len(c.ids(kd))+1))
				}
			}
			if victim != nil {
				if vk := victim.ids(kd); len(vk) > 0 {
					n := len(c.ids(kd))
					pos := []int{0, n, n, r.IntN(n + 1)}[r.IntN(4)]
					c.addID(vutil.Pick(r, vk), pos)
				}
			}

			return c
		}
		for k := 0; k < nOps; k++ {
			switch x := r.IntN(118); {
			case x >= 100 && x < 106:
				// update keeping the own identifiers and adding free ones of one
				// kind: builds clients with several identifiers of a kind
				a := sh.pick(r, nil)
				if a == nil {
					continue
				}
				c := derive(a, nil, r.IntN(4), 1+r.IntN(2))
				pending = c
				emit(append([]string{"C04.update", vutil.Hex(a.name)}, c.fields()...)...)
				sh.update(a.name, c)
			case x >= 106 && x < 113:
				// update keeping k >= 1 own identifiers of a kind and adding one
				// that ANOTHER client owns, at any position among them
				a := sh.pick(r, nil)
				b := sh.pick(r, a)
				if a == nil || b == nil {
					continue
				}
				kd := r.IntN(4)
				for t := 0; t < 4 && len(b.ids(kd)) == 0; t++ {
					kd = (kd + 1) % 4
				}
				nFree := 0
				if len(a.ids(kd)) == 0 || r.IntN(3) == 0 {
					nFree = 1 + r.IntN(2)
				}
				c := derive(a, b, kd, nFree)
				if r.IntN(5) == 0 {
					c.name = vutil.Pick(r, c04Names)
				}
				pending = c
				emit(append([]string{"C04.update", vutil.Hex(a.name)}, c.fields()...)...)
				sh.update(a.name, c)
			case x >= 113:
				// add with several identifiers of one kind of which only one
				// (mostly the last) belongs to another client
				b := sh.pick(r, nil)
				if b == nil {
					continue
				}
				kd := r.IntN(4)
				for t := 0; t < 4 && len(b.ids(kd)) == 0; t++ {
					kd = (kd + 1) % 4
				}
				c := derive(nil, b, kd, 1+r.IntN(3))
				pending = c
				emit(append([]string{"C04.add"}, c.fields()...)...)
				sh.add(c)
				live = append(live, c.name)
			case x < 38:
				c := genClient()
				pending = c
				emit(append([]string{"C04.add"}, c.fields()...)...)
				sh.add(c)
				live = append(live, c.name)
			case x < 66:
				c := genClient()
				name := vutil.Pick(r, c04Names)
				if len(live) > 0 && r.IntN(5) > 0 {
					name = vutil.Pick(r, live)
				}
				if r.IntN(3) == 0 {
					c.name = name // not a rename
				}
				pending = c
				emit(append([]string{"C04.update", vutil.Hex(name)}, c.fields()...)...)
				sh.update(name, c)
				live = append(live, c.name)
			case x < 80:
				name := vutil.Pick(r, c04Names)
				if len(live) > 0 && r.IntN(4) > 0 {
					name = vutil.Pick(r, live)
				}
				emit("C04.remove", vutil.Hex(name))
				delete(sh.byName, name)
			case x < 93:
				ip := vutil.Pick(r, addrs)
				m := vutil.Pick(r, c04MACs)
				if r.IntN(80) == 0 {
					m = c04BadMAC
				}
				emit(append(append([]string{"C04.dhcpset"}, c04IPFields(ip)...), vutil.Hex(m))...)
			default:
				emit(append([]string{"C04.dhcpdel"}, c04IPFields(vutil.Pick(r, addrs))...)...)
			}
		}
	}
}

func TestVerifC04(t *testing.T) { vutil.Main(t, c04Gen, c04Run) }
