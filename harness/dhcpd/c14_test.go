//go:build verif && linux

package dhcpd

import (
	"bytes"
	"encoding/json"
	"errors"
	"fmt"
	"math/rand/v2"
	"net"
	"net/netip"
	"os"
	"path/filepath"
	"runtime"
	"sort"
	"strconv"
	"strings"
	"syscall"
	"testing"
	"time"

	"github.com/AdguardTeam/AdGuardHome/internal/dhcpsvc"
	"github.com/AdguardTeam/AdGuardHome/internal/vc14"
	"github.com/AdguardTeam/AdGuardHome/internal/vutil"
)

// C14 harness for the DHCP lease database (dhcpd/db.go writeDB, dbStore;
// dhcpd/migrate.go migrateDB) and for the visible layer of the file-system
// model itself (C14.fsop: random syscalls on the real kernel).

func TestVerifC14(t *testing.T) {
	if vc14.IsChild() {
		vc14.ChildLoop(c14Child)

		return
	}
	if os.Getenv("VERIF_OUT") == "" {
		t.Skip("driven by /verif/bin/check")
	}

	p := &c14Parent{t: t, root: t.TempDir()}
	p.canImm = vc14.CanImmutable(p.root)
	defer p.close()
	vutil.Main(t, p.gen, p.run)
}

// ---------------------------------------------------------------- child

var c14c struct {
	w, dest string
	srv     *server
}

func c14Leases(size int, seed uint64, dynamicInRange bool) (leases []*dbLease) {
	r := rand.New(rand.NewPCG(seed, 14))
	leases = []*dbLease{}
	total := 0
	for i := 0; total < size; i++ {
		hl := 1 + r.IntN(24)
		if size > 1<<20 {
			hl = 200 + r.IntN(800)
		}
		var sb strings.Builder
		fmt.Fprintf(&sb, "h%d-", i)
		for sb.Len() < hl {
			sb.WriteByte("abcdefghijklmnopqrstuvwxyz0123456789"[r.IntN(36)])
		}
		l := &dbLease{
			Hostname: sb.String(),
			HWAddr:   net.HardwareAddr{0x02, byte(i >> 24), byte(i >> 16), byte(i >> 8), byte(i), byte(r.IntN(256))}.String(),
			IP:       netip.AddrFrom4([4]byte{10, 10, byte(i/250) % 250, byte(2 + i%250)}),
			IsStatic: !dynamicInRange && r.IntN(3) == 0,
		}
		if !l.IsStatic {
			l.Expiry = time.Unix(1900000000+int64(r.IntN(1000000)), 0).UTC().Format(time.RFC3339)
		}
		leases = append(leases, l)
		total += 90 + len(l.Hostname)
	}

	return leases
}

func c14Expected(leases []*dbLease) []byte {
	cp := append([]*dbLease{}, leases...)
	sort.SliceStable(cp, func(i, j int) bool { return cp[i].Hostname < cp[j].Hostname })
	b, err := json.Marshal(&dataLeases{Version: dataVersion, Leases: cp})
	if err != nil {
		panic(err)
	}

	return b
}

func c14Child(f []string) []string {
	switch f[0] {
	case "reset":
		// reset <W> <T> <hasInitial> <seed>
		c14c.w = f[1]
		c14c.dest = filepath.Join(f[1], "data", dataFilename)
		must(os.MkdirAll(filepath.Join(f[1], "data"), 0o755))
		must(os.MkdirAll(f[2], 0o755))
		must(os.Setenv("TMPDIR", f[2]))
		if f[3] == "1" {
			seed, _ := strconv.ParseUint(f[4], 10, 64)
			must(os.WriteFile(c14c.dest, c14Expected(c14Leases(300, seed, false)), 0o644))
		}
		c14c.srv = nil

		return []string{"ok"}
	case "put":
		// put <abs path> <size> <seed>: the legacy database leases.db
		size, _ := strconv.Atoi(f[2])
		seed, _ := strconv.ParseUint(f[3], 10, 64)
		old := []*leaseJSON{}
		for i, l := range c14Leases(size, seed, false) {
			exp := int64(leaseExpireStatic)
			if !l.IsStatic {
				exp = 1900000000 + int64(i)
			}
			mac, _ := net.ParseMAC(l.HWAddr)
			ip := l.IP.AsSlice()
			if i%2 == 0 {
				ip = net.IP(ip).To16()
			}
			old = append(old, &leaseJSON{HWAddr: mac, IP: ip, Hostname: l.Hostname, Expiry: exp})
		}
		b, err := json.Marshal(old)
		must(err)
		must(os.WriteFile(f[1], b, 0o644))

		return []string{"ok"}
	case "save":
		return c14Save(f[1], f[2], f[3], f[4])
	case "race":
		return c14Race(f[1], f[2], f[3], f[4], f[5])
	default:
		panic("unknown command " + f[0])
	}
}

func must(err error) {
	if err != nil {
		panic(err)
	}
}

// c14Save performs one real save.  Answer: committed newLen finalOK oldSum newSum.
func c14Save(variant, sizeS, seedS, probe string) []string {
	size, _ := strconv.Atoi(sizeS)
	seed, _ := strconv.ParseUint(seedS, 10, 64)
	dest := c14c.dest
	oldSum := vc14.FileSum(dest)

	var err error
	var expected []byte
	switch variant {
	case "writedb":
		leases := c14Leases(size, seed, false)
		expected = c14Expected(leases)
		vc14.WithFault(probe, dest, func() { vc14.Window(func() { err = writeDB(dest, leases) }) })
	case "dbstore":
		if c14c.srv == nil {
			s := &server{conf: &ServerConfig{dbFilePath: dest}}
			s.srv4, err = v4Create(&V4ServerConf{
				Enabled:    true,
				RangeStart: netip.MustParseAddr("10.10.0.2"),
				RangeEnd:   netip.MustParseAddr("10.10.255.250"),
				GatewayIP:  netip.MustParseAddr("10.10.0.1"),
				SubnetMask: netip.MustParseAddr("255.255.0.0"),
				notify:     func(uint32) {},
			})
			must(err)
			s.srv6, err = v6Create(V6ServerConf{})
			must(err)
			c14c.srv = s
		}
		s := c14c.srv
		var ls []*dhcpsvc.Lease
		for _, dl := range c14Leases(size, seed, true) {
			l, lerr := dl.toLease()
			must(lerr)
			ls = append(ls, l)
		}
		must(s.srv4.ResetLeases(ls))
		stored := []*dbLease{}
		for _, l := range s.srv4.getLeasesRef() {
			stored = append(stored, fromLease(l))
		}
		expected = c14Expected(stored)
		vc14.WithFault(probe, dest, func() { vc14.Window(func() { err = s.dbStore() }) })
	case "migrate":
		// The legacy file has been put by the preceding C14.put line.
		oldPath := filepath.Join(c14c.w, dbFilename)
		olds, rerr := readOldDB(oldPath)
		must(rerr)
		leases := []*dbLease{}
		for _, l := range olds {
			ip, _ := netip.AddrFromSlice(normalizeIP(l.IP))
			leases = append(leases, &dbLease{
				Expiry:   time.Unix(l.Expiry, 0).Format(time.RFC3339),
				Hostname: l.Hostname,
				HWAddr:   net.HardwareAddr(l.HWAddr).String(),
				IP:       ip,
				IsStatic: l.Expiry == leaseExpireStatic,
			})
		}
		expected = c14Expected(leases)
		conf := &ServerConfig{WorkDir: c14c.w, DataDir: filepath.Join(c14c.w, "data")}
		vc14.WithFault(probe, dest, func() { vc14.Window(func() { err = migrateDB(conf) }) })
	default:
		panic("unknown variant " + variant)
	}

	after, rerr := os.ReadFile(dest)
	finalOK := err == nil && rerr == nil && bytes.Equal(after, expected)
	if probe == "faildir" || vc14.FsizeOf(probe) >= 0 || strings.Contains(probe, "+inj") {
		// The save cannot succeed; it must say so and leave the file alone.
		finalOK = err != nil && vc14.FileSum(dest) == oldSum
	}

	return []string{vutil.B(err == nil), strconv.Itoa(len(expected)), vutil.B(finalOK), oldSum, vc14.FileSum(dest)}
}

// c14Race stores two different lease sets at the same time from two goroutines
// (dbStore is reached from the v4 and the v6 server and from the HTTP API
// without a common lock).  Answer: nCommitted finalOK oldSum sumA sumB.
func c14Race(variant, sizeA, seedA, sizeB, seedB string) []string {
	dest := c14c.dest
	oldSum := vc14.FileSum(dest)
	mk := func(sizeS, seedS string) ([]*dbLease, []byte) {
		size, _ := strconv.Atoi(sizeS)
		seed, _ := strconv.ParseUint(seedS, 10, 64)
		l := c14Leases(size, seed, false)

		return l, c14Expected(l)
	}
	la, ea := mk(sizeA, seedA)
	lb, eb := mk(sizeB, seedB)
	var errA, errB error
	if strings.HasSuffix(variant, "1") {
		// One processor (a small router): while one saver sits in a syscall the
		// other runs on the same P, right behind it.
		defer runtime.GOMAXPROCS(runtime.GOMAXPROCS(1))
	}
	vc14.Window(func() {
		done := make(chan struct{})
		go func() { errA = writeDB(dest, la); close(done) }()
		errB = writeDB(dest, lb)
		<-done
	})
	n := 0
	if errA == nil {
		n++
	}
	if errB == nil {
		n++
	}
	after, rerr := os.ReadFile(dest)
	finalOK := rerr == nil && n == 2 && (bytes.Equal(after, ea) || bytes.Equal(after, eb))

	return []string{strconv.Itoa(n), vutil.B(finalOK), oldSum, vc14.Sum(ea), vc14.Sum(eb)}
}

// ---------------------------------------------------------------- parent

type c14Parent struct {
	t     *testing.T
	root  string
	child *vc14.Child
	blk   int
	w, tm string
	dest  string

	// fs mode
	fsDir   string
	fsFiles map[int]*os.File
	fsSeen  map[string]bool

	canImm bool
}

func (p *c14Parent) close() {
	if p.child != nil {
		p.child.Stop()
	}
	_ = os.RemoveAll(c14ShmRoot())
	vc14.ClearImmutable(p.root)
}

func c14ShmRoot() string { return "/dev/shm/verif-c14-dhcpd-" + strconv.Itoa(os.Getpid()) }

func (p *c14Parent) ensureChild() {
	if p.child == nil {
		p.child = vc14.Start(p.t, "TestVerifC14", p.root)
	}
}

const c14DestRel = "W/data/" + dataFilename

func (p *c14Parent) gen(r *rand.Rand, emit vutil.Emit) {
	n := vutil.N(60)
	for b := 0; b < n; b++ {
		if b%3 == 2 {
			p.genFS(r, emit)

			continue
		}
		mode := "same"
		if r.IntN(4) == 0 {
			mode = "xdev"
		}
		hasInitial := r.IntN(4) != 0
		files := []string{}
		if hasInitial {
			files = append(files, vutil.Hex(c14DestRel))
		}
		emit(append([]string{"C14.reset", "leases-" + mode + "-" + strconv.FormatUint(r.Uint64N(1<<40), 10),
			vutil.Hex(c14DestRel), strconv.Itoa(len(files))}, files...)...)
		saves := 1 + r.IntN(20)
		for s := 0; s < saves; s++ {
			size := c14Size(r)
			seed := strconv.FormatUint(r.Uint64N(1<<40), 10)
			if r.IntN(12) == 0 && vc14.Injected() == "" {
				// Two saves of the same path at once.
				sb := c14Size(r)
				if size > 1<<20 {
					size = 1 << 20
				}
				if sb > 1<<20 {
					sb = 1 << 20
				}
				emit("C14.race", vutil.Pick(r, []string{"writedb", "writedb1", "writedb1"}), strconv.Itoa(size), seed, strconv.Itoa(sb),
					strconv.FormatUint(r.Uint64N(1<<40), 10), mode)

				continue
			}
			// The variant first: it bounds the size the write fault is drawn from.
			v := r.IntN(10)
			switch {
			case v >= 5 && v < 8 && size > 200000:
				size = 200000
			case v >= 8 && size > 1<<20:
				size = 1 << 20
			}
			// Now and then a fault: the destination directory refuses new entries
			// (the save must fail and leave the file alone), or TMPDIR is unusable.
			fault := ""
			switch f := r.IntN(16); {
			case f == 0 && p.canImm:
				fault = "faildir"
			case f == 1:
				fault = "notmp"
			case f == 2 || f == 3:
				// Write fault: the file may not grow beyond lim bytes (EFBIG), which
				// is always less than what the save wants to write.
				lim := 0
				if r.IntN(2) == 0 {
					lim = r.IntN(size/2 + 1)
					if lim > 20 && size < 64 {
						lim = 20
					}
				}
				fault = "fsize=" + strconv.Itoa(lim)
			}
			probe := vc14.Probe(mode, fault)
			failing := fault == "faildir" || strings.HasPrefix(fault, "fsize=")
			if vc14.Injected() == "fsync" {
				// Every fsync fails with EIO in this run: no save can succeed, and
				// renameio's deferred Cleanup must remove the temporary file.
				failing = true
				if !strings.Contains(probe, "+") && fault != "faildir" {
					probe += "+injfsync"
				}
			}
			commit := vutil.B(!failing)
			switch {
			case v < 5:
				emit("C14.save", "writedb", strconv.Itoa(size), seed, commit, "0", probe)
			case v < 8:
				if size > 200000 {
					size = 200000
				}
				emit("C14.save", "dbstore", strconv.Itoa(size), seed, commit, "0", probe)
			default:
				if size > 1<<20 {
					size = 1 << 20
				}
				if failing {
					probe = mode
				}
				emit("C14.put", vutil.Hex("W/"+dbFilename), strconv.Itoa(size), seed)
				if vc14.Injected() == "fsync" {
					emit("C14.save", "migrate", strconv.Itoa(size), seed, "0", "0", mode+"+injfsync")
				} else {
					emit("C14.save", "migrate", strconv.Itoa(size), seed, "1", "1", probe)
				}
			}
		}
	}
}

// c14Size draws a content size: mostly small, a tail up to 1 MiB (quick) or
// 32 MiB (thorough).
func c14Size(r *rand.Rand) int {
	switch v := r.IntN(100); {
	case v < 8:
		return 0
	case v < 60:
		return r.IntN(4096)
	case v < 90:
		return r.IntN(1 << 16)
	case v < 98:
		return r.IntN(1 << 20)
	default:
		if vutil.Thorough() {
			return 1<<20 + r.IntN(31<<20)
		}

		return r.IntN(1 << 20)
	}
}

func (p *c14Parent) run(f []string) []string {
	switch f[0] {
	case "C14.reset":
		kind := f[1]
		if strings.HasPrefix(kind, "fs") {
			return p.fsReset()
		}
		p.ensureChild()
		p.blk++
		parts := strings.Split(kind, "-")
		p.w = filepath.Join(p.root, "b"+strconv.Itoa(p.blk))
		p.tm = filepath.Join(p.root, "t"+strconv.Itoa(p.blk))
		if parts[1] == "xdev" {
			p.tm = filepath.Join(c14ShmRoot(), "t"+strconv.Itoa(p.blk))
		}
		p.dest = filepath.Join(p.w, "data", dataFilename)
		p.child.SetRoots(map[string]string{p.w: "W", p.tm: "T"})
		resp, _, err := p.child.Do("reset", p.w, p.tm, vutil.B(vutil.Atoi(f[3]) > 0), parts[2])
		if err != nil {
			panic(err)
		}

		return resp
	case "C14.put":
		rel := vutil.Unhex(f[1])
		resp, _, err := p.child.Do("put", filepath.Join(p.w, strings.TrimPrefix(rel, "W/")), f[2], f[3])
		if err != nil {
			panic(err)
		}

		return resp
	case "C14.save":
		rd := vc14.StartReader(p.dest)
		resp, events, err := p.child.Do("save", f[1], f[2], f[3], f[6])
		if err != nil || len(resp) != 5 {
			rd.Stop()
			if err != nil {
				panic(err)
			}

			return resp
		}
		reads, bad := rd.Stop(resp[3], resp[4])
		out := []string{resp[0], resp[1], resp[2], strconv.Itoa(reads), strconv.Itoa(bad)}
		names := p.child.ListFiles(p.w, filepath.Join(p.w, "data"), p.tm)
		out = append(out, strconv.Itoa(len(names)))
		out = append(out, names...)
		out = append(out, strconv.Itoa(len(events)))

		return append(out, events...)
	case "C14.race":
		rd := vc14.StartReader(p.dest)
		resp, events, err := p.child.Do("race", f[1], f[2], f[3], f[4], f[5])
		if err != nil || len(resp) != 5 {
			rd.Stop()
			if err != nil {
				panic(err)
			}

			return resp
		}
		reads, bad := rd.Stop(resp[2], resp[3], resp[4])
		out := []string{resp[0], resp[1], strconv.Itoa(reads), strconv.Itoa(bad)}
		names := p.child.ListFiles(p.w, filepath.Join(p.w, "data"), p.tm)
		out = append(out, strconv.Itoa(len(names)))
		out = append(out, names...)
		out = append(out, strconv.Itoa(len(events)))

		return append(out, events...)
	case "C14.fsop":
		return p.fsOp(f[1])
	default:
		panic("unknown op " + f[0])
	}
}

// ---------------------------------------------------------------- fs mode

var c14FsPaths = []string{"F/a", "F/b", "F/c", "F/.a1"}

func (p *c14Parent) genFS(r *rand.Rand, emit vutil.Emit) {
	emit("C14.reset", "fs", "-", "0")
	fd := 0
	nops := 10 + r.IntN(50)
	for i := 0; i < nops; i++ {
		path := vutil.Hex(vutil.Pick(r, c14FsPaths))
		anyFd := func() string {
			if fd == 0 {
				return "1"
			}

			return strconv.Itoa(1 + r.IntN(fd))
		}
		switch v := r.IntN(20); {
		case v < 3:
			fd++
			emit("C14.fsop", fmt.Sprintf("c:%s:%d", path, fd))
		case v < 6:
			fd++
			emit("C14.fsop", fmt.Sprintf("o:%s:%d:%d", path, fd, r.IntN(2)))
		case v < 12:
			d := make([]byte, r.IntN(6))
			for j := range d {
				d[j] = byte('a' + r.IntN(26))
			}
			emit("C14.fsop", fmt.Sprintf("W:%s:%s", anyFd(), vutil.Hex(string(d))))
		case v < 13:
			emit("C14.fsop", "s:"+anyFd())
		case v < 15:
			emit("C14.fsop", "x:"+anyFd())
		case v < 18:
			emit("C14.fsop", fmt.Sprintf("r:%s:%s", path, vutil.Hex(vutil.Pick(r, c14FsPaths))))
		default:
			emit("C14.fsop", "u:"+path)
		}
	}
}

func (p *c14Parent) fsReset() []string {
	for _, f := range p.fsFiles {
		_ = f.Close()
	}
	p.blk++
	p.fsDir = filepath.Join(p.root, "f"+strconv.Itoa(p.blk))
	must(os.MkdirAll(p.fsDir, 0o755))
	p.fsFiles = map[int]*os.File{}
	p.fsSeen = map[string]bool{}

	return []string{"ok"}
}

func c14Errno(err error) string {
	switch {
	case err == nil:
		return "ok"
	case errors.Is(err, syscall.EEXIST):
		return "eexist"
	case errors.Is(err, syscall.ENOENT):
		return "enoent"
	case errors.Is(err, syscall.EBADF), errors.Is(err, os.ErrClosed):
		return "ebadf"
	default:
		return "other:" + vutil.Hex(err.Error())
	}
}

func (p *c14Parent) fsOp(ev string) []string {
	parts := strings.Split(ev, ":")
	abs := func(h string) string {
		rel := vutil.Unhex(h)
		p.fsSeen[rel] = true

		return filepath.Join(p.fsDir, strings.TrimPrefix(rel, "F/"))
	}
	file := func(s string) *os.File { return p.fsFiles[vutil.Atoi(s)] }
	var err error
	switch parts[0] {
	case "c", "o":
		flags := os.O_RDWR | os.O_CREATE | os.O_EXCL
		if parts[0] == "o" {
			flags = os.O_WRONLY | os.O_CREATE
			if parts[3] == "1" {
				flags |= os.O_TRUNC
			}
		}
		var f *os.File
		f, err = os.OpenFile(abs(parts[1]), flags, 0o600)
		if err == nil {
			p.fsFiles[vutil.Atoi(parts[2])] = f
		}
	case "W":
		if f := file(parts[1]); f == nil {
			err = syscall.EBADF
		} else {
			_, err = f.Write([]byte(vutil.Unhex(parts[2])))
		}
	case "s":
		if f := file(parts[1]); f == nil {
			err = syscall.EBADF
		} else {
			err = f.Sync()
		}
	case "x":
		if f := file(parts[1]); f == nil {
			err = syscall.EBADF
		} else {
			err = f.Close()
			delete(p.fsFiles, vutil.Atoi(parts[1]))
		}
	case "r":
		err = os.Rename(abs(parts[1]), abs(parts[2]))
	case "u":
		err = os.Remove(abs(parts[1]))
	default:
		panic("bad fs event " + ev)
	}

	rels := make([]string, 0, len(p.fsSeen))
	for rel := range p.fsSeen {
		rels = append(rels, rel)
	}
	sort.Strings(rels)
	out := []string{c14Errno(err), strconv.Itoa(len(rels))}
	for _, rel := range rels {
		b, rerr := os.ReadFile(filepath.Join(p.fsDir, strings.TrimPrefix(rel, "F/")))
		if rerr != nil {
			out = append(out, vutil.Hex(rel), "0", "-")
		} else {
			out = append(out, vutil.Hex(rel), "1", vutil.Hex(string(b)))
		}
	}

	return out
}
