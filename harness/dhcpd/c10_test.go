//go:build verif && linux

package dhcpd

import (
	"encoding/binary"
	"encoding/json"
	"fmt"
	"hash/fnv"
	"io"
	"math/rand/v2"
	"net"
	"net/http"
	"net/http/httptest"
	"net/netip"
	"os"
	"path/filepath"
	"slices"
	"sort"
	"strings"
	"testing"
	"testing/synctest"
	"time"

	"github.com/AdguardTeam/AdGuardHome/internal/aghnet"
	"github.com/AdguardTeam/AdGuardHome/internal/dhcpsvc"
	"github.com/AdguardTeam/AdGuardHome/internal/vutil"
	"github.com/AdguardTeam/golibs/log"
	"github.com/AdguardTeam/golibs/netutil"
	"github.com/insomniacslk/dhcp/dhcpv4"
)

// C10 harness: operation histories on a real v4Server whose notify callback is
// the real (*server).onNotify, i.e. the real dbStore into a leases.json in a
// scratch directory; restart = a new server + the real dbLoad.  After every
// operation the whole lease table, both indexes (with the position of the
// lease each entry points to), the bitset over the pool and the database file
// are dumped.  Model time: 1000 + whole seconds since the block started; the
// zero time.Time is 0.

// c10St is the state of the current block.
var c10St struct {
	dir    string
	srv    *server
	s4     *v4Server
	base   time.Time
	gw     uint32
	mask   int
	start  uint32
	stop   uint32
	lt     uint32
	oracle map[string]c10Norm
	// disabled: `enabled: false` with a complete DHCPv4 configuration
	disabled bool
	// inject, when set, is run by the notify callback at the FIRST database-store
	// notification (and reset): traffic of another client arriving while a static
	// lease is being added
	inject func()
}

type c10Norm struct {
	err   bool
	norm  string
	valid bool
}

const c10SelfIP = 0xC0A80A02 // 192.168.10.2, the server identifier

func c10Addr(u uint32) netip.Addr {
	var b [4]byte
	binary.BigEndian.PutUint32(b[:], u)

	return netip.AddrFrom4(b)
}

func c10U32(a netip.Addr) uint32 {
	if !a.Is4() {
		panic("c10: not an IPv4 address: " + a.String())
	}
	b := a.As4()

	return binary.BigEndian.Uint32(b[:])
}

func c10NetIP(u uint32) net.IP {
	b := make(net.IP, 4)
	binary.BigEndian.PutUint32(b, u)

	return b
}

func c10Uint(s string) uint32 { return uint32(vutil.Atoi(s)) }

func c10Utoa(u uint32) string { return vutil.Itoa(int(u)) }

// c10OracleOf computes the oracle entry of one raw hostname on the real code.
func c10OracleOf(raw string) c10Norm {
	n, err := normalizeHostname(raw)

	return c10Norm{err: err != nil, norm: n, valid: netutil.ValidateHostname(raw) == nil}
}

// c10NewServer creates the server pair (server + v4Server) of the block over
// the block's database file and loads the database, as Create does.
func c10NewServer() {
	st := &c10St
	srv := &server{conf: &ServerConfig{dbFilePath: filepath.Join(st.dir, dataFilename)}}
	maskBytes := make(net.IP, 4)
	binary.BigEndian.PutUint32(maskBytes, uint32(^uint64(0)<<(32-st.mask)))
	maskAddr, _ := netip.AddrFromSlice(maskBytes)
	conf := &V4ServerConf{
		Enabled:       !st.disabled,
		GatewayIP:     c10Addr(st.gw),
		SubnetMask:    maskAddr,
		RangeStart:    c10Addr(st.start),
		RangeEnd:      c10Addr(st.stop),
		LeaseDuration: st.lt,
		ICMPTimeout:   0,
		notify: func(flags uint32) {
			srv.onNotify(flags)
			if f := st.inject; f != nil && flags == LeaseChangedDBStore {
				st.inject = nil
				f()
			}
		},
	}
	s4, err := v4Create(conf)
	if err != nil {
		// V4ServerConf.Validate refused the configuration.
		st.srv, st.s4 = nil, nil

		return
	}
	s4.conf.dnsIPAddrs = []netip.Addr{c10Addr(c10SelfIP)}
	srv.srv4 = s4
	err = srv.dbLoad()
	if err != nil {
		panic("c10: dbLoad: " + err.Error())
	}
	st.srv, st.s4 = srv, s4
}

func c10Time(t time.Time) string {
	if t.IsZero() {
		return "0"
	}

	return vutil.Itoa(1000 + int(t.Unix()-c10St.base.Unix()))
}

func c10Lease(l *dhcpsvc.Lease) []string {
	exp := l.Expiry
	return []string{vutil.Hex(string(l.HWAddr)), c10Utoa(c10U32(l.IP)), vutil.Hex(l.Hostname), vutil.B(l.IsStatic), c10Time(exp)}
}

// c10Dump is the observation after every operation.
func c10Dump() (out []string) {
	st := &c10St
	s := st.s4
	out = append(out, vutil.Itoa(1000+int(time.Since(st.base)/time.Second)))

	pos := map[*dhcpsvc.Lease]int{}
	out = append(out, vutil.Itoa(len(s.leases)))
	for i, l := range s.leases {
		if _, ok := pos[l]; !ok {
			pos[l] = i
		}
		out = append(out, c10Lease(l)...)
	}
	posOf := func(l *dhcpsvc.Lease) string {
		if i, ok := pos[l]; ok {
			return vutil.Itoa(i)
		}

		return "x"
	}

	hkeys := make([]string, 0, len(s.hostsIndex))
	for k := range s.hostsIndex {
		hkeys = append(hkeys, k)
	}
	sort.Strings(hkeys)
	out = append(out, vutil.Itoa(len(hkeys)))
	for _, k := range hkeys {
		l := s.hostsIndex[k]
		out = append(out, vutil.Hex(k), posOf(l))
		out = append(out, c10Lease(l)...)
	}

	ikeys := make([]netip.Addr, 0, len(s.ipIndex))
	for k := range s.ipIndex {
		ikeys = append(ikeys, k)
	}
	slices.SortFunc(ikeys, func(a, b netip.Addr) int { return a.Compare(b) })
	out = append(out, vutil.Itoa(len(ikeys)))
	for _, k := range ikeys {
		l := s.ipIndex[k]
		out = append(out, c10Utoa(c10U32(k)), posOf(l))
		out = append(out, c10Lease(l)...)
	}

	var bits strings.Builder
	for o := uint64(0); o <= uint64(st.stop-st.start); o++ {
		if s.leasedOffsets.isSet(o) {
			bits.WriteByte('1')
		} else {
			bits.WriteByte('0')
		}
	}
	// any bit outside the pool is a disagreement with the table as well
	extra := 0
	for w, word := range s.leasedOffsets.words {
		for b := uint64(0); b < bitsPerWord; b++ {
			if word&(1<<b) != 0 && w*bitsPerWord+b > uint64(st.stop-st.start) {
				extra++
			}
		}
	}
	out = append(out, bits.String(), vutil.Itoa(extra))

	data, err := os.ReadFile(st.srv.conf.dbFilePath)
	if err != nil {
		return append(append(append(out, "nofile"), c10Answers()...), "file=-")
	}
	dl := &dataLeases{}
	if err = json.Unmarshal(data, dl); err != nil {
		return append(out, "badfile")
	}
	out = append(out, vutil.Itoa(len(dl.Leases)))
	for _, d := range dl.Leases {
		l, lerr := d.toLease()
		if lerr != nil {
			out = append(out, "badlease", vutil.Hex(lerr.Error()), "-", "0", "0")

			continue
		}
		out = append(out, c10Lease(l)...)
	}

	// the bytes of the file, for the byte-level model of the encoder
	return append(append(out, c10Answers()...), "file="+vutil.Hex(string(data)))
}

// c10Answers asks the real dhcpd.Interface (what dnsforward and the clients
// container use) about every pool address, every address and hostname in the
// table or in an index: HostByIP, MACByIP, IPByHost.
func c10Answers() (out []string) {
	st := &c10St
	s := st.s4
	var iface Interface = st.srv

	ipSet := map[uint32]bool{}
	for a := st.start; a <= st.stop && a >= st.start; a++ {
		ipSet[a] = true
	}
	hostSet := map[string]bool{}
	for _, l := range s.leases {
		ipSet[c10U32(l.IP)] = true
		if l.Hostname != "" {
			hostSet[l.Hostname] = true
		}
	}
	for k := range s.ipIndex {
		ipSet[c10U32(k)] = true
	}
	for k := range s.hostsIndex {
		hostSet[k] = true
	}

	ips := make([]uint32, 0, len(ipSet))
	for a := range ipSet {
		ips = append(ips, a)
	}
	slices.Sort(ips)
	out = append(out, vutil.Itoa(len(ips)))
	for _, a := range ips {
		out = append(out, c10Utoa(a), vutil.Hex(iface.HostByIP(c10Addr(a))), vutil.Hex(string(iface.MACByIP(c10Addr(a)))))
	}

	hosts := make([]string, 0, len(hostSet))
	for h := range hostSet {
		hosts = append(hosts, h)
	}
	sort.Strings(hosts)
	out = append(out, vutil.Itoa(len(hosts)))
	for _, h := range hosts {
		ip := iface.IPByHost(h)
		v := uint32(0)
		if ip.IsValid() {
			v = c10U32(ip)
		}
		out = append(out, vutil.Hex(h), c10Utoa(v))
	}

	return out
}

func c10ErrKind(err error) string {
	if err == nil {
		return "ok"
	}
	msg := err.Error()
	switch {
	case strings.Contains(msg, "can't assign the gateway IP"):
		return "gateway"
	case strings.Contains(msg, "normalizing"), strings.Contains(msg, "validating hostname"):
		return "hostname"
	case strings.Contains(msg, "static lease already exists"):
		return "staticExists"
	case strings.Contains(msg, "hostname is not unique"):
		return "dupHost"
	case strings.Contains(msg, "ip address is not unique"):
		return "dupIP"
	case strings.Contains(msg, "does not contain the ip"):
		return "subnet"
	case strings.Contains(msg, "can't find lease"), strings.Contains(msg, "lease not found"):
		return "notFound"
	case strings.Contains(msg, "is different"):
		return "different"
	case strings.Contains(msg, "bad mac address"), strings.Contains(msg, "validating lease"):
		return "badMAC"
	default:
		return "other:" + vutil.Hex(msg)
	}
}

// c10Msg sends one DHCP message through the wire form and the real handler,
// with the post-processing of packetHandler.
func c10Msg(mt dhcpv4.MessageType, mac net.HardwareAddr, sid uint32, reqPresent bool, reqIP, ciaddr uint32, host string) []string {
	if err := netutil.ValidateMAC(mac); err != nil {
		// packetHandler drops the packet.
		return []string{"-1", "0", "0", "ok"}
	}
	req, err := dhcpv4.New(dhcpv4.WithMessageType(mt), dhcpv4.WithHwAddr(mac))
	if err != nil {
		panic(err)
	}
	req.ClientIPAddr = c10NetIP(ciaddr)
	if reqPresent {
		req.UpdateOption(dhcpv4.OptRequestedIPAddress(c10NetIP(reqIP)))
	}
	if sid != 0 {
		req.UpdateOption(dhcpv4.OptServerIdentifier(c10NetIP(sid)))
	}
	if host != "" {
		req.UpdateOption(dhcpv4.OptHostName(host))
	}
	req, err = dhcpv4.FromBytes(req.ToBytes())
	if err != nil {
		panic(err)
	}
	resp, err := dhcpv4.NewReplyFromRequest(req)
	if err != nil {
		panic(err)
	}

	rc := c10St.s4.handle(req, resp)
	if rc < 0 {
		return []string{"-1", "0", "0", "ok"}
	} else if rc == 0 {
		resp.Options.Update(dhcpv4.OptMessageType(dhcpv4.MessageTypeNak))
	}
	var yi uint32
	if ip4 := resp.YourIPAddr.To4(); ip4 != nil {
		yi = binary.BigEndian.Uint32(ip4)
	}

	return []string{vutil.Itoa(rc), vutil.Itoa(int(resp.MessageType())), c10Utoa(yi), "ok"}
}

func c10StaticLease(f []string) *dhcpsvc.Lease {
	return &dhcpsvc.Lease{
		HWAddr:   net.HardwareAddr(slices.Clone([]byte(vutil.Unhex(f[1])))),
		IP:       c10Addr(c10Uint(f[2])),
		Hostname: vutil.Unhex(f[3]),
		IsStatic: true,
	}
}

// c10Run executes one line on the real server.
func c10Run(f []string) []string {
	st := &c10St
	var reply []string
	switch f[0] {
	case "C10.reset":
		if st.dir == "" {
			dir, err := os.MkdirTemp("/dev/shm", "c10-")
			if err != nil {
				dir, err = os.MkdirTemp("", "c10-")
			}
			if err != nil {
				panic(err)
			}
			st.dir = dir
		}
		_ = os.Remove(filepath.Join(st.dir, dataFilename))
		st.gw, st.mask, st.start, st.stop, st.lt = c10Uint(f[1]), vutil.Atoi(f[2]), c10Uint(f[3]), c10Uint(f[4]), c10Uint(f[5])
		st.disabled = slices.Contains(f, "en=0")
		// the shipped oracle must be what the real functions say
		okOracle := true
		n := vutil.Atoi(f[6])
		for i := 0; i < n; i++ {
			raw := vutil.Unhex(f[7+4*i])
			got := c10Norm{err: vutil.UnB(f[8+4*i]), norm: vutil.Unhex(f[9+4*i]), valid: vutil.UnB(f[10+4*i])}
			if got != c10OracleOf(raw) {
				okOracle = false
			}
		}
		st.base = time.Now()
		c10NewServer()
		if st.s4 == nil {
			return []string{"1", "0", "0", "rejected"}
		}
		reply = []string{"1", "0", "0", "ok"}
		if !okOracle {
			reply[3] = "badOracle"
		}

		// The last field says which of the repairs prepared in /verif/fixes/c10
		// the tree under test has (R3, R4); the model runs the matching variant.
		return append(append(reply, c10Dump()...), "fix="+c10Fix(), "base="+vutil.Itoa(int(st.base.Unix())))
	case "C10.discover":
		reply = c10Msg(dhcpv4.MessageTypeDiscover, net.HardwareAddr(vutil.Unhex(f[1])), 0, false, 0, 0, "")
	case "C10.request":
		reply = c10Msg(dhcpv4.MessageTypeRequest, net.HardwareAddr(vutil.Unhex(f[1])), c10Uint(f[2]), vutil.UnB(f[3]),
			c10Uint(f[4]), c10Uint(f[5]), vutil.Unhex(f[6]))
	case "C10.decline":
		reply = c10Msg(dhcpv4.MessageTypeDecline, net.HardwareAddr(vutil.Unhex(f[1])), 0, vutil.UnB(f[2]), c10Uint(f[3]), c10Uint(f[4]), "")
	case "C10.release":
		reply = c10Msg(dhcpv4.MessageTypeRelease, net.HardwareAddr(vutil.Unhex(f[1])), 0, vutil.UnB(f[2]), c10Uint(f[3]), c10Uint(f[4]), "")
	case "C10.addStatic":
		reply = []string{"1", "0", "0", c10ErrKind(st.s4.AddStaticLease(c10StaticLease(f)))}
	case "C10.addStaticInj":
		// AddStaticLease while another client (f[4]) sends DISCOVER and then REQUESTs
		// what it was offered: the exchange runs inside the first database-store
		// notification of the call.
		mac2 := net.HardwareAddr(vutil.Unhex(f[4]))
		st.inject = func() {
			offer := c10Msg(dhcpv4.MessageTypeDiscover, mac2, 0, false, 0, 0, "")
			if offer[0] == "1" {
				_ = c10Msg(dhcpv4.MessageTypeRequest, mac2, c10SelfIP, true, c10Uint(offer[2]), 0, "")
			}
		}
		reply = []string{"1", "0", "0", c10ErrKind(st.s4.AddStaticLease(c10StaticLease(f)))}
		st.inject = nil
	case "C10.updStatic":
		reply = []string{"1", "0", "0", c10ErrKind(st.s4.UpdateStaticLease(c10StaticLease(f)))}
	case "C10.rmStatic":
		reply = []string{"1", "0", "0", c10ErrKind(st.s4.RemoveStaticLease(c10StaticLease(f)))}
	case "C10.sleep":
		time.Sleep(time.Duration(vutil.Atoi(f[1])) * time.Second)
		reply = []string{"1", "0", "0", "ok"}
	case "C10.restart":
		c10NewServer()
		reply = []string{"1", "0", "0", "ok"}
	case "C10.resetleases":
		// POST /control/dhcp/reset_leases on the RUNNING server: the real handler,
		// i.e. server.resetLeases = ResetLeases(nil) on the live v4Server + dbStore.
		w := httptest.NewRecorder()
		st.srv.handleResetLeases(w, httptest.NewRequest(http.MethodPost, "/control/dhcp/reset_leases", nil))
		reply = []string{"1", "0", "0", "ok"}
		if w.Code != http.StatusOK {
			reply[3] = "http" + vutil.Itoa(w.Code)
		}
	default:
		panic("unknown op " + f[0])
	}

	return append(reply, c10Dump()...)
}

// ---------------------------------------------------------------- generator

var c10RawHosts = []string{
	"alpha", "Alpha", "beta", "gamma", "my host", "my-host", "bad..name", "-x-", "a.b", "!!!", "caf\xc3\xa9",
	"\xff\xfe", strings.Repeat("l", 70), "x_y", "UPPER.Case", "trailing.", "9", "delta",
}

// c10FixDefault is the code level of /repo that the model has as a switch: "11" =
// 410da26 (R3: commitLease keeps generated hostnames unique) and 2820039 (R4:
// ResetLeases leaves unnamed leases unnamed) are in.  The harness reports it with
// every reset line and the driver runs that variant of the model; C10_FIX ("00",
// "10", "01") makes the model follow a scratch tree without one of them.
const c10FixDefault = "11"

func c10Fix() string {
	if v := os.Getenv("C10_FIX"); len(v) == 2 {
		return v
	}

	return c10FixDefault
}

func c10MAC(i int) string {
	if i < 0 {
		return string(make([]byte, 6)) // the blocklist marker
	}

	return string([]byte{2, 0, 0, 0, 0, byte(i + 1)})
}

// c10Lookup returns the current lease of a MAC in the real table, if any.
func c10Lookup(mac string) *dhcpsvc.Lease {
	for _, l := range c10St.s4.leases {
		if string(l.HWAddr) == mac {
			return l
		}
	}

	return nil
}

func c10Gen(r *rand.Rand, emit0 vutil.Emit) {
	log.SetOutput(io.Discard)
	blocks := vutil.N(300)
	// Every operation line ends with a field "h=<hash of the block so far>",
	// ignored by the implementation and by the model: two lines are the same
	// case only if the operation AND the history before it are the same.
	hist := fnv.New64a()
	emit := func(fields ...string) {
		if fields[0] == "C10.reset" {
			hist.Reset()
		}
		_, _ = hist.Write([]byte(strings.Join(fields, "\t")))
		if fields[0] != "C10.reset" {
			fields = append(fields, fmt.Sprintf("h=%016x", hist.Sum64()))
		}
		emit0(fields...)
	}
	for b := 0; b < blocks; b++ {
		// a quarter of the histories mix 6-byte and 8-byte hardware addresses
		// that agree on the first six bytes (R5)
		mixed := os.Getenv("C10_MIXED_MAC") != "" || r.IntN(4) == 0
		// configuration
		var gw, start, stop uint32
		mask := 24
		base := uint32(0xC0A80A00) // 192.168.10.0
		switch r.IntN(6) {
		case 0:
			mask = 28
			gw, start = base+1, base+4
		case 1:
			mask = 16
			gw, start = base+1, base+100
		case 2:
			gw, start = base+99, base+100 // gateway adjacent below the pool
		default:
			gw, start = base+1, base+100
		}
		size := uint32(2 + r.IntN(5)) // 2..6 addresses
		if r.IntN(8) == 0 {
			size = uint32(7 + r.IntN(3))
		}
		stop = start + size - 1
		if r.IntN(10) == 0 && mask != 28 {
			gw = stop + 1 // gateway adjacent above the pool
		}
		// A fifth of the blocks probe V4ServerConf.Validate: tiny pools (one
		// address is not a range), the gateway below / at the first / inside /
		// at the last / above the pool or outside the subnet, reversed ranges,
		// ranges leaving the subnet.  A configuration the server accepts is
		// then driven until the pool is exhausted.
		probe := r.IntN(5) == 0
		if probe {
			size = uint32(1 + r.IntN(4))
			stop = start + size - 1
			switch r.IntN(9) {
			case 0:
				gw = start - 1
			case 1:
				gw = start
			case 2:
				gw = start + size/2
			case 3, 4:
				gw = stop
			case 5:
				gw = stop + 1
			case 6:
				gw = 0x0A000001 // another network
			case 7:
				start, stop = stop, start // reversed (or a single address)
			default:
				if mask == 28 {
					stop = base + 15 + uint32(r.IntN(3)) // the last address of the subnet and beyond
				} else {
					start = base - 1 - uint32(r.IntN(2)) // range start below the subnet (unless /16)
				}
			}
		}
		// Some blocks have more than 12 leases, most of them with equal (empty)
		// hostnames: writeDB's slices.SortFunc is an insertion sort only up to 12
		// records, beyond that the order of equal names in the file (hence the
		// order of the table after a restart) is whatever pdqsort leaves.
		big := !probe && mask != 28 && r.IntN(14) == 0
		if big {
			size = uint32(13 + r.IntN(8))
			stop = start + size - 1
			if gw >= start && gw <= stop {
				gw = stop + 1
			}
		}
		// `enabled: false` with a complete configuration: the server is not
		// started (no DHCP traffic), but the static-lease API, the database and
		// the answers given to DNS work as on an enabled one.
		disabled := !probe && !big && r.IntN(7) == 0
		lt := vutil.Pick(r, []uint32{10, 60, 3600})

		nmac := 3 + r.IntN(5)
		if probe {
			nmac = 5 + r.IntN(3)
		}
		if big {
			nmac = 14 + r.IntN(7)
		}
		macs := make([]string, nmac)
		for i := range macs {
			macs[i] = c10MAC(i)
			if mixed && r.IntN(3) == 0 {
				macs[i] = macs[r.IntN(i+1)][:6] + "\x07\x07"
			}
		}
		if r.IntN(15) == 0 {
			macs = append(macs, c10MAC(-1))
		}

		// address candidates
		var pool []uint32
		for a := start; a <= stop; a++ {
			pool = append(pool, a)
		}
		outs := []uint32{start - 1, stop + 1, stop + 2, base + 50, base + 200, gw, 0, c10SelfIP, 0x0A000005, base + 14, base + 3}
		pickIP := func() uint32 {
			if r.IntN(4) == 0 {
				return vutil.Pick(r, outs)
			}

			return vutil.Pick(r, pool)
		}

		// hostnames: raw pool + generated names of the pool (collisions with
		// the names the server generates itself)
		raws := append([]string{}, c10RawHosts...)
		for _, a := range pool {
			raws = append(raws, aghnet.GenerateHostname(c10Addr(a)))
		}
		raws = append(raws, aghnet.GenerateHostname(c10Addr(base+50)))
		hostPool := raws[:0:0]
		for i, n := 0, 3+r.IntN(4); i < n; i++ {
			hostPool = append(hostPool, vutil.Pick(r, raws))
		}
		pickHost := func() string {
			switch r.IntN(10) {
			case 0, 1, 2:
				return ""
			case 3:
				return vutil.Pick(r, raws)
			default:
				return vutil.Pick(r, hostPool)
			}
		}

		// oracle table: closed under normalisation, contains every generated name
		seen := map[string]bool{}
		var keys []string
		var add func(s string)
		add = func(s string) {
			if seen[s] {
				return
			}
			seen[s] = true
			keys = append(keys, s)
			add(c10OracleOf(s).norm)
		}
		add("")
		for _, s := range raws {
			add(s)
		}
		for _, a := range append(append([]uint32{}, pool...), outs...) {
			add(aghnet.GenerateHostname(c10Addr(a)))
		}
		f := []string{"C10.reset", c10Utoa(gw), vutil.Itoa(mask), c10Utoa(start), c10Utoa(stop), c10Utoa(lt), vutil.Itoa(len(keys))}
		for _, k := range keys {
			o := c10OracleOf(k)
			f = append(f, vutil.Hex(k), vutil.B(o.err), vutil.Hex(o.norm), vutil.B(o.valid))
		}
		if disabled {
			f = append(f, "en=0")
		}
		emit(f...)
		if c10St.s4 == nil {
			// rejected: the block ends with the verdict
			continue
		}
		if big {
			for _, m := range macs {
				emit("C10.discover", vutil.Hex(m))
				if r.IntN(4) == 0 {
					if l := c10Lookup(m); l != nil {
						emit("C10.request", vutil.Hex(m), c10Utoa(c10SelfIP), "1", c10Utoa(c10U32(l.IP)), "0", vutil.Hex(pickHost()))
					}
				}
			}
			emit("C10.restart")
		}
		if probe {
			// every client asks for an address and confirms it: the pool runs out
			for _, m := range macs {
				emit("C10.discover", vutil.Hex(m))
				if l := c10Lookup(m); l != nil {
					emit("C10.request", vutil.Hex(m), c10Utoa(c10SelfIP), "1", c10Utoa(c10U32(l.IP)), "0", vutil.Hex(pickHost()))
				}
			}
		}

		nops := 1 + r.IntN(80)
		if r.IntN(4) == 0 {
			nops = 1 + r.IntN(12)
		}
		// a profile per block so that some blocks exhaust the pool, some are
		// dominated by static-lease edits, some by restarts
		wStatic, wRestart, wSleep := 14, 4, 8
		switch r.IntN(5) {
		case 0:
			wStatic = 40
		case 1:
			wRestart = 15
		case 2:
			wSleep = 20
		}
		for i := 0; i < nops; i++ {
			mac := vutil.Pick(r, macs)
			cur := c10Lookup(mac)
			curIP := pickIP()
			if cur != nil && r.IntN(8) != 0 {
				curIP = c10U32(cur.IP)
			}
			w := r.IntN(100 + wStatic + wRestart + wSleep)
			if disabled {
				// no DHCP messages reach a server that is not started
				w = 100 + r.IntN(wStatic+wRestart+wSleep)
				if r.IntN(3) == 0 {
					w = 100 + wStatic + r.IntN(wRestart)
				}
			}
			switch {
			case w < 26:
				emit("C10.discover", vutil.Hex(mac))
			case w < 65:
				host := pickHost()
				switch r.IntN(10) {
				case 0, 1, 2, 3, 4: // selecting
					sid := uint32(c10SelfIP)
					if r.IntN(12) == 0 {
						sid = c10SelfIP + 1
					}
					ci := uint32(0)
					if r.IntN(15) == 0 {
						ci = curIP
					}
					emit("C10.request", vutil.Hex(mac), c10Utoa(sid), vutil.B(r.IntN(15) != 0), c10Utoa(curIP), c10Utoa(ci), vutil.Hex(host))
				case 5, 6: // init-reboot
					ci := uint32(0)
					if r.IntN(15) == 0 {
						ci = curIP
					}
					emit("C10.request", vutil.Hex(mac), "0", "1", c10Utoa(curIP), c10Utoa(ci), vutil.Hex(host))
				default: // renew / rebind
					emit("C10.request", vutil.Hex(mac), "0", vutil.B(r.IntN(10) == 0), "0", c10Utoa(curIP), vutil.Hex(host))
				}
			case w < 77:
				if r.IntN(2) == 0 {
					emit("C10.decline", vutil.Hex(mac), "1", c10Utoa(curIP), "0")
				} else {
					emit("C10.decline", vutil.Hex(mac), "0", "0", c10Utoa(curIP))
				}
			case w < 92:
				if r.IntN(4) == 0 {
					emit("C10.release", vutil.Hex(mac), "1", c10Utoa(curIP), c10Utoa(pickIP()))
				} else {
					emit("C10.release", vutil.Hex(mac), "0", "0", c10Utoa(curIP))
				}
			case w < 100:
				// a burst of DISCOVERs from distinct clients: pool exhaustion
				for _, m := range macs[:1+r.IntN(len(macs))] {
					emit("C10.discover", vutil.Hex(m))
				}
			case w < 100+wStatic:
				ip := pickIP()
				host := pickHost()
				switch r.IntN(10) {
				case 0, 1, 2, 3, 4:
					if r.IntN(3) == 0 && len(c10St.s4.leases) > 0 {
						// the address another client holds
						ip = c10U32(vutil.Pick(r, c10St.s4.leases).IP)
					}
					if !disabled && r.IntN(3) == 0 {
						// another client's DISCOVER + REQUEST arrive while the lease is added
						emit("C10.addStaticInj", vutil.Hex(mac), c10Utoa(ip), vutil.Hex(host), vutil.Hex(vutil.Pick(r, macs)))
					} else {
						emit("C10.addStatic", vutil.Hex(mac), c10Utoa(ip), vutil.Hex(host))
					}
				case 5, 6, 7:
					if cur != nil && r.IntN(2) == 0 {
						ip = c10U32(cur.IP)
					}
					if host == "" || r.IntN(3) == 0 {
						host = vutil.Pick(r, hostPool)
					}
					emit("C10.updStatic", vutil.Hex(mac), c10Utoa(ip), vutil.Hex(host))
				default:
					if cur != nil && r.IntN(6) != 0 {
						ip, host = c10U32(cur.IP), cur.Hostname
					}
					emit("C10.rmStatic", vutil.Hex(mac), c10Utoa(ip), vutil.Hex(host))
				}
			case w < 100+wStatic+wRestart:
				if r.IntN(3) != 0 {
					emit("C10.restart")

					break
				}
				// drop all leases on the running server, then let every client ask
				// again: the whole pool must be on offer once more
				emit("C10.resetleases")
				if disabled {
					break
				}
				for _, m := range macs {
					emit("C10.discover", vutil.Hex(m))
				}
			default:
				emit("C10.sleep", c10Utoa(vutil.Pick(r, []uint32{1, lt - 1, lt, lt + 1, 2 * lt, lt / 2})))
			}
		}
	}
}

func TestVerifC10(t *testing.T) {
	log.SetOutput(io.Discard)
	synctest.Test(t, func(t *testing.T) { vutil.Main(t, c10Gen, c10Run) })
	if c10St.dir != "" {
		_ = os.RemoveAll(c10St.dir)
	}
}
