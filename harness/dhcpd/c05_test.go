//go:build verif && (linux || darwin || freebsd || openbsd)

package dhcpd

// C05 harness, DHCP leases part: static leases are added and removed through
// the admin API handlers and DHCP messages are handled, while the readers the
// DNS server and the client storage use (HostByIP, IPByHost, MACByIP, Leases)
// run concurrently.  Every scenario runs in a child process of this test
// binary built with -race; see harness/c05util.

import (
	"encoding/json"
	"fmt"
	"math/rand/v2"
	"net"
	"net/http"
	"net/http/httptest"
	"net/netip"
	"os"
	"path/filepath"
	"runtime"
	"strings"
	"sync"
	"sync/atomic"
	"testing"
	"time"

	"github.com/AdguardTeam/AdGuardHome/internal/c05util"
	"github.com/AdguardTeam/AdGuardHome/internal/vutil"
	"github.com/insomniacslk/dhcp/dhcpv4"
)

var c05DHCPOps = []string{"static_leases", "static_vs_packets", "packets", "static_vs_readers", "reset_leases"}

// TestVerifC05DHCP is the entry point used by bin/check.
func TestVerifC05DHCP(t *testing.T) {
	n := vutil.N(5)
	gen := func(r *rand.Rand, emit vutil.Emit) {
		for i := 0; i < n; i++ {
			op := c05DHCPOps[i%len(c05DHCPOps)]
			emit("C05.run", "dhcp", op, vutil.Itoa(2), vutil.Itoa(60+r.IntN(60)), vutil.Itoa(2),
				vutil.Itoa(int(r.Uint32()>>1)), "home")
		}
	}
	run := func(f []string) []string {
		if f[0] != "C05.run" {
			panic("unknown op " + f[0])
		}

		return c05util.RunStress("TestVerifC05DHCPChild", f)
	}
	vutil.Main(t, gen, run)
}

type c05DHCPWorld struct {
	s        *server
	v4       *v4Server
	handlers map[string]http.HandlerFunc
	panics   atomic.Int64
	panicMsg atomic.Value
}

func (w *c05DHCPWorld) call(method, url, body string) int {
	h := w.handlers[method+" "+url]
	if h == nil {
		panic("c05: no handler for " + method + " " + url)
	}
	defer func() {
		if v := recover(); v != nil {
			w.panics.Add(1)
			w.panicMsg.Store(fmt.Sprintf("%s %s: %v", method, url, v))
		}
	}()
	r := httptest.NewRequest(method, url, strings.NewReader(body))
	r.Header.Set("Content-Type", "application/json")
	rec := httptest.NewRecorder()
	h(rec, r)

	return rec.Code
}

func c05NewDHCPWorld(t *testing.T, dir string) (w *c05DHCPWorld) {
	w = &c05DHCPWorld{handlers: map[string]http.HandlerFunc{}}
	w.s = &server{conf: &ServerConfig{
		ConfigModified: func() {},
		HTTPRegister: func(method, url string, h http.HandlerFunc) {
			w.handlers[method+" "+url] = h
		},
		Enabled:    true,
		dbFilePath: filepath.Join(dir, dataFilename),
	}}
	w.s.registerHandlers()
	var err error
	w.s.srv4, err = v4Create(&V4ServerConf{
		Enabled:       true,
		RangeStart:    netip.MustParseAddr("192.168.10.100"),
		RangeEnd:      netip.MustParseAddr("192.168.10.200"),
		GatewayIP:     netip.MustParseAddr("192.168.10.1"),
		SubnetMask:    netip.MustParseAddr("255.255.255.0"),
		LeaseDuration: 3600,
		notify:        w.s.onNotify,
		dnsIPAddrs:    []netip.Addr{netip.MustParseAddr("192.168.10.1")},
	})
	if err != nil {
		t.Fatal(err)
	}
	w.s.srv6, err = v6Create(V6ServerConf{})
	if err != nil {
		t.Fatal(err)
	}
	w.v4 = w.s.srv4.(*v4Server)

	return w
}

func c05MAC(i int) net.HardwareAddr { return net.HardwareAddr{0xAA, 0xBB, 0xCC, 0x00, byte(i >> 8), byte(i)} }

func (w *c05DHCPWorld) static(g, i int) {
	k := g*16 + i%8
	body := fmt.Sprintf(`{"mac":%q,"ip":"192.168.10.%d","hostname":"static-%d"}`, c05MAC(k).String(), 10+k, k)
	if (i/8)%2 == 0 {
		w.call("POST", "/control/dhcp/add_static_lease", body)
	} else {
		w.call("POST", "/control/dhcp/remove_static_lease", body)
	}
}

func (w *c05DHCPWorld) packet(g, i int) {
	mac := c05MAC(1000 + g*64 + i%32)
	req, err := dhcpv4.NewDiscovery(mac)
	if err != nil {
		panic(err)
	}
	resp, err := dhcpv4.NewReplyFromRequest(req)
	if err != nil {
		panic(err)
	}
	if w.v4.handle(req, resp) != 1 || resp.YourIPAddr == nil {
		return
	}
	req2, err := dhcpv4.NewRequestFromOffer(resp)
	if err != nil {
		panic(err)
	}
	req2.UpdateOption(dhcpv4.OptHostName(fmt.Sprintf("dyn-%d-%d", g, i%32)))
	resp2, err := dhcpv4.NewReplyFromRequest(req2)
	if err != nil {
		panic(err)
	}
	w.v4.handle(req2, resp2)
	if i%5 == 0 {
		rel, _ := dhcpv4.NewReleaseFromACK(resp2)
		if rel != nil {
			resp3, _ := dhcpv4.NewReplyFromRequest(rel)
			w.v4.handle(rel, resp3)
		}
	}
}

func (w *c05DHCPWorld) readers(i int) {
	ip := netip.AddrFrom4([4]byte{192, 168, 10, byte(10 + i%200)})
	_ = w.s.HostByIP(ip)
	_ = w.s.MACByIP(ip)
	_ = w.s.IPByHost(fmt.Sprintf("static-%d", i%32))
	for _, l := range w.s.Leases() {
		_ = l.Hostname
	}
	if i%7 == 0 {
		w.call("GET", "/control/dhcp/status", "")
	}
}

// TestVerifC05DHCPChild runs one scenario; only as a child of TestVerifC05DHCP.
func TestVerifC05DHCPChild(t *testing.T) {
	scn := os.Getenv("C05_SCN")
	dir := os.Getenv("C05_DIR")
	if scn == "" || dir == "" {
		t.Skip("only run as a child of TestVerifC05DHCP")
	}
	f := strings.Split(scn, "\t")
	op := f[2]
	nA, nIter, nB := vutil.Atoi(f[3]), vutil.Atoi(f[4]), vutil.Atoi(f[5])

	res := &c05util.ChildResult{}
	write := func() {
		data, _ := json.Marshal(res)
		_ = os.WriteFile(filepath.Join(dir, "result.json"), data, 0o644)
	}
	w := c05NewDHCPWorld(t, dir)
	c05util.ObserveLocks(w.s, w.s.srv4, w.s.srv6)

	var primary, secondary func(g, i int)
	switch op {
	case "static_leases":
		primary, secondary = w.static, func(g, i int) { w.static(8+g, i) }
	case "static_vs_packets":
		primary, secondary = w.static, w.packet
	case "packets":
		primary, secondary = w.packet, func(g, i int) { w.readers(i) }
	case "static_vs_readers":
		primary, secondary = w.static, func(g, i int) { w.readers(i) }
	case "reset_leases":
		primary = w.static
		secondary = func(g, i int) {
			if i%20 == 0 {
				w.call("POST", "/control/dhcp/reset_leases", "")
			} else {
				w.packet(g, i)
			}
		}
	default:
		panic("c05: unknown dhcp op " + op)
	}

	var ops atomic.Int64
	stop := make(chan struct{})
	var pWG, sWG sync.WaitGroup
	for g := 0; g < nA; g++ {
		pWG.Add(1)
		go func(g int) {
			defer pWG.Done()
			for i := 0; i < nIter; i++ {
				primary(g, i)
				ops.Add(1)
			}
		}(g)
	}
	for g := 0; g < nB; g++ {
		sWG.Add(1)
		go func(g int) {
			defer sWG.Done()
			for i := 0; ; i++ {
				select {
				case <-stop:
					return
				default:
				}
				secondary(g, i)
				ops.Add(1)
			}
		}(g)
	}
	finished := make(chan struct{})
	go func() {
		pWG.Wait()
		close(stop)
		sWG.Wait()
		close(finished)
	}()
	stalled := make(chan struct{})
	go func() {
		last, since := int64(-1), time.Now()
		for {
			time.Sleep(250 * time.Millisecond)
			if cur := ops.Load(); cur != last {
				last, since = cur, time.Now()
			} else if time.Since(since) > 4*time.Second {
				close(stalled)

				return
			}
		}
	}()
	select {
	case <-finished:
	case <-stalled:
		buf := make([]byte, 1<<20)
		buf = buf[:runtime.Stack(buf, true)]
		_ = os.WriteFile(filepath.Join(dir, "stacks.txt"), buf, 0o644)
		res.Edges, res.LockOps = c05util.ObservedEdges()
		res.Deadlock = true
		res.Stuck = c05util.StuckKey(string(buf))
		res.AdminOps = int(ops.Load())
		write()
		os.Exit(3)
	}
	res.AdminOps = int(ops.Load())
	res.Served = nA * nIter
	res.Panics = int(w.panics.Load())
	if m, ok := w.panicMsg.Load().(string); ok {
		res.PanicMsg = m
	}
	res.Done = true
	res.Edges, res.LockOps = c05util.ObservedEdges()
	write()
	os.Exit(0)
}
