//go:build verif

package querylog

import (
	"bytes"
	"context"
	"encoding/json"
	"fmt"
	"io"
	"math/rand/v2"
	"net"
	"net/http"
	"net/http/httptest"
	"net/netip"
	"net/url"
	"os"
	"runtime"
	"sort"
	"strconv"
	"strings"
	"testing"
	"testing/synctest"
	"time"
	"unicode"
	"unicode/utf8"

	"github.com/AdguardTeam/AdGuardHome/internal/aghnet"
	"github.com/AdguardTeam/AdGuardHome/internal/filtering"
	"github.com/AdguardTeam/AdGuardHome/internal/vutil"
	glog "github.com/AdguardTeam/golibs/log"
	"github.com/AdguardTeam/golibs/logutil/slogutil"
	"github.com/AdguardTeam/urlfilter/rules"
	"github.com/miekg/dns"
	"golang.org/x/net/idna"
)

// C07 harness: a real queryLog over real files in a temporary directory, driven
// through Add / Shutdown / rotate / checkAndRotate / the HTTP handlers, inside a
// testing/synctest bubble (fake clock: every entry gets the timestamp the line
// says; the flush goroutine started by Add is awaited, so the "flush pending"
// window excluded by the property never occurs).
//
// Block protocol (see /verif/lean/Driver/C07.lean).  Times are ns relative to
// the block's base time (the fake clock at reset).
//
//	C07.consts   => limit scan offset nStatus status* nReasons reason* fileName maxEntrySize bufferSize   (constants read from the package)
//	C07.fold field term   => equalFold containsFold   (strings.EqualFold and the package's containsFold)
//	C07.reset full memSize fileEnabled enabled ivlMs nRules rule* nHosts host* nClients {id name ignore}*   => m c r
//	C07.add id dt qname cid ip ipAnon reason isFiltered variant   => rt m c r
//	C07.addthen <add fields> clear|shutdown|restart m f e         => rt m c r   (the op overtakes the flush goroutine of Add)
//	C07.shutdown | C07.rotate | C07.clear                      => m c r
//	C07.addat id rel <rest of the add fields>                  => rt m c r   (the clock was stepped: the record gets time base+rel, possibly before earlier records)
//	C07.rotcheck dt [touch]                                    => m c r      (touch=1: a zero-byte querylog.json is there when checkAndRotate runs, if none exists)
//	C07.restart memSize fileEnabled enabled                    => m c r
//	C07.putconf enabled anonymize ivlMs nRules rule* nHosts host* => code m c r
//	C07.clients n {id name ignore}*                            => m c r
//	C07.search scan olderKind olderVal limit offset search lowered asciiRet asciiErr status   => code items oldest
//
// m c r: ids in the memory buffer / querylog.json / querylog.json.1, oldest
// first ("-" empty; "#n" counts only when full=0).  nHosts host*: the hosts of
// the block's pool for which the ignore engine built from the rules answers
// true (library oracle).  lowered: strings.ToLower(unquoted term);
// asciiRet/asciiErr: idna.ToASCII(lowered) (library oracles computed by the
// generator, independently of parseSearchCriterion).  ipAnon: the text of the client address with the last 2
// (IPv4) / 10 (IPv6) bytes zeroed, computed by the generator.  items:
// "id@client" newest first (client = hex of the reported "client"), "id!@client"
// when the rest of the returned JSON differs from what was recorded.

type c07Ctx struct {
	l       *queryLog
	dir     string
	base    time.Time
	full    bool
	rules   []string
	clients map[string]*Client
	idByTs  map[int64]int
	// want is the canonical JSON of the entry as rendered from the in-memory
	// record at Add time (without client_info).
	want map[int]string
	// exp are independently computed expectations for the main fields.
	exp map[int]map[string]string

	// for the generator
	lastOldest string
	lastCount  int
}

var c07 *c07Ctx

func c07TempDir() string {
	base := os.TempDir()
	if st, err := os.Stat("/dev/shm"); err == nil && st.IsDir() {
		base = "/dev/shm"
	}
	dir, err := os.MkdirTemp(base, "verif-c07-")
	if err != nil {
		panic(err)
	}

	return dir
}

func c07Drop() {
	if c07 == nil {
		return
	}
	_ = os.RemoveAll(c07.dir)
	c07 = nil
}

func (c *c07Ctx) findClient(ids []string) (cl *Client, err error) {
	for _, id := range ids {
		if v, ok := c.clients[id]; ok {
			return v, nil
		}
	}

	return nil, nil
}

func (c *c07Ctx) newLog(memSize uint, fileEnabled, enabled, anonymize bool, ivl time.Duration) {
	eng, err := aghnet.NewIgnoreEngine(c.rules)
	if err != nil {
		panic("ignore engine: " + err.Error())
	}
	var anon aghnet.IPMutFunc
	if anonymize {
		anon = AnonymizeIP
	}
	l, err := newQueryLog(Config{
		Logger:            slogutil.NewDiscardLogger(),
		Ignored:           eng,
		Anonymizer:        aghnet.NewIPMut(anon),
		AnonymizeClientIP: anonymize,
		ConfigModified: func() {},
		FindClient:     c.findClient,
		BaseDir:        c.dir,
		RotationIvl:    ivl,
		MemSize:        memSize,
		Enabled:        enabled,
		FileEnabled:    fileEnabled,
	})
	if err != nil {
		panic("newQueryLog: " + err.Error())
	}
	c.l = l
}

func (c *c07Ctx) rel(t time.Time) int64 { return t.Sub(c.base).Nanoseconds() }

func (c *c07Ctx) idsOf(ts []time.Time) string {
	if !c.full {
		return "#" + strconv.Itoa(len(ts))
	}
	if len(ts) == 0 {
		return "-"
	}
	parts := make([]string, 0, len(ts))
	for _, t := range ts {
		if id, ok := c.idByTs[c.rel(t)]; ok {
			parts = append(parts, strconv.Itoa(id))
		} else {
			parts = append(parts, "?"+strconv.FormatInt(c.rel(t), 10))
		}
	}

	return strings.Join(parts, ",")
}

func (c *c07Ctx) fileTimes(name string) (ts []time.Time) {
	data, err := os.ReadFile(name)
	if err != nil {
		if os.IsNotExist(err) {
			return nil
		}
		panic(err)
	}
	for _, line := range bytes.Split(data, []byte{'\n'}) {
		if len(line) == 0 {
			continue
		}
		var v struct{ T time.Time }
		if jerr := json.Unmarshal(line, &v); jerr != nil {
			ts = append(ts, time.Time{})

			continue
		}
		ts = append(ts, v.T)
	}

	return ts
}

func (c *c07Ctx) fileCount(name string) int {
	data, err := os.ReadFile(name)
	if err != nil {
		return 0
	}

	return bytes.Count(data, []byte{'\n'})
}

// dump is the observation of the whole log after an operation.
func (c *c07Ctx) dump() []string {
	l := c.l
	var mem []time.Time
	l.bufferLock.Lock()
	l.buffer.Range(func(e *logEntry) bool {
		mem = append(mem, e.Time)

		return true
	})
	l.bufferLock.Unlock()
	if !c.full {
		return []string{"#" + strconv.Itoa(len(mem)), "#" + strconv.Itoa(c.fileCount(l.logFile)),
			"#" + strconv.Itoa(c.fileCount(l.logFile + ".1"))}
	}

	return []string{c.idsOf(mem), c.idsOf(c.fileTimes(l.logFile)), c.idsOf(c.fileTimes(l.logFile + ".1"))}
}

var c07Protos = []ClientProto{ClientProtoPlain, ClientProtoDoH, ClientProtoDoQ, ClientProtoDoT, ClientProtoDNSCrypt}

var c07Upstreams = []string{"", "https://dns.example/dns-query", "tls://1.1.1.1:853", "weird\"up\\stream<&>"}

func c07Answer(qname string, qtype uint16, kind int) *dns.Msg {
	if kind == 0 {
		return nil
	}
	q := &dns.Msg{}
	q.SetQuestion(dns.Fqdn("q.example."), qtype)
	m := &dns.Msg{}
	m.SetReply(q)
	switch kind {
	case 1:
		m.Answer = append(m.Answer, &dns.A{
			Hdr: dns.RR_Header{Name: "q.example.", Rrtype: dns.TypeA, Class: dns.ClassINET, Ttl: 300},
			A:   net.IPv4(93, 184, 216, 34).To4(),
		})
	case 2:
		m.Rcode = dns.RcodeNameError
	default:
		m.AuthenticatedData = true
		m.Answer = append(m.Answer,
			&dns.CNAME{
				Hdr:    dns.RR_Header{Name: "q.example.", Rrtype: dns.TypeCNAME, Class: dns.ClassINET, Ttl: 60},
				Target: "cdn.example.net.",
			},
			&dns.AAAA{
				Hdr:  dns.RR_Header{Name: "cdn.example.net.", Rrtype: dns.TypeAAAA, Class: dns.ClassINET, Ttl: 10},
				AAAA: net.ParseIP("2001:db8::42"),
			},
			&dns.TXT{
				Hdr: dns.RR_Header{Name: "cdn.example.net.", Rrtype: dns.TypeTXT, Class: dns.ClassINET, Ttl: 1},
				Txt: []string{"a \"quoted\" txt", "<&>"},
			})
	}

	return m
}

// c07Params builds the AddParams of a line deterministically from its fields.
func c07Params(qname, cid, ipText string, reason int, isFiltered bool, variant int) *AddParams {
	qtypes := []uint16{dns.TypeA, dns.TypeAAAA, dns.TypeHTTPS, dns.TypePTR}
	qtype := qtypes[(variant>>20)%4]
	q := &dns.Msg{Question: []dns.Question{{Name: qname, Qtype: qtype, Qclass: dns.ClassINET}}}
	ip := net.ParseIP(ipText)
	if ip == nil {
		panic("bad ip " + ipText)
	}
	if ip4 := ip.To4(); ip4 != nil && variant&(1<<16) != 0 {
		ip = ip4
	}
	res := &filtering.Result{Reason: filtering.Reason(reason), IsFiltered: isFiltered}
	switch (variant >> 9) % 4 {
	case 1:
		res.Rules = []*filtering.ResultRule{{Text: "||ads.example^", FilterListID: 1}}
	case 2:
		res.Rules = []*filtering.ResultRule{
			{Text: "1.2.3.4 \"host\" <&> \\", FilterListID: 0, IP: netipMust("1.2.3.4")},
			{Text: "@@||x^$important", FilterListID: 1234567},
		}
	case 3:
		res.Rules = []*filtering.ResultRule{{Text: "", FilterListID: 5}, {Text: "Text", FilterListID: -3}}
	}
	if filtering.Reason(reason) == filtering.FilteredBlockedService {
		res.ServiceName = "you\"tube"
	}
	switch (variant >> 11) % 4 {
	case 1:
		res.DNSRewriteResult = &filtering.DNSRewriteResult{
			RCode:    dns.RcodeSuccess,
			Response: filtering.DNSRewriteResultResponse{dns.TypeA: []rules.RRValue{net.IPv4(1, 2, 3, 4)}},
		}
	case 2:
		res.DNSRewriteResult = &filtering.DNSRewriteResult{RCode: dns.RcodeNameError}
	case 3:
		res.DNSRewriteResult = &filtering.DNSRewriteResult{
			RCode: dns.RcodeSuccess,
			Response: filtering.DNSRewriteResultResponse{
				dns.TypeMX:  []rules.RRValue{&rules.DNSMX{Exchange: "mail.example", Preference: 10}},
				dns.TypeTXT: []rules.RRValue{"Reason", "Rules"},
			},
		}
	}
	if r := filtering.Reason(reason); r == filtering.Rewritten || r == filtering.RewrittenAutoHosts {
		res.CanonName = "canon.example"
		res.IPList = append(res.IPList, netipMust("10.9.8.7"), netipMust("2001:db8::9"))
	}
	p := &AddParams{
		Question:          q,
		Answer:            c07Answer(qname, qtype, (variant>>13)%4),
		Result:            res,
		ClientID:          cid,
		Upstream:          c07Upstreams[(variant>>5)%4],
		ClientProto:       c07Protos[variant%5],
		ClientIP:          ip,
		Elapsed:           time.Duration(variant%1000) * 1234,
		Cached:            variant&8 != 0,
		AuthenticatedData: variant&16 != 0,
	}
	if (variant>>15)%2 == 1 {
		p.OrigAnswer = c07Answer(qname, qtype, 1+(variant>>17)%3)
	}
	switch (variant >> 7) % 3 {
	case 1:
		_, p.ReqECS, _ = net.ParseCIDR("1.2.3.0/24")
	case 2:
		_, p.ReqECS, _ = net.ParseCIDR("2001:db8::/32")
	}

	return p
}

func netipMust(s string) netip.Addr { return netip.MustParseAddr(s) }

func c07Norm(qname string) string {
	if qname == "." {
		return qname
	}

	return strings.ToLower(strings.TrimSuffix(qname, "."))
}

// c07Canon is the canonical text of one entry of the API answer, without
// client_info (which depends on the client registry at search time) and client
// (which depends on the anonymisation setting at search time; reported apart).
func c07Canon(m map[string]any) string {
	cp := make(map[string]any, len(m))
	for k, v := range m {
		if k != "client_info" && k != "client" {
			cp[k] = v
		}
	}
	b, err := json.Marshal(cp)
	if err != nil {
		panic(err)
	}

	return string(b)
}

func c07ViaJSON(v any) (m map[string]any) {
	b, err := json.Marshal(v)
	if err != nil {
		panic(err)
	}
	if err = json.Unmarshal(b, &m); err != nil {
		panic(err)
	}

	return m
}

// add performs one C07.add line.
func (c *c07Ctx) add(f []string) []string {
	id, dt := vutil.Atoi(f[1]), vutil.Atoi(f[2])
	qname, cid, ipText := vutil.Unhex(f[3]), vutil.Unhex(f[4]), vutil.Unhex(f[5])
	reason, isF, variant := vutil.Atoi(f[7]), vutil.UnB(f[8]), vutil.Atoi(f[9])
	// C07.addat: the system clock has been stepped (NTP correction, manual
	// change): the record gets the time base+rel, which may lie before the
	// time of earlier records.  The fake clock of the bubble cannot go back, so
	// the time.Now() reading inside Add is replaced below.
	var at time.Time
	if f[0] == "C07.addat" {
		rel, perr := strconv.ParseInt(f[2], 10, 64)
		if perr != nil {
			panic(perr)
		}
		at = c.base.Add(time.Duration(rel))
	} else {
		time.Sleep(time.Duration(dt))
	}
	ctx := context.Background()
	l := c.l

	// Reference record: what Add records at this instant.
	ref := newLogEntry(ctx, l.logger, c07Params(qname, cid, ipText, reason, isF, variant))
	if !at.IsZero() {
		ref.Time = at
	}
	ts := c.rel(ref.Time)
	refJSON := c07ViaJSON(l.entryToJSON(ctx, ref, func(net.IP) {}))

	// decode(encode e) = e, as far as the API and the search can see.
	rt := true
	line, err := json.Marshal(ref)
	if err != nil {
		rt = false
	} else {
		dec := &logEntry{}
		l.decodeLogEntry(ctx, dec, string(line))
		decJSON := c07ViaJSON(l.entryToJSON(ctx, dec, func(net.IP) {}))
		rt = c07Canon(decJSON) == c07Canon(refJSON) &&
			dec.Time.Equal(ref.Time) && dec.QHost == ref.QHost && dec.ClientID == ref.ClientID &&
			dec.IP.String() == ref.IP.String() && dec.Result.Reason == ref.Result.Reason &&
			dec.Result.IsFiltered == ref.Result.IsFiltered &&
			readQLogTimestamp(ctx, l.logger, string(line)) == ref.Time.UnixNano()
	}

	var enabled bool
	func() {
		l.confMu.RLock()
		defer l.confMu.RUnlock()
		enabled = l.conf.Enabled
	}()

	params := c07Params(qname, cid, ipText, reason, isF, variant)
	switch f[0] {
	case "C07.addthen":
		c.addThen(params, f[10:])
	case "C07.addat":
		// The flush goroutine Add may start is held back on the flush lock
		// until the record carries the stepped clock reading; it then encodes
		// the record exactly as if time.Now() had returned that reading.
		func() {
			l.fileFlushLock.Lock()
			defer l.fileFlushLock.Unlock()
			l.Add(params)
			l.bufferLock.Lock()
			defer l.bufferLock.Unlock()
			var last *logEntry
			l.buffer.Range(func(e *logEntry) bool {
				last = e

				return true
			})
			if enabled && last != nil {
				last.Time = at
			}
		}()
	default:
		l.Add(params)
	}
	// Let the flush goroutine, if any, finish.
	synctest.Wait()

	if enabled {
		c.idByTs[ts] = id
		c.want[id] = c07Canon(refJSON)
		rs := []string{}
		for _, r := range ref.Result.Rules {
			rs = append(rs, fmt.Sprintf("%d:%s", r.FilterListID, r.Text))
		}
		c.exp[id] = map[string]string{
			"name": c07Norm(qname), "client": net.ParseIP(ipText).String(), "client_id": cid,
			"reason": filtering.Reason(reason).String(), "upstream": c07Upstreams[(variant>>5)%4],
			"proto": string(c07Protos[variant%5]), "rules": strings.Join(rs, "|"),
			"cached": vutil.B(variant&8 != 0), "ip": net.ParseIP(ipText).String(),
		}
	}

	return append([]string{vutil.B(rt)}, c.dump()...)
}

// addThen performs Add and then a clear / shutdown / restart BEFORE the flush
// goroutine that Add may have started gets to run: with a single P the new
// goroutine cannot start until this one yields, and between the go statement
// in Add and the lock taken by the following operation nothing yields.  (On
// the unchanged tree both orders end in the same state, so the observation
// does not depend on the scheduler; a change that makes the order matter is
// what this operation is there to expose.)
func (c *c07Ctx) addThen(params *AddParams, thn []string) {
	l := c.l
	ctx := context.Background()
	w := httptest.NewRecorder()
	r := httptest.NewRequest(http.MethodPost, "/control/querylog_clear", nil)
	var ivl time.Duration
	var eng *aghnet.IgnoreEngine
	var anon bool
	func() {
		l.confMu.RLock()
		defer l.confMu.RUnlock()
		ivl, eng, anon = l.conf.RotationIvl, l.conf.Ignored, l.conf.AnonymizeClientIP
	}()
	// Nothing is pending here; start a fresh time slice on a single P.
	synctest.Wait()
	defer runtime.GOMAXPROCS(runtime.GOMAXPROCS(1))
	runtime.Gosched()

	l.Add(params)
	switch thn[0] {
	case "clear":
		l.handleQueryLogClear(w, r)
	case "shutdown":
		_ = l.Shutdown(ctx)
	case "restart":
		_ = l.Shutdown(ctx)
		// the old instance's goroutine, if any, runs now
		synctest.Wait()
		c.rules = eng.Values()
		c.newLog(uint(vutil.Atoi(thn[1])), vutil.UnB(thn[2]), vutil.UnB(thn[3]), anon, ivl)
	default:
		panic("bad addthen kind " + thn[0])
	}
}

// entryOK checks one entry of the API answer against what was recorded.
func (c *c07Ctx) entryOK(id int, m map[string]any) bool {
	if c07Canon(m) != c.want[id] {
		return false
	}
	exp := c.exp[id]
	q, _ := m["question"].(map[string]any)
	str := func(v any) string { s, _ := v.(string); return s }
	if q == nil || str(q["name"]) != exp["name"] ||
		str(m["client_id"]) != exp["client_id"] || str(m["reason"]) != exp["reason"] ||
		str(m["upstream"]) != exp["upstream"] || str(m["client_proto"]) != exp["proto"] {
		return false
	}
	if b, _ := m["cached"].(bool); vutil.B(b) != exp["cached"] {
		return false
	}
	rs := []string{}
	if arr, ok := m["rules"].([]any); ok {
		for _, r := range arr {
			rm, _ := r.(map[string]any)
			idf, _ := rm["filter_list_id"].(float64)
			rs = append(rs, fmt.Sprintf("%d:%s", int64(idf), str(rm["text"])))
		}
	}
	if strings.Join(rs, "|") != exp["rules"] {
		return false
	}
	// client_info is the client the registry has NOW for (ClientID, IP); it is
	// left out when the reported address is masked.
	if str(m["client"]) != exp["ip"] {
		_, has := m["client_info"]

		return !has
	}
	var ids []string
	if exp["client_id"] != "" {
		ids = append(ids, exp["client_id"])
	}
	ids = append(ids, exp["ip"])
	cl, _ := c.findClient(ids)
	ci, _ := m["client_info"].(map[string]any)
	if cl == nil {
		return ci == nil
	}

	// (the JSON answer shows every invalid byte of a name as U+FFFD)
	return ci != nil && str(ci["name"]) == string([]rune(cl.Name))
}

func (c *c07Ctx) search(f []string) []string {
	scan := vutil.Atoi(f[1])
	q := url.Values{}
	switch f[2] {
	case "none":
	case "rel":
		rel, err := strconv.ParseInt(f[3], 10, 64)
		if err != nil {
			panic(err)
		}
		q.Set("older_than", c.base.Add(time.Duration(rel)).UTC().Format(time.RFC3339Nano))
	case "rawbad", "rawzero":
		q.Set("older_than", vutil.Unhex(f[3]))
	default:
		panic("bad older kind " + f[2])
	}
	for i, name := range []string{"limit", "offset", "search"} {
		if v := vutil.Unhex(f[4+i]); v != "" {
			q.Set(name, v)
		}
	}
	if v := vutil.Unhex(f[10]); v != "" {
		q.Set("response_status", v)
	}
	l := c.l
	w := httptest.NewRecorder()
	r := httptest.NewRequest(http.MethodGet, "/control/querylog?"+q.Encode(), nil)
	var body []byte
	if scan == 0 {
		l.handleQueryLog(w, r)
		if w.Code != http.StatusOK {
			c.lastOldest, c.lastCount = "", 0

			return []string{strconv.Itoa(w.Code), "-", "-"}
		}
		body = w.Body.Bytes()
	} else {
		// The handler with a smaller default scan budget (test-only knob): the
		// same calls as handleQueryLog.
		ctx := r.Context()
		params, err := l.parseSearchParams(ctx, r)
		if err != nil {
			c.lastOldest, c.lastCount = "", 0

			return []string{"400", "-", "-"}
		}
		if params.maxFileScanEntries == newSearchParams().maxFileScanEntries {
			params.maxFileScanEntries = scan
		}
		var entries []*logEntry
		var oldest time.Time
		func() {
			l.confMu.RLock()
			defer l.confMu.RUnlock()

			entries, oldest = l.search(ctx, params)
		}()
		var err2 error
		body, err2 = json.Marshal(l.entriesToJSON(ctx, entries, oldest, l.anonymizer.Load()))
		if err2 != nil {
			panic(err2)
		}
	}
	var resp struct {
		Data   []map[string]any `json:"data"`
		Oldest string           `json:"oldest"`
	}
	if err := json.Unmarshal(body, &resp); err != nil {
		return []string{"200", "?badjson", "?"}
	}
	items := make([]string, 0, len(resp.Data))
	for _, m := range resp.Data {
		ts, _ := m["time"].(string)
		tm, err := time.Parse(time.RFC3339Nano, ts)
		id, ok := c.idByTs[c.rel(tm)]
		if err != nil || !ok {
			items = append(items, "?"+ts)

			continue
		}
		it := strconv.Itoa(id)
		if !c.entryOK(id, m) {
			it += "!"
		}
		cl, _ := m["client"].(string)
		items = append(items, it+"@"+vutil.Hex(cl))
	}
	oldest := "-"
	c.lastOldest = ""
	if resp.Oldest != "" {
		tm, err := time.Parse(time.RFC3339Nano, resp.Oldest)
		if err != nil {
			oldest = "?"
		} else {
			oldest = strconv.FormatInt(c.rel(tm), 10)
			c.lastOldest = oldest
		}
	}
	c.lastCount = len(items)
	its := "-"
	if len(items) > 0 {
		its = strings.Join(items, ",")
	}

	return []string{"200", its, oldest}
}

// c07TakeList reads "n item*" (hex items) starting at f[i].
func c07TakeList(f []string, i int) (items []string, next int) {
	n := vutil.Atoi(f[i])
	i++
	for k := 0; k < n; k++ {
		items = append(items, vutil.Unhex(f[i]))
		i++
	}

	return items, i
}

func c07TakeClients(f []string, i int) (m map[string]*Client, next int) {
	n := vutil.Atoi(f[i])
	i++
	m = map[string]*Client{}
	for k := 0; k < n; k++ {
		id := vutil.Unhex(f[i])
		if _, dup := m[id]; !dup {
			m[id] = &Client{Name: vutil.Unhex(f[i+1]), IgnoreQueryLog: vutil.UnB(f[i+2])}
		}
		i += 3
	}

	return m, i
}

// c07Consts reads the constants the model hard-codes from the package under
// test: the response_status names, the defaults of newSearchParams, the names
// of the filtering reasons by number, the file names and the entry-size limit.
func c07Consts() []string {
	p := newSearchParams()
	out := []string{strconv.Itoa(p.limit), strconv.Itoa(p.maxFileScanEntries), strconv.Itoa(p.offset),
		strconv.Itoa(len(filteringStatusValues))}
	for _, v := range filteringStatusValues {
		out = append(out, vutil.Hex(v))
	}
	n := 0
	for filtering.Reason(n).String() != "" && n < 64 {
		n++
	}
	out = append(out, strconv.Itoa(n))
	for i := 0; i < n; i++ {
		out = append(out, vutil.Hex(filtering.Reason(i).String()))
	}

	return append(out, vutil.Hex(queryLogFileName), strconv.Itoa(maxEntrySize), strconv.Itoa(bufferSize))
}

// c07Str runs one string through the real encoder (the same HTML-escaping
// encoder flushLogBuffer uses), cuts the raw value out of a line the way
// quickMatch does, and reads the line back with the real decoder.
func c07Str(v string) []string {
	var buf bytes.Buffer
	if err := json.NewEncoder(&buf).Encode(struct {
		QH string
		X  int
	}{QH: v, X: 1}); err != nil {
		return []string{"?", "?", "0"}
	}
	line := strings.TrimSuffix(buf.String(), "\n")
	const pre = `{"QH":"`
	const post = `","X":1}`
	if !strings.HasPrefix(line, pre) || !strings.HasSuffix(line, post) {
		return []string{"?", "?", "0"}
	}
	enc := line[len(pre) : len(line)-len(post)]
	raw := readJSONValue(line, `"QH":"`)
	ent := &logEntry{}
	(&queryLog{logger: slogutil.NewDiscardLogger()}).decodeLogEntry(context.Background(), ent, line)

	return []string{vutil.Hex(enc), vutil.Hex(raw), vutil.B(ent.QHost == v)}
}

func c07Run(f []string) []string {
	op := f[0]
	ctx := context.Background()
	if op == "C07.consts" {
		return c07Consts()
	}
	if op == "C07.str" {
		return c07Str(vutil.Unhex(f[1]))
	}
	if op == "C07.fold" {
		a, b := vutil.Unhex(f[1]), vutil.Unhex(f[2])

		return []string{vutil.B(strings.EqualFold(a, b)), vutil.B(containsFold(a, b))}
	}
	if op == "C07.reset" {
		if time.Now().Year() > 2250 {
			panic("fake clock of the synctest bubble is nearly exhausted (int64 ns): too many/too long blocks")
		}
		c07Drop()
		c := &c07Ctx{dir: c07TempDir(), base: time.Now(), full: vutil.UnB(f[1]),
			idByTs: map[int64]int{}, want: map[int]string{}, exp: map[int]map[string]string{}}
		var i int
		c.rules, i = c07TakeList(f, 6)
		_, i = c07TakeList(f, i)
		c.clients, _ = c07TakeClients(f, i)
		c.newLog(uint(vutil.Atoi(f[2])), vutil.UnB(f[3]), vutil.UnB(f[4]), false, time.Duration(vutil.Atoi(f[5]))*time.Millisecond)
		c07 = c

		return c.dump()
	}
	c := c07
	if c == nil || c.l == nil {
		panic("no context: block must start with C07.reset")
	}
	l := c.l
	switch op {
	case "C07.add", "C07.addthen", "C07.addat":
		return c.add(f)
	case "C07.shutdown":
		_ = l.Shutdown(ctx)

		return c.dump()
	case "C07.rotate":
		if err := l.rotate(ctx); err != nil {
			panic(err)
		}

		return c.dump()
	case "C07.rotcheck":
		time.Sleep(time.Duration(vutil.Atoi(f[1])))
		// touch: the current file exists but has no bytes (what flushToFile
		// leaves behind when it has created the file and the first write fails,
		// or a crash right after the creation) when the start-up / hourly
		// rotation check runs.  The zero-byte file is taken away again after the
		// check: every other operation sees "a file exists iff it has records".
		touch := len(f) > 2 && vutil.UnB(f[2])
		if touch {
			if _, err := os.Stat(l.logFile); os.IsNotExist(err) {
				if werr := os.WriteFile(l.logFile, nil, 0o644); werr != nil {
					panic(werr)
				}
			}
		}
		l.checkAndRotate(ctx)
		if touch {
			if st, err := os.Stat(l.logFile); err == nil && st.Size() == 0 {
				_ = os.Remove(l.logFile)
			}
			// a zero-byte file moved over the rotated one is "no records" too
			if st, err := os.Stat(l.logFile + ".1"); err == nil && st.Size() == 0 {
				_ = os.Remove(l.logFile + ".1")
			}
		}

		return c.dump()
	case "C07.clear":
		w := httptest.NewRecorder()
		l.handleQueryLogClear(w, httptest.NewRequest(http.MethodPost, "/control/querylog_clear", nil))

		return c.dump()
	case "C07.restart":
		_ = l.Shutdown(ctx)
		var ivl time.Duration
		var eng *aghnet.IgnoreEngine
		var anon bool
		func() {
			l.confMu.RLock()
			defer l.confMu.RUnlock()
			ivl, eng, anon = l.conf.RotationIvl, l.conf.Ignored, l.conf.AnonymizeClientIP
		}()
		c.rules = eng.Values()
		c.newLog(uint(vutil.Atoi(f[1])), vutil.UnB(f[2]), vutil.UnB(f[3]), anon, ivl)

		return c.dump()
	case "C07.putconf":
		rulesList, _ := c07TakeList(f, 4)
		if rulesList == nil {
			rulesList = []string{}
		}
		body, err := json.Marshal(map[string]any{
			"ignored": rulesList, "interval": vutil.Atoi(f[3]),
			"enabled": vutil.UnB(f[1]), "anonymize_client_ip": vutil.UnB(f[2]),
		})
		if err != nil {
			panic(err)
		}
		w := httptest.NewRecorder()
		l.handlePutQueryLogConfig(w, httptest.NewRequest(http.MethodPut, "/control/querylog/config/update", bytes.NewReader(body)))

		return append([]string{strconv.Itoa(w.Code)}, c.dump()...)
	case "C07.clients":
		c.clients, _ = c07TakeClients(f, 1)

		return c.dump()
	case "C07.search":
		return c.search(f)
	default:
		panic("unknown op " + op)
	}
}

// ---------------------------------------------------------------- generator

var c07HostPool = []string{
	"example.org", "test.example.org", "ads.tracker.net", "a&b.example.org", "x\"y.example", "back\\slash.net",
	"<tag>.io", "kitchen.local", "sync.example", "xn--e1afmkfd.xn--p1ai", "EXAMPLE.com", ".", "Sky.Kite.Example",
	"k.s", "printer.local", "www.example.org", "xn--mnchen-3ya.de", "tab\there.net", "a.b.c.d.e", "kk.kkk",
	// IDN names are recorded in their ASCII form: пример.рф, www.пример.рф, сайт.рф, bücher.example, shop.münchen.de
	"xn--e1afmkfd.xn--p1ai", "www.xn--e1afmkfd.xn--p1ai", "xn--80aswg.xn--p1ai", "xn--bcher-kva.example",
	"shop.xn--mnchen-3ya.de",
}

var c07CIDPool = []string{"", "", "", "laptop", "kids-phone", "my-kitchen", "we&ird", "Sam-K", "dash\\id",
	"νικος", "σίγμα-ς", "straße-7", "мир"}

var c07IPPool = []string{
	"192.168.1.5", "192.168.1.55", "10.0.0.1", "2001:db8::1", "2001:db8::abcd", "127.0.0.1", "fe80::1", "1.2.3.4",
}

var c07NamePool = []string{"My Kitchen", "Kids Phone", "laptop-Sam", "Office K&S", "SKY", "printer", "", "a\"b",
	// letters with more than two case forms or case forms of different UTF-8 length
	"ΝΙΚΟΣ", "Νίκος Σπίτι ς", "Haus STRAẞE 7", "straße", "\u212A-phone Kk", "Meſſage SsS", "İstanbul ıIi",
	"ǅungla ǆ Ǆ", "Ωmega ω \u2126", "µ-μ-Μ", "Привет МИР", "bad\xffname", "Å\u212Bå"}

var c07RulePool = []string{"ads.tracker.net", "||example.org^", "*.local", "|k.s^", "sync.example", "@@||www.example.org^"}

var c07Statuses = []string{"all", "filtered", "blocked", "blocked_services", "blocked_safebrowsing",
	"blocked_parental", "whitelisted", "rewritten", "safe_search", "processed"}

type c07Shadow struct {
	id            int
	ts            int64
	host, cid, ip string
}

type c07Gen struct {
	r       *rand.Rand
	emit    vutil.Emit
	hosts   []string // qnames of the block
	cids    []string
	ips     []string
	names   []string
	clients [][3]string
	clock   int64
	nextID  int
	added   []c07Shadow
	memSize int
	fileOn  bool
	// current configuration as set through reset / putconf
	enabled  bool
	anon     bool
	ivlMs    int
	curRules []string
}

func c07Flip(r *rand.Rand, s string) string {
	b := []byte(s)
	for i, ch := range b {
		if r.IntN(3) == 0 {
			if ch >= 'a' && ch <= 'z' {
				b[i] = ch - 32
			} else if ch >= 'A' && ch <= 'Z' {
				b[i] = ch + 32
			}
		}
	}

	return string(b)
}

func (g *c07Gen) qname(host string) string {
	if host == "." {
		return host
	}
	if g.r.IntN(4) == 0 {
		host = c07Flip(g.r, host)
	}

	return host + "."
}

func (g *c07Gen) ignoredFields(rulesList []string) (fields []string) {
	eng, err := aghnet.NewIgnoreEngine(rulesList)
	if err != nil {
		panic(err)
	}
	fields = append(fields, strconv.Itoa(len(rulesList)))
	for _, ru := range rulesList {
		fields = append(fields, vutil.Hex(ru))
	}
	var hosts []string
	seen := map[string]bool{}
	for _, h := range g.hosts {
		n := c07Norm(h + ".")
		if !seen[n] && eng.Has(n) {
			hosts = append(hosts, n)
		}
		seen[n] = true
	}
	sort.Strings(hosts)
	fields = append(fields, strconv.Itoa(len(hosts)))
	for _, h := range hosts {
		fields = append(fields, vutil.Hex(h))
	}

	return fields
}

func (g *c07Gen) clientFields() (fields []string) {
	n := 0
	switch k := g.r.IntN(10); {
	case k < 3:
		n = 0
	case k < 7:
		n = 1 + g.r.IntN(2)
	default:
		n = 3 + g.r.IntN(3)
	}
	seen := map[string]bool{}
	var tbl [][3]string
	for i := 0; i < n; i++ {
		var id string
		if g.r.IntN(2) == 0 {
			id = vutil.Pick(g.r, g.ips)
		} else {
			id = vutil.Pick(g.r, g.cids)
		}
		if id == "" || seen[id] {
			continue
		}
		seen[id] = true
		ign := "0"
		if g.r.IntN(12) == 0 {
			ign = "1"
		}
		tbl = append(tbl, [3]string{id, vutil.Pick(g.r, g.names), ign})
	}
	g.clients = tbl
	fields = append(fields, strconv.Itoa(len(tbl)))
	for _, c := range tbl {
		fields = append(fields, vutil.Hex(c[0]), vutil.Hex(c[1]), c[2])
	}

	return fields
}

func (g *c07Gen) rules() (rs []string) {
	if g.r.IntN(10) < 7 {
		return nil
	}
	for i, n := 0, 1+g.r.IntN(2); i < n; i++ {
		rs = append(rs, vutil.Pick(g.r, c07RulePool))
	}

	return rs
}

// c07Anon is the text of the address with the last 2 (IPv4) or 10 (IPv6) bytes
// zeroed: what an anonymised answer must show.
func c07Anon(ipText string) string {
	ip := net.ParseIP(ipText)
	if ip4 := ip.To4(); ip4 != nil {
		return net.IPv4(ip4[0], ip4[1], 0, 0).String()
	}
	out := make(net.IP, net.IPv6len)
	copy(out[:6], ip[:6])

	return out.String()
}

func (g *c07Gen) add() {
	r := g.r
	g.nextID++
	var dt int64
	switch k := r.IntN(20); {
	case k < 6:
		dt = 1
	case k < 16:
		dt = 1 + r.Int64N(5_000_000)
	case k < 19:
		dt = 1 + r.Int64N(3_000_000_000)
	default:
		dt = 1 + r.Int64N(3600_000_000_000)
	}
	g.clock += dt
	host := vutil.Pick(r, g.hosts)
	qn := g.qname(host)
	cid := vutil.Pick(r, g.cids)
	ip := vutil.Pick(r, g.ips)
	reason := r.IntN(12)
	isF := false
	switch {
	case reason >= 3 && reason <= 8:
		isF = r.IntN(8) != 0
	default:
		isF = r.IntN(10) == 0
	}
	g.added = append(g.added, c07Shadow{id: g.nextID, ts: g.clock, host: c07Norm(qn), cid: cid, ip: ip})
	g.emit("C07.add", strconv.Itoa(g.nextID), strconv.FormatInt(dt, 10), vutil.Hex(qn), vutil.Hex(cid), vutil.Hex(ip),
		vutil.Hex(c07Anon(ip)), strconv.Itoa(reason), vutil.B(isF), strconv.Itoa(r.IntN(1<<22)))
}

var c07BadNums = []string{"-1", "-10", "9223372036854775807", "9223372036854775808", "9223372036854775802",
	"-9223372036854775808", "abc", "+3", " 3", "3 ", "1e2", "-0", "007", "0x10", "1_0", "99999999999999999999", "+", "-", "٣"}

var c07BadTimes = []string{"yesterday", "2000-01-01", "2000-01-01T00:00:00", "946684800", "2000-13-01T00:00:00Z", "\"", "2000-01-01T00:00:00+25:00"}

var c07ZeroTimes = []string{"0001-01-01T00:00:00Z", "0001-01-01T00:00:00.000000000Z", "0001-01-01T01:00:00+01:00"}

var c07Terms = []string{"νικος", "ΝΙΚΟΣ", "νικοσ", "ικος", "\"νικος\"", "\"ΝΙΚΟΣ\"", "σ", "ς", "straße", "STRAẞE", "ẞ", "k-ph", "\u212A",
	"mess", "ſ", "ı", "İ", "ǆ", "ǅ", "Ǆ", "ω", "\u2126", "µ", "μ", "Μ", "мир", "МИР", "\xff", "\ufffd", "å", "\u212B","Пример.рф", "ПРИМЕР", "\"Пример.РФ\"", "ПРИМЕР.РФ", "MÜNCHEN", "Bücher", "САЙТ", "XN--E1AFMKFD.xn--p1ai", "прим", "kit", "K", "s", ".", "a&b", "x\"y", "\\", "\"", "\"\"", "пример", "\"пример.рф\"", "München", "münchen.de",
	"xn--", "example", "\"example.org\"", "\"EXAMPLE.ORG\"", "192.168.1.5", "\"192.168.1.5\"", "168.1", "2001:DB8", "sam", "KITCHEN",
	"<tag>", "nomatch-zzz", "\"kids-phone\"", "phone", "\t", "k.s", "kk", "kkkk", " ", "sky"}

// c07CaseRunes changes the letter case of the term the way a user may type it.
func c07CaseRunes(r *rand.Rand, s string) string {
	switch r.IntN(4) {
	case 0:
		return s
	case 1:
		return strings.ToUpper(s)
	case 2:
		rs := []rune(s)
		rs[0] = unicode.ToUpper(rs[0])

		return string(rs)
	default:
		rs := []rune(s)
		for i := range rs {
			if r.IntN(2) == 0 {
				rs[i] = unicode.ToUpper(rs[i])
			}
		}

		return string(rs)
	}
}

// idnTerm is a search term for an internationalised name recorded as host (its
// ASCII form): whole labels of the Unicode form or of the ASCII form in any
// letter case, as a substring or quoted; sometimes a part of a label (which
// the label-wise punycode conversion cannot find).
func (g *c07Gen) idnTerm(host string) string {
	r := g.r
	uni, err := idna.ToUnicode(host)
	if err != nil || uni == host {
		return c07CaseRunes(r, host)
	}
	labels := strings.Split(uni, ".")
	if r.IntN(5) == 0 {
		labels = strings.Split(host, ".")
	}
	a := r.IntN(len(labels))
	b := a + 1 + r.IntN(len(labels)-a)
	if r.IntN(3) == 0 {
		a, b = 0, len(labels)
	}
	t := strings.Join(labels[a:b], ".")
	if r.IntN(10) == 0 {
		rs := []rune(t)
		i := r.IntN(len(rs))
		t = string(rs[i : i+1+r.IntN(len(rs)-i)])
	}
	t = c07CaseRunes(r, t)
	if r.IntN(3) == 0 {
		return "\"" + t + "\""
	}

	return t
}

// c07FoldVariant replaces letters by other members of their simple-folding
// orbit (σ ς Σ; k K KELVIN; ß ẞ; ...), so that the result is equal to s under
// case folding but not necessarily under lower-casing, nor of the same length.
func c07FoldVariant(r *rand.Rand, s string) string {
	rs := []rune(s)
	for i, x := range rs {
		if x == utf8.RuneError {
			continue
		}
		for k := r.IntN(4); k > 0; k-- {
			x = unicode.SimpleFold(x)
		}
		rs[i] = x
	}

	return string(rs)
}

func (g *c07Gen) term() string {
	r := g.r
	if len(g.added) == 0 || r.IntN(4) == 0 {
		return vutil.Pick(r, c07Terms)
	}
	if r.IntN(4) == 0 {
		// a client name or ClientID of the block in another case form: whole
		// (quoted or not), a run of runes, or a run of bytes (possibly cutting a rune)
		f := vutil.Pick(r, g.names)
		if r.IntN(3) == 0 {
			f = vutil.Pick(r, g.cids)
		}
		if f != "" {
			if utf8.ValidString(f) {
				f = c07FoldVariant(r, f)
			}
			switch r.IntN(4) {
			case 0:
				return "\"" + f + "\""
			case 1:
				return f
			case 2:
				rs := []rune(f)
				i := r.IntN(len(rs))

				return string(rs[i : i+1+r.IntN(len(rs)-i)])
			default:
				i := r.IntN(len(f))

				return f[i : i+1+r.IntN(len(f)-i)]
			}
		}
	}
	e := vutil.Pick(r, g.added)
	if strings.Contains(e.host, "xn--") && r.IntN(5) < 3 {
		return g.idnTerm(e.host)
	}
	var field string
	switch r.IntN(5) {
	case 0, 1:
		field = e.host
	case 2:
		field = e.cid
	case 3:
		field = e.ip
	default:
		field = vutil.Pick(r, g.names)
	}
	if field == "" {
		return vutil.Pick(r, c07Terms)
	}
	if r.IntN(3) == 0 {
		// quoted exact
		t := field
		if r.IntN(2) == 0 {
			t = c07Flip(r, t)
		}
		if r.IntN(8) == 0 {
			t += "x"
		}

		return "\"" + t + "\""
	}
	i := r.IntN(len(field))
	j := i + 1 + r.IntN(len(field)-i)
	t := field[i:j]
	if r.IntN(2) == 0 {
		t = c07Flip(r, t)
	}

	return t
}

// search emits one search line; older is "" (none), "cursor" or "any".
func (g *c07Gen) search(olderMode string) {
	r := g.r
	scan := 0
	if r.IntN(3) == 0 {
		scan = 2 + r.IntN(6)
		if r.IntN(4) == 0 {
			scan = 2 + r.IntN(40)
		}
	}
	okind, oval := "none", "-"
	switch olderMode {
	case "cursor":
		if c07 != nil && c07.lastOldest != "" {
			okind, oval = "rel", c07.lastOldest
		}
	case "any":
		switch k := r.IntN(10); {
		case k < 5 && len(g.added) > 0:
			okind, oval = "rel", strconv.FormatInt(vutil.Pick(r, g.added).ts, 10)
		case k < 6 && len(g.added) > 0:
			okind, oval = "rel", strconv.FormatInt(vutil.Pick(r, g.added).ts+int64(r.IntN(3))-1, 10)
		case k < 7:
			okind, oval = "rel", strconv.FormatInt(g.clock+1+r.Int64N(1000_000_000_000), 10)
		case k < 8:
			okind, oval = "rel", strconv.FormatInt(-r.Int64N(1000_000_000_000), 10)
		case k < 9:
			okind, oval = "rawzero", vutil.Hex(vutil.Pick(r, c07ZeroTimes))
		default:
			okind, oval = "rawbad", vutil.Hex(vutil.Pick(r, c07BadTimes))
		}
	}
	limit := ""
	switch k := r.IntN(20); {
	case k < 3:
	case k < 13:
		limit = strconv.Itoa(1 + r.IntN(5))
	case k < 15:
		limit = strconv.Itoa(r.IntN(3) * 250)
	case k < 18:
		limit = strconv.Itoa(1 + r.IntN(30))
	default:
		limit = vutil.Pick(r, c07BadNums)
	}
	offset := ""
	if olderMode != "cursor" {
		switch k := r.IntN(20); {
		case k < 11:
		case k < 17:
			offset = strconv.Itoa(r.IntN(8))
		case k < 18:
			offset = strconv.Itoa(r.IntN(100))
		default:
			offset = vutil.Pick(r, c07BadNums)
		}
	}
	term := ""
	if r.IntN(2) == 0 {
		term = g.term()
	}
	status := ""
	switch k := r.IntN(20); {
	case k < 11:
	case k < 18:
		status = vutil.Pick(r, c07Statuses)
	case k < 19:
		status = "\"" + vutil.Pick(r, c07Statuses) + "\""
	default:
		status = vutil.Pick(r, []string{"bogus", "ALL", "blocked ", "\"", "\"\""})
	}
	g.emitSearch(scan, okind, oval, limit, offset, term, status)
}

func (g *c07Gen) emitSearch(scan int, okind, oval, limit, offset, term, status string) {
	// library oracle: idna.ToASCII(strings.ToLower(val)) on the unquoted term
	v := term
	if len(v) >= 2 && v[0] == '"' && v[len(v)-1] == '"' {
		v = v[1 : len(v)-1]
	}
	lowered := strings.ToLower(v)
	ascii, err := idna.ToASCII(lowered)
	g.emit("C07.search", strconv.Itoa(scan), okind, oval, vutil.Hex(limit), vutil.Hex(offset), vutil.Hex(term),
		vutil.Hex(lowered), vutil.Hex(ascii), vutil.B(err != nil), vutil.Hex(status))
}

// c07Str4Gen is a string value for the codec check: every ASCII byte incl.
// control bytes, quotes, backslashes and the HTML characters, names of the
// pools, and valid UTF-8 (not U+2028/9, which the encoder escapes).
func c07Str4Gen(r *rand.Rand) string {
	switch r.IntN(4) {
	case 0:
		return vutil.Pick(r, c07HostPool) + vutil.Pick(r, c07CIDPool)
	case 1:
		return vutil.Pick(r, []string{"пример.рф", "münchen", "日本語", "a\u00e9b", "", "\\", "\"", "\\\"", "</script>&amp;"})
	default:
		n := r.IntN(14)
		b := make([]byte, n)
		for i := range b {
			if r.IntN(3) == 0 {
				b[i] = "\"\\<>&\b\f\n\r\t\x00\x1f\x7f/'"[r.IntN(15)]
			} else {
				b[i] = byte(r.IntN(128))
			}
		}

		return string(b)
	}
}

// c07FoldPair is a field value and a term for the direct check of the folding
// primitives: pool names and their fold variants, rune runs, byte runs (invalid
// UTF-8), random bytes.
func c07FoldPair(r *rand.Rand) (field, term string) {
	field = vutil.Pick(r, c07NamePool)
	if r.IntN(4) == 0 {
		field = vutil.Pick(r, c07CIDPool) + vutil.Pick(r, c07HostPool)
	}
	if r.IntN(10) == 0 {
		field = c07Garbage(r)
	}
	switch r.IntN(6) {
	case 0:
		term = vutil.Pick(r, c07Terms)
	case 1:
		term = c07Garbage(r)
	default:
		term = field
		if utf8.ValidString(term) {
			term = c07FoldVariant(r, term)
		}
		if term != "" && r.IntN(3) != 0 {
			if r.IntN(2) == 0 {
				rs := []rune(term)
				i := r.IntN(len(rs))
				term = string(rs[i : i+1+r.IntN(len(rs)-i)])
			} else {
				i := r.IntN(len(term))
				term = term[i : i+1+r.IntN(len(term)-i)]
			}
		}
	}

	return field, term
}

// c07Garbage is a short string of arbitrary bytes: printable, control, invalid
// UTF-8, separators of the query string.
func c07Garbage(r *rand.Rand) string {
	n := r.IntN(11)
	b := make([]byte, n)
	for i := range b {
		switch k := r.IntN(10); {
		case k < 4:
			b[i] = byte(0x20 + r.IntN(0x5f))
		case k < 6:
			b[i] = byte(r.IntN(0x20))
		case k < 8:
			b[i] = byte(0x80 + r.IntN(0x80))
		default:
			b[i] = "\"&=%+#?/\\;-0159"[r.IntN(15)]
		}
	}

	return string(b)
}

// garbageSearch sends a request whose parameters are a malformed stream: no
// value may crash the handler, and what it answers is still what the model says.
func (g *c07Gen) garbageSearch() {
	r := g.r
	pick := func(p int) string {
		if r.IntN(100) < p {
			return c07Garbage(r)
		}

		return ""
	}
	okind, oval := "none", "-"
	if ot := pick(40); ot != "" {
		if tm, err := time.Parse(time.RFC3339Nano, ot); err != nil {
			okind, oval = "rawbad", vutil.Hex(ot)
		} else if tm.IsZero() {
			okind, oval = "rawzero", vutil.Hex(ot)
		}
	}
	limit, offset := pick(50), pick(40)
	if r.IntN(3) == 0 {
		limit = strconv.Itoa(1 + r.IntN(20))
	}
	g.emitSearch(0, okind, oval, limit, offset, pick(70), pick(25))
}

// pageChain pages through the log with the returned cursor.
func (g *c07Gen) pageChain() {
	r := g.r
	limit := strconv.Itoa(1 + r.IntN(4))
	scan := 0
	if r.IntN(2) == 0 {
		scan = 2 + r.IntN(5)
	}
	term, status := "", ""
	if r.IntN(3) == 0 {
		term = g.term()
	}
	if r.IntN(3) == 0 {
		status = vutil.Pick(r, c07Statuses)
	}
	okind, oval := "none", "-"
	for i := 0; i < 40; i++ {
		g.emitSearch(scan, okind, oval, limit, "", term, status)
		if c07 == nil || c07.lastOldest == "" {
			break
		}
		okind, oval = "rel", c07.lastOldest
	}
}

func (g *c07Gen) block() {
	r := g.r
	pick := func(pool []string, n int) (out []string) {
		for i := 0; i < n; i++ {
			out = append(out, vutil.Pick(r, pool))
		}

		return out
	}
	g.hosts = pick(c07HostPool, 3+r.IntN(6))
	g.cids = pick(c07CIDPool, 2+r.IntN(4))
	g.ips = pick(c07IPPool, 2+r.IntN(3))
	g.names = pick(c07NamePool, 2+r.IntN(3))
	g.clock, g.nextID, g.added = 0, 0, nil
	g.memSize = vutil.Pick(r, []int{0, 1, 2, 3, 3, 4, 5, 5, 8, 8, 12, 100})
	g.fileOn = r.IntN(8) != 0
	enabled := r.IntN(12) != 0
	ivlMs := vutil.Pick(r, []int{3600_000, 3600_000, 2 * 3600_000, 6 * 3600_000, 24 * 3600_000})
	f := []string{"1", strconv.Itoa(g.memSize), vutil.B(g.fileOn), vutil.B(enabled), strconv.Itoa(ivlMs)}
	g.enabled, g.anon, g.ivlMs, g.curRules = enabled, false, ivlMs, g.rules()
	f = append(f, g.ignoredFields(g.curRules)...)
	f = append(f, g.clientFields()...)
	g.emit(append([]string{"C07.reset"}, f...)...)

	nOps := 8 + r.IntN(50)
	for i := 0; i < nOps; i++ {
		switch k := r.IntN(100); {
		case k < 62:
			g.add()
		case k < 68:
			g.emit("C07.shutdown")
		case k < 73:
			g.emit("C07.rotate")
			if r.IntN(2) == 0 {
				// the rotation check finds a zero-byte current file next to the
				// (young) rotated one
				dt := 1 + r.Int64N(1_000_000_000)
				g.clock += dt
				g.emit("C07.rotcheck", strconv.FormatInt(dt, 10), "1")
			}
		case k < 76:
			var dt int64
			if r.IntN(2) == 0 {
				// around the rotation interval; capped so that the fake clock of
				// the bubble (int64 ns, starts in 2000) is not exhausted by
				// tens of thousands of blocks
				span := int64(ivlMs) * 1_000_000 * 2
				if span > 12*3600_000_000_000 {
					span = 12 * 3600_000_000_000
				}
				dt = 1 + r.Int64N(span)
			} else {
				dt = 1 + r.Int64N(1_000_000_000)
			}
			g.clock += dt
			g.emit("C07.rotcheck", strconv.FormatInt(dt, 10), vutil.B(r.IntN(2) == 0))
		case k < 77:
			g.emit("C07.clear")
		case k < 80:
			g.memSize = vutil.Pick(r, []int{0, 1, 2, 3, 5, 8, 100})
			g.fileOn = r.IntN(6) != 0
			g.enabled = r.IntN(10) != 0
			g.emit("C07.restart", strconv.Itoa(g.memSize), vutil.B(g.fileOn), vutil.B(g.enabled))
		case k < 83:
			iv := vutil.Pick(r, []int{3600_000, 24 * 3600_000, 3599_999, 365 * 86400_000, 365*86400_000 + 1, 0})
			g.putconf(r.IntN(6) != 0, r.IntN(3) == 0, iv, g.rules())
			ivlMs = g.ivlMs
		case k < 86:
			g.emit(append([]string{"C07.clients"}, g.clientFields()...)...)
		case k < 89:
			g.pageChain()
		case k < 92:
			g.anonScenario()
		case k < 94:
			g.flushRace()
		default:
			if r.IntN(6) == 0 {
				g.garbageSearch()
			} else {
				g.search(vutil.Pick(r, []string{"", "any", "any", "cursor"}))
			}
		}
	}
	// final battery
	for i, n := 0, 6+r.IntN(10); i < n; i++ {
		if r.IntN(8) == 0 {
			g.garbageSearch()
		} else {
			g.search(vutil.Pick(r, []string{"", "", "any", "any", "cursor"}))
		}
	}
	g.pageChain()
	if r.IntN(2) == 0 {
		g.pageChain()
	}
	if r.IntN(2) == 0 {
		g.anonScenario()
	}
	if r.IntN(3) == 0 {
		g.flushRace()
	}
}

// steppedBlock is a history in which the system clock is stepped back between
// records (NTP correction, manual change): records, flushes, rotations and
// restarts, then requests without older_than.  What is judged there: every
// answer is newest first by the recorded times, holds recorded entries once,
// and is the whole visible log when offset 0 / a covering limit ask for it.
func (g *c07Gen) steppedBlock() {
	r := g.r
	pick := func(pool []string, n int) (out []string) {
		for i := 0; i < n; i++ {
			out = append(out, vutil.Pick(r, pool))
		}

		return out
	}
	g.hosts = pick(c07HostPool, 3+r.IntN(4))
	g.cids = pick(c07CIDPool, 2+r.IntN(3))
	g.ips = pick(c07IPPool, 2+r.IntN(3))
	g.names = pick(c07NamePool, 2+r.IntN(3))
	g.clock, g.nextID, g.added = 0, 0, nil
	g.memSize = vutil.Pick(r, []int{0, 1, 2, 3, 5, 8, 100, 100})
	g.fileOn = r.IntN(6) != 0
	g.enabled, g.anon, g.ivlMs, g.curRules = true, false, 24*3600_000, nil
	f := []string{"1", strconv.Itoa(g.memSize), vutil.B(g.fileOn), "1", strconv.Itoa(g.ivlMs)}
	f = append(f, g.ignoredFields(nil)...)
	f = append(f, g.clientFields()...)
	g.emit(append([]string{"C07.reset"}, f...)...)

	t := int64(1_000_000_000_000) + r.Int64N(1_000_000_000)
	used := map[int64]bool{}
	read := func() {
		limit := vutil.Pick(r, []string{"", "", "500", "200", "1", "2", "3", "5"})
		offset := vutil.Pick(r, []string{"", "", "0", "0", "1", "2"})
		term, status := "", ""
		if r.IntN(4) == 0 {
			term = g.term()
		}
		if r.IntN(5) == 0 {
			status = vutil.Pick(r, c07Statuses)
		}
		g.emitSearch(0, "none", "-", limit, offset, term, status)
	}
	for i, n := 0, 6+r.IntN(16); i < n; i++ {
		switch k := r.IntN(100); {
		case k < 68:
			if r.IntN(3) == 0 {
				t -= 1 + r.Int64N(5_000_000_000)
			} else {
				t += 1 + r.Int64N(5_000_000)
			}
			for used[t] || t <= 0 {
				t++
			}
			used[t] = true
			g.nextID++
			host := vutil.Pick(r, g.hosts)
			qn := g.qname(host)
			cid := vutil.Pick(r, g.cids)
			ip := vutil.Pick(r, g.ips)
			reason := r.IntN(12)
			g.added = append(g.added, c07Shadow{id: g.nextID, ts: t, host: c07Norm(qn), cid: cid, ip: ip})
			g.emit("C07.addat", strconv.Itoa(g.nextID), strconv.FormatInt(t, 10), vutil.Hex(qn), vutil.Hex(cid), vutil.Hex(ip),
				vutil.Hex(c07Anon(ip)), strconv.Itoa(reason), vutil.B(reason >= 3 && reason <= 8), strconv.Itoa(r.IntN(1<<22)))
		case k < 78:
			g.emit("C07.shutdown")
		case k < 83:
			g.emit("C07.rotate")
		case k < 88:
			g.emit("C07.restart", strconv.Itoa(g.memSize), vutil.B(g.fileOn), "1")
		default:
			read()
		}
	}
	g.emitSearch(0, "none", "-", "", "", "", "")
	g.emitSearch(0, "none", "-", "200", "0", "", "")
	for i, n := 0, 2+r.IntN(4); i < n; i++ {
		read()
	}
	if r.IntN(2) == 0 {
		g.emit("C07.shutdown")
		g.emitSearch(0, "none", "-", "", "", "", "")
		g.emitSearch(0, "none", "-", "100", "0", "", "")
	}
}

// addFields are the input fields of one record (without the op name).
func (g *c07Gen) addFields() []string {
	r := g.r
	g.nextID++
	dt := 1 + r.Int64N(5_000_000)
	g.clock += dt
	host := vutil.Pick(r, g.hosts)
	qn := g.qname(host)
	cid := vutil.Pick(r, g.cids)
	ip := vutil.Pick(r, g.ips)
	reason := r.IntN(12)
	g.added = append(g.added, c07Shadow{id: g.nextID, ts: g.clock, host: c07Norm(qn), cid: cid, ip: ip})

	return []string{strconv.Itoa(g.nextID), strconv.FormatInt(dt, 10), vutil.Hex(qn), vutil.Hex(cid), vutil.Hex(ip),
		vutil.Hex(c07Anon(ip)), strconv.Itoa(reason), vutil.B(reason >= 3 && reason <= 8), strconv.Itoa(r.IntN(1 << 22))}
}

// flushRace fills the buffer through Add so that Add itself starts the flush
// goroutine, lets a clear / shutdown / restart overtake that goroutine (or,
// half of the time, run after it), then records more than MemSize further
// entries and reads everything back: nothing recorded after the race may be
// lost.
func (g *c07Gen) flushRace() {
	r := g.r
	if c07 == nil || c07.l == nil {
		return
	}
	// bring the buffer to one record below the flush threshold
	for i := 0; i < 14; i++ {
		if !g.fileOn || !g.enabled || int(c07.l.buffer.Len())+1 >= g.memSize {
			break
		}
		g.emit(append([]string{"C07.add"}, g.addFields()...)...)
	}
	var thn []string
	switch r.IntN(4) {
	case 0, 1:
		thn = []string{"clear"}
	case 2:
		thn = []string{"shutdown"}
	default:
		thn = []string{"restart", strconv.Itoa(g.memSize), vutil.B(g.fileOn), vutil.B(g.enabled)}
	}
	if r.IntN(4) == 0 {
		// the other order: the goroutine first
		g.emit(append([]string{"C07.add"}, g.addFields()...)...)
		g.emit(append([]string{"C07." + thn[0]}, thn[1:]...)...)
	} else {
		g.emit(append(append([]string{"C07.addthen"}, g.addFields()...), thn...)...)
	}
	n := g.memSize + 1 + r.IntN(4)
	if n > 16 {
		n = 4 + r.IntN(4)
	}
	for i := 0; i < n; i++ {
		g.emit(append([]string{"C07.add"}, g.addFields()...)...)
	}
	g.emitSearch(0, "none", "-", "200", "", "", "")
	g.pageChain()
}

// putconf emits a PUT of the configuration and tracks what is in force.
func (g *c07Gen) putconf(enabled, anon bool, iv int, rulesList []string) {
	pf := []string{vutil.B(enabled), vutil.B(anon), strconv.Itoa(iv)}
	pf = append(pf, g.ignoredFields(rulesList)...)
	g.emit(append([]string{"C07.putconf"}, pf...)...)
	if iv >= 3600_000 && iv <= 365*86400_000 {
		g.enabled, g.anon, g.ivlMs, g.curRules = enabled, anon, iv, rulesList
	}
}

// anonScenario switches anonymisation on, reads the log through the real
// handler, switches it off again and reads before and after a flush / restart:
// every record must come back with the client it was recorded with, masked
// only while anonymisation is on.
func (g *c07Gen) anonScenario() {
	r := g.r
	read := func() {
		g.emitSearch(0, "none", "-", strconv.Itoa(20+r.IntN(30)), "", "", "")
		if len(g.added) > 0 && r.IntN(2) == 0 {
			ip := vutil.Pick(r, g.added).ip
			g.emitSearch(0, "none", "-", "", strconv.Itoa(r.IntN(3)), ip[:1+r.IntN(len(ip))], "")
		}
	}
	if r.IntN(3) == 0 {
		g.add()
	}
	read()
	g.putconf(g.enabled, !g.anon, g.ivlMs, g.curRules)
	read()
	if r.IntN(2) == 0 {
		g.add()
		read()
	}
	g.putconf(g.enabled, !g.anon, g.ivlMs, g.curRules)
	read()
	switch r.IntN(3) {
	case 0:
		g.emit("C07.shutdown")
	case 1:
		g.emit("C07.restart", strconv.Itoa(g.memSize), vutil.B(g.fileOn), vutil.B(g.enabled))
	}
	read()
}

// bigBlock crosses the real 50 000-record scan budget of the API.
func (g *c07Gen) bigBlock() {
	r := g.r
	g.hosts = []string{"example.org", "ads.tracker.net", "kitchen.local"}
	g.cids, g.ips, g.names = []string{"", "laptop"}, []string{"192.168.1.5", "10.0.0.1"}, []string{"My Kitchen"}
	g.clock, g.nextID, g.added = 0, 0, nil
	f := []string{"0", "4000", "1", "1", "86400000"}
	f = append(f, g.ignoredFields(nil)...)
	f = append(f, "1", vutil.Hex("laptop"), vutil.Hex("My Kitchen"), "0")
	g.emit(append([]string{"C07.reset"}, f...)...)
	total := 61000 + r.IntN(3000)
	for i := 0; i < total; i++ {
		g.nextID++
		dt := int64(1 + r.IntN(2000))
		g.clock += dt
		reason, isF := 0, false
		// a few blocked records, mostly old
		if i < 200 && i%17 == 0 || i%9973 == 0 {
			reason, isF = 3, true
		}
		cid := ""
		if i%4999 == 1 {
			cid = "laptop"
		}
		host := g.hosts[0]
		if isF {
			host = g.hosts[1]
		}
		g.emit("C07.add", strconv.Itoa(g.nextID), strconv.FormatInt(dt, 10), vutil.Hex(host+"."), vutil.Hex(cid),
			vutil.Hex(g.ips[i%2]), vutil.Hex(c07Anon(g.ips[i%2])), strconv.Itoa(reason), vutil.B(isF), strconv.Itoa(i%7))
		if i == 30000 {
			g.emit("C07.rotate")
		}
	}
	for _, q := range [][2]string{{"", "blocked"}, {"kit", ""}, {"tracker", ""}, {"", ""}} {
		okind, oval := "none", "-"
		for i := 0; i < 12; i++ {
			g.emitSearch(0, okind, oval, "20", "", q[0], q[1])
			if c07 == nil || c07.lastOldest == "" {
				break
			}
			okind, oval = "rel", c07.lastOldest
		}
	}
	g.emitSearch(0, "none", "-", "5", "3", "", "blocked")
	g.emitSearch(0, "none", "-", "5", "60000", "", "")
}

func c07GenAll(r *rand.Rand, emit vutil.Emit) {
	g := &c07Gen{r: r, emit: emit}
	emit("C07.consts")
	n := vutil.N(300)
	// the text primitives of the term criterion: strings.EqualFold and the
	// package's containsFold against the model's rune/orbit computation
	for i := 0; i < n/2+300; i++ {
		a, b := c07FoldPair(r)
		emit("C07.fold", vutil.Hex(a), vutil.Hex(b))
	}
	// string level of the file format: the real encoder / raw cut / decoder
	for i := 0; i < n/4+100; i++ {
		emit("C07.str", vutil.Hex(c07Str4Gen(r)))
	}
	for i := 0; i < n; i++ {
		g.block()
		if i%6 == 5 {
			g.steppedBlock()
		}
	}
	if vutil.Thorough() {
		g.bigBlock()
	}
	c07Drop()
}

func TestVerifC07(t *testing.T) {
	// aghhttp.Error logs every 4xx answer.
	glog.SetOutput(io.Discard)
	synctest.Test(t, func(t *testing.T) {
		vutil.Main(t, c07GenAll, c07Run)
		c07Drop()
	})
}
