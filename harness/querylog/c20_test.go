//go:build verif

package querylog

import (
	"context"
	"fmt"
	"hash/fnv"
	"io"
	"math/rand/v2"
	"os"
	"path/filepath"
	"strconv"
	"strings"
	"testing"
	"time"

	"github.com/AdguardTeam/AdGuardHome/internal/vutil"
	"github.com/AdguardTeam/golibs/errors"
	"github.com/AdguardTeam/golibs/logutil/slogutil"
)

// C20 harness: real query-log files on disk, the real qLogFile / qLogReader.
//
// Block protocol (see /verif/lean/Driver/C20.lean):
//
//	C20.reset baseNs datePrefix nfiles {complete nseg {count kind len a b}*}*  => ok maxEntry bufSize size…
//	C20.start | C20.next n | C20.seek ts | C20.fstart k | C20.fnext k n | C20.fseek k ts

const c20DatePrefix = "2023-03-05T"

var c20Base = time.Date(2023, 3, 5, 0, 0, 0, 0, time.UTC).UnixNano()

const c20DayNs = int64(86400) * 1_000_000_000

type c20Seg struct {
	count int
	kind  string
	len   int
	a, b  string
}

type c20File struct {
	complete bool
	segs     []c20Seg
}

// c20JSONLine is the line `{"T":"<time>","QH":"xx…"}` of total length n (or the
// minimal such line if n is too small).
func c20JSONLine(off int64, n int) string {
	pre := `{"T":"` + time.Unix(0, c20Base+off).UTC().Format(time.RFC3339Nano) + `","QH":"`
	pad := n - (len(pre) + 2)
	if pad < 0 {
		pad = 0
	}

	return pre + strings.Repeat("x", pad) + `"}`
}

func (s c20Seg) lines(yield func(line string)) {
	switch s.kind {
	case "J":
		a, _ := strconv.ParseInt(s.a, 10, 64)
		b, _ := strconv.ParseInt(s.b, 10, 64)
		for i := 0; i < s.count; i++ {
			yield(c20JSONLine(a+int64(i)*b, s.len))
		}
	case "P":
		a, _ := strconv.Atoi(s.a)
		l := strings.Repeat(string([]byte{byte(a)}), s.len)
		for i := 0; i < s.count; i++ {
			yield(l)
		}
	case "H":
		l := vutil.Unhex(s.a)
		for i := 0; i < s.count; i++ {
			yield(l)
		}
	default:
		panic("bad segment kind " + s.kind)
	}
}

func (f c20File) content() []byte {
	var sb strings.Builder
	for _, s := range f.segs {
		s.lines(func(l string) {
			sb.WriteString(l)
			sb.WriteByte('\n')
		})
	}
	b := []byte(sb.String())
	if !f.complete && len(b) > 0 {
		b = b[:len(b)-1]
	}

	return b
}

func c20Fields(files []c20File) (fields []string) {
	fields = []string{
		"C20.reset", strconv.FormatInt(c20Base, 10), vutil.Hex(c20DatePrefix), vutil.Itoa(len(files)),
	}
	for _, f := range files {
		fields = append(fields, vutil.B(f.complete), vutil.Itoa(len(f.segs)))
		for _, s := range f.segs {
			fields = append(fields, vutil.Itoa(s.count), s.kind, vutil.Itoa(s.len), s.a, s.b)
		}
	}

	return fields
}

func c20ParseFiles(f []string) (files []c20File) {
	n := vutil.Atoi(f[3])
	p := 4
	for i := 0; i < n; i++ {
		fl := c20File{complete: vutil.UnB(f[p])}
		nseg := vutil.Atoi(f[p+1])
		p += 2
		for j := 0; j < nseg; j++ {
			fl.segs = append(fl.segs, c20Seg{
				count: vutil.Atoi(f[p]), kind: f[p+1], len: vutil.Atoi(f[p+2]), a: f[p+3], b: f[p+4],
			})
			p += 5
		}
		files = append(files, fl)
	}

	return files
}

// c20Impl is the implementation state of the current block.
type c20Impl struct {
	dir string
	r   *qLogReader
}

var (
	c20Cur c20Impl
	c20T   *testing.T
	c20Seq int
)

func c20ErrCls(err error) string {
	msg := err.Error()
	switch {
	case errors.Is(err, errTSTooEarly):
		return "tooEarly"
	case errors.Is(err, errTSTooLate):
		return "tooLate"
	case errors.Is(err, errTSNotFound):
		if strings.Contains(msg, "too high") {
			return "depth"
		}

		return "notFound"
	case errors.Is(err, io.EOF):
		return "eof"
	case strings.Contains(msg, "empty timestamp"):
		return "emptyTS"
	default:
		return "other:" + vutil.Hex(msg)
	}
}

func c20Dump() (out []string) {
	r := c20Cur.r
	out = append(out, vutil.Itoa(r.currentFile))
	for _, q := range r.qFiles {
		out = append(out,
			strconv.FormatInt(q.position, 10), vutil.B(q.buffer != nil),
			strconv.FormatInt(q.bufferStart, 10), vutil.Itoa(q.bufferLen))
	}

	return out
}

func c20ReadMany(n int, next func() (string, error)) []string {
	h := fnv.New64a()
	cnt := 0
	end := "more"
	for i := 0; i < n; i++ {
		line, err := next()
		if err != nil {
			end = c20ErrCls(err)

			break
		}
		cnt++
		_, _ = io.WriteString(h, line)
		_, _ = h.Write([]byte{'\n'})
	}

	return []string{vutil.Itoa(cnt), end, fmt.Sprintf("%016x", h.Sum64())}
}

func c20Run(f []string) (out []string) {
	ctx := context.Background()
	if f[0] == "C20.reset" {
		if c20Cur.r != nil {
			_ = c20Cur.r.Close()
			_ = os.RemoveAll(c20Cur.dir)
		}
		c20Seq++
		dir := filepath.Join(c20T.TempDir(), vutil.Itoa(c20Seq))
		if err := os.MkdirAll(dir, 0o755); err != nil {
			panic(err)
		}
		files := c20ParseFiles(f)
		var paths []string
		// The constants of the implementation are part of the observation: the
		// model runs with them.
		out = []string{"ok", vutil.Itoa(maxEntrySize), vutil.Itoa(bufferSize)}
		for i, fl := range files {
			p := filepath.Join(dir, "querylog.json."+vutil.Itoa(len(files)-1-i))
			b := fl.content()
			if err := os.WriteFile(p, b, 0o644); err != nil {
				panic(err)
			}
			paths = append(paths, p)
			out = append(out, vutil.Itoa(len(b)))
		}
		r, err := newQLogReader(ctx, slogutil.NewDiscardLogger(), paths)
		if err != nil {
			panic(err)
		}
		c20Cur = c20Impl{dir: dir, r: r}

		return out
	}

	r := c20Cur.r
	switch f[0] {
	case "C20.start":
		if err := r.SeekStart(); err != nil {
			out = []string{"err", c20ErrCls(err)}
		} else {
			out = []string{"ok"}
		}
	case "C20.next":
		out = c20ReadMany(vutil.Atoi(f[1]), r.ReadNext)
	case "C20.seek":
		ts, _ := strconv.ParseInt(f[1], 10, 64)
		if err := r.seekTS(ctx, ts); err != nil {
			out = []string{"err", c20ErrCls(err)}
		} else {
			out = []string{"ok"}
		}
	case "C20.fstart":
		q := r.qFiles[vutil.Atoi(f[1])]
		pos, err := q.SeekStart()
		if err != nil {
			out = []string{"err", c20ErrCls(err)}
		} else {
			out = []string{"ok", strconv.FormatInt(pos, 10)}
		}
	case "C20.fnext":
		q := r.qFiles[vutil.Atoi(f[1])]
		out = c20ReadMany(vutil.Atoi(f[2]), q.ReadNext)
	case "C20.fseek":
		q := r.qFiles[vutil.Atoi(f[1])]
		ts, _ := strconv.ParseInt(f[2], 10, 64)
		pos, depth, err := q.seekTS(ctx, r.logger, ts)
		if err != nil {
			out = []string{"err", c20ErrCls(err)}
		} else {
			out = []string{"ok", strconv.FormatInt(pos, 10), vutil.Itoa(depth)}
		}
	default:
		panic("unknown op " + f[0])
	}

	return append(out, c20Dump()...)
}

// ---------------------------------------------------------------- generator

// c20Builder accumulates the segments of one file and the timestamp offsets of
// its lines (0 for a line without a usable timestamp).
type c20Builder struct {
	file  c20File
	offs  []int64
	cur    int64 // next free timestamp offset
	bytes  int
	maxGap int64
	// aims are seeks laid out on purpose: the timestamp offset to seek and the
	// number of reads that carry the reader across the aimed boundary.
	aims []c20Aim
}

type c20Aim struct {
	off   int64
	reads int
}

func (b *c20Builder) gap(r *rand.Rand, count int) int64 {
	room := (c20DayNs - 1000 - b.cur) / int64(count+1) / 2
	if room < 1 {
		return 1
	}
	g := []int64{1, 1, 2, 3, 10, 1000, 999_999, 1_000_000, 1_000_000_000, 1 + r.Int64N(5_000_000_000)}[r.IntN(10)]
	if g > b.maxGap {
		g = 1 + r.Int64N(b.maxGap)
	}
	if g > room {
		g = 1 + r.Int64N(room)
	}

	return g
}

// addJ adds count JSON lines of length n with increasing timestamps.
func (b *c20Builder) addJ(r *rand.Rand, count, n int) {
	if count == 0 {
		return
	}
	step := b.gap(r, count)
	start := b.cur + b.gap(r, 1)
	b.file.segs = append(b.file.segs, c20Seg{
		count: count, kind: "J", len: n,
		a: strconv.FormatInt(start, 10), b: strconv.FormatInt(step, 10),
	})
	for i := 0; i < count; i++ {
		off := start + int64(i)*step
		b.offs = append(b.offs, off)
		b.bytes += len(c20JSONLine(off, n)) + 1
	}
	b.cur = start + int64(count-1)*step
	if b.cur >= c20DayNs-1000 {
		panic("c20 generator: timestamp budget exhausted")
	}
}

func (b *c20Builder) addP(count, n int, c byte) {
	b.file.segs = append(b.file.segs, c20Seg{count: count, kind: "P", len: n, a: vutil.Itoa(int(c)), b: "0"})
	for i := 0; i < count; i++ {
		b.offs = append(b.offs, 0)
	}
	b.bytes += count * (n + 1)
}

func (b *c20Builder) addH(line string, off int64) {
	b.file.segs = append(b.file.segs, c20Seg{count: 1, kind: "H", len: 0, a: vutil.Hex(line), b: "0"})
	b.offs = append(b.offs, off)
	b.bytes += len(line) + 1
}

// fill adds JSON lines whose total size (with newlines) is exactly total, total >= 51.
func (b *c20Builder) fill(r *rand.Rand, total int, pick func() int) {
	for total > 0 {
		n := min(max(pick(), 50), maxEntrySize-1)
		if rest := total - (n + 1); rest != 0 && rest < 51 {
			if total-1 <= maxEntrySize-1 {
				n = total - 1
			} else {
				n -= 60
			}
		}
		b.addJ(r, 1, n)
		total -= n + 1
	}
}

func c20LenPicker(r *rand.Rand, class int) func() int {
	return func() int {
		switch class {
		case 0: // short
			return 40 + r.IntN(160)
		case 1: // typical entries
			return 150 + r.IntN(600)
		case 2: // wide mix
			switch r.IntN(10) {
			case 0:
				return maxEntrySize - 1 - r.IntN(3)
			case 1, 2:
				return 2000 + r.IntN(maxEntrySize-2001)
			case 3:
				return 47 + r.IntN(5)
			default:
				return 50 + r.IntN(1500)
			}
		case 3: // long
			return maxEntrySize/2 + r.IntN(maxEntrySize/2)
		default: // just under the limit
			return maxEntrySize - 1 - r.IntN(4)
		}
	}
}

// c20GenFile builds one file; startOff is the first free timestamp offset.
// malformed > 0 selects a way to leave the property's domain.
func c20GenFile(r *rand.Rand, startOff int64, sizeClass, malformed int) *c20Builder {
	b := &c20Builder{cur: startOff, maxGap: 5_000_000_000}
	if sizeClass == 5 || sizeClass == 6 || sizeClass == 8 {
		b.maxGap = 40_000_000
	}
	b.file.complete = true
	switch sizeClass {
	case 0: // empty
	case 1: // tiny
		n := 1 + r.IntN(5)
		for i := 0; i < n; i++ {
			b.addJ(r, 1, []int{0, 40, 47, 48, 60, 200, maxEntrySize - 1, maxEntrySize - 2, maxEntrySize / 2}[r.IntN(9)])
		}
	case 2: // few long lines: probe windows and short files
		n := 1 + r.IntN(7)
		for i := 0; i < n; i++ {
			b.addJ(r, 1, []int{
				maxEntrySize - 1, maxEntrySize - 1, maxEntrySize - 2, maxEntrySize - 3, maxEntrySize/2 - 1,
				maxEntrySize / 2, maxEntrySize/2 + 1, 100, 48, 3 * maxEntrySize / 4,
			}[r.IntN(10)])
		}
	case 3: // small
		nseg := 1 + r.IntN(6)
		pick := c20LenPicker(r, r.IntN(3))
		for i := 0; i < nseg; i++ {
			b.addJ(r, 1+r.IntN(40), pick())
		}
	case 4: // medium: up to a few hundred KB
		nseg := 2 + r.IntN(30)
		pick := c20LenPicker(r, r.IntN(5))
		for i := 0; i < nseg && b.bytes < 300_000; i++ {
			b.addJ(r, 1+r.IntN(30), pick())
		}
	case 6: // window-aligned: after seekTS the 1.6 MB window starts ±2 bytes around a line start,
		// and a newline sits ±2 bytes around the refill bound (window start + maxEntrySize)
		b.addJ(r, 1+r.IntN(20), 60+r.IntN(300))
		for u, units := 0, 1+r.IntN(2); u < units; u++ {
			d1 := r.IntN(5) - 2
			d2 := r.IntN(5) - 2
			xLen := 60 + r.IntN(140)
			before := len(b.offs)
			b.addJ(r, 1, xLen) // X starts at s; the window will start at s+d1
			yLen := d1 + maxEntrySize + d2 - xLen - 1
			b.addJ(r, 1, yLen) // Y's newline at s+d1+maxEntrySize+d2
			pick := c20LenPicker(r, 2+r.IntN(3))
			b.fill(r, bufferSize+d1-xLen-(yLen+1), pick) // the last filler newline at s+d1+bufferSize
			b.aims = append(b.aims, c20Aim{off: b.offs[len(b.offs)-1], reads: len(b.offs) - before + 3})
			b.addJ(r, 1+r.IntN(5), 80+r.IntN(2000))
		}
	case 7: // probe-aligned: the first probe (size/2) falls j bytes around the newline of a
		// line of maxEntrySize-1 bytes followed by another one: both edges of the 32 KiB window
		j := r.IntN(6) - 2
		p := 60 + r.IntN(200)
		q2 := p + 2*j - 2 + r.IntN(2)
		b.addJ(r, 1, p)
		b.addJ(r, 1, maxEntrySize-1)
		b.addJ(r, 1, maxEntrySize-1)
		b.addJ(r, 1, q2)
	case 8: // clamped last chunk: total size = k*bufferSize -/+ d with long lines, so that the
		// refill that reaches offset 0 (chunk start clamped to 0) is shorter than the
		// buffer by less than two entries and an entry straddles its end; seeks to
		// every line ending just below/at a multiple of bufferSize put the first
		// window of a read there too.
		k := 1 + r.IntN(3)
		d := r.IntN(2*maxEntrySize + 1)
		if r.IntN(3) > 0 {
			d = r.IntN(maxEntrySize + 1)
		}
		total := k*bufferSize - d
		if r.IntN(4) == 0 {
			total = k*bufferSize + d
		}
		l := maxEntrySize/2 + r.IntN(maxEntrySize/2)
		count := (total - 2*maxEntrySize) / (l + 1)
		b.fill(r, total-count*(l+1), c20LenPicker(r, 2+r.IntN(3)))
		base, idx0 := b.bytes, len(b.offs)
		b.addJ(r, count, l)
		for i := 0; i < count; i++ {
			e := base + (i+1)*(l+1) - 1
			for m := 1; m <= k; m++ {
				if e >= m*bufferSize-2*maxEntrySize-2 && e <= m*bufferSize+2 {
					b.aims = append(b.aims, c20Aim{off: b.offs[idx0+i], reads: idx0 + i + 3})
				}
			}
		}
	default: // large: more than one 1.6 MB window
		total := bufferSize + r.IntN(bufferSize/2)
		switch r.IntN(8) {
		case 0, 1:
			total = bufferSize + r.IntN(3*maxEntrySize) - maxEntrySize
		case 2, 3:
			total = 2*bufferSize + r.IntN(bufferSize)
		case 4:
			total = 3*bufferSize + r.IntN(bufferSize)
		case 5:
			if vutil.Thorough() {
				total = 4*bufferSize + r.IntN(4*bufferSize)
			}
		}
		class := r.IntN(5)
		pick := c20LenPicker(r, class)
		// Head of the file in uniform runs (cheap to describe), then an exact tail
		// so that a line boundary sits at a chosen distance from the first window
		// start (size-1-bufferSize).
		tail := bufferSize + []int{-2, -1, 0, 1, 2, maxEntrySize - 1, maxEntrySize, maxEntrySize + 1, -maxEntrySize, r.IntN(bufferSize)}[r.IntN(10)]
		for b.bytes < total-tail {
			n := pick()
			cnt := 1 + r.IntN(400)
			if class >= 2 {
				cnt = 1 + r.IntN(8)
			}
			b.addJ(r, cnt, n)
		}
		b.addJ(r, 1, pick())
		b.fill(r, tail-1, pick)
	}

	switch malformed {
	case 1: // no final newline
		b.file.complete = false
	case 2: // a line at or over the limit
		b.addJ(r, 1, []int{maxEntrySize, maxEntrySize + 1, 2*maxEntrySize + 5, 40000, bufferSize + 10}[r.IntN(5)])
		b.addJ(r, 1+r.IntN(3), 100)
	case 3: // raw lines without timestamps, tiny lengths
		for i, n := 0, 1+r.IntN(6); i < n; i++ {
			b.addP(1+r.IntN(3), 1+r.IntN(30), "az09 {\"\t"[r.IntN(8)])
		}
	case 4: // an empty line somewhere
		b.addH("", 0)
		b.addJ(r, r.IntN(3), 80)
	case 5: // timestamps out of order / duplicated
		if len(b.offs) > 0 {
			off := b.offs[r.IntN(len(b.offs))]
			b.addH(c20JSONLine(off, 70), off)
		}
	case 6: // other shapes of the timestamp field
		off := b.cur + 5
		ts := time.Unix(0, c20Base+off).UTC().Format(time.RFC3339Nano)
		b.addH([]string{
			`{"Time":"` + ts + `","x":1}`,
			`{"T":"","Time":"` + ts + `"}`,
			`{"QH":"y","T":"` + ts + `"}`,
			`{"T":"garbage"}`,
			`{"T":"` + ts,
			`{"T":"2023-03-05T25:00:00Z"}`,
			`{"T":"2023-03-05"}`,
			`no timestamp at all`,
			`"T":"` + ts + `"`,
			`{"T":"1970-01-01T00:00:00Z","QH":"epoch"}`,
		}[r.IntN(10)], off)
		b.cur = off
		b.addJ(r, r.IntN(3), 90)
	}

	return b
}

// c20Targets returns seek targets for a file with the given absolute stamps.
func c20Targets(r *rand.Rand, offs []int64, budget int) (ts []int64) {
	var st []int64
	for _, o := range offs {
		if o != 0 {
			st = append(st, c20Base+o)
		}
	}
	ts = append(ts, c20Base-5, 1, 0, c20Base+c20DayNs+7, 4102444800_000000000)
	if len(st) == 0 {
		return ts
	}
	ts = append(ts, st[0]-1, st[0], st[len(st)-1], st[len(st)-1]+1)
	if len(st) <= budget/3 {
		for i, s := range st {
			ts = append(ts, s, s+1)
			if i > 0 && s-st[i-1] > 1 {
				ts = append(ts, st[i-1]+(s-st[i-1])/2)
			}
		}
	} else {
		for i := 0; i < budget; i++ {
			k := r.IntN(len(st))
			switch r.IntN(4) {
			case 0:
				ts = append(ts, st[k]+1)
			case 1:
				ts = append(ts, st[k]-1)
			default:
				ts = append(ts, st[k])
			}
		}
	}
	r.Shuffle(len(ts), func(i, j int) { ts[i], ts[j] = ts[j], ts[i] })

	return ts
}

func c20Gen(r *rand.Rand, emit vutil.Emit) {
	n := vutil.N(200)
	for blk := 0; blk < n; blk++ {
		if r.IntN(150) == 0 {
			// No file at all: newQLogReader found none.
			emit(c20Fields(nil)...)
			emit("C20.next", "2")
			emit("C20.seek", strconv.FormatInt(c20Base+int64(r.IntN(5)), 10))
			emit("C20.next", "1")
			emit("C20.start")
			emit("C20.next", vutil.Itoa(r.IntN(3)))
			emit("C20.seek", "0")

			continue
		}
		// Size class of the block.
		var class int
		switch x := r.IntN(100); {
		case x < 4:
			class = 0
		case x < 22:
			class = 1
		case x < 38:
			class = 2
		case x < 64:
			class = 3
		case x < 90:
			class = 4
		case x < 93:
			class = 5
		case x < 95:
			class = 6
		case x < 97:
			class = 8
		default:
			class = 7
		}
		malformed := 0
		if r.IntN(7) == 0 {
			malformed = 1 + r.IntN(6)
		}
		nfiles := []int{1, 1, 1, 2, 2, 2, 2, 3}[r.IntN(8)]
		var bs []*c20Builder
		start := int64(0)
		for i := 0; i < nfiles; i++ {
			c := class
			m := 0
			if i < nfiles-1 {
				// Older files: mostly small, sometimes empty.
				if r.IntN(3) > 0 || class >= 5 {
					c = []int{0, 1, 1, 2, 3, 3, 4}[r.IntN(7)]
				}
				if malformed != 0 && r.IntN(nfiles) == 0 {
					m, malformed = malformed, 0
				}
			} else {
				m = malformed
				if nfiles > 1 && r.IntN(8) == 0 {
					c = 0 // empty current file
				}
			}
			b := c20GenFile(r, start, c, m)
			start = b.cur
			if r.IntN(16) == 0 {
				start = 0 // overlapping timestamps across the files
			}
			bs = append(bs, b)
		}
		files := make([]c20File, len(bs))
		totalLines := 0
		var allOffs []int64
		for i, b := range bs {
			files[i] = b.file
			totalLines += len(b.offs)
			allOffs = append(allOffs, b.offs...)
		}
		emit(c20Fields(files)...)

		big := totalLines + 2
		chunk := func() int {
			switch r.IntN(6) {
			case 0:
				return 1
			case 1:
				return 1 + r.IntN(3)
			case 2:
				return 1 + r.IntN(1+totalLines)
			case 3:
				return 1 + totalLines/2
			default:
				return 1 + r.IntN(50)
			}
		}
		budget := 24
		if class == 5 || class == 6 || class == 8 {
			budget = 40
		}
		if r.IntN(5) < 3 {
			// Reader level.
			emit("C20.next", "2") // before any positioning
			emit("C20.start")
			emit("C20.next", vutil.Itoa(big))
			emit("C20.next", "1")
			emit("C20.start")
			for i, left := 0, totalLines; i < 6 && left >= 0; i++ {
				c := chunk()
				emit("C20.next", vutil.Itoa(c))
				left -= c
			}
			for i, t := range c20Targets(r, allOffs, budget) {
				emit("C20.seek", strconv.FormatInt(t, 10))
				if i%7 == 3 && (class < 5 || class == 7 || i < 20) {
					emit("C20.next", vutil.Itoa(big))
				} else {
					emit("C20.next", vutil.Itoa(chunk()))
				}
				if r.IntN(6) == 0 {
					emit("C20.start")
				}
				if r.IntN(12) == 0 {
					// Touch one file underneath the reader, then go on with the reader.
					ks := vutil.Itoa(r.IntN(len(bs)))
					if r.IntN(2) == 0 {
						emit("C20.fnext", ks, vutil.Itoa(1+r.IntN(3)))
					} else {
						emit("C20.fseek", ks, strconv.FormatInt(t, 10))
					}
					emit("C20.next", vutil.Itoa(1+r.IntN(4)))
				}
			}
			for _, b := range bs {
				for _, a := range b.aims {
					emit("C20.seek", strconv.FormatInt(c20Base+a.off, 10))
					emit("C20.next", vutil.Itoa(a.reads))
				}
			}
		} else {
			for k, b := range bs {
				ks := vutil.Itoa(k)
				emit("C20.fnext", ks, "1")
				emit("C20.fstart", ks)
				emit("C20.fnext", ks, vutil.Itoa(len(b.offs)+2))
				emit("C20.fnext", ks, "1")
				emit("C20.fstart", ks)
				for i := 0; i < 4; i++ {
					emit("C20.fnext", ks, vutil.Itoa(chunk()))
				}
				for i, t := range c20Targets(r, b.offs, budget) {
					emit("C20.fseek", ks, strconv.FormatInt(t, 10))
					if i%7 == 3 && (class < 5 || class == 7 || i < 20) {
						emit("C20.fnext", ks, vutil.Itoa(len(b.offs)+2))
					} else {
						emit("C20.fnext", ks, vutil.Itoa(chunk()))
					}
					if r.IntN(6) == 0 {
						emit("C20.fstart", ks)
					}
				}
				for _, a := range b.aims {
					emit("C20.fseek", ks, strconv.FormatInt(c20Base+a.off, 10))
					emit("C20.fnext", ks, vutil.Itoa(a.reads))
				}
			}
		}
	}
}

func TestVerifC20(t *testing.T) {
	c20T = t
	vutil.Main(t, c20Gen, c20Run)
	if c20Cur.r != nil {
		_ = c20Cur.r.Close()
	}
}
