//go:build verif

package querylog

import (
	"context"
	"net"
)

// VerifC08Entry is one record of the in-memory buffer as the C08 harness sees
// it.
type VerifC08Entry struct {
	Host     string
	IP       net.IP
	ClientID string
}

// VerifC08Mem returns the contents of the in-memory buffer of q, oldest first.
// It is compiled into the package only by the verification overlay.
func VerifC08Mem(q QueryLog) (out []VerifC08Entry) {
	l := q.(*queryLog)

	l.bufferLock.RLock()
	defer l.bufferLock.RUnlock()

	l.buffer.Range(func(e *logEntry) (cont bool) {
		out = append(out, VerifC08Entry{Host: e.QHost, IP: e.IP, ClientID: e.ClientID})

		return true
	})

	return out
}

// VerifC08InitWeb registers the HTTP handlers of q exactly as Start does, but
// does not start the rotation goroutine (which never ends and, at start-up,
// may rename the log file under the harness).
func VerifC08InitWeb(q QueryLog) {
	q.(*queryLog).initWeb()
}

// VerifC08Rotate calls the real rotate (querylog.json -> querylog.json.1).
func VerifC08Rotate(q QueryLog) (err error) {
	return q.(*queryLog).rotate(context.Background())
}
