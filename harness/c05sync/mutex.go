// VERIF: instrumented copy of GOROOT/src/sync/mutex.go (go1.26.8) used only through `go test -overlay`
// by the C05 harness: every acquisition and release calls VerifHook (see verifhook.go).

// Copyright 2009 The Go Authors. All rights reserved.
// Use of this source code is governed by a BSD-style
// license that can be found in the LICENSE file.

// Package sync provides basic synchronization primitives such as mutual
// exclusion locks. Other than the [Once] and [WaitGroup] types, most are intended
// for use by low-level library routines. Higher-level synchronization is
// better done via channels and communication.
//
// Values containing the types defined in this package should not be copied.
package sync

import (
	isync "internal/sync"
	"unsafe"
)

// A Mutex is a mutual exclusion lock.
// The zero value for a Mutex is an unlocked mutex.
//
// A Mutex must not be copied after first use.
//
// In the terminology of [the Go memory model],
// the n'th call to [Mutex.Unlock] “synchronizes before” the m'th call to [Mutex.Lock]
// for any n < m.
// A successful call to [Mutex.TryLock] is equivalent to a call to Lock.
// A failed call to TryLock does not establish any “synchronizes before”
// relation at all.
//
// [the Go memory model]: https://go.dev/ref/mem
type Mutex struct {
	_ noCopy

	mu isync.Mutex
}

// A Locker represents an object that can be locked and unlocked.
type Locker interface {
	Lock()
	Unlock()
}

// Lock locks m.
// If the lock is already in use, the calling goroutine
// blocks until the mutex is available.
func (m *Mutex) Lock() {
	m.mu.Lock()
	if h := VerifHook; h != nil {
		h(VerifLock, unsafe.Pointer(m))
	}
}

// TryLock tries to lock m and reports whether it succeeded.
//
// Note that while correct uses of TryLock do exist, they are rare,
// and use of TryLock is often a sign of a deeper problem
// in a particular use of mutexes.
func (m *Mutex) TryLock() bool {
	ok := m.mu.TryLock()
	if ok {
		if h := VerifHook; h != nil {
			h(VerifTryLock, unsafe.Pointer(m))
		}
	}
	return ok
}

// Unlock unlocks m.
// It is a run-time error if m is not locked on entry to Unlock.
//
// A locked [Mutex] is not associated with a particular goroutine.
// It is allowed for one goroutine to lock a Mutex and then
// arrange for another goroutine to unlock it.
func (m *Mutex) Unlock() {
	if h := VerifHook; h != nil {
		h(VerifUnlock, unsafe.Pointer(m))
	}
	m.mu.Unlock()
}
