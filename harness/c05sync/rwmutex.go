// VERIF: instrumented copy of GOROOT/src/sync/rwmutex.go (go1.26.8) used only through `go test -overlay`
// by the C05 harness: every acquisition and release calls VerifHook (see verifhook.go).

// Copyright 2009 The Go Authors. All rights reserved.
// Use of this source code is governed by a BSD-style
// license that can be found in the LICENSE file.

package sync

import (
	"internal/race"
	"sync/atomic"
	"unsafe"
)

// There is a modified copy of this file in runtime/rwmutex.go.
// If you make any changes here, see if you should make them there.

// A RWMutex is a reader/writer mutual exclusion lock.
// The lock can be held by an arbitrary number of readers or a single writer.
// The zero value for a RWMutex is an unlocked mutex.
//
// A RWMutex must not be copied after first use.
//
// If any goroutine calls [RWMutex.Lock] while the lock is already held by
// one or more readers, concurrent calls to [RWMutex.RLock] will block until
// the writer has acquired (and released) the lock, to ensure that
// the lock eventually becomes available to the writer.
// Note that this prohibits recursive read-locking.
// A [RWMutex.RLock] cannot be upgraded into a [RWMutex.Lock],
// nor can a [RWMutex.Lock] be downgraded into a [RWMutex.RLock].
//
// In the terminology of [the Go memory model],
// the n'th call to [RWMutex.Unlock] “synchronizes before” the m'th call to Lock
// for any n < m, just as for [Mutex].
// For any call to RLock, there exists an n such that
// the n'th call to Unlock “synchronizes before” that call to RLock,
// and the corresponding call to [RWMutex.RUnlock] “synchronizes before”
// the n+1'th call to Lock.
//
// [the Go memory model]: https://go.dev/ref/mem
type RWMutex struct {
	w           Mutex        // held if there are pending writers
	writerSem   uint32       // semaphore for writers to wait for completing readers
	readerSem   uint32       // semaphore for readers to wait for completing writers
	readerCount atomic.Int32 // number of pending readers
	readerWait  atomic.Int32 // number of departing readers
}

const rwmutexMaxReaders = 1 << 30

// Happens-before relationships are indicated to the race detector via:
// - Unlock  -> Lock:  readerSem
// - Unlock  -> RLock: readerSem
// - RUnlock -> Lock:  writerSem
//
// The methods below temporarily disable handling of race synchronization
// events in order to provide the more precise model above to the race
// detector.
//
// For example, atomic.AddInt32 in RLock should not appear to provide
// acquire-release semantics, which would incorrectly synchronize racing
// readers, thus potentially missing races.

// RLock locks rw for reading.
//
// It should not be used for recursive read locking; a blocked Lock
// call excludes new readers from acquiring the lock. See the
// documentation on the [RWMutex] type.
func (rw *RWMutex) RLock() {
	if race.Enabled {
		race.Read(unsafe.Pointer(&rw.w))
		race.Disable()
	}
	if rw.readerCount.Add(1) < 0 {
		// A writer is pending, wait for it.
		runtime_SemacquireRWMutexR(&rw.readerSem, false, 0)
	}
	if race.Enabled {
		race.Enable()
		race.Acquire(unsafe.Pointer(&rw.readerSem))
	}
	if h := VerifHook; h != nil {
		h(VerifRLock, unsafe.Pointer(rw))
	}
}

// TryRLock tries to lock rw for reading and reports whether it succeeded.
//
// Note that while correct uses of TryRLock do exist, they are rare,
// and use of TryRLock is often a sign of a deeper problem
// in a particular use of mutexes.
func (rw *RWMutex) TryRLock() bool {
	if race.Enabled {
		race.Read(unsafe.Pointer(&rw.w))
		race.Disable()
	}
	for {
		c := rw.readerCount.Load()
		if c < 0 {
			if race.Enabled {
				race.Enable()
			}
			return false
		}
		if rw.readerCount.CompareAndSwap(c, c+1) {
			if race.Enabled {
				race.Enable()
				race.Acquire(unsafe.Pointer(&rw.readerSem))
			}
			if h := VerifHook; h != nil {
		h(VerifTryRLock, unsafe.Pointer(rw))
	}
	return true
		}
	}
}

// RUnlock undoes a single [RWMutex.RLock] call;
// it does not affect other simultaneous readers.
// It is a run-time error if rw is not locked for reading
// on entry to RUnlock.
func (rw *RWMutex) RUnlock() {
	if h := VerifHook; h != nil {
		h(VerifRUnlock, unsafe.Pointer(rw))
	}
	if race.Enabled {
		race.Read(unsafe.Pointer(&rw.w))
		race.ReleaseMerge(unsafe.Pointer(&rw.writerSem))
		race.Disable()
	}
	if r := rw.readerCount.Add(-1); r < 0 {
		// Outlined slow-path to allow the fast-path to be inlined
		rw.rUnlockSlow(r)
	}
	if race.Enabled {
		race.Enable()
	}
}

func (rw *RWMutex) rUnlockSlow(r int32) {
	if r+1 == 0 || r+1 == -rwmutexMaxReaders {
		race.Enable()
		fatal("sync: RUnlock of unlocked RWMutex")
	}
	// A writer is pending.
	if rw.readerWait.Add(-1) == 0 {
		// The last reader unblocks the writer.
		runtime_Semrelease(&rw.writerSem, false, 1)
	}
}

// Lock locks rw for writing.
// If the lock is already locked for reading or writing,
// Lock blocks until the lock is available.
func (rw *RWMutex) Lock() {
	if race.Enabled {
		race.Read(unsafe.Pointer(&rw.w))
		race.Disable()
	}
	// First, resolve competition with other writers.
	rw.w.mu.Lock()
	// Announce to readers there is a pending writer.
	r := rw.readerCount.Add(-rwmutexMaxReaders) + rwmutexMaxReaders
	// Wait for active readers.
	if r != 0 && rw.readerWait.Add(r) != 0 {
		runtime_SemacquireRWMutex(&rw.writerSem, false, 0)
	}
	if race.Enabled {
		race.Enable()
		race.Acquire(unsafe.Pointer(&rw.readerSem))
		race.Acquire(unsafe.Pointer(&rw.writerSem))
	}
	if h := VerifHook; h != nil {
		h(VerifLock, unsafe.Pointer(rw))
	}
}

// TryLock tries to lock rw for writing and reports whether it succeeded.
//
// Note that while correct uses of TryLock do exist, they are rare,
// and use of TryLock is often a sign of a deeper problem
// in a particular use of mutexes.
func (rw *RWMutex) TryLock() bool {
	if race.Enabled {
		race.Read(unsafe.Pointer(&rw.w))
		race.Disable()
	}
	if !rw.w.mu.TryLock() {
		if race.Enabled {
			race.Enable()
		}
		return false
	}
	if !rw.readerCount.CompareAndSwap(0, -rwmutexMaxReaders) {
		rw.w.mu.Unlock()
		if race.Enabled {
			race.Enable()
		}
		return false
	}
	if race.Enabled {
		race.Enable()
		race.Acquire(unsafe.Pointer(&rw.readerSem))
		race.Acquire(unsafe.Pointer(&rw.writerSem))
	}
	if h := VerifHook; h != nil {
		h(VerifTryLock, unsafe.Pointer(rw))
	}
	return true
}

// Unlock unlocks rw for writing. It is a run-time error if rw is
// not locked for writing on entry to Unlock.
//
// As with Mutexes, a locked [RWMutex] is not associated with a particular
// goroutine. One goroutine may [RWMutex.RLock] ([RWMutex.Lock]) a RWMutex and then
// arrange for another goroutine to [RWMutex.RUnlock] ([RWMutex.Unlock]) it.
func (rw *RWMutex) Unlock() {
	if h := VerifHook; h != nil {
		h(VerifUnlock, unsafe.Pointer(rw))
	}
	if race.Enabled {
		race.Read(unsafe.Pointer(&rw.w))
		race.Release(unsafe.Pointer(&rw.readerSem))
		race.Disable()
	}

	// Announce to readers there is no active writer.
	r := rw.readerCount.Add(rwmutexMaxReaders)
	if r >= rwmutexMaxReaders {
		race.Enable()
		fatal("sync: Unlock of unlocked RWMutex")
	}
	// Unblock blocked readers, if any.
	for i := 0; i < int(r); i++ {
		runtime_Semrelease(&rw.readerSem, false, 0)
	}
	// Allow other writers to proceed.
	rw.w.mu.Unlock()
	if race.Enabled {
		race.Enable()
	}
}

// syscall_hasWaitingReaders reports whether any goroutine is waiting
// to acquire a read lock on rw. This exists because syscall.ForkLock
// is an RWMutex, and we can't change that without breaking compatibility.
// We don't need or want RWMutex semantics for ForkLock, and we use
// this private API to avoid having to change the type of ForkLock.
// For more details see the syscall package.
//
//go:linkname syscall_hasWaitingReaders syscall.hasWaitingReaders
func syscall_hasWaitingReaders(rw *RWMutex) bool {
	r := rw.readerCount.Load()
	return r < 0 && r+rwmutexMaxReaders > 0
}

// RLocker returns a [Locker] interface that implements
// the [Locker.Lock] and [Locker.Unlock] methods by calling rw.RLock and rw.RUnlock.
func (rw *RWMutex) RLocker() Locker {
	return (*rlocker)(rw)
}

type rlocker RWMutex

func (r *rlocker) Lock()   { (*RWMutex)(r).RLock() }
func (r *rlocker) Unlock() { (*RWMutex)(r).RUnlock() }
