// VERIF: added to package sync only through `go test -overlay` by the C05
// harness (the extractor cross-check): a hook that observes every acquisition
// and release of a Mutex / RWMutex.

package sync

import "unsafe"

// Operations reported to VerifHook.  Acquisitions are reported after they
// succeed, releases before they are made.
const (
	VerifLock = iota + 1
	VerifUnlock
	VerifRLock
	VerifRUnlock
	VerifTryLock
	VerifTryRLock
)

// VerifHook, if not nil, is called with the operation and the address of the
// Mutex or RWMutex.  It must not use package sync itself.
var VerifHook func(op int, p unsafe.Pointer)
