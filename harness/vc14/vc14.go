// Package vc14 is the shared part of the C14 harnesses: it runs the real savers
// of AdGuard Home in a child process under strace, cuts the trace into one
// window per save, translates it into the syscall alphabet of the Lean model
// (lean/AGH/Model/FS.lean) and polls the destination with a concurrent reader.
//
// It is compiled into the AdGuard Home module only through `go test -overlay`
// (checks/C14.json, extra_overlay); no file is added to /repo.
package vc14

import (
	"bufio"
	"crypto/sha256"
	"encoding/hex"
	"fmt"
	"io"
	"os"
	"os/exec"
	"os/signal"
	"path/filepath"
	"runtime"
	"sort"
	"strconv"
	"strings"
	"sync"
	"syscall"
	"testing"
	"time"
	"unsafe"
)

const (
	envChild   = "VERIF_C14_CHILD"
	markerRoot = "/__verif_c14__/"

	// traceSet is what strace reports.  Everything that can create, modify,
	// rename or remove a file is in it, so that an unexpected way of writing
	// shows up as an unsupported event and not as silence.
	traceSet = "trace=open,openat,openat2,creat,write,pwrite64,writev,pwritev,pwritev2,fsync,fdatasync," +
		"sync_file_range,rename,renameat,renameat2,unlink,unlinkat,close,ftruncate,truncate," +
		"fallocate,copy_file_range,sendfile,link,linkat,symlink,symlinkat,dup,dup2,dup3"
)

// IsChild reports whether this process is the traced child.
func IsChild() bool { return os.Getenv(envChild) != "" }

func hexs(s string) string {
	if s == "" {
		return "-"
	}

	return hex.EncodeToString([]byte(s))
}

// ---------------------------------------------------------------- child side

var winNo int

func marker(kind string, n int) {
	_ = syscall.Unlink(markerRoot + kind + strconv.Itoa(n))
}

// Window runs f between two marker syscalls; the parent keeps the events of
// exactly this part of the trace.  At most one window per command.
func Window(f func()) {
	marker("b", winNo)
	defer marker("e", winNo)
	f()
}

// ChildLoop serves commands of the parent: one TAB-separated line on fd 3 per
// command, one line on fd 4 per answer.  handle must call Window at most once.
func ChildLoop(handle func(fields []string) []string) {
	in := bufio.NewReaderSize(os.NewFile(3, "cmd"), 1<<20)
	out := os.NewFile(4, "resp")
	for {
		line, err := in.ReadString('\n')
		if err != nil {
			return
		}
		fields := strings.Split(strings.TrimRight(line, "\n"), "\t")
		n, _ := strconv.Atoi(fields[0])
		winNo = n
		if Injected() != "" {
			quiesce()
		}
		resp := func() (resp []string) {
			defer func() {
				if v := recover(); v != nil {
					resp = []string{"PANIC", hexs(fmt.Sprint(v))}
				}
			}()

			return handle(fields[1:])
		}()
		if Injected() != "" {
			// Finalise what this command leaked now, after its window and before
			// the end marker: the parent hands these closes to the next window.
			quiesce()
		}
		// An empty window if the command had none, so that the parent can always
		// synchronise on the end marker.
		marker("z", n)
		_, _ = out.WriteString(strings.Join(resp, "\t") + "\n")
	}
}

// quiesce lets the garbage collector finalise (close) files leaked by earlier
// failed saves NOW, between two windows and while this goroutine waits, so that
// their close(2) calls neither fall into a window nor race with descriptor
// numbers being handed out again.
func quiesce() {
	for i := 0; i < 2; i++ {
		done := make(chan struct{})
		sentinel := &struct{ pad [64]byte }{}
		runtime.SetFinalizer(sentinel, func(*struct{ pad [64]byte }) { close(done) })
		sentinel = nil
		_ = sentinel
		runtime.GC()
		select {
		case <-done:
		case <-time.After(2 * time.Second):
		}
	}
}

// FileSum describes a file's content for the reader check: "absent" or
// "<len>:<sha256>".
func FileSum(p string) string {
	b, err := os.ReadFile(p)
	if err != nil {
		return "absent"
	}

	return Sum(b)
}

// Sum is FileSum for bytes.
func Sum(b []byte) string {
	h := sha256.Sum256(b)

	return strconv.Itoa(len(b)) + ":" + hex.EncodeToString(h[:8])
}

// ---------------------------------------------------------------- parent side

// Child is a traced child process.
type Child struct {
	cmd    *exec.Cmd
	cmdW   *os.File
	respR  *bufio.Reader
	trace  *bufio.Reader
	traceF *os.File
	n      int
	fds    map[int]bool
	pend   map[string]string
	roots  map[string]string // absolute prefix -> short name ("W", "T")
	dead   bool
	carry  []string
	inWin  map[int]bool // descriptor -> it was opened inside a window
}

func closedFd(ev string) int {
	n, _ := strconv.Atoi(strings.TrimPrefix(ev, "x:"))

	return n
}

// Start launches the current test binary again, under strace, in child mode.
func Start(t testing.TB, testName, dir string) (c *Child) {
	tracePath := filepath.Join(dir, "strace.out")
	if keep := os.Getenv("VERIF_C14_KEEPTRACE"); keep != "" {
		tracePath = keep
	}
	tf, err := os.Create(tracePath)
	if err != nil {
		t.Fatal(err)
	}
	cmdR, cmdW, _ := os.Pipe()
	respR, respW, _ := os.Pipe()

	args := []string{"-f", "-qq", "-s", "0", "-o", tracePath, "-e", traceSet}
	if os.Getenv("VERIF_C14_NOSECCOMP") == "" {
		args = append([]string{"--seccomp-bpf"}, args...)
	}
	if inj := os.Getenv("VERIF_C14_INJECT"); inj != "" {
		// strace's own fault injection, e.g. "fsync:error=EIO": the syscall is not
		// performed and fails in the child for its whole life.
		args = append(args, "-e", "inject="+inj)
	}
	args = append(args, os.Args[0], "-test.run", "^"+testName+"$", "-test.timeout", "0")
	cmd := exec.Command("strace", args...)
	cmd.Env = append(os.Environ(), envChild+"=1")
	cmd.ExtraFiles = []*os.File{cmdR, respW}
	cmd.Stdout = io.Discard
	cmd.Stderr = io.Discard
	if os.Getenv("VERIF_C14_DEBUG") != "" {
		cmd.Stderr = os.Stderr
	}
	if err = cmd.Start(); err != nil {
		t.Fatalf("starting strace: %s", err)
	}
	_ = cmdR.Close()
	_ = respW.Close()

	return &Child{
		cmd: cmd, cmdW: cmdW, respR: bufio.NewReaderSize(respR, 1<<20),
		traceF: tf, trace: bufio.NewReaderSize(tf, 1<<20),
		fds: map[int]bool{}, pend: map[string]string{}, roots: map[string]string{}, inWin: map[int]bool{},
	}
}

// SetRoots declares the directories whose files matter; paths below them are
// written as "<name>/<rest>".
func (c *Child) SetRoots(roots map[string]string) { c.roots = roots }

// Stop ends the child.
func (c *Child) Stop() {
	_ = c.cmdW.Close()
	done := make(chan struct{})
	go func() { _ = c.cmd.Wait(); close(done) }()
	select {
	case <-done:
	case <-time.After(10 * time.Second):
		_ = c.cmd.Process.Kill()
	}
	_ = c.traceF.Close()
}

// Rel maps an absolute path to its canonical protocol form, ok=false when the
// path is outside the declared roots.
func (c *Child) Rel(p string) (string, bool) {
	for abs, name := range c.roots {
		if p == abs {
			return name, true
		}
		if strings.HasPrefix(p, abs+"/") {
			return name + p[len(abs):], true
		}
	}

	return p, false
}

// Do sends one command and returns the child's answer and the events of its
// window in the model's alphabet.
func (c *Child) Do(fields ...string) (resp []string, events []string, err error) {
	if c.dead {
		return nil, nil, fmt.Errorf("child is dead")
	}
	c.n++
	if len(fields) > 0 && fields[0] == "reset" {
		// A new block: the model starts from an empty file system, so descriptors
		// leaked in earlier blocks are none of its business.
		c.fds, c.inWin, c.carry = map[int]bool{}, map[int]bool{}, nil
	}
	_, err = c.cmdW.WriteString(strconv.Itoa(c.n) + "\t" + strings.Join(fields, "\t") + "\n")
	if err != nil {
		c.dead = true

		return nil, nil, err
	}
	type rr struct {
		s   string
		err error
	}
	ch := make(chan rr, 1)
	go func() {
		s, rerr := c.respR.ReadString('\n')
		ch <- rr{s, rerr}
	}()
	var line string
	select {
	case r := <-ch:
		if r.err != nil {
			c.dead = true

			return nil, nil, fmt.Errorf("child closed the pipe: %w", r.err)
		}
		line = r.s
	case <-time.After(10 * time.Minute):
		c.dead = true
		_ = c.cmd.Process.Kill()

		return nil, nil, fmt.Errorf("child timed out")
	}
	resp = strings.Split(strings.TrimRight(line, "\n"), "\t")
	events, err = c.readWindow(c.n)

	return resp, events, err
}

// readLine returns the next complete line of the growing trace file.
func (c *Child) readLine(deadline time.Time) (string, error) {
	var sb strings.Builder
	for {
		part, err := c.trace.ReadString('\n')
		sb.WriteString(part)
		if err == nil {
			return strings.TrimRight(sb.String(), "\n"), nil
		}
		if time.Now().After(deadline) {
			return "", fmt.Errorf("trace: timed out waiting for strace output")
		}
		time.Sleep(200 * time.Microsecond)
	}
}

// readWindow consumes the trace up to the final marker of command n.
func (c *Child) readWindow(n int) (events []string, err error) {
	deadline := time.Now().Add(60 * time.Second)
	// Closes of leaked descriptors outside the window: those seen before it began
	// (or after the previous one ended) are reported in front of its events, those
	// seen after it ended wait for the next window — never in front of the open
	// they belong to.
	in, began, ended := false, false, false
	carry := c.carry
	c.carry = nil
	defer func() {
		if err == nil {
			events = append(carry, events...)
		}
	}()
	for {
		var line string
		line, err = c.readLine(deadline)
		if err != nil {
			return nil, err
		}
		sc, ok := c.parseLine(line)
		if !ok {
			continue
		}
		if (sc.name == "unlinkat" || sc.name == "unlink") && len(sc.args) >= 1 {
			p := sc.args[len(sc.args)-1]
			if sc.name == "unlinkat" {
				p = sc.args[1]
			}
			if s, isStr := unquote(p); isStr && strings.HasPrefix(s, markerRoot) {
				switch m := s[len(markerRoot):]; {
				case m == "b"+strconv.Itoa(n):
					in, began = true, true
				case m == "e"+strconv.Itoa(n):
					in, ended = false, true
				case m == "z"+strconv.Itoa(n):
					if !began {
						// A command without a window (reset, put): its events are not
						// reported, so keep the closes for the next save.
						c.carry = append(carry, c.carry...)
						carry = nil
					}

					return events, nil
				}

				continue
			}
		}
		ev := c.event(sc)
		if ev != "" && (ev[0] == 'c' || ev[0] == 'o') && ev[1] == ':' {
			c.inWin[int(sc.ret)] = in
		}
		switch {
		case ev == "":
		case in:
			events = append(events, ev)
		case strings.HasPrefix(ev, "x:") && c.inWin[closedFd(ev)]:
			// A tracked descriptor closed between windows (a leaked file finalised
			// by the garbage collector).
			if ended {
				c.carry = append(c.carry, ev)
			} else {
				carry = append(carry, ev)
			}
		}
	}
}

type sysc struct {
	name string
	args []string
	ret  int64
	ok   bool
}

// parseLine parses one strace line (handling unfinished/resumed pairs).
func (c *Child) parseLine(line string) (sc sysc, ok bool) {
	sp := strings.IndexByte(line, ' ')
	if sp < 0 {
		return sc, false
	}
	pid, rest := line[:sp], strings.TrimLeft(line[sp:], " ")
	if strings.HasPrefix(rest, "---") || strings.HasPrefix(rest, "+++") {
		return sc, false
	}
	if strings.HasSuffix(rest, "<unfinished ...>") {
		head := strings.TrimSuffix(rest, "<unfinished ...>")
		if strings.HasPrefix(head, "close(") {
			// The descriptor is released when close is entered: another thread may
			// be handed the same number before this call returns.  Order it here.
			c.pend[pid] = "\x00skip"
			rest = strings.TrimRight(head, " ") + ") = 0"
		} else {
			c.pend[pid] = head

			return sc, false
		}
	} else if strings.HasPrefix(rest, "<... ") {
		i := strings.Index(rest, "resumed>")
		if i < 0 {
			return sc, false
		}
		if c.pend[pid] == "\x00skip" {
			delete(c.pend, pid)

			return sc, false
		}
		rest = c.pend[pid] + rest[i+len("resumed>"):]
		delete(c.pend, pid)
	}
	op := strings.IndexByte(rest, '(')
	eqs := strings.LastIndex(rest, " = ")
	if op < 0 || eqs < 0 {
		return sc, false
	}
	// strace pads the closing parenthesis to a column: ")      = 0".
	head := strings.TrimRight(rest[:eqs], " ")
	if !strings.HasSuffix(head, ")") || len(head)-1 < op {
		return sc, false
	}
	eq := len(head) - 1
	sc.name = rest[:op]
	sc.args = splitArgs(rest[op+1 : eq])
	rs := strings.Fields(rest[eqs+3:])
	if len(rs) == 0 {
		return sc, false
	}
	v, perr := strconv.ParseInt(rs[0], 0, 64)
	sc.ret, sc.ok = v, perr == nil && v >= 0

	return sc, true
}

// splitArgs splits at top-level commas (outside quotes, braces, brackets).
func splitArgs(s string) (args []string) {
	depth, inq, start := 0, false, 0
	for i := 0; i < len(s); i++ {
		ch := s[i]
		switch {
		case inq:
			if ch == '\\' {
				i++
			} else if ch == '"' {
				inq = false
			}
		case ch == '"':
			inq = true
		case ch == '{' || ch == '[' || ch == '(':
			depth++
		case ch == '}' || ch == ']' || ch == ')':
			depth--
		case ch == ',' && depth == 0:
			args = append(args, strings.TrimSpace(s[start:i]))
			start = i + 1
		}
	}
	if strings.TrimSpace(s[start:]) != "" || len(args) > 0 {
		args = append(args, strings.TrimSpace(s[start:]))
	}

	return args
}

// unquote decodes a C-style quoted strace string.
func unquote(a string) (s string, ok bool) {
	if len(a) < 2 || a[0] != '"' {
		return "", false
	}
	end := strings.LastIndexByte(a, '"')
	if end <= 0 {
		return "", false
	}
	body := a[1:end]
	var sb strings.Builder
	for i := 0; i < len(body); i++ {
		ch := body[i]
		if ch != '\\' || i+1 >= len(body) {
			sb.WriteByte(ch)

			continue
		}
		i++
		switch e := body[i]; e {
		case 'n':
			sb.WriteByte('\n')
		case 't':
			sb.WriteByte('\t')
		case 'r':
			sb.WriteByte('\r')
		case 'v':
			sb.WriteByte('\v')
		case 'f':
			sb.WriteByte('\f')
		case 'x':
			if i+3 <= len(body) {
				v, err := strconv.ParseUint(body[i+1:i+3], 16, 8)
				if err == nil {
					sb.WriteByte(byte(v))
					i += 2

					continue
				}
			}
			sb.WriteByte('x')
		default:
			if e >= '0' && e <= '7' {
				j := i
				for j < len(body) && j < i+3 && body[j] >= '0' && body[j] <= '7' {
					j++
				}
				v, _ := strconv.ParseUint(body[i:j], 8, 16)
				sb.WriteByte(byte(v))
				i = j - 1
			} else {
				sb.WriteByte(e)
			}
		}
	}

	return sb.String(), true
}

func hasFlag(flags, f string) bool {
	for _, x := range strings.Split(flags, "|") {
		if x == f {
			return true
		}
	}

	return false
}

// event translates one successful syscall into the model alphabet ("" = not
// relevant).  The descriptor table is maintained over the whole trace.
func (c *Child) event(sc sysc) string {
	if !sc.ok {
		return ""
	}
	fdArg := func(i int) (int, bool) {
		if i >= len(sc.args) {
			return 0, false
		}
		v, err := strconv.Atoi(sc.args[i])

		return v, err == nil
	}
	pathArg := func(dirIdx, i int) (string, bool, bool) {
		if i >= len(sc.args) {
			return "", false, false
		}
		p, isStr := unquote(sc.args[i])
		if !isStr {
			return "", false, false
		}
		if !filepath.IsAbs(p) {
			// Relative to a directory descriptor or the cwd: the harness only
			// uses absolute paths, so this cannot be one of ours unless AT_FDCWD
			// is combined with a relative name, which is resolved against cwd.
			if dirIdx >= 0 && sc.args[dirIdx] != "AT_FDCWD" {
				return p, false, true
			}
			wd, _ := os.Getwd()
			p = filepath.Join(wd, p)
		}
		rel, in := c.Rel(p)

		return rel, in, true
	}

	switch sc.name {
	case "open", "openat", "openat2", "creat":
		var p, flags string
		var in, ok bool
		switch sc.name {
		case "open":
			p, in, ok = pathArg(-1, 0)
			if len(sc.args) > 1 {
				flags = sc.args[1]
			}
		case "creat":
			p, in, ok = pathArg(-1, 0)
			flags = "O_WRONLY|O_CREAT|O_TRUNC"
		default:
			p, in, ok = pathArg(0, 1)
			if len(sc.args) > 2 {
				flags = sc.args[2]
			}
		}
		if !ok || !in {
			return ""
		}
		if sc.name == "openat2" {
			return "q:openat2"
		}
		wr := hasFlag(flags, "O_WRONLY") || hasFlag(flags, "O_RDWR") || hasFlag(flags, "O_CREAT") ||
			hasFlag(flags, "O_TRUNC")
		if !wr || hasFlag(flags, "O_DIRECTORY") || hasFlag(flags, "O_PATH") {
			return ""
		}
		fd := int(sc.ret)
		c.fds[fd] = true
		switch {
		case hasFlag(flags, "O_APPEND") || hasFlag(flags, "O_TMPFILE"):
			return "q:open-" + strings.ToLower(flags)
		case hasFlag(flags, "O_CREAT") && hasFlag(flags, "O_EXCL"):
			return fmt.Sprintf("c:%s:%d", hexs(p), fd)
		default:
			tr := "0"
			if hasFlag(flags, "O_TRUNC") {
				tr = "1"
			}

			return fmt.Sprintf("o:%s:%d:%s", hexs(p), fd, tr)
		}
	case "write":
		fd, ok := fdArg(0)
		if !ok || !c.fds[fd] {
			return ""
		}

		return fmt.Sprintf("w:%d:%d", fd, sc.ret)
	case "fsync", "fdatasync":
		fd, ok := fdArg(0)
		if !ok || !c.fds[fd] {
			return ""
		}

		return fmt.Sprintf("s:%d", fd)
	case "close":
		fd, ok := fdArg(0)
		if !ok || !c.fds[fd] {
			return ""
		}
		delete(c.fds, fd)

		return fmt.Sprintf("x:%d", fd)
	case "pwrite64", "writev", "pwritev", "pwritev2", "ftruncate", "fallocate", "sync_file_range",
		"dup", "dup2", "dup3":
		fd, ok := fdArg(0)
		if !ok || !c.fds[fd] {
			return ""
		}

		return "q:" + sc.name
	case "copy_file_range", "sendfile":
		// The output descriptor is argument 2 (copy_file_range) or 0 (sendfile).
		idx := 2
		if sc.name == "sendfile" {
			idx = 0
		}
		fd, ok := fdArg(idx)
		if !ok || !c.fds[fd] {
			return ""
		}

		return "q:" + sc.name
	case "rename", "renameat", "renameat2":
		var a, b string
		var ina, inb, oka, okb bool
		if sc.name == "rename" {
			a, ina, oka = pathArg(-1, 0)
			b, inb, okb = pathArg(-1, 1)
		} else {
			a, ina, oka = pathArg(0, 1)
			b, inb, okb = pathArg(2, 3)
		}
		if !oka || !okb || (!ina && !inb) {
			return ""
		}
		if sc.name == "renameat2" && len(sc.args) > 4 && sc.args[4] != "0" {
			return "q:renameat2-" + sc.args[4]
		}

		return fmt.Sprintf("r:%s:%s", hexs(a), hexs(b))
	case "unlink", "unlinkat":
		var a string
		var in, ok bool
		if sc.name == "unlink" {
			a, in, ok = pathArg(-1, 0)
		} else {
			a, in, ok = pathArg(0, 1)
			if len(sc.args) > 2 && strings.Contains(sc.args[2], "AT_REMOVEDIR") {
				return ""
			}
		}
		if !ok || !in {
			return ""
		}

		return "u:" + hexs(a)
	case "truncate", "link", "symlink":
		a, ina, _ := pathArg(-1, 0)
		b, inb, _ := pathArg(-1, 1)
		_, _ = a, b
		if ina || inb {
			return "q:" + sc.name
		}
	case "linkat":
		_, ina, _ := pathArg(0, 1)
		_, inb, _ := pathArg(2, 3)
		if ina || inb {
			return "q:linkat"
		}
	case "symlinkat":
		_, inb, _ := pathArg(1, 2)
		if inb {
			return "q:symlinkat"
		}
	}

	return ""
}

// ---------------------------------------------------------------- reader

// Reader polls a path from the parent process while a save runs.
type Reader struct {
	path  string
	stop  chan struct{}
	wg    sync.WaitGroup
	mu    sync.Mutex
	seen  map[string]int
	reads int
}

// StartReader starts polling p.
func StartReader(p string) (r *Reader) {
	r = &Reader{path: p, stop: make(chan struct{}), seen: map[string]int{}}
	r.wg.Add(1)
	go func() {
		defer r.wg.Done()
		for {
			select {
			case <-r.stop:
				return
			default:
			}
			s := FileSum(p)
			r.mu.Lock()
			r.seen[s]++
			r.reads++
			r.mu.Unlock()
		}
	}()

	return r
}

// Stop ends the polling and returns the number of reads and how many of them
// returned something other than the given complete versions.
func (r *Reader) Stop(allowed ...string) (reads, bad int) {
	close(r.stop)
	r.wg.Wait()
	for s, n := range r.seen {
		ok := false
		for _, a := range allowed {
			ok = ok || s == a
		}
		if !ok {
			bad += n
		}
	}

	return r.reads, bad
}

// ListFiles returns the regular files of the given directories in protocol
// form, sorted bytewise.
func (c *Child) ListFiles(dirs ...string) (names []string) {
	for _, d := range dirs {
		ents, err := os.ReadDir(d)
		if err != nil {
			continue
		}
		for _, e := range ents {
			if e.IsDir() {
				continue
			}
			rel, _ := c.Rel(filepath.Join(d, e.Name()))
			names = append(names, rel)
		}
	}
	sort.Strings(names)
	for i := range names {
		names[i] = hexs(names[i])
	}

	return names
}

// ---------------------------------------------------------------- fault injection

const (
	fsIocGetFlags = 0x80086601
	fsIocSetFlags = 0x40086602
	fsImmutableFl = 0x00000010
)

// SetImmutable sets or clears the immutable attribute of a directory (chattr
// ±i): nothing can be created, renamed or removed in it, while the content of
// the files it already holds can still be rewritten in place.  It is how the
// harnesses make the atomic writer fail without touching the code under test.
func SetImmutable(dir string, on bool) (err error) {
	f, err := os.Open(dir)
	if err != nil {
		return err
	}
	defer f.Close()

	var flags int
	_, _, e := syscall.Syscall(syscall.SYS_IOCTL, f.Fd(), fsIocGetFlags, uintptr(unsafe.Pointer(&flags)))
	if e != 0 {
		return e
	}
	if on {
		flags |= fsImmutableFl
	} else {
		flags &^= fsImmutableFl
	}
	_, _, e = syscall.Syscall(syscall.SYS_IOCTL, f.Fd(), fsIocSetFlags, uintptr(unsafe.Pointer(&flags)))
	if e != 0 {
		return e
	}

	return nil
}

// CanImmutable reports whether SetImmutable works below dir.
func CanImmutable(dir string) bool {
	d, err := os.MkdirTemp(dir, "imm")
	if err != nil {
		return false
	}
	defer os.Remove(d)
	if SetImmutable(d, true) != nil {
		return false
	}
	_, cerr := os.Create(filepath.Join(d, "x"))
	_ = SetImmutable(d, false)
	_ = os.Remove(filepath.Join(d, "x"))

	return cerr != nil
}

// ClearImmutable clears the attribute on every directory below root (cleanup
// after a crashed child).
func ClearImmutable(root string) {
	_ = filepath.WalkDir(root, func(p string, d os.DirEntry, err error) error {
		if err == nil && d.IsDir() {
			_ = SetImmutable(p, false)
		}

		return nil
	})
}

// Probe is the value of the save line's probe field for a block mode and a
// per-save fault: same | xdev | notmp | faildir, optionally followed by
// "+fsize=<n>" (write fault: RLIMIT_FSIZE of n bytes around the save).
func Probe(blockMode, fault string) string {
	switch {
	case fault == "":
		return blockMode
	case strings.HasPrefix(fault, "fsize="):
		return blockMode + "+" + fault
	default:
		return fault
	}
}

// Injected reports the syscall whose failure strace injects for this run ("" if none).
func Injected() string {
	inj := os.Getenv("VERIF_C14_INJECT")
	if i := strings.IndexByte(inj, ':'); i >= 0 {
		return inj[:i]
	}

	return inj
}

// FsizeOf returns the write-fault limit of a probe field, -1 if there is none.
func FsizeOf(probe string) int64 {
	if i := strings.Index(probe, "+fsize="); i >= 0 {
		n, err := strconv.ParseInt(probe[i+len("+fsize="):], 10, 64)
		if err == nil {
			return n
		}
	}

	return -1
}

var ignoreXFSZ sync.Once

// WithFault runs f (which contains the Window) with the given fault injected:
// "notmp" points TMPDIR at a directory that does not exist, "faildir" makes the
// destination directory immutable, "+fsize=n" makes every write beyond n bytes
// of a file fail with EFBIG (SIGXFSZ ignored) — the stand-in for ENOSPC/EIO.
func WithFault(probe, dest string, f func()) {
	base := probe
	if i := strings.IndexByte(probe, '+'); i >= 0 {
		base = probe[:i]
	}
	switch base {
	case "notmp":
		old := os.Getenv("TMPDIR")
		_ = os.Setenv("TMPDIR", filepath.Join(old, "does-not-exist"))
		defer os.Setenv("TMPDIR", old)
	case "faildir":
		if err := SetImmutable(filepath.Dir(dest), true); err != nil {
			panic(err)
		}
		defer SetImmutable(filepath.Dir(dest), false)
	}
	if n := FsizeOf(probe); n >= 0 {
		ignoreXFSZ.Do(func() { signal.Ignore(syscall.SIGXFSZ) })
		var lim syscall.Rlimit
		if err := syscall.Getrlimit(syscall.RLIMIT_FSIZE, &lim); err != nil {
			panic(err)
		}
		low := lim
		low.Cur = uint64(n)
		if err := syscall.Setrlimit(syscall.RLIMIT_FSIZE, &low); err != nil {
			panic(err)
		}
		defer func() {
			if err := syscall.Setrlimit(syscall.RLIMIT_FSIZE, &lim); err != nil {
				panic(err)
			}
		}()
	}
	f()
}
