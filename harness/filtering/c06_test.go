//go:build verif

package filtering

import (
	"fmt"
	"math/rand/v2"
	"net/netip"
	"strings"
	"testing"
	"time"

	"github.com/AdguardTeam/AdGuardHome/internal/vutil"
)

// C06 harness: legacy DNS rewrites.  One case = (table, host, qtype); the
// observation is the result of the real processRewrites and of the real
// CheckHost on a DNSFilter built by New (all other host checkers present and
// idle).  The table goes through the real prepareRewrites/normalize.

var (
	c06T     *testing.T
	c06D     *DNSFilter
	c06Setts *Settings
	c06Hangs int
)

// c06Deadline bounds one case (normally microseconds).  A case that does not
// return is reported as HANG; its goroutine keeps the old DNSFilter (and its
// read lock), so a fresh one is built.  After c06MaxHangs the remaining cases
// are skipped.
const (
	c06Deadline = 5 * time.Second
	c06MaxHangs = 3
)

func c06Fmt(res Result) (out []string) {
	var r string
	switch res.Reason {
	case NotFilteredNotFound:
		r = "N"
	case Rewritten:
		r = "R"
	case FilteredBlockList:
		r = "B"
	default:
		r = "X" + vutil.Itoa(int(res.Reason))
	}
	out = []string{r, vutil.Hex(res.CanonName), vutil.Itoa(len(res.IPList))}
	for _, ip := range res.IPList {
		out = append(out, vutil.Hex(ip.String()))
	}

	return out
}

// c06Run executes one case on the implementation.
//
//	C06.rw  n  (domain answer kind ip)×n  host  qtype
//
// kind/ip are the oracle value of netip.ParseAddr(answer) for the model; the
// implementation parses the answer itself.
func c06Run(f []string) []string {
	if f[0] != "C06.rw" {
		panic("unknown op " + f[0])
	}
	n := vutil.Atoi(f[1])
	rws := make([]*LegacyRewrite, n)
	for i := range rws {
		rws[i] = &LegacyRewrite{Domain: vutil.Unhex(f[2+4*i]), Answer: vutil.Unhex(f[3+4*i])}
	}
	host := vutil.Unhex(f[2+4*n])
	qt := uint16(vutil.Atoi(f[3+4*n]))

	if c06Hangs >= c06MaxHangs {
		return []string{"SKIP"}
	}
	d := c06D
	ch := make(chan []string, 1)
	go func() {
		defer func() {
			if v := recover(); v != nil {
				ch <- []string{"PANIC", vutil.Hex(fmt.Sprint(v))}
			}
		}()
		ch <- c06Do(d, rws, host, qt)
	}()
	select {
	case out := <-ch:
		return out
	case <-time.After(c06Deadline):
		c06Hangs++
		c06D, c06Setts = newForTest(c06T, nil, nil)

		return []string{"HANG"}
	}
}

// c06Do runs the implementation on one case.
func c06Do(d *DNSFilter, rws []*LegacyRewrite, host string, qt uint16) []string {
	d.confMu.Lock()
	d.conf.Rewrites = rws
	d.confMu.Unlock()
	if err := d.prepareRewrites(); err != nil {
		return []string{"E", vutil.Hex(err.Error())}
	}

	out := c06Fmt(d.processRewrites(host, qt))
	chk, err := d.CheckHost(host, qt, c06Setts)
	if err != nil {
		return append(out, "E", vutil.Hex(err.Error()))
	}

	return append(out, c06Fmt(chk)...)
}

var (
	c06V4 = []string{"1.1.1.1", "1.1.1.2", "0.0.0.0", "127.0.0.1"}
	c06V6 = []string{"::1", "2001:db8::1", "::ffff:1.2.3.4", "0:0:0:0:0:0:0:1", "fe80::1%eth0", "::"}
	// answers that look special but are not
	c06OddAns = []string{"a", "aaaa", "Aaaa", "01.2.3.4", "1.2.3", "x.com.", "A.x.com", " A", "*", "", "1.1.1.1.", "[::1]"}
	c06OddPat = []string{"*", "*.", "*x.com", ".x.com", "", "*.*.x.com", "**.x.com", "*.", "x.com.", "*.x.com."}
	c06QOther = []int{5, 65, 16, 255, 0, 12, 2, 29}
)

type c06Univ struct {
	names []string // non-wildcard names, dense
	wilds []string // wildcard patterns covering some of them

	// per-case profile, in percent
	pWild int // wildcard patterns among domains
	pName int // answers that are names (CNAME)
	pSelf int // answers that are the pattern itself / the queried name
	pExc  int // "A"/"AAAA" answers
}

// c06NewUniv picks a small universe so that chains, cycles, shadowing and
// duplicates are dense.
func c06NewUniv(r *rand.Rand, small bool) (u c06Univ) {
	base := vutil.Pick(r, []string{"x", "y"}) + "." + vutil.Pick(r, []string{"com", "net"})
	tld := base[strings.IndexByte(base, '.')+1:]
	all := []string{
		base, "a." + base, "b." + base, "c." + base, "a.b." + base, "c.a.b." + base, "b.b." + base,
		"y.org", "a.y.org", "zzz.org", "sub." + base, tld,
	}
	wilds := []string{"*." + base, "*.b." + base, "*.a.b." + base, "*." + tld, "*.y.org", "*.sub." + base, "*.org"}
	k := 2 + r.IntN(6)
	kw := r.IntN(4)
	if small {
		k = 1 + r.IntN(3)
		kw = r.IntN(3)
	}
	r.Shuffle(len(all), func(i, j int) { all[i], all[j] = all[j], all[i] })
	r.Shuffle(len(wilds), func(i, j int) { wilds[i], wilds[j] = wilds[j], wilds[i] })
	u.names = all[:k]
	u.wilds = wilds[:kw]
	// bias: wildcards that cover the chosen names
	for _, n := range u.names {
		if i := strings.IndexByte(n, '.'); i >= 0 && r.IntN(3) == 0 {
			u.wilds = append(u.wilds, "*"+n[i:])
		}
	}
	if len(u.wilds) == 0 && r.IntN(2) == 0 {
		u.wilds = append(u.wilds, "*."+base)
	}
	u.pWild = vutil.Pick(r, []int{0, 15, 35, 35, 60, 90})
	u.pName = vutil.Pick(r, []int{0, 10, 25, 45, 45, 80})
	u.pSelf = vutil.Pick(r, []int{0, 0, 0, 3, 8, 20})
	u.pExc = vutil.Pick(r, []int{0, 0, 5, 10, 25})

	return u
}

func c06Case(s string, r *rand.Rand) string {
	switch r.IntN(3) {
	case 0:
		return strings.ToUpper(s)
	default:
		b := []byte(s)
		for i := range b {
			if r.IntN(3) == 0 && b[i] >= 'a' && b[i] <= 'z' {
				b[i] -= 32
			}
		}

		return string(b)
	}
}

func (u c06Univ) domain(r *rand.Rand) string {
	if p := r.IntN(100); p < 88 {
		if len(u.wilds) > 0 && r.IntN(100) < u.pWild {
			return vutil.Pick(r, u.wilds)
		}

		return vutil.Pick(r, u.names)
	}
	switch p := r.IntN(100); {
	case p < 50:
		if len(u.wilds) > 0 && r.IntN(2) == 0 {
			return c06Case(vutil.Pick(r, u.wilds), r)
		}

		return c06Case(vutil.Pick(r, u.names), r)
	default:
		return vutil.Pick(r, c06OddPat)
	}
}

func (u c06Univ) answer(r *rand.Rand, dom, host string) string {
	if r.IntN(100) < u.pSelf {
		if r.IntN(3) == 0 {
			return host // back to the queried name
		}

		return dom // pattern onto itself (with the configured spelling)
	}
	if r.IntN(100) < u.pExc {
		return vutil.Pick(r, []string{"A", "AAAA"})
	}
	if r.IntN(100) < u.pName {
		switch p := r.IntN(100); {
		case p < 80:
			return vutil.Pick(r, u.names)
		case p < 86 && len(u.wilds) > 0:
			return vutil.Pick(r, u.wilds)
		case p < 95:
			return "q." + vutil.Pick(r, u.names) // only wildcards cover it
		default:
			return vutil.Pick(r, c06OddAns)
		}
	}
	switch p := r.IntN(100); {
	case p < 55:
		return vutil.Pick(r, c06V4)
	case p < 97:
		return vutil.Pick(r, c06V6)
	default:
		return vutil.Pick(r, c06OddAns)
	}
}

func (u c06Univ) host(r *rand.Rand) string {
	switch p := r.IntN(100); {
	case p < 60:
		return vutil.Pick(r, u.names)
	case p < 82:
		if len(u.wilds) > 0 && r.IntN(3) > 0 {
			// a name under one of the wildcards
			return vutil.Pick(r, []string{"q", "a", "q.r", "b"}) + vutil.Pick(r, u.wilds)[1:]
		}

		return vutil.Pick(r, []string{"q.", "a.", "q.r.", "b."}) + vutil.Pick(r, u.names)
	case p < 87:
		return c06Case(vutil.Pick(r, u.names), r)
	case p < 91:
		if len(u.wilds) > 0 {
			return vutil.Pick(r, u.wilds) // a query for the literal pattern
		}

		return "*.x.com"
	case p < 94:
		return "unrelated.example"
	case p < 96:
		return ""
	default:
		return vutil.Pick(r, c06OddPat)
	}
}

func c06Qtype(r *rand.Rand) int {
	switch p := r.IntN(100); {
	case p < 45:
		return 1
	case p < 80:
		return 28
	default:
		return vutil.Pick(r, c06QOther)
	}
}

func c06Emit(emit vutil.Emit, tbl [][2]string, host string, qt int) {
	f := []string{"C06.rw", vutil.Itoa(len(tbl))}
	for _, e := range tbl {
		kind, ips := "0", ""
		if ip, err := netip.ParseAddr(e[1]); err == nil {
			kind = "6"
			if ip.Is4() {
				kind = "4"
			}
			ips = ip.String()
		}
		f = append(f, vutil.Hex(e[0]), vutil.Hex(e[1]), kind, vutil.Hex(ips))
	}
	f = append(f, vutil.Hex(host), vutil.Itoa(qt))
	emit(f...)
}

// c06LongChain builds an acyclic CNAME chain h0 -> h1 -> ... -> hn of 2..64
// hops in shuffled table order, ended by nothing (resolved upstream), by a
// back edge (cycle), by an exception entry or by addresses, and asks for a name
// on it (half of the time its head).  "Chains of any length" is part of the
// property; a hop limit would only show here (seed C06-19).
func c06LongChain(r *rand.Rand) (tbl [][2]string, host string) {
	n := vutil.Pick(r, []int{2, 5, 8, 9, 10, 12, 16, 17, 24, 33, 40, 64})
	names := make([]string, n+1)
	for i := range names {
		names[i] = "h" + vutil.Itoa(i) + ".chain.x.com"
	}
	for i := 0; i < n; i++ {
		tbl = append(tbl, [2]string{names[i], names[i+1]})
	}
	switch r.IntN(6) {
	case 0:
		// the chain leaves the table
	case 1:
		tbl = append(tbl, [2]string{names[n], names[r.IntN(n+1)]})
	case 2:
		tbl = append(tbl, [2]string{names[n], vutil.Pick(r, []string{"A", "AAAA"})})
	default:
		tbl = append(tbl, [2]string{names[n], vutil.Pick(r, c06V4)})
		if r.IntN(2) == 0 {
			tbl = append(tbl, [2]string{names[n], vutil.Pick(r, c06V6)})
		}
	}
	r.Shuffle(len(tbl), func(a, b int) { tbl[a], tbl[b] = tbl[b], tbl[a] })
	host = names[0]
	if r.IntN(2) == 0 {
		host = names[r.IntN(n+1)]
	}

	return tbl, host
}

func c06Gen(r *rand.Rand, emit vutil.Emit) {
	n := vutil.N(20000)
	var (
		prev     [][2]string
		prevHost string
		prevQt   int
		prevU    c06Univ
	)
	for i := 0; i < n; i++ {
		// Re-ask the previous table: shuffled (order dependence), reversed,
		// with one entry dropped or duplicated, or for another name/type.
		if len(prev) > 0 && r.IntN(4) == 0 {
			tbl := append([][2]string(nil), prev...)
			host, qt := prevHost, prevQt
			switch r.IntN(6) {
			case 0, 1:
				r.Shuffle(len(tbl), func(a, b int) { tbl[a], tbl[b] = tbl[b], tbl[a] })
			case 2:
				for a, b := 0, len(tbl)-1; a < b; a, b = a+1, b-1 {
					tbl[a], tbl[b] = tbl[b], tbl[a]
				}
			case 3:
				k := r.IntN(len(tbl))
				tbl = append(tbl[:k:k], tbl[k+1:]...)
			case 4:
				tbl = append(tbl, tbl[r.IntN(len(tbl))])
			default:
				host, qt = prevU.host(r), c06Qtype(r)
			}
			c06Emit(emit, tbl, host, qt)
			prev, prevHost, prevQt = tbl, host, qt

			continue
		}

		if r.IntN(100) < 4 {
			// a long CNAME chain (far beyond the dense universe's 7 names)
			tbl, host := c06LongChain(r)
			qt := c06Qtype(r)
			c06Emit(emit, tbl, host, qt)
			prev, prevHost, prevQt, prevU = tbl, host, qt, c06NewUniv(r, false)

			continue
		}

		size, small := 0, false
		switch p := r.IntN(100); {
		case p < 50:
			size = 1 + r.IntN(6)
		case p < 80:
			size = 7 + r.IntN(8)
		default:
			// above Go's insertion-sort threshold: few names, many entries
			size, small = 13+r.IntN(28), r.IntN(4) > 0
		}
		u := c06NewUniv(r, small)
		host := u.host(r)
		tbl := make([][2]string, size)
		for k := range tbl {
			dom := u.domain(r)
			tbl[k] = [2]string{dom, u.answer(r, dom, host)}
		}
		if r.IntN(100) < 70 && host != "" {
			// make sure something covers the queried name (exactly or by a
			// wildcard over one of its suffixes)
			k := r.IntN(len(tbl))
			dom := strings.ToLower(host)
			if i := strings.IndexByte(dom, '.'); i >= 0 && r.IntN(100) < u.pWild {
				dom = "*" + dom[i:]
				if j := strings.IndexByte(dom[2:], '.'); j >= 0 && r.IntN(3) == 0 {
					dom = "*" + dom[2+j:]
				}
			}
			tbl[k] = [2]string{dom, u.answer(r, dom, host)}
		}
		qt := c06Qtype(r)
		c06Emit(emit, tbl, host, qt)
		prev, prevHost, prevQt, prevU = tbl, host, qt, u
	}
}

func TestVerifC06(t *testing.T) {
	c06T = t
	c06D, c06Setts = newForTest(t, nil, nil)
	vutil.Main(t, c06Gen, c06Run)
}
